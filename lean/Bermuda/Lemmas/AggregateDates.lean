/-
C08: month windows from a month-end anchor in closed form (month index arithmetic), through the C12 lemmas of
`Lemmas/DateUtils.lean` (`addMonths_monthEnd_all`, `monthEndOf`). Imports Mathlib modules via that file.
-/
import Bermuda.Lemmas.Aggregate
import Bermuda.Lemmas.DateUtils
namespace Bermuda

/-! ### month windows from a month-end anchor (closed form through `Lemmas/DateUtils.lean`) -/

theorem resolutionDelta_month_agg (d : Date) (q : Int) :
    resolutionDelta d q .month = addMonths d ((q : Int) : Rat) := by
  simp [resolutionDelta]

/-- grid point `k` from a month-end anchor is the last day of month `monthToId anchor + k·q` -/
theorem iterD_month_monthEnd (q : Int) (k : Nat) (init : Date) (hv : init.valid = true)
    (he : init.isMonthEnd = true) :
    iterD q .month k init = monthEndOf (monthToId init + (k : Int) * q) := by
  induction k generalizing init with
  | zero =>
    simp only [iterD, Int.natCast_zero, Int.zero_mul, Int.add_zero]
    exact (monthEndOf_monthToId hv he).symm
  | succ k ih =>
    rw [iterD, resolutionDelta_month_agg, addMonths_monthEnd_all init q he,
      ih _ (monthEndOf_valid _) (monthEndOf_isMonthEnd _), monthToId_monthEndOf]
    congr 1
    push_cast
    ring

theorem monthEndOf_lt {M N : Int} (h : M < N) : monthEndOf M < monthEndOf N := by
  rw [Date.lt_iff_agg]
  simp only [monthEndOf, yearOf, monthOf]
  omega

theorem monthEndOf_le_or {M N : Int} (h : M ≤ N) : monthEndOf M = monthEndOf N ∨ monthEndOf M < monthEndOf N := by
  rcases Int.lt_or_eq_of_le h with h | h
  · exact Or.inr (monthEndOf_lt h)
  · exact Or.inl (by rw [h])

theorem Date.lt_succ_agg (d : Date) : d < d.succ := by
  rw [Date.lt_iff_agg]
  unfold Date.succ
  split
  · right; exact ⟨rfl, Or.inr ⟨rfl, by simp⟩⟩
  · split
    · right; exact ⟨rfl, Or.inl (by simp)⟩
    · left; simp

theorem Date.lt_trans_agg {a b c : Date} (h1 : a < b) (h2 : b < c) : a < c := by
  rw [Date.lt_iff_agg] at *; omega

/-- **month windows from a month-end anchor are disjoint and ordered**: an earlier window ends before a later
one starts (positive quantity) -/
theorem window_disjoint_month_agg {q : Int} {init : Date} (hq : 1 ≤ q) (hv : init.valid = true)
    (he : init.isMonthEnd = true) {j k : Nat} (hjk : j < k) :
    (windowAt q .month init j).2 < (windowAt q .month init k).1 := by
  simp only [windowAt]
  rw [iterD_month_monthEnd q (j + 1) init hv he, iterD_month_monthEnd q k init hv he]
  have hle : monthToId init + ((j + 1 : Nat) : Int) * q ≤ monthToId init + (k : Int) * q := by
    have : ((j + 1 : Nat) : Int) ≤ (k : Int) := by exact_mod_cast hjk
    have := Int.mul_le_mul_of_nonneg_right this (by omega : (0 : Int) ≤ q)
    omega
  have hs := Date.lt_succ_agg (monthEndOf (monthToId init + (k : Int) * q))
  rcases monthEndOf_le_or hle with h | h
  · rw [h]; exact hs
  · exact Date.lt_trans_agg h hs

/-- every month window is non-empty and holds whole months: it starts on the first of a month, ends on a month
end, `q` months later -/
theorem window_month_shape_agg {q : Int} {init : Date} (hv : init.valid = true)
    (he : init.isMonthEnd = true) (k : Nat) :
    (windowAt q .month init k).2 = monthEndOf (monthToId init + ((k : Int) + 1) * q) ∧
    (windowAt q .month init k).1 = (monthEndOf (monthToId init + (k : Int) * q)).succ := by
  simp only [windowAt]
  rw [iterD_month_monthEnd q (k + 1) init hv he, iterD_month_monthEnd q k init hv he]
  exact ⟨by push_cast; rfl, rfl⟩

/-! ### day windows: the lexicographic date order is the order of ordinals -/

theorem daysBeforeMonth_mono_agg (y : Int) {m m' : Nat} (h1 : 1 ≤ m) (h : m ≤ m') :
    daysBeforeMonth y m ≤ daysBeforeMonth y m' := by
  induction m', h using Nat.le_induction with
  | base => exact Nat.le_refl _
  | succ n hn ih =>
    rw [daysBeforeMonth_succ y n (by omega)]
    omega

theorem daysBeforeYear_mono_agg {y y' : Int} (h : y ≤ y') : daysBeforeYear y ≤ daysBeforeYear y' := by
  unfold daysBeforeYear; simp only; omega

theorem ordinal_lt_of_lt_agg {a b : Date} (ha : a.valid = true) (hb : b.valid = true) (h : a < b) :
    a.ordinal < b.ordinal := by
  rw [valid_iff] at ha hb
  rw [Date.lt_iff_agg] at h
  unfold Date.ordinal
  rcases h with h | ⟨hy, h | ⟨hm, hd⟩⟩
  · -- earlier year
    have h1 : (daysBeforeMonth a.y a.m : Int) + a.d ≤ daysBeforeMonth a.y 13 := by
      have := daysBeforeMonth_succ a.y a.m ha.1
      have := daysBeforeMonth_mono_agg a.y (m := a.m + 1) (m' := 13) (by omega) (by omega)
      omega
    rw [daysBeforeMonth_thirteen] at h1
    have h2 := daysBeforeYear_succ' a.y
    have h3 := daysBeforeYear_mono_agg (y := a.y + 1) (y' := b.y) (by omega)
    omega
  · -- same year, earlier month
    rw [hy]
    have := daysBeforeMonth_succ b.y a.m ha.1
    have := daysBeforeMonth_mono_agg b.y (m := a.m + 1) (m' := b.m) (by omega) (by omega)
    rw [hy] at ha
    omega
  · rw [hy, hm]; omega

/-- for valid dates: not later in ordinal ⇒ not later in the date order -/
theorem not_lt_of_ordinal_le_agg {a b : Date} (ha : a.valid = true) (hb : b.valid = true)
    (h : a.ordinal ≤ b.ordinal) : ¬ b < a := by
  intro hlt
  have := ordinal_lt_of_lt_agg hb ha hlt
  omega

theorem resolutionDelta_day_agg (d : Date) (q : Int) : resolutionDelta d q .day = d.addDays q := by
  simp [resolutionDelta]

/-- grid point `k` in day units: valid, `k·q` days after the anchor (inside `date.min … date.max`) -/
theorem iterD_day_agg (q : Int) (hq : 0 ≤ q) (k : Nat) (init : Date) (h1 : 1 ≤ init.ordinal)
    (h2 : init.ordinal + (k : Int) * q ≤ 3652059) (hv : init.valid = true) :
    (iterD q .day k init).valid = true ∧ (iterD q .day k init).ordinal = init.ordinal + (k : Int) * q := by
  induction k generalizing init with
  | zero => simp [iterD, hv]
  | succ k ih =>
    have hk : (0 : Int) ≤ (k : Int) * q := Int.mul_nonneg (by omega) hq
    have e : ((k + 1 : Nat) : Int) * q = (k : Int) * q + q := by push_cast; ring
    rw [e] at h2
    obtain ⟨hv', ho'⟩ := addDays_ordinal init q (by omega) (by omega)
    rw [iterD, resolutionDelta_day_agg]
    obtain ⟨a, b⟩ := ih (init.addDays q) (by omega) (by rw [ho']; omega) hv'
    exact ⟨a, by rw [b, ho', e]; omega⟩

/-- **day windows are disjoint and ordered** (positive quantity, dates inside `date.min … date.max`) -/
theorem window_disjoint_day_agg {q : Int} {init : Date} (hq : 1 ≤ q) (hv : init.valid = true)
    (h1 : 1 ≤ init.ordinal) {j k : Nat} (hjk : j < k)
    (h2 : init.ordinal + (k : Int) * q ≤ 3652059) :
    (windowAt q .day init j).2 < (windowAt q .day init k).1 := by
  simp only [windowAt]
  have hle : ((j + 1 : Nat) : Int) * q ≤ (k : Int) * q :=
    Int.mul_le_mul_of_nonneg_right (by exact_mod_cast hjk) (by omega)
  obtain ⟨va, oa⟩ := iterD_day_agg q (by omega) (j + 1) init h1 (by omega) hv
  obtain ⟨vb, ob⟩ := iterD_day_agg q (by omega) k init h1 h2 hv
  have hn := not_lt_of_ordinal_le_agg va vb (by rw [oa, ob]; omega)
  have hs := Date.lt_succ_agg (iterD q .day k init)
  rw [Date.lt_iff_agg] at *
  omega


end Bermuda
