/-
C08: month windows from a month-end anchor in closed form (month index arithmetic), through the C12 lemmas of
`Lemmas/DateUtils.lean` (`addMonths_monthEnd_all`, `monthEndOf`). Imports Mathlib modules via that file.
-/
import Bermuda.Lemmas.Aggregate
import Bermuda.Lemmas.DateUtils
namespace Bermuda

/-! ### month windows from a month-end anchor (closed form through `Lemmas/DateUtils.lean`) -/

theorem resolutionDelta_month_agg (d : Date) (q : Int) :
    resolutionDelta d q .month = addMonths d ((q : Int) : Rat) := by
  simp [resolutionDelta]

/-- grid point `k` from a month-end anchor is the last day of month `monthToId anchor + k·q` -/
theorem iterD_month_monthEnd (q : Int) (k : Nat) (init : Date) (hv : init.valid = true)
    (he : init.isMonthEnd = true) :
    iterD q .month k init = monthEndOf (monthToId init + (k : Int) * q) := by
  induction k generalizing init with
  | zero =>
    simp only [iterD, Int.natCast_zero, Int.zero_mul, Int.add_zero]
    exact (monthEndOf_monthToId hv he).symm
  | succ k ih =>
    rw [iterD, resolutionDelta_month_agg, addMonths_monthEnd_all init q he,
      ih _ (monthEndOf_valid _) (monthEndOf_isMonthEnd _), monthToId_monthEndOf]
    congr 1
    push_cast
    ring

theorem monthEndOf_lt {M N : Int} (h : M < N) : monthEndOf M < monthEndOf N := by
  rw [Date.lt_iff_agg]
  simp only [monthEndOf, yearOf, monthOf]
  omega

theorem monthEndOf_le_or {M N : Int} (h : M ≤ N) : monthEndOf M = monthEndOf N ∨ monthEndOf M < monthEndOf N := by
  rcases Int.lt_or_eq_of_le h with h | h
  · exact Or.inr (monthEndOf_lt h)
  · exact Or.inl (by rw [h])

theorem Date.lt_succ_agg (d : Date) : d < d.succ := by
  rw [Date.lt_iff_agg]
  unfold Date.succ
  split
  · right; exact ⟨rfl, Or.inr ⟨rfl, by simp⟩⟩
  · split
    · right; exact ⟨rfl, Or.inl (by simp)⟩
    · left; simp

theorem Date.lt_trans_agg {a b c : Date} (h1 : a < b) (h2 : b < c) : a < c := by
  rw [Date.lt_iff_agg] at *; omega

/-- **month windows from a month-end anchor are disjoint and ordered**: an earlier window ends before a later
one starts (positive quantity) -/
theorem window_disjoint_month_agg {q : Int} {init : Date} (hq : 1 ≤ q) (hv : init.valid = true)
    (he : init.isMonthEnd = true) {j k : Nat} (hjk : j < k) :
    (windowAt q .month init j).2 < (windowAt q .month init k).1 := by
  simp only [windowAt]
  rw [iterD_month_monthEnd q (j + 1) init hv he, iterD_month_monthEnd q k init hv he]
  have hle : monthToId init + ((j + 1 : Nat) : Int) * q ≤ monthToId init + (k : Int) * q := by
    have : ((j + 1 : Nat) : Int) ≤ (k : Int) := by exact_mod_cast hjk
    have := Int.mul_le_mul_of_nonneg_right this (by omega : (0 : Int) ≤ q)
    omega
  have hs := Date.lt_succ_agg (monthEndOf (monthToId init + (k : Int) * q))
  rcases monthEndOf_le_or hle with h | h
  · rw [h]; exact hs
  · exact Date.lt_trans_agg h hs

/-- every month window is non-empty and holds whole months: it starts on the first of a month, ends on a month
end, `q` months later -/
theorem window_month_shape_agg {q : Int} {init : Date} (hv : init.valid = true)
    (he : init.isMonthEnd = true) (k : Nat) :
    (windowAt q .month init k).2 = monthEndOf (monthToId init + ((k : Int) + 1) * q) ∧
    (windowAt q .month init k).1 = (monthEndOf (monthToId init + (k : Int) * q)).succ := by
  simp only [windowAt]
  rw [iterD_month_monthEnd q (k + 1) init hv he, iterD_month_monthEnd q k init hv he]
  exact ⟨by push_cast; rfl, rfl⟩

end Bermuda
