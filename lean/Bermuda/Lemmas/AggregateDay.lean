/-
C08, day / week units: the windows in closed form from the requested origin (ordinal arithmetic) and the
bridge `Spec.C08.windowsOk` on the model's output.
-/
import Bermuda.Lemmas.AggregateBridge
namespace Bermuda

theorem Date.pred_succ_agg {d : Date} (hv : d.valid = true) : d.succ.pred = d := by
  rw [valid_iff] at hv
  unfold Date.succ
  split
  · rename_i h
    unfold Date.pred
    simp only
    rw [if_pos (by omega)]
    cases d; simp
  · rename_i h
    split
    · rename_i hm
      unfold Date.pred
      simp only
      rw [if_neg (by omega), if_pos (by omega)]
      cases d with
      | mk y m dd =>
        simp only [Nat.add_sub_cancel, Date.mk.injEq, true_and]
        simp only at h hv
        omega
    · rename_i hm
      unfold Date.pred
      simp only
      rw [if_neg (by omega), if_neg (by omega)]
      cases d with
      | mk y m dd =>
        simp only at h hv hm
        have hm12 : m = 12 := by omega
        subst hm12
        have h31 := dim_twelve y
        rw [h31] at h hv
        have hd : dd = 31 := by omega
        subst hd
        simp

/-- the anchor of day units has a positive ordinal -/
theorem anchorBefore_day_pos {q : Int} {origin bound a : Date} (hq : 1 ≤ q) (hvo : origin.valid = true)
    (hvb : bound.valid = true) (ho1 : 1 ≤ origin.ordinal) (ho2 : origin.ordinal + q ≤ 3652059)
    (hb1 : q < bound.ordinal) (hb2 : bound.ordinal + q ≤ 3652059)
    (h : anchorBefore q .day origin bound = some a) : 1 ≤ a.ordinal := by
  unfold anchorBefore at h
  split at h
  · cases h
  · rename_i a1 hup
    obtain ⟨k1, hv1, ho1', hr1, _⟩ := walkUp_day_agg hq hvb hb2 hvo ho1 ho2 hup
    obtain ⟨k, _, hoa, _, hnext⟩ := walkDown_day_agg hq hvb hb1 hv1 (by omega) h
    have hk1 : (0 : Int) ≤ (k1 : Int) * q := Int.mul_nonneg (by omega) (by omega)
    rcases hnext with rfl | hnext
    · simp at hoa; omega
    · omega

/-- grid points of day units stay inside `date.min … date.max` as long as they lie before a date that has one
step of room -/
theorem grid_day_range {q : Int} (hq : 1 ≤ q) {init b : Date} (hv : init.valid = true)
    (h1 : 1 ≤ init.ordinal) (hvb : b.valid = true) (hb2 : b.ordinal + q ≤ 3652059) :
    ∀ k : Nat, (∀ j ≤ k, iterD q .day j init < b) →
      (iterD q .day k init).valid = true ∧ (iterD q .day k init).ordinal = init.ordinal + (k : Int) * q ∧
      init.ordinal + ((k : Int) + 1) * q ≤ 3652059 := by
  intro k
  induction k with
  | zero =>
    intro hall
    have h0 := hall 0 (Nat.le_refl 0)
    have := ordinal_lt_of_lt_agg hv hvb h0
    refine ⟨hv, by simp [iterD], ?_⟩
    simp only [Int.natCast_zero, Int.zero_add, Int.one_mul]; omega
  | succ k ih =>
    intro hall
    obtain ⟨_, _, hr⟩ := ih (fun j hj => hall j (by omega))
    have e : ((k + 1 : Nat) : Int) * q = ((k : Int) + 1) * q := by push_cast; ring
    obtain ⟨hv', ho'⟩ := iterD_day_agg q (by omega) (k + 1) init h1 (by rw [e]; exact hr) hv
    have hlt := hall (k + 1) (Nat.le_refl _)
    have := ordinal_lt_of_lt_agg hv' hvb hlt
    refine ⟨hv', ho', ?_⟩
    have e2 : (((k + 1 : Nat) : Int) + 1) * q = ((k + 1 : Nat) : Int) * q + q := by ring
    rw [e2]; omega

/-- the closed-form `isWindow` of `Spec.C08` for a day window `[G + 1 day, G']`, `G` and `G'` grid points -/
theorem isWindow_day_agg {q : Int} {origin g g' : Date} {n : Int} (hvg : g.valid = true)
    (hg : g.ordinal = origin.ordinal + n * q) (hg' : g'.ordinal = origin.ordinal + (n + 1) * q) :
    Spec.C08.isWindow q .day origin g.succ g' = true := by
  unfold Spec.C08.isWindow Spec.C08.onGrid
  simp only [Bool.and_eq_true, beq_iff_eq]
  rw [Date.pred_succ_agg hvg, ordinal_succ hvg, hg, hg']
  refine ⟨⟨?_, ?_⟩, ?_⟩
  · have : origin.ordinal + n * q - origin.ordinal = n * q := by omega
    rw [this]; exact Int.mul_emod_left n q
  · have : origin.ordinal + (n + 1) * q - origin.ordinal = (n + 1) * q := by omega
    rw [this]; exact Int.mul_emod_left (n + 1) q
  · ring

/-- **windows of day units in closed form**: every re-labelled cell gets `[G_k + 1 day, G_{k+1}]` where `G_k` is
the valid date with ordinal `origin.ordinal + (j + k)·q` -/
theorem window_origin_day_agg {tr : Transc} {t out : List Cell} {q q' : Int} {s : String} {origin : Date}
    {prem : Bool} (h : aggregatePeriod tr t (some (q, s)) origin prem = .ok out)
    (hst : standardizeResolution q s = .ok (q', .day)) (hq : 1 ≤ q') (hvo : origin.valid = true)
    (ho1 : 1 ≤ origin.ordinal) (ho2 : origin.ordinal + q' ≤ 3652059)
    (hcells : ∀ c ∈ t, c.ps.valid = true ∧ q' < c.ps.ordinal ∧ c.ps.ordinal + q' ≤ 3652059) :
    ∃ (j : Int) (rel : List Cell), rel.length = t.length ∧
      (∀ o ∈ out, ∃ rc ∈ rel, rc.ps = o.ps ∧ rc.pe = o.pe ∧ rc.ev = o.ev ∧ rc.md = o.md ∧
        o.kind = .cumulative ∧ o.prev = none) ∧
      ∀ p ∈ (t.mergeSort fun a b => coordCmp a b != .gt).zip rel, ∃ (k : Nat) (g g' : Date),
        g.valid = true ∧ g.ordinal = origin.ordinal + (j + k) * q' ∧ g'.valid = true ∧
        g'.ordinal = origin.ordinal + (j + k + 1) * q' ∧ p.2.ps = g.succ ∧ p.2.pe = g' ∧
        p.2.ev = p.1.ev ∧ p.2.values = p.1.values ∧ p.2.md = p.1.md ∧ ¬ (p.2.pe < p.1.pe) := by
  obtain ⟨q2, u, init, rel, newCells, c0, hst', hc0, hmin, hanchor, hrel, hnew, hperm⟩ :=
    aggregatePeriod_decompose_anchor h
  rw [hst] at hst'
  obtain ⟨rfl, rfl⟩ : q' = q2 ∧ ResUnit.day = u := by
    injection hst' with h1; injection h1 with h2 h3; exact ⟨h2, h3⟩
  obtain ⟨hv0, hb1, hb2⟩ := hcells c0 hc0
  obtain ⟨j, hvi, hoi, hlt, _⟩ := anchorBefore_day_agg hq hvo hv0 ho1 ho2 hb1 hb2 hanchor
  have hpos := anchorBefore_day_pos hq hvo hv0 ho1 ho2 hb1 hb2 hanchor
  have hsp : (t.mergeSort fun a b => coordCmp a b != .gt).Perm t := List.mergeSort_perm _ _
  obtain ⟨hlen, hall⟩ := assignWindows_spec hrel
  refine ⟨j, rel, by rw [hlen, List.length_mergeSort], ?_, ?_⟩
  · intro o ho
    obtain ⟨hk, hp, rc, hrc, h1, h2, h3, h4⟩ := aggregatePeriod_out_cell hnew (hperm.mem_iff.mp ho)
    exact ⟨rc, hrc, h1, h2, h3, h4, hk, hp⟩
  · intro p hp
    obtain ⟨k, hfirst, hwin⟩ := assignWindows_first_window (k0 := 0) (init0 := init) (sorted_by_ps t)
      (fun _ _ j hj => absurd hj (Nat.not_lt_zero j)) hrel p hp
    obtain ⟨_, _, _, _, hev, hvals, hmd, _, hnpe⟩ := hall p hp
    have hpt : p.1 ∈ t := hsp.mem_iff.mp (List.of_mem_zip hp).1
    obtain ⟨hvp, _, hp2⟩ := hcells p.1 hpt
    have hbefore : ∀ i ≤ k, iterD q' .day i init < p.1.ps := by
      intro i hi
      cases i with
      | zero => exact Date.lt_of_lt_of_not_lt_agg hlt (hmin p.1 hpt)
      | succ i => exact hfirst.1 i (by omega)
    obtain ⟨hvk, hok, hrk⟩ := grid_day_range hq hvi hpos hvp hp2 k hbefore
    have e : ((k + 1 : Nat) : Int) * q' = ((k : Int) + 1) * q' := by push_cast; ring
    obtain ⟨hvk1, hok1⟩ := iterD_day_agg q' (by omega) (k + 1) init hpos (by rw [e]; exact hrk) hvi
    refine ⟨k, iterD q' .day k init, iterD q' .day (k + 1) init, hvk, ?_, hvk1, ?_,
      congrArg Prod.fst hwin, congrArg Prod.snd hwin, hev, hvals, hmd, hnpe⟩
    · rw [hok, hoi]; ring
    · rw [hok1, hoi]; push_cast; ring

/-- **bridge.** Day / week units: every output period of the model's `_aggregate_period` is one of the closed-form
windows of `Spec.C08` counted from the REQUESTED origin -/
theorem windowsOk_day_agg {tr : Transc} {t out : List Cell} {q q' : Int} {s : String} {origin : Date}
    {prem : Bool} (h : aggregatePeriod tr t (some (q, s)) origin prem = .ok out)
    (hst : standardizeResolution q s = .ok (q', .day)) (hq : 1 ≤ q') (hvo : origin.valid = true)
    (ho1 : 1 ≤ origin.ordinal) (ho2 : origin.ordinal + q' ≤ 3652059)
    (hcells : ∀ c ∈ t, c.ps.valid = true ∧ q' < c.ps.ordinal ∧ c.ps.ordinal + q' ≤ 3652059) :
    Spec.C08.windowsOk q' .day origin out = true := by
  obtain ⟨j, rel, hlen, hout, hall⟩ := window_origin_day_agg h hst hq hvo ho1 ho2 hcells
  unfold Spec.C08.windowsOk
  rw [List.all_eq_true]
  intro o ho
  obtain ⟨rc, hrc, hps, hpe, _, _, hkind, hprev⟩ := hout o ho
  obtain ⟨c, hc⟩ := mem_zip_of_mem_right (l₁ := t.mergeSort fun a b => coordCmp a b != .gt)
    (by rw [hlen, List.length_mergeSort]) hrc
  obtain ⟨k, g, g', hvg, hog, _, hog', e1, e2, _⟩ := hall (c, rc) hc
  simp only at e1 e2
  rw [← hps, ← hpe, e1, e2, isWindow_day_agg hvg hog (by rw [hog']), hkind, hprev]
  rfl

theorem aggregateEval_subset {sl e : List Cell} {res : Option (Int × String)} {origin : Date}
    (h : aggregateEval sl res origin = .ok e) : ∀ c ∈ e, c ∈ sl := by
  unfold aggregateEval at h
  split at h
  · cases h; exact fun c hc => hc
  · split at h
    · cases h
    · split at h
      · split at h
        · cases h
        · intro c hc
          exact (List.mem_filter.mp ((ofCells_ok_perm h).mem_iff.mp hc)).1
      · cases h

/-- whole triangle, day / week units -/
theorem windowsOk_day_cum {tr : Transc} {t out : List Cell} {a : AggArgs} {q q' : Int} {s : String}
    (h : aggregateCum tr t a = .ok out) (hp : a.periodRes = some (q, s))
    (hst : standardizeResolution q s = .ok (q', .day)) (hq : 1 ≤ q') (hvo : a.periodOrigin.valid = true)
    (ho1 : 1 ≤ a.periodOrigin.ordinal) (ho2 : a.periodOrigin.ordinal + q' ≤ 3652059)
    (hcells : ∀ c ∈ t, c.ps.valid = true ∧ q' < c.ps.ordinal ∧ c.ps.ordinal + q' ≤ 3652059) :
    Spec.C08.windowsOk q' .day a.periodOrigin out = true := by
  obtain ⟨aggs, haggs, hperm⟩ := aggregateCum_perm h
  unfold Spec.C08.windowsOk
  rw [List.all_eq_true]
  intro o ho
  obtain ⟨r, hr, hor⟩ := List.mem_flatten.mp (hperm.mem_iff.mp ho)
  obtain ⟨p, hp', hrun⟩ := smMapE_mem haggs hr
  obtain ⟨e, hev, hper⟩ := aggregateSlice_period hrun
  rw [hp] at hper
  have hsub : ∀ c ∈ e, c ∈ t := by
    intro c hc
    have hcs := aggregateEval_subset hev c hc
    unfold Triangle.slices at hp'
    obtain ⟨m, _, rfl⟩ := List.mem_map.mp hp'
    exact (List.mem_filter.mp ((List.mergeSort_perm _ _).mem_iff.mp hcs)).1
  have := windowsOk_day_agg hper hst hq hvo ho1 ho2 (fun c hc => hcells c (hsub c hc))
  unfold Spec.C08.windowsOk at this
  exact List.all_eq_true.mp this o hor

/-- the slice facts (exact cover, sums over the cells inside the window, field names) in day / week units -/
theorem sliceFacts_day {tr : Transc} {S r : List Cell} {q q' : Int} {s : String} {origin : Date}
    {prem : Bool} (h : aggregatePeriod tr S (some (q, s)) origin prem = .ok r)
    (hst : standardizeResolution q s = .ok (q', .day)) (hq : 1 ≤ q') (hvo : origin.valid = true)
    (ho1 : 1 ≤ origin.ordinal) (ho2 : origin.ordinal + q' ≤ 3652059)
    (hcells : ∀ c ∈ S, (c.ps.valid = true ∧ ¬ (c.pe < c.ps)) ∧ q' < c.ps.ordinal ∧
      c.ps.ordinal + q' ≤ 3652059) :
    SliceFacts S r prem := by
  refine sliceFacts_core h hst (fun c hc => (hcells c hc).1) ?_
  intro init c0 hc0 hmin hanchor c _ c' hc' k k' _ hfirst' hkk
  obtain ⟨⟨hv0, _⟩, hb1, hb2⟩ := hcells c0 hc0
  obtain ⟨j, hvi, hoi, hlt, _⟩ := anchorBefore_day_agg hq hvo hv0 ho1 ho2 hb1 hb2 hanchor
  have hpos := anchorBefore_day_pos hq hvo hv0 ho1 ho2 hb1 hb2 hanchor
  obtain ⟨⟨hvp, _⟩, _, hp2⟩ := hcells c' hc'
  have hbefore : ∀ i ≤ k', iterD q' .day i init < c'.ps := by
    intro i hi
    cases i with
    | zero => exact Date.lt_of_lt_of_not_lt_agg hlt (hmin c' hc')
    | succ i => exact hfirst'.1 i (by omega)
  obtain ⟨_, _, hrk⟩ := grid_day_range hq hvi hpos hvp hp2 k' hbefore
  refine window_disjoint_day_agg hq hvi hpos hkk ?_
  have e : ((k' : Int) + 1) * q' = (k' : Int) * q' + q' := by ring
  rw [e] at hrk; omega

end Bermuda
