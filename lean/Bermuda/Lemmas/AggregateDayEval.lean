/-
C08, day / week units: the evaluation grid in closed form (ordinal arithmetic from the requested origin) and the bridge
`Spec.C08.evalOk` on the model's `_aggregate_eval`; assembling `Spec.C08.holds` from its parts.
-/
import Bermuda.Lemmas.AggregateDayStraddle
namespace Bermuda

theorem Date.lt_of_not_lt_of_lt_agg {a b c : Date} (h1 : ¬ b < a) (h2 : b < c) : a < c := by
  rw [Date.lt_iff_agg] at *; omega

theorem onGrid_day_iff {q : Int} {origin d : Date} :
    Spec.C08.onGrid q .day origin d = true ↔ ∃ k : Int, d.ordinal = origin.ordinal + k * q := by
  unfold Spec.C08.onGrid
  simp only [beq_iff_eq]
  constructor
  · intro hmod
    refine ⟨(d.ordinal - origin.ordinal) / q, ?_⟩
    have := Int.emod_add_mul_ediv (d.ordinal - origin.ordinal) q
    rw [hmod] at this
    rw [Int.mul_comm]; omega
  · rintro ⟨k, hk⟩
    have : d.ordinal - origin.ordinal = k * q := by omega
    rw [this]; exact Int.mul_emod_left k q

/-- **the evaluation grid of day units in closed form**: a date is kept iff it is valid, a whole number of steps
from the requested origin, and between the first and the last evaluation date -/
theorem evalGrid_day_agg {q : Int} {origin first last : Date} {grid : List Date} (hq : 1 ≤ q)
    (hvo : origin.valid = true) (ho1 : 1 ≤ origin.ordinal) (ho2 : origin.ordinal + q ≤ 3652059)
    (hvf : first.valid = true) (hf1 : q < first.ordinal) (hf2 : first.ordinal + q ≤ 3652059)
    (hvl : last.valid = true) (hl2 : last.ordinal + 1 + q ≤ 3652059) (hfl : ¬ (last < first))
    (h : validEvals q .day origin first last = some grid) (d : Date) (hvd : d.valid = true) :
    d ∈ grid ↔ (∃ k : Int, d.ordinal = origin.ordinal + k * q) ∧ first ≤ d ∧ d ≤ last := by
  unfold validEvals at h
  split at h
  · cases h
  · rename_i anchor hanchor
    obtain ⟨hg1, hg2⟩ := gridFrom_spec h
    obtain ⟨j, hva, hoa, hlt, hnext⟩ := anchorBefore_day_agg hq hvo hvf ho1 ho2 hf1 hf2 hanchor
    have hpos := anchorBefore_day_pos hq hvo hvf ho1 ho2 hf1 hf2 hanchor
    have hvs : last.succ.valid = true := succ_valid hvl
    have hos : last.succ.ordinal = last.ordinal + 1 := ordinal_succ hvl
    have hls : last < last.succ := Date.lt_succ_agg last
    -- grid point i+1 (i < len) is ≤ last; the anchor is < first ≤ last
    have hpts : ∀ i ≤ grid.length, iterD q .day i anchor < last.succ := by
      intro i hi
      cases i with
      | zero =>
        have : anchor < last.succ :=
          Date.lt_trans_agg (Date.lt_of_lt_of_not_lt_agg hlt hfl) hls
        simpa [iterD] using this
      | succ i =>
        have hi' : i < grid.length := by omega
        obtain ⟨hform, hle⟩ := hg1 i hi'
        rw [Date.le_iff_not_lt_agg] at hle
        have e : iterD q .day (i + 1) anchor = iterD q .day i (resolutionDelta anchor q .day) := rfl
        rw [e, ← hform]
        exact Date.lt_of_not_lt_of_lt_agg hle hls
    obtain ⟨_, _, hrange⟩ := grid_day_range hq hva hpos hvs (by rw [hos]; omega) grid.length hpts
    have hpt : ∀ i ≤ grid.length + 1, (iterD q .day i anchor).valid = true ∧
        (iterD q .day i anchor).ordinal = origin.ordinal + (j + i) * q := by
      intro i hi
      have hiq : (i : Int) * q ≤ ((grid.length : Int) + 1) * q :=
        Int.mul_le_mul_of_nonneg_right (by omega) (by omega)
      obtain ⟨a, b⟩ := iterD_day_agg q (by omega) i anchor hpos (by omega) hva
      exact ⟨a, by rw [b, hoa]; ring⟩
    have hgi : ∀ i (hi : i < grid.length), grid[i] = iterD q .day (i + 1) anchor := by
      intro i hi; exact (hg1 i hi).1
    constructor
    · intro hd
      obtain ⟨i, hi, rfl⟩ := List.getElem_of_mem hd
      obtain ⟨hv', ho'⟩ := hpt (i + 1) (by omega)
      rw [hgi i hi]
      refine ⟨⟨j + (i + 1 : Nat), ho'⟩, ?_, ?_⟩
      · rw [Date.le_iff_not_lt_agg]
        intro hlt'
        have := ordinal_lt_of_lt_agg hv' hvf hlt'
        -- first ≤ anchor + q (hnext)
        have hq1 : (anchor.addDays q).valid = true ∧ (anchor.addDays q).ordinal = anchor.ordinal + q :=
          addDays_ordinal anchor q (by omega) (by
            have := (hpt 1 (by omega)).2
            have h1 := hrange
            have : (0 : Int) ≤ (grid.length : Int) * q := Int.mul_nonneg (by omega) (by omega)
            have e : ((grid.length : Int) + 1) * q = (grid.length : Int) * q + q := by ring
            omega)
        have hfa : first.ordinal ≤ anchor.ordinal + q := by
          by_contra hc
          exact hnext (lt_of_ordinal_lt_agg hq1.1 hvf (by rw [hq1.2]; omega))
        have hiq : (0 : Int) ≤ (i : Int) * q := Int.mul_nonneg (by omega) (by omega)
        have e : (j + ((i + 1 : Nat) : Int)) * q = j * q + (i : Int) * q + q := by push_cast; ring
        rw [ho', e] at this
        omega
      · have := (hg1 i hi).2
        rwa [hgi i hi] at this
    · rintro ⟨⟨k, hk⟩, hfd, hdl⟩
      rw [Date.le_iff_not_lt_agg] at hfd hdl
      have o1 : first.ordinal ≤ d.ordinal := by
        by_contra hc; exact hfd (lt_of_ordinal_lt_agg hvd hvf (by omega))
      have o2 : d.ordinal ≤ last.ordinal := by
        by_contra hc; exact hdl (lt_of_ordinal_lt_agg hvl hvd (by omega))
      have o3 := ordinal_lt_of_lt_agg hva hvf hlt
      -- k > j
      have hkj : j < k := by
        by_contra hc
        have : k * q ≤ j * q := Int.mul_le_mul_of_nonneg_right (by omega) (by omega)
        omega
      -- k ≤ j + len
      have hkl : k ≤ j + grid.length := by
        by_contra hc
        obtain ⟨hv', ho'⟩ := hpt (grid.length + 1) (Nat.le_refl _)
        have : (j + ((grid.length + 1 : Nat) : Int)) * q ≤ k * q :=
          Int.mul_le_mul_of_nonneg_right (by push_cast; omega) (by omega)
        apply hg2
        have e : iterD q .day grid.length (resolutionDelta anchor q .day) = iterD q .day (grid.length + 1) anchor := rfl
        rw [e, Date.le_iff_not_lt_agg]
        exact not_lt_of_ordinal_le_agg hv' hvl (by rw [ho']; omega)
      obtain ⟨i, hi⟩ : ∃ i : Nat, k = j + ((i + 1 : Nat) : Int) := ⟨(k - j - 1).toNat, by push_cast; omega⟩
      have hil : i < grid.length := by push_cast at hi; omega
      obtain ⟨hv', ho'⟩ := hpt (i + 1) (by omega)
      have : d = grid[i] := by
        rw [hgi i hil]
        exact eq_of_ordinal_eq_agg hvd hv' (by rw [ho', hk, hi])
      rw [this]
      exact List.getElem_mem hil

theorem foldl_minDate_mem (l : List Date) (init : Date) :
    l.foldl (fun m x => if x < m then x else m) init ∈ init :: l := by
  induction l generalizing init with
  | nil => simp
  | cons a l ih =>
    simp only [List.foldl_cons]
    by_cases hc : a < init
    · simp only [hc, if_true]
      rcases List.mem_cons.mp (ih a) with h | h
      · rw [h]; simp
      · exact List.mem_cons_of_mem _ (List.mem_cons_of_mem _ h)
    · simp only [hc, if_false]
      rcases List.mem_cons.mp (ih init) with h | h
      · rw [h]; simp
      · exact List.mem_cons_of_mem _ (List.mem_cons_of_mem _ h)

theorem foldl_maxDate_mem (l : List Date) (init : Date) :
    l.foldl (fun m x => if m < x then x else m) init ∈ init :: l := by
  induction l generalizing init with
  | nil => simp
  | cons a l ih =>
    simp only [List.foldl_cons]
    by_cases hc : init < a
    · simp only [hc, if_true]
      rcases List.mem_cons.mp (ih a) with h | h
      · rw [h]; simp
      · exact List.mem_cons_of_mem _ (List.mem_cons_of_mem _ h)
    · simp only [hc, if_false]
      rcases List.mem_cons.mp (ih init) with h | h
      · rw [h]; simp
      · exact List.mem_cons_of_mem _ (List.mem_cons_of_mem _ h)

theorem minDate_mem {l : List Date} {m : Date} (h : minDate l = some m) : m ∈ l := by
  cases l with
  | nil => simp [minDate] at h
  | cons a l =>
    simp only [minDate, Option.some.injEq] at h
    subst h; exact foldl_minDate_mem l a

theorem maxDateAgg_mem {l : List Date} {m : Date} (h : maxDateAgg l = some m) : m ∈ l := by
  cases l with
  | nil => simp [maxDateAgg] at h
  | cons a l =>
    simp only [maxDateAgg, Option.some.injEq] at h
    subst h; exact foldl_maxDate_mem l a

/-- **bridge**: `Spec.C08.evalOk` on the model's `_aggregate_eval` of a canonical slice, day / week units -/
theorem evalOk_day_agg {t out : List Cell} {q q' : Int} {s : String} {origin : Date}
    (hs : t.Pairwise (fun a b => Cell.le a b)) (hk : kindsConsistent t = true)
    (h : aggregateEval t (some (q, s)) origin = .ok out)
    (hst : standardizeResolution q s = .ok (q', .day)) (hq : 1 ≤ q') (hvo : origin.valid = true)
    (ho1 : 1 ≤ origin.ordinal) (ho2 : origin.ordinal + q' ≤ 3652059)
    (hev : ∀ c ∈ t, c.ev.valid = true ∧ q' < c.ev.ordinal ∧ c.ev.ordinal + 1 + q' ≤ 3652059) :
    Spec.C08.evalOk q' .day origin t out = true := by
  unfold aggregateEval at h
  simp only at h
  split at h
  · cases h
  · rename_i q2 u hst'
    rw [hst] at hst'
    obtain ⟨rfl, rfl⟩ : q' = q2 ∧ ResUnit.day = u := by
      injection hst' with h1; injection h1 with h2 h3; exact ⟨h2, h3⟩
    split at h
    · rename_i first last hmin hmax
      split at h
      · cases h
      · rename_i grid hgrid
        rw [ofCells_filter_sorted hs hk] at h
        cases h
        unfold Spec.C08.evalOk
        rw [beq_iff_eq]
        apply List.filter_congr
        intro c hc
        have hmem : c.ev ∈ t.map (·.ev) := List.mem_map.mpr ⟨c, hc, rfl⟩
        obtain ⟨cf, hcf, hcfe⟩ := List.mem_map.mp (minDate_mem hmin)
        obtain ⟨cl, hcl, hcle⟩ := List.mem_map.mp (maxDateAgg_mem hmax)
        obtain ⟨hvf, hf1, hf2⟩ := hev cf hcf
        obtain ⟨hvl, _, hl2⟩ := hev cl hcl
        rw [hcfe] at hvf hf1 hf2
        rw [hcle] at hvl hl2
        have h1 : first ≤ c.ev := (Date.le_iff_not_lt_agg _ _).mpr (minDate_le hmin _ hmem)
        have h2 : c.ev ≤ last := (Date.le_iff_not_lt_agg _ _).mpr (maxDateAgg_ge hmax _ hmem)
        have hfl : ¬ (last < first) := maxDateAgg_ge hmax _ (minDate_mem hmin)
        rw [Bool.eq_iff_iff, List.contains_iff_mem,
          evalGrid_day_agg hq hvo ho1 ho2 hvf hf1 (by omega) hvl hl2 hfl hgrid c.ev (hev c hc).1,
          onGrid_day_iff]
        exact ⟨fun h => h.1, fun h => ⟨h, h1, h2⟩⟩
    · cases h

/-- `Spec.C08.holds` from a successful `aggregate` on a cumulative triangle, a closed-form description `G` of the
per-slice evaluation stage, slice facts and `windowsOk` -/
theorem holds_of_parts {tr : Transc} {t out : List Cell} {a : AggArgs} {q q' : Int} {s : String} {u : ResUnit}
    (h : aggregateCum tr t a = .ok out) (hp : a.periodRes = some (q, s)) (G : Cell → Bool)
    (heval : ∀ p ∈ Triangle.slices t, ∀ e, aggregateEval p.2 a.evalRes a.evalOrigin = .ok e →
      e = p.2.filter G)
    (hslice : ∀ S r, (∀ c ∈ S, c ∈ t) → aggregatePeriod tr S (some (q, s)) a.periodOrigin a.prem = .ok r →
      SliceFacts S r a.prem)
    (hw : Spec.C08.windowsOk q' u a.periodOrigin out = true) :
    Spec.C08.holds q' u a.periodOrigin
      (if a.prem then Spec.C09.additiveFields else Spec.C09.lossFields) (t.filter G) out = true := by
  obtain ⟨aggs, st⟩ := stage_of_aggregateCum h hp G heval
  exact st.holds (st.facts_of fun S r hsub hr => hslice S r (fun c hc => (List.mem_filter.mp (hsub c hc)).1) hr) hw

/-- every slice of a class-consistent triangle is a canonical, class-consistent sub-list -/
theorem slice_canonical {t : List Cell} (hk : kindsConsistent t = true) {p : Metadata × List Cell}
    (hp : p ∈ Triangle.slices t) :
    p.2.Pairwise (fun a b => Cell.le a b) ∧ kindsConsistent p.2 = true ∧ ∀ c ∈ p.2, c ∈ t := by
  unfold Triangle.slices at hp
  obtain ⟨m, _, rfl⟩ := List.mem_map.mp hp
  have hsub : ∀ c ∈ (t.filter (·.md == m)).mergeSort Cell.le, c ∈ t :=
    fun c hc => (List.mem_filter.mp ((List.mergeSort_perm _ _).mem_iff.mp hc)).1
  exact ⟨sorted_mergeSort (cmp := Cell.cmp) _, kindsConsistent_of_subset hsub hk, hsub⟩

end Bermuda
