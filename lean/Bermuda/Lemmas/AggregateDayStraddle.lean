/-
C08, day / week units: the closed-form straddle test of `Spec.C08` ⇔ `TriangleError` of the window walk, with the
side hypothesis `honly` discharged (constructor acceptance, fuel adequacy), and termination of the anchor walk.
-/
import Bermuda.Lemmas.AggregateDay
namespace Bermuda

theorem eq_of_ordinal_eq_agg {a b : Date} (ha : a.valid = true) (hb : b.valid = true)
    (h : a.ordinal = b.ordinal) : a = b := by
  apply Date.eq_of_not_lt_agg
  · intro hl; have := ordinal_lt_of_lt_agg ha hb hl; omega
  · intro hl; have := ordinal_lt_of_lt_agg hb ha hl; omega

/-- the closed-form window end of `Spec.C08` (day units) for a date in `(g, g']`, `g`, `g'` consecutive grid points -/
theorem windowEnd_day_of_mem {q : Int} {origin d g g' : Date} {n : Int} (hq : 1 ≤ q) (hvd : d.valid = true)
    (hvg : g.valid = true) (hvg' : g'.valid = true) (hg : g.ordinal = origin.ordinal + n * q)
    (hg' : g'.ordinal = origin.ordinal + (n + 1) * q) (hr1 : 1 ≤ g'.ordinal) (hr2 : g'.ordinal ≤ 3652059)
    (h1 : g < d) (h2 : ¬ (g' < d)) : Spec.C08.windowEnd q .day origin d = g' := by
  have o1 := ordinal_lt_of_lt_agg hvg hvd h1
  have o2 : d.ordinal ≤ g'.ordinal := by
    by_contra hc
    exact h2 (lt_of_ordinal_lt_agg hvg' hvd (by omega))
  unfold Spec.C08.windowEnd
  simp only
  have hk : (d.ordinal - origin.ordinal - 1) / q = n := by
    have hq0 : 0 < q := by omega
    have a1 : n ≤ (d.ordinal - origin.ordinal - 1) / q := (Int.le_ediv_iff_mul_le hq0).mpr (by linarith)
    have a2 : (d.ordinal - origin.ordinal - 1) / q < n + 1 := (Int.ediv_lt_iff_lt_mul hq0).mpr (by linarith)
    omega
  rw [hk, ← hg']
  obtain ⟨hv', ho'⟩ := ofOrdinal_spec g'.ordinal hr1 hr2
  exact eq_of_ordinal_eq_agg hv' hvg' ho'

/-- grid data of the FIRST window of a period start (day units) -/
theorem firstWindow_day_grid {q : Int} (hq : 1 ≤ q) {origin init b : Date} {j : Int} {k : Nat}
    (hvi : init.valid = true) (hpos : 1 ≤ init.ordinal) (hoi : init.ordinal = origin.ordinal + j * q)
    (hvb : b.valid = true) (hb2 : b.ordinal + q ≤ 3652059) (hlt : init < b)
    (hfirst : FirstWindow q .day init k b) :
    ∃ g g', (windowAt q .day init k) = (g.succ, g') ∧ g.valid = true ∧ g'.valid = true ∧
      g.ordinal = origin.ordinal + (j + k) * q ∧ g'.ordinal = origin.ordinal + (j + k + 1) * q ∧
      1 ≤ g'.ordinal ∧ g'.ordinal ≤ 3652059 ∧ g < b ∧ ¬ (g' < b) := by
  have hbefore : ∀ i ≤ k, iterD q .day i init < b := by
    intro i hi
    cases i with
    | zero => exact hlt
    | succ i => exact hfirst.1 i (by omega)
  obtain ⟨hvk, hok, hrk⟩ := grid_day_range hq hvi hpos hvb hb2 k hbefore
  have e : ((k + 1 : Nat) : Int) * q = ((k : Int) + 1) * q := by push_cast; ring
  obtain ⟨hvk1, hok1⟩ := iterD_day_agg q (by omega) (k + 1) init hpos (by rw [e]; exact hrk) hvi
  have hkq : (0 : Int) ≤ ((k + 1 : Nat) : Int) * q := Int.mul_nonneg (by omega) (by omega)
  refine ⟨iterD q .day k init, iterD q .day (k + 1) init, rfl, hvk, hvk1, ?_, ?_, ?_, ?_,
    hbefore k (Nat.le_refl k), hfirst.2⟩
  · rw [hok, hoi]; ring
  · rw [hok1, hoi]; push_cast; ring
  · rw [hok1]; omega
  · rw [hok1, e]; exact hrk

/-- a `TriangleError` of the window walk ⇒ the closed-form straddle test is true (day units) -/
theorem expectStraddle_true_of_error_day {t : List Cell} {q' : Int} {origin init : Date} {c0 : Cell}
    (hq : 1 ≤ q') (hvo : origin.valid = true) (ho1 : 1 ≤ origin.ordinal) (ho2 : origin.ordinal + q' ≤ 3652059)
    (hcells : ∀ c ∈ t, c.ps.valid = true ∧ q' < c.ps.ordinal ∧ c.ps.ordinal + q' ≤ 3652059)
    (hc0 : c0 ∈ t) (hmin : ∀ c ∈ t, ¬ c.ps < c0.ps)
    (hanchor : anchorBefore q' .day origin c0.ps = some init)
    (herr : assignWindows q' .day init (t.mergeSort fun a b => coordCmp a b != .gt) = .error .triangleError) :
    Spec.C08.expectStraddle q' .day origin t = true := by
  obtain ⟨hv0, hb1, hb2⟩ := hcells c0 hc0
  obtain ⟨j, hvi, hoi, hlt, _⟩ := anchorBefore_day_agg hq hvo hv0 ho1 ho2 hb1 hb2 hanchor
  have hpos := anchorBefore_day_pos hq hvo hv0 ho1 ho2 hb1 hb2 hanchor
  have hperm : (t.mergeSort fun a b => coordCmp a b != .gt).Perm t := List.mergeSort_perm _ _
  obtain ⟨c, hc, k, hfirst, hcross⟩ := assignWindows_triangleError_first (k0 := 0) (init0 := init)
    (sorted_by_ps t) (fun _ _ j hj => absurd hj (Nat.not_lt_zero j)) herr
  have hct : c ∈ t := hperm.mem_iff.mp hc
  obtain ⟨hvc, _, hc2⟩ := hcells c hct
  obtain ⟨g, g', hw, hvg, hvg', hog, hog', hr1, hr2, hgl, hgr⟩ := firstWindow_day_grid hq hvi hpos hoi hvc hc2
    (Date.lt_of_lt_of_not_lt_agg hlt (hmin c hct)) hfirst
  have hwe := windowEnd_day_of_mem (origin := origin) hq hvc hvg hvg' hog hog' hr1 hr2 hgl hgr
  rw [hw] at hcross
  unfold Spec.C08.expectStraddle
  exact List.any_eq_true.mpr ⟨c, hct, by rw [hwe]; simpa using hcross⟩

/-- a successful window walk ⇒ the closed-form straddle test is false (day units) -/
theorem expectStraddle_false_of_walk_day {t rel : List Cell} {q' : Int} {origin init : Date} {c0 : Cell}
    (hq : 1 ≤ q') (hvo : origin.valid = true) (ho1 : 1 ≤ origin.ordinal) (ho2 : origin.ordinal + q' ≤ 3652059)
    (hcells : ∀ c ∈ t, c.ps.valid = true ∧ q' < c.ps.ordinal ∧ c.ps.ordinal + q' ≤ 3652059)
    (hc0 : c0 ∈ t) (hmin : ∀ c ∈ t, ¬ c.ps < c0.ps)
    (hanchor : anchorBefore q' .day origin c0.ps = some init)
    (hrel : assignWindows q' .day init (t.mergeSort fun a b => coordCmp a b != .gt) = .ok rel) :
    Spec.C08.expectStraddle q' .day origin t = false := by
  obtain ⟨hv0, hb1, hb2⟩ := hcells c0 hc0
  obtain ⟨j, hvi, hoi, hlt, _⟩ := anchorBefore_day_agg hq hvo hv0 ho1 ho2 hb1 hb2 hanchor
  have hpos := anchorBefore_day_pos hq hvo hv0 ho1 ho2 hb1 hb2 hanchor
  have hperm : (t.mergeSort fun a b => coordCmp a b != .gt).Perm t := List.mergeSort_perm _ _
  obtain ⟨hlen, hall⟩ := assignWindows_spec hrel
  have hfw := assignWindows_first_window (k0 := 0) (init0 := init) (sorted_by_ps t)
    (fun _ _ j hj => absurd hj (Nat.not_lt_zero j)) hrel
  unfold Spec.C08.expectStraddle
  rw [Bool.eq_false_iff]
  intro hany
  obtain ⟨c, hc, hstr⟩ := List.any_eq_true.mp hany
  obtain ⟨rc, hrc⟩ := mem_zip_of_mem_left hlen (hperm.mem_iff.mpr hc)
  obtain ⟨_, _, _, _, _, _, _, _, hnpe⟩ := hall (c, rc) hrc
  obtain ⟨k, hfirst, hwin⟩ := hfw (c, rc) hrc
  obtain ⟨hvc, _, hc2⟩ := hcells c hc
  obtain ⟨g, g', hw, hvg, hvg', hog, hog', hr1, hr2, hgl, hgr⟩ := firstWindow_day_grid hq hvi hpos hoi hvc hc2
    (Date.lt_of_lt_of_not_lt_agg hlt (hmin c hc)) hfirst
  have hwe := windowEnd_day_of_mem (origin := origin) hq hvc hvg hvg' hog hog' hr1 hr2 hgl hgr
  rw [hw] at hwin
  have e2 : rc.pe = g' := congrArg Prod.snd hwin
  simp only at hnpe
  rw [hwe] at hstr
  rw [e2] at hnpe
  exact hnpe (by simpa using hstr)

/-- in day units the fuel of the model never runs out -/
theorem walkUp_ne_none_day {q : Int} {bound : Date} (hq : 1 ≤ q) (hvb : bound.valid = true)
    (hb2 : bound.ordinal + q ≤ 3652059) :
    ∀ (n : Nat) (cur : Date), cur.valid = true → 1 ≤ cur.ordinal → cur.ordinal < bound.ordinal →
      bound.ordinal - cur.ordinal < (n : Int) → walkUp q .day bound n cur ≠ none := by
  intro n
  induction n with
  | zero => intro cur _ _ h1 h2; omega
  | succ n ih =>
    intro cur hv h1 hlt hn
    simp only [walkUp]
    rw [resolutionDelta_day_agg]
    obtain ⟨hv', ho'⟩ := addDays_ordinal cur q (by omega) (by omega)
    split
    · rename_i hl
      have := ordinal_lt_of_lt_agg hv' hvb hl
      exact ih _ hv' (by omega) this (by push_cast at hn; omega)
    · simp

/-- **`honly` discharged (day units).** -/
theorem assignWindows_error_day {q : Int} (hq : 1 ≤ q) :
    ∀ (cells : List Cell) (init : Date), init.valid = true → 1 ≤ init.ordinal →
      cells.Pairwise (fun a b => ¬ b.ps < a.ps) →
      (∀ c ∈ cells, c.datesOk = true ∧ c.ps.valid = true ∧ c.ps.ordinal + q ≤ 3652059 ∧ init < c.ps) →
      ∀ e, assignWindows q .day init cells = .error e → e = .triangleError := by
  intro cells
  induction cells with
  | nil => intro init _ _ _ _ e h; simp [assignWindows] at h
  | cons c rest ih =>
    intro init hv hpos hs hcells e h
    obtain ⟨hdates, hvps, hps2, hinit⟩ := hcells c (by simp)
    have hio := ordinal_lt_of_lt_agg hv hvps hinit
    simp only [assignWindows] at h
    split at h
    · rename_i hnone
      exfalso
      refine walkUp_ne_none_day hq hvps hps2 (aggFuel init c.ps) init hv hpos hio ?_ hnone
      unfold aggFuel
      have h2 : ((init.ordinal - c.ps.ordinal).natAbs : Int) = |init.ordinal - c.ps.ordinal| :=
        Int.natCast_natAbs _
      have h3 := neg_abs_le (init.ordinal - c.ps.ordinal)
      push_cast
      omega
    · rename_i init' hw
      obtain ⟨k, hk, hstop, hbelow⟩ := walkUp_spec hw
      have hbefore : ∀ i ≤ k, iterD q .day i init < c.ps := by
        intro i hi
        cases i with
        | zero => exact hinit
        | succ i => exact hbelow i (by omega)
      obtain ⟨hvk, hok, hrk⟩ := grid_day_range hq hv hpos hvps hps2 k hbefore
      rw [← hk] at hvk hok
      have hb' : init' < c.ps := by rw [hk]; exact hbefore k (Nat.le_refl k)
      have hio' := ordinal_lt_of_lt_agg hvk hvps hb'
      have hkq : (0 : Int) ≤ (k : Int) * q := Int.mul_nonneg (by omega) (by omega)
      have hpos' : 1 ≤ init'.ordinal := by rw [hok]; omega
      split at h
      · cases h; rfl
      · rename_i hno
        split at h
        · rename_i e' hmk
          exfalso
          unfold Cell.mk? at hmk
          split at hmk
          · cases hmk
          · rename_i hbad
            apply hbad
            obtain ⟨hvn, hon⟩ := addDays_ordinal init' q (by omega) (by omega)
            have hnext : resolutionDelta init' q .day = init'.addDays q := resolutionDelta_day_agg init' q
            have hlt' : init' < init'.addDays q := lt_of_ordinal_lt_agg hvk hvn (by omega)
            simp only [Cell.datesOk, Bool.and_eq_true, Bool.not_eq_true', decide_eq_false_iff_not,
              bne_iff_ne, ne_eq] at hdates ⊢
            obtain ⟨⟨⟨_, hevps⟩, hmax⟩, _⟩ := hdates
            refine ⟨⟨⟨?_, ?_⟩, hmax⟩, trivial⟩
            · rw [hnext]; exact Date.not_lt_succ_of_lt_agg hvn hlt'
            · intro hlt2
              have h1 := Date.not_lt_succ_of_lt_agg hvps hb'
              exact hevps (Date.lt_of_lt_of_not_lt_agg hlt2 h1)
        · split at h
          · rename_i e' he''
            cases h
            have hs' := List.pairwise_cons.mp hs
            exact ih init' hvk hpos' hs'.2 (fun c' hc' =>
              ⟨(hcells c' (by simp [hc'])).1, (hcells c' (by simp [hc'])).2.1,
               (hcells c' (by simp [hc'])).2.2.1,
               Date.lt_of_lt_of_not_lt_agg hb' (hs'.1 c' hc')⟩) e he''
          · cases h

/-- **the window walk raises `TriangleError` exactly when the closed-form straddle test is true** (day units) -/
theorem assignWindows_straddle_iff_day {t : List Cell} {q' : Int} {origin init : Date} {c0 : Cell}
    (hq : 1 ≤ q') (hvo : origin.valid = true) (ho1 : 1 ≤ origin.ordinal) (ho2 : origin.ordinal + q' ≤ 3652059)
    (hcells : ∀ c ∈ t, c.datesOk = true ∧ c.ps.valid = true ∧ q' < c.ps.ordinal ∧
      c.ps.ordinal + q' ≤ 3652059)
    (hc0 : c0 ∈ t) (hmin : ∀ c ∈ t, ¬ c.ps < c0.ps)
    (hanchor : anchorBefore q' .day origin c0.ps = some init) :
    assignWindows q' .day init (t.mergeSort fun a b => coordCmp a b != .gt) = .error .triangleError ↔
      Spec.C08.expectStraddle q' .day origin t = true := by
  have hps : ∀ c ∈ t, c.ps.valid = true ∧ q' < c.ps.ordinal ∧ c.ps.ordinal + q' ≤ 3652059 :=
    fun c hc => (hcells c hc).2
  constructor
  · exact expectStraddle_true_of_error_day hq hvo ho1 ho2 hps hc0 hmin hanchor
  · intro htrue
    obtain ⟨hv0, hb1, hb2⟩ := hps c0 hc0
    obtain ⟨j, hvi, hoi, hlt, _⟩ := anchorBefore_day_agg hq hvo hv0 ho1 ho2 hb1 hb2 hanchor
    have hpos := anchorBefore_day_pos hq hvo hv0 ho1 ho2 hb1 hb2 hanchor
    have hperm : (t.mergeSort fun a b => coordCmp a b != .gt).Perm t := List.mergeSort_perm _ _
    cases hres : assignWindows q' .day init (t.mergeSort fun a b => coordCmp a b != .gt) with
    | ok rel =>
      have := expectStraddle_false_of_walk_day hq hvo ho1 ho2 hps hc0 hmin hanchor hres
      rw [this] at htrue; cases htrue
    | error e =>
      have := assignWindows_error_day hq _ init hvi hpos (sorted_by_ps t)
        (fun c hc => ⟨(hcells c (hperm.mem_iff.mp hc)).1, (hcells c (hperm.mem_iff.mp hc)).2.1,
          (hcells c (hperm.mem_iff.mp hc)).2.2.2,
          Date.lt_of_lt_of_not_lt_agg hlt (hmin c (hperm.mem_iff.mp hc))⟩) e hres
      rw [this]

theorem walkUp_ne_none_day' {q : Int} {bound : Date} (hq : 1 ≤ q) (hvb : bound.valid = true)
    (hb2 : bound.ordinal + q ≤ 3652059) :
    ∀ (n : Nat) (cur : Date), cur.valid = true → 1 ≤ cur.ordinal → cur.ordinal + q ≤ 3652059 →
      bound.ordinal - cur.ordinal < (n : Int) → 1 ≤ n → walkUp q .day bound n cur ≠ none := by
  intro n
  induction n with
  | zero => intro cur _ _ _ _ h1; omega
  | succ n ih =>
    intro cur hv h1 h2 hn _
    simp only [walkUp]
    rw [resolutionDelta_day_agg]
    obtain ⟨hv', ho'⟩ := addDays_ordinal cur q (by omega) (by omega)
    split
    · rename_i hl
      have := ordinal_lt_of_lt_agg hv' hvb hl
      exact ih _ hv' (by omega) (by omega) (by push_cast at hn; omega) (by push_cast at hn; omega)
    · simp

theorem walkDown_ne_none_day {q : Int} {bound : Date} (hq : 1 ≤ q) (hvb : bound.valid = true)
    (hb1 : q < bound.ordinal) :
    ∀ (n : Nat) (cur : Date), cur.valid = true → cur.ordinal ≤ 3652059 →
      cur.ordinal - bound.ordinal + 1 < (n : Int) → 1 ≤ n → walkDown q .day bound n cur ≠ none := by
  intro n
  induction n with
  | zero => intro cur _ _ _ h1; omega
  | succ n ih =>
    intro cur hv h2 hn _
    simp only [walkDown]
    split
    · rename_i hle
      rw [resolutionDelta_day_neg_agg]
      have hbc : bound.ordinal ≤ cur.ordinal := by
        by_contra hc
        have := lt_of_ordinal_lt_agg hv hvb (by omega)
        rw [Date.le_iff_not_lt_agg] at hle
        exact hle this
      obtain ⟨hv', ho'⟩ := addDays_ordinal cur (-q) (by omega) (by omega)
      exact ih _ hv' (by omega) (by push_cast at hn; omega) (by push_cast at hn; omega)
    · simp

/-- the anchor walk ends (day units) -/
theorem anchorBefore_ne_none_day {q : Int} {origin bound : Date} (hq : 1 ≤ q) (hvo : origin.valid = true)
    (hvb : bound.valid = true) (ho1 : 1 ≤ origin.ordinal) (ho2 : origin.ordinal + q ≤ 3652059)
    (hb1 : q < bound.ordinal) (hb2 : bound.ordinal + q ≤ 3652059) :
    anchorBefore q .day origin bound ≠ none := by
  unfold anchorBefore
  have habs : ∀ a b : Int, a - b + 1 < ((a - b).natAbs + 2 : Nat) ∧ b - a < ((a - b).natAbs + 2 : Nat) := by
    intro a b
    have h2 : ((a - b).natAbs : Int) = |a - b| := Int.natCast_natAbs _
    have h3 := neg_abs_le (a - b)
    have h4 := le_abs_self (a - b)
    push_cast
    constructor <;> omega
  split
  · rename_i hnone
    exact absurd hnone (walkUp_ne_none_day' hq hvb hb2 (aggFuel origin bound) origin hvo ho1 ho2
      (by unfold aggFuel; exact (habs origin.ordinal bound.ordinal).2) (by unfold aggFuel; omega))
  · rename_i a1 hup
    obtain ⟨k1, hv1, _, hr1, _⟩ := walkUp_day_agg hq hvb hb2 hvo ho1 ho2 hup
    exact walkDown_ne_none_day hq hvb hb1 (aggFuel a1 bound) a1 hv1 (by omega)
      (by unfold aggFuel; exact (habs a1.ordinal bound.ordinal).1) (by unfold aggFuel; omega)
end Bermuda
