/-
Helper lemmas for the extended closure theorem of C01 (`Properties/C01Ext.lean`): generic facts
about the error monad / the validating constructor, and the operations whose result cells are input
cells or input cells with other values / metadata (join family, selection family).
Everything lives in namespace `Bermuda.AllOps`.
-/
import Bermuda.Model.AllOps
import Bermuda.Properties.C01
namespace Bermuda.AllOps
open Bermuda Bermuda.Properties.C01

/-! ## generic -/

/-- every cell satisfies the constructor's date rules -/
def AllOk (l : List Cell) : Prop := ∀ c ∈ l, c.datesOk = true

theorem AllOk.nil : AllOk [] := fun _ h => by cases h

theorem AllOk.append {a b : List Cell} (ha : AllOk a) (hb : AllOk b) : AllOk (a ++ b) := by
  intro c hc
  rcases List.mem_append.mp hc with h | h
  · exact ha c h
  · exact hb c h

theorem AllOk.sub {a b : List Cell} (hb : AllOk b) (h : ∀ c ∈ a, c ∈ b) : AllOk a :=
  fun c hc => hb c (h c hc)

theorem AllOk.flatten {ls : List (List Cell)} (h : ∀ l ∈ ls, AllOk l) : AllOk ls.flatten := by
  intro c hc
  obtain ⟨l, hl, hcl⟩ := List.mem_flatten.mp hc
  exact h l hl c hcl

theorem allOk_of {t : List Cell} (h : Canonical t) : AllOk t := h.2.2

theorem canonical_nil : Canonical [] := ⟨List.Pairwise.nil, by decide, fun _ h => by cases h⟩

theorem ofCells_allOk {l t : List Cell} (h : Triangle.ofCells l = .ok t) (hl : AllOk l) : Canonical t :=
  ofCells_canonical h hl

theorem ofCells_mem {l t : List Cell} (h : Triangle.ofCells l = .ok t) {c : Cell} (hc : c ∈ t) : c ∈ l :=
  (ofCells_perm h).mem_iff.mp hc

/-- the date rules look at the class and the four dates only -/
theorem datesOk_congr {a b : Cell} (hk : a.kind = b.kind) (h1 : a.ps = b.ps) (h2 : a.pe = b.pe)
    (h3 : a.ev = b.ev) (h4 : a.prev = b.prev) : a.datesOk = b.datesOk := by
  unfold Cell.datesOk; rw [hk, h1, h2, h3, h4]

theorem mk?_ok {c d : Cell} (h : c.mk? = .ok d) : d = c ∧ c.datesOk = true := by
  unfold Cell.mk? at h
  split at h
  · cases h; exact ⟨rfl, by assumption⟩
  · cases h

theorem mk?_ok_dates {c d : Cell} (h : c.mk? = .ok d) : d.datesOk = true := by
  obtain ⟨rfl, h⟩ := mk?_ok h; exact h

theorem bind_ok {ε α β : Type} {x : Except ε α} {f : α → Except ε β} {b : β} (h : (x >>= f) = .ok b) :
    ∃ a, x = .ok a ∧ f a = .ok b := by
  cases x with
  | error e => cases h
  | ok a => exact ⟨a, rfl, h⟩

theorem bind_ok' {ε α β : Type} {x : Except ε α} {f : α → Except ε β} {b : β} (h : x.bind f = .ok b) :
    ∃ a, x = .ok a ∧ f a = .ok b := bind_ok h

theorem map_ok {ε α β : Type} {x : Except ε α} {f : α → β} {b : β} (h : (f <$> x) = .ok b) :
    ∃ a, x = .ok a ∧ f a = b := by
  cases x with
  | error e => cases h
  | ok a => cases h; exact ⟨a, rfl, rfl⟩

theorem map_ok' {ε α β : Type} {x : Except ε α} {f : α → β} {b : β} (h : x.map f = .ok b) :
    ∃ a, x = .ok a ∧ f a = b := map_ok h

theorem pure_ok {ε α : Type} {a b : α} (h : (pure a : Except ε α) = .ok b) : a = b := by cases h; rfl

theorem throw_ok {α} {e : Err} {b : α} (h : (throw e : Except Err α) = .ok b) : False := by cases h

/-- `mapM` in the error monad: every output comes from an input -/
theorem mapM_ok_mem {α β : Type} {f : α → Except Err β} {l : List α} {out : List β}
    (h : l.mapM f = .ok out) : ∀ b ∈ out, ∃ a ∈ l, f a = .ok b := by
  induction l generalizing out with
  | nil => simp [List.mapM_nil, pure, Except.pure] at h; subst h; simp
  | cons a rest ih =>
    rw [List.mapM_cons] at h
    obtain ⟨b, hb, h⟩ := bind_ok h
    obtain ⟨bs, hbs, h⟩ := bind_ok h
    cases h
    intro x hx
    rcases List.mem_cons.mp hx with rfl | hx
    · exact ⟨a, by simp, hb⟩
    · obtain ⟨a', ha', hf⟩ := ih hbs x hx
      exact ⟨a', by simp [ha'], hf⟩

theorem smMapE_ok_mem {α β : Type} {f : α → Except Err β} {l : List α} {out : List β}
    (h : smMapE f l = .ok out) : ∀ b ∈ out, ∃ a ∈ l, f a = .ok b := by
  induction l generalizing out with
  | nil => simp [smMapE] at h; subst h; simp
  | cons a rest ih =>
    simp only [smMapE] at h
    split at h
    · cases h
    · rename_i b hb
      split at h
      · cases h
      · rename_i bs hbs
        cases h
        intro x hx
        rcases List.mem_cons.mp hx with rfl | hx
        · exact ⟨a, by simp, hb⟩
        · obtain ⟨a', ha', hf⟩ := ih hbs x hx
          exact ⟨a', by simp [ha'], hf⟩

theorem smFoldE_inv {α β : Type} {f : β → α → Except Err β} (P : β → Prop) {l : List α} {b r : β}
    (h : smFoldE f b l = .ok r) (hb : P b)
    (hstep : ∀ acc a acc', P acc → a ∈ l → f acc a = .ok acc' → P acc') : P r := by
  induction l generalizing b with
  | nil => simp [smFoldE] at h; subst h; exact hb
  | cons a rest ih =>
    simp only [smFoldE] at h
    split at h
    · cases h
    · rename_i b' hb'
      exact ih h (hstep b a b' hb (by simp) hb') (fun acc x acc' hp hx hf => hstep acc x acc' hp (by simp [hx]) hf)

theorem foldlM_inv {α β : Type} {f : β → α → Except Err β} (P : β → Prop) {l : List α} {b r : β}
    (h : l.foldlM f b = .ok r) (hb : P b)
    (hstep : ∀ acc a acc', P acc → a ∈ l → f acc a = .ok acc' → P acc') : P r := by
  induction l generalizing b with
  | nil => simp [List.foldlM, pure, Except.pure] at h; subst h; exact hb
  | cons a rest ih =>
    rw [List.foldlM_cons] at h
    obtain ⟨b', hb', h⟩ := bind_ok h
    exact ih h (hstep b a b' hb (by simp) hb') (fun acc x acc' hp hx hf => hstep acc x acc' hp (by simp [hx]) hf)

theorem nth_mem {α} {l : List α} {i : Nat} {a : α} (h : nth l i = .ok a) : a ∈ l := by
  unfold nth at h
  split at h
  · rename_i x hx; cases h; exact List.mem_of_getElem? hx
  · cases h

/-- a sub-multiset of a one-class list is one-class -/
theorem kindsConsistent_sub {a b : List Cell} (hb : kindsConsistent b = true) (h : ∀ c ∈ a, c ∈ b) :
    kindsConsistent a = true := by
  unfold kindsConsistent at *
  simp only [Bool.or_eq_true, List.all_eq_true] at *
  rcases hb with (hb | hb) | hb
  · exact Or.inl (Or.inl fun c hc => hb c (h c hc))
  · exact Or.inl (Or.inr fun c hc => hb c (h c hc))
  · exact Or.inr fun c hc => hb c (h c hc)

/-- `Triangle(cells)` never refuses cells taken from one triangle; what it returns is canonical -/
theorem ofCells_sub_canonical {t l r : List Cell} (ht : Canonical t) (hl : ∀ c ∈ l, c ∈ t)
    (h : Triangle.ofCells l = .ok r) : Canonical r :=
  ofCells_canonical h ((allOk_of ht).sub hl)

/-- `a + b` -/
theorem add_canonical {a b r : List Cell} (ha : AllOk a) (hb : AllOk b) (h : Triangle.add a b = .ok r) :
    Canonical r :=
  ofCells_canonical h (ha.append hb)

/-- `t.derive_metadata(...)` (used by bootstrap's tag and the policy-year conversion) -/
theorem deriveMetadata_canonical {t r : List Cell} {e : MetaEdit} (h : Triangle.deriveMetadata t e = .ok r) :
    Canonical r := by
  unfold Triangle.deriveMetadata at h
  obtain ⟨v, hv, h⟩ := bind_ok h
  exact ofCells_canonical h (mapM_mk_ok (f := fun c => { c with md := c.md.edit e }) hv)

theorem rightEdge_allOk {t r : List Cell} (ht : AllOk t) (h : Triangle.rightEdge t = .ok r) : Canonical r :=
  ofCells_canonical h (fun c hc => ht c (mem_rightEdge_rows hc))

theorem slices_allOk {t : List Cell} (ht : AllOk t) {p : Metadata × List Cell} (hp : p ∈ Triangle.slices t) :
    AllOk p.2 := fun c hc => ht c (mem_of_mem_slices hp hc)

/-! ## `merge`, `coalesce`, `add_statics`, `period_merge` -/

theorem selectMetadata_allOk {t r : List Cell} {on : List String} (ht : AllOk t)
    (h : selectMetadata t on = .ok r) : AllOk r := by
  intro c hc
  obtain ⟨c', hc', rfl⟩ := List.mem_map.mp (ofCells_mem h hc)
  exact ht c' hc'

theorem reduceOn_allOk {t r : List Cell} {on : Option (List String)} (ht : AllOk t)
    (h : reduceOn on t = .ok r) : AllOk r := by
  unfold reduceOn at h
  split at h
  · exact selectMetadata_allOk ht h
  · cases h; exact ht

theorem dictGet_mem {inc : Bool} {l : List Cell} {k : Coord} {c : Cell} (h : dictGet inc l k = some c) :
    c ∈ l := by
  induction l with
  | nil => cases h
  | cons x rest ih =>
    simp only [dictGet] at h
    split at h
    · rename_i d hd; cases h; exact List.mem_cons_of_mem _ (ih hd)
    · split at h
      · cases h; simp
      · cases h

theorem joinCore_mem {ty : JoinType} {a b : List Cell} {p : CellPair} (hp : p ∈ joinCore ty a b) :
    (∀ c, p.1 = some c → c ∈ a) ∧ (∀ c, p.2 = some c → c ∈ b) := by
  unfold joinCore cellPairs at hp
  obtain ⟨k, _, rfl⟩ := List.mem_map.mp (List.mem_filter.mp hp).1
  exact ⟨fun c hc => dictGet_mem hc, fun c hc => dictGet_mem hc⟩

theorem join_mem {ty : Option JoinType} {on : Option (List String)} {a b : List Cell} {pairs : List CellPair}
    (ha : AllOk a) (hb : AllOk b) (h : join ty on a b = .ok pairs) :
    ∀ p ∈ pairs, (∀ c, p.1 = some c → c.datesOk = true) ∧ (∀ c, p.2 = some c → c.datesOk = true) := by
  unfold join at h
  simp only [] at h
  split at h
  · obtain ⟨_, h, _⟩ := bind_ok h; cases h
  · obtain ⟨a', ha', h⟩ := bind_ok h
    obtain ⟨b', hb', h⟩ := bind_ok h
    split at h
    · cases h
      intro p hp
      have := joinCore_mem hp
      exact ⟨fun c hc => reduceOn_allOk ha ha' c (this.1 c hc), fun c hc => reduceOn_allOk hb hb' c (this.2 c hc)⟩
    · cases h

theorem mergeCellPair_ok {p : CellPair} {c : Cell}
    (hp : (∀ c, p.1 = some c → c.datesOk = true) ∧ (∀ c, p.2 = some c → c.datesOk = true))
    (h : mergeCellPair p = some c) : c.datesOk = true := by
  obtain ⟨p1, p2⟩ := p
  cases p1 with
  | none => exact hp.2 c h
  | some c1 =>
    cases p2 with
    | none => simp only [mergeCellPair] at h; cases h; exact hp.1 _ rfl
    | some c2 =>
      simp only [mergeCellPair] at h; cases h
      exact (datesOk_congr rfl rfl rfl rfl rfl).trans (hp.1 c1 rfl)

theorem merge_canonical {ty : Option JoinType} {on : Option (List String)} {a b r : List Cell}
    (ha : AllOk a) (hb : AllOk b) (h : merge ty on a b = .ok r) : Canonical r := by
  unfold merge at h
  obtain ⟨pairs, hp, h⟩ := bind_ok h
  refine ofCells_canonical h (fun c hc => ?_)
  obtain ⟨p, hpm, hpc⟩ := List.mem_filterMap.mp hc
  exact mergeCellPair_ok (join_mem ha hb hp p hpm) hpc

theorem firstsBy_mem {α κ} [BEq κ] (key : α → κ) {seen : List κ} {l : List α} {a : α}
    (h : a ∈ firstsBy key seen l) : a ∈ l := by
  induction l generalizing seen with
  | nil => simp [firstsBy] at h
  | cons x rest ih =>
    simp only [firstsBy] at h
    split at h
    · exact List.mem_cons_of_mem _ (ih h)
    · rcases List.mem_cons.mp h with rfl | h
      · simp
      · exact List.mem_cons_of_mem _ (ih h)

theorem coalesce_canonical {ts : List (List Cell)} {r : List Cell} (hts : ∀ t ∈ ts, AllOk t)
    (h : coalesce ts = .ok r) : Canonical r :=
  ofCells_canonical h (fun c hc => AllOk.flatten hts c (firstsBy_mem _ hc))

theorem addStaticsCell_dates (source : List Cell) (statics : List String) (c : Cell) :
    (addStaticsCell source statics c).datesOk = c.datesOk := by
  unfold addStaticsCell
  split <;> rfl

theorem addStatics_canonical {t source r : List Cell} {statics : List String} (ht : AllOk t)
    (h : addStatics t source statics = .ok r) : Canonical r := by
  refine ofCells_canonical h (fun c hc => ?_)
  obtain ⟨c', hc', rfl⟩ := List.mem_map.mp hc
  rw [addStaticsCell_dates]; exact ht c' hc'

theorem periodMergeCell_dates {b : List Cell} {suffix : Option String} {c d : Cell}
    (h : periodMergeCell b suffix c = .ok d) : d.datesOk = c.datesOk := by
  unfold periodMergeCell at h
  split at h
  · cases h; rfl
  · cases h; rfl
  · cases h

theorem periodMerge_canonical {a b r : List Cell} {suffix : Option String} (ha : AllOk a)
    (h : periodMerge a b suffix = .ok r) : Canonical r := by
  unfold periodMerge at h
  simp only [] at h
  split at h
  · obtain ⟨_, h, _⟩ := bind_ok h; cases h
  · obtain ⟨out, ho, h⟩ := bind_ok h
    refine ofCells_canonical h (fun c hc => ?_)
    obtain ⟨c', hc', hf⟩ := mapM_ok_mem ho c hc
    rw [periodMergeCell_dates hf]; exact ha c' hc'

/-! ## `clip` (all bounds), `t[p, e, m]`, `split`, `slices` -/

theorem optFilter_mem {β} {b : Option β} {p : β → Cell → Bool} {l : List Cell} {c : Cell}
    (h : c ∈ optFilter b p l) : c ∈ l := by
  unfold optFilter at h
  split at h
  · exact h
  · exact (List.mem_filter.mp h).1

theorem devFilter_mem {b : Option Rat} {u : Option LagUnit} {p : Rat → Rat → Bool} {l r : List Cell}
    (h : devFilter b u p l = .ok r) {c : Cell} (hc : c ∈ r) : c ∈ l := by
  unfold devFilter at h
  split at h
  · cases h; exact hc
  · split at h
    · cases h; exact (List.mem_filter.mp hc).1
    · split at h
      · cases h; cases hc
      · cases h

theorem clipFull_mem {t r : List Cell} {a : ClipFull} (h : Triangle.clipFull t a = .ok r) {c : Cell}
    (hc : c ∈ r) : c ∈ t := by
  unfold Triangle.clipFull at h
  simp only [] at h
  obtain ⟨c1, h1, h⟩ := bind_ok h
  obtain ⟨c2, h2, h⟩ := bind_ok h
  have := devFilter_mem h1 (devFilter_mem h2 (ofCells_mem h hc))
  exact optFilter_mem (optFilter_mem (optFilter_mem (optFilter_mem this)))

theorem clipFull_canonical {t r : List Cell} {a : ClipFull} (ht : AllOk t)
    (h : Triangle.clipFull t a = .ok r) : Canonical r := by
  have hm := fun c (hc : c ∈ r) => clipFull_mem h hc
  unfold Triangle.clipFull at h
  simp only [] at h
  obtain ⟨c1, h1, h⟩ := bind_ok h
  obtain ⟨c2, h2, h⟩ := bind_ok h
  exact ofCells_canonical h (fun c hc => ht c (hm c ((ofCells_perm h).mem_iff.mpr hc)))

theorem filterP_canonical {t r : List Cell} {p : Cell → Bool} (ht : AllOk t)
    (h : Triangle.filterP t p = .ok r) : Canonical r :=
  ofCells_canonical h (fun c hc => ht c (List.mem_filter.mp hc).1)

/-- `t[p, e, m]`: a returned triangle is canonical, a returned cell satisfies the date rules -/
theorem getItem_ok {t : List Cell} {p e : DateIdx} {m : MetaIdx} {res : List Cell ⊕ Cell}
    (ht : Canonical t) (h : Triangle.getItem t p e m = .ok res) :
    match res with
    | .inl r => Canonical r
    | .inr c => c.datesOk = true := by
  cases m
  all_goals
    simp only [Triangle.getItem] at h
    obtain ⟨f1, h1, h⟩ := bind_ok h
    have hf1 : Canonical f1 := by
      first
        | exact filterP_canonical (allOk_of ht) h1
        | (cases h1; exact ht)
    obtain ⟨⟨ps, pe⟩, _, h⟩ := bind_ok h
    simp only [] at h
    obtain ⟨f2, h2, h⟩ := bind_ok h
    have hf2 := filterP_canonical (allOk_of hf1) h2
    obtain ⟨⟨es, ee⟩, _, h⟩ := bind_ok h
    simp only [] at h
    obtain ⟨cl, h3, h⟩ := bind_ok h
    have hcl := clipFull_canonical (allOk_of hf2) h3
    split at h
    · cases h; exact hcl
    · split at h
      · cases h
      · cases h; exact (allOk_of hcl) _ (by simp)

/-- every triangle returned by `split` is canonical -/
theorem split_all_canonical {t : List Cell} {keys : List String} {parts : List (List MVal × List Cell)}
    (ht : AllOk t) (h : Triangle.split t keys = .ok parts) : ∀ p ∈ parts, Canonical p.2 := by
  intro p hp
  unfold Triangle.split at h
  obtain ⟨g, hg, hf⟩ := mapM_ok_mem h p hp
  obtain ⟨tri, htri, hf⟩ := bind_ok hf
  cases hf
  exact ofCells_canonical htri (fun c hc => ht c (mem_of_mem_groupBy hg hc))

/-- every value of `t.slices` is canonical -/
theorem slices_all_canonical {t : List Cell} (ht : Canonical t) :
    ∀ p ∈ Triangle.slices t, Canonical p.2 := by
  intro p hp
  have hmem := fun c (hc : c ∈ p.2) => mem_of_mem_slices hp hc
  unfold Triangle.slices at hp
  obtain ⟨m, _, rfl⟩ := List.mem_map.mp hp
  exact ⟨sorted_mergeSort (cmp := Cell.cmp) _, kindsConsistent_sub ht.2.1 hmem,
    fun c hc => (allOk_of ht) c (hmem c hc)⟩

end Bermuda.AllOps
