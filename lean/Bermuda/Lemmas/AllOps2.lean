/-
Per-operation canonical-form lemmas for `Model/AllOps2.lean` (`Op3`): function-argument operations,
Set mixins, `sum`, `t[i]`, `loose_period_merge`, `shift_origin`.
None of the proofs looks inside `Fn.Ex.eval`: a definition's value only reaches a cell through the
validating constructor `Cell.mk?`, or changes values / metadata only.
-/
import Bermuda.Model.AllOps2
import Bermuda.Lemmas.AllOps
import Bermuda.Lemmas.AllOpsBasis
import Bermuda.Lemmas.AllOpsEval
namespace Bermuda.AllOps
open Bermuda Bermuda.Properties.C01 Bermuda.Fn

/-! ## generic -/

/-- a `mapM` of cell-level operations each of which returns a valid cell returns valid cells -/
theorem mapM_allOk {f : Cell → Except Err Cell} {t out : List Cell}
    (hf : ∀ c ∈ t, ∀ d, f c = .ok d → d.datesOk = true) (h : t.mapM f = .ok out) : AllOk out := by
  intro d hd
  obtain ⟨c, hc, hfc⟩ := mapM_ok_mem h d hd
  exact hf c hc d hfc

theorem filterE_mem {p : Cell → Except Err Bool} {l r : List Cell} (h : filterE p l = .ok r) :
    ∀ c ∈ r, c ∈ l := by
  induction l generalizing r with
  | nil => simp [filterE] at h; subst h; simp
  | cons a rest ih =>
    simp only [filterE] at h
    split at h
    · cases h
    · split at h
      · cases h
      · rename_i b _ r' hr'
        cases h
        intro c hc
        split at hc
        · rcases List.mem_cons.mp hc with rfl | hc
          · simp
          · exact List.mem_cons_of_mem _ (ih hr' c hc)
        · exact List.mem_cons_of_mem _ (ih hr' c hc)

/-! ## `derive_fields`, `derive_metadata`, `replace`, `filter` -/

theorem deriveFieldStep_ok {cell d : Cell} {df : String × Ex} (h : deriveFieldStep cell df = .ok d) :
    d.datesOk = true := by
  unfold deriveFieldStep at h
  obtain ⟨_, _, h⟩ := bind_ok h
  obtain ⟨_, _, h⟩ := bind_ok h
  exact mk?_ok_dates h

theorem deriveFieldsCell_ok {defs : List (String × Ex)} {c d : Cell} (hc : c.datesOk = true)
    (h : deriveFieldsCell defs c = .ok d) : d.datesOk = true :=
  foldlM_inv (fun x : Cell => x.datesOk = true) h hc (fun _ _ _ _ _ hf => deriveFieldStep_ok hf)

theorem deriveFields_canonical {t r : List Cell} {defs : List (String × Ex)} (ht : AllOk t)
    (h : Fn.deriveFields t defs = .ok r) : Canonical r := by
  unfold Fn.deriveFields at h
  obtain ⟨v, hv, h⟩ := bind_ok h
  exact ofCells_canonical h (mapM_allOk (fun c hc d hd => deriveFieldsCell_ok (ht c hc) hd) hv)

theorem deriveMetadataStep_ok {cell d : Cell} {df : String × Ex} (h : deriveMetadataStep cell df = .ok d) :
    d.datesOk = true := by
  unfold deriveMetadataStep at h
  obtain ⟨_, _, h⟩ := bind_ok h
  obtain ⟨_, _, h⟩ := bind_ok h
  exact mk?_ok_dates h

theorem deriveMetadataCell_ok {defs : List (String × Ex)} {c d : Cell} (hc : c.datesOk = true)
    (h : deriveMetadataCell defs c = .ok d) : d.datesOk = true :=
  foldlM_inv (fun x : Cell => x.datesOk = true) h hc (fun _ _ _ _ _ hf => deriveMetadataStep_ok hf)

theorem deriveMetadataFn_canonical {t r : List Cell} {defs : List (String × Ex)} (ht : AllOk t)
    (h : Fn.deriveMetadata t defs = .ok r) : Canonical r := by
  unfold Fn.deriveMetadata at h
  obtain ⟨v, hv, h⟩ := bind_ok h
  exact ofCells_canonical h (mapM_allOk (fun c hc d hd => deriveMetadataCell_ok (ht c hc) hd) hv)

/-- `cell.replace(...)` validates at the end, whatever the definitions did -/
theorem replaceCell_ok {defs : List RDef} {c d : Cell} (h : replaceCell defs c = .ok d) :
    d.datesOk = true := by
  unfold replaceCell at h
  obtain ⟨_, _, h⟩ := bind_ok h
  exact mk?_ok_dates h

theorem replaceFn_canonical {t r : List Cell} {defs : List RDef} (h : Fn.replace t defs = .ok r) :
    Canonical r := by
  unfold Fn.replace at h
  obtain ⟨v, hv, h⟩ := bind_ok h
  exact ofCells_canonical h (mapM_allOk (fun _ _ _ hd => replaceCell_ok hd) hv)

theorem filterFn_canonical {t r : List Cell} {pred : Ex} (ht : AllOk t) (h : Fn.filter t pred = .ok r) :
    Canonical r := by
  unfold Fn.filter at h
  obtain ⟨v, hv, h⟩ := bind_ok h
  exact ofCells_canonical h (fun c hc => ht c (filterE_mem hv c hc))

/-! ## Set mixins, `sum`, `t[i]` -/

theorem union_canonical {a b r : List Cell} (ha : AllOk a) (hb : AllOk b) (h : Triangle.union a b = .ok r) :
    Canonical r :=
  ofCells_canonical h (ha.append hb)

/-- `a & b` takes its cells from `b` -/
theorem inter_canonical {a b r : List Cell} (hb : AllOk b) (h : Triangle.inter a b = .ok r) : Canonical r :=
  ofCells_canonical h (fun c hc => hb c (List.mem_filter.mp hc).1)

theorem diff_canonical {a b r : List Cell} (ha : AllOk a) (h : Triangle.diff a b = .ok r) : Canonical r :=
  ofCells_canonical h (fun c hc => ha c (List.mem_filter.mp hc).1)

theorem symdiff_canonical {a b r : List Cell} (ha : AllOk a) (hb : AllOk b)
    (h : Triangle.symdiff a b = .ok r) : Canonical r := by
  unfold Triangle.symdiff at h
  obtain ⟨x, hx, h⟩ := bind_ok h
  obtain ⟨y, hy, h⟩ := bind_ok h
  exact union_canonical (allOk_of (diff_canonical ha hx)) (allOk_of (diff_canonical hb hy)) h

theorem sumOf_canonical {t r : List Cell} {others : List (List Cell)} (ht : Canonical t)
    (ho : ∀ o ∈ others, AllOk o) (h : sumOf t others = .ok r) : Canonical r :=
  foldlM_inv Canonical h ht (fun _ o _ hacc hmem hf => add_canonical (allOk_of hacc) (ho o hmem) hf)

theorem cellAt_mem {t : List Cell} {i : Int} {c : Cell} (h : cellAt t i = .ok c) : c ∈ t := by
  unfold cellAt at h
  split at h
  · split at h
    · rename_i x hx; cases h; exact List.mem_of_getElem? hx
    · cases h
  · cases h

/-! ## `loose_period_merge` -/

theorem overwriteValues_dates (c r : Cell) (s : Option String) :
    (overwriteValues c r s).datesOk = c.datesOk := rfl

theorem looseGroup_ok {b : List Cell} {suffix : Option String} {g : (Date × Date × Metadata) × List Cell}
    {out : List Cell} (hg : AllOk g.2) (h : looseGroup b suffix g = .ok out) : AllOk out := by
  unfold looseGroup at h
  split at h
  · cases h; exact hg
  · cases h
    intro c hc
    obtain ⟨c', hc', rfl⟩ := List.mem_map.mp hc
    rw [overwriteValues_dates]; exact hg c' hc'
  · cases h

theorem looseCore_canonical {a b r : List Cell} {suffix : Option String} {common : List String}
    (ha : AllOk a) (h : Fn.looseCore a b suffix common = .ok r) : Canonical r := by
  unfold Fn.looseCore at h
  obtain ⟨keyed, hk, h⟩ := bind_ok h
  obtain ⟨out, ho, h⟩ := bind_ok h
  refine ofCells_canonical h (AllOk.flatten fun l hl => ?_)
  obtain ⟨g, hg, hf⟩ := mapM_ok_mem ho l hl
  refine looseGroup_ok (fun c hc => ?_) hf
  -- `g` is a group of `keyed`; its cells are second components of `keyed`, i.e. cells of `a`
  obtain ⟨g0, hg0, rfl⟩ := List.mem_map.mp hg
  obtain ⟨kc, hkc, rfl⟩ := List.mem_map.mp hc
  have hmem := mem_of_mem_groupBy hg0 hkc
  obtain ⟨c0, hc0, hf0⟩ := mapM_ok_mem hk kc hmem
  obtain ⟨pm, _, rfl⟩ := map_ok' hf0
  exact ha c0 hc0

theorem loosePeriodMerge_canonical {a b r : List Cell} {suffix : Option String} (ha : AllOk a)
    (h : Fn.loosePeriodMerge a b suffix = .ok r) : Canonical r := by
  unfold Fn.loosePeriodMerge at h
  obtain ⟨common, _, h⟩ := bind_ok h
  exact looseCore_canonical ha h

/-! ## `shift_origin` -/

theorem shiftOrigin_canonical {t m r : List Cell} (h : Fn.shiftOrigin t m = .ok r) : Canonical r := by
  unfold Fn.shiftOrigin at h
  obtain ⟨k, _, h⟩ := bind_ok h
  exact replaceFn_canonical h

/-! ## `bermuda/utils/adjust.py` -/

theorem weightGeometricDecay_canonical {t r : List Cell} {a : DecayArgs} {w : CellFn} {scaled : String → CellFn}
    (ht : AllOk t) (h : Fn.weightGeometricDecay t a w scaled = .ok r) : Canonical r := by
  unfold Fn.weightGeometricDecay at h
  obtain ⟨fields, _, h⟩ := bind_ok h
  split at h
  · exact deriveFields_canonical ht h
  · exact deriveFields_canonical ht h

/-- `triangle = to_cumulative(triangle) if triangle.is_incremental else triangle` -/
theorem cumOrSame_canonical {t t1 : List Cell} (ht : Canonical t)
    (h : Fn.cumOrSame t = .ok t1) : Canonical t1 := by
  unfold Fn.cumOrSame at h
  split at h
  · exact toCumulative_canonical ht h
  · cases h; exact ht

theorem select_canonical {t r : List Cell} {keys : List String} (h : Triangle.select t keys = .ok r) :
    Canonical r := by
  unfold Triangle.select at h
  obtain ⟨v, hv, h⟩ := bind_ok h
  exact ofCells_canonical h (mapM_mk_ok (f := fun c => c.select keys) hv)

theorem paidBsAdjustment_canonical {t ult r : List Cell} {dr pl : CellFn}
    (h : Fn.paidBsAdjustment t ult dr pl = .ok r) : Canonical r := by
  unfold Fn.paidBsAdjustment at h
  obtain ⟨re, _, h⟩ := bind_ok h
  obtain ⟨t1, h1, h⟩ := bind_ok h
  obtain ⟨t2, h2, h⟩ := bind_ok h
  obtain ⟨t3, h3, h⟩ := bind_ok h
  obtain ⟨t4, h4, h⟩ := bind_ok h
  exact deriveFields_canonical (allOk_of (select_canonical h4)) h

theorem reportedBsAdjustment_canonical {t r : List Cell} {method : Option String} {first second : String → CellFn}
    {trend : Except Err Unit} (ht : Canonical t)
    (h : Fn.reportedBsAdjustment t method first second trend = .ok r) : Canonical r := by
  unfold Fn.reportedBsAdjustment at h
  obtain ⟨_, _, h⟩ := bind_ok h
  obtain ⟨t1, h1, h⟩ := bind_ok h
  obtain ⟨t2, h2, h⟩ := bind_ok h
  obtain ⟨_, _, h⟩ := bind_ok h
  exact deriveFields_canonical (allOk_of (deriveFields_canonical (allOk_of (cumOrSame_canonical ht h1)) h2)) h

/-! ## evaluation rules for the non-vacuity example of `run3_canonical` -/

/-- the constructor on a list that is a permutation (without coordinate ties) of a canonical list -/
theorem ofCells_eval_perm {l r : List Cell} (hp : l.Perm r)
    (hdup : ∀ a ∈ l, ∀ b ∈ l, Cell.cmp a b = .eq → a = b) (hc : Canonical r) : Triangle.ofCells l = .ok r := by
  rw [ofCells_perm_invariant hp (fun a b ha hb h => hdup a ha b hb h)]
  exact ofCells_idem hc

theorem run3_cons {t t' : List Cell} {op : Op3} {ops : List Op3} (h : step3 t op = .ok t') :
    run3 t (op :: ops) = run3 t' ops := by
  simp [run3, h]

theorem deriveMetadataFn_eval {t L r : List Cell} {defs : List (String × Ex)}
    (h : t.mapM (deriveMetadataCell defs) = .ok L) (hr : Triangle.ofCells L = .ok r) :
    step3 t (.deriveMetadataFn defs) = .ok r := by
  simp [step3, Fn.deriveMetadata, h, bind, Except.bind, hr]

theorem deriveFields_eval {t L r : List Cell} {defs : List (String × Ex)}
    (h : t.mapM (deriveFieldsCell defs) = .ok L) (hr : Triangle.ofCells L = .ok r) :
    step3 t (.deriveFields defs) = .ok r := by
  simp [step3, Fn.deriveFields, h, bind, Except.bind, hr]

theorem replaceFn_eval {t L r : List Cell} {defs : List RDef}
    (h : t.mapM (replaceCell defs) = .ok L) (hr : Triangle.ofCells L = .ok r) :
    step3 t (.replaceFn defs) = .ok r := by
  simp [step3, Fn.replace, h, bind, Except.bind, hr]

theorem filterFn_eval {t L r : List Cell} {pred : Ex}
    (h : filterE (predOf pred) t = .ok L) (hr : Triangle.ofCells L = .ok r) :
    step3 t (.filterFn pred) = .ok r := by
  simp [step3, Fn.filter, h, bind, Except.bind, hr]

theorem union_eval {t o r : List Cell} (hr : Triangle.ofCells (t ++ o) = .ok r) :
    step3 t (.union o) = .ok r := hr

end Bermuda.AllOps
