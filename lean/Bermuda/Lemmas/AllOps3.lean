/-
Canonical form of everything the tabular readers of `Model/Frame.lean` return: every cell they build
goes through the validating constructor `Cell.mk?` (as the Python readers build them through
`CumulativeCell(...)` / `IncrementalCell(...)`), later additions only touch `values`, and the readers
end in `Triangle(...)`. Stated for EVERY table / frame / matrix the reader accepts, not only for
what the writers produce.
-/
import Bermuda.Model.AllOps2
import Bermuda.Lemmas.AllOps
import Bermuda.Lemmas.AllOps2
import Bermuda.Lemmas.AllOpsExtend
import Bermuda.Lemmas.AllOpsUnits
namespace Bermuda.AllOps
open Bermuda Bermuda.Properties.C01 Bermuda.Frame Bermuda.Fn

/-! ## wide -/

theorem wideIncrCell_ok {f d l : List String} {r : Row} {c : Cell} (h : wideIncrCell f d l r = .ok c) :
    c.datesOk = true := by
  unfold wideIncrCell at h
  obtain ⟨_, _, h⟩ := bind_ok' h
  obtain ⟨_, _, h⟩ := bind_ok' h
  obtain ⟨_, _, h⟩ := bind_ok' h
  obtain ⟨_, _, h⟩ := bind_ok' h
  exact mk?_ok_dates h

theorem fromWideRows_canonical {tb : Table} {f d l : List String} {r : List Cell}
    (h : fromWideRows tb f d l = .ok r) : Canonical r := by
  unfold fromWideRows at h
  split at h
  · unfold fromWideIncr at h
    obtain ⟨cells, hc, h⟩ := bind_ok' h
    refine ofCells_canonical h (fun c hmem => ?_)
    obtain ⟨row, _, hf⟩ := mapM_ok_mem hc c hmem
    exact wideIncrCell_ok hf
  · unfold fromWideCum at h
    obtain ⟨cells, hc, h⟩ := bind_ok' h
    refine ofCells_canonical h (fun c hmem => ?_)
    obtain ⟨g, _, hf⟩ := mapM_ok_mem hc c hmem
    unfold wideGroupToCell at hf
    obtain ⟨_, _, hf⟩ := bind_ok' hf
    exact mk?_ok_dates hf

/-! ## long -/

theorem addFieldTo_dates {c x y : Cell} {f : String} {v : Val} (h : addFieldTo c f v x = .ok y) :
    y.datesOk = x.datesOk := by
  unfold addFieldTo at h
  split at h
  · split at h
    · cases h
    · cases h; rfl
  · cases h; rfl

theorem addField_allOk {cells out : List Cell} {c : Cell} {f : String} {v : Val} (hc : AllOk cells)
    (h : addField cells c f v = .ok out) : AllOk out := by
  unfold addField at h
  split at h
  · intro y hy
    obtain ⟨x, hx, hf⟩ := mapM_ok_mem h y hy
    rw [addFieldTo_dates hf]; exact hc x hx
  · obtain ⟨c', hc', rfl⟩ := map_ok' h
    exact hc.append (fun y hy => by
      simp only [List.mem_singleton] at hy; subst hy; exact mk?_ok_dates hc')

theorem longAdd_allOk {acc out : List Cell} {c : Cell} {fld : MVal} {v : Option Val} (hc : AllOk acc)
    (h : longAdd acc c fld v = .ok out) : AllOk out := by
  unfold longAdd at h
  split at h
  · exact addField_allOk hc h
  · cases h

theorem longStep_allOk {cols d l : List String} {acc out : List Cell} {g : List MVal × List Row}
    (hc : AllOk acc) (h : longStep cols d l acc g = .ok out) : AllOk out := by
  unfold longStep at h
  obtain ⟨rows, _, h⟩ := bind_ok' h
  split at h
  · cases h
  · obtain ⟨_, _, h⟩ := bind_ok' h
    obtain ⟨_, _, h⟩ := bind_ok' h
    obtain ⟨_, _, h⟩ := bind_ok' h
    exact longAdd_allOk hc h

theorem longIncrStep_allOk {d l : List String} {acc out : List Cell} {r : Row}
    (hc : AllOk acc) (h : longIncrStep d l acc r = .ok out) : AllOk out := by
  unfold longIncrStep at h
  obtain ⟨_, _, h⟩ := bind_ok' h
  obtain ⟨_, _, h⟩ := bind_ok' h
  obtain ⟨_, _, h⟩ := bind_ok' h
  obtain ⟨_, _, h⟩ := bind_ok' h
  exact longAdd_allOk hc h

theorem fromLongRows_canonical {tb : Table} {l : List String} {r : List Cell}
    (h : fromLongRows tb l = .ok r) : Canonical r := by
  unfold fromLongRows at h
  split at h
  · unfold fromLongIncr at h
    obtain ⟨cells, hc, h⟩ := bind_ok' h
    exact ofCells_canonical h
      (foldlM_inv AllOk hc AllOk.nil (fun _ _ _ hacc _ hf => longIncrStep_allOk hacc hf))
  · unfold fromLongCum at h
    obtain ⟨cells, hc, h⟩ := bind_ok' h
    exact ofCells_canonical h
      (foldlM_inv AllOk hc AllOk.nil (fun _ _ _ hacc _ hf => longStep_allOk hacc hf))

/-! ## array frame -/

theorem fromArrayFrame_canonical {rows : List ArrayRow} {field : String} {md : Metadata} {res : Option Int}
    {r : List Cell} (h : fromArrayFrame rows field md res = .ok r) : Canonical r := by
  unfold fromArrayFrame at h
  obtain ⟨_, _, h⟩ := bind_ok' h
  obtain ⟨cells, hc, h⟩ := bind_ok' h
  refine ofCells_canonical h (AllOk.flatten fun l hl => ?_)
  obtain ⟨row, _, hf⟩ := mapM_ok_mem hc l hl
  unfold rowCells at hf
  intro c hmem
  obtain ⟨c0, _, hmk⟩ := mapM_ok_mem hf c hmem
  exact mk?_ok_dates hmk

/-! ## matrix -/

theorem matrixCell_ok {m : Matrix} {i j k : Nat} {c : Cell} (h : matrixCell m i j k = .ok (some c)) :
    c.datesOk = true := by
  unfold matrixCell at h
  simp only [] at h
  split at h
  · cases h
  · split at h
    · obtain ⟨c', hc', h⟩ := map_ok' h
      cases h; exact mk?_ok_dates hc'
    · obtain ⟨c', hc', h⟩ := map_ok' h
      cases h; exact mk?_ok_dates hc'

theorem fromMatrix_canonical {m : Matrix} {r : List Cell} (h : fromMatrix m = .ok r) : Canonical r := by
  unfold fromMatrix at h
  obtain ⟨cells, hc, h⟩ := bind_ok' h
  refine ofCells_canonical h (fun c hmem => ?_)
  obtain ⟨oc, hoc, hsome⟩ := List.mem_filterMap.mp hmem
  simp only [id] at hsome
  subst hsome
  obtain ⟨l2, hl2, hoc⟩ := List.mem_flatten.mp hoc
  obtain ⟨l1, hl1, hl2⟩ := List.mem_flatten.mp hl2
  obtain ⟨i, _, hi⟩ := mapM_ok_mem hc l1 hl1
  obtain ⟨j, _, hj⟩ := mapM_ok_mem hi l2 hl2
  obtain ⟨k, _, hk⟩ := mapM_ok_mem hj (some c) hoc
  exact matrixCell_ok hk

/-! ## `drop_off_diagonals`, `triangle_to_slice`, `make_pred_triangle_with_init` -/

theorem dropOffDiagonals_canonical {t r : List Cell} (ht : AllOk t) (h : Fn.dropOffDiagonals t = .ok r) :
    Canonical r := by
  unfold Fn.dropOffDiagonals at h
  obtain ⟨_, _, h⟩ := bind_ok h
  exact filterP_canonical ht h

theorem toSlice_canonical {t r : List Cell} (ht : AllOk t) (h : Fn.toSlice t = .ok r) : Canonical r := by
  unfold Fn.toSlice at h
  obtain ⟨r', hr', h⟩ := bind_ok h
  split at h
  · cases h
  · cases h; exact ofCells_canonical hr' ht

theorem sliceToTriangle_canonical {t r : List Cell} (ht : AllOk t) (h : Fn.sliceToTriangle t = .ok r) :
    Canonical r :=
  ofCells_canonical h ht

theorem makePredTriangleWithInit_canonical {t r : List Cell} {a : PredInitArgs}
    (hp : ∀ p, a.pred = some p → Canonical p) (h : Fn.makePredTriangleWithInit t a = .ok r) : Canonical r := by
  unfold Fn.makePredTriangleWithInit at h
  split at h
  · rename_i p hpred
    unfold predGiven at h
    split at h
    · cases h
    · split at h
      · cases h
      · split at h
        · cases h
        · split at h
          · split at h
            · cases h
            · cases h; exact hp _ hpred
          · cases h
  · obtain ⟨lags, _, h⟩ := bind_ok h
    obtain ⟨r1, h1, h⟩ := bind_ok h
    exact filterP_canonical (allOk_of (makeRightTriangle_canonical h1)) h

/-! ## `disaggregate_development` -/

theorem newDevCell_ok {init c : Cell} {lag : Rat} {keys : List String} {vals : String → CellFn}
    (h : newDevCell init lag keys vals = .ok c) : c.datesOk = true := by
  unfold newDevCell at h
  obtain ⟨_, _, h⟩ := bind_ok h
  exact mk?_ok_dates h

theorem devRowMulti_ok {a : DisaggDevArgs} {fields : List String} {er : Option Int} {vals : String → CellFn}
    {row out : List Cell} {init last : Cell} (h : devRowMulti a fields er vals row init last = .ok out) :
    AllOk out := by
  unfold devRowMulti at h
  split at h
  · cases h
  · obtain ⟨_, _, h⟩ := bind_ok h
    intro c hc
    obtain ⟨_, _, hf⟩ := mapM_ok_mem h c hc
    exact newDevCell_ok hf

theorem devRowSingle_ok {a : DisaggDevArgs} {fields : List String} {er : Option Int} {vals : String → CellFn}
    {acc out : List Cell} {init : Cell} (h : devRowSingle a fields er vals acc init = .ok out) : AllOk out := by
  unfold devRowSingle at h
  split at h
  · cases h; exact AllOk.nil
  · obtain ⟨_, _, h⟩ := bind_ok h
    intro c hc
    obtain ⟨_, _, hf⟩ := mapM_ok_mem h c hc
    exact newDevCell_ok hf

theorem devRow_ok {a : DisaggDevArgs} {fields : List String} {er : Option Int} {vals : String → CellFn}
    {acc row out : List Cell} (hrow : AllOk row) (h : devRow a fields er vals acc row = .ok out) : AllOk out := by
  unfold devRow at h
  split at h
  · rename_i init rest last hlast
    split at h
    · exact devRowMulti_ok h
    · split at h
      · cases h
        intro c hc
        simp only [List.mem_singleton] at hc
        subst hc
        exact hrow _ (by simp)
      · exact devRowSingle_ok h
  · cases h; exact AllOk.nil

theorem mem_slicePeriodRows {t : List Cell} {kr : Extend.SliceKey × List Cell} {c : Cell}
    (hk : kr ∈ Extend.slicePeriodRows t) (hc : c ∈ kr.2) : c ∈ t := by
  unfold Extend.slicePeriodRows at hk
  obtain ⟨k, _, rfl⟩ := List.mem_map.mp hk
  exact (List.mem_filter.mp ((List.mergeSort_perm _ _).mem_iff.mp hc)).1

theorem disaggDevSlice_ok {a : DisaggDevArgs} {fields : List String} {vals : String → CellFn}
    {slice out : List Cell} (hs : AllOk slice) (h : disaggDevSlice a fields vals slice = .ok out) : AllOk out := by
  unfold disaggDevSlice at h
  obtain ⟨er, _, h⟩ := bind_ok h
  refine foldlM_inv AllOk h AllOk.nil (fun acc kr acc' hacc hmem hf => ?_)
  obtain ⟨added, hadd, hf⟩ := bind_ok hf
  cases hf
  exact hacc.append (devRow_ok (fun c hc => hs c (mem_slicePeriodRows hmem hc)) hadd)

theorem disaggregateDevelopment_canonical {t r : List Cell} {a : DisaggDevArgs} {vals : String → CellFn}
    (ht : Canonical t) (h : Fn.disaggregateDevelopment t a vals = .ok r) : Canonical r := by
  unfold Fn.disaggregateDevelopment at h
  obtain ⟨chk, _, h⟩ := bind_ok h
  split at h
  · cases h; exact ht
  · obtain ⟨cum, hcum, h⟩ := bind_ok h
    obtain ⟨blocks, hb, h⟩ := bind_ok h
    obtain ⟨r1, hr1, h⟩ := bind_ok h
    have hcumc := cumOrSame_canonical ht hcum
    have hr1c : Canonical r1 := by
      refine ofCells_canonical hr1 (AllOk.flatten fun l hl => ?_)
      obtain ⟨sl, hsl, hf⟩ := mapM_ok_mem hb l hl
      exact disaggDevSlice_ok (slices_allOk (allOk_of hcumc) hsl) hf
    split at h
    · exact toIncremental_canonical hr1c h
    · cases h; exact hr1c

theorem disaggregate_canonical {t r : List Cell} {resExp : Nat} {weights : Option (List Units.Num)}
    {a : DisaggDevArgs} {vals : String → CellFn} (ht : Canonical t)
    (h : Fn.disaggregate t resExp weights a vals = .ok r) : Canonical r := by
  unfold Fn.disaggregate at h
  obtain ⟨_, _, h⟩ := bind_ok h
  obtain ⟨de, hde, h⟩ := bind_ok h
  exact disaggregateDevelopment_canonical (disaggregateExperience_canonical ht hde) h

/-! ## the composites -/

theorem wideRoundTrip_canonical {t r : List Cell} {f d l : List String} (h : Fn.wideRoundTrip t f d l = .ok r) :
    Canonical r := by
  unfold Fn.wideRoundTrip at h
  obtain ⟨_, _, h⟩ := bind_ok' h
  exact fromWideRows_canonical h

theorem longRoundTrip_canonical {t r : List Cell} {l : List String} (h : Fn.longRoundTrip t l = .ok r) :
    Canonical r := by
  unfold Fn.longRoundTrip at h
  obtain ⟨_, _, h⟩ := bind_ok' h
  exact fromLongRows_canonical h

theorem arrayRoundTrip_canonical {t r : List Cell} {field : String} {md : Metadata} {res : Option Int}
    (h : Fn.arrayRoundTrip t field md res = .ok r) : Canonical r := by
  unfold Fn.arrayRoundTrip at h
  obtain ⟨_, _, h⟩ := bind_ok' h
  exact fromArrayFrame_canonical h

theorem matrixRoundTrip_canonical {t r : List Cell} (h : Fn.matrixRoundTrip t = .ok r) : Canonical r := by
  unfold Fn.matrixRoundTrip at h
  obtain ⟨_, _, h⟩ := bind_ok' h
  exact fromMatrix_canonical h

end Bermuda.AllOps
