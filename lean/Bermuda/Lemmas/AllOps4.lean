/-
Canonical-form lemmas for `Model/AllOps3.lean` (`Op4`): the readers of `Model/FrameStatics.lean` and
`Model/FrameRich.lean` (for EVERY accepted frame / matrix), `__getitem__` with any index object on
`Triangle` and `TriangleSlice`, `make_pred_triangle`, `make_pred_triangle_complement`.
-/
import Bermuda.Model.AllOps3
import Bermuda.Lemmas.AllOps3
namespace Bermuda.AllOps
open Bermuda Bermuda.Properties.C01 Bermuda.Frame Bermuda.Fn

/-! ## `statics_data_frame_to_triangle`, `array_data_frame_to_triangle` (all arguments), `array_triangle_builder` -/

theorem fromStatics_canonical {rows : List StaticsRow} {ev : Option Date} {res : Option Int} {md : Metadata}
    {r : List Cell} (h : fromStatics rows ev res md = .ok r) : Canonical r := by
  unfold fromStatics at h
  obtain ⟨_, _, h⟩ := bind_ok' h
  obtain ⟨_, _, h⟩ := bind_ok' h
  obtain ⟨_, _, h⟩ := bind_ok' h
  obtain ⟨cells, hc, h⟩ := bind_ok' h
  refine ofCells_canonical h (fun c hmem => ?_)
  obtain ⟨p, _, hf⟩ := mapM_ok_mem hc c hmem
  exact mk?_ok_dates hf

theorem fromArrayFrameFull_canonical {fr : ArrayFrame} {field : String} {res evalRes : Option Int} {fromEnd : Bool}
    {md : Metadata} {r : List Cell} (h : fromArrayFrameFull fr field res evalRes fromEnd md = .ok r) :
    Canonical r := by
  unfold fromArrayFrameFull at h
  obtain ⟨_, _, h⟩ := bind_ok' h
  obtain ⟨_, _, h⟩ := bind_ok' h
  obtain ⟨cells, hc, h⟩ := bind_ok' h
  refine ofCells_canonical h (AllOk.flatten fun l hl => ?_)
  obtain ⟨row, _, hf⟩ := mapM_ok_mem hc l hl
  unfold arrayRowCells at hf
  intro c hmem
  obtain ⟨c0, _, hmk⟩ := mapM_ok_mem hf c hmem
  exact mk?_ok_dates hmk

theorem arrayTriangleBuilder_canonical {frames : List ArrayFrame} {fields : List String} {res evalRes : Option Int}
    {fromEnd : Bool} {md : Metadata} {r : List Cell}
    (h : arrayTriangleBuilder frames fields res evalRes fromEnd md = .ok r) : Canonical r := by
  unfold arrayTriangleBuilder at h
  split at h
  · cases h
  · split at h
    · cases h
    · obtain ⟨t0, h0, h⟩ := bind_ok' h
      refine foldlM_inv Canonical h (fromArrayFrameFull_canonical h0) (fun acc p acc' hacc _ hf => ?_)
      obtain ⟨t, ht, hf⟩ := bind_ok' hf
      exact merge_canonical (allOk_of hacc) (allOk_of (fromArrayFrameFull_canonical ht)) hf

theorem rightEdgeStatics_canonical {t r : List Cell} {ev : Option Date} {res : Option Int} {md : Metadata}
    (h : Fn.rightEdgeStatics t ev res md = .ok r) : Canonical r := by
  unfold Fn.rightEdgeStatics at h
  obtain ⟨_, _, h⟩ := bind_ok' h
  exact fromStatics_canonical h

theorem arrayFullRoundTrip_canonical {t r : List Cell} {field : String} {res evalRes : Option Int} {fromEnd : Bool}
    {md : Metadata} (h : Fn.arrayFullRoundTrip t field res evalRes fromEnd md = .ok r) : Canonical r := by
  unfold Fn.arrayFullRoundTrip at h
  obtain ⟨_, _, h⟩ := bind_ok' h
  exact fromArrayFrameFull_canonical h

theorem arrayBuilderRoundTrip_canonical {t r : List Cell} {fields : List String} {res evalRes : Option Int}
    {fromEnd : Bool} {md : Metadata} (h : Fn.arrayBuilderRoundTrip t fields res evalRes fromEnd md = .ok r) :
    Canonical r := by
  unfold Fn.arrayBuilderRoundTrip at h
  obtain ⟨_, _, h⟩ := bind_ok' h
  exact arrayTriangleBuilder_canonical h

/-! ## rich matrix -/

theorem richCell_ok {m : RichMatrix} {i j k : Nat} {c : Cell} (h : richCell m i j k = .ok (some c)) :
    c.datesOk = true := by
  unfold richCell at h
  simp only [] at h
  split at h
  · cases h
  · split at h
    · obtain ⟨c', hc', h⟩ := map_ok' h
      cases h; exact mk?_ok_dates hc'
    · obtain ⟨c', hc', h⟩ := map_ok' h
      cases h; exact mk?_ok_dates hc'

theorem fromRich_canonical {m : RichMatrix} {r : List Cell} (h : fromRich m = .ok r) : Canonical r := by
  unfold fromRich at h
  obtain ⟨cells, hc, h⟩ := bind_ok' h
  refine ofCells_canonical h (fun c hmem => ?_)
  obtain ⟨oc, hoc, hsome⟩ := List.mem_filterMap.mp hmem
  simp only [id] at hsome
  subst hsome
  obtain ⟨l2, hl2, hoc⟩ := List.mem_flatten.mp hoc
  obtain ⟨l1, hl1, hl2⟩ := List.mem_flatten.mp hl2
  obtain ⟨i, _, hi⟩ := mapM_ok_mem hc l1 hl1
  obtain ⟨j, _, hj⟩ := mapM_ok_mem hi l2 hl2
  obtain ⟨k, _, hk⟩ := mapM_ok_mem hj (some c) hoc
  exact richCell_ok hk

theorem richRoundTrip_canonical {t r : List Cell} {evalRes : Option Int} {fields : Option (List String)}
    (h : Fn.richRoundTrip t evalRes fields = .ok r) : Canonical r := by
  unfold Fn.richRoundTrip at h
  obtain ⟨_, _, h⟩ := bind_ok' h
  exact fromRich_canonical h

theorem matrixOptRoundTrip_canonical {t r : List Cell} {evalRes : Option Int} {fields : Option (List String)}
    (h : Fn.matrixOptRoundTrip t evalRes fields = .ok r) : Canonical r := by
  unfold Fn.matrixOptRoundTrip at h
  obtain ⟨_, _, h⟩ := bind_ok' h
  exact fromMatrix_canonical h

/-! ## `__getitem__` with any index object -/

/-- what `__getitem__` returns: a canonical triangle, or a cell that satisfies the date rules -/
def ItemOk : List Cell ⊕ Cell → Prop
  | .inl r => Canonical r
  | .inr c => c.datesOk = true

theorem pyIndex_mem {α} {l : List α} {i : Int} {a : α} (h : pyIndex l i = .ok a) : a ∈ l := by
  unfold pyIndex at h
  dsimp only at h
  by_cases hneg : i < 0
  · simp only [hneg, if_true] at h
    split at h
    · cases h
    · split at h
      · rename_i x hx; cases h; exact List.mem_of_getElem? hx
      · cases h
  · simp only [hneg, if_false] at h
    split at h
    · rename_i x hx; cases h; exact List.mem_of_getElem? hx
    · cases h

theorem pyGetSlice_mem {α} {l r : List α} {i j k : Option Int} (h : pyGetSlice l i j k = .ok r) :
    ∀ a ∈ r, a ∈ l := by
  unfold pyGetSlice at h
  split at h
  · cases h; exact fun a ha => (pySlice_sublist l i j).subset ha
  · split at h
    · cases h
    · cases h
      intro a ha
      obtain ⟨idx, _, hget⟩ := List.mem_filterMap.mp ha
      exact List.mem_of_getElem? hget

theorem getItemAny_ok {t : List Cell} {idx : Index} {res : List Cell ⊕ Cell} (ht : Canonical t)
    (h : Triangle.getItemAny t idx = .ok res) : ItemOk res := by
  unfold Triangle.getItemAny at h
  split at h
  · obtain ⟨c, hc, h⟩ := bind_ok h
    cases h; exact ht.2.2 c (pyIndex_mem hc)
  · obtain ⟨cs, hcs, h⟩ := bind_ok h
    obtain ⟨r, hr, h⟩ := bind_ok h
    cases h
    exact ofCells_canonical hr (fun c hc => ht.2.2 c (pyGetSlice_mem hcs c hc))
  · have := getItem_ok ht h
    cases res <;> exact this
  · cases h
  · cases h

theorem sliceOfCells_canonical {l r : List Cell} (hl : AllOk l) (h : TriangleSlice.ofCells l = .ok r) :
    Canonical r := by
  unfold TriangleSlice.ofCells at h
  obtain ⟨t, ht, h⟩ := bind_ok h
  split at h
  · obtain ⟨_, h', _⟩ := bind_ok h; cases h'
  · cases h; exact ofCells_canonical ht hl

theorem sliceGetItem_ok {t : List Cell} {p e : DateIdx} {res : List Cell ⊕ Cell} (ht : Canonical t)
    (h : TriangleSlice.getItem t p e = .ok res) : ItemOk res := by
  unfold TriangleSlice.getItem at h
  obtain ⟨⟨ps, pe⟩, _, h⟩ := bind_ok h
  simp only [] at h
  obtain ⟨f, hf, h⟩ := bind_ok h
  have hfc := filterP_canonical (allOk_of ht) hf
  obtain ⟨⟨es, ee⟩, _, h⟩ := bind_ok h
  simp only [] at h
  obtain ⟨cl, hcl, h⟩ := bind_ok h
  have hclc := clipFull_canonical (allOk_of hfc) hcl
  split at h
  · obtain ⟨r, hr, h⟩ := bind_ok h
    cases h
    exact sliceOfCells_canonical (allOk_of hclc) hr
  · split at h
    · cases h
    · cases h; exact (allOk_of hclc) _ (by simp)

theorem sliceGetItemAny_ok {t : List Cell} {idx : Index} {res : List Cell ⊕ Cell} (ht : AllOk t)
    (h : Fn.sliceGetItemAny t idx = .ok res) : ItemOk res := by
  unfold Fn.sliceGetItemAny at h
  obtain ⟨s, hs, h⟩ := bind_ok' h
  have hsc := sliceOfCells_canonical ht hs
  unfold TriangleSlice.getItemAny at h
  split at h
  · obtain ⟨c, hc, h⟩ := bind_ok h
    cases h; exact hsc.2.2 c (pyIndex_mem hc)
  · obtain ⟨cs, hcs, h⟩ := bind_ok h
    obtain ⟨r, hr, h⟩ := bind_ok h
    cases h
    exact sliceOfCells_canonical (fun c hc => hsc.2.2 c (pyGetSlice_mem hcs c hc)) hr
  · exact sliceGetItem_ok hsc h
  · cases h
  · cases h

theorem triangleOnly_canonical {x : Except Err (List Cell ⊕ Cell)} {r : List Cell}
    (hx : ∀ res, x = .ok res → ItemOk res) (h : triangleOnly x = .ok r) : Canonical r := by
  unfold triangleOnly at h
  split at h
  · cases h
  · cases h; exact hx _ rfl
  · cases h

/-! ## `make_pred_triangle`, `make_pred_triangle_complement` -/

theorem cellWithStatics_ok {statics : StaticsFn} {ps pe ev : Date} {md : Metadata} {c : Cell}
    (h : cellWithStatics statics ps pe ev md = .ok (some c)) : c.datesOk = true := by
  unfold cellWithStatics at h
  obtain ⟨ob, _, h⟩ := bind_ok' h
  split at h
  · cases h
  · split at h
    · cases h
    · cases h
    · cases h
    · obtain ⟨c', hc', h⟩ := map_ok' h
      cases h; exact mk?_ok_dates hc'

theorem makePredTriangle_canonical {a : PredArgs} {statics : StaticsFn} {r : List Cell}
    (h : Fn.makePredTriangle a statics = .ok r) : Canonical r := by
  unfold Fn.makePredTriangle at h
  simp only [] at h
  obtain ⟨_, _, h⟩ := bind_ok' h
  obtain ⟨_, _, h⟩ := bind_ok' h
  obtain ⟨_, _, h⟩ := bind_ok' h
  obtain ⟨_, _, h⟩ := bind_ok' h
  obtain ⟨_, _, h⟩ := bind_ok' h
  obtain ⟨_, _, h⟩ := bind_ok' h
  obtain ⟨_, _, h⟩ := bind_ok' h
  obtain ⟨cells, hc, h⟩ := bind_ok' h
  obtain ⟨tri, htri, h⟩ := bind_ok' h
  have htc : Canonical tri := by
    refine ofCells_canonical htri (fun c hmem => ?_)
    obtain ⟨oc, hoc, hsome⟩ := List.mem_filterMap.mp hmem
    simp only [id] at hsome
    subst hsome
    obtain ⟨co, _, hf⟩ := mapM_ok_mem hc (some c) hoc
    exact cellWithStatics_ok hf
  split at h
  · exact toIncremental_canonical htc h
  · cases h; exact htc

theorem makePredTriangleComplement_canonical {t r : List Cell} {a : ComplementArgs}
    (h : Fn.makePredTriangleComplement t a = .ok r) : Canonical r := by
  unfold Fn.makePredTriangleComplement at h
  obtain ⟨pa, _, h⟩ := bind_ok' h
  obtain ⟨edge, _, h⟩ := bind_ok' h
  simp only [] at h
  obtain ⟨raw, hraw, h⟩ := bind_ok' h
  obtain ⟨kept, hk, h⟩ := bind_ok' h
  exact ofCells_canonical h (fun c hc => (allOk_of (makePredTriangle_canonical hraw)) c (filterE_mem hk c hc))


/-! ## binary reader: every cell `_read_triangle` returns went through the constructor's checks -/

namespace Bin
open Bermuda.Codec

/-- the date rules on the bit view -/
def RawDates (c : RawCell) : Prop :=
  ¬ (c.pe < c.ps) ∧ ¬ (c.ev < c.ps) ∧ (c.ev == Date.max) = false ∧
  (match c.kind, c.prev with
   | .incremental, some p => p < c.ev
   | .incremental, none => False
   | _, some _ => False
   | _, none => True)

theorem cellInit_ok {c d : RawCell} (h : cellInit c = .ok d) :
    d = c ∧ ¬ (c.pe < c.ps) ∧ ¬ (c.ev < c.ps) ∧ (c.ev == Date.max) = false ∧ (∀ p, c.prev = some p → ¬ (c.ev ≤ p)) := by
  unfold cellInit at h
  split at h
  · cases h
  · split at h
    · cases h
    · split at h
      · cases h
      · split at h
        · cases h
        · rename_i h1 h2 h3 h4
          split at h
          · rename_i p hp
            split at h
            · cases h
            · rename_i hle
              cases h
              refine ⟨rfl, h2, h3, by simpa using h4, fun q hq => ?_⟩
              rw [hp] at hq; cases hq; exact hle
          · rename_i hp
            cases h
            exact ⟨rfl, h2, h3, by simpa using h4, fun q hq => by rw [hp] at hq; cases hq⟩

theorem lt_of_not_le {a b : Date} (h : ¬ (a ≤ b)) : b < a := by
  have h' : Date.cmp a b = .gt := Decidable.not_not.mp h
  show Date.cmp b a = .lt
  rw [Std.OrientedCmp.eq_swap (cmp := Date.cmp), h']; rfl

theorem finishCell_spec {c d : RawCell} {s s' : Bytes} (hk : c.prev.isSome = (c.kind == .incremental))
    (h : finishCell c s = .ok (d, s')) : RawDates d := by
  unfold finishCell at h
  split at h
  · cases h
  · rename_i c' hc'
    cases h
    obtain ⟨rfl, h1, h2, h3, h4⟩ := cellInit_ok hc'
    refine ⟨h1, h2, h3, ?_⟩
    cases hkind : d.kind <;> cases hprev : d.prev <;> simp [hkind, hprev] at hk ⊢
    exact lt_of_not_le (h4 _ hprev)

theorem readCellBody_spec {pool : List (Option Bytes)} {kind : CellKind} {md : RawMetadata} {s s' : Bytes}
    {c : RawCell} (h : readCellBody pool kind md s = .ok (c, s')) : RawDates c := by
  simp only [readCellBody, bindP] at h
  split at h
  · cases h
  · split at h
    · cases h
    · split at h
      · cases h
      · split at h
        · cases h
        · cases kind
          · exact finishCell_spec (by rfl) h
          · exact finishCell_spec (by rfl) h
          · simp only [bindP] at h
            split at h
            · cases h
            · exact finishCell_spec (by rfl) h

theorem readRecords_spec {pool : List (Option Bytes)} {f : Nat} {cur : Option RawMetadata} {s : Bytes}
    {cells : List RawCell} (h : readRecords pool f cur s = .ok cells) : ∀ c ∈ cells, RawDates c := by
  induction f generalizing cur s cells with
  | zero => simp [readRecords] at h
  | succ f ih =>
    cases s with
    | nil => simp [readRecords] at h; subst h; simp
    | cons m rest =>
      simp only [readRecords] at h
      split at h
      · split at h
        · cases h
        · exact ih h
      · split at h
        · split at h
          · cases h
          · rename_i c rest' hc
            split at h
            · cases h
            · rename_i tl htl
              cases h
              intro x hx
              rcases List.mem_cons.mp hx with rfl | hx
              · exact readCellBody_spec hc
              · exact ih htl x hx
        · cases h; simp

theorem decode_spec {s : Bytes} {cells : List RawCell} (h : decode s = .ok cells) : ∀ c ∈ cells, RawDates c := by
  unfold decode at h
  split at h
  · cases h
  · split at h
    · cases h
    · split at h
      · cases h
      · exact readRecords_spec h

theorem cellOfRaw_dates {c : RawCell} {d : Cell} (hc : RawDates c) (h : cellOfRaw c = .ok d) : d.datesOk = true := by
  unfold cellOfRaw at h
  obtain ⟨vals, _, h⟩ := bind_ok' h
  obtain ⟨md, _, h⟩ := bind_ok' h
  cases h
  obtain ⟨h1, h2, h3, h4⟩ := hc
  unfold Cell.datesOk
  simp only [Bool.and_eq_true, Bool.not_eq_true', decide_eq_false_iff_not, bne_iff_ne, ne_eq]
  refine ⟨⟨⟨h1, h2⟩, by simpa using h3⟩, ?_⟩
  cases hk : c.kind <;> cases hp : c.prev <;> simp [hk, hp] at h4 ⊢
  exact h4

end Bin

/-- `Triangle.from_binary`: canonical for EVERY byte string the reader accepts -/
theorem fromBinary_canonical {s : Codec.Bytes} {r : List Cell} (h : Fn.fromBinary s = .ok r) : Canonical r := by
  unfold Fn.fromBinary at h
  obtain ⟨raw, hraw, h⟩ := bind_ok' h
  obtain ⟨cells, hc, h⟩ := bind_ok' h
  refine ofCells_canonical h (fun c hmem => ?_)
  obtain ⟨rc, hrc, hf⟩ := mapM_ok_mem hc c hmem
  exact Bin.cellOfRaw_dates (Bin.decode_spec hraw rc hrc) hf

theorem binaryRoundTrip_canonical {t r : List Cell} {ext : Codec.Ext} {wflag : Bool} {rflag : Option Bool}
    (h : Fn.binaryRoundTrip t ext wflag rflag = .ok r) : Canonical r := by
  unfold Fn.binaryRoundTrip at h
  obtain ⟨_, _, h⟩ := bind_ok' h
  obtain ⟨_, _, h⟩ := bind_ok' h
  split at h
  · exact fromBinary_canonical h
  · cases h

/-! ## evaluation rules for the non-vacuity example of `run4_canonical` -/

theorem run4_cons {t t' : List Cell} {op : Op4} {ops : List Op4} (h : step4 t op = .ok t') :
    run4 t (op :: ops) = run4 t' ops := by
  simp [run4, h]

/-- `t[i:j]` through the general `__getitem__` -/
theorem getItemAnySlice_eval {t r : List Cell} {i j : Option Int} (hr : Triangle.ofCells (pySlice t i j) = .ok r) :
    step4 t (.getItemAny (.slice i j none)) = .ok r := by
  simp [step4, Triangle.getItemAny, pyGetSlice, triangleOnly, bind, Except.bind, hr, pure, Except.pure]

theorem step4_base {t : List Cell} {op : Op3} : step4 t (.base op) = step3 t op := rfl

end Bermuda.AllOps
