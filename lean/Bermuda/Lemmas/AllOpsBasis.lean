/-
C01 closure, part 2: `to_incremental`, `to_cumulative`, `aggregate`, `summarize`.
Every new cell of these operations is built through the validating constructor (`Cell.mk?`), every
other cell is an input cell; the results go through `Triangle.ofCells`.
-/
import Bermuda.Lemmas.AllOps
namespace Bermuda.AllOps
open Bermuda Bermuda.Properties.C01

/-! ## `to_incremental`, `to_cumulative` -/

theorem incPairs_allOk {k : RowKey} {p : Cell} {l out : List Cell} (h : incPairs k p l = .ok out) :
    AllOk out := by
  induction l generalizing p out with
  | nil => simp only [incPairs] at h; cases h; exact AllOk.nil
  | cons n rest ih =>
    simp only [incPairs] at h
    obtain ⟨v, _, h⟩ := bind_ok h
    obtain ⟨c, hc, h⟩ := bind_ok h
    obtain ⟨cs, hcs, h⟩ := bind_ok h
    cases h
    intro x hx
    rcases List.mem_cons.mp hx with rfl | hx
    · exact mk?_ok_dates hc
    · exact ih hcs x hx

theorem incRow_allOk {k : RowKey} {cells out : List Cell} (h : incRow k cells = .ok out) : AllOk out := by
  unfold incRow at h
  split at h
  · cases h; exact AllOk.nil
  · obtain ⟨first, hf, h⟩ := bind_ok h
    obtain ⟨others, ho, h⟩ := bind_ok h
    cases h
    intro x hx
    rcases List.mem_cons.mp hx with rfl | hx
    · exact mk?_ok_dates hf
    · exact incPairs_allOk ho x hx

theorem cumPairs_allOk {k : RowKey} {ev : Date} {cur : Dict Val} {l out : List Cell}
    (h : cumPairs k ev cur l = .ok out) : AllOk out := by
  induction l generalizing ev cur out with
  | nil => simp only [cumPairs] at h; cases h; exact AllOk.nil
  | cons c rest ih =>
    simp only [cumPairs] at h
    split at h
    · cases h
    · obtain ⟨v, _, h⟩ := bind_ok h
      obtain ⟨cell, hc, h⟩ := bind_ok h
      obtain ⟨cs, hcs, h⟩ := bind_ok h
      cases h
      intro x hx
      rcases List.mem_cons.mp hx with rfl | hx
      · exact mk?_ok_dates hc
      · exact ih hcs x hx

theorem cumRow_allOk {k : RowKey} {cells out : List Cell} (h : cumRow k cells = .ok out) : AllOk out := by
  unfold cumRow at h
  split at h
  · cases h; exact AllOk.nil
  · split at h
    · cases h
    · obtain ⟨first, hf, h⟩ := bind_ok h
      obtain ⟨others, ho, h⟩ := bind_ok h
      cases h
      intro x hx
      rcases List.mem_cons.mp hx with rfl | hx
      · exact mk?_ok_dates hf
      · exact cumPairs_allOk ho x hx

theorem overRows_allOk {f : RowKey → List Cell → Except Err (List Cell)} {t out : List Cell}
    (hf : ∀ k cells r, f k cells = .ok r → AllOk r) (h : overRows f t = .ok out) : AllOk out := by
  unfold overRows at h
  obtain ⟨parts, hp, rfl⟩ := map_ok' h
  refine AllOk.flatten (fun l hl => ?_)
  obtain ⟨p, _, hfp⟩ := mapM_ok_mem hp l hl
  exact hf _ _ _ hfp

theorem toIncremental_canonical {t r : List Cell} (ht : Canonical t) (h : Triangle.toIncremental t = .ok r) :
    Canonical r := by
  unfold Triangle.toIncremental at h
  split at h
  · cases h; exact ht
  · obtain ⟨cells, hc, h⟩ := bind_ok' h
    exact ofCells_canonical h (overRows_allOk (fun _ _ _ => incRow_allOk) hc)

theorem toCumulative_canonical {t r : List Cell} (ht : Canonical t) (h : Triangle.toCumulative t = .ok r) :
    Canonical r := by
  unfold Triangle.toCumulative at h
  split at h
  · cases h; exact ht
  · obtain ⟨cells, hc, h⟩ := bind_ok' h
    exact ofCells_canonical h (overRows_allOk (fun _ _ _ => cumRow_allOk) hc)

/-! ## `aggregate` -/

theorem aggregateEval_canonical {t r : List Cell} {res : Option (Int × String)} {origin : Date}
    (ht : Canonical t) (h : aggregateEval t res origin = .ok r) : Canonical r := by
  unfold aggregateEval at h
  split at h
  · cases h; exact ht
  · split at h
    · cases h
    · split at h
      · split at h
        · cases h
        · exact ofCells_canonical h (fun c hc => (allOk_of ht) c (List.mem_filter.mp hc).1)
      · cases h

theorem aggCell_dates {tr : Transc} {prem : Bool} {g : (Date × Date × Date) × List Cell} {c : Cell}
    (h : aggCell tr prem g = .ok c) : c.datesOk = true := by
  unfold aggCell at h
  split at h
  · cases h
  · split at h
    · cases h
    · exact mk?_ok_dates h

theorem aggregatePeriod_canonical {tr : Transc} {t r : List Cell} {res : Option (Int × String)} {origin : Date}
    {prem : Bool} (ht : Canonical t) (h : aggregatePeriod tr t res origin prem = .ok r) : Canonical r := by
  unfold aggregatePeriod at h
  split at h
  · cases h; exact ht
  · split at h
    · cases h
    · simp only [] at h
      split at h
      · cases h
      · split at h
        · cases h
        · split at h
          · cases h
          · split at h
            · cases h
            · rename_i newCells hnew
              refine ofCells_canonical h (fun c hc => ?_)
              obtain ⟨g, _, hg⟩ := smMapE_ok_mem hnew c hc
              exact aggCell_dates hg

theorem sumTriangles_canonical {ts : List (List Cell)} {r : List Cell} (hts : ∀ t ∈ ts, Canonical t)
    (h : sumTriangles ts = .ok r) : Canonical r := by
  unfold sumTriangles at h
  split at h
  · cases h; exact canonical_nil
  · rename_i t rest
    refine smFoldE_inv (P := Canonical) h (hts t (by simp)) (fun acc s acc' hacc hs hf => ?_)
    exact ofCells_canonical hf ((allOk_of hacc).append (allOk_of (hts s (by simp [hs]))))

theorem aggregateSlice_canonical {tr : Transc} {a : AggArgs} {s r : List Cell} (hs : Canonical s)
    (h : aggregateSlice tr a s = .ok r) : Canonical r := by
  unfold aggregateSlice at h
  split at h
  · cases h
  · rename_i e he
    exact aggregatePeriod_canonical (aggregateEval_canonical hs he) h

theorem aggregateCum_canonical {tr : Transc} {a : AggArgs} {t r : List Cell} (ht : Canonical t)
    (h : aggregateCum tr t a = .ok r) : Canonical r := by
  unfold aggregateCum at h
  split at h
  · cases h
  · rename_i aggs haggs
    refine sumTriangles_canonical (fun s hs => ?_) h
    obtain ⟨p, hp, hf⟩ := smMapE_ok_mem haggs s hs
    exact aggregateSlice_canonical (slices_all_canonical ht p hp) hf

theorem aggregate_canonical {tr : Transc} {a : AggArgs} {t r : List Cell} (ht : Canonical t)
    (h : aggregate tr t a = .ok r) : Canonical r := by
  unfold aggregate at h
  split at h
  · split at h
    · cases h
    · rename_i cum hcum
      split at h
      · cases h
      · rename_i agg hagg
        exact toIncremental_canonical (aggregateCum_canonical (toCumulative_canonical ht hcum) hagg) h
  · exact aggregateCum_canonical ht h

/-! ## `summarize` -/

theorem summaryCell_dates {tr : Transc} {extra : List RuleEntry} {incr prem : Bool} {md : Metadata}
    {g : CoordKey × List Cell} {c : Cell} (h : summaryCell tr extra incr prem md g = .ok c) :
    c.datesOk = true := by
  unfold summaryCell at h
  split at h
  · cases h
  · exact mk?_ok_dates h

theorem summarize_canonical {tr : Transc} {extra : List RuleEntry} {t r : List Cell} {prem : Bool}
    (h : summarize tr extra t prem = .ok r) : Canonical r := by
  unfold summarize at h
  split at h
  · cases h
  · simp only [] at h
    split at h
    · cases h
    · rename_i cells hcells
      refine ofCells_canonical h (fun c hc => ?_)
      obtain ⟨g, _, hg⟩ := smMapE_ok_mem hcells c hc
      exact summaryCell_dates hg

end Bermuda.AllOps
