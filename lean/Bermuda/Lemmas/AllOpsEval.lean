/-
Evaluation rules used by the non-vacuity example of `Properties/C01Ext.lean`.

The kernel cannot unfold `List.mergeSort` (well-founded recursion) on lists of two or more elements, so
a concrete chain is evaluated piecewise: everything an operation does BEFORE its final `Triangle(...)`
is computed by `decide +kernel` (through `okIs`), and the constructor call itself is discharged by
`ofCells_eval`: on an already canonical list the constructor is the identity (`ofCells_idem`).
-/
import Bermuda.Model.AllOps
import Bermuda.Properties.C01
namespace Bermuda.AllOps
open Bermuda Bermuda.Properties.C01

/-- decidable form of `r = .ok x` (`Except` has no `DecidableEq`) -/
def okIs {α : Type} [DecidableEq α] (r : Except Err α) (x : α) : Bool :=
  match r with
  | .ok y => decide (y = x)
  | .error _ => false

theorem okIs_eq {α : Type} [DecidableEq α] {r : Except Err α} {x : α} (h : okIs r x = true) : r = .ok x := by
  unfold okIs at h
  split at h
  · simp at h; rw [h]
  · cases h

theorem ofCells_eval {l l' : List Cell} (h : l = l') (hc : Canonical l') : Triangle.ofCells l = .ok l' := by
  subst h; exact ofCells_idem hc

theorem coalesce_eval {t r : List Cell} {os : List (List Cell)}
    (h : firstsBy coalKey [] (t :: os).flatten = r) (hc : Canonical r) : step2 t (.coalesce os) = .ok r :=
  ofCells_eval h hc

theorem addStatics_eval {t src r : List Cell} {st : List String}
    (h : t.map (addStaticsCell src st) = r) (hc : Canonical r) : step2 t (.addStatics src st) = .ok r :=
  ofCells_eval h hc

/-- `t.clip(min_eval=d, max_eval=d)` -/
theorem clipEval_eval {t r : List Cell} {d : Date}
    (h : (t.filter fun c => decide (d ≤ c.ev)).filter (fun c => decide (c.ev ≤ d)) = r) (hc : Canonical r) :
    step2 t (.clipFull { minEval := some d, maxEval := some d }) = .ok r :=
  ofCells_eval h hc

theorem toIncremental_eval {t L r : List Cell} (hi : Triangle.isIncremental t = false)
    (h : overRows incRow t = .ok L) (hr : Triangle.ofCells L = .ok r) : step2 t .toIncremental = .ok r := by
  simp [step2, Triangle.toIncremental, hi, h, Except.bind, hr]

theorem toCumulative_eval {t L r : List Cell} (hi : Triangle.isIncremental t = true)
    (h : overRows cumRow t = .ok L) (hr : Triangle.ofCells L = .ok r) : step2 t .toCumulative = .ok r := by
  simp [step2, Triangle.toCumulative, hi, h, Except.bind, hr]

theorem merge_eval {t o r : List Cell} {ty : Option JoinType} {on : Option (List String)} {P : List CellPair}
    (h : join ty on t o = .ok P) (hr : Triangle.ofCells (P.filterMap mergeCellPair) = .ok r) :
    step2 t (.merge ty on o) = .ok r := by
  simp [step2, merge, h, bind, Except.bind, hr]

theorem run2_cons {t t' : List Cell} {op : Op2} {ops : List Op2} (h : step2 t op = .ok t') :
    run2 t (op :: ops) = run2 t' ops := by
  simp [run2, h]

end Bermuda.AllOps
