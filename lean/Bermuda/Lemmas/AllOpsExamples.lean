/-
Concrete witnesses for the non-vacuity examples of `Properties/C01Ext.lean`: the triangles, the chains, and the
kernel evaluation of each chain step (`exChain_runs`, `exChain3_runs`, `exChain4_runs`). They are data and
computations, not property statements, hence not in the property file.
-/
import Bermuda.Model.AllOps3
import Bermuda.Properties.C01
import Bermuda.Lemmas.AllOps
import Bermuda.Lemmas.AllOpsEval
import Bermuda.Lemmas.AllOps2
import Bermuda.Lemmas.AllOps4
namespace Bermuda.Properties.C01Ext
open Bermuda Bermuda.Properties.C01 Bermuda.AllOps

/-! ### a concrete chain with six `Op2` operations

`coalesce` (one operand cell loses against an occupied coordinate, one is new), `add_statics`, `clip` on
the evaluation date, `to_incremental`, `to_cumulative` (round trip back to the clipped triangle), `merge`
(left join). The kernel cannot unfold `List.mergeSort` on ≥ 2 elements, so each step is evaluated up to
its final `Triangle(...)` call by `decide +kernel` and the constructor is discharged with `ofCells_idem`
(`Lemmas/AllOpsEval.lean`). -/

def exA : Metadata := { details := [("lob", .str "A")] }
def exB : Metadata := { details := [("lob", .str "B")], country := some "US" }

/-- a quarterly cumulative cell: quarter `q` of 2020, evaluated at the end of quarter `e` -/
def exCell (md : Metadata) (q e : Nat) (paid : Int) : Cell :=
  let qe (k : Nat) : Date := ⟨2020, 3 * k, if k == 2 || k == 3 then 30 else 31⟩
  { kind := .cumulative, ps := ⟨2020, 3 * q - 2, 1⟩, pe := qe q, ev := qe e,
    values := [("paid_loss", .int paid), ("earned_premium", .int 100)], md := md }

/-- two slices, ragged: 7 cells -/
def exT : List Cell :=
  [ exCell exA 1 1 10, exCell exA 1 2 20, exCell exA 1 3 25, exCell exA 2 2 7, exCell exA 2 3 9,
    exCell exB 1 1 1, exCell exB 1 2 2 ]

/-- `coalesce` operand: a cell at an occupied coordinate (loses) and a new one -/
def exOther : List Cell := [ exCell exA 1 1 999, exCell exB 2 2 3 ]
/-- `add_statics` source -/
def exSrc : List Cell := [ { exCell exA 1 4 0 with values := [("reported_loss", .int 40), ("earned_premium", .int 111)] } ]
/-- `merge` operand -/
def exO2 : List Cell := [ { exCell exB 2 2 0 with values := [("incurred_loss", .int 5)] } ]
def exD : Date := ⟨2020, 6, 30⟩

def exChain : List Op2 :=
  [ .coalesce [exOther], .addStatics exSrc ["reported_loss"],
    .clipFull { minEval := some exD, maxEval := some exD }, .toIncremental, .toCumulative,
    .merge (some .left) none exO2 ]

def exT1 : List Cell := exT ++ [exCell exB 2 2 3]
def exT2 : List Cell := exT1.map (addStaticsCell exSrc ["reported_loss"])
def exT3 : List Cell := (exT2.filter fun c => decide (exD ≤ c.ev)).filter (fun c => decide (c.ev ≤ exD))
def exT4 : List Cell := exT3.map fun c => { c with kind := .incremental, prev := some c.ps.pred }
def exT6 : List Cell := (joinCore .left exT3 exO2).filterMap mergeCellPair

theorem exT_canonical : Canonical exT := ⟨by decide +kernel, by decide +kernel, by decide +kernel⟩
theorem exT1_canonical : Canonical exT1 := ⟨by decide +kernel, by decide +kernel, by decide +kernel⟩
theorem exT2_canonical : Canonical exT2 := ⟨by decide +kernel, by decide +kernel, by decide +kernel⟩
theorem exT3_canonical : Canonical exT3 := ⟨by decide +kernel, by decide +kernel, by decide +kernel⟩
theorem exT4_canonical : Canonical exT4 := ⟨by decide +kernel, by decide +kernel, by decide +kernel⟩
theorem exT6_canonical : Canonical exT6 := ⟨by decide +kernel, by decide +kernel, by decide +kernel⟩

theorem exChain_runs : run2 exT exChain = .ok exT6 := by
  unfold exChain
  rw [run2_cons (coalesce_eval (r := exT1) (by decide +kernel) exT1_canonical)]
  rw [run2_cons (addStatics_eval (r := exT2) rfl exT2_canonical)]
  rw [run2_cons (clipEval_eval (r := exT3) rfl exT3_canonical)]
  rw [run2_cons (toIncremental_eval (L := exT4) (by decide +kernel) (okIs_eq (by decide +kernel))
        (ofCells_eval rfl exT4_canonical))]
  rw [run2_cons (toCumulative_eval (L := exT3) (by decide +kernel) (okIs_eq (by decide +kernel))
        (ofCells_eval rfl exT3_canonical))]
  rw [run2_cons (merge_eval (P := joinCore .left exT3 exO2) (okIs_eq (by decide +kernel))
        (ofCells_eval rfl exT6_canonical))]
  rfl


section nonvacuity3
open Bermuda.Fn


def exAc : Metadata := { details := [("lob", .str "C")] }
def exBc : Metadata := { details := [("lob", .str "C")], country := some "US" }

def exLob : Ex :=
  .ite (.bin .eq (.month (.cattr .evaluationDate)) (.const (.int 3))) (.const (.str "C")) (.detail "lob")
def exBig : Ex := .bin .gt (.field "paid_loss") (.const (.int 5))
def exDouble : Ex := .bin .mul (.field "paid_loss") (.const (.int 2))
def exU : List Cell := [ exCell exB 2 2 3 ]

def exChain3 : List Op3 :=
  [ .deriveMetadataFn [("lob", exLob)], .filterFn exBig, .deriveFields [("double", exDouble)],
    .replaceFn [.periodEnd (.cattr .evaluationDate)], .union exU ]

/-- `map` of the first step, in the order of the input -/
def exL1 : List Cell :=
  [ { exCell exA 1 1 10 with md := exAc }, exCell exA 1 2 20, exCell exA 1 3 25, exCell exA 2 2 7, exCell exA 2 3 9,
    { exCell exB 1 1 1 with md := exBc }, exCell exB 1 2 2 ]
/-- the same cells as the constructor returns them -/
def exS1 : List Cell :=
  [ exCell exA 1 2 20, exCell exA 1 3 25, exCell exA 2 2 7, exCell exA 2 3 9, { exCell exA 1 1 10 with md := exAc },
    exCell exB 1 2 2, { exCell exB 1 1 1 with md := exBc } ]
def exS2 : List Cell := exS1.take 5
def exS3 : List Cell := exS2.map fun c =>
  { c with values := c.values ++ [("double", match c.values.get? "paid_loss" with | some (.int i) => .int (i * 2) | _ => .none)] }
def exS4 : List Cell := exS3.map fun c => { c with pe := c.ev }
def exS5 : List Cell := exS4 ++ exU

theorem exL1_not_sorted : ¬ exL1.Pairwise (fun a b => Cell.le a b) := by decide +kernel
theorem exS1_canonical : Canonical exS1 := ⟨by decide +kernel, by decide +kernel, by decide +kernel⟩
theorem exS2_canonical : Canonical exS2 := ⟨by decide +kernel, by decide +kernel, by decide +kernel⟩
theorem exS3_canonical : Canonical exS3 := ⟨by decide +kernel, by decide +kernel, by decide +kernel⟩
theorem exS4_canonical : Canonical exS4 := ⟨by decide +kernel, by decide +kernel, by decide +kernel⟩
theorem exS5_canonical : Canonical exS5 := ⟨by decide +kernel, by decide +kernel, by decide +kernel⟩

theorem exChain3_runs : run3 exT exChain3 = .ok exS5 := by
  unfold exChain3
  rw [run3_cons (deriveMetadataFn_eval (L := exL1) (okIs_eq (by decide +kernel))
        (ofCells_eval_perm (by decide +kernel) (by decide +kernel) exS1_canonical))]
  rw [run3_cons (filterFn_eval (L := exS2) (okIs_eq (by decide +kernel)) (ofCells_eval rfl exS2_canonical))]
  rw [run3_cons (deriveFields_eval (L := exS3) (okIs_eq (by decide +kernel)) (ofCells_eval rfl exS3_canonical))]
  rw [run3_cons (replaceFn_eval (L := exS4) (okIs_eq (by decide +kernel)) (ofCells_eval rfl exS4_canonical))]
  rw [run3_cons (union_eval (ofCells_eval rfl exS5_canonical))]
  rfl

end nonvacuity3

section nonvacuity4
open Bermuda.Fn


def exChain4 : List Op4 :=
  [ .getItemAny (.slice (some 1) (some 6) none), .base (.deriveFields [("double", exDouble)]), .base (.filterFn exBig) ]

def exG1 : List Cell := [ exCell exA 1 2 20, exCell exA 1 3 25, exCell exA 2 2 7, exCell exA 2 3 9, exCell exB 1 1 1 ]
def exG2 : List Cell := exG1.map fun c =>
  { c with values := c.values ++ [("double", match c.values.get? "paid_loss" with | some (.int i) => .int (i * 2) | _ => .none)] }
def exG3 : List Cell := exG2.take 4

theorem exG1_canonical : Canonical exG1 := ⟨by decide +kernel, by decide +kernel, by decide +kernel⟩
theorem exG2_canonical : Canonical exG2 := ⟨by decide +kernel, by decide +kernel, by decide +kernel⟩
theorem exG3_canonical : Canonical exG3 := ⟨by decide +kernel, by decide +kernel, by decide +kernel⟩

theorem exChain4_runs : run4 exT exChain4 = .ok exG3 := by
  unfold exChain4
  rw [run4_cons (getItemAnySlice_eval (ofCells_eval (by decide +kernel) exG1_canonical))]
  rw [run4_cons (step4_base.trans (deriveFields_eval (L := exG2) (okIs_eq (by decide +kernel))
        (ofCells_eval rfl exG2_canonical)))]
  rw [run4_cons (step4_base.trans (filterFn_eval (L := exG3) (okIs_eq (by decide +kernel))
        (ofCells_eval rfl exG3_canonical)))]
  rfl

end nonvacuity4

end Bermuda.Properties.C01Ext
