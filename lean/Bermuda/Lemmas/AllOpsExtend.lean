/-
C01 closure, part 3: the extension operators `make_right_triangle`, `make_right_diagonal`,
`fill_forward_gaps`, `backfill`. Every added cell is built through the validating constructor
(`Cell.mk?`; `backfill` keeps cells only while they are valid: `takeValid`), so the date rules of the
added cells hold by construction — no calendar arithmetic is needed.
-/
import Bermuda.Lemmas.AllOpsBasis
namespace Bermuda.AllOps
open Bermuda Bermuda.Properties.C01 Bermuda.Extend

/-! ## `make_right_triangle`, `make_right_diagonal` -/

theorem rightCellOf_dates {u : LagUnit} {p : Rat × Cell} {c : Cell} (h : rightCellOf u p = .ok c) :
    c.datesOk = true := by
  unfold rightCellOf at h
  obtain ⟨ev, _, h⟩ := bind_ok h
  exact mk?_ok_dates h

theorem rightTriangleSlice_allOk {lags : Option (List Rat)} {u : LagUnit} {slice out : List Cell}
    (h : rightTriangleSlice lags u slice = .ok out) : AllOk out := by
  unfold rightTriangleSlice at h
  obtain ⟨edge, _, h⟩ := bind_ok h
  simp only [] at h
  split at h
  · obtain ⟨_, h, _⟩ := bind_ok h; cases h
  · intro c hc
    obtain ⟨p, _, hp⟩ := mapM_ok_mem h c hc
    exact rightCellOf_dates hp

theorem rightTriangleCells_allOk {cum out : List Cell} {lags : Option (List Rat)} {u? : Option LagUnit}
    (h : rightTriangleCells cum lags u? = .ok out) : AllOk out := by
  unfold rightTriangleCells at h
  split at h
  · split at h
    · cases h; exact AllOk.nil
    · cases h
  · obtain ⟨new, hn, h⟩ := bind_ok h
    cases h
    refine AllOk.flatten (fun l hl => ?_)
    obtain ⟨p, _, hp⟩ := mapM_ok_mem hn l hl
    exact rightTriangleSlice_allOk hp

theorem fixPrev_canonical {t right out : List Cell} (hr : AllOk right)
    (h : fixPrevEvaluationDate t right = .ok out) : Canonical out := by
  unfold fixPrevEvaluationDate at h
  simp only [] at h
  obtain ⟨obsEdge, _, h⟩ := bind_ok h
  obtain ⟨fixed, hfix, h⟩ := bind_ok h
  refine ofCells_canonical h (AllOk.append (fun c hc => hr c (List.mem_filter.mp hc).1) (fun c hc => ?_))
  obtain ⟨c', _, hc'⟩ := mapM_ok_mem hfix c hc
  exact mk?_ok_dates hc'

theorem finishRight_canonical {t new out : List Cell} (hn : AllOk new) (h : finishRight t new = .ok out) :
    Canonical out := by
  unfold finishRight at h
  obtain ⟨right, hr, h⟩ := bind_ok h
  have hrc := ofCells_canonical hr hn
  split at h
  · obtain ⟨inc, hi, h⟩ := bind_ok h
    exact fixPrev_canonical (allOk_of (toIncremental_canonical hrc hi)) h
  · cases h; exact hrc

theorem makeRightTriangle_canonical {t out : List Cell} {lags : Option (List Rat)} {unit : String}
    (h : makeRightTriangle t lags unit = .ok out) : Canonical out := by
  unfold makeRightTriangle makeRightTriangleU at h
  simp only [] at h
  split at h <;>
  · obtain ⟨cum, _, h⟩ := bind_ok h
    obtain ⟨new, hn, h⟩ := bind_ok h
    exact finishRight_canonical (rightTriangleCells_allOk hn) h

theorem rightDiagonalSlice_allOk {dates : List Date} {hist : Bool} {slice out : List Cell}
    (h : rightDiagonalSlice dates hist slice = .ok out) : AllOk out := by
  unfold rightDiagonalSlice at h
  simp only [] at h
  obtain ⟨edge, _, h⟩ := bind_ok h
  intro c hc
  obtain ⟨p, _, hp⟩ := mapM_ok_mem h c hc
  exact mk?_ok_dates hp

theorem rightDiagonalCells_allOk {cum out : List Cell} {dates : List Date} {hist : Bool}
    (h : rightDiagonalCells cum dates hist = .ok out) : AllOk out := by
  unfold rightDiagonalCells at h
  obtain ⟨new, hn, h⟩ := bind_ok h
  cases h
  refine AllOk.flatten (fun l hl => ?_)
  obtain ⟨p, _, hp⟩ := mapM_ok_mem hn l hl
  exact rightDiagonalSlice_allOk hp

theorem makeRightDiagonal_canonical {t out : List Cell} {dates : List Date} {hist : Bool}
    (h : makeRightDiagonal t dates hist = .ok out) : Canonical out := by
  unfold makeRightDiagonal at h
  simp only [] at h
  split at h <;>
  · obtain ⟨cum, _, h⟩ := bind_ok h
    obtain ⟨new, hn, h⟩ := bind_ok h
    exact finishRight_canonical (rightDiagonalCells_allOk hn) h

/-! ## `fill_forward_gaps` -/

/-- every cell stored in a lag dictionary satisfies the date rules -/
def DictOk (d : LagDict) : Prop := ∀ p ∈ d, p.2.datesOk = true

theorem lagSet_ok {d : LagDict} {k : Rat} {v : Cell} (hd : DictOk d) (hv : v.datesOk = true) :
    DictOk (lagSet d k v) := by
  unfold lagSet
  split
  · intro p hp
    obtain ⟨q, hq, rfl⟩ := List.mem_map.mp hp
    split
    · exact hv
    · exact hd q hq
  · intro p hp
    rcases List.mem_append.mp hp with hp | hp
    · exact hd p hp
    · simp at hp; subst hp; exact hv

theorem lagDictOf_ok {row : List Cell} (hr : AllOk row) : DictOk (lagDictOf row) := by
  unfold lagDictOf
  have : ∀ (l : List Cell) (d : LagDict), AllOk l → DictOk d →
      DictOk (l.foldl (fun d c => lagSet d c.devLag c) d) := by
    intro l
    induction l with
    | nil => intro d _ hd; exact hd
    | cons c rest ih =>
      intro d hl hd
      exact ih _ (fun x hx => hl x (by simp [hx])) (lagSet_ok hd (hl c (by simp)))
  exact this row [] hr (fun _ h => by cases h)

theorem fillStep_ok {res : Int} {noneFlag : Bool} {d d' : LagDict} {lag : Int} (hd : DictOk d)
    (h : fillStep res noneFlag d lag = .ok d') : DictOk d' := by
  unfold fillStep at h
  split at h
  · cases h
  · obtain ⟨c, hc, h⟩ := bind_ok h
    simp only [] at h
    split at h
    · obtain ⟨c2, hc2, h⟩ := bind_ok h
      cases h
      exact lagSet_ok hd (mk?_ok_dates hc2)
    · obtain ⟨c2, hc2, h⟩ := bind_ok h
      cases hc2; cases h
      exact lagSet_ok hd (mk?_ok_dates hc)

theorem fillRow_allOk {res : Int} {noneFlag : Bool} {row out : List Cell} (hr : AllOk row)
    (h : fillRow res noneFlag row = .ok out) : AllOk out := by
  unfold fillRow at h
  simp only [] at h
  split at h
  · cases h; exact AllOk.nil
  · split at h
    · obtain ⟨_, h, _⟩ := bind_ok h; cases h
    · obtain ⟨d, hd, h⟩ := bind_ok h
      cases h
      have hdo : DictOk d :=
        foldlM_inv (P := DictOk) hd (lagDictOf_ok hr) (fun acc a acc' hacc _ hf => fillStep_ok hacc hf)
      intro c hc
      obtain ⟨p, hp, rfl⟩ := List.mem_map.mp hc
      exact hdo p hp

theorem slicePeriodRows_mem {t : List Cell} {r : SliceKey × List Cell} (hr : r ∈ slicePeriodRows t)
    {c : Cell} (hc : c ∈ r.2) : c ∈ t := by
  unfold slicePeriodRows at hr
  obtain ⟨k, _, rfl⟩ := List.mem_map.mp hr
  exact (List.mem_filter.mp ((List.mergeSort_perm _ _).mem_iff.mp hc)).1

theorem fillForwardGaps_canonical {t out : List Cell} {res? : Option Int} {noneFlag : Bool}
    (ht : AllOk t) (h : fillForwardGaps t res? noneFlag = .ok out) : Canonical out := by
  unfold fillForwardGaps at h
  simp only [] at h
  have key : ∀ res : Int, ((slicePeriodRows t).mapM (fun r => fillRow res noneFlag r.2) >>=
      fun filled => Triangle.ofCells filled.flatten) = .ok out → Canonical out := by
    intro res h
    obtain ⟨filled, hf, h⟩ := bind_ok h
    refine ofCells_canonical h (AllOk.flatten (fun l hl => ?_))
    obtain ⟨r, hr, hfr⟩ := mapM_ok_mem hf l hl
    exact fillRow_allOk (fun c hc => ht c (slicePeriodRows_mem hr hc)) hfr
  split at h
  · exact ofCells_canonical h AllOk.nil
  · split at h
    · obtain ⟨res, hres, h⟩ := bind_ok h
      exact key _ h
    · split at h
      · obtain ⟨res, hres, h⟩ := bind_ok h
        exact key _ h
      · obtain ⟨_, h, _⟩ := bind_ok h; cases h

/-! ## `backfill` -/

theorem takeValid_allOk (l : List Cell) : AllOk (takeValid l) := by
  induction l with
  | nil => exact AllOk.nil
  | cons c rest ih =>
    simp only [takeValid]
    split
    · intro x hx
      rcases List.mem_cons.mp hx with rfl | hx
      · assumption
      · exact ih x hx
    · exact AllOk.nil

theorem backfillRow_allOk {statics : List String} {res? : Option Int} {minLag minAllowed : Int}
    {row out : List Cell} (h : backfillRow statics res? minLag minAllowed row = .ok out) : AllOk out := by
  unfold backfillRow at h
  split at h
  · cases h; exact AllOk.nil
  · obtain ⟨repl, _, h⟩ := bind_ok h
    simp only [] at h
    split at h
    · obtain ⟨res, _, h⟩ := bind_ok h
      split at h
      · split at h
        · cases h
        · cases h; exact AllOk.nil
      · cases h; exact takeValid_allOk _
    · obtain ⟨_, h, _⟩ := bind_ok h; cases h

theorem backfill_canonical {t out : List Cell} {statics : List String} {res? : Option Int} {minLag : Int}
    (ht : AllOk t) (h : backfill t statics res? minLag = .ok out) : Canonical out := by
  unfold backfill at h
  simp only [] at h
  split at h
  case h_2 => obtain ⟨_, h, _⟩ := bind_ok h; cases h
  obtain ⟨pres, _, h⟩ := bind_ok h
  obtain ⟨added, ha, h⟩ := bind_ok h
  obtain ⟨addTri, hat, h⟩ := bind_ok h
  have hadd : Canonical addTri := by
    refine ofCells_canonical hat (AllOk.flatten (fun l hl => ?_))
    obtain ⟨r, _, hr⟩ := mapM_ok_mem ha l hl
    exact backfillRow_allOk hr
  exact add_canonical ht (allOk_of hadd) h

end Bermuda.AllOps
