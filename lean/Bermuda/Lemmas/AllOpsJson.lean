/-
C01 closure, part 5: `Triangle.from_dict(j)` returns a canonical triangle for EVERY JSON document `j`
it accepts (hence also for `t.to_dict()`): every cell the decoder produces comes out of
`_parse_observation`, whose constructor call checks the date rules; `_parse_cell_set` only replaces
metadata; the final `Triangle(cells)` sorts and checks the class.
-/
import Bermuda.Lemmas.AllOps
namespace Bermuda.AllOps
open Bermuda Bermuda.Properties.C01 Bermuda.JsonIO

/-! ## the invariant of decoded values: every cell inside satisfies the date rules -/

mutual
def PGood : PVal → Prop
  | .cell c => c.datesOk = true
  | .list l => PGoodL l
  | .dict kvs => PGoodD kvs
  | _ => True
def PGoodL : List PVal → Prop
  | [] => True
  | x :: xs => PGood x ∧ PGoodL xs
def PGoodD : List (String × PVal) → Prop
  | [] => True
  | (_, v) :: r => PGood v ∧ PGoodD r
end

theorem PGoodL_iff (l : List PVal) : PGoodL l ↔ ∀ x ∈ l, PGood x := by
  induction l with
  | nil => simp [PGoodL]
  | cons x xs ih => simp [PGoodL, ih]

theorem PGoodD_iff (d : List (String × PVal)) : PGoodD d ↔ ∀ kv ∈ d, PGood kv.2 := by
  induction d with
  | nil => simp [PGoodD]
  | cons x xs ih => obtain ⟨k, v⟩ := x; simp [PGoodD, ih]

theorem PGood_null : PGood .null := by simp [PGood]

theorem dictSet_good {d : Dict PVal} {k : String} {v : PVal} (hd : ∀ kv ∈ d, PGood kv.2) (hv : PGood v) :
    ∀ kv ∈ Dict.set d k v, PGood kv.2 := by
  unfold Dict.set
  split
  · intro kv hkv
    obtain ⟨q, hq, rfl⟩ := List.mem_map.mp hkv
    split
    · exact hv
    · exact hd q hq
  · intro kv hkv
    rcases List.mem_append.mp hkv with h | h
    · exact hd kv h
    · simp at h; subst h; exact hv

theorem mkDict_good {ps : List (String × PVal)} (h : PGoodD ps) : ∀ kv ∈ mkDict ps, PGood kv.2 := by
  rw [PGoodD_iff] at h
  unfold mkDict
  have : ∀ (l : List (String × PVal)) (d : Dict PVal), (∀ kv ∈ l, PGood kv.2) → (∀ kv ∈ d, PGood kv.2) →
      ∀ kv ∈ l.foldl (fun d p => Dict.set d p.1 p.2) d, PGood kv.2 := by
    intro l
    induction l with
    | nil => intro d _ hd; exact hd
    | cons p rest ih =>
      intro d hl hd
      exact ih _ (fun x hx => hl x (by simp [hx])) (dictSet_good hd (hl p (by simp)))
  exact this ps [] h (fun _ h => by cases h)

theorem dictGet_good {d : Dict PVal} {k : String} {v : PVal} (hd : ∀ kv ∈ d, PGood kv.2)
    (h : d.get? k = some v) : PGood v := by
  unfold Dict.get? at h
  cases hf : d.find? (·.1 == k) with
  | none => rw [hf] at h; cases h
  | some p => rw [hf] at h; cases h; exact hd p (List.mem_of_find?_eq_some hf)

theorem appendList_good {acc : List PVal} {x : PVal} {r : List PVal} (ha : PGoodL acc) (hx : PGood x)
    (h : appendList acc x = .ok r) : PGoodL r := by
  unfold appendList at h
  split at h
  · cases h
    rw [PGoodL_iff] at *
    simp only [PGood] at hx
    rw [PGoodL_iff] at hx
    intro y hy
    rcases List.mem_append.mp hy with hy | hy
    · exact ha y hy
    · exact hx y hy
  · cases h

theorem pySumLists_good {v r : PVal} (hv : PGood v) (h : pySumLists v = .ok r) : PGood r := by
  unfold pySumLists at h
  split at h
  · rename_i l
    obtain ⟨out, ho, rfl⟩ := map_ok' h
    simp only [PGood] at hv ⊢
    rw [PGoodL_iff] at hv
    exact foldlM_inv (P := PGoodL) ho (by simp [PGoodL])
      (fun acc a acc' hacc ha hf => appendList_good hacc (hv a ha) hf)
  · split at h
    · cases h; simp [PGood, PGoodL]
    · cases h
  · split at h
    · cases h; simp [PGood, PGoodL]
    · cases h
  · cases h

theorem replaceMeta_good {md : JMeta} {x r : PVal} (hx : PGood x) (h : replaceMeta md x = .ok r) :
    PGood r := by
  unfold replaceMeta at h
  split at h
  · cases h; simp only [PGood] at hx ⊢; exact hx
  · cases h
  · cases h

theorem pCells_good {d : Dict PVal} {md : JMeta} {r : PVal} (hd : ∀ kv ∈ d, PGood kv.2)
    (h : pCells d md = .ok r) : PGood r := by
  unfold pCells at h
  split at h
  · rename_i obs hobs
    have hg := dictGet_good hd hobs
    simp only [PGood] at hg
    rw [PGoodL_iff] at hg
    obtain ⟨out, ho, rfl⟩ := map_ok' h
    simp only [PGood]
    rw [PGoodL_iff]
    intro y hy
    obtain ⟨x, hx, hf⟩ := mapM_ok_mem ho y hy
    exact replaceMeta_good (hg x hx) hf
  · split at h
    · cases h; simp [PGood, PGoodL]
    · cases h
  · split at h
    · cases h; simp [PGood, PGoodL]
    · cases h
  · cases h

theorem parseCellSet_good {d : Dict PVal} {r : PVal} (hd : ∀ kv ∈ d, PGood kv.2)
    (h : parseCellSet d = .ok r) : PGood r := by
  unfold parseCellSet at h
  obtain ⟨_, _, h⟩ := bind_ok' h
  obtain ⟨_, _, h⟩ := bind_ok' h
  obtain ⟨_, _, h⟩ := bind_ok' h
  obtain ⟨_, _, h⟩ := bind_ok' h
  obtain ⟨_, _, h⟩ := bind_ok' h
  obtain ⟨_, _, h⟩ := bind_ok' h
  obtain ⟨_, _, h⟩ := bind_ok' h
  obtain ⟨_, _, h⟩ := bind_ok' h
  exact pCells_good hd h

theorem parseObservation_good {d : Dict PVal} {r : PVal} (h : parseObservation d = .ok r) : PGood r := by
  unfold parseObservation at h
  obtain ⟨_, _, h⟩ := bind_ok' h
  obtain ⟨_, _, h⟩ := bind_ok' h
  obtain ⟨_, _, h⟩ := bind_ok' h
  obtain ⟨_, _, h⟩ := bind_ok' h
  obtain ⟨_, _, h⟩ := bind_ok' h
  obtain ⟨_, _, h⟩ := bind_ok' h
  simp only [] at h
  split at h
  · cases h; simp only [PGood]; assumption
  · cases h

theorem objectHook_good (d : Dict PVal) (q : PVal) (hd : PGoodD d) (h : objectHook d = .ok q) : PGood q := by
  rw [PGoodD_iff] at hd
  unfold objectHook at h
  split at h
  · refine pySumLists_good ?_ h
    cases hg : d.get? "slices" with
    | none => exact PGood_null
    | some v => exact dictGet_good hd hg
  · split at h
    · exact parseCellSet_good hd h
    · split at h
      · exact parseObservation_good h
      · cases h; simp only [PGood]; rw [PGoodD_iff]; exact hd

mutual
theorem decode_good : ∀ (j : JVal) (p : PVal), decode j = .ok p → PGood p
  | .null, p, h => by simp only [decode] at h; cases h; simp [PGood]
  | .bool b, p, h => by simp only [decode] at h; cases h; simp [PGood]
  | .int i, p, h => by simp only [decode] at h; cases h; simp [PGood]
  | .flt q, p, h => by simp only [decode] at h; cases h; simp [PGood]
  | .str s, p, h => by simp only [decode] at h; cases h; simp [PGood]
  | .arr l, p, h => by
    simp only [decode] at h
    obtain ⟨ps, hps, rfl⟩ := map_ok' h
    simp only [PGood]
    exact decodeList_good l ps hps
  | .obj kvs, p, h => by
    simp only [decode] at h
    obtain ⟨ps, hps, h⟩ := bind_ok' h
    refine objectHook_good _ _ ?_ h
    rw [PGoodD_iff]
    exact mkDict_good (decodeKvs_good kvs ps hps)
theorem decodeList_good : ∀ (l : List JVal) (ps : List PVal), decodeList l = .ok ps → PGoodL ps
  | [], ps, h => by simp only [decodeList] at h; cases h; simp [PGoodL]
  | x :: xs, ps, h => by
    simp only [decodeList] at h
    obtain ⟨x', hx', h⟩ := bind_ok' h
    obtain ⟨xs', hxs', rfl⟩ := map_ok' h
    exact ⟨decode_good x x' hx', decodeList_good xs xs' hxs'⟩
theorem decodeKvs_good : ∀ (l : List (String × JVal)) (ps : List (String × PVal)),
    decodeKvs l = .ok ps → PGoodD ps
  | [], ps, h => by simp only [decodeKvs] at h; cases h; simp [PGoodD]
  | (k, v) :: rest, ps, h => by
    simp only [decodeKvs] at h
    obtain ⟨v', hv', h⟩ := bind_ok' h
    obtain ⟨r', hr', rfl⟩ := map_ok' h
    exact ⟨decode_good v v' hv', decodeKvs_good rest r' hr'⟩
end

/-! ## `Triangle(cells)` on the decoder's result -/

theorem optMapM_mem {α β : Type} {f : α → Option β} {l : List α} {out : List β}
    (h : l.mapM f = some out) : ∀ b ∈ out, ∃ a ∈ l, f a = some b := by
  induction l generalizing out with
  | nil => simp [List.mapM_nil, pure] at h; subst h; simp
  | cons a rest ih =>
    rw [List.mapM_cons] at h
    cases hfa : f a with
    | none => rw [hfa] at h; cases h
    | some b =>
      rw [hfa] at h
      cases hr : rest.mapM f with
      | none => rw [hr] at h; cases h
      | some bs =>
        rw [hr] at h
        cases h
        intro x hx
        rcases List.mem_cons.mp hx with rfl | hx
        · exact ⟨a, by simp, hfa⟩
        · obtain ⟨a', ha', hf⟩ := ih hr x hx
          exact ⟨a', by simp [ha'], hf⟩

theorem ofJCells_canonical {cells r : List JCell} (hc : ∀ c ∈ cells, c.datesOk = true)
    (h : ofJCells cells = .ok r) : Canonical (r.map JCell.toCell) := by
  unfold ofJCells at h
  split at h
  · rename_i hk
    cases h
    have hperm := List.mergeSort_perm cells JCell.le
    refine ⟨?_, ?_, ?_⟩
    · rw [List.pairwise_map]
      exact List.pairwise_mergeSort
        (fun a b c hab hbc => leOf_trans (cmp := Cell.cmp) a.toCell b.toCell c.toCell hab hbc)
        (fun a b => leOf_total (cmp := Cell.cmp) a.toCell b.toCell) cells
    · rw [kindsConsistent_perm (hperm.map JCell.toCell)]; exact hk
    · intro c hcm
      obtain ⟨jc, hjc, rfl⟩ := List.mem_map.mp hcm
      exact (datesOk_congr rfl rfl rfl rfl rfl).trans (hc jc (hperm.mem_iff.mp hjc))
  · cases h

theorem triangleOf_canonical {p : PVal} {r : List JCell} (hp : PGood p) (h : triangleOf p = .ok r) :
    Canonical (r.map JCell.toCell) := by
  unfold triangleOf at h
  split at h
  · rename_i l
    split at h
    · rename_i cells hcells
      refine ofJCells_canonical (fun c hc => ?_) h
      obtain ⟨x, hx, hf⟩ := optMapM_mem hcells c hc
      simp only [PGood] at hp
      rw [PGoodL_iff] at hp
      have := hp x hx
      cases x <;> simp only [PVal.cell?] at hf <;> try cases hf
      simpa [PGood] using this
    · cases h
  · split at h
    · cases h; exact canonical_nil
    · cases h
  · split at h
    · cases h; exact canonical_nil
    · cases h
  · cases h

/-- `Triangle.from_dict(j)`, for every document it accepts -/
theorem fromDict_canonical {j : JVal} {r : List JCell} (h : fromDict j = .ok r) :
    Canonical (r.map JCell.toCell) := by
  unfold fromDict at h
  obtain ⟨p, hp, h⟩ := bind_ok' h
  exact triangleOf_canonical (decode_good j p hp) h

theorem jsonRoundTrip_canonical {t r : List Cell} (h : jsonRoundTrip t = .ok r) : Canonical r := by
  unfold jsonRoundTrip at h
  obtain ⟨js, _, h⟩ := bind_ok h
  obtain ⟨jr, hjr, h⟩ := bind_ok h
  cases h
  exact fromDict_canonical hjr

end Bermuda.AllOps
