/-
On the domain `detailKindsComparable` Python's partial `Metadata.__lt__` (`Metadata.cmp?`) is total and equals the
model's total comparison `Metadata.cmp`.
-/
import Bermuda.Model.AllOpsOrder
import Bermuda.Lemmas.Order
namespace Bermuda
open Std

theorem MVal.cmp?_eq {a b : MVal} (h : a.rank = b.rank) : MVal.cmp? a b = .ok (MVal.cmp a b) := by
  unfold MVal.cmp?
  split
  · rename_i he
    have : a = b := by simpa using he
    subst this
    rw [ReflCmp.compare_self (cmp := MVal.cmp)]
  · simp [h]

theorem itemCmp?_eq {a b : String × MVal} (h : a.1 = b.1 → a.2.rank = b.2.rank) :
    itemCmp? a b = .ok (itemCmp a b) := by
  unfold itemCmp? itemCmp
  simp only [compareLex, cmpOn]
  cases hc : compare a.1 b.1 with
  | eq =>
    have hk : a.1 = b.1 := compare_eq_iff_eq.mp hc
    simp only [Ordering.then]
    exact MVal.cmp?_eq (h hk)
  | lt => simp [Ordering.then]
  | gt => simp [Ordering.then]

theorem itemsLex?_eq {xs ys : List (String × MVal)}
    (h : ∀ a ∈ xs, ∀ b ∈ ys, a.1 = b.1 → a.2.rank = b.2.rank) :
    itemsLex? xs ys = .ok (List.compareLex itemCmp xs ys) := by
  induction xs generalizing ys with
  | nil => cases ys <;> simp [itemsLex?, List.compareLex]
  | cons a as ih =>
    cases ys with
    | nil => simp [itemsLex?, List.compareLex]
    | cons b bs =>
      simp only [itemsLex?, List.compareLex]
      rw [itemCmp?_eq (h a (by simp) b (by simp))]
      cases hc : itemCmp a b with
      | eq => simpa using ih (fun x hx y hy => h x (by simp [hx]) y (by simp [hy]))
      | lt => simp
      | gt => simp

theorem dictComparable_spec {d e : Dict MVal} (h : dictComparable d e = true) :
    ∀ a ∈ d, ∀ b ∈ e, a.1 = b.1 → a.2.rank = b.2.rank := by
  intro a ha b hb hk
  unfold dictComparable at h
  have := (List.all_eq_true.mp ((List.all_eq_true.mp h) a ha)) b hb
  simpa [hk] using this

theorem itemsCmp?_eq {d e : Dict MVal} (h : dictComparable d e = true) :
    itemsCmp? d e = .ok (itemsCmp d e) := by
  unfold itemsCmp? itemsCmp sortItems
  simp only [cmpOn]
  exact itemsLex?_eq (fun a ha b hb => dictComparable_spec h a ((List.mergeSort_perm _ _).mem_iff.mp ha) b
    ((List.mergeSort_perm _ _).mem_iff.mp hb))

instance : TransCmp Metadata.headCmp := by unfold Metadata.headCmp; infer_instance

theorem itemsLex?_refl (xs : List (String × MVal)) : itemsLex? xs xs = .ok .eq := by
  induction xs with
  | nil => rfl
  | cons x xs ih =>
    simp only [itemsLex?, itemCmp?, MVal.cmp?]
    rw [show compare x.1 x.1 = .eq from ReflCmp.compare_self]
    simp [ih]

/-- comparing a metadata with itself never raises -/
theorem Metadata.cmp?_self (a : Metadata) : Metadata.cmp? a a = .ok .eq := by
  unfold Metadata.cmp?
  rw [show Metadata.headCmp a a = .eq from ReflCmp.compare_self]
  simp only [itemsCmp?, itemsLex?_refl]

theorem Metadata.cmp_split (a b : Metadata) :
    Metadata.cmp a b = (Metadata.headCmp a b).then ((itemsCmp a.details b.details).then (itemsCmp a.lossDetails b.lossDetails)) := by
  simp only [Metadata.cmp, Metadata.headCmp, compareLex, cmpOn, Ordering.then_assoc]

/-- on comparable metadata Python's `<` never raises and is the model's total comparison -/
theorem Metadata.cmp?_eq {a b : Metadata} (h : a.detailKindsComparable b = true) :
    Metadata.cmp? a b = .ok (Metadata.cmp a b) := by
  unfold Metadata.detailKindsComparable at h
  simp only [Bool.and_eq_true] at h
  rw [Metadata.cmp_split]
  unfold Metadata.cmp?
  rw [itemsCmp?_eq h.1, itemsCmp?_eq h.2]
  cases Metadata.headCmp a b <;> simp only [Ordering.then]
  cases itemsCmp a.details b.details <;> simp [Ordering.then]

theorem dictComparable_symm (d e : Dict MVal) : dictComparable d e = dictComparable e d := by
  rw [Bool.eq_iff_iff]
  unfold dictComparable
  simp only [List.all_eq_true, Bool.or_eq_true, bne_iff_ne, ne_eq, beq_iff_eq]
  constructor
  · intro h b hb a ha
    rcases h a ha b hb with h1 | h1
    · exact Or.inl (fun e => h1 e.symm)
    · exact Or.inr h1.symm
  · intro h a ha b hb
    rcases h b hb a ha with h1 | h1
    · exact Or.inl (fun e => h1 e.symm)
    · exact Or.inr h1.symm

theorem Metadata.detailKindsComparable_symm (a b : Metadata) :
    a.detailKindsComparable b = b.detailKindsComparable a := by
  unfold Metadata.detailKindsComparable
  rw [dictComparable_symm a.details, dictComparable_symm a.lossDetails]

end Bermuda
