/-
Bridges between the executable Spec predicates of C01 (`Spec/C01.lean`: adjacent-pair checks) and the
propositions (`List.Pairwise`), in both directions. The converse direction needs transitivity, which every
comparison of `Model/Order.lean` has (`TransCmp`).
-/
import Bermuda.Model.Ops
import Bermuda.Spec.C01
import Bermuda.Lemmas.Sort
namespace Bermuda
open Std

/-- an adjacent-pair check implies the pairwise statement for a transitive relation -/
theorem pairwise_of_chainB {α} {le : α → α → Bool} (htrans : ∀ a b c, le a b = true → le b c = true → le a c = true)
    {l : List α} (h : Spec.chainB le l = true) : l.Pairwise (fun a b => le a b = true) := by
  induction l with
  | nil => exact List.Pairwise.nil
  | cons a rest ih =>
    cases rest with
    | nil => exact List.pairwise_singleton _ _
    | cons b rest' =>
      simp only [Spec.chainB, Bool.and_eq_true] at h
      have ihp := ih h.2
      refine List.pairwise_cons.mpr ⟨fun x hx => ?_, ihp⟩
      rcases List.mem_cons.mp hx with rfl | hx
      · exact h.1
      · exact htrans a b x h.1 ((List.pairwise_cons.mp ihp).1 x hx)

theorem Cell.le_trans (a b c : Cell) : Cell.le a b = true → Cell.le b c = true → Cell.le a c = true :=
  leOf_trans (cmp := Cell.cmp) a b c

/-- the relation `Spec.sliceOrder` checks on adjacent cells -/
def sliceRel (a b : Cell) : Bool := if a.md == b.md then Cell.le a b else Metadata.cmp a.md b.md == .lt

/-- `Cell.le` decomposed: the metadata are not descending, and when they tie the cells are `le` -/
theorem Cell.le_md {a b : Cell} (h : Cell.le a b = true) : Metadata.cmp a.md b.md ≠ .gt := by
  unfold Cell.le at h
  revert h
  simp only [Cell.cmp, compareLex, cmpOn]
  cases Metadata.cmp a.md b.md <;> simp

theorem sliceRel_le {a b : Cell} (h : sliceRel a b = true) : Cell.le a b = true := by
  unfold sliceRel at h
  split at h
  · exact h
  · unfold Cell.le
    simp only [Cell.cmp, compareLex, cmpOn]
    have : Metadata.cmp a.md b.md = .lt := by simpa using h
    rw [this]; rfl

theorem sliceRel_trans (a b c : Cell) (h1 : sliceRel a b = true) (h2 : sliceRel b c = true) : sliceRel a c = true := by
  have hle := Cell.le_trans a b c (sliceRel_le h1) (sliceRel_le h2)
  unfold sliceRel
  split
  · exact hle
  · rename_i hne
    -- the metadata differ: one of the two steps was strictly ascending
    have hac : Metadata.cmp a.md c.md ≠ .gt := Cell.le_md hle
    unfold sliceRel at h1 h2
    by_cases hab : (a.md == b.md) = true
    · have e1 : a.md = b.md := by simpa using hab
      by_cases hbc : (b.md == c.md) = true
      · have e2 : b.md = c.md := by simpa using hbc
        exact absurd (by simp [e1, e2]) hne
      · simp only [hbc] at h2
        rw [e1]; simpa using h2
    · simp only [hab] at h1
      have l1 : Metadata.cmp a.md b.md = .lt := by simpa using h1
      have l2 : Metadata.cmp b.md c.md ≠ .gt := Cell.le_md (sliceRel_le h2)
      have : Metadata.cmp a.md c.md = .lt := by
        have hle' : (Metadata.cmp b.md c.md).isLE = true := by
          revert l2; cases Metadata.cmp b.md c.md <;> simp
        exact TransCmp.lt_of_lt_of_isLE l1 hle'
      simp [this]

theorem sliceRel_md {a b : Cell} (h : sliceRel a b = true) : a.md = b.md ∨ Metadata.cmp a.md b.md = .lt := by
  unfold sliceRel at h
  split at h
  · rename_i he; exact Or.inl (by simpa using he)
  · exact Or.inr (by simpa using h)

/-- the scan of `Spec.slicesContiguous` succeeds on a sequence ordered by `sliceRel` when everything already
left (`seen`) is strictly below what is still to come -/
theorem slicesContiguous_go {seen : List Metadata} {cur : Option Metadata} {l : List Cell}
    (hp : l.Pairwise (fun a b => sliceRel a b = true))
    (hseen : ∀ s ∈ seen, ∀ c ∈ l, Metadata.cmp s c.md = .lt)
    (hcur : ∀ m, cur = some m → ∀ c ∈ l, c.md = m ∨ Metadata.cmp m c.md = .lt) :
    Spec.slicesContiguous.go seen cur l = true := by
  induction l generalizing seen cur with
  | nil => simp [Spec.slicesContiguous.go]
  | cons c rest ih =>
    have hrest := (List.pairwise_cons.mp hp).2
    have hc := (List.pairwise_cons.mp hp).1
    simp only [Spec.slicesContiguous.go]
    split
    · exact ih hrest (fun s hs x hx => hseen s hs x (List.mem_cons_of_mem _ hx))
        (fun m hm x hx => hcur m hm x (List.mem_cons_of_mem _ hx))
    · rename_i hne
      split
      · rename_i hcont
        have hmem : c.md ∈ seen := by simpa using hcont
        have := hseen c.md hmem c (by simp)
        rw [ReflCmp.compare_self (cmp := Metadata.cmp)] at this
        cases this
      · -- a new slice starts at `c`
        have hnew : ∀ x ∈ rest, x.md = c.md ∨ Metadata.cmp c.md x.md = .lt := fun x hx => by
          rcases sliceRel_md (hc x hx) with h | h
          · exact Or.inl h.symm
          · exact Or.inr h
        refine ih hrest (fun s hs x hx => ?_) (fun m hm x hx => ?_)
        · -- everything left behind is strictly below the rest
          have hsc : Metadata.cmp s c.md = .lt := by
            cases hcu : cur with
            | none =>
              simp only [hcu] at hs
              exact hseen s hs c (by simp)
            | some m =>
              simp only [hcu] at hs
              rcases List.mem_cons.mp hs with rfl | hs
              · rcases hcur _ hcu c (by simp) with h | h
                · exact absurd (by simp [hcu, h]) hne
                · exact h
              · exact hseen s hs c (by simp)
          rcases hnew x hx with h | h
          · rw [h]; exact hsc
          · exact TransCmp.lt_trans hsc h
        · cases hm
          exact hnew x hx

theorem slicesContiguous_of_pairwise {l : List Cell} (hp : l.Pairwise (fun a b => sliceRel a b = true)) :
    Spec.slicesContiguous l = true :=
  slicesContiguous_go hp (fun _ h => by cases h) (fun _ h => by cases h)

end Bermuda
