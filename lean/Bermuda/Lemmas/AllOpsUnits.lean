/-
C01 closure, part 4: the unit-changing utilities (`convert_currency`, `disaggregate_experience`,
`accident_quarter_to_policy_year`) and the resampling utilities (`blend`, `thin`, `bootstrap`,
`moment_match`). New cells are built by the validating constructor, or are input cells with other
values.
-/
import Bermuda.Lemmas.AllOps
namespace Bermuda.AllOps
open Bermuda Bermuda.Properties.C01

/-! ## `convert_currency` -/

theorem convertCell_dates {c d : Cell} {rate : Units.Num} {target : String}
    (h : Units.convertCell c rate target = .ok d) : d.datesOk = true := by
  unfold Units.convertCell at h
  obtain ⟨vs, _, h⟩ := bind_ok h
  exact mk?_ok_dates h

theorem convertSlice_allOk {target : String} {rates : List (String × Units.Num)} {sl : Metadata × List Cell}
    {out : List Cell} (hs : AllOk sl.2) (h : Units.convertSlice target rates sl = .ok out) : AllOk out := by
  unfold Units.convertSlice at h
  split at h
  · cases h
  · split at h
    · cases h; exact hs
    · split at h
      · cases h
      · intro c hc
        obtain ⟨c', _, hc'⟩ := mapM_ok_mem h c hc
        exact convertCell_dates hc'

theorem convertCurrency_canonical {t out : List Cell} {target : String} {rates : List (String × Units.Num)}
    (ht : AllOk t) (h : Units.convertCurrency t target rates = .ok out) : Canonical out := by
  unfold Units.convertCurrency at h
  obtain ⟨parts, hp, h⟩ := bind_ok h
  refine ofCells_canonical h (AllOk.flatten (fun l hl => ?_))
  obtain ⟨sl, hsl, hf⟩ := mapM_ok_mem hp l hl
  exact convertSlice_allOk (slices_allOk ht hsl) hf

/-! ## `disaggregate_experience` -/

theorem subCell_dates {c d : Cell} {fields : List String} {weighted : List (String × List Val)}
    {subs : List (Date × Date)} {k : Nat} (h : Units.subCell c fields weighted subs k = .ok d) :
    d.datesOk = true := by
  unfold Units.subCell at h
  obtain ⟨vals, _, h⟩ := bind_ok h
  exact mk?_ok_dates h

theorem disaggCell_allOk {c : Cell} {res n : Nat} {weights : List Rat} {fields : List String}
    {out : List Cell} (h : Units.disaggCell c res n weights fields = .ok out) : AllOk out := by
  unfold Units.disaggCell at h
  simp only [] at h
  split at h
  · obtain ⟨_, h, _⟩ := bind_ok h; cases h
  · obtain ⟨weighted, _, h⟩ := bind_ok h
    intro d hd
    obtain ⟨k, _, hk⟩ := mapM_ok_mem h d hd
    exact subCell_dates hk

theorem disaggSlice_allOk {sl : List Cell} {res : Nat} {weights : List Rat} {fields : List String}
    {out : List Cell} (h : Units.disaggSlice sl res weights fields = .ok out) : AllOk out := by
  unfold Units.disaggSlice at h
  obtain ⟨sres, _, h⟩ := bind_ok h
  simp only [] at h
  obtain ⟨parts, hp, h⟩ := bind_ok h
  cases h
  refine AllOk.flatten (fun l hl => ?_)
  obtain ⟨c, _, hc⟩ := mapM_ok_mem hp l hl
  exact disaggCell_allOk hc

theorem disaggCore_canonical {t out : List Cell} {res : Nat} {ws : List Rat} {fields : List String}
    (h : Units.disaggCore t res ws fields = .ok out) : Canonical out := by
  unfold Units.disaggCore at h
  obtain ⟨parts, hp, h⟩ := bind_ok h
  refine ofCells_canonical h (AllOk.flatten (fun l hl => ?_))
  obtain ⟨sl, _, hsl⟩ := mapM_ok_mem hp l hl
  exact disaggSlice_allOk hsl

theorem disaggregateExperience_canonical {t out : List Cell} {res : Nat} {weights : Option (List Units.Num)}
    {fields : Option (List String)} (ht : Canonical t)
    (h : Units.disaggregateExperience t res weights fields = .ok out) : Canonical out := by
  unfold Units.disaggregateExperience at h
  split at h
  · cases h
  · split at h
    · cases h
    · split at h
      · cases h
      · split at h
        · cases h; exact ht
        · simp only [] at h
          repeat' (split at h <;> try (cases h; done))
          exact disaggCore_canonical h

/-! ## `accident_quarter_to_policy_year` -/

theorem aqToPolicyYearSlice_canonical {sl out : List Cell} {policyLen : Nat} {origin : Date}
    {continuous : Bool} (h : Units.aqToPolicyYearSlice sl policyLen origin continuous = .ok out) :
    Canonical out := by
  unfold Units.aqToPolicyYearSlice at h
  obtain ⟨tri, _, h⟩ := bind_ok h
  exact deriveMetadata_canonical h

theorem aqToPolicyYear_canonical {t out : List Cell} {policyLen : Nat} {origin : Date} {continuous : Bool}
    (h : Units.aqToPolicyYear t policyLen origin continuous = .ok out) : Canonical out := by
  unfold Units.aqToPolicyYear at h
  refine foldlM_inv (P := Canonical) h canonical_nil (fun acc sl acc' hacc _ hf => ?_)
  obtain ⟨r, hr, hf⟩ := bind_ok hf
  exact add_canonical (allOk_of hacc) (allOk_of (aqToPolicyYearSlice_canonical hr)) hf

/-! ## `blend` -/

theorem mapE_ok_mem {α β : Type} {f : α → Except Err β} {l : List α} {out : List β}
    (h : Blend.mapE f l = .ok out) : ∀ b ∈ out, ∃ a ∈ l, f a = .ok b := by
  induction l generalizing out with
  | nil => simp [Blend.mapE] at h; subst h; simp
  | cons a rest ih =>
    simp only [Blend.mapE] at h
    split at h
    · cases h
    · rename_i b hb
      split at h
      · cases h
      · rename_i bs hbs
        cases h
        intro x hx
        rcases List.mem_cons.mp hx with rfl | hx
        · exact ⟨a, by simp, hb⟩
        · obtain ⟨a', ha', hf⟩ := ih hbs x hx
          exact ⟨a', by simp [ha'], hf⟩

theorem indexSet_mem {d : List (Coord × Cell)} {c : Cell} {P : Cell → Prop} (hd : ∀ p ∈ d, P p.2) (hc : P c) :
    ∀ p ∈ Blend.indexSet d c, P p.2 := by
  unfold Blend.indexSet
  split
  · intro p hp
    obtain ⟨q, hq, rfl⟩ := List.mem_map.mp hp
    split
    · exact hc
    · exact hd q hq
  · intro p hp
    rcases List.mem_append.mp hp with hp | hp
    · exact hd p hp
    · simp at hp; subst hp; exact hc

theorem indexTriangle_mem {t : List Cell} : ∀ p ∈ Blend.indexTriangle t, p.2 ∈ t := by
  unfold Blend.indexTriangle
  have : ∀ (l : List Cell) (d : List (Coord × Cell)), (∀ c ∈ l, c ∈ t) → (∀ p ∈ d, p.2 ∈ t) →
      ∀ p ∈ l.foldl Blend.indexSet d, p.2 ∈ t := by
    intro l
    induction l with
    | nil => intro d _ hd; exact hd
    | cons c rest ih =>
      intro d hl hd
      exact ih _ (fun x hx => hl x (by simp [hx])) (indexSet_mem (P := (· ∈ t)) hd (hl c (by simp)))
  exact this t [] (fun _ h => h) (fun _ h => by cases h)

theorem lookup_mem {d : List (Coord × Cell)} {k : Coord} {c : Cell} (h : Blend.lookup d k = some c) :
    ∃ p ∈ d, p.2 = c := by
  unfold Blend.lookup at h
  cases hf : d.find? (·.1 == k) with
  | none => rw [hf] at h; cases h
  | some p =>
    rw [hf] at h
    cases h
    exact ⟨p, List.mem_of_find?_eq_some hf, rfl⟩

theorem gatherCells_mem {idxs : List (List (Coord × Cell))} {k : Coord} {cs : List Cell}
    (h : Blend.gatherCells idxs k = .ok cs) : ∀ c ∈ cs, ∃ d ∈ idxs, ∃ p ∈ d, p.2 = c := by
  induction idxs generalizing cs with
  | nil => simp only [Blend.gatherCells] at h; cases h; intro c hc; cases hc
  | cons d ds ih =>
    simp only [Blend.gatherCells] at h
    split at h
    · cases h
    · rename_i c0 hc0
      split at h
      · cases h
      · rename_i rest hrest
        cases h
        intro c hc
        rcases List.mem_cons.mp hc with rfl | hc
        · obtain ⟨p, hp, hpc⟩ := lookup_mem hc0
          exact ⟨d, by simp, p, hp, hpc⟩
        · obtain ⟨d', hd', p, hp, hpc⟩ := ih hrest c hc
          exact ⟨d', by simp [hd'], p, hp, hpc⟩

theorem blendCells_dates {cells : List Cell} {w : Option (List Rat)} {m : Blend.Method}
    {idx : String → List Nat} {c : Cell} (hc : AllOk cells) (h : Blend.blendCells cells w m idx = .ok c) :
    c.datesOk = true := by
  unfold Blend.blendCells at h
  split at h
  · cases h
  · rename_i c0 rest
    split at h
    · split at h
      · cases h
      · cases h
        exact (datesOk_congr rfl rfl rfl rfl rfl).trans (hc c0 (by simp))
    · cases h

theorem blendLoop_allOk {idxs : List (List (Coord × Cell))} {m : Blend.Method} {idx : Nat → String → List Nat}
    (hidx : ∀ d ∈ idxs, ∀ p ∈ d, p.2.datesOk = true) :
    ∀ (ks : List (Coord × Cell)) (i : Nat) (ws : List (Option (List Rat))) (out : List Cell),
      Blend.blendLoop idxs m idx i ks ws = .ok out → AllOk out := by
  intro ks
  induction ks with
  | nil => intro i ws out h; simp only [Blend.blendLoop] at h; cases h; exact AllOk.nil
  | cons k ks ih =>
    intro i ws out h
    cases ws with
    | nil => simp only [Blend.blendLoop] at h; cases h; exact AllOk.nil
    | cons w ws =>
      obtain ⟨k1, k2⟩ := k
      simp only [Blend.blendLoop] at h
      split at h
      · cases h
      · rename_i cs hcs
        split at h
        · cases h
        · rename_i c hc
          split at h
          · cases h
          · rename_i r hr
            cases h
            intro x hx
            rcases List.mem_cons.mp hx with rfl | hx
            · refine blendCells_dates (fun y hy => ?_) hc
              obtain ⟨d, hd, p, hp, rfl⟩ := gatherCells_mem hcs y hy
              exact hidx d hd p hp
            · exact ih _ _ _ hr x hx

theorem blend_canonical {ts : List (List Cell)} {w : Blend.Weights} {method : String}
    {idx : Nat → String → List Nat} {out : List Cell} (hts : ∀ t ∈ ts, AllOk t)
    (h : Blend.blend ts w method idx = .ok out) : Canonical out := by
  unfold Blend.blend at h
  split at h
  · cases h
  · split at h
    · cases h
    · rename_i cells hcells
      refine ofCells_canonical h (blendLoop_allOk (fun d hd p hp => ?_) _ _ _ _ hcells)
      obtain ⟨t, ht, rfl⟩ := List.mem_map.mp hd
      exact hts t ht _ (indexTriangle_mem p hp)

/-! ## `thin` -/

theorem thin_canonical {t : List Cell} {k : Nat} {idx : List Nat} {res : Resample.ThinResult}
    (ht : Canonical t) (h : Resample.thin t k idx = .ok res) :
    match res with
    | .same => True
    | .fresh r => Canonical r := by
  unfold Resample.thin at h
  split at h
  · cases h
  · split at h
    · cases h
    · split at h
      · cases h; trivial
      · split at h
        · cases h
        · rename_i r hr
          cases h
          refine ofCells_canonical hr (fun c hc => ?_)
          obtain ⟨c', hc', rfl⟩ := List.mem_map.mp hc
          exact (datesOk_congr rfl rfl rfl rfl rfl).trans ((allOk_of ht) c' hc')

/-! ## `bootstrap` -/

theorem mapMExcept_ok_mem {α β : Type} {f : α → Except Err β} {l : List α} {out : List β}
    (h : Resample.mapMExcept f l = .ok out) : ∀ b ∈ out, ∃ a ∈ l, f a = .ok b := by
  induction l generalizing out with
  | nil => simp [Resample.mapMExcept] at h; subst h; simp
  | cons a rest ih =>
    simp only [Resample.mapMExcept] at h
    split at h
    · cases h
    · rename_i b hb
      split at h
      · cases h
      · rename_i bs hbs
        cases h
        intro x hx
        rcases List.mem_cons.mp hx with rfl | hx
        · exact ⟨a, by simp, hb⟩
        · obtain ⟨a', ha', hf⟩ := ih hbs x hx
          exact ⟨a', by simp [ha'], hf⟩

theorem replicate_canonical {s : List Cell} {fields : List String} {p : Resample.RepParam} {i : Nat}
    {out : List Cell} (h : Resample.replicate s fields p i = .ok out) : Canonical out := by
  unfold Resample.replicate at h
  split at h
  · split at h
    · cases h
    · exact deriveMetadata_canonical h
  · split at h
    · cases h
    · split at h
      · cases h
      · exact deriveMetadata_canonical h

theorem sumFrom_canonical {acc : List Cell} {bs : List (List Cell)} {out : List Cell} (ha : Canonical acc)
    (hb : ∀ b ∈ bs, Canonical b) (h : Resample.sumFrom acc bs = .ok out) : Canonical out := by
  induction bs generalizing acc with
  | nil => simp only [Resample.sumFrom] at h; cases h; exact ha
  | cons b rest ih =>
    simp only [Resample.sumFrom] at h
    split at h
    · cases h
    · rename_i a hab
      exact ih (add_canonical (allOk_of ha) (allOk_of (hb b (by simp))) hab)
        (fun x hx => hb x (by simp [hx])) h

theorem resampleSum_canonical {ts : List (List Cell)} {out : List Cell} (hts : ∀ t ∈ ts, Canonical t)
    (h : Resample.sumTriangles ts = .ok out) : Canonical out := by
  unfold Resample.sumTriangles at h
  split at h
  · cases h; exact canonical_nil
  · rename_i a rest
    exact sumFrom_canonical (hts a (by simp)) (fun x hx => hts x (by simp [hx])) h

/-- every triangle returned by `bootstrap` is canonical -/
theorem bootstrap_all_canonical {t : List Cell} {n : Int} {field : Option (List String)}
    {P : Nat → Nat → Resample.RepParam} {reps : List (List Cell)}
    (h : Resample.bootstrap t n field P = .ok reps) : ∀ r ∈ reps, Canonical r := by
  unfold Resample.bootstrap at h
  split at h
  · cases h
  · simp only [] at h
    split at h
    · cases h
    · rename_i boots hboots
      split at h
      · cases h; intro r hr; cases hr
      · intro r hr
        obtain ⟨i, _, hi⟩ := mapMExcept_ok_mem h r hr
        refine resampleSum_canonical (fun x hx => ?_) hi
        obtain ⟨b, hb, rfl⟩ := List.mem_map.mp hx
        obtain ⟨⟨s, k⟩, _, hsk⟩ := mapMExcept_ok_mem hboots b hb
        simp only [Resample.bootstrapSlice] at hsk
        rw [List.getD_eq_getElem?_getD]
        cases hbi : b[i]? with
        | none => exact canonical_nil
        | some y =>
          obtain ⟨j, _, hj⟩ := mapMExcept_ok_mem hsk y (List.mem_of_getElem? hbi)
          exact replicate_canonical hj

/-! ## `moment_match` -/

theorem momentField_allOk {f : String} {draws : Nat → List Rat} {l : List Cell} :
    ∀ (i : Nat) (out : List Cell), AllOk l → Resample.momentField f draws i l = .ok out → AllOk out := by
  induction l with
  | nil => intro i out _ h; simp only [Resample.momentField] at h; cases h; exact AllOk.nil
  | cons c cs ih =>
    intro i out hl h
    simp only [Resample.momentField] at h
    split at h
    · cases h
    · split at h
      · cases h
      · rename_i r hr
        cases h
        intro x hx
        rcases List.mem_cons.mp hx with rfl | hx
        · exact (datesOk_congr rfl rfl rfl rfl rfl).trans (hl c (by simp))
        · exact ih _ _ (fun y hy => hl y (by simp [hy])) hr x hx

theorem momentLoop_canonical {draws : Nat → String → List Rat} {fields : List String} :
    ∀ (t out : List Cell), Canonical t → Resample.momentLoop draws fields t = .ok out → Canonical out := by
  induction fields with
  | nil => intro t out ht h; simp only [Resample.momentLoop] at h; cases h; exact ht
  | cons f fs ih =>
    intro t out ht h
    simp only [Resample.momentLoop] at h
    split at h
    · cases h
    · rename_i cells hcells
      split at h
      · cases h
      · rename_i t' ht'
        exact ih _ _ (ofCells_canonical ht' (momentField_allOk _ _ (allOk_of ht) hcells)) h

theorem momentMatch_canonical {t out : List Cell} {fields : List String} {distOk : Bool}
    {draws : Nat → String → List Rat} (ht : Canonical t)
    (h : Resample.momentMatch t fields distOk draws = .ok out) : Canonical out := by
  unfold Resample.momentMatch at h
  split at h
  · cases h
  · split at h
    · cases h
    · exact momentLoop_canonical _ _ ht h

end Bermuda.AllOps
