/-
Lemmas for `Model/Basis.lean` (C04): exact arithmetic on values and value dicts, rows, grouping.
-/
import Bermuda.Model.Basis
import Bermuda.Lemmas.Sort
import Bermuda.Lemmas.Ops
namespace Bermuda
open Std

theorem Date.succ_pred {d : Date} (h : d.valid = true) : d.pred.succ = d := by
  obtain ⟨y, m, dd⟩ := d
  simp only [Date.valid, Bool.and_eq_true, decide_eq_true_eq] at h
  obtain ⟨⟨⟨h1, h2⟩, h3⟩, h4⟩ := h
  unfold Date.pred
  by_cases hd : dd > 1
  · simp only [hd, if_true]
    unfold Date.succ
    have : dd - 1 < dim y m := by omega
    simp only [this, if_true]
    congr; omega
  · have hd1 : dd = 1 := by omega
    subst hd1
    simp only [Nat.lt_irrefl, if_false]
    by_cases hm : m > 1
    · simp only [hm, if_true]
      unfold Date.succ
      simp only [Nat.lt_irrefl, if_false]
      have : m - 1 < 12 := by omega
      simp only [this, if_true]
      congr; omega
    · have : m = 1 := by omega
      subst this
      simp only [gt_iff_lt, Nat.lt_irrefl, if_false]
      unfold Date.succ
      simp [dim]

/-- Python kind, dtype, shape and size of a value -/
inductive VTy where
  | int | flt | arr (isInt : Bool) (shape : List Nat) (n : Nat)
deriving DecidableEq, Repr

def Val.ty? : Val → Option VTy
  | .none => Option.none
  | .int _ => some .int
  | .flt _ => some .flt
  | .arr i s d => some (.arr i s d.length)

theorem zipWith_add_sub : ∀ (d d' : List Rat), d.length = d'.length →
    List.zipWith (· + ·) d (List.zipWith (· - ·) d' d) = d'
  | [], [], _ => rfl
  | a :: d, b :: d', h => by
    simp only [List.zipWith_cons_cons, List.cons.injEq]
    exact ⟨by grind, zipWith_add_sub d d' (by simpa using h)⟩
  | [], _ :: _, h => by simp at h
  | _ :: _, [], h => by simp at h

theorem zipWith_sub_add : ∀ (d x : List Rat), d.length = x.length →
    List.zipWith (· - ·) (List.zipWith (· + ·) d x) d = x
  | [], [], _ => rfl
  | a :: d, b :: x, h => by
    simp only [List.zipWith_cons_cons, List.cons.injEq]
    exact ⟨by grind, zipWith_sub_add d x (by simpa using h)⟩
  | [], _ :: _, h => by simp at h
  | _ :: _, [], h => by simp at h

/-- `(b - a)` exists, has the common type, and `a + (b - a) = b` exactly (kind, dtype, shape, data) -/
theorem Val.sub_add {a b : Val} {τ : VTy} (ha : a.ty? = some τ) (hb : b.ty? = some τ) :
    ∃ x, Val.pySub b a = .ok x ∧ x.ty? = some τ ∧ Val.pyAdd a x = .ok b := by
  cases a <;> cases b <;> simp only [Val.ty?, Option.some.injEq, reduceCtorEq] at ha hb
  all_goals (subst ha; try (simp only [VTy.arr.injEq, reduceCtorEq] at hb))
  · rename_i i j
    exact ⟨.int (j - i), rfl, rfl, by simp [Val.pyAdd, Val.arith]; omega⟩
  · rename_i p q
    exact ⟨.flt (q - p), rfl, rfl, by simp [Val.pyAdd, Val.arith]; grind⟩
  · rename_i i s d i' s' d'
    obtain ⟨rfl, rfl, hl⟩ := hb
    refine ⟨.arr i' s' (List.zipWith (· - ·) d' d), by simp [Val.pySub, Val.arith], ?_, ?_⟩
    · simp [Val.ty?]; omega
    · simp [Val.pyAdd, Val.arith]; exact zipWith_add_sub d d' hl.symm

/-- `a + x` exists, has the common type, and `(a + x) - a = x` exactly -/
theorem Val.add_sub {a x : Val} {τ : VTy} (ha : a.ty? = some τ) (hx : x.ty? = some τ) :
    ∃ b, Val.pyAdd a x = .ok b ∧ b.ty? = some τ ∧ Val.pySub b a = .ok x := by
  cases a <;> cases x <;> simp only [Val.ty?, Option.some.injEq, reduceCtorEq] at ha hx
  all_goals (subst ha; try (simp only [VTy.arr.injEq, reduceCtorEq] at hx))
  · rename_i i j
    exact ⟨.int (i + j), rfl, rfl, by simp [Val.pySub, Val.arith]; omega⟩
  · rename_i p q
    exact ⟨.flt (p + q), rfl, rfl, by simp [Val.pySub, Val.arith]; grind⟩
  · rename_i i s d i' s' d'
    obtain ⟨rfl, rfl, hl⟩ := hx
    refine ⟨.arr i' s' (List.zipWith (· + ·) d d'), by simp [Val.pyAdd, Val.arith], ?_, ?_⟩
    · simp [Val.ty?]; omega
    · simp [Val.pySub, Val.arith]; exact zipWith_sub_add d d' hl.symm


/-! ## dict level -/

/-- one entry of `_values_diff` -/
def diffE (prev : Dict Val) (kv : String × Val) : Except Err (String × Val) :=
  if kv.1 == staticField then .ok kv
  else (Val.pySub kv.2 (prev.getD' kv.1)).map fun v => (kv.1, v)

/-- one entry of `_values_add` -/
def addE (cur : Dict Val) (kv : String × Val) : Except Err (String × Val) :=
  if kv.1 == staticField then .ok kv
  else (Val.pyAdd (cur.getD' kv.1) kv.2).map fun v => (kv.1, v)

theorem valuesDiff_eq (prev next : Dict Val) : valuesDiff prev next =
    if sameKeys prev next then next.mapM (diffE prev) else .error .triangleError := rfl

theorem valuesAdd_eq (cur next : Dict Val) : valuesAdd cur next =
    if sameKeys cur next then next.mapM (addE cur) else .error .triangleError := rfl

/-- every non-static entry of `b` has a partner of the same type under the same key in `a` -/
def DictCompat (a b : Dict Val) : Prop :=
  ∀ kv ∈ b, kv.1 ≠ staticField → ∃ τ, (a.getD' kv.1).ty? = some τ ∧ kv.2.ty? = some τ

theorem mapM_cons_ok {α β} {f : α → Except Err β} {a : α} {l : List α} {b : β} {bs : List β}
    (h1 : f a = .ok b) (h2 : l.mapM f = .ok bs) : (a :: l).mapM f = .ok (b :: bs) := by
  rw [List.mapM_cons, h1, h2]; rfl

theorem DictCompat.tail {p : Dict Val} {kv : String × Val} {l : Dict Val}
    (h : DictCompat p (kv :: l)) : DictCompat p l := fun e he => h e (List.mem_cons_of_mem _ he)

theorem entries_diff_add (p : Dict Val) : ∀ (l : Dict Val), DictCompat p l →
    ∃ l', l.mapM (diffE p) = .ok l' ∧ l'.map (·.1) = l.map (·.1) ∧ l'.mapM (addE p) = .ok l
  | [], _ => ⟨[], rfl, rfl, rfl⟩
  | kv :: l, h => by
    obtain ⟨l', h1, h2, h3⟩ := entries_diff_add p l h.tail
    by_cases hs : kv.1 = staticField
    · refine ⟨kv :: l', mapM_cons_ok (by simp [diffE, hs]) h1, by simp [h2],
        mapM_cons_ok (by simp [addE, hs]) h3⟩
    · obtain ⟨τ, ha, hb⟩ := h kv (by simp) hs
      obtain ⟨x, hx1, _, hx3⟩ := Val.sub_add ha hb
      refine ⟨(kv.1, x) :: l', mapM_cons_ok (by simp [diffE, hs, hx1, Except.map]) h1, by simp [h2],
        mapM_cons_ok (by simp [addE, hs, hx3, Except.map]) h3⟩

theorem Dict.getD'_cons (kv : String × Val) (l : Dict Val) (k : String) :
    Dict.getD' (kv :: l) k = if kv.1 == k then kv.2 else Dict.getD' l k := by
  unfold Dict.getD' Dict.get?
  simp only [List.find?_cons]
  split <;> simp_all

/-- the types under every non-static key agree -/
def TyEq (a b : Dict Val) : Prop := ∀ k, k ≠ staticField → (a.getD' k).ty? = (b.getD' k).ty?

theorem entries_add_diff (p : Dict Val) : ∀ (l : Dict Val), DictCompat p l →
    ∃ l', l.mapM (addE p) = .ok l' ∧ l'.map (·.1) = l.map (·.1) ∧ l'.mapM (diffE p) = .ok l ∧
      TyEq l' l
  | [], _ => ⟨[], rfl, rfl, rfl, fun _ _ => rfl⟩
  | kv :: l, h => by
    obtain ⟨l', h1, h2, h3, h4⟩ := entries_add_diff p l h.tail
    by_cases hs : kv.1 = staticField
    · refine ⟨kv :: l', mapM_cons_ok (by simp [addE, hs]) h1, by simp [h2],
        mapM_cons_ok (by simp [diffE, hs]) h3, ?_⟩
      intro k hk
      rw [Dict.getD'_cons, Dict.getD'_cons]
      split
      · rfl
      · exact h4 k hk
    · obtain ⟨τ, ha, hb⟩ := h kv (by simp) hs
      obtain ⟨x, hx1, hx2, hx3⟩ := Val.add_sub ha hb
      refine ⟨(kv.1, x) :: l', mapM_cons_ok (by simp [addE, hs, hx1, Except.map]) h1, by simp [h2],
        mapM_cons_ok (by simp [diffE, hs, hx3, Except.map]) h3, ?_⟩
      intro k hk
      rw [Dict.getD'_cons, Dict.getD'_cons]
      split
      · simp [hx2, hb]
      · exact h4 k hk

theorem contains_eq_of_keys {a b : Dict Val} (h : a.map (·.1) = b.map (·.1)) (k : String) :
    Dict.contains a k = Dict.contains b k := by
  have : ∀ d : Dict Val, Dict.contains d k = (d.map (·.1)).any (· == k) := by
    intro d; simp [Dict.contains, List.any_map]; rfl
  rw [this a, this b, h]

theorem sameKeys_congr {a a' b b' : Dict Val} (ha : a.map (·.1) = a'.map (·.1))
    (hb : b.map (·.1) = b'.map (·.1)) : sameKeys a b = sameKeys a' b' := by
  unfold sameKeys Dict.keys
  rw [ha, hb]
  congr 1
  · congr 1; funext k; exact contains_eq_of_keys hb k
  · congr 1; funext k; exact contains_eq_of_keys ha k

/-- `_values_diff` then `_values_add` on the same base: `prev + (next − prev) = next` -/
theorem valuesDiff_add {p n : Dict Val} (hk : sameKeys p n = true) (hc : DictCompat p n) :
    ∃ x, valuesDiff p n = .ok x ∧ valuesAdd p x = .ok n := by
  obtain ⟨x, h1, h2, h3⟩ := entries_diff_add p n hc
  refine ⟨x, by rw [valuesDiff_eq, hk]; simpa using h1, ?_⟩
  rw [valuesAdd_eq, sameKeys_congr (a' := p) rfl h2, hk]; simpa using h3

/-- `_values_add` then `_values_diff` on the same base: `(cur + x) − cur = x` -/
theorem valuesAdd_diff {p x : Dict Val} (hk : sameKeys p x = true) (hc : DictCompat p x) :
    ∃ v, valuesAdd p x = .ok v ∧ valuesDiff p v = .ok x ∧ v.map (·.1) = x.map (·.1) ∧ TyEq v x := by
  obtain ⟨v, h1, h2, h3, h4⟩ := entries_add_diff p x hc
  refine ⟨v, by rw [valuesAdd_eq, hk]; simpa using h1, ?_, h2, h4⟩
  rw [valuesDiff_eq, sameKeys_congr (a' := p) rfl h2, hk]; simpa using h3


/-! ## rows -/

theorem Date.lt_iff (a b : Date) :
    a < b ↔ (a.y < b.y ∨ (a.y = b.y ∧ (a.m < b.m ∨ (a.m = b.m ∧ a.d < b.d)))) := by
  show Date.cmp a b = .lt ↔ _
  simp only [Date.cmp, compareLex, cmpOn, Ordering.then_eq_lt, Int.compare_eq_lt, Int.compare_eq_eq,
    Nat.compare_eq_lt, Nat.compare_eq_eq]

/-- the day before a valid date lies strictly before every date not earlier than it -/
theorem Date.pred_lt_of_not_lt {d e : Date} (hv : d.valid = true) (h : ¬ e < d) : d.pred < e := by
  rw [Date.lt_iff] at h ⊢
  obtain ⟨y, m, dd⟩ := d
  simp only [Date.valid, Bool.and_eq_true, decide_eq_true_eq] at hv
  unfold Date.pred
  simp only at h ⊢
  split
  · simp only; omega
  · split
    · simp only; omega
    · simp only; omega

/-- the `CumulativeCell` rebuilt by `to_cumulative` at the place of `c` in row `k` -/
def cumOf (k : RowKey) (c : Cell) : Cell :=
  { kind := .cumulative, ps := k.1.1, pe := k.1.2, ev := c.ev, md := k.2, values := c.values }

/-- a well-formed row of a cumulative (`Cell`/`CumulativeCell`) triangle -/
structure CumRow (k : RowKey) (row : List Cell) : Prop where
  key : ∀ c ∈ row, rowKey c = k
  dates : ∀ c ∈ row, c.datesOk = true
  notInc : ∀ c ∈ row, c.kind ≠ .incremental
  evs : row.Pairwise (fun a b => a.ev < b.ev)
  keys : row.Pairwise (fun a b => sameKeys a.values b.values = true)
  compat : row.Pairwise (fun a b => DictCompat a.values b.values)

theorem CumRow.tail {k : RowKey} {c : Cell} {row : List Cell} (h : CumRow k (c :: row)) :
    CumRow k row :=
  ⟨fun x hx => h.key x (List.mem_cons_of_mem _ hx), fun x hx => h.dates x (List.mem_cons_of_mem _ hx),
   fun x hx => h.notInc x (List.mem_cons_of_mem _ hx), (List.pairwise_cons.mp h.evs).2,
   (List.pairwise_cons.mp h.keys).2, (List.pairwise_cons.mp h.compat).2⟩

theorem datesOk_base {c : Cell} (h : c.datesOk = true) :
    (!(decide (c.pe < c.ps)) && !(decide (c.ev < c.ps)) && (c.ev != Date.max)) = true := by
  unfold Cell.datesOk at h
  simp only [Bool.and_eq_true] at h
  simp only [Bool.and_eq_true]
  exact h.1

theorem prev_none_of_notInc {c : Cell} (h : c.datesOk = true) (hk : c.kind ≠ .incremental) :
    c.prev = none := by
  unfold Cell.datesOk at h
  simp only [Bool.and_eq_true] at h
  have h2 := h.2
  cases hkind : c.kind <;> cases hp : c.prev <;> simp_all

theorem incPairs_cumPairs (k : RowKey) : ∀ (rest : List Cell) (p : Cell), CumRow k (p :: rest) →
    ∃ ds, incPairs k p rest = .ok ds ∧
      cumPairs k p.ev p.values ds = .ok (rest.map (cumOf k)) ∧
      ds.map (·.ev) = rest.map (·.ev) ∧
      (∀ d ∈ ds, d.kind = .incremental ∧ rowKey d = k ∧ d.datesOk = true)
  | [], _, _ => ⟨[], rfl, rfl, rfl, by simp⟩
  | n :: rest, p, h => by
    obtain ⟨ds, h1, h2, h3, h4⟩ := incPairs_cumPairs k rest n h.tail
    have hev : p.ev < n.ev := (List.pairwise_cons.mp h.evs).1 n (by simp)
    have hkeys := (List.pairwise_cons.mp h.keys).1 n (by simp)
    have hcomp := (List.pairwise_cons.mp h.compat).1 n (by simp)
    have hkn : rowKey n = k := h.key n (by simp)
    have hdn := datesOk_base (h.dates n (by simp))
    obtain ⟨x, hx1, hx2⟩ := valuesDiff_add hkeys hcomp
    have hps : k.1.1 = n.ps := by rw [← hkn]; rfl
    have hpe : k.1.2 = n.pe := by rw [← hkn]; rfl
    let d : Cell := { kind := .incremental, ps := k.1.1, pe := k.1.2, prev := some p.ev, ev := n.ev,
                      md := k.2, values := x }
    have hd : d.datesOk = true := by
      simp only [Cell.datesOk, d, hps, hpe]
      simp only [Bool.and_eq_true] at hdn ⊢
      exact ⟨hdn, by simpa using hev⟩
    refine ⟨d :: ds, ?_, ?_, by simp [h3, d], ?_⟩
    · simp only [incPairs, hx1, bind, Except.bind, Cell.mk?]
      rw [if_pos hd]
      simp only [h1, pure, Except.pure]
      rfl
    · have hc : (cumOf k n).datesOk = true := by
        simp only [Cell.datesOk, cumOf, hps, hpe]
        simp only [Bool.and_eq_true] at hdn ⊢
        exact ⟨hdn, trivial⟩
      simp only [cumPairs, d, bne_self_eq_false, Bool.false_eq_true, if_false, hx2, bind, Except.bind,
        Cell.mk?]
      have : ({ kind := .cumulative, ps := k.1.1, pe := k.1.2, ev := n.ev, md := k.2,
                values := n.values } : Cell) = cumOf k n := rfl
      rw [this, if_pos hc]
      simp only [h2, pure, Except.pure, List.map_cons]
    · intro e he
      rcases List.mem_cons.mp he with rfl | he
      · exact ⟨rfl, rfl, hd⟩
      · exact h4 e he


/-- **row level, cumulative → incremental → cumulative**: the increments of a well-formed row exist
and accumulating them rebuilds every cell of the row (dates, metadata, key order, values, kinds) -/
theorem incRow_cumRow {k : RowKey} {c0 : Cell} {rest : List Cell} (h : CumRow k (c0 :: rest))
    (hv : k.1.1.valid = true) :
    ∃ ds, incRow k (c0 :: rest) = .ok ds ∧ cumRow k ds = .ok ((c0 :: rest).map (cumOf k)) ∧
      ds.map (·.ev) = (c0 :: rest).map (·.ev) ∧
      (∀ d ∈ ds, d.kind = .incremental ∧ rowKey d = k ∧ d.datesOk = true) := by
  obtain ⟨ds, h1, h2, h3, h4⟩ := incPairs_cumPairs k rest c0 h
  have hk0 : rowKey c0 = k := h.key c0 (by simp)
  have hd0 := datesOk_base (h.dates c0 (by simp))
  have hps : k.1.1 = c0.ps := by rw [← hk0]; rfl
  have hpe : k.1.2 = c0.pe := by rw [← hk0]; rfl
  let d0 : Cell := { kind := .incremental, ps := k.1.1, pe := k.1.2, prev := some k.1.1.pred,
                     ev := c0.ev, md := k.2, values := c0.values }
  have hd : d0.datesOk = true := by
    have hlt : k.1.1.pred < c0.ev := by
      apply Date.pred_lt_of_not_lt hv
      simp only [Bool.and_eq_true] at hd0
      rw [hps]; simpa using hd0.1.2
    simp only [Cell.datesOk, d0]
    rw [← hps, ← hpe] at hd0
    simp only [Bool.and_eq_true] at hd0 ⊢
    exact ⟨hd0, by simpa using hlt⟩
  refine ⟨d0 :: ds, ?_, ?_, by simp [h3, d0], ?_⟩
  · simp only [incRow, bind, Except.bind, Cell.mk?]
    rw [if_pos hd]
    simp only [h1, pure, Except.pure]
    rfl
  · have hc : (cumOf k c0).datesOk = true := by
      simp only [Cell.datesOk, cumOf]
      rw [← hps, ← hpe] at hd0
      simp only [Bool.and_eq_true] at hd0 ⊢
      exact ⟨hd0, trivial⟩
    have hchk : ((d0.prev.map Date.succ) != some d0.ps) = false := by
      simp [d0, Date.succ_pred hv]
    simp only [cumRow, hchk, Bool.false_eq_true, if_false, bind, Except.bind, Cell.mk?]
    have : ({ kind := .cumulative, ps := k.1.1, pe := k.1.2, ev := d0.ev, md := k.2,
              values := d0.values } : Cell) = cumOf k c0 := rfl
    rw [this, if_pos hc]
    have h2' : cumPairs k d0.ev d0.values ds = .ok (rest.map (cumOf k)) := h2
    simp only [h2', pure, Except.pure, List.map_cons]
  · intro e he
    rcases List.mem_cons.mp he with rfl | he
    · exact ⟨rfl, rfl, hd⟩
    · exact h4 e he

/-! ### incremental → cumulative → incremental -/

/-- the chain of previous evaluation dates: every cell links to the evaluation date before it -/
def ChainFrom : Date → List Cell → Prop
  | _, [] => True
  | d, c :: rest => c.prev = some d ∧ ChainFrom c.ev rest

/-- a row of an incremental triangle whose cells are mutually consistent -/
structure IncRow (k : RowKey) (row : List Cell) : Prop where
  key : ∀ c ∈ row, rowKey c = k
  dates : ∀ c ∈ row, c.datesOk = true
  isInc : ∀ c ∈ row, c.kind = .incremental
  keys : row.Pairwise (fun a b => sameKeys a.values b.values = true)
  compat : row.Pairwise (fun a b => DictCompat a.values b.values)

theorem IncRow.tail {k : RowKey} {c : Cell} {row : List Cell} (h : IncRow k (c :: row)) :
    IncRow k row :=
  ⟨fun x hx => h.key x (List.mem_cons_of_mem _ hx), fun x hx => h.dates x (List.mem_cons_of_mem _ hx),
   fun x hx => h.isInc x (List.mem_cons_of_mem _ hx),
   (List.pairwise_cons.mp h.keys).2, (List.pairwise_cons.mp h.compat).2⟩

theorem cumPairs_incPairs (k : RowKey) : ∀ (rest : List Cell) (px pc : Cell), IncRow k (px :: rest) →
    ChainFrom pc.ev rest → pc.values.map (·.1) = px.values.map (·.1) → TyEq pc.values px.values →
    ∃ cs, cumPairs k pc.ev pc.values rest = .ok cs ∧ incPairs k pc cs = .ok rest ∧
      cs.map (·.ev) = rest.map (·.ev) ∧
      (∀ c ∈ cs, c.kind = .cumulative ∧ rowKey c = k ∧ c.datesOk = true)
  | [], _, _, _, _, _, _ => ⟨[], rfl, rfl, rfl, by simp⟩
  | x :: rest, px, pc, h, hch, hkeys, hty => by
    have hkx : rowKey x = k := h.key x (by simp)
    have hdx := h.dates x (by simp)
    have hps : k.1.1 = x.ps := by rw [← hkx]; rfl
    have hpe : k.1.2 = x.pe := by rw [← hkx]; rfl
    have hsk : sameKeys pc.values x.values = true := by
      rw [sameKeys_congr hkeys rfl]; exact (List.pairwise_cons.mp h.keys).1 x (by simp)
    have hcomp : DictCompat pc.values x.values := by
      intro kv hkv hns
      obtain ⟨τ, h1, h2⟩ := (List.pairwise_cons.mp h.compat).1 x (by simp) kv hkv hns
      exact ⟨τ, by rw [hty kv.1 hns]; exact h1, h2⟩
    obtain ⟨v, hv1, hv2, hv3, hv4⟩ := valuesAdd_diff hsk hcomp
    let c : Cell := { kind := .cumulative, ps := k.1.1, pe := k.1.2, ev := x.ev, md := k.2, values := v }
    have hc : c.datesOk = true := by
      have := datesOk_base hdx
      simp only [Cell.datesOk, c, hps, hpe]
      simp only [Bool.and_eq_true] at this ⊢
      exact ⟨this, trivial⟩
    obtain ⟨cs, h1, h2, h3, h4⟩ := cumPairs_incPairs k rest x c h.tail hch.2 hv3 hv4
    refine ⟨c :: cs, ?_, ?_, by simp [h3, c], ?_⟩
    · have hp : (x.prev != some pc.ev) = false := by simp [hch.1]
      simp only [cumPairs, hp, Bool.false_eq_true, if_false, hv1, bind, Except.bind, Cell.mk?]
      have : ({ kind := .cumulative, ps := k.1.1, pe := k.1.2, ev := x.ev, md := k.2,
                values := v } : Cell) = c := rfl
      rw [this, if_pos hc]
      have h1'' : cumPairs k x.ev v rest = .ok cs := h1
      simp only [h1'', pure, Except.pure]
    · have hx : ({ kind := .incremental, ps := k.1.1, pe := k.1.2, prev := some pc.ev, ev := c.ev,
                   md := k.2, values := x.values } : Cell) = x := by
        have hkind := h.isInc x (by simp)
        have hprev := hch.1
        obtain ⟨xk, xps, xpe, xev, xprev, xv, xmd⟩ := x
        simp only [rowKey] at hkx
        subst hkx
        simp_all [c]
      have hv2' : valuesDiff pc.values c.values = .ok x.values := hv2
      simp only [incPairs, hv2', bind, Except.bind, Cell.mk?]
      rw [hx, if_pos hdx]
      simp only [h2, pure, Except.pure]
    · intro e he
      rcases List.mem_cons.mp he with rfl | he
      · exact ⟨rfl, rfl, hc⟩
      · exact h4 e he

/-- **row level, incremental → cumulative → incremental**: a complete consistent incremental row
accumulates without error and differencing the result gives back exactly the row -/
theorem cumRow_incRow {k : RowKey} {x0 : Cell} {rest : List Cell} (h : IncRow k (x0 :: rest))
    (hv : k.1.1.valid = true) (hfirst : x0.prev = some k.1.1.pred) (hch : ChainFrom x0.ev rest) :
    ∃ cs, cumRow k (x0 :: rest) = .ok cs ∧ incRow k cs = .ok (x0 :: rest) ∧
      cs.map (·.ev) = (x0 :: rest).map (·.ev) ∧
      (∀ c ∈ cs, c.kind = .cumulative ∧ rowKey c = k ∧ c.datesOk = true) := by
  have hk0 : rowKey x0 = k := h.key x0 (by simp)
  have hd0 := h.dates x0 (by simp)
  have hps : k.1.1 = x0.ps := by rw [← hk0]; rfl
  have hpe : k.1.2 = x0.pe := by rw [← hk0]; rfl
  let c0 : Cell := { kind := .cumulative, ps := k.1.1, pe := k.1.2, ev := x0.ev, md := k.2,
                     values := x0.values }
  have hc : c0.datesOk = true := by
    have := datesOk_base hd0
    simp only [Cell.datesOk, c0, hps, hpe]
    simp only [Bool.and_eq_true] at this ⊢
    exact ⟨this, trivial⟩
  obtain ⟨cs, h1, h2, h3, h4⟩ := cumPairs_incPairs k rest x0 c0 h hch rfl (fun _ _ => rfl)
  refine ⟨c0 :: cs, ?_, ?_, by simp [h3, c0], ?_⟩
  · have hchk : ((x0.prev.map Date.succ) != some x0.ps) = false := by
      rw [hps] at hv
      simp [hfirst, hps, Date.succ_pred hv]
    simp only [cumRow, hchk, Bool.false_eq_true, if_false, bind, Except.bind, Cell.mk?]
    have : ({ kind := .cumulative, ps := k.1.1, pe := k.1.2, ev := x0.ev, md := k.2,
              values := x0.values } : Cell) = c0 := rfl
    rw [this, if_pos hc]
    have h1' : cumPairs k x0.ev x0.values rest = .ok cs := h1
    simp only [h1', pure, Except.pure]
  · have hx : ({ kind := .incremental, ps := k.1.1, pe := k.1.2, prev := some k.1.1.pred, ev := c0.ev,
                 md := k.2, values := c0.values } : Cell) = x0 := by
      have hkind := h.isInc x0 (by simp)
      obtain ⟨xk, xps, xpe, xev, xprev, xv, xmd⟩ := x0
      simp only [rowKey] at hk0
      subst hk0
      simp_all [c0]
    simp only [incRow, bind, Except.bind, Cell.mk?]
    rw [hx, if_pos hd0]
    simp only [h2, pure, Except.pure]
  · intro e he
    rcases List.mem_cons.mp he with rfl | he
    · exact ⟨rfl, rfl, hc⟩
    · exact h4 e he


end Bermuda
