/-
Helper lemmas for the bridge `Spec.toCumRowSpec` on the model's `to_cumulative` (C04, final round): key lists of
accumulated cells, lengths under `overRows`, and the row-wise form of `toInc_row_spec`. Core only.
-/
import Bermuda.Lemmas.BasisSpec
import Bermuda.Lemmas.EqHash
namespace Bermuda
open Std

theorem mapM_keys {f : String × Val → Except Err (String × Val)}
    (hf : ∀ kv y, f kv = .ok y → y.1 = kv.1) :
    ∀ {l l' : Dict Val}, l.mapM f = .ok l' → l'.map (·.1) = l.map (·.1)
  | [], l', h => by
    have : l' = [] := by simpa [List.mapM_nil, pure, Except.pure] using h.symm
    subst this; rfl
  | kv :: l, l', h => by
    rw [List.mapM_cons] at h
    simp only [bind, Except.bind, pure, Except.pure] at h
    split at h
    · cases h
    · rename_i y hy
      split at h
      · cases h
      · rename_i ys hys
        cases h
        simp [hf kv y hy, mapM_keys hf hys]

theorem valuesAdd_keys {a b v : Dict Val} (h : valuesAdd a b = .ok v) : v.map (·.1) = b.map (·.1) := by
  unfold valuesAdd at h
  split at h
  · refine mapM_keys ?_ h
    intro kv y hy
    split at hy
    · cases hy; rfl
    · cases hp : Val.pyAdd (a.getD' kv.1) kv.2 with
      | error e => simp [hp, Except.map] at hy
      | ok w => simp only [hp, Except.map, Except.ok.injEq] at hy; rw [← hy]
  · cases h

/-- key lists of two cell lists agree position by position -/
inductive KeysAlign : List Cell → List Cell → Prop
  | nil : KeysAlign [] []
  | cons {c x : Cell} {d r : List Cell} (h : c.values.map (·.1) = x.values.map (·.1)) (t : KeysAlign d r) :
      KeysAlign (c :: d) (x :: r)

theorem mk?_values {c cell : Cell} (h : Cell.mk? c = .ok cell) : cell = c := by
  unfold Cell.mk? at h
  split at h
  · cases h; rfl
  · cases h

theorem cumPairs_keys (k : RowKey) : ∀ (rest : List Cell) (ev : Date) (cur : Dict Val) (cs : List Cell),
    cumPairs k ev cur rest = .ok cs → KeysAlign cs rest
  | [], _, _, cs, h => by
    have : cs = [] := by simpa [cumPairs] using h.symm
    subst this; exact .nil
  | c :: rest, ev, cur, cs, h => by
    simp only [cumPairs] at h
    split at h
    · cases h
    · simp only [bind, Except.bind, pure, Except.pure] at h
      cases hv : valuesAdd cur c.values with
      | error e => simp [hv] at h
      | ok v =>
        simp only [hv] at h
        cases hcell : Cell.mk? { kind := .cumulative, ps := k.1.1, pe := k.1.2, ev := c.ev, md := k.2, values := v } with
        | error e => simp [hcell] at h
        | ok cell =>
          simp only [hcell] at h
          cases hcs' : cumPairs k c.ev v rest with
          | error e => simp [hcs'] at h
          | ok cs' =>
            simp only [hcs', Except.ok.injEq] at h
            subst h
            have hcv := mk?_values hcell
            subst hcv
            exact .cons (valuesAdd_keys hv) (cumPairs_keys k rest c.ev v cs' hcs')

theorem cumRow_keys {k : RowKey} {r d : List Cell} (h : cumRow k r = .ok d) : KeysAlign d r := by
  cases r with
  | nil =>
    have : d = [] := by simpa [cumRow] using h.symm
    subst this; exact .nil
  | cons c0 rest =>
    simp only [cumRow] at h
    split at h
    · cases h
    · simp only [bind, Except.bind, pure, Except.pure] at h
      cases hfirst : Cell.mk? { kind := .cumulative, ps := k.1.1, pe := k.1.2, ev := c0.ev, md := k.2,
                                values := c0.values } with
      | error e => simp [hfirst] at h
      | ok first =>
        simp only [hfirst] at h
        cases hothers : cumPairs k c0.ev c0.values rest with
        | error e => simp [hothers] at h
        | ok others =>
          simp only [hothers, Except.ok.injEq] at h
          subst h
          have hv := mk?_values hfirst
          subst hv
          exact .cons rfl (cumPairs_keys k rest c0.ev c0.values others hothers)

theorem keysAlign_mem_left : ∀ {d r : List Cell}, KeysAlign d r →
    ∀ a ∈ d, ∃ x ∈ r, a.values.map (·.1) = x.values.map (·.1)
  | _, _, .nil, a, ha => by cases ha
  | _, _, .cons h t, a, ha => by
    rcases List.mem_cons.mp ha with rfl | ha
    · exact ⟨_, by simp, h⟩
    · obtain ⟨b, hb, hr⟩ := keysAlign_mem_left t a ha
      exact ⟨b, List.mem_cons_of_mem _ hb, hr⟩

/-- lengths under `overRows`: if the row function keeps the length of every row, the result is as long as the
(strictly sorted) triangle -/
theorem overRows_length {f : RowKey → List Cell → Except Err (List Cell)} {t D : List Cell}
    (hs : StrictSorted t) (hD : overRows f t = .ok D)
    (hlen : ∀ p ∈ orderedRows t, ∀ d, f p.1 p.2 = .ok d → d.length = p.2.length) : D.length = t.length := by
  have G := groupBy_inv rowKey t
  have hrows := orderedRows_of_strict hs
  unfold overRows at hD
  cases hm : (orderedRows t).mapM (fun p => f p.1 p.2) with
  | error e => rw [hm] at hD; cases hD
  | ok rows =>
    rw [hm] at hD
    simp only [Except.map] at hD
    cases hD
    have lenkey : ∀ (l : List (RowKey × List Cell)) (rows : List (List Cell)),
        (∀ p ∈ l, ∀ d, f p.1 p.2 = .ok d → d.length = p.2.length) →
        l.mapM (fun p => f p.1 p.2) = .ok rows → rows.flatten.length = (l.flatMap (·.2)).length := by
      intro l
      induction l with
      | nil => intro rows _ hr; simp [List.mapM_nil, pure, Except.pure] at hr; subst hr; rfl
      | cons a l ih =>
        intro rows hl hr
        rw [List.mapM_cons] at hr
        cases ha : f a.1 a.2 with
        | error e => rw [ha] at hr; cases hr
        | ok da =>
          cases hl' : l.mapM (fun p => f p.1 p.2) with
          | error e => rw [ha, hl'] at hr; cases hr
          | ok dl =>
            rw [ha, hl'] at hr
            simp only [bind, Except.bind, pure, Except.pure] at hr
            cases hr
            simp only [List.flatten_cons, List.length_append, List.flatMap_cons]
            rw [hl a (by simp) da ha, ih dl (fun p hp => hl p (List.mem_cons_of_mem _ hp)) hl']
    rw [lenkey _ _ hlen hm, hrows]
    exact G.perm.length_eq

end Bermuda

namespace Bermuda.Properties.C04
open Bermuda Std Spec

/-- the row-wise core of `toInc_row_spec`: what the predicate needs of `(t, u)` — no hypothesis on value kinds -/
theorem toIncRowSpec_of_rows {t u : List Cell}
    (hsorted : u.Pairwise (fun a b => Cell.le a b)) (hlen : u.length = t.length)
    (hrows : ∀ k r, r ≠ [] → r = t.filter (fun c => rowKey c == k) →
      ∃ ds, incRow k r = .ok ds ∧ u.filter (fun c => rowKey c == k) = ds ∧ ds.map (·.ev) = r.map (·.ev))
    (hevs : ∀ k, (t.filter (fun c => rowKey c == k)).Pairwise (fun a b => a.ev < b.ev))
    (hkeys : ∀ a ∈ t, ∀ b ∈ t, rowKey a = rowKey b → sameKeys a.values b.values = true)
    (hnd : ∀ c ∈ t, Spec.nodupKeys c.values = true) : Spec.toIncRowSpec t u = true := by
  unfold Spec.toIncRowSpec
  simp only [Bool.and_eq_true, beq_iff_eq, List.all_eq_true]
  refine ⟨⟨hlen, chainB_of_pairwise_le hsorted⟩, ?_⟩
  intro c hc
  have hcr : c ∈ t.filter (fun x => rowKey x == rowKey c) := List.mem_filter.mpr ⟨hc, by simp⟩
  have hne : t.filter (fun x => rowKey x == rowKey c) ≠ [] := List.ne_nil_of_mem hcr
  have Revs := hevs (rowKey c)
  obtain ⟨ds, hds, hfilt, hevs'⟩ := hrows (rowKey c) _ hne rfl
  obtain ⟨pre, post, hsplit⟩ := List.append_of_mem hcr
  obtain ⟨o, ho, hoev, hokind, hokey, hopred⟩ := incRow_spec hds hsplit
  have hdsevs : ds.Pairwise (fun a b => a.ev < b.ev) := by
    have := Revs
    rw [← List.pairwise_map (f := fun x : Cell => x.ev) (R := fun a b => a < b), ← hevs',
      List.pairwise_map] at this
    exact this
  have hat : Spec.atCoord u c = [o] := by
    unfold Spec.atCoord
    have : (fun x : Cell => rowKey x == rowKey c && x.ev == c.ev) =
        (fun a => (a.ev == o.ev) && (rowKey a == rowKey c)) := by
      funext x; rw [Bool.and_comm, hoev]
    rw [this, ← List.filter_filter, hfilt]
    exact filter_ev_eq hdsevs ho
  rw [hat]
  have hpred : Spec.predIn t c = pre.getLast? := by
    have hev' := Revs
    rw [hsplit] at hev'
    rw [predIn_eq, hsplit, filter_lt_split hev',
      foldl_predStep pre none ((List.pairwise_append.mp hev').1) (fun b hb => by cases hb)]
    cases pre.getLast? <;> rfl
  have hps : (rowKey c).1.1 = c.ps := rfl
  unfold Spec.incOf
  rw [hpred]
  cases hlast : pre.getLast? with
  | none =>
    rw [hlast] at hopred
    simp only [hokind, hokey, hoev, hopred.1, hopred.2, hps, beq_self_eq_true, Bool.true_and,
      dictEqv_refl (hnd c hc)]
  | some p =>
    rw [hlast] at hopred
    have hpmem : p ∈ t.filter (fun x => rowKey x == rowKey c) := by
      rw [hsplit]; exact List.mem_append_left _ (List.mem_of_getLast? hlast)
    have hpt : p ∈ t := (List.mem_filter.mp hpmem).1
    have hpk : rowKey p = rowKey c := by simpa using (List.mem_filter.mp hpmem).2
    obtain ⟨_, hkeys', hentries⟩ := valuesDiff_inv hopred.2
    have hsk1 : sameKeys p.values c.values = true := hkeys p hpt c hc hpk
    have hsk2 : sameKeys o.values c.values = true := by
      rw [sameKeys_congr hkeys' rfl]; exact sameKeys_self _
    have hnd2 : Spec.nodupKeys o.values = true := by
      rw [nodupKeys_congr hkeys']; exact hnd c hc
    simp only [hokind, hokey, hoev, hopred.1, hsk1, hsk2, hnd2, beq_self_eq_true, Bool.true_and,
      List.all_eq_true]
    intro kv hkv
    obtain ⟨a1, a2⟩ := hentries kv hkv
    by_cases hs : kv.1 = staticField
    · simp only [hs, beq_self_eq_true, if_true]
      have := a1 hs
      rw [← hs, get?_of_mem_nodup (hnd c hc) (k := kv.1) (v := kv.2) this]; simp
    · have hs' : (kv.1 == staticField) = false := by simpa using hs
      obtain ⟨v, hv1, hv2⟩ := a2 hs
      simp only [hs', Bool.false_eq_true, if_false]
      rw [getD'_of_mem_nodup (hnd c hc) hv1, hv2]
      simp [BEq.beq]

theorem mapM_ok_mem_out {α β : Type} {f : α → Except Err β} : ∀ {l : List α} {out : List β},
    l.mapM f = .ok out → ∀ b ∈ out, ∃ a ∈ l, f a = .ok b
  | [], out, h, b, hb => by
    have : out = [] := by simpa [List.mapM_nil, pure, Except.pure] using h.symm
    subst this; cases hb
  | a :: l, out, h, b, hb => by
    rw [List.mapM_cons] at h
    cases ha : f a with
    | error e => rw [ha] at h; cases h
    | ok y =>
      cases hl : l.mapM f with
      | error e => rw [ha, hl] at h; cases h
      | ok ys =>
        rw [ha, hl] at h
        simp only [bind, Except.bind, pure, Except.pure] at h
        cases h
        rcases List.mem_cons.mp hb with rfl | hb
        · exact ⟨a, by simp, ha⟩
        · obtain ⟨a', ha', hfa⟩ := mapM_ok_mem_out hl b hb
          exact ⟨a', List.mem_cons_of_mem _ ha', hfa⟩

theorem prev_none_of_cumulative {c : Cell} (hk : c.kind = .cumulative) (hd : c.datesOk = true) : c.prev = none := by
  have := Cell.kindOk_of_datesOk hd
  unfold Cell.KindOk at this
  cases hp : c.prev with
  | none => rfl
  | some d =>
    have : c.kind = .incremental := this.mpr (by simp [hp])
    rw [hk] at this; cases this

/-- **`Spec.toCumRowSpec` holds of the model's `to_cumulative`** on every complete incremental triangle -/
theorem toCumRowSpec_main {u : List Cell} (h : Complete u)
    (hnd : ∀ c ∈ u, Spec.nodupKeys c.values = true) :
    ∃ t, Triangle.toCumulative u = .ok t ∧ Spec.toCumRowSpec u t = true := by
  obtain ⟨hc, hchain⟩ := h
  by_cases hu : u = []
  · subst hu
    exact ⟨[], by simp [Triangle.toCumulative, Triangle.isIncremental], by decide⟩
  -- what `cumRow` does on every row of `u`
  have hrow : ∀ k r, r ≠ [] → r = u.filter (fun c => rowKey c == k) →
      ∃ d, cumRow k r = .ok d ∧ incRow k d = .ok r ∧ (∀ c ∈ d, rowKey c = k) ∧ StrictSorted d ∧
        (∀ c ∈ d, c.kind = .cumulative ∧ c.datesOk = true) ∧ d.map (·.ev) = r.map (·.ev) ∧
        r.Pairwise (fun a b => a.ev < b.ev) ∧ KeysAlign d r := by
    intro k r hne hr
    have R := hc.row hr
    have hch := hchain k
    unfold RowChain at hch
    rw [← hr] at hch
    cases r with
    | nil => exact absurd rfl hne
    | cons x0 rest =>
      have hx0 : x0 ∈ u := by
        have : x0 ∈ u.filter (fun c => rowKey c == k) := by rw [← hr]; simp
        exact (List.mem_filter.mp this).1
      have hv : k.1.1.valid = true := by
        have := hc.psValid x0 hx0
        rw [← R.key x0 (by simp)]; exact this
      obtain ⟨cs, h1, h2, h3, h4⟩ := cumRow_incRow R hv hch.1 hch.2
      have hevs : (x0 :: rest).Pairwise (fun a b => a.ev < b.ev) := by
        have := chain_evs rest x0.ev hch.2
          (fun c hc' => ⟨R.isInc c (List.mem_cons_of_mem _ hc'), R.dates c (List.mem_cons_of_mem _ hc')⟩)
        exact List.pairwise_cons.mpr ⟨this.2, this.1⟩
      refine ⟨cs, h1, h2, fun c hc' => (h4 c hc').2.1, ?_, fun c hc' => ⟨(h4 c hc').1, (h4 c hc').2.2⟩, h3,
        hevs, cumRow_keys h1⟩
      apply strict_of_evs (fun c hc' => (h4 c hc').2.1)
      rw [h3, List.pairwise_map]
      exact hevs
  obtain ⟨D, hD, hblocks⟩ := overRows_blocks (f := cumRow) hc.sorted
    (fun k r hne hr => by
      obtain ⟨d, h1, _, h3, h4, _⟩ := hrow k r hne hr
      exact ⟨d, h1, h3, h4⟩)
  obtain ⟨t, ht⟩ : ∃ t, t = D.mergeSort Cell.le := ⟨_, rfl⟩
  have hperm : t.Perm D := by rw [ht]; exact List.mergeSort_perm _ _
  have G := groupBy_inv rowKey u
  have hrowsU := orderedRows_of_strict hc.sorted
  -- every cell of `t` sits in the block of its row
  have hmem : ∀ c ∈ t, ∃ r d, r ≠ [] ∧ r = u.filter (fun x => rowKey x == rowKey c) ∧
      cumRow (rowKey c) r = .ok d ∧ t.filter (fun x => rowKey x == rowKey c) = d ∧ c ∈ d := by
    intro c hct
    have hcD : c ∈ D := hperm.mem_iff.mp hct
    unfold overRows at hD
    cases hm : (orderedRows u).mapM (fun p => cumRow p.1 p.2) with
    | error e => rw [hm] at hD; cases hD
    | ok rows =>
      rw [hm] at hD
      simp only [Except.map] at hD
      cases hD
      obtain ⟨d, hd, hcd⟩ := List.mem_flatten.mp hcD
      obtain ⟨p, hp, hpd⟩ := mapM_ok_mem_out hm d hd
      rw [hrowsU] at hp
      have hcont := G.content p hp
      have hne : p.2 ≠ [] := by
        obtain ⟨a, ha, hak⟩ := G.inhabited p hp
        intro e
        have : a ∈ p.2 := by rw [hcont]; exact List.mem_filter.mpr ⟨ha, by simp [hak]⟩
        rw [e] at this; cases this
      obtain ⟨d', h1, _, h3, _⟩ := hrow p.1 p.2 hne hcont
      have hpd' : cumRow p.1 p.2 = .ok d := hpd
      rw [hpd'] at h1; cases h1
      have hk : rowKey c = p.1 := h3 c hcd
      obtain ⟨d'', h1', hfil⟩ := hblocks p.1 p.2 hne hcont
      rw [hpd'] at h1'; cases h1'
      refine ⟨p.2, d, hne, by rw [hk]; exact hcont, by rw [hk]; exact hpd', ?_, hcd⟩
      rw [hk, ht]; exact hfil
  have hDcum : ∀ c ∈ t, c.kind = .cumulative ∧ c.datesOk = true := by
    intro c hct
    obtain ⟨r, d, hne, hr, h1, _, hcd⟩ := hmem c hct
    obtain ⟨d', h1', _, _, _, h5, _⟩ := hrow (rowKey c) r hne hr
    rw [h1] at h1'; cases h1'
    exact h5 c hcd
  have hinc := isIncremental_of_all hc.isInc hu
  have htc : Triangle.toCumulative u = .ok t := by
    simp only [Triangle.toCumulative, hinc, Bool.not_true, Bool.false_eq_true, if_false, hD, Except.bind]
    rw [ht]
    exact ofCells_of_all_kind .cumulative (fun c hcD => (hDcum c (hperm.mem_iff.mpr hcD)).1)
  refine ⟨t, htc, ?_⟩
  -- the rows of `t`
  have hrowsT : ∀ k, t.filter (fun c => rowKey c == k) ≠ [] →
      ∃ r d, r ≠ [] ∧ r = u.filter (fun x => rowKey x == k) ∧ cumRow k r = .ok d ∧
        t.filter (fun x => rowKey x == k) = d := by
    intro k hne
    obtain ⟨c, hcf⟩ := List.exists_mem_of_ne_nil _ hne
    obtain ⟨hct, hck⟩ := List.mem_filter.mp hcf
    have hck : rowKey c = k := by simpa using hck
    obtain ⟨r, d, hne', hr, h1, hfil, _⟩ := hmem c hct
    rw [hck] at hr h1 hfil
    exact ⟨r, d, hne', hr, h1, hfil⟩
  have hsortedT : t.Pairwise (fun a b => Cell.le a b) := by
    rw [ht]; exact sorted_mergeSort (cmp := Cell.cmp) D
  have hsortedU : u.Pairwise (fun a b => Cell.le a b) :=
    hc.sorted.imp (fun {a b} hab => by simp [Cell.le, hab])
  have hlen : u.length = t.length := by
    rw [hperm.length_eq]
    refine (overRows_length hc.sorted hD ?_).symm
    intro p hp d hpd
    rw [hrowsU] at hp
    have hcont := G.content p hp
    have hne : p.2 ≠ [] := by
      obtain ⟨a, ha, hak⟩ := G.inhabited p hp
      intro e
      have : a ∈ p.2 := by rw [hcont]; exact List.mem_filter.mpr ⟨ha, by simp [hak]⟩
      rw [e] at this; cases this
    obtain ⟨d', h1, _, _, _, _, h6, _⟩ := hrow p.1 p.2 hne hcont
    rw [hpd] at h1; cases h1
    have := congrArg List.length h6
    simpa using this
  -- key lists and nodup of the accumulated cells
  have hkeyOf : ∀ c ∈ t, ∃ x ∈ u, rowKey x = rowKey c ∧ c.values.map (·.1) = x.values.map (·.1) := by
    intro c hct
    obtain ⟨r, d, hne, hr, h1, _, hcd⟩ := hmem c hct
    obtain ⟨d', h1', _, _, _, _, _, _, hka⟩ := hrow (rowKey c) r hne hr
    rw [h1] at h1'; cases h1'
    obtain ⟨x, hx, hkx⟩ := keysAlign_mem_left hka c hcd
    rw [hr] at hx
    obtain ⟨hxu, hxk⟩ := List.mem_filter.mp hx
    exact ⟨x, hxu, by simpa using hxk, hkx⟩
  have hndT : ∀ c ∈ t, Spec.nodupKeys c.values = true := by
    intro c hct
    obtain ⟨x, hxu, _, hkx⟩ := hkeyOf c hct
    rw [nodupKeys_congr hkx]; exact hnd x hxu
  have hspec1 : Spec.toIncRowSpec t u = true := by
    apply toIncRowSpec_of_rows hsortedU hlen
    · intro k r' hne' hr'
      rw [hr'] at hne'
      obtain ⟨r, d, hne, hr, h1, hfil⟩ := hrowsT k hne'
      obtain ⟨d', h1', h2, _, _, _, h6, _⟩ := hrow k r hne hr
      rw [h1] at h1'; cases h1'
      refine ⟨r, by rw [hr', hfil]; exact h2, hr.symm, by rw [hr', hfil]; exact h6.symm⟩
    · intro k
      by_cases hne' : t.filter (fun c => rowKey c == k) = []
      · rw [hne']; exact List.Pairwise.nil
      · obtain ⟨r, d, hne, hr, h1, hfil⟩ := hrowsT k hne'
        obtain ⟨d', h1', _, _, _, _, h6, h7, _⟩ := hrow k r hne hr
        rw [h1] at h1'; cases h1'
        rw [hfil]
        have := h7
        rw [← List.pairwise_map (f := fun x : Cell => x.ev) (R := fun a b => a < b), ← h6,
          List.pairwise_map] at this
        exact this
    · intro a ha b hb hab
      obtain ⟨x, hxu, hxk, hkx⟩ := hkeyOf a ha
      obtain ⟨y, hyu, hyk, hky⟩ := hkeyOf b hb
      rw [sameKeys_congr hkx hky]
      exact hc.keys x hxu y hyu (by rw [hxk, hyk, hab])
    · exact hndT
  unfold Spec.toCumRowSpec
  simp only [Bool.and_eq_true, List.all_eq_true, beq_iff_eq]
  refine ⟨⟨⟨⟨fun c hct => (hDcum c hct).1, fun c hct => prev_none_of_cumulative (hDcum c hct).1 (hDcum c hct).2⟩,
    chainB_of_pairwise_le hsortedT⟩, hspec1⟩, ?_⟩
  -- every increment is accounted for exactly
  intro o hou
  have hof : o ∈ u.filter (fun x => rowKey x == rowKey o) := List.mem_filter.mpr ⟨hou, by simp⟩
  have hne : u.filter (fun x => rowKey x == rowKey o) ≠ [] := List.ne_nil_of_mem hof
  obtain ⟨d, h1, _, h3, _, _, h6, h7, _⟩ := hrow (rowKey o) _ hne rfl
  obtain ⟨d', h1', hfil⟩ := hblocks (rowKey o) _ hne rfl
  rw [h1] at h1'; cases h1'
  rw [← ht] at hfil
  -- the cumulative cell at `o`'s evaluation date
  have hoev : o.ev ∈ d.map (·.ev) := by rw [h6]; exact List.mem_map_of_mem hof
  obtain ⟨c, hcd, hcev⟩ := List.mem_map.mp hoev
  have hdevs : d.Pairwise (fun a b => a.ev < b.ev) := by
    have := h7
    rw [← List.pairwise_map (f := fun x : Cell => x.ev) (R := fun a b => a < b), ← h6,
      List.pairwise_map] at this
    exact this
  have hat : Spec.atCoord t o = [c] := by
    unfold Spec.atCoord
    have : (fun x : Cell => rowKey x == rowKey o && x.ev == o.ev) =
        (fun a => (a.ev == c.ev) && (rowKey a == rowKey o)) := by
      funext x; rw [Bool.and_comm, hcev]
    rw [this, ← List.filter_filter, hfil]
    exact filter_ev_eq hdevs hcd
  have hck : rowKey c = rowKey o := h3 c hcd
  have hat2 : Spec.atCoord u c = [o] := by
    unfold Spec.atCoord
    have : (fun x : Cell => rowKey x == rowKey c && x.ev == c.ev) =
        (fun a => (a.ev == o.ev) && (rowKey a == rowKey o)) := by
      funext x; rw [Bool.and_comm, hcev, hck]
    rw [this, ← List.filter_filter]
    exact filter_ev_eq h7 hof
  rw [hat]
  simp only [hat2]
  exact cellEqv_refl (hnd o hou)

/-! ### clauses 1-3 without any hypothesis on value kinds -/

theorem incPairs_shape (k : RowKey) : ∀ (rest : List Cell) (p : Cell) (cs : List Cell),
    incPairs k p rest = .ok cs →
    cs.map (·.ev) = rest.map (·.ev) ∧ ∀ c ∈ cs, rowKey c = k ∧ c.kind = .incremental
  | [], _, cs, h => by
    have : cs = [] := by simpa [incPairs] using h.symm
    subst this; exact ⟨rfl, by simp⟩
  | n :: rest, p, cs, h => by
    simp only [incPairs, bind, Except.bind, pure, Except.pure] at h
    cases hv : valuesDiff p.values n.values with
    | error e => simp [hv] at h
    | ok v =>
      simp only [hv] at h
      cases hcell : Cell.mk? { kind := .incremental, ps := k.1.1, pe := k.1.2, prev := some p.ev, ev := n.ev,
                               md := k.2, values := v } with
      | error e => simp [hcell] at h
      | ok cell =>
        simp only [hcell] at h
        cases hcs' : incPairs k n rest with
        | error e => simp [hcs'] at h
        | ok cs' =>
          simp only [hcs', Except.ok.injEq] at h
          subst h
          have := mk?_values hcell
          subst this
          obtain ⟨h1, h2⟩ := incPairs_shape k rest n cs' hcs'
          refine ⟨by simp [h1], ?_⟩
          intro c hc
          rcases List.mem_cons.mp hc with rfl | hc
          · exact ⟨rfl, rfl⟩
          · exact h2 c hc

theorem incRow_shape {k : RowKey} {r ds : List Cell} (h : incRow k r = .ok ds) :
    ds.map (·.ev) = r.map (·.ev) ∧ ∀ c ∈ ds, rowKey c = k ∧ c.kind = .incremental := by
  cases r with
  | nil =>
    have : ds = [] := by simpa [incRow] using h.symm
    subst this; exact ⟨rfl, by simp⟩
  | cons c0 rest =>
    simp only [incRow, bind, Except.bind, pure, Except.pure] at h
    cases hfirst : Cell.mk? { kind := .incremental, ps := k.1.1, pe := k.1.2, prev := some k.1.1.pred,
                              ev := c0.ev, md := k.2, values := c0.values } with
    | error e => simp [hfirst] at h
    | ok first =>
      simp only [hfirst] at h
      cases hothers : incPairs k c0 rest with
      | error e => simp [hothers] at h
      | ok others =>
        simp only [hothers, Except.ok.injEq] at h
        subst h
        have := mk?_values hfirst
        subst this
        obtain ⟨h1, h2⟩ := incPairs_shape k rest c0 others hothers
        refine ⟨by simp [h1], ?_⟩
        intro c hc
        rcases List.mem_cons.mp hc with rfl | hc
        · exact ⟨rfl, rfl⟩
        · exact h2 c hc

/-- **clauses 1-3 of C04 under the statement's own hypothesis** ("rows keep one field set"): for a cumulative
triangle in canonical form with distinct coordinates whose rows keep one key set — NO hypothesis on the kind, dtype
or shape of the values — whenever `to_incremental` returns a triangle, that triangle satisfies `Spec.toIncRowSpec`
(one increment per evaluation date of every row, linked to the preceding evaluation date, values = differences
except `earned_premium`). When the values of a row cannot be subtracted (a `None`, unequal shapes) the conversion
raises instead; that it does NOT raise is what `WFcum.types` adds in `toInc_row_spec`. -/
theorem toIncRowSpec_of_success {t u : List Cell} (hs : StrictSorted t)
    (hni : ∀ c ∈ t, c.kind ≠ .incremental) (hd : ∀ c ∈ t, c.datesOk = true)
    (hkeys : ∀ a ∈ t, ∀ b ∈ t, rowKey a = rowKey b → sameKeys a.values b.values = true)
    (hnd : ∀ c ∈ t, Spec.nodupKeys c.values = true)
    (hu : Triangle.toIncremental t = .ok u) : Spec.toIncRowSpec t u = true := by
  have hninc := not_isIncremental_of_all hni
  simp only [Triangle.toIncremental, hninc, Bool.false_eq_true, if_false] at hu
  cases hD : overRows incRow t with
  | error e => rw [hD] at hu; cases hu
  | ok D =>
    rw [hD] at hu
    simp only [Except.bind] at hu
    have G := groupBy_inv rowKey t
    have hrowsT := orderedRows_of_strict hs
    -- evaluation dates ascend strictly inside every row of `t`
    have hevs : ∀ k, (t.filter (fun c => rowKey c == k)).Pairwise (fun a b => a.ev < b.ev) := by
      intro k
      have hsub : (t.filter (fun c => rowKey c == k)).Sublist t := List.filter_sublist
      have hmem : ∀ c ∈ t.filter (fun c => rowKey c == k), c ∈ t := fun c hc => hsub.subset hc
      have hkey : ∀ c ∈ t.filter (fun c => rowKey c == k), rowKey c = k := by
        intro c hc; simpa using (List.mem_filter.mp hc).2
      exact (hs.sublist hsub).imp_of_mem (fun {a b} ha hb hab =>
        ev_lt_of_cmp_lt ((hkey a ha).trans (hkey b hb).symm)
          (prev_none_of_notInc (hd a (hmem a ha)) (hni a (hmem a ha)))
          (prev_none_of_notInc (hd b (hmem b hb)) (hni b (hmem b hb))) hab)
    -- every row converts (the whole conversion did)
    have hrowok : ∀ k r, r ≠ [] → r = t.filter (fun c => rowKey c == k) → ∃ d, incRow k r = .ok d := by
      intro k r hne hr
      obtain ⟨a, ha⟩ := List.exists_mem_of_ne_nil _ hne
      rw [hr] at ha
      obtain ⟨hat, hak⟩ := List.mem_filter.mp ha
      have hak : rowKey a = k := by simpa using hak
      obtain ⟨p, hp, hpk⟩ := G.covers a hat
      have hpk : p.1 = k := hpk.trans hak
      have hpr : p.2 = r := by rw [G.content p hp, hpk, hr]
      unfold overRows at hD
      cases hm : (orderedRows t).mapM (fun p => incRow p.1 p.2) with
      | error e => rw [hm] at hD; cases hD
      | ok rows =>
        rw [← hrowsT] at hp
        obtain ⟨y, hy⟩ := mapM_ok_forall hm p hp
        exact ⟨y, by rw [← hpk, ← hpr]; exact hy⟩
    have hrow : ∀ k r, r ≠ [] → r = t.filter (fun c => rowKey c == k) →
        ∃ d, incRow k r = .ok d ∧ (∀ c ∈ d, rowKey c = k) ∧ StrictSorted d := by
      intro k r hne hr
      obtain ⟨d, h1⟩ := hrowok k r hne hr
      obtain ⟨h2, h3⟩ := incRow_shape h1
      refine ⟨d, h1, fun c hc => (h3 c hc).1, ?_⟩
      apply strict_of_evs (fun c hc => (h3 c hc).1)
      rw [h2, List.pairwise_map, hr]; exact hevs k
    obtain ⟨D', hD', hblocks⟩ := overRows_blocks (f := incRow) hs hrow
    rw [hD] at hD'; cases hD'
    have hDinc : ∀ c ∈ D, c.kind = .incremental := by
      intro c hcD
      unfold overRows at hD
      cases hm : (orderedRows t).mapM (fun p => incRow p.1 p.2) with
      | error e => rw [hm] at hD; cases hD
      | ok rows =>
        rw [hm] at hD
        simp only [Except.map] at hD
        cases hD
        obtain ⟨d, hdr, hcd⟩ := List.mem_flatten.mp hcD
        obtain ⟨p, _, hpd⟩ := mapM_ok_mem_out hm d hdr
        exact ((incRow_shape hpd).2 c hcd).2
    rw [ofCells_of_all_kind .incremental hDinc] at hu
    cases hu
    have hperm := List.mergeSort_perm D Cell.le
    apply toIncRowSpec_of_rows (sorted_mergeSort (cmp := Cell.cmp) D)
    · rw [(List.mergeSort_perm D _).length_eq]
      apply overRows_length hs hD
      intro p _ d hpd
      have := congrArg List.length (incRow_shape hpd).1
      simpa using this
    · intro k r hne hr
      obtain ⟨d, h1, hfil⟩ := hblocks k r hne hr
      exact ⟨d, h1, hfil, (incRow_shape h1).1⟩
    · exact hevs
    · exact hkeys
    · exact hnd

/-- `r = .ok x` as a Boolean (for `decide +kernel` on concrete data) -/
def okIs {α} [DecidableEq α] (r : Except Err α) (x : α) : Bool :=
  match r with
  | .ok y => decide (y = x)
  | .error _ => false

theorem of_okIs {α} [DecidableEq α] {r : Except Err α} {x : α} (h : okIs r x = true) : r = .ok x := by
  unfold okIs at h
  split at h
  · rename_i y; rw [of_decide_eq_true h]
  · cases h

end Bermuda.Properties.C04
