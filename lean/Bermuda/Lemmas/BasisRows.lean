/-
Grouping lemmas for C04: `toolz.groupby` as modelled by `groupBy`, regrouping of a re-sorted
concatenation of rows, and the lifting of row-level round trips to whole triangles.
-/
import Bermuda.Lemmas.Basis
namespace Bermuda
open Std

section GroupBy
variable {α κ : Type} [BEq κ] [LawfulBEq κ]

/-- one step of `toolz.groupby` -/
def gstep (key : α → κ) (acc : List (κ × List α)) (a : α) : List (κ × List α) :=
  if acc.any (·.1 == key a) then acc.map (fun p => if p.1 == key a then (p.1, p.2 ++ [a]) else p)
  else acc ++ [(key a, [a])]

omit [LawfulBEq κ] in
theorem groupBy_eq_foldl (key : α → κ) (l : List α) : groupBy key l = l.foldl (gstep key) [] := rfl

/-- what `groupby` has built after consuming the prefix `l0` -/
structure GInv (key : α → κ) (acc : List (κ × List α)) (l0 : List α) : Prop where
  nodup : (acc.map (·.1)).Nodup
  content : ∀ p ∈ acc, p.2 = l0.filter (fun a => key a == p.1)
  covers : ∀ a ∈ l0, ∃ p ∈ acc, p.1 = key a
  inhabited : ∀ p ∈ acc, ∃ a ∈ l0, key a = p.1
  perm : (acc.flatMap (·.2)).Perm l0

omit [LawfulBEq κ] in
theorem upd_fst (key : α → κ) (a : α) (acc : List (κ × List α)) :
    (acc.map (fun p => if p.1 == key a then (p.1, p.2 ++ [a]) else p)).map (·.1) = acc.map (·.1) := by
  rw [List.map_map]
  apply List.map_congr_left
  intro p _
  simp only [Function.comp]
  split <;> rfl

theorem upd_perm (key : α → κ) (a : α) : ∀ (acc : List (κ × List α)), (acc.map (·.1)).Nodup →
    (∃ p ∈ acc, p.1 = key a) →
    ((acc.map (fun p => if p.1 == key a then (p.1, p.2 ++ [a]) else p)).flatMap (·.2)).Perm
      (a :: acc.flatMap (·.2))
  | [], _, h => by obtain ⟨p, hp, _⟩ := h; cases hp
  | p :: acc, hnd, h => by
    simp only [List.map_cons, List.nodup_cons] at hnd
    by_cases hk : p.1 = key a
    · have hrest : ∀ q ∈ acc, (if q.1 == key a then (q.1, q.2 ++ [a]) else q) = q := by
        intro q hq
        have : q.1 ≠ key a := by
          intro e; apply hnd.1; rw [hk, ← e]; exact List.mem_map_of_mem hq
        simp [this]
      have hmap : acc.map (fun p => if p.1 == key a then (p.1, p.2 ++ [a]) else p) = acc := by
        conv => rhs; rw [← List.map_id acc]
        exact List.map_congr_left hrest
      simp only [List.map_cons, hk, beq_self_eq_true, if_true, List.flatMap_cons, hmap]
      rw [List.append_assoc]
      exact List.perm_middle
    · have hne : (p.1 == key a) = false := by simpa using hk
      obtain ⟨q, hq, hqk⟩ := h
      have hq' : q ∈ acc := by
        rcases List.mem_cons.mp hq with rfl | hq
        · exact absurd hqk hk
        · exact hq
      have ih := upd_perm key a acc hnd.2 ⟨q, hq', hqk⟩
      simp only [List.map_cons, hne, Bool.false_eq_true, if_false, List.flatMap_cons]
      exact (List.Perm.append_left p.2 ih).trans List.perm_middle

theorem GInv.step {key : α → κ} {acc : List (κ × List α)} {l0 : List α} (h : GInv key acc l0) (a : α) :
    GInv key (gstep key acc a) (l0 ++ [a]) := by
  unfold gstep
  split
  · rename_i hany
    obtain ⟨q, hq, hqk⟩ := List.any_eq_true.mp hany
    have hqk : q.1 = key a := by simpa using hqk
    refine ⟨by rw [upd_fst]; exact h.nodup, ?_, ?_, ?_, ?_⟩
    · intro p' hp'
      obtain ⟨p, hp, rfl⟩ := List.mem_map.mp hp'
      by_cases hk : p.1 = key a
      · simp [hk, List.filter_append, h.content p hp]
      · have : (key a == p.1) = false := by simpa using fun e => hk e.symm
        simp [hk, List.filter_append, h.content p hp, this]
    · intro a' ha'
      have key_mem : ∀ p ∈ acc, ∃ p' ∈ acc.map (fun p => if p.1 == key a then (p.1, p.2 ++ [a]) else p),
          p'.1 = p.1 := by
        intro p hp
        refine ⟨_, List.mem_map_of_mem hp, ?_⟩
        split <;> rfl
      rcases List.mem_append.mp ha' with ha' | ha'
      · obtain ⟨p, hp, hpk⟩ := h.covers a' ha'
        obtain ⟨p', hp', e⟩ := key_mem p hp
        exact ⟨p', hp', e.trans hpk⟩
      · simp at ha'; subst ha'
        obtain ⟨p', hp', e⟩ := key_mem q hq
        exact ⟨p', hp', e.trans hqk⟩
    · intro p' hp'
      obtain ⟨p, hp, rfl⟩ := List.mem_map.mp hp'
      obtain ⟨b, hb, hbk⟩ := h.inhabited p hp
      refine ⟨b, List.mem_append_left _ hb, ?_⟩
      split <;> exact hbk
    · have := upd_perm key a acc h.nodup ⟨q, hq, hqk⟩
      refine this.trans ?_
      refine (List.Perm.cons a h.perm).trans ?_
      exact (List.perm_append_singleton a l0).symm
  · rename_i hany
    have hnone : ∀ p ∈ acc, p.1 ≠ key a := by
      intro p hp e
      apply hany
      exact List.any_eq_true.mpr ⟨p, hp, by simp [e]⟩
    refine ⟨?_, ?_, ?_, ?_, ?_⟩
    · rw [List.map_append, List.nodup_append]
      refine ⟨h.nodup, by simp, ?_⟩
      intro x hx y hy
      simp at hy; subst hy
      obtain ⟨p, hp, rfl⟩ := List.mem_map.mp hx
      exact hnone p hp
    · intro p hp
      rcases List.mem_append.mp hp with hp | hp
      · have : (key a == p.1) = false := by simpa using fun e => hnone p hp e.symm
        simp [List.filter_append, h.content p hp, this]
      · simp at hp; subst hp
        have : l0.filter (fun b => key b == key a) = [] := by
          rw [List.filter_eq_nil_iff]
          intro b hb e
          obtain ⟨p, hp, hpk⟩ := h.covers b hb
          exact hnone p hp (hpk.trans (by simpa using e))
        simp [List.filter_append, this]
    · intro a' ha'
      rcases List.mem_append.mp ha' with ha' | ha'
      · obtain ⟨p, hp, hpk⟩ := h.covers a' ha'
        exact ⟨p, List.mem_append_left _ hp, hpk⟩
      · simp at ha'; subst ha'
        exact ⟨(key a', [a']), by simp, rfl⟩
    · intro p hp
      rcases List.mem_append.mp hp with hp | hp
      · obtain ⟨b, hb, hbk⟩ := h.inhabited p hp
        exact ⟨b, List.mem_append_left _ hb, hbk⟩
      · simp at hp; subst hp
        exact ⟨a, by simp, rfl⟩
    · rw [List.flatMap_append]
      simp only [List.flatMap_cons, List.flatMap_nil, List.append_nil]
      exact List.Perm.append_right _ h.perm

theorem GInv.foldl {key : α → κ} : ∀ (l : List α) {acc : List (κ × List α)} {l0 : List α},
    GInv key acc l0 → GInv key (l.foldl (gstep key) acc) (l0 ++ l)
  | [], _, _, h => by simpa using h
  | a :: l, _, _, h => by
    have := GInv.foldl l (h.step a)
    simpa [List.append_assoc] using this

/-- `toolz.groupby`: distinct keys, each group is the filter of the input by its key (in input
order), every element is in a group, no group is empty, and the groups partition the input -/
theorem groupBy_inv (key : α → κ) (l : List α) : GInv key (groupBy key l) l := by
  have := GInv.foldl (key := key) l (acc := []) (l0 := [])
    ⟨by simp, by simp, by simp, by simp, by simp⟩
  simpa [groupBy_eq_foldl] using this

end GroupBy

/-! ## strictly sorted triangles, regrouping -/
abbrev StrictSorted (l : List Cell) : Prop := l.Pairwise (fun a b => Cell.cmp a b = .lt)

theorem StrictSorted.le {l : List Cell} (h : StrictSorted l) : l.Pairwise (fun a b => leOf Cell.cmp a b) :=
  h.imp (fun {a b} hab => by simp [leOf, hab])

theorem StrictSorted.eq_of_cmp_eq : ∀ {l : List Cell}, StrictSorted l → ∀ a ∈ l, ∀ b ∈ l,
    Cell.cmp a b = .eq → a = b
  | [], _, a, ha, _, _, _ => by cases ha
  | c :: l, h, a, ha, b, hb, e => by
    have hc := List.pairwise_cons.mp h
    rcases List.mem_cons.mp ha with ha1 | ha2 <;> rcases List.mem_cons.mp hb with hb1 | hb2
    · rw [ha1, hb1]
    · rw [ha1, hc.1 b hb2] at e; cases e
    · have := hc.1 a ha2
      rw [hb1, OrientedCmp.eq_swap (cmp := Cell.cmp), this] at e; cases e
    · exact StrictSorted.eq_of_cmp_eq hc.2 a ha2 b hb2 e

theorem nodup_of_nodup_map {α β} (f : α → β) {l : List α} (h : (l.map f).Nodup) : l.Nodup :=
  (List.pairwise_map.mp h).imp (fun hab e => hab (congrArg f e))

theorem sort_eq_of_strict {l : List Cell} (h : StrictSorted l) : l.mergeSort Cell.le = l :=
  List.mergeSort_of_pairwise h.le

/-- the stable sort of any rearrangement of a strictly sorted list is that list -/
theorem sort_eq_of_perm_strict {l s : List Cell} (hp : l.Perm s) (hs : StrictSorted s) :
    l.mergeSort Cell.le = s := by
  apply sorted_perm_unique (cmp := Cell.cmp)
  · intro a b ha hb e
    exact hs.eq_of_cmp_eq a (hp.mem_iff.mp ((List.mergeSort_perm l _).mem_iff.mp ha)) b hb e
  · exact sorted_mergeSort (cmp := Cell.cmp) l
  · exact hs.le
  · exact (List.mergeSort_perm l _).trans hp

/-- filtering a concatenation of keyed blocks by the key of one block returns that block -/
theorem filter_flatMap_block : ∀ (L : List (RowKey × List Cell)), (L.map (·.1)).Nodup →
    (∀ p ∈ L, ∀ c ∈ p.2, rowKey c = p.1) → ∀ p ∈ L,
    (L.flatMap (·.2)).filter (fun c => rowKey c == p.1) = p.2
  | [], _, _, p, hp => by cases hp
  | q :: L, hnd, hkey, p, hp => by
    simp only [List.map_cons, List.nodup_cons] at hnd
    simp only [List.flatMap_cons, List.filter_append]
    have hall : ∀ (r : RowKey × List Cell), (∀ c ∈ r.2, rowKey c = r.1) → ∀ k, r.1 = k →
        r.2.filter (fun c => rowKey c == k) = r.2 := by
      intro r hr k e
      rw [List.filter_eq_self]; intro c hc; simp [hr c hc, e]
    have hnone : ∀ (r : RowKey × List Cell), (∀ c ∈ r.2, rowKey c = r.1) → ∀ k, r.1 ≠ k →
        r.2.filter (fun c => rowKey c == k) = [] := by
      intro r hr k e
      rw [List.filter_eq_nil_iff]; intro c hc; simp [hr c hc, e]
    rcases List.mem_cons.mp hp with rfl | hp
    · rw [hall p (hkey p (by simp)) _ rfl]
      have : (L.flatMap (·.2)).filter (fun c => rowKey c == p.1) = [] := by
        rw [List.filter_eq_nil_iff]
        intro c hc
        obtain ⟨r, hr, hcr⟩ := List.mem_flatMap.mp hc
        have : rowKey c = r.1 := hkey r (List.mem_cons_of_mem _ hr) c hcr
        intro e
        apply hnd.1
        have e' : r.1 = p.1 := by rw [← this]; simpa using e
        rw [← e']; exact List.mem_map_of_mem hr
      rw [this, List.append_nil]
    · have hne : q.1 ≠ p.1 := by
        intro e; apply hnd.1; rw [e]; exact List.mem_map_of_mem hp
      rw [hnone q (hkey q (by simp)) _ hne, List.nil_append]
      exact filter_flatMap_block L hnd.2 (fun r hr => hkey r (List.mem_cons_of_mem _ hr)) p hp

theorem nodup_of_keys_nodup {L : List (RowKey × List Cell)} (h : (L.map (·.1)).Nodup) : L.Nodup :=
  nodup_of_nodup_map _ h

/-- **regrouping**: sorting the concatenation of keyed, strictly sorted, non-empty blocks and grouping
it again by row key gives back exactly those blocks (in some order) -/
theorem orderedRows_regroup {L : List (RowKey × List Cell)} (hnd : (L.map (·.1)).Nodup)
    (hkey : ∀ p ∈ L, ∀ c ∈ p.2, rowKey c = p.1) (hne : ∀ p ∈ L, p.2 ≠ [])
    (hs : ∀ p ∈ L, StrictSorted p.2) :
    (orderedRows ((L.flatMap (·.2)).mergeSort Cell.le)).Perm L := by
  obtain ⟨U, hU⟩ : ∃ U, U = (L.flatMap (·.2)).mergeSort Cell.le := ⟨_, rfl⟩
  rw [← hU]
  have hperm : U.Perm (L.flatMap (·.2)) := by rw [hU]; exact List.mergeSort_perm _ _
  have G := groupBy_inv rowKey U
  -- the block of `p ∈ L` is what the second grouping finds under `p.1`
  have K : ∀ p ∈ L, (U.filter (fun c => rowKey c == p.1)).mergeSort Cell.le = p.2 := by
    intro p hp
    apply sort_eq_of_perm_strict _ (hs p hp)
    have := hperm.filter (fun c => rowKey c == p.1)
    rwa [filter_flatMap_block L hnd hkey p hp] at this
  rw [List.perm_ext_iff_of_nodup]
  · intro q
    constructor
    · intro hq
      obtain ⟨g, hg, rfl⟩ := List.mem_map.mp hq
      obtain ⟨u, hu, huk⟩ := G.inhabited g hg
      obtain ⟨p, hp, hup⟩ := List.mem_flatMap.mp (hperm.mem_iff.mp hu)
      have e : p.1 = g.1 := by rw [← huk]; exact (hkey p hp u hup).symm
      have : (g.1, g.2.mergeSort Cell.le) = p := by
        rw [G.content g hg, ← e, K p hp]
      rw [this]; exact hp
    · intro hq
      obtain ⟨c, hc⟩ := List.exists_mem_of_ne_nil _ (hne q hq)
      have hcU : c ∈ U := hperm.mem_iff.mpr (List.mem_flatMap.mpr ⟨q, hq, hc⟩)
      obtain ⟨g, hg, hgk⟩ := G.covers c hcU
      have e : g.1 = q.1 := by rw [hgk]; exact hkey q hq c hc
      have : (g.1, g.2.mergeSort Cell.le) = q := by
        rw [G.content g hg, e, K q hq]
      rw [← this]
      exact List.mem_map_of_mem (f := fun p : RowKey × List Cell => (p.1, p.2.mergeSort Cell.le)) hg
  · apply nodup_of_nodup_map (·.1)
    unfold orderedRows
    rw [List.map_map]
    exact G.nodup
  · exact nodup_of_keys_nodup hnd


/-! ## lifting row-level round trips to triangles -/

/-- value of a successful computation (with a default) -/
def okD {α} (x : Except Err α) (d : α) : α := match x with | .ok a => a | .error _ => d

theorem mapM_ok_of_forall {α β} {f : α → Except Err β} {g : α → β} : ∀ (l : List α),
    (∀ a ∈ l, f a = .ok (g a)) → l.mapM f = .ok (l.map g)
  | [], _ => rfl
  | a :: l, h => mapM_cons_ok (h a (by simp)) (mapM_ok_of_forall l (fun b hb => h b (List.mem_cons_of_mem _ hb)))

theorem overRows_ok {f : RowKey → List Cell → Except Err (List Cell)} {g : RowKey × List Cell → List Cell}
    {t : List Cell} (h : ∀ p ∈ orderedRows t, f p.1 p.2 = .ok (g p)) :
    overRows f t = .ok ((orderedRows t).flatMap g) := by
  unfold overRows
  rw [mapM_ok_of_forall (g := g) _ h]
  simp [Except.map, List.flatMap_def]

theorem flatMap_congr_mem {α β} {f g : α → List β} {l : List α} (h : ∀ a ∈ l, f a = g a) :
    l.flatMap f = l.flatMap g := by
  rw [List.flatMap_def, List.flatMap_def, List.map_congr_left h]

theorem orderedRows_of_strict {t : List Cell} (hs : StrictSorted t) :
    orderedRows t = groupBy rowKey t := by
  have G := groupBy_inv rowKey t
  unfold orderedRows
  conv => rhs; rw [← List.map_id (groupBy rowKey t)]
  apply List.map_congr_left
  intro p hp
  have : p.2.mergeSort Cell.le = p.2 := by
    apply sort_eq_of_strict
    rw [G.content p hp]
    exact hs.sublist List.filter_sublist
  simp [this]

/-- **lifting**: if on every row of a strictly sorted triangle `f` succeeds and `g` undoes it up to
the cell-wise map `h` (which does not move cells in the order), then running `f` over the rows,
re-sorting, running `g` over the rows of the result and re-sorting gives `t.map h`. -/
theorem overRows_roundtrip {f g : RowKey → List Cell → Except Err (List Cell)} {h : Cell → Cell}
    {t : List Cell} (hs : StrictSorted t) (hh : ∀ a b, Cell.cmp (h a) (h b) = Cell.cmp a b)
    (hrow : ∀ k r, r ≠ [] → r = t.filter (fun c => rowKey c == k) →
      ∃ d, f k r = .ok d ∧ g k d = .ok (r.map h) ∧ d ≠ [] ∧ (∀ c ∈ d, rowKey c = k) ∧ StrictSorted d) :
    ∃ D, overRows f t = .ok D ∧
      (∀ c ∈ D, ∃ k r d, r ≠ [] ∧ r = t.filter (fun c => rowKey c == k) ∧ f k r = .ok d ∧ c ∈ d) ∧
      (D = [] ↔ t = []) ∧
      ∃ C, overRows g (D.mergeSort Cell.le) = .ok C ∧ C.Perm (t.map h) ∧
        C.mergeSort Cell.le = t.map h := by
  have G := groupBy_inv rowKey t
  have hrows : orderedRows t = groupBy rowKey t := orderedRows_of_strict hs
  -- facts about every row of `t`
  have R : ∀ p ∈ orderedRows t, p.2 ≠ [] ∧ p.2 = t.filter (fun c => rowKey c == p.1) := by
    intro p hp
    rw [hrows] at hp
    have hc := G.content p hp
    refine ⟨?_, hc⟩
    obtain ⟨a, ha, hak⟩ := G.inhabited p hp
    intro e
    have : a ∈ p.2 := by rw [hc]; exact List.mem_filter.mpr ⟨ha, by simp [hak]⟩
    rw [e] at this; cases this
  let gI : RowKey × List Cell → List Cell := fun p => okD (f p.1 p.2) []
  let gC : RowKey × List Cell → List Cell := fun p => okD (g p.1 p.2) []
  have RI : ∀ p ∈ orderedRows t, f p.1 p.2 = .ok (gI p) ∧ g p.1 (gI p) = .ok (p.2.map h) ∧
      gI p ≠ [] ∧ (∀ c ∈ gI p, rowKey c = p.1) ∧ StrictSorted (gI p) := by
    intro p hp
    obtain ⟨h1, h2⟩ := R p hp
    obtain ⟨d, hd1, hd⟩ := hrow p.1 p.2 h1 h2
    have : gI p = d := by simp [gI, okD, hd1]
    rw [this]; exact ⟨hd1, hd⟩
  let L : List (RowKey × List Cell) := (orderedRows t).map (fun p => (p.1, gI p))
  have hLD : L.flatMap (·.2) = (orderedRows t).flatMap gI := by
    simp [L, List.flatMap_map]
  have hLk : L.map (·.1) = (groupBy rowKey t).map (·.1) := by
    simp only [L, List.map_map, hrows]; rfl
  have hreg : (orderedRows ((L.flatMap (·.2)).mergeSort Cell.le)).Perm L := by
    apply orderedRows_regroup
    · rw [hLk]; exact G.nodup
    · intro q hq
      obtain ⟨p, hp, rfl⟩ := List.mem_map.mp hq
      exact (RI p hp).2.2.2.1
    · intro q hq
      obtain ⟨p, hp, rfl⟩ := List.mem_map.mp hq
      exact (RI p hp).2.2.1
    · intro q hq
      obtain ⟨p, hp, rfl⟩ := List.mem_map.mp hq
      exact (RI p hp).2.2.2.2
  rw [hLD] at hreg
  refine ⟨(orderedRows t).flatMap gI, overRows_ok (fun p hp => (RI p hp).1), ?_, ?_, ?_⟩
  · intro c hc
    obtain ⟨p, hp, hcp⟩ := List.mem_flatMap.mp hc
    obtain ⟨h1, h2⟩ := R p hp
    exact ⟨p.1, p.2, gI p, h1, h2, (RI p hp).1, hcp⟩
  · constructor
    · intro e
      cases t with
      | nil => rfl
      | cons a t' =>
        exfalso
        obtain ⟨p, hp, _⟩ := G.covers a (by simp)
        rw [← hrows] at hp
        obtain ⟨c, hc⟩ := List.exists_mem_of_ne_nil _ (RI p hp).2.2.1
        have : c ∈ (orderedRows (a :: t')).flatMap gI := List.mem_flatMap.mpr ⟨p, hp, hc⟩
        rw [e] at this; cases this
    · intro e; subst e; rfl
  · have hC : ∀ q ∈ orderedRows (((orderedRows t).flatMap gI).mergeSort Cell.le),
        g q.1 q.2 = .ok (gC q) := by
      intro q hq
      obtain ⟨p, hp, rfl⟩ := List.mem_map.mp (hreg.mem_iff.mp hq)
      have := (RI p hp).2.1
      simp only [gC, okD, this]
    have P : ((orderedRows (((orderedRows t).flatMap gI).mergeSort Cell.le)).flatMap gC).Perm
        (t.map h) := by
      refine (List.Perm.flatMap_right gC hreg).trans ?_
      have e1 : L.flatMap gC = (orderedRows t).flatMap (fun p => p.2.map h) := by
        simp only [L, List.flatMap_map]
        apply flatMap_congr_mem
        intro p hp
        have := (RI p hp).2.1
        simp only [gC, okD, this]
      rw [e1, ← List.map_flatMap, hrows]
      exact G.perm.map h
    refine ⟨_, overRows_ok hC, P, ?_⟩
    apply sort_eq_of_perm_strict P
    show (t.map h).Pairwise _
    rw [List.pairwise_map]
    exact hs.imp (fun {a b} hab => by rw [hh]; exact hab)



/-! ## order inside a row, class checks -/

theorem cmp_row {a b : Cell} (h : rowKey a = rowKey b) :
    Cell.cmp a b = (Date.cmp a.ev b.ev).then (optDateCmp a.prev b.prev) := by
  simp only [rowKey, Prod.mk.injEq] at h
  obtain ⟨⟨h1, h2⟩, h3⟩ := h
  simp only [Cell.cmp, compareLex, cmpOn, h1, h2, h3]
  rw [ReflCmp.compare_self (cmp := Metadata.cmp), ReflCmp.compare_self (cmp := Date.cmp),
    ReflCmp.compare_self (cmp := Date.cmp)]
  rfl

theorem cmp_lt_of_row {a b : Cell} (h : rowKey a = rowKey b) (hev : a.ev < b.ev) :
    Cell.cmp a b = .lt := by
  rw [cmp_row h]
  have : Date.cmp a.ev b.ev = .lt := hev
  rw [this]; rfl

theorem ev_lt_of_cmp_lt {a b : Cell} (h : rowKey a = rowKey b) (ha : a.prev = none) (hb : b.prev = none)
    (hc : Cell.cmp a b = .lt) : a.ev < b.ev := by
  rw [cmp_row h, ha, hb] at hc
  show Date.cmp a.ev b.ev = .lt
  revert hc
  cases Date.cmp a.ev b.ev <;> simp [Ordering.then, optDateCmp, cmpOn, compareLex, optDateKey]
  all_goals (rw [ReflCmp.compare_self (cmp := Date.cmp)]; simp)

theorem strict_of_evs {k : RowKey} {ds : List Cell} (hk : ∀ d ∈ ds, rowKey d = k)
    (h : (ds.map (·.ev)).Pairwise (fun a b => a < b)) : StrictSorted ds := by
  rw [List.pairwise_map] at h
  exact h.imp_of_mem (fun {a b} ha hb hab => cmp_lt_of_row ((hk a ha).trans (hk b hb).symm) hab)

theorem isIncremental_of_all {l : List Cell} (h : ∀ c ∈ l, c.kind = .incremental) (hne : l ≠ []) :
    Triangle.isIncremental l = true := by
  cases l with
  | nil => exact absurd rfl hne
  | cons c l => simp [Triangle.isIncremental, h c (by simp)]

theorem not_isIncremental_of_all {l : List Cell} (h : ∀ c ∈ l, c.kind ≠ .incremental) :
    Triangle.isIncremental l = false := by
  cases l with
  | nil => rfl
  | cons c l => simp [Triangle.isIncremental, h c (by simp)]

theorem ofCells_of_all_kind {l : List Cell} (kd : CellKind) (h : ∀ c ∈ l, c.kind = kd) :
    Triangle.ofCells l = .ok (l.mergeSort Cell.le) := by
  unfold Triangle.ofCells
  have : kindsConsistent l = true := by
    unfold kindsConsistent
    cases kd
    · have : l.all (·.kind == .cell) = true := by simpa [List.all_eq_true] using h
      simp [this]
    · have : l.all (·.kind == .cumulative) = true := by simpa [List.all_eq_true] using h
      simp [this]
    · have : l.all (·.kind == .incremental) = true := by simpa [List.all_eq_true] using h
      simp [this]
  simp [this]



theorem Date.lt_trans' {a b c : Date} (h1 : a < b) (h2 : b < c) : a < c := by
  rw [Date.lt_iff] at *; omega

theorem prev_lt_of_inc {c : Cell} {p : Date} (hk : c.kind = .incremental) (hp : c.prev = some p)
    (hd : c.datesOk = true) : p < c.ev := by
  unfold Cell.datesOk at hd
  simp only [Bool.and_eq_true] at hd
  have h2 := hd.2
  rw [hk, hp] at h2
  simpa using h2

theorem chain_evs : ∀ (rest : List Cell) (d : Date), ChainFrom d rest →
    (∀ c ∈ rest, c.kind = .incremental ∧ c.datesOk = true) →
    rest.Pairwise (fun a b => a.ev < b.ev) ∧ ∀ c ∈ rest, d < c.ev
  | [], _, _, _ => ⟨List.Pairwise.nil, by simp⟩
  | c :: rest, d, hch, h => by
    obtain ⟨ih1, ih2⟩ := chain_evs rest c.ev hch.2 (fun x hx => h x (List.mem_cons_of_mem _ hx))
    have hdc : d < c.ev := prev_lt_of_inc (h c (by simp)).1 hch.1 (h c (by simp)).2
    refine ⟨List.pairwise_cons.mpr ⟨ih2, ih1⟩, ?_⟩
    intro x hx
    rcases List.mem_cons.mp hx with rfl | hx
    · exact hdc
    · exact Date.lt_trans' hdc (ih2 x hx)



/-! ## refusals -/

theorem Date.pred_succ {d : Date} (h : d.valid = true) : d.succ.pred = d := by
  obtain ⟨y, m, dd⟩ := d
  simp only [Date.valid, Bool.and_eq_true, decide_eq_true_eq] at h
  obtain ⟨⟨⟨h1, h2⟩, h3⟩, h4⟩ := h
  unfold Date.succ
  by_cases hd : dd < dim y m
  · simp only [hd, if_true]
    unfold Date.pred
    have : dd + 1 > 1 := by omega
    simp only [this, if_true]
    congr
  · have hdd : dd = dim y m := by omega
    simp only [hd, if_false]
    by_cases hm : m < 12
    · simp only [hm, if_true]
      unfold Date.pred
      have : m + 1 > 1 := by omega
      simp only [gt_iff_lt, Nat.lt_irrefl, if_false, this, if_true]
      congr 1
      simp [hdd]
    · have hm12 : m = 12 := by omega
      subst hm12
      simp only [Nat.lt_irrefl, if_false]
      unfold Date.pred
      simp only [gt_iff_lt, Nat.lt_irrefl, if_false]
      congr 1
      · omega
      · rw [hdd]; simp [dim]

theorem mapM_error_of_all {α β} {f : α → Except Err β} {e : Err} : ∀ (l : List α),
    (∀ a ∈ l, (∃ b, f a = .ok b) ∨ f a = .error e) → (∃ a ∈ l, f a = .error e) →
    l.mapM f = .error e
  | [], _, h => by obtain ⟨a, ha, _⟩ := h; cases ha
  | a :: l, hall, hex => by
    rw [List.mapM_cons]
    rcases hall a (by simp) with ⟨b, hb⟩ | he
    · have : ∃ a' ∈ l, f a' = .error e := by
        obtain ⟨a', ha', hf⟩ := hex
        rcases List.mem_cons.mp ha' with rfl | ha'
        · rw [hb] at hf; cases hf
        · exact ⟨a', ha', hf⟩
      rw [hb, mapM_error_of_all l (fun x hx => hall x (List.mem_cons_of_mem _ hx)) this]
      rfl
    · rw [he]; rfl

/-- a broken link inside the row: `to_cumulative`'s loop raises `TriangleError` -/
theorem cumPairs_error_of_broken (k : RowKey) : ∀ (rest : List Cell) (px pc : Cell),
    IncRow k (px :: rest) → pc.values.map (·.1) = px.values.map (·.1) → TyEq pc.values px.values →
    ¬ ChainFrom pc.ev rest → cumPairs k pc.ev pc.values rest = .error .triangleError
  | [], _, _, _, _, _, hb => absurd trivial hb
  | x :: rest, px, pc, h, hkeys, hty, hb => by
    by_cases hp : x.prev = some pc.ev
    · have hb' : ¬ ChainFrom x.ev rest := fun hc => hb ⟨hp, hc⟩
      have hkx : rowKey x = k := h.key x (by simp)
      have hdx := h.dates x (by simp)
      have hps : k.1.1 = x.ps := by rw [← hkx]; rfl
      have hpe : k.1.2 = x.pe := by rw [← hkx]; rfl
      have hsk : sameKeys pc.values x.values = true := by
        rw [sameKeys_congr hkeys rfl]; exact (List.pairwise_cons.mp h.keys).1 x (by simp)
      have hcomp : DictCompat pc.values x.values := by
        intro kv hkv hns
        obtain ⟨τ, h1, h2⟩ := (List.pairwise_cons.mp h.compat).1 x (by simp) kv hkv hns
        exact ⟨τ, by rw [hty kv.1 hns]; exact h1, h2⟩
      obtain ⟨v, hv1, _, hv3, hv4⟩ := valuesAdd_diff hsk hcomp
      let c : Cell := { kind := .cumulative, ps := k.1.1, pe := k.1.2, ev := x.ev, md := k.2, values := v }
      have hc : c.datesOk = true := by
        have := datesOk_base hdx
        simp only [Cell.datesOk, c, hps, hpe]
        simp only [Bool.and_eq_true] at this ⊢
        exact ⟨this, trivial⟩
      have ih : cumPairs k x.ev v rest = .error .triangleError :=
        cumPairs_error_of_broken k rest x c h.tail hv3 hv4 hb'
      have hp' : (x.prev != some pc.ev) = false := by simp [hp]
      simp only [cumPairs, hp', Bool.false_eq_true, if_false, hv1, bind, Except.bind, Cell.mk?]
      have : ({ kind := .cumulative, ps := k.1.1, pe := k.1.2, ev := x.ev, md := k.2,
                values := v } : Cell) = c := rfl
      rw [this, if_pos hc]
      simp only [ih]
    · have hp' : (x.prev != some pc.ev) = true := by simpa using hp
      simp [cumPairs, hp']

/-- **row level refusal**: a consistent incremental row that is not a complete chain (its first cell
does not start the day before the period, or some cell does not link to the evaluation date before
it) is refused with `TriangleError` -/
theorem cumRow_error_of_broken {k : RowKey} {x0 : Cell} {rest : List Cell} (h : IncRow k (x0 :: rest))
    (hv : k.1.1.valid = true) (hpv : ∀ p, x0.prev = some p → p.valid = true)
    (hb : ¬ (x0.prev = some k.1.1.pred ∧ ChainFrom x0.ev rest)) :
    cumRow k (x0 :: rest) = .error .triangleError := by
  have hk0 : rowKey x0 = k := h.key x0 (by simp)
  have hd0 := h.dates x0 (by simp)
  have hps : k.1.1 = x0.ps := by rw [← hk0]; rfl
  have hpe : k.1.2 = x0.pe := by rw [← hk0]; rfl
  by_cases hf : x0.prev = some k.1.1.pred
  · have hb' : ¬ ChainFrom x0.ev rest := fun hc => hb ⟨hf, hc⟩
    let c0 : Cell := { kind := .cumulative, ps := k.1.1, pe := k.1.2, ev := x0.ev, md := k.2,
                       values := x0.values }
    have hc : c0.datesOk = true := by
      have := datesOk_base hd0
      simp only [Cell.datesOk, c0, hps, hpe]
      simp only [Bool.and_eq_true] at this ⊢
      exact ⟨this, trivial⟩
    have herr : cumPairs k x0.ev x0.values rest = .error .triangleError :=
      cumPairs_error_of_broken k rest x0 c0 h rfl (fun _ _ => rfl) hb'
    have hchk : ((x0.prev.map Date.succ) != some x0.ps) = false := by
      rw [hps] at hv
      simp [hf, hps, Date.succ_pred hv]
    simp only [cumRow, hchk, Bool.false_eq_true, if_false, bind, Except.bind, Cell.mk?]
    have : ({ kind := .cumulative, ps := k.1.1, pe := k.1.2, ev := x0.ev, md := k.2,
              values := x0.values } : Cell) = c0 := rfl
    rw [this, if_pos hc]
    simp only [herr]
  · have hchk : ((x0.prev.map Date.succ) != some x0.ps) = true := by
      cases hprev : x0.prev with
      | none => simp
      | some p =>
        simp only [Option.map_some, bne_iff_ne, ne_eq, Option.some.injEq]
        intro e
        apply hf
        rw [hprev, hps, ← e, Date.pred_succ (hpv p hprev)]
    simp [cumRow, hchk]



/-- apart from key sets, consecutive cells of the row are compatible (so that a key-set mismatch is
the only thing that can go wrong) -/
def AdjOK : List Cell → Prop
  | a :: b :: rest =>
    (sameKeys a.values b.values = false ∨ DictCompat a.values b.values) ∧ AdjOK (b :: rest)
  | _ => True

/-- some two consecutive cells of the row have different key sets -/
def HasMismatch : List Cell → Prop
  | a :: b :: rest => sameKeys a.values b.values = false ∨ HasMismatch (b :: rest)
  | _ => False

/-- the non-value part of `CumRow` -/
structure CumRowDates (k : RowKey) (row : List Cell) : Prop where
  key : ∀ c ∈ row, rowKey c = k
  dates : ∀ c ∈ row, c.datesOk = true
  evs : row.Pairwise (fun a b => a.ev < b.ev)

theorem CumRowDates.tail {k : RowKey} {c : Cell} {row : List Cell} (h : CumRowDates k (c :: row)) :
    CumRowDates k row :=
  ⟨fun x hx => h.key x (List.mem_cons_of_mem _ hx), fun x hx => h.dates x (List.mem_cons_of_mem _ hx),
   (List.pairwise_cons.mp h.evs).2⟩

theorem incPairs_outcome (k : RowKey) : ∀ (rest : List Cell) (p : Cell), CumRowDates k (p :: rest) →
    AdjOK (p :: rest) →
    ((∃ ds, incPairs k p rest = .ok ds) ∧ ¬ HasMismatch (p :: rest)) ∨
    (incPairs k p rest = .error .triangleError ∧ HasMismatch (p :: rest))
  | [], _, _, _ => Or.inl ⟨⟨[], rfl⟩, fun h => h⟩
  | n :: rest, p, h, hadj => by
    by_cases hsk : sameKeys p.values n.values = true
    · have hcomp : DictCompat p.values n.values := by
        rcases hadj.1 with e | e
        · rw [hsk] at e; cases e
        · exact e
      obtain ⟨x, hx1, _⟩ := valuesDiff_add hsk hcomp
      have hev : p.ev < n.ev := (List.pairwise_cons.mp h.evs).1 n (by simp)
      have hkn : rowKey n = k := h.key n (by simp)
      have hdn := datesOk_base (h.dates n (by simp))
      have hps : k.1.1 = n.ps := by rw [← hkn]; rfl
      have hpe : k.1.2 = n.pe := by rw [← hkn]; rfl
      have hd : ({ kind := .incremental, ps := k.1.1, pe := k.1.2, prev := some p.ev, ev := n.ev,
                   md := k.2, values := x } : Cell).datesOk = true := by
        simp only [Cell.datesOk, hps, hpe]
        simp only [Bool.and_eq_true] at hdn ⊢
        exact ⟨hdn, by simpa using hev⟩
      rcases incPairs_outcome k rest n h.tail hadj.2 with ⟨⟨ds, hds⟩, hno⟩ | ⟨herr, hmis⟩
      · left
        refine ⟨⟨{ kind := .incremental, ps := k.1.1, pe := k.1.2, prev := some p.ev, ev := n.ev,
                   md := k.2, values := x } :: ds, ?_⟩, ?_⟩
        · simp only [incPairs, hx1, bind, Except.bind, Cell.mk?]
          rw [if_pos hd]
          simp only [hds, pure, Except.pure]
        · intro hm
          rcases hm with e | e
          · rw [hsk] at e; cases e
          · exact hno e
      · right
        refine ⟨?_, Or.inr hmis⟩
        simp only [incPairs, hx1, bind, Except.bind, Cell.mk?]
        rw [if_pos hd]
        simp only [herr]
    · right
      have hsk' : sameKeys p.values n.values = false := by simpa using hsk
      refine ⟨?_, Or.inl hsk'⟩
      simp [incPairs, valuesDiff, hsk', bind, Except.bind]

/-- outcome of `to_incremental` on one row whose only possible defect is an inconsistent key set:
it converts iff no two consecutive cells differ in their key sets, and raises `TriangleError` otherwise -/
theorem incRow_outcome {k : RowKey} {c0 : Cell} {rest : List Cell} (h : CumRowDates k (c0 :: rest))
    (hv : k.1.1.valid = true) (hadj : AdjOK (c0 :: rest)) :
    ((∃ ds, incRow k (c0 :: rest) = .ok ds) ∧ ¬ HasMismatch (c0 :: rest)) ∨
    (incRow k (c0 :: rest) = .error .triangleError ∧ HasMismatch (c0 :: rest)) := by
  have hk0 : rowKey c0 = k := h.key c0 (by simp)
  have hd0 := datesOk_base (h.dates c0 (by simp))
  have hps : k.1.1 = c0.ps := by rw [← hk0]; rfl
  have hpe : k.1.2 = c0.pe := by rw [← hk0]; rfl
  have hd : ({ kind := .incremental, ps := k.1.1, pe := k.1.2, prev := some k.1.1.pred,
               ev := c0.ev, md := k.2, values := c0.values } : Cell).datesOk = true := by
    have hlt : k.1.1.pred < c0.ev := by
      apply Date.pred_lt_of_not_lt hv
      simp only [Bool.and_eq_true] at hd0
      rw [hps]; simpa using hd0.1.2
    simp only [Cell.datesOk]
    rw [← hps, ← hpe] at hd0
    simp only [Bool.and_eq_true] at hd0 ⊢
    exact ⟨hd0, by simpa using hlt⟩
  rcases incPairs_outcome k rest c0 h hadj with ⟨⟨ds, hds⟩, hno⟩ | ⟨herr, hmis⟩
  · left
    refine ⟨⟨{ kind := .incremental, ps := k.1.1, pe := k.1.2, prev := some k.1.1.pred,
               ev := c0.ev, md := k.2, values := c0.values } :: ds, ?_⟩, hno⟩
    simp only [incRow, bind, Except.bind, Cell.mk?]
    rw [if_pos hd]
    simp only [hds, pure, Except.pure]
  · right
    refine ⟨?_, hmis⟩
    simp only [incRow, bind, Except.bind, Cell.mk?]
    rw [if_pos hd]
    simp only [herr]



/-- the non-value part of `IncRow` -/
structure IncRowDates (k : RowKey) (row : List Cell) : Prop where
  key : ∀ c ∈ row, rowKey c = k
  dates : ∀ c ∈ row, c.datesOk = true

theorem IncRowDates.tail {k : RowKey} {c : Cell} {row : List Cell} (h : IncRowDates k (c :: row)) :
    IncRowDates k row :=
  ⟨fun x hx => h.key x (List.mem_cons_of_mem _ hx), fun x hx => h.dates x (List.mem_cons_of_mem _ hx)⟩

theorem cumPairs_outcome (k : RowKey) : ∀ (rest : List Cell) (px pc : Cell),
    IncRowDates k (px :: rest) → AdjOK (px :: rest) →
    pc.values.map (·.1) = px.values.map (·.1) → TyEq pc.values px.values →
    ((∃ cs, cumPairs k pc.ev pc.values rest = .ok cs) ∧ ¬ HasMismatch (px :: rest)) ∨
    cumPairs k pc.ev pc.values rest = .error .triangleError
  | [], _, _, _, _, _, _ => Or.inl ⟨⟨[], rfl⟩, fun h => h⟩
  | x :: rest, px, pc, h, hadj, hkeys, hty => by
    by_cases hp : x.prev = some pc.ev
    · have hp' : (x.prev != some pc.ev) = false := by simp [hp]
      by_cases hsk : sameKeys px.values x.values = true
      · have hsk' : sameKeys pc.values x.values = true := by rw [sameKeys_congr hkeys rfl]; exact hsk
        have hcomp : DictCompat pc.values x.values := by
          intro kv hkv hns
          have hc : DictCompat px.values x.values := by
            rcases hadj.1 with e | e
            · rw [hsk] at e; cases e
            · exact e
          obtain ⟨τ, h1, h2⟩ := hc kv hkv hns
          exact ⟨τ, by rw [hty kv.1 hns]; exact h1, h2⟩
        obtain ⟨v, hv1, _, hv3, hv4⟩ := valuesAdd_diff hsk' hcomp
        have hkx : rowKey x = k := h.key x (by simp)
        have hdx := h.dates x (by simp)
        have hps : k.1.1 = x.ps := by rw [← hkx]; rfl
        have hpe : k.1.2 = x.pe := by rw [← hkx]; rfl
        let c : Cell := { kind := .cumulative, ps := k.1.1, pe := k.1.2, ev := x.ev, md := k.2, values := v }
        have hc : c.datesOk = true := by
          have := datesOk_base hdx
          simp only [Cell.datesOk, c, hps, hpe]
          simp only [Bool.and_eq_true] at this ⊢
          exact ⟨this, trivial⟩
        have hceq : ({ kind := .cumulative, ps := k.1.1, pe := k.1.2, ev := x.ev, md := k.2, values := v } : Cell) = c :=
          rfl
        rcases cumPairs_outcome k rest x c h.tail hadj.2 hv3 hv4 with ⟨⟨cs, hcs⟩, hno⟩ | herr
        · left
          have hcs' : cumPairs k x.ev v rest = .ok cs := hcs
          refine ⟨⟨c :: cs, ?_⟩, ?_⟩
          · simp only [cumPairs, hp', Bool.false_eq_true, if_false, hv1, bind, Except.bind, Cell.mk?]
            rw [hceq, if_pos hc]
            simp only [hcs', pure, Except.pure]
          · intro hm
            rcases hm with e | e
            · rw [hsk] at e; cases e
            · exact hno e
        · right
          have herr' : cumPairs k x.ev v rest = .error .triangleError := herr
          simp only [cumPairs, hp', Bool.false_eq_true, if_false, hv1, bind, Except.bind, Cell.mk?]
          rw [hceq, if_pos hc]
          simp only [herr']
      · right
        have hsk' : sameKeys pc.values x.values = false := by
          rw [sameKeys_congr hkeys rfl]; simpa using hsk
        simp [cumPairs, hp', valuesAdd, hsk', bind, Except.bind]
    · right
      have hp' : (x.prev != some pc.ev) = true := by simpa using hp
      simp [cumPairs, hp']

/-- outcome of `to_cumulative` on one row whose values are compatible apart from key sets: it either
converts (then no two consecutive cells differ in their key sets) or raises `TriangleError` -/
theorem cumRow_outcome {k : RowKey} {x0 : Cell} {rest : List Cell} (h : IncRowDates k (x0 :: rest))
    (hadj : AdjOK (x0 :: rest)) :
    ((∃ cs, cumRow k (x0 :: rest) = .ok cs) ∧ ¬ HasMismatch (x0 :: rest)) ∨
    cumRow k (x0 :: rest) = .error .triangleError := by
  by_cases hchk : ((x0.prev.map Date.succ) != some x0.ps) = true
  · right; simp [cumRow, hchk]
  · have hchk' : ((x0.prev.map Date.succ) != some x0.ps) = false := by simpa using hchk
    have hk0 : rowKey x0 = k := h.key x0 (by simp)
    have hd0 := h.dates x0 (by simp)
    have hps : k.1.1 = x0.ps := by rw [← hk0]; rfl
    have hpe : k.1.2 = x0.pe := by rw [← hk0]; rfl
    let c0 : Cell := { kind := .cumulative, ps := k.1.1, pe := k.1.2, ev := x0.ev, md := k.2,
                       values := x0.values }
    have hc : c0.datesOk = true := by
      have := datesOk_base hd0
      simp only [Cell.datesOk, c0, hps, hpe]
      simp only [Bool.and_eq_true] at this ⊢
      exact ⟨this, trivial⟩
    have hceq : ({ kind := .cumulative, ps := k.1.1, pe := k.1.2, ev := x0.ev, md := k.2,
                   values := x0.values } : Cell) = c0 := rfl
    rcases cumPairs_outcome k rest x0 c0 h hadj rfl (fun _ _ => rfl) with ⟨⟨cs, hcs⟩, hno⟩ | herr
    · left
      have hcs' : cumPairs k x0.ev x0.values rest = .ok cs := hcs
      refine ⟨⟨c0 :: cs, ?_⟩, hno⟩
      simp only [cumRow, hchk', Bool.false_eq_true, if_false, bind, Except.bind, Cell.mk?]
      rw [hceq, if_pos hc]
      simp only [hcs', pure, Except.pure]
    · right
      have herr' : cumPairs k x0.ev x0.values rest = .error .triangleError := herr
      simp only [cumRow, hchk', Bool.false_eq_true, if_false, bind, Except.bind, Cell.mk?]
      rw [hceq, if_pos hc]
      simp only [herr']



/-- in the sorted concatenation of keyed, strictly sorted blocks, the cells under one key are exactly
that block, in its order -/
theorem sorted_blocks_filter {L : List (RowKey × List Cell)} (hnd : (L.map (·.1)).Nodup)
    (hkey : ∀ p ∈ L, ∀ c ∈ p.2, rowKey c = p.1) (hs : ∀ p ∈ L, StrictSorted p.2) :
    ∀ p ∈ L, ((L.flatMap (·.2)).mergeSort Cell.le).filter (fun c => rowKey c == p.1) = p.2 := by
  intro p hp
  have hperm := List.mergeSort_perm (L.flatMap (·.2)) Cell.le
  have h1 : (((L.flatMap (·.2)).mergeSort Cell.le).filter (fun c => rowKey c == p.1)).mergeSort Cell.le
      = p.2 := by
    apply sort_eq_of_perm_strict _ (hs p hp)
    have := hperm.filter (fun c => rowKey c == p.1)
    rwa [filter_flatMap_block L hnd hkey p hp] at this
  have h2 := mergeSort_sublist_sorted (cmp := Cell.cmp)
    (List.filter_sublist (p := fun c => rowKey c == p.1) (l := (L.flatMap (·.2)).mergeSort Cell.le))
    (sorted_mergeSort (cmp := Cell.cmp) _)
  rw [← h2]; exact h1

/-- running a row function over a strictly sorted triangle and re-sorting: the cells of the result
under one row key are exactly the output of the row function on that row -/
theorem overRows_blocks {f : RowKey → List Cell → Except Err (List Cell)} {t : List Cell}
    (hs : StrictSorted t)
    (hrow : ∀ k r, r ≠ [] → r = t.filter (fun c => rowKey c == k) →
      ∃ d, f k r = .ok d ∧ (∀ c ∈ d, rowKey c = k) ∧ StrictSorted d) :
    ∃ D, overRows f t = .ok D ∧ ∀ k r, r ≠ [] → r = t.filter (fun c => rowKey c == k) →
      ∃ d, f k r = .ok d ∧ (D.mergeSort Cell.le).filter (fun c => rowKey c == k) = d := by
  have G := groupBy_inv rowKey t
  have hrows : orderedRows t = groupBy rowKey t := orderedRows_of_strict hs
  have R : ∀ p ∈ orderedRows t, p.2 ≠ [] ∧ p.2 = t.filter (fun c => rowKey c == p.1) := by
    intro p hp
    rw [hrows] at hp
    have hc := G.content p hp
    refine ⟨?_, hc⟩
    obtain ⟨a, ha, hak⟩ := G.inhabited p hp
    intro e
    have : a ∈ p.2 := by rw [hc]; exact List.mem_filter.mpr ⟨ha, by simp [hak]⟩
    rw [e] at this; cases this
  let gI : RowKey × List Cell → List Cell := fun p => okD (f p.1 p.2) []
  have RI : ∀ p ∈ orderedRows t, f p.1 p.2 = .ok (gI p) ∧ (∀ c ∈ gI p, rowKey c = p.1) ∧
      StrictSorted (gI p) := by
    intro p hp
    obtain ⟨h1, h2⟩ := R p hp
    obtain ⟨d, hd1, hd⟩ := hrow p.1 p.2 h1 h2
    have : gI p = d := by simp [gI, okD, hd1]
    rw [this]; exact ⟨hd1, hd⟩
  let L : List (RowKey × List Cell) := (orderedRows t).map (fun p => (p.1, gI p))
  have hLD : L.flatMap (·.2) = (orderedRows t).flatMap gI := by
    simp [L, List.flatMap_map]
  have hLk : L.map (·.1) = (groupBy rowKey t).map (·.1) := by
    simp only [L, List.map_map, hrows]; rfl
  refine ⟨(orderedRows t).flatMap gI, overRows_ok (fun p hp => (RI p hp).1), ?_⟩
  intro k r hne hr
  obtain ⟨a, ha⟩ := List.exists_mem_of_ne_nil _ hne
  rw [hr] at ha
  obtain ⟨hat, hak⟩ := List.mem_filter.mp ha
  have hak : rowKey a = k := by simpa using hak
  obtain ⟨p, hp, hpk⟩ := G.covers a hat
  have hpk : p.1 = k := hpk.trans hak
  have hp' : p ∈ orderedRows t := by rw [hrows]; exact hp
  have hpr : p.2 = r := by rw [(R p hp').2, hpk, hr]
  refine ⟨gI p, by rw [← hpk, ← hpr]; exact (RI p hp').1, ?_⟩
  have := sorted_blocks_filter (L := L) (by rw [hLk]; exact G.nodup)
    (by
      intro q hq
      obtain ⟨p', hp'', rfl⟩ := List.mem_map.mp hq
      exact (RI p' hp'').2.1)
    (by
      intro q hq
      obtain ⟨p', hp'', rfl⟩ := List.mem_map.mp hq
      exact (RI p' hp'').2.2)
    (p.1, gI p) (List.mem_map_of_mem (f := fun p : RowKey × List Cell => (p.1, gI p)) hp')
  rw [hLD] at this
  rw [← hpk]; exact this


end Bermuda
