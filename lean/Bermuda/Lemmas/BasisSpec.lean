/-
C04: hypotheses of the property theorems (`WFcum`, `Consistent`, `Complete`, …), their row views and
decidable forms (for the non-vacuity examples), and the lemmas that connect the row function `incRow`
to the lookup-based predicate `Spec.toIncRowSpec`. The definitions keep the namespace
`Bermuda.Properties.C04` so that the statements in `Properties/C04.lean` read unchanged.
-/
import Bermuda.Lemmas.BasisRows
import Bermuda.Spec.C04
namespace Bermuda
open Std


theorem Date.lt_irrefl' (a : Date) : ¬ a < a := by rw [Date.lt_iff]; omega
theorem Date.lt_asymm' {a b : Date} (h : a < b) : ¬ b < a := by rw [Date.lt_iff] at *; omega

/-- the fold of `Spec.predIn` -/
def predStep (best : Option Cell) (p : Cell) : Option Cell :=
  match best with
  | none => some p
  | some b => if b.ev < p.ev then some p else some b

theorem foldl_predStep : ∀ (l : List Cell) (init : Option Cell),
    l.Pairwise (fun a b => a.ev < b.ev) → (∀ b, init = some b → ∀ x ∈ l, b.ev < x.ev) →
    l.foldl predStep init = l.getLast?.or init
  | [], init, _, _ => by simp
  | a :: l, init, hp, hi => by
    have hpc := List.pairwise_cons.mp hp
    have hstep : predStep init a = some a := by
      cases init with
      | none => rfl
      | some b => simp [predStep, hi b rfl a (by simp)]
    rw [List.foldl_cons, hstep, foldl_predStep l (some a) hpc.2 (fun b hb x hx => by cases hb; exact hpc.1 x hx),
      List.getLast?_cons]
    cases l.getLast? <;> simp

theorem filter_lt_split {pre post : List Cell} {c : Cell}
    (h : (pre ++ c :: post).Pairwise (fun a b => a.ev < b.ev)) :
    (pre ++ c :: post).filter (fun p => p.ev < c.ev) = pre := by
  rw [List.pairwise_append] at h
  obtain ⟨_, h2, h3⟩ := h
  have h2' := List.pairwise_cons.mp h2
  rw [List.filter_append, List.filter_cons]
  have e1 : pre.filter (fun p => decide (p.ev < c.ev)) = pre := by
    rw [List.filter_eq_self]; intro a ha; simpa using h3 a ha c (by simp)
  have e2 : post.filter (fun p => decide (p.ev < c.ev)) = [] := by
    rw [List.filter_eq_nil_iff]; intro a ha; simpa using Date.lt_asymm' (h2'.1 a ha)
  simp [e1, e2, Date.lt_irrefl']

theorem mk?_ok {c c' : Cell} (h : Cell.mk? c = .ok c') : c' = c := by
  unfold Cell.mk? at h
  split at h
  · cases h; rfl
  · cases h

/-- inversion of one step of the pair loop -/
theorem incPairs_cons_ok {k : RowKey} {p n : Cell} {rest ds : List Cell}
    (h : incPairs k p (n :: rest) = .ok ds) :
    ∃ v ds', valuesDiff p.values n.values = .ok v ∧ incPairs k n rest = .ok ds' ∧
      ds = { kind := .incremental, ps := k.1.1, pe := k.1.2, prev := some p.ev, ev := n.ev,
             md := k.2, values := v } :: ds' := by
  simp only [incPairs, bind, Except.bind] at h
  cases hv : valuesDiff p.values n.values with
  | error e => rw [hv] at h; cases h
  | ok v =>
    rw [hv] at h
    simp only at h
    cases hm : Cell.mk? { kind := .incremental, ps := k.1.1, pe := k.1.2, prev := some p.ev, ev := n.ev,
                          md := k.2, values := v } with
    | error e => rw [hm] at h; cases h
    | ok c =>
      rw [hm] at h
      simp only at h
      cases hr : incPairs k n rest with
      | error e => rw [hr] at h; cases h
      | ok ds' =>
        rw [hr] at h
        simp only [pure, Except.pure] at h
        cases h
        exact ⟨v, ds', rfl, rfl, by rw [mk?_ok hm]⟩

/-- every cell of the tail of a row has its increment: it links to the cell before it and carries
`_values_diff(previous, this)` -/
theorem incPairs_spec (k : RowKey) : ∀ (rest : List Cell) (p : Cell) (ds : List Cell),
    incPairs k p rest = .ok ds → ∀ pre c post, rest = pre ++ c :: post →
    ∃ o ∈ ds, o.ev = c.ev ∧ o.kind = .incremental ∧ rowKey o = k ∧
      o.prev = some (pre.getLast?.getD p).ev ∧
      valuesDiff (pre.getLast?.getD p).values c.values = .ok o.values
  | [], _, _, _, pre, c, post, e => by simp at e
  | n :: rest, p, ds, h, pre, c, post, e => by
    obtain ⟨v, ds', hv, hr, rfl⟩ := incPairs_cons_ok h
    cases pre with
    | nil =>
      simp only [List.nil_append, List.cons.injEq] at e
      obtain ⟨rfl, rfl⟩ := e
      exact ⟨{ kind := .incremental, ps := k.1.1, pe := k.1.2, prev := some p.ev, ev := n.ev,
               md := k.2, values := v }, by simp, rfl, rfl, rfl, rfl, hv⟩
    | cons a pre' =>
      simp only [List.cons_append, List.cons.injEq] at e
      obtain ⟨rfl, e'⟩ := e
      obtain ⟨o, ho, h1, h2, h3, h4, h5⟩ := incPairs_spec k rest n ds' hr pre' c post e'
      refine ⟨o, List.mem_cons_of_mem _ ho, h1, h2, h3, ?_, ?_⟩
      · rw [List.getLast?_cons]; exact h4
      · rw [List.getLast?_cons]; exact h5

/-- **row clause of C04 on the model**: for every cell `c` of the row there is an increment with `c`'s
evaluation date; if `c` is the first of the row it starts the day before the period and copies the
values, otherwise it links to the cell before `c` and carries the difference to it -/
theorem incRow_spec {k : RowKey} {r ds : List Cell} (h : incRow k r = .ok ds) {pre post : List Cell}
    {c : Cell} (e : r = pre ++ c :: post) :
    ∃ o ∈ ds, o.ev = c.ev ∧ o.kind = .incremental ∧ rowKey o = k ∧
      match pre.getLast? with
      | none => o.prev = some k.1.1.pred ∧ o.values = c.values
      | some p => o.prev = some p.ev ∧ valuesDiff p.values c.values = .ok o.values := by
  cases r with
  | nil => simp at e
  | cons c0 rest =>
    simp only [incRow, bind, Except.bind] at h
    cases hm : Cell.mk? { kind := .incremental, ps := k.1.1, pe := k.1.2, prev := some k.1.1.pred,
                          ev := c0.ev, md := k.2, values := c0.values } with
    | error e' => rw [hm] at h; cases h
    | ok d0 =>
      rw [hm] at h
      simp only at h
      cases hr : incPairs k c0 rest with
      | error e' => rw [hr] at h; cases h
      | ok ds' =>
        rw [hr] at h
        simp only [pure, Except.pure] at h
        cases h
        have hd0 := mk?_ok hm
        cases pre with
        | nil =>
          simp only [List.nil_append, List.cons.injEq] at e
          obtain ⟨rfl, rfl⟩ := e
          refine ⟨d0, by simp, ?_⟩
          rw [hd0]
          exact ⟨rfl, rfl, rfl, rfl, rfl⟩
        | cons a pre' =>
          simp only [List.cons_append, List.cons.injEq] at e
          obtain ⟨rfl, e'⟩ := e
          obtain ⟨o, ho, h1, h2, h3, h4, h5⟩ := incPairs_spec k rest c0 ds' hr pre' c post e'
          refine ⟨o, List.mem_cons_of_mem _ ho, h1, h2, h3, ?_⟩
          rw [List.getLast?_cons]
          exact ⟨h4, h5⟩

open Spec
theorem get?_of_mem_nodup : ∀ {d : Dict Val} {k : String} {v : Val}, nodupKeys d = true → (k, v) ∈ d →
    d.get? k = some v
  | [], _, _, _, h => by cases h
  | kv :: rest, k, v, hn, h => by
    simp only [nodupKeys, Bool.and_eq_true, Bool.not_eq_true'] at hn
    unfold Dict.get?
    rw [List.find?_cons]
    rcases List.mem_cons.mp h with e | h'
    · subst e; simp
    · have hne : (kv.1 == k) = false := by
        cases hk : (kv.1 == k) with
        | false => rfl
        | true =>
          have : kv.1 = k := by simpa using hk
          have hc : Dict.contains rest kv.1 = true := by
            unfold Dict.contains; rw [List.any_eq_true]; exact ⟨(k, v), h', by simp [this]⟩
          rw [hc] at hn; cases hn.1
      rw [hne]
      exact get?_of_mem_nodup hn.2 h'

theorem getD'_of_mem_nodup {d : Dict Val} {k : String} {v : Val} (hn : nodupKeys d = true)
    (h : (k, v) ∈ d) : d.getD' k = v := by
  unfold Dict.getD'; rw [get?_of_mem_nodup hn h]; rfl

theorem dictEqv_refl {a : Dict Val} (hn : nodupKeys a = true) : dictEqv a a = true := by
  unfold dictEqv
  simp only [beq_self_eq_true, hn, Bool.and_self, Bool.true_and, List.all_eq_true]
  intro kv hkv
  rw [get?_of_mem_nodup hn (k := kv.1) (v := kv.2) hkv]; simp

theorem nodupKeys_congr : ∀ {a b : Dict Val}, a.map (·.1) = b.map (·.1) → nodupKeys a = nodupKeys b
  | [], [], _ => rfl
  | [], _ :: _, h => by simp at h
  | _ :: _, [], h => by simp at h
  | x :: a, y :: b, h => by
    simp only [List.map_cons, List.cons.injEq] at h
    simp only [nodupKeys]
    rw [nodupKeys_congr h.2, contains_eq_of_keys h.2, h.1]

theorem sameKeys_self (a : Dict Val) : sameKeys a a = true := by
  unfold sameKeys Dict.keys Dict.contains
  simp only [Bool.and_self, List.all_eq_true, List.any_eq_true]
  intro k hk
  obtain ⟨kv, hkv, rfl⟩ := List.mem_map.mp hk
  exact ⟨kv, hkv, by simp⟩

/-- inversion of `_values_diff`: same key list as `next`, static entries copied, every other entry is
`next[k] - prev[k]` -/
theorem mapM_diffE_inv (p : Dict Val) : ∀ (n x : Dict Val), n.mapM (diffE p) = .ok x →
    x.map (·.1) = n.map (·.1) ∧
    ∀ kv ∈ x, (kv.1 = staticField → kv ∈ n) ∧
      (kv.1 ≠ staticField → ∃ v, (kv.1, v) ∈ n ∧ Val.pySub v (p.getD' kv.1) = .ok kv.2)
  | [], x, h => by
    simp [List.mapM_nil, pure, Except.pure] at h; subst h; simp
  | e :: n, x, h => by
    rw [List.mapM_cons] at h
    cases he : diffE p e with
    | error err => rw [he] at h; cases h
    | ok e' =>
      cases hn : n.mapM (diffE p) with
      | error err => rw [he, hn] at h; cases h
      | ok x' =>
        rw [he, hn] at h
        simp only [bind, Except.bind, pure, Except.pure] at h
        cases h
        obtain ⟨ih1, ih2⟩ := mapM_diffE_inv p n x' hn
        have hhead : e'.1 = e.1 ∧ (e'.1 = staticField → e' = e) ∧
            (e'.1 ≠ staticField → Val.pySub e.2 (p.getD' e'.1) = .ok e'.2) := by
          unfold diffE at he
          split at he
          · cases he
            refine ⟨rfl, fun _ => rfl, fun hne => ?_⟩
            rename_i hs
            exact absurd (by simpa using hs) hne
          · rename_i hs
            cases hsub : Val.pySub e.2 (p.getD' e.1) with
            | error err => rw [hsub] at he; cases he
            | ok w =>
              rw [hsub] at he
              simp only [Except.map] at he
              cases he
              exact ⟨rfl, fun h => absurd h (by simpa using hs), fun _ => hsub⟩
        refine ⟨by simp [ih1, hhead.1], ?_⟩
        intro kv hkv
        rcases List.mem_cons.mp hkv with rfl | hkv
        · refine ⟨fun hs => by rw [hhead.2.1 hs]; simp, fun hns => ⟨e.2, ?_, hhead.2.2 hns⟩⟩
          rw [hhead.1]; simp
        · obtain ⟨a1, a2⟩ := ih2 kv hkv
          refine ⟨fun hs => List.mem_cons_of_mem _ (a1 hs), fun hns => ?_⟩
          obtain ⟨v, hv1, hv2⟩ := a2 hns
          exact ⟨v, List.mem_cons_of_mem _ hv1, hv2⟩

theorem valuesDiff_inv {p n x : Dict Val} (h : valuesDiff p n = .ok x) :
    sameKeys p n = true ∧ x.map (·.1) = n.map (·.1) ∧
    ∀ kv ∈ x, (kv.1 = staticField → kv ∈ n) ∧
      (kv.1 ≠ staticField → ∃ v, (kv.1, v) ∈ n ∧ Val.pySub v (p.getD' kv.1) = .ok kv.2) := by
  rw [valuesDiff_eq] at h
  split at h
  · rename_i hs
    exact ⟨hs, mapM_diffE_inv p n x h⟩
  · cases h


theorem chainB_of_pairwise_le {l : List Cell} (h : l.Pairwise (fun a b => Cell.le a b)) :
    Spec.chainB Cell.le l = true := by
  induction l with
  | nil => rfl
  | cons a rest ih =>
    cases rest with
    | nil => rfl
    | cons b rest' =>
      simp only [Spec.chainB, Bool.and_eq_true]
      exact ⟨(List.pairwise_cons.mp h).1 b (by simp), ih (List.pairwise_cons.mp h).2⟩

/-- in a list with strictly increasing evaluation dates, exactly one cell has a given member's date -/
theorem filter_ev_eq : ∀ {ds : List Cell} {o : Cell}, ds.Pairwise (fun a b => a.ev < b.ev) → o ∈ ds →
    ds.filter (fun x => x.ev == o.ev) = [o]
  | [], _, _, h => by cases h
  | a :: ds, o, hp, h => by
    have hpc := List.pairwise_cons.mp hp
    rw [List.filter_cons]
    rcases List.mem_cons.mp h with rfl | h'
    · have : ds.filter (fun x => x.ev == o.ev) = [] := by
        rw [List.filter_eq_nil_iff]
        intro x hx e
        have hlt := hpc.1 x hx
        have : x.ev = o.ev := by simpa using e
        rw [this] at hlt; exact Date.lt_irrefl' _ hlt
      simp [this]
    · have hlt := hpc.1 o h'
      have hne : (a.ev == o.ev) = false := by
        cases he : (a.ev == o.ev) with
        | false => rfl
        | true =>
          have : a.ev = o.ev := by simpa using he
          rw [this] at hlt; exact absurd hlt (Date.lt_irrefl' _)
      rw [hne]
      exact filter_ev_eq hpc.2 h'

theorem predIn_eq (t : List Cell) (c : Cell) :
    Spec.predIn t c =
      ((t.filter (fun p => rowKey p == rowKey c)).filter (fun p => p.ev < c.ev)).foldl predStep none := by
  unfold Spec.predIn
  rw [List.filter_filter]
  have : (fun p : Cell => rowKey p == rowKey c && decide (p.ev < c.ev)) =
      (fun a => decide (a.ev < c.ev) && (rowKey a == rowKey c)) := by
    funext p; rw [Bool.and_comm]
  rw [this]
  rfl

theorem cellEqv_refl {c : Cell} (h : nodupKeys c.values = true) : cellEqv c c = true := by
  simp [cellEqv, dictEqv_refl h]

theorem cellsEqv_refl : ∀ {l : List Cell}, (∀ c ∈ l, nodupKeys c.values = true) → cellsEqv l l = true
  | [], _ => rfl
  | c :: l, h => by
    simp only [cellsEqv, Bool.and_eq_true]
    exact ⟨cellEqv_refl (h c (by simp)), cellsEqv_refl (fun x hx => h x (List.mem_cons_of_mem _ hx))⟩

end Bermuda

namespace Bermuda.Properties.C04
open Bermuda Std

/-! ## hypotheses -/

/-- **H**: a valid cumulative triangle. `sorted` is the canonical form of C01 together with
"distinct (metadata, period, evaluation date)"; `keys`: rows keep one key set; `types`: under every
key other than `earned_premium` the row keeps one kind/dtype/shape, and no value is `None`. -/
structure WFcum (t : List Cell) : Prop where
  sorted : t.Pairwise (fun a b => Cell.cmp a b = .lt)
  notInc : ∀ c ∈ t, c.kind ≠ .incremental
  dates : ∀ c ∈ t, c.datesOk = true
  psValid : ∀ c ∈ t, c.ps.valid = true
  keys : ∀ a ∈ t, ∀ b ∈ t, rowKey a = rowKey b → sameKeys a.values b.values = true
  types : ∀ a ∈ t, ∀ b ∈ t, rowKey a = rowKey b → DictCompat a.values b.values

theorem WFcum.row {t : List Cell} (h : WFcum t) {k : RowKey} {r : List Cell}
    (hr : r = t.filter (fun c => rowKey c == k)) : CumRow k r := by
  have hsub : r.Sublist t := by rw [hr]; exact List.filter_sublist
  have hmem : ∀ c ∈ r, c ∈ t := fun c hc => hsub.subset hc
  have hkey : ∀ c ∈ r, rowKey c = k := by
    intro c hc; rw [hr] at hc; simpa using (List.mem_filter.mp hc).2
  have hkk : ∀ a ∈ r, ∀ b ∈ r, rowKey a = rowKey b := fun a ha b hb => (hkey a ha).trans (hkey b hb).symm
  have hs := h.sorted.sublist hsub
  refine ⟨hkey, fun c hc => h.dates c (hmem c hc), fun c hc => h.notInc c (hmem c hc), ?_, ?_, ?_⟩
  · exact hs.imp_of_mem (fun {a b} ha hb hab => ev_lt_of_cmp_lt (hkk a ha b hb)
      (prev_none_of_notInc (h.dates a (hmem a ha)) (h.notInc a (hmem a ha)))
      (prev_none_of_notInc (h.dates b (hmem b hb)) (h.notInc b (hmem b hb))) hab)
  · exact hs.imp_of_mem (fun {a b} ha hb _ => h.keys a (hmem a ha) b (hmem b hb) (hkk a ha b hb))
  · exact hs.imp_of_mem (fun {a b} ha hb _ => h.types a (hmem a ha) b (hmem b hb) (hkk a ha b hb))

/-- the cells of row `k` (one slice, one period), in triangle order, form a complete chain: the
first starts the day before the period starts, every later one links to the evaluation date
before it -/
def RowChain (u : List Cell) (k : RowKey) : Prop :=
  match u.filter (fun c => rowKey c == k) with
  | [] => True
  | x0 :: rest => x0.prev = some k.1.1.pred ∧ ChainFrom x0.ev rest

/-- an incremental triangle in canonical form whose rows keep one key set and one value type per
field (no `None`) -/
structure Consistent (u : List Cell) : Prop where
  sorted : u.Pairwise (fun a b => Cell.cmp a b = .lt)
  isInc : ∀ c ∈ u, c.kind = .incremental
  dates : ∀ c ∈ u, c.datesOk = true
  psValid : ∀ c ∈ u, c.ps.valid = true
  keys : ∀ a ∈ u, ∀ b ∈ u, rowKey a = rowKey b → sameKeys a.values b.values = true
  types : ∀ a ∈ u, ∀ b ∈ u, rowKey a = rowKey b → DictCompat a.values b.values

/-- a complete incremental triangle: consistent, and every row is a complete chain -/
def Complete (u : List Cell) : Prop := Consistent u ∧ ∀ k, RowChain u k

theorem Consistent.row {u : List Cell} (h : Consistent u) {k : RowKey} {r : List Cell}
    (hr : r = u.filter (fun c => rowKey c == k)) : IncRow k r := by
  have hsub : r.Sublist u := by rw [hr]; exact List.filter_sublist
  have hmem : ∀ c ∈ r, c ∈ u := fun c hc => hsub.subset hc
  have hkey : ∀ c ∈ r, rowKey c = k := by
    intro c hc; rw [hr] at hc; simpa using (List.mem_filter.mp hc).2
  have hkk : ∀ a ∈ r, ∀ b ∈ r, rowKey a = rowKey b := fun a ha b hb => (hkey a ha).trans (hkey b hb).symm
  have hs := h.sorted.sublist hsub
  exact ⟨hkey, fun c hc => h.dates c (hmem c hc), fun c hc => h.isInc c (hmem c hc),
    hs.imp_of_mem (fun {a b} ha hb _ => h.keys a (hmem a ha) b (hmem b hb) (hkk a ha b hb)),
    hs.imp_of_mem (fun {a b} ha hb _ => h.types a (hmem a ha) b (hmem b hb) (hkk a ha b hb))⟩

/-- a cumulative triangle in canonical form in which, apart from the key sets, consecutive cells of
every row are compatible -/
structure WFcumUpToKeys (t : List Cell) : Prop where
  sorted : t.Pairwise (fun a b => Cell.cmp a b = .lt)
  notInc : ∀ c ∈ t, c.kind ≠ .incremental
  dates : ∀ c ∈ t, c.datesOk = true
  psValid : ∀ c ∈ t, c.ps.valid = true
  adj : ∀ k, AdjOK (t.filter (fun c => rowKey c == k))

/-- an incremental triangle in canonical form in which, apart from the key sets, consecutive cells
of every row are compatible -/
structure WFincUpToKeys (u : List Cell) : Prop where
  sorted : u.Pairwise (fun a b => Cell.cmp a b = .lt)
  isInc : ∀ c ∈ u, c.kind = .incremental
  dates : ∀ c ∈ u, c.datesOk = true
  adj : ∀ k, AdjOK (u.filter (fun c => rowKey c == k))


/-! ## the rows of `to_incremental`'s result -/

/-- **per-row shape of `to_incremental`**, stated through the row function `incRow` of the model
(`toInc_row_spec` in `Properties/C04.lean` restates it with the independent predicate `Spec.toIncRowSpec`).
For a valid cumulative triangle the conversion succeeds, the result is sorted and incremental, and
for every slice and period the cells of the result under that slice and period are exactly the
increments `incRow` computes from the row: one per evaluation date (`ds.map ev = r.map ev`), the
first with `prev = period_start − 1 day` and a copy of the values, every later one with
`prev =` the preceding evaluation date and `values = _values_diff(previous, this)` (definition of
`incRow`/`incPairs`). -/
theorem toInc_rows {t : List Cell} (h : WFcum t) :
    ∃ u, Triangle.toIncremental t = .ok u ∧ u.Pairwise (fun a b => Cell.le a b) ∧
      (∀ c ∈ u, c.kind = .incremental) ∧ u.length = t.length ∧
      ∀ k r, r ≠ [] → r = t.filter (fun c => rowKey c == k) →
        ∃ ds, incRow k r = .ok ds ∧ u.filter (fun c => rowKey c == k) = ds ∧
          ds.map (·.ev) = r.map (·.ev) := by
  have hrow : ∀ k r, r ≠ [] → r = t.filter (fun c => rowKey c == k) →
      ∃ d, incRow k r = .ok d ∧ (∀ c ∈ d, rowKey c = k) ∧ StrictSorted d ∧
        (∀ c ∈ d, c.kind = .incremental) ∧ d.map (·.ev) = r.map (·.ev) := by
    intro k r hne hr
    have R := h.row hr
    cases r with
    | nil => exact absurd rfl hne
    | cons c0 rest =>
      have hc0t : c0 ∈ t := by
        have : c0 ∈ t.filter (fun c => rowKey c == k) := by rw [← hr]; simp
        exact (List.mem_filter.mp this).1
      have hv : k.1.1.valid = true := by
        have := h.psValid c0 hc0t
        rw [← R.key c0 (by simp)]; exact this
      obtain ⟨ds, h1, _, h3, h4⟩ := incRow_cumRow R hv
      refine ⟨ds, h1, fun c hc => (h4 c hc).2.1, ?_, fun c hc => (h4 c hc).1, h3⟩
      apply strict_of_evs (fun c hc => (h4 c hc).2.1)
      rw [h3, List.pairwise_map]; exact R.evs
  obtain ⟨D, hD, hblocks⟩ := overRows_blocks (f := incRow) h.sorted
    (fun k r hne hr => by
      obtain ⟨d, h1, h2, h3, _⟩ := hrow k r hne hr
      exact ⟨d, h1, h2, h3⟩)
  have hDinc : ∀ c ∈ D, c.kind = .incremental := by
      intro c hc
      -- every cell of D comes out of some row
      unfold overRows at hD
      cases hm : (orderedRows t).mapM (fun p => incRow p.1 p.2) with
      | error e => rw [hm] at hD; cases hD
      | ok rows =>
        rw [hm] at hD
        simp only [Except.map] at hD
        cases hD
        obtain ⟨d, hd, hcd⟩ := List.mem_flatten.mp hc
        -- use the row facts through membership in the mapM result
        have key : ∀ (l : List (RowKey × List Cell)) (rows : List (List Cell)),
            l.mapM (fun p => incRow p.1 p.2) = .ok rows → ∀ d ∈ rows, ∃ p ∈ l, incRow p.1 p.2 = .ok d := by
          intro l
          induction l with
          | nil => intro rows hr d hd; simp [List.mapM_nil, pure, Except.pure] at hr; subst hr; cases hd
          | cons a l ih =>
            intro rows hr d hd
            rw [List.mapM_cons] at hr
            cases ha : incRow a.1 a.2 with
            | error e => rw [ha] at hr; cases hr
            | ok da =>
              cases hl : l.mapM (fun p => incRow p.1 p.2) with
              | error e => rw [ha, hl] at hr; cases hr
              | ok dl =>
                rw [ha, hl] at hr
                simp only [bind, Except.bind, pure, Except.pure] at hr
                cases hr
                rcases List.mem_cons.mp hd with rfl | hd
                · exact ⟨a, by simp, ha⟩
                · obtain ⟨p, hp, hpd⟩ := ih dl hl d hd
                  exact ⟨p, List.mem_cons_of_mem _ hp, hpd⟩
        obtain ⟨p, hp, hpd⟩ := key _ _ hm d hd
        have G := groupBy_inv rowKey t
        rw [orderedRows_of_strict h.sorted] at hp
        have hcont := G.content p hp
        have hne : p.2 ≠ [] := by
          obtain ⟨a, ha, hak⟩ := G.inhabited p hp
          intro e
          have : a ∈ p.2 := by rw [hcont]; exact List.mem_filter.mpr ⟨ha, by simp [hak]⟩
          rw [e] at this; cases this
        obtain ⟨d', h1, _, _, h4, _⟩ := hrow p.1 p.2 hne hcont
        rw [hpd] at h1; cases h1
        exact h4 c hcd
  obtain ⟨u, hu⟩ : ∃ u, u = D.mergeSort Cell.le := ⟨_, rfl⟩
  have hu1 : Triangle.toIncremental t = .ok u := by
    simp only [Triangle.toIncremental, not_isIncremental_of_all h.notInc, Bool.false_eq_true,
      if_false, hD, Except.bind]
    rw [hu]; exact ofCells_of_all_kind .incremental hDinc
  have hperm : u.Perm D := by rw [hu]; exact List.mergeSort_perm _ _
  refine ⟨u, hu1, by rw [hu]; exact sorted_mergeSort (cmp := Cell.cmp) D,
    fun c hc => hDinc c (hperm.mem_iff.mp hc), ?_, ?_⟩
  · -- u ~ D and D is a concatenation of rows with the lengths of the rows of t
    have G := groupBy_inv rowKey t
    have hrows := orderedRows_of_strict h.sorted
    have hDeq : ∃ rows, (orderedRows t).mapM (fun p => incRow p.1 p.2) = .ok rows ∧ D = rows.flatten := by
      unfold overRows at hD
      cases hm : (orderedRows t).mapM (fun p => incRow p.1 p.2) with
      | error e => rw [hm] at hD; cases hD
      | ok rows => rw [hm] at hD; simp only [Except.map] at hD; cases hD; exact ⟨rows, rfl, rfl⟩
    obtain ⟨rows, hm, hDr⟩ := hDeq
    have lenkey : ∀ (l : List (RowKey × List Cell)) (rows : List (List Cell)),
        (∀ p ∈ l, ∀ d, incRow p.1 p.2 = .ok d → d.length = p.2.length) →
        l.mapM (fun p => incRow p.1 p.2) = .ok rows → rows.flatten.length = (l.flatMap (·.2)).length := by
      intro l
      induction l with
      | nil => intro rows _ hr; simp [List.mapM_nil, pure, Except.pure] at hr; subst hr; rfl
      | cons a l ih =>
        intro rows hlen hr
        rw [List.mapM_cons] at hr
        cases ha : incRow a.1 a.2 with
        | error e => rw [ha] at hr; cases hr
        | ok da =>
          cases hl : l.mapM (fun p => incRow p.1 p.2) with
          | error e => rw [ha, hl] at hr; cases hr
          | ok dl =>
            rw [ha, hl] at hr
            simp only [bind, Except.bind, pure, Except.pure] at hr
            cases hr
            simp only [List.flatten_cons, List.length_append, List.flatMap_cons]
            rw [hlen a (by simp) da ha, ih dl (fun p hp => hlen p (List.mem_cons_of_mem _ hp)) hl]
    have := lenkey _ rows (by
      intro p hp d hpd
      rw [hrows] at hp
      have hcont := G.content p hp
      have hne : p.2 ≠ [] := by
        obtain ⟨a, ha, hak⟩ := G.inhabited p hp
        intro e
        have : a ∈ p.2 := by rw [hcont]; exact List.mem_filter.mpr ⟨ha, by simp [hak]⟩
        rw [e] at this; cases this
      obtain ⟨d', h1, _, _, _, h5⟩ := hrow p.1 p.2 hne hcont
      rw [hpd] at h1; cases h1
      have := congrArg List.length h5
      simpa using this) hm
    rw [hperm.length_eq, hDr, this, hrows, G.perm.length_eq]
  · intro k r hne hr
    obtain ⟨d, h1, h2⟩ := hblocks k r hne hr
    obtain ⟨d', h1', _, _, _, h5⟩ := hrow k r hne hr
    rw [h1] at h1'; cases h1'
    exact ⟨d, h1, by rw [hu]; exact h2, h5⟩




/-! ## decidable forms used by the non-vacuity examples -/

/-- decidable form of `DictCompat` -/
def dictCompatB (a b : Dict Val) : Bool :=
  b.all fun kv => kv.1 == staticField ||
    ((a.getD' kv.1).ty?.isSome && (a.getD' kv.1).ty? == kv.2.ty?)

theorem dictCompat_of_B {a b : Dict Val} (h : dictCompatB a b = true) : DictCompat a b := by
  intro kv hkv hns
  have := List.all_eq_true.mp h kv hkv
  simp only [Bool.or_eq_true, beq_iff_eq, Bool.and_eq_true] at this
  rcases this with e | ⟨h1, h2⟩
  · exact absurd e hns
  · obtain ⟨τ, hτ⟩ := Option.isSome_iff_exists.mp h1
    exact ⟨τ, hτ, by rw [← h2, hτ]⟩

def chainFromB : Date → List Cell → Bool
  | _, [] => true
  | d, c :: rest => c.prev == some d && chainFromB c.ev rest

theorem chainFrom_of_B : ∀ {d : Date} {l : List Cell}, chainFromB d l = true → ChainFrom d l
  | _, [], _ => trivial
  | d, c :: rest, h => by
    simp only [chainFromB, Bool.and_eq_true, beq_iff_eq] at h
    exact ⟨h.1, chainFrom_of_B h.2⟩

def rowChainB (u : List Cell) (k : RowKey) : Bool :=
  match u.filter (fun c => rowKey c == k) with
  | [] => true
  | x0 :: rest => x0.prev == some k.1.1.pred && chainFromB x0.ev rest

theorem rowChain_of_B {u : List Cell} (h : ∀ c ∈ u, rowChainB u (rowKey c) = true) (k : RowKey) :
    RowChain u k := by
  unfold RowChain
  cases hf : u.filter (fun c => rowKey c == k) with
  | nil => trivial
  | cons x0 rest =>
    have hx : x0 ∈ u.filter (fun c => rowKey c == k) := by rw [hf]; simp
    obtain ⟨hxu, hxk⟩ := List.mem_filter.mp hx
    have hxk : rowKey x0 = k := by simpa using hxk
    have := h x0 hxu
    rw [hxk] at this
    unfold rowChainB at this
    rw [hf] at this
    simp only [Bool.and_eq_true, beq_iff_eq] at this
    exact ⟨this.1, chainFrom_of_B this.2⟩

theorem chainFromB_of : ∀ {d : Date} {l : List Cell}, ChainFrom d l → chainFromB d l = true
  | _, [], _ => rfl
  | d, c :: rest, h => by
    simp only [chainFromB, Bool.and_eq_true, beq_iff_eq]
    exact ⟨h.1, chainFromB_of h.2⟩

theorem not_rowChain_of_B {u : List Cell} {k : RowKey} (h : rowChainB u k = false) : ¬ RowChain u k := by
  intro hc
  unfold RowChain at hc
  unfold rowChainB at h
  cases hf : u.filter (fun c => rowKey c == k) with
  | nil => rw [hf] at h; cases h
  | cons x0 rest =>
    rw [hf] at h hc
    have : (x0.prev == some k.1.1.pred && chainFromB x0.ev rest) = true := by
      simp only [Bool.and_eq_true, beq_iff_eq]
      exact ⟨hc.1, chainFromB_of hc.2⟩
    simp only at h
    rw [this] at h; cases h


/-! ### deciders for the hypotheses of the key-mismatch refusals (audit follow-up) -/

def adjOKB : List Cell → Bool
  | a :: b :: rest => (!(sameKeys a.values b.values) || dictCompatB a.values b.values) && adjOKB (b :: rest)
  | _ => true

theorem adjOK_of_B : ∀ {l : List Cell}, adjOKB l = true → AdjOK l
  | [], _ => trivial
  | [_], _ => trivial
  | a :: b :: rest, h => by
    simp only [adjOKB, Bool.and_eq_true, Bool.or_eq_true, Bool.not_eq_true'] at h
    refine ⟨?_, adjOK_of_B h.2⟩
    rcases h.1 with e | e
    · exact Or.inl e
    · exact Or.inr (dictCompat_of_B e)

/-- it suffices to check the rows that occur -/
theorem adjOK_rows_of_B {t : List Cell}
    (h : ∀ c ∈ t, adjOKB (t.filter (fun x => rowKey x == rowKey c)) = true) (k : RowKey) :
    AdjOK (t.filter (fun c => rowKey c == k)) := by
  cases hf : t.filter (fun c => rowKey c == k) with
  | nil => trivial
  | cons x0 rest =>
    have hx : x0 ∈ t.filter (fun c => rowKey c == k) := by rw [hf]; simp
    obtain ⟨hxu, hxk⟩ := List.mem_filter.mp hx
    have hxk : rowKey x0 = k := by simpa using hxk
    have := h x0 hxu
    rw [hxk, hf] at this
    exact adjOK_of_B this

def hasMismatchB : List Cell → Bool
  | a :: b :: rest => !(sameKeys a.values b.values) || hasMismatchB (b :: rest)
  | _ => false

theorem hasMismatch_of_B : ∀ {l : List Cell}, hasMismatchB l = true → HasMismatch l
  | [], h => by simp [hasMismatchB] at h
  | [_], h => by simp [hasMismatchB] at h
  | a :: b :: rest, h => by
    simp only [hasMismatchB, Bool.or_eq_true, Bool.not_eq_true'] at h
    rcases h with e | e
    · exact Or.inl e
    · exact Or.inr (hasMismatch_of_B e)


end Bermuda.Properties.C04
