/-
Helper lemmas for C16 (blending): weighted sums, `mapE`, the coordinate index, the cell loop.
-/
import Bermuda.Model.Blend
import Bermuda.Lemmas.Sort
import Mathlib.Tactic.Linarith
import Mathlib.Tactic.Ring
namespace Bermuda.Blend

/-! ### weighted sums -/

theorem dot_le_of_le (w xs : List Rat) (hi : Rat) (hw : ∀ x ∈ w, 0 ≤ x) (hx : ∀ x ∈ xs, x ≤ hi)
    (hl : w.length = xs.length) : dot w xs ≤ hi * sumW w := by
  induction w generalizing xs with
  | nil => simp [dot, sumW]
  | cons a w ih =>
    cases xs with
    | nil => simp at hl
    | cons x xs =>
      simp only [dot, sumW, List.foldr_cons]
      have h1 := ih xs (fun y hy => hw y (by simp [hy])) (fun y hy => hx y (by simp [hy])) (by simpa using hl)
      have ha : 0 ≤ a := hw a (by simp)
      have hxa : x ≤ hi := hx x (by simp)
      have : a * x ≤ a * hi := by nlinarith
      unfold sumW at h1
      nlinarith

theorem le_dot_of_le (w xs : List Rat) (lo : Rat) (hw : ∀ x ∈ w, 0 ≤ x) (hx : ∀ x ∈ xs, lo ≤ x)
    (hl : w.length = xs.length) : lo * sumW w ≤ dot w xs := by
  induction w generalizing xs with
  | nil => simp [dot, sumW]
  | cons a w ih =>
    cases xs with
    | nil => simp at hl
    | cons x xs =>
      simp only [dot, sumW, List.foldr_cons]
      have h1 := ih xs (fun y hy => hw y (by simp [hy])) (fun y hy => hx y (by simp [hy])) (by simpa using hl)
      have ha : 0 ≤ a := hw a (by simp)
      have hxa : lo ≤ x := hx x (by simp)
      have : a * lo ≤ a * x := by nlinarith
      unfold sumW at h1
      nlinarith

theorem dot_const (w xs : List Rat) (v : Rat) (hx : ∀ x ∈ xs, x = v) (hl : w.length = xs.length) :
    dot w xs = v * sumW w := by
  induction w generalizing xs with
  | nil => simp [dot, sumW]
  | cons a w ih =>
    cases xs with
    | nil => simp at hl
    | cons x xs =>
      simp only [dot, sumW, List.foldr_cons]
      have h1 := ih xs (fun y hy => hx y (by simp [hy])) (by simpa using hl)
      have : x = v := hx x (by simp)
      unfold sumW at h1
      rw [h1, this]; ring

/-! ### `mapE` -/

theorem mapE_ok_length {α β} {f : α → Except Err β} {l : List α} {r : List β}
    (h : mapE f l = .ok r) : r.length = l.length := by
  induction l generalizing r with
  | nil => simp [mapE] at h; subst h; rfl
  | cons a as ih =>
    simp only [mapE] at h
    split at h
    · cases h
    · split at h
      · cases h
      · rename_i bs hbs
        cases h
        simp [ih hbs]

theorem mapE_ok_getElem {α β} {f : α → Except Err β} {l : List α} {r : List β}
    (h : mapE f l = .ok r) (i : Nat) (hi : i < l.length) :
    f l[i] = .ok (r[i]'(by rw [mapE_ok_length h]; exact hi)) := by
  induction l generalizing r i with
  | nil => simp at hi
  | cons a as ih =>
    simp only [mapE] at h
    split at h
    · cases h
    · rename_i b hb
      split at h
      · cases h
      · rename_i bs hbs
        cases h
        cases i with
        | zero => simpa using hb
        | succ i => simpa using ih hbs i (by simpa using hi)

theorem mapE_error_of_mem {α β} {f : α → Except Err β} {l : List α} {e : Err}
    (hall : ∀ a ∈ l, ∀ b, f a = .ok b ∨ f a = .error e → True)
    (hex : ∃ a ∈ l, f a = .error e) (hothers : ∀ a ∈ l, ∀ e', f a = .error e' → e' = e) :
    mapE f l = .error e := by
  induction l with
  | nil => simp at hex
  | cons a as ih =>
    simp only [mapE]
    split
    · rename_i e' he'
      rw [hothers a (by simp) e' he']
    · rename_i b hb
      have hex' : ∃ a ∈ as, f a = .error e := by
        obtain ⟨x, hx, hfx⟩ := hex
        rcases List.mem_cons.mp hx with rfl | hx
        · rw [hb] at hfx; cases hfx
        · exact ⟨x, hx, hfx⟩
      rw [ih (fun a ha b _ => trivial) hex' (fun a ha => hothers a (by simp [ha]))]

end Bermuda.Blend
