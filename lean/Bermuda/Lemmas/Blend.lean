/-
Helper lemmas for C16 (blending): weighted sums, `mapE`, the coordinate index, the cell loop.
-/
import Bermuda.Model.Blend
import Bermuda.Lemmas.Sort
import Mathlib.Tactic.Linarith
import Mathlib.Tactic.Ring
namespace Bermuda.Blend

/-! ### weighted sums -/

theorem dot_le_of_le (w xs : List Rat) (hi : Rat) (hw : ∀ x ∈ w, 0 ≤ x) (hx : ∀ x ∈ xs, x ≤ hi)
    (hl : w.length = xs.length) : dot w xs ≤ hi * sumW w := by
  induction w generalizing xs with
  | nil => simp [dot, sumW]
  | cons a w ih =>
    cases xs with
    | nil => simp at hl
    | cons x xs =>
      simp only [dot, sumW, List.foldr_cons]
      have h1 := ih xs (fun y hy => hw y (by simp [hy])) (fun y hy => hx y (by simp [hy])) (by simpa using hl)
      have ha : 0 ≤ a := hw a (by simp)
      have hxa : x ≤ hi := hx x (by simp)
      have : a * x ≤ a * hi := by nlinarith
      unfold sumW at h1
      nlinarith

theorem le_dot_of_le (w xs : List Rat) (lo : Rat) (hw : ∀ x ∈ w, 0 ≤ x) (hx : ∀ x ∈ xs, lo ≤ x)
    (hl : w.length = xs.length) : lo * sumW w ≤ dot w xs := by
  induction w generalizing xs with
  | nil => simp [dot, sumW]
  | cons a w ih =>
    cases xs with
    | nil => simp at hl
    | cons x xs =>
      simp only [dot, sumW, List.foldr_cons]
      have h1 := ih xs (fun y hy => hw y (by simp [hy])) (fun y hy => hx y (by simp [hy])) (by simpa using hl)
      have ha : 0 ≤ a := hw a (by simp)
      have hxa : lo ≤ x := hx x (by simp)
      have : a * lo ≤ a * x := by nlinarith
      unfold sumW at h1
      nlinarith

theorem dot_const (w xs : List Rat) (v : Rat) (hx : ∀ x ∈ xs, x = v) (hl : w.length = xs.length) :
    dot w xs = v * sumW w := by
  induction w generalizing xs with
  | nil => simp [dot, sumW]
  | cons a w ih =>
    cases xs with
    | nil => simp at hl
    | cons x xs =>
      simp only [dot, sumW, List.foldr_cons]
      have h1 := ih xs (fun y hy => hx y (by simp [hy])) (by simpa using hl)
      have : x = v := hx x (by simp)
      unfold sumW at h1
      rw [h1, this]; ring

/-! ### `mapE` -/

theorem mapE_ok_length {α β} {f : α → Except Err β} {l : List α} {r : List β}
    (h : mapE f l = .ok r) : r.length = l.length := by
  induction l generalizing r with
  | nil => simp [mapE] at h; subst h; rfl
  | cons a as ih =>
    simp only [mapE] at h
    split at h
    · cases h
    · split at h
      · cases h
      · rename_i bs hbs
        cases h
        simp [ih hbs]

theorem mapE_ok_getElem {α β} {f : α → Except Err β} {l : List α} {r : List β}
    (h : mapE f l = .ok r) (i : Nat) (hi : i < l.length) :
    f l[i] = .ok (r[i]'(by rw [mapE_ok_length h]; exact hi)) := by
  induction l generalizing r i with
  | nil => simp at hi
  | cons a as ih =>
    simp only [mapE] at h
    split at h
    · cases h
    · rename_i b hb
      split at h
      · cases h
      · rename_i bs hbs
        cases h
        cases i with
        | zero => simpa using hb
        | succ i => simpa using ih hbs i (by simpa using hi)

theorem mapE_error_of_mem {α β} {f : α → Except Err β} {l : List α} {e : Err}
    (hall : ∀ a ∈ l, ∀ b, f a = .ok b ∨ f a = .error e → True)
    (hex : ∃ a ∈ l, f a = .error e) (hothers : ∀ a ∈ l, ∀ e', f a = .error e' → e' = e) :
    mapE f l = .error e := by
  induction l with
  | nil => simp at hex
  | cons a as ih =>
    simp only [mapE]
    split
    · rename_i e' he'
      rw [hothers a (by simp) e' he']
    · rename_i b hb
      have hex' : ∃ a ∈ as, f a = .error e := by
        obtain ⟨x, hx, hfx⟩ := hex
        rcases List.mem_cons.mp hx with rfl | hx
        · rw [hb] at hfx; cases hfx
        · exact ⟨x, hx, hfx⟩
      rw [ih (fun a ha b _ => trivial) hex' (fun a ha => hothers a (by simp [ha]))]

/-! ### weights, fields, the cell loop -/


theorem weightList_length {w : Weights} {n : Nat} {wl} (h : weightList w n = .ok wl) : wl.length = n := by
  unfold weightList at h
  split at h
  · cases h; simp
  · cases h; simp
  · cases h
  · dsimp only at h
    split at h
    · cases h
    · split at h
      · split at h
        · cases h
        · split at h
          · cases h; simp
          · rename_i h1 h2
            cases h
            simp only [List.length_map, List.length_range]
            simp only [bne_iff_ne, ne_eq, Bool.and_eq_true, not_and, beq_iff_eq] at h1 h2
            by_contra hne
            exact h1 h2 hne
      · cases h

theorem blendFields_keys {cells w m idx fs vs} (h : blendFields cells w m idx fs = .ok vs) :
    vs.map (·.1) = fs := by
  induction fs generalizing vs with
  | nil => simp [blendFields] at h; subst h; rfl
  | cons f fs ih =>
    simp only [blendFields] at h
    split at h
    · cases h
    · split at h
      · cases h
      · rename_i rest hrest
        cases h
        simp [ih hrest]

theorem blendCells_ok {cs w m idx c} (h : blendCells cs w m idx = .ok c) :
    ∃ c0 rest, cs = c0 :: rest ∧ c.coord = c0.coord ∧ c.kind = c0.kind ∧ c.values.keys = c0.values.keys := by
  unfold blendCells at h
  split at h
  · cases h
  · rename_i c0 rest
    split at h
    · split at h
      · cases h
      · rename_i vs hvs
        cases h
        exact ⟨c0, rest, rfl, rfl, rfl, blendFields_keys hvs⟩
    · cases h

theorem gatherCells_head {d ds k cs} (h : gatherCells (d :: ds) k = .ok cs) :
    ∃ c rest, cs = c :: rest ∧ lookup d k = some c := by
  simp only [gatherCells] at h
  split at h
  · cases h
  · rename_i c hc
    split at h
    · cases h
    · rename_i cs' _
      cases h
      exact ⟨c, cs', rfl, hc⟩

theorem blendLoop_structure {d0 ds m idx} :
    ∀ {i ks wl out}, blendLoop (d0 :: ds) m idx i ks wl = .ok out → ks.length ≤ wl.length →
    (∀ p ∈ ks, lookup d0 p.1 = some p.2) →
    List.Forall₂ (fun (p : Coord × Cell) o => o.coord = p.2.coord ∧ o.kind = p.2.kind ∧
      o.values.keys = p.2.values.keys) ks out := by
  intro i ks
  induction ks generalizing i with
  | nil => intro wl out h _ _; simp [blendLoop] at h; subst h; exact .nil
  | cons p ks ih =>
    intro wl out h hlen hlook
    cases wl with
    | nil => simp at hlen
    | cons w ws =>
      obtain ⟨k, pc⟩ := p
      simp only [blendLoop] at h
      split at h
      · cases h
      · rename_i cs hcs
        split at h
        · cases h
        · rename_i c hc
          split at h
          · cases h
          · rename_i r hr
            cases h
            obtain ⟨c1, rest1, hcs1, hl1⟩ := gatherCells_head hcs
            obtain ⟨c0, rest0, hcs0, h1, h2, h3⟩ := blendCells_ok hc
            have : c0 = pc := by
              have := hlook (k, pc) (by simp)
              simp only at this
              rw [this] at hl1
              cases hl1
              rw [hcs1] at hcs0
              cases hcs0; rfl
            subst this
            exact .cons ⟨h1, h2, h3⟩ (ih hr (by simpa using hlen) (fun p hp => hlook p (by simp [hp])))

/-! ### the coordinate index -/


def pairOf (c : Cell) : Coord × Cell := (c.coord, c)

theorem indexSet_fresh (d : List (Coord × Cell)) (c : Cell) (h : ∀ p ∈ d, p.1 ≠ c.coord) :
    indexSet d c = d ++ [pairOf c] := by
  unfold indexSet
  have : d.any (·.1 == c.coord) = false := by
    rw [List.any_eq_false]; intro p hp; simpa using h p hp
  simp [this, pairOf]

theorem foldl_indexSet (t : List Cell) : ∀ (acc : List (Coord × Cell)),
    (t.map Cell.coord).Nodup → (∀ p ∈ acc, ∀ c ∈ t, p.1 ≠ c.coord) →
    t.foldl indexSet acc = acc ++ t.map pairOf := by
  induction t with
  | nil => intro acc _ _; simp
  | cons c t ih =>
    intro acc hnd hdis
    rw [List.map_cons, List.nodup_cons] at hnd
    rw [List.foldl_cons, indexSet_fresh acc c (fun p hp => hdis p hp c (by simp))]
    rw [ih _ hnd.2]
    · simp
    · intro p hp c' hc'
      rcases List.mem_append.mp hp with hp | hp
      · exact hdis p hp c' (by simp [hc'])
      · simp only [List.mem_singleton] at hp
        subst hp
        intro heq
        exact hnd.1 (by rw [show (pairOf c).1 = c.coord from rfl] at heq; rw [heq]; exact List.mem_map_of_mem hc')

theorem indexTriangle_nodup {t : List Cell} (h : (t.map Cell.coord).Nodup) :
    indexTriangle t = t.map pairOf := by
  unfold indexTriangle
  rw [foldl_indexSet t [] h (by simp)]; simp

theorem lookup_pairs {t : List Cell} (h : (t.map Cell.coord).Nodup) {c : Cell} (hc : c ∈ t) :
    lookup (t.map pairOf) c.coord = some c := by
  induction t with
  | nil => simp at hc
  | cons a t ih =>
    rw [List.map_cons, List.nodup_cons] at h
    unfold lookup
    rw [List.map_cons, List.find?_cons]
    by_cases hac : a.coord = c.coord
    · have : a = c := by
        rcases List.mem_cons.mp hc with rfl | hc
        · rfl
        · exact absurd (hac ▸ List.mem_map_of_mem hc) h.1
      subst this
      simp [pairOf]
    · have hc' : c ∈ t := by
        rcases List.mem_cons.mp hc with rfl | hc
        · exact absurd rfl hac
        · exact hc
      have := ih h.2 hc'
      unfold lookup at this
      have hb : ((pairOf a).1 == c.coord) = false := by simpa [pairOf] using hac
      rw [hb]
      exact this

theorem cmp_of_coord {a b a' b' : Cell} (ha : a'.coord = a.coord) (hb : b'.coord = b.coord) :
    Cell.cmp a' b' = Cell.cmp a b := by
  simp only [Cell.coord, Coord.mk.injEq] at ha hb
  obtain ⟨h1, h2, h3, h4, h5⟩ := ha
  obtain ⟨g1, g2, g3, g4, g5⟩ := hb
  simp only [Cell.cmp, compareLex, cmpOn, h1, h2, h3, h4, h5, g1, g2, g3, g4, g5]

theorem pairwise_le_of_coords {t out : List Cell}
    (h : List.Forall₂ (fun c o => o.coord = c.coord) t out)
    (hs : t.Pairwise (fun a b => Cell.le a b)) : out.Pairwise (fun a b => Cell.le a b) := by
  induction h with
  | nil => exact .nil
  | cons hco _ ih =>
    rename_i c o t' out' hrest
    rw [List.pairwise_cons] at hs ⊢
    refine ⟨?_, ih hs.2⟩
    intro o' ho'
    obtain ⟨c', hc', hcc⟩ : ∃ c' ∈ t', o'.coord = c'.coord := by
      clear ih hs
      induction hrest with
      | nil => simp at ho'
      | cons hh _ ih2 =>
        rcases List.mem_cons.mp ho' with rfl | ho'
        · exact ⟨_, by simp, hh⟩
        · obtain ⟨c', hc', hcc⟩ := ih2 ho'
          exact ⟨c', by simp [hc'], hcc⟩
    have := hs.1 c' hc'
    unfold Cell.le at this ⊢
    rw [cmp_of_coord hco hcc]; exact this


/-! ### `blendPrep` -/

theorem forall₂_of_map_left {α β γ} {R : β → γ → Prop} {f : α → β} :
    ∀ {l : List α} {l' : List γ}, List.Forall₂ R (l.map f) l' → List.Forall₂ (fun a b => R (f a) b) l l'
  | [], _, h => by cases h; exact .nil
  | a :: l, _, h => by
    cases h with
    | cons h1 h2 => exact .cons h1 (forall₂_of_map_left h2)

theorem forall₂_imp' {α β} {R S : α → β → Prop} (hRS : ∀ a b, R a b → S a b) :
    ∀ {l : List α} {l' : List β}, List.Forall₂ R l l' → List.Forall₂ S l l'
  | _, _, .nil => .nil
  | _, _, .cons h1 h2 => .cons (hRS _ _ h1) (forall₂_imp' hRS h2)

theorem blendPrep_ok {t0 : List Cell} {rest w method m t wl}
    (h : blendPrep (t0 :: rest) w method = .ok (m, t, wl)) : t = t0 ∧ wl.length = t0.length := by
  unfold blendPrep at h
  split at h
  · cases h
  · split at h
    · cases h
    · simp only at h
      split at h
      · cases h
      · split at h
        · cases h
        · split at h
          · cases h
          · split at h
            · cases h
            · rename_i wl' hwl
              cases h
              exact ⟨rfl, weightList_length hwl⟩

theorem gatherCells_missing {idxs : List (List (Coord × Cell))} {k : Coord}
    (h : ∃ d ∈ idxs, lookup d k = none) : gatherCells idxs k = .error .valueError := by
  induction idxs with
  | nil => simp at h
  | cons d ds ih =>
    simp only [gatherCells]
    split
    · rfl
    · rename_i c hc
      have : ∃ d ∈ ds, lookup d k = none := by
        obtain ⟨d', hd', hl⟩ := h
        rcases List.mem_cons.mp hd' with rfl | hd'
        · rw [hc] at hl; cases hl
        · exact ⟨d', hd', hl⟩
      rw [ih this]

/-! ### the loop, by position -/


theorem gatherCells_spec {k : Coord} : ∀ {idxs : List (List (Coord × Cell))} {cs : List Cell},
    gatherCells idxs k = .ok cs → List.Forall₂ (fun d c => lookup d k = some c) idxs cs := by
  intro idxs
  induction idxs with
  | nil => intro cs h; simp [gatherCells] at h; subst h; exact .nil
  | cons d ds ih =>
    intro cs h
    simp only [gatherCells] at h
    split at h
    · cases h
    · rename_i c hc
      split at h
      · cases h
      · rename_i cs' hcs'
        cases h
        exact .cons hc (ih hcs')

theorem blendFields_mem {cells w m idx} : ∀ {fs vs}, blendFields cells w m idx fs = .ok vs →
    ∀ f v, (f, v) ∈ vs → blendField m (fieldVals cells f) w (idx f) = .ok v := by
  intro fs
  induction fs with
  | nil => intro vs h; simp [blendFields] at h; subst h; simp
  | cons f fs ih =>
    intro vs h
    simp only [blendFields] at h
    split at h
    · cases h
    · rename_i v hv
      split at h
      · cases h
      · rename_i rest hrest
        cases h
        intro f' v' hmem
        rcases List.mem_cons.mp hmem with heq | hmem
        · cases heq; exact hv
        · exact ih hrest f' v' hmem

theorem blendCells_values {cs w m idx c} (h : blendCells cs w m idx = .ok c) :
    ∀ f v, (f, v) ∈ c.values → blendField m (fieldVals cs f) w (idx f) = .ok v := by
  unfold blendCells at h
  split at h
  · cases h
  · split at h
    · split at h
      · cases h
      · rename_i vs hvs
        cases h
        exact blendFields_mem hvs
    · cases h

theorem blendLoop_indexed {idxs m idx} : ∀ {ks : List (Coord × Cell)} {i wl out},
    blendLoop idxs m idx i ks wl = .ok out → ks.length ≤ wl.length →
    ∀ n (hn : n < ks.length) (hw : n < wl.length), ∃ cs, gatherCells idxs ks[n].1 = .ok cs ∧
      ∃ ho : n < out.length, blendCells cs wl[n] m (idx (i + n)) = .ok out[n] := by
  intro ks
  induction ks with
  | nil => intro i wl out _ _ n hn; simp at hn
  | cons p ks ih =>
    intro i wl out h hlen n hn hw
    cases wl with
    | nil => simp at hlen
    | cons w ws =>
      obtain ⟨k, pc⟩ := p
      simp only [blendLoop] at h
      split at h
      · cases h
      · rename_i cs hcs
        split at h
        · cases h
        · rename_i c hc
          split at h
          · cases h
          · rename_i r hr
            cases h
            cases n with
            | zero => exact ⟨cs, hcs, by simp, by simpa using hc⟩
            | succ n =>
              obtain ⟨cs', h1, ho, h2⟩ := ih hr (by simpa using hlen) n (by simpa using hn) (by simpa using hw)
              refine ⟨cs', by simpa using h1, by simpa using ho, ?_⟩
              have : i + 1 + n = i + (n + 1) := by omega
              simpa [this] using h2

theorem forall₂_length' {α β} {R : α → β → Prop} : ∀ {l : List α} {l' : List β},
    List.Forall₂ R l l' → l'.length = l.length
  | _, _, .nil => rfl
  | _, _, .cons _ t => by simp [forall₂_length' t]

end Bermuda.Blend
