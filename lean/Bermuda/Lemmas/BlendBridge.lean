/-
C16: the derived Spec predicates `convexOk` and `agreeOk` hold on the model's linear blend, and the refusals of a
missing coordinate / unequal scalars lifted to `blend … = .error _`.
-/
import Bermuda.Lemmas.BlendSpec
namespace Bermuda.Blend
open Bermuda.Spec.C16

/-! ### minimum / maximum of a column are bounds -/

theorem foldl_min_le (l : List Rat) (init : Rat) :
    l.foldl (fun m x => if x < m then x else m) init ≤ init ∧
    ∀ x ∈ l, l.foldl (fun m x => if x < m then x else m) init ≤ x := by
  induction l generalizing init with
  | nil => simp
  | cons a l ih =>
    simp only [List.foldl_cons, List.mem_cons, forall_eq_or_imp]
    obtain ⟨h1, h2⟩ := ih (if a < init then a else init)
    by_cases hc : a < init
    · simp only [hc, if_true] at h1 h2 ⊢
      exact ⟨by linarith, h1, h2⟩
    · simp only [hc, if_false] at h1 h2 ⊢
      exact ⟨h1, by linarith, h2⟩

theorem le_foldl_max (l : List Rat) (init : Rat) :
    init ≤ l.foldl (fun m x => if m < x then x else m) init ∧
    ∀ x ∈ l, x ≤ l.foldl (fun m x => if m < x then x else m) init := by
  induction l generalizing init with
  | nil => simp
  | cons a l ih =>
    simp only [List.foldl_cons, List.mem_cons, forall_eq_or_imp]
    obtain ⟨h1, h2⟩ := ih (if init < a then a else init)
    by_cases hc : init < a
    · simp only [hc, if_true] at h1 h2 ⊢
      exact ⟨by linarith, h1, h2⟩
    · simp only [hc, if_false] at h1 h2 ⊢
      exact ⟨h1, by linarith, h2⟩

theorem minL_le {l : List Rat} {x : Rat} (hx : x ∈ l) : minL l ≤ x := (foldl_min_le l _).2 x hx
theorem le_maxL {l : List Rat} {x : Rat} (hx : x ∈ l) : x ≤ maxL l := (le_foldl_max l _).2 x hx

/-! ### one field -/

theorem map_pick_eq_bcast (rows : List (List Rat)) (s : Nat) :
    rows.map (pick · s) = rows.map (bcast · s) :=
  List.map_congr_left fun r _ => pick_eq_bcast r s

/-- **one field, convex weights**: every output sample lies between the minimum and the maximum of the inputs'
samples at that position (the body of `Spec.C16.convexOk` with tolerance 0) -/
def convexFieldB (vals : List Val) (v : Val) : Bool :=
  match vals.mapM samples, v with
  | some rows, .arr _ _ data =>
    data.zipIdx.all fun (x, s) =>
      let col := rows.map (pick · s)
      minL col - 0 * (1 + absQ (minL col)) ≤ x && x ≤ maxL col + 0 * (1 + absQ (maxL col))
  | _, _ => false

theorem convexOk_eq (ts : List (List Cell)) (out : List Cell) :
    convexOk ts out 0 = forFields ts out fun _ _ vals v => convexFieldB vals v := rfl

def agreeFieldB (vals : List Val) (v : Val) : Bool :=
  match vals.mapM samples, v with
  | some (r0 :: _), .arr _ _ data => data.zipIdx.all fun (x, s) => close 0 x (pick r0 s)
  | _, _ => false

theorem agreeOk_eq (ts : List (List Cell)) (out : List Cell) :
    agreeOk ts out 0 = forFields ts out fun _ _ vals v => agreeFieldB vals v := rfl

theorem convexField_of_blend {vals : List Val} {w : List Rat} {v : Val}
    (h : linearBlend vals w = .ok v) (hl : w.length = vals.length) (hw : ∀ x ∈ w, 0 ≤ x)
    (hsum : sumW w = 1) : convexFieldB vals v = true := by
  obtain ⟨rows, hrows, rfl, hlen, _, hget⟩ := linear_value_core h
  unfold convexFieldB
  rw [mapM_samples_of_rowOf hrows]
  simp only [List.all_eq_true, Bool.and_eq_true, decide_eq_true_eq]
  intro p hp
  obtain ⟨x, s⟩ := p
  have hx := List.mem_zipIdx hp
  simp only [Nat.zero_le, Nat.sub_zero, Nat.zero_add, true_and] at hx
  obtain ⟨hs1, hx⟩ := hx
  have hxs : x = dot w (rows.map (bcast · s)) := by rw [hx]; exact hget s hs1
  have hll : w.length = (rows.map (bcast · s)).length := by
    rw [List.length_map, mapE_ok_length hrows, hl]
  have h1 := le_dot_of_le w _ (minL (rows.map (bcast · s))) hw (fun y hy => minL_le hy) hll
  have h2 := dot_le_of_le w _ (maxL (rows.map (bcast · s))) hw (fun y hy => le_maxL hy) hll
  rw [hsum] at h1 h2
  simp only [map_pick_eq_bcast]
  rw [hxs]
  constructor <;> linarith

theorem rowOf_all_same {v0 : Val} : ∀ {vals : List Val} {rows : List (List Rat)},
    (∀ v ∈ vals, v = v0) → mapE rowOf vals = .ok rows → ∀ r ∈ rows, rowOf v0 = .ok r := by
  intro vals
  induction vals with
  | nil => intro rows _ h; simp [mapE] at h; subst h; simp
  | cons v vals ih =>
    intro rows hall h
    simp only [mapE] at h
    split at h
    · cases h
    · rename_i r hr
      split at h
      · cases h
      · rename_i rs hrs
        cases h
        intro r' hr'
        rcases List.mem_cons.mp hr' with rfl | hr'
        · rw [← hall v (by simp)]; exact hr
        · exact ih (fun v' hv' => hall v' (by simp [hv'])) hrs r' hr'

/-- **one field, agreeing inputs**: the output is the common value (body of `Spec.C16.agreeOk`, tolerance 0) -/
theorem agreeField_of_blend {vals : List Val} {w : List Rat} {v v0 : Val}
    (h : linearBlend vals w = .ok v) (hl : w.length = vals.length) (hsum : sumW w = 1)
    (hne : vals ≠ []) (hall : ∀ x ∈ vals, x = v0) : agreeFieldB vals v = true := by
  obtain ⟨rows, hrows, rfl, hlen, _, hget⟩ := linear_value_core h
  unfold agreeFieldB
  rw [mapM_samples_of_rowOf hrows]
  have hsame := rowOf_all_same hall hrows
  cases rows with
  | nil =>
    have := mapE_ok_length hrows
    cases vals with
    | nil => exact absurd rfl hne
    | cons _ _ => simp at this
  | cons r0 rs =>
    simp only [List.all_eq_true]
    intro p hp
    obtain ⟨x, s⟩ := p
    have hx := List.mem_zipIdx hp
    simp only [Nat.zero_le, Nat.sub_zero, Nat.zero_add, true_and] at hx
    obtain ⟨hs1, hx⟩ := hx
    have hr0 : rowOf v0 = .ok r0 := hsame r0 (by simp)
    have hcol : ∀ y ∈ (r0 :: rs).map (bcast · s), y = bcast r0 s := by
      intro y hy
      obtain ⟨r, hr, rfl⟩ := List.mem_map.mp hy
      have := hsame r hr
      rw [hr0] at this
      cases this; rfl
    have hll : w.length = ((r0 :: rs).map (bcast · s)).length := by
      rw [List.length_map, mapE_ok_length hrows, hl]
    have : x = bcast r0 s := by
      rw [hx, hget s hs1, dot_const w _ (bcast r0 s) hcol hll, hsum]; ring
    simp only [this, pick_eq_bcast]
    exact close_zero_self _

/-! ### all fields of all cells -/

/-- the common skeleton of the linear Spec bridges: a predicate that holds for every linear field blend with the
weights read from the argument holds for every field of every output cell -/
theorem forFields_linear_model {t0 : List Cell} {rest : List (List Cell)} {w : Weights}
    {method : String} {idx : Nat → String → List Nat} {out : List Cell}
    (h : blend (t0 :: rest) w method idx = .ok out) (hm : parseMethod method = some .linear)
    (hnd : ∀ t ∈ t0 :: rest, (t.map Cell.coord).Nodup) (hs : t0.Pairwise (fun a b => Cell.le a b))
    {p : Nat → String → List Val → Val → Bool}
    (hp : ∀ n f cs v, n < t0.length → cellsAt (t0 :: rest) (t0.getD n default).coord = some cs →
      cs.length = (t0 :: rest).length →
      linearBlend (fieldVals cs f) (specWeights w n (t0 :: rest).length) = .ok v →
      (specWeights w n (t0 :: rest).length).length = (t0 :: rest).length →
      p n f (fieldVals cs f) v = true) :
    forFields (t0 :: rest) out p = true := by
  obtain ⟨m, wl, hprep, hwl, hlen, hcomp⟩ := blend_value_composed_core h (hnd t0 (by simp)) hs
  obtain ⟨hmm, hwlist⟩ := blendPrep_method hprep
  rw [hm] at hmm; cases hmm
  have hst := (blend_structure_getElem_core h (hnd t0 (by simp)) hs).2
  apply forFields_intro
  intro n hn
  have h0 : n < t0.length := by omega
  have h2 : n < wl.length := by omega
  obtain ⟨cs, hg, hf2, hvals⟩ := hcomp n h0 hn h2
  have hcs : cellsAt (t0 :: rest) t0[n].coord = some cs := cellsAt_of_gather hf2 hnd
  refine ⟨cs, by rw [(hst n h0 hn).1]; exact hcs, ?_⟩
  intro f v hmem
  have hb := hvals f v hmem
  have hlenc : cs.length = (t0 :: rest).length := by simpa using gather_length hg
  have hlenv : (fieldVals cs f).length = (t0 :: rest).length := by simp [fieldVals, hlenc]
  have hbs : blendSamples (fieldVals cs f) wl[n] .linear (idx n f) = .ok v := by
    cases hcs' : fieldVals cs f with
    | nil => rw [hcs'] at hlenv; simp at hlenv
    | cons v0 vs => rw [hcs'] at hb; simpa [blendField] using hb
  obtain ⟨hl, hlin⟩ := blendSamples_linear hbs
  rw [hlenv] at hl hlin
  rw [weightList_spec hwlist n h2] at hl hlin
  have hget : t0.getD n default = t0[n] := by simp [List.getD_eq_getElem?_getD, h0]
  exact hp n f cs v h0 (by rw [hget]; exact hcs) hlenc hlin hl

/-- **Spec bridge (convex).** With weights (read from the argument, per cell) that are non-negative and sum to
one, `Spec.C16.convexOk … 0` is true of the model's linear blend: every sample of every field of every output cell
lies between the minimum and the maximum of the inputs' samples at that coordinate and position. -/
theorem convexOk_model {t0 : List Cell} {rest : List (List Cell)} {w : Weights}
    {method : String} {idx : Nat → String → List Nat} {out : List Cell}
    (h : blend (t0 :: rest) w method idx = .ok out) (hm : parseMethod method = some .linear)
    (hnd : ∀ t ∈ t0 :: rest, (t.map Cell.coord).Nodup) (hs : t0.Pairwise (fun a b => Cell.le a b))
    (hconv : ∀ n < t0.length, (∀ x ∈ specWeights w n (t0 :: rest).length, 0 ≤ x) ∧
      sumW (specWeights w n (t0 :: rest).length) = 1) :
    convexOk (t0 :: rest) out 0 = true := by
  rw [convexOk_eq]
  apply forFields_linear_model h hm hnd hs
  intro n f cs v hn _ hlenc hlin hl
  have hlv : (fieldVals cs f).length = (t0 :: rest).length := by simp [fieldVals, hlenc]
  exact convexField_of_blend hlin (by rw [hl, hlv]) (hconv n hn).1 (hconv n hn).2

theorem cellsAt_all_same {t0 : List Cell} {k : Coord} : ∀ {ts : List (List Cell)} {cs : List Cell},
    (∀ t ∈ ts, t = t0) → cellsAt ts k = some cs → ∀ c ∈ cs, t0.find? (·.coord == k) = some c := by
  intro ts
  induction ts with
  | nil => intro cs _ h; simp [cellsAt] at h; subst h; simp
  | cons t ts ih =>
    intro cs hall h
    unfold cellsAt at h ih
    simp only [List.mapM_cons, Option.bind_eq_bind, Option.bind_eq_some_iff] at h
    obtain ⟨c, hc, cs', hcs', hpure⟩ := h
    have hcs : cs = c :: cs' := by simpa using hpure.symm
    subst hcs
    intro c' hc'
    rcases List.mem_cons.mp hc' with rfl | hc'
    · rw [← hall t (by simp)]; exact hc
    · exact ih (fun t' ht' => hall t' (by simp [ht'])) hcs' c' hc'

/-- **Spec bridge (agreement).** If every input triangle IS the first one and the weights of every cell sum to
one, `Spec.C16.agreeOk … 0` is true of the model's linear blend: the output carries the common value. -/
theorem agreeOk_model {t0 : List Cell} {rest : List (List Cell)} {w : Weights}
    {method : String} {idx : Nat → String → List Nat} {out : List Cell}
    (h : blend (t0 :: rest) w method idx = .ok out) (hm : parseMethod method = some .linear)
    (hnd : (t0.map Cell.coord).Nodup) (hs : t0.Pairwise (fun a b => Cell.le a b))
    (hagree : ∀ t ∈ rest, t = t0)
    (hsum : ∀ n < t0.length, sumW (specWeights w n (t0 :: rest).length) = 1) :
    agreeOk (t0 :: rest) out 0 = true := by
  have hnd' : ∀ t ∈ t0 :: rest, (t.map Cell.coord).Nodup := by
    intro t ht
    rcases List.mem_cons.mp ht with rfl | ht
    · exact hnd
    · rw [hagree t ht]; exact hnd
  rw [agreeOk_eq]
  apply forFields_linear_model h hm hnd' hs
  intro n f cs v hn hcs hlenc hlin hl
  have hlv : (fieldVals cs f).length = (t0 :: rest).length := by simp [fieldVals, hlenc]
  have hall : ∀ t ∈ t0 :: rest, t = t0 := by
    intro t ht; rcases List.mem_cons.mp ht with rfl | ht
    · rfl
    · exact hagree t ht
  have hsame := cellsAt_all_same hall hcs
  have hne : fieldVals cs f ≠ [] := by
    intro he; rw [he] at hlv; simp at hlv
  obtain ⟨c0, hc0⟩ : ∃ c0, t0.find? (·.coord == (t0.getD n default).coord) = some c0 := by
    cases cs with
    | nil => simp at hlenc
    | cons c _ => exact ⟨c, hsame c (by simp)⟩
  refine agreeField_of_blend (v0 := (c0.values.get? f).getD .none) hlin (by rw [hl, hlv]) (hsum n hn) hne ?_
  intro x hx
  obtain ⟨c, hc, rfl⟩ := List.mem_map.mp hx
  have := hsame c hc
  rw [hc0] at this
  cases this; rfl

/-! ### refusals lifted to `blend` -/

theorem forall₂_left_mem {α β} {R : α → β → Prop} : ∀ {l : List α} {l' : List β},
    List.Forall₂ R l l' → ∀ a ∈ l, ∃ b, R a b
  | _, _, .nil => fun _ ha => by simp at ha
  | _, _, .cons hh t => fun a ha => by
    rcases List.mem_cons.mp ha with rfl | ha
    · exact ⟨_, hh⟩
    · exact forall₂_left_mem t a ha

/-- **a coordinate of the first triangle that some input triangle lacks makes `blend` fail** (whatever the
weights, the method and the index vectors) -/
theorem blend_missing_coord_error {t0 t : List Cell} {rest : List (List Cell)} {w : Weights}
    {method : String} {idx : Nat → String → List Nat} {c : Cell}
    (hnd : (t0.map Cell.coord).Nodup) (hs : t0.Pairwise (fun a b => Cell.le a b))
    (ht : t ∈ t0 :: rest) (hndt : (t.map Cell.coord).Nodup) (hc : c ∈ t0)
    (hmiss : c.coord ∉ t.map Cell.coord) :
    ∃ e, blend (t0 :: rest) w method idx = .error e := by
  cases hb : blend (t0 :: rest) w method idx with
  | error e => exact ⟨e, rfl⟩
  | ok out =>
    exfalso
    obtain ⟨m, wl, _, hwl, hlen, hcomp⟩ := blend_value_composed_core hb hnd hs
    obtain ⟨n, hn, rfl⟩ := List.getElem_of_mem hc
    obtain ⟨cs, _, hf2, _⟩ := hcomp n hn (by omega) (by omega)
    obtain ⟨c', hc'⟩ := forall₂_left_mem hf2 (indexTriangle t) (List.mem_map.mpr ⟨t, ht, rfl⟩)
    rw [indexTriangle_nodup hndt, lookup_pairs_find] at hc'
    have hmem := List.mem_of_find?_eq_some hc'
    have hco : c'.coord = t0[n].coord := by simpa using List.find?_some hc'
    exact hmiss (List.mem_map.mpr ⟨c', hmem, hco⟩)

theorem mem_keys_exists {α} {d : Dict α} {f : String} (h : f ∈ d.keys) : ∃ v, (f, v) ∈ d := by
  unfold Dict.keys at h
  obtain ⟨p, hp, rfl⟩ := List.mem_map.mp h
  exact ⟨p.2, hp⟩

/-- **mixture: unequal scalars at one coordinate make `blend` fail**: if at the coordinate of some cell of the
(canonical) first triangle the inputs carry, for one of its fields, a scalar `v0` first, values of the same type
after it, and one of them differs from `v0`, then `blend` with method mixture returns an error -/
theorem blend_unequal_scalars_error {t0 : List Cell} {rest : List (List Cell)} {w : Weights}
    {method : String} {idx : Nat → String → List Nat} {cs : List Cell} {f : String} {v0 x : Val}
    {restv : List Val} {n : Nat} (hm : parseMethod method = some .mixture)
    (hnd : ∀ t ∈ t0 :: rest, (t.map Cell.coord).Nodup) (hs : t0.Pairwise (fun a b => Cell.le a b))
    (hn : n < t0.length) (hcs : cellsAt (t0 :: rest) (t0[n]).coord = some cs)
    (hf : f ∈ (t0[n]).values.keys) (hvals : fieldVals cs f = v0 :: restv)
    (hsc : isScalar v0 = true) (hty : restv.all (sameType v0) = true) (hx : x ∈ restv) (hne : x ≠ v0) :
    ∃ e, blend (t0 :: rest) w method idx = .error e := by
  cases hb : blend (t0 :: rest) w method idx with
  | error e => exact ⟨e, rfl⟩
  | ok out =>
    exfalso
    obtain ⟨m, wl, hprep, hwl, hlen, hcomp⟩ := blend_value_composed_core hb (hnd t0 (by simp)) hs
    have hmm := (blendPrep_method hprep).1
    rw [hm] at hmm; cases hmm
    have hst := (blend_structure_getElem_core hb (hnd t0 (by simp)) hs).2 n hn (by omega)
    obtain ⟨cs', _, hf2, hv⟩ := hcomp n hn (by omega) (by omega)
    have hcs' := cellsAt_of_gather hf2 hnd
    rw [hcs] at hcs'; cases hcs'
    rw [← hst.2.2] at hf
    obtain ⟨v, hfv⟩ := mem_keys_exists hf
    have := hv f v hfv
    rw [hvals] at this
    simp only [blendField, beq_self_eq_true, Bool.true_and, hsc, hty, Bool.not_true] at this
    have hany : restv.any (· != v0) = true := List.any_eq_true.mpr ⟨x, hx, by simpa using hne⟩
    simp [hany] at this

/-! ### a closed instance of a successful `blend` (non-vacuity of the `blend … = .ok out` hypotheses) -/

theorem except_eq_of_decide {α} [DecidableEq α] {x : Except Err α} {a : α}
    (h : (match x with | .ok r => decide (r = a) | .error _ => false) = true) : x = .ok a := by
  cases x with
  | error e => cases h
  | ok r => simp only [decide_eq_true_eq] at h; rw [h]

def blExA : List Cell :=
  [ { kind := .cumulative, ps := ⟨2020, 1, 1⟩, pe := ⟨2020, 12, 31⟩, ev := ⟨2020, 12, 31⟩,
      values := [("paid_loss", .int 4)] },
    { kind := .cumulative, ps := ⟨2020, 1, 1⟩, pe := ⟨2020, 12, 31⟩, ev := ⟨2021, 12, 31⟩,
      values := [("paid_loss", .arr false [2] [8, 16])] } ]
def blExB : List Cell :=
  [ { kind := .cumulative, ps := ⟨2020, 1, 1⟩, pe := ⟨2020, 12, 31⟩, ev := ⟨2020, 12, 31⟩,
      values := [("paid_loss", .arr false [2] [8, 12])] },
    { kind := .cumulative, ps := ⟨2020, 1, 1⟩, pe := ⟨2020, 12, 31⟩, ev := ⟨2021, 12, 31⟩,
      values := [("paid_loss", .int 0)] } ]
def blExOut : List Cell :=
  [ { kind := .cumulative, ps := ⟨2020, 1, 1⟩, pe := ⟨2020, 12, 31⟩, ev := ⟨2020, 12, 31⟩,
      values := [("paid_loss", .arr false [2] [7, 10])] },
    { kind := .cumulative, ps := ⟨2020, 1, 1⟩, pe := ⟨2020, 12, 31⟩, ev := ⟨2021, 12, 31⟩,
      values := [("paid_loss", .arr false [2] [2, 4])] } ]

theorem blEx_prep : blendPrep [blExA, blExB] (.list [1/4, 3/4]) "linear" =
    .ok (.linear, blExA, [some [1/4, 3/4], some [1/4, 3/4]]) := by
  apply except_eq_of_decide
  decide +kernel

theorem blEx_loop :
    blendLoop ([blExA, blExB].map indexTriangle) .linear (fun _ _ => []) 0 (indexTriangle blExA)
      [some [1/4, 3/4], some [1/4, 3/4]] = .ok blExOut := by
  apply except_eq_of_decide
  decide +kernel

theorem blEx_ofCells : Triangle.ofCells blExOut = .ok blExOut := by
  unfold Triangle.ofCells
  have hk : kindsConsistent blExOut = true := by decide +kernel
  rw [hk]
  simp only [if_true]
  congr 1
  exact List.mergeSort_of_pairwise (by decide +kernel)

/-- `blend` SUCCEEDS: two triangles of two cells (a scalar against a 2-sample array in either order), list weights
1/4, 3/4, method linear -/
theorem blEx_blend :
    blend [blExA, blExB] (.list [1/4, 3/4]) "linear" (fun _ _ => []) = .ok blExOut := by
  unfold blend
  simp only [blEx_prep, blEx_loop, blEx_ofCells]

end Bermuda.Blend
