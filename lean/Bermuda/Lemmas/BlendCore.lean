/-
The proofs of the C16 property theorems that the Spec bridges (`Lemmas/BlendSpec.lean`) build on.
`Properties/C16.lean` states them under their property names.
-/
import Bermuda.Model.Blend
import Bermuda.Lemmas.Blend
namespace Bermuda.Blend
open Bermuda

theorem linear_value_core {vals : List Val} {w : List Rat} {out : Val}
    (h : linearBlend vals w = .ok out) :
    ∃ rows, mapE rowOf vals = .ok rows ∧
      out = .arr false [maxLen rows] (linearOut rows w (maxLen rows)) ∧
      (linearOut rows w (maxLen rows)).length = maxLen rows ∧
      (∀ r ∈ rows, r.length = 1 ∨ r.length = maxLen rows) ∧
      ∀ s (hs : s < (linearOut rows w (maxLen rows)).length),
        (linearOut rows w (maxLen rows))[s] = dot w (rows.map (bcast · s)) := by
  unfold linearBlend at h
  split at h
  · cases h
  · rename_i rows hrows
    dsimp only at h
    split at h
    · rename_i hall
      cases h
      refine ⟨rows, hrows, rfl, by simp [linearOut], ?_, ?_⟩
      · intro r hr
        have := List.all_eq_true.mp hall r hr
        simp only [Bool.or_eq_true, beq_iff_eq] at this
        exact this.symm
      · intro s hs
        simp [linearOut]
    · cases h

theorem mixture_membership_core {vals : List Val} {w : List Rat} {idx : List Nat} {out : Val}
    (h : mixtureBlend vals w idx = .ok out) :
    ∃ (rows : List (List Rat)) (S : Nat) (data : List Rat),
      mapE samplesOf vals = .ok rows ∧ (∀ r ∈ rows, r.length = S) ∧
      out = .arr false [S] data ∧ data.length = S ∧
      ∀ i (hi : i < data.length) (j : Nat) (hj : j < rows.length), idx.getD i 0 = j →
        data[i] = (rows[j]).getD i 0 := by
  unfold mixtureBlend at h
  split at h
  · cases h
  · split at h
    · cases h
    · split at h
      · cases h
      · rename_i S hS
        split at h
        · cases h
        · split at h
          · cases h
          · rename_i rows hrows
            split at h
            · rename_i hall
              cases h
              refine ⟨rows, S, mixtureOut rows idx S, hrows, ?_, rfl, by simp [mixtureOut], ?_⟩
              · intro r hr
                have := List.all_eq_true.mp hall r hr
                simpa using this
              · intro i hi j hj hij
                subst hij
                simp only [mixtureOut, List.getElem_map, List.getElem_range]
                rw [List.getD_eq_getElem?_getD (l := rows), List.getElem?_eq_getElem hj]
                rfl
            · cases h

theorem mixture_membership_exists_core {vals : List Val} {w : List Rat} {idx : List Nat} {out : Val}
    (h : mixtureBlend vals w idx = .ok out) (hidx : ∀ i, idx.getD i 0 < vals.length) :
    ∃ (rows : List (List Rat)) (S : Nat) (data : List Rat),
      mapE samplesOf vals = .ok rows ∧ out = .arr false [S] data ∧
      ∀ i (hi : i < data.length), ∃ r ∈ rows, data[i] = r.getD i 0 := by
  obtain ⟨rows, S, data, hrows, _, hout, _, hget⟩ := mixture_membership_core h
  refine ⟨rows, S, data, hrows, hout, ?_⟩
  intro i hi
  have hj : idx.getD i 0 < rows.length := by rw [mapE_ok_length hrows]; exact hidx i
  exact ⟨rows[idx.getD i 0], List.getElem_mem hj, hget i hi _ hj rfl⟩

theorem mixture_scalar_passthrough_core {v0 : Val} {rest : List Val} {w : Option (List Rat)}
    {idx : List Nat} {out : Val} (hs : isScalar v0 = true)
    (h : blendField .mixture (v0 :: rest) w idx = .ok out) :
    out = v0 ∧ ∀ x ∈ rest, x = v0 := by
  simp only [blendField, beq_self_eq_true, Bool.true_and, hs] at h
  split at h
  · cases h
  · simp only [if_true] at h
    split at h
    · cases h
    · rename_i hany
      cases h
      refine ⟨rfl, ?_⟩
      intro x hx
      have : ¬ (rest.any (· != v0) = true) := hany
      rw [List.any_eq_true] at this
      by_contra hne
      exact this ⟨x, hx, by simpa using hne⟩

theorem blend_structure_core {t0 : List Cell} {rest : List (List Cell)} {w : Weights} {method : String}
    {idx : Nat → String → List Nat} {out : List Cell}
    (h : blend (t0 :: rest) w method idx = .ok out)
    (hnd : (t0.map Cell.coord).Nodup) (hs : t0.Pairwise (fun a b => Cell.le a b)) :
    List.Forall₂ (fun c o => o.coord = c.coord ∧ o.kind = c.kind ∧ o.values.keys = c.values.keys)
      t0 out := by
  unfold blend at h
  split at h
  · cases h
  · rename_i m t wl hprep
    obtain ⟨rfl, hwl⟩ := blendPrep_ok hprep
    split at h
    · cases h
    · rename_i cells hloop
      rw [List.map_cons, indexTriangle_nodup hnd] at hloop
      have hst := blendLoop_structure hloop (by simp [hwl]) (by
        intro p hp
        obtain ⟨c, hc, rfl⟩ := List.mem_map.mp hp
        exact lookup_pairs hnd hc)
      have hst' : List.Forall₂ (fun c o => o.coord = c.coord ∧ o.kind = c.kind ∧
          o.values.keys = c.values.keys) t cells := by
        exact forall₂_of_map_left hst
      have hsorted := pairwise_le_of_coords (forall₂_imp' (fun _ _ h => h.1) hst') hs
      unfold Triangle.ofCells at h
      split at h
      · cases h
        rw [List.mergeSort_of_pairwise hsorted]
        exact hst'
      · cases h

theorem blend_structure_getElem_core {t0 : List Cell} {rest : List (List Cell)} {w : Weights}
    {method : String} {idx : Nat → String → List Nat} {out : List Cell}
    (h : blend (t0 :: rest) w method idx = .ok out)
    (hnd : (t0.map Cell.coord).Nodup) (hs : t0.Pairwise (fun a b => Cell.le a b)) :
    out.length = t0.length ∧ ∀ i (h0 : i < t0.length) (h1 : i < out.length),
      out[i].coord = t0[i].coord ∧ out[i].kind = t0[i].kind ∧
      out[i].values.keys = t0[i].values.keys := by
  have hst := blend_structure_core h hnd hs
  clear h hnd hs
  induction hst with
  | nil => exact ⟨rfl, fun i h0 => by simp at h0⟩
  | cons hh _ ih =>
    refine ⟨by simp [ih.1], ?_⟩
    intro i h0 h1
    cases i with
    | zero => exact hh
    | succ i => exact ih.2 i (by simpa using h0) (by simpa using h1)

theorem blend_value_composed_core {t0 : List Cell} {rest : List (List Cell)} {w : Weights}
    {method : String} {idx : Nat → String → List Nat} {out : List Cell}
    (h : blend (t0 :: rest) w method idx = .ok out)
    (hnd : (t0.map Cell.coord).Nodup) (hs : t0.Pairwise (fun a b => Cell.le a b)) :
    ∃ m wl, blendPrep (t0 :: rest) w method = .ok (m, t0, wl) ∧ wl.length = t0.length ∧
      out.length = t0.length ∧
      ∀ n (h0 : n < t0.length) (h1 : n < out.length) (h2 : n < wl.length),
        ∃ cs, gatherCells ((t0 :: rest).map indexTriangle) t0[n].coord = .ok cs ∧
          List.Forall₂ (fun d c => lookup d t0[n].coord = some c) ((t0 :: rest).map indexTriangle) cs ∧
          ∀ f v, (f, v) ∈ out[n].values → blendField m (fieldVals cs f) wl[n] (idx n f) = .ok v := by
  unfold blend at h
  split at h
  · cases h
  · rename_i m t wl hprep
    obtain ⟨rfl, hwl⟩ := blendPrep_ok hprep
    split at h
    · cases h
    · rename_i cells hloop
      have hloop' := hloop
      rw [List.map_cons, indexTriangle_nodup hnd] at hloop'
      have hst := forall₂_of_map_left (blendLoop_structure hloop' (by simp [hwl]) (by
        intro p hp
        obtain ⟨c, hc, rfl⟩ := List.mem_map.mp hp
        exact lookup_pairs hnd hc))
      have hsorted := pairwise_le_of_coords (forall₂_imp' (fun _ _ h => h.1) hst) hs
      have hout : out = cells := by
        unfold Triangle.ofCells at h
        split at h
        · cases h; rw [List.mergeSort_of_pairwise hsorted]
        · cases h
      subst hout
      have hlen : out.length = t.length := forall₂_length' hst
      refine ⟨m, wl, hprep, hwl, hlen, ?_⟩
      intro n h0 h1 h2
      rw [indexTriangle_nodup hnd] at hloop
      obtain ⟨cs, hg, ho, hb⟩ := blendLoop_indexed hloop (by simp [hwl]) n (by simpa using h0) h2
      have hk : ((t.map pairOf)[n]'(by simpa using h0)).1 = t[n].coord := by simp [pairOf]
      rw [hk] at hg
      refine ⟨cs, hg, gatherCells_spec hg, ?_⟩
      intro f v hmem
      have := blendCells_values hb f v hmem
      simpa using this

end Bermuda.Blend
