/-
Bridges between the C16 model (`Model/Blend.lean`) and the executable Spec predicates
(`Spec/C16.lean`): the predicates are TRUE on the model's own outputs.
-/
import Bermuda.Lemmas.Blend
import Bermuda.Spec.C16
import Bermuda.Lemmas.BlendCore
namespace Bermuda.Blend
open Bermuda.Spec.C16


theorem sameKeySet_self (a : List String) : sameKeySet a a = true := by
  simp [sameKeySet]

/-- **Spec bridge (structure).** -/
theorem structureOk_of_forall₂ : ∀ {t0 out : List Cell},
    List.Forall₂ (fun c o => o.coord = c.coord ∧ o.kind = c.kind ∧ o.values.keys = c.values.keys) t0 out →
    structureOk t0 out = true := by
  intro t0 out h
  unfold structureOk
  simp only [Bool.and_eq_true, beq_iff_eq, List.all_eq_true]
  refine ⟨forall₂_length' h, ?_⟩
  induction h with
  | nil => intro p hp; simp at hp
  | cons hh _ ih =>
    intro p hp
    rw [List.zip_cons_cons] at hp
    rcases List.mem_cons.mp hp with rfl | hp
    · exact ⟨⟨hh.1, hh.2.1⟩, by rw [hh.2.2]; exact sameKeySet_self _⟩
    · exact ih p hp

/-! samples / rows -/
theorem mapM_samples_of_rowOf : ∀ {vals : List Val} {rows : List (List Rat)},
    mapE rowOf vals = .ok rows → vals.mapM samples = some rows := by
  intro vals
  induction vals with
  | nil => intro rows h; simp [mapE] at h; subst h; rfl
  | cons v vals ih =>
    intro rows h
    simp only [mapE] at h
    split at h
    · cases h
    · rename_i r hr
      split at h
      · cases h
      · rename_i rs hrs
        cases h
        have hs : samples v = some r := by
          cases v with
          | none => simp [rowOf] at hr
          | int i => simp only [rowOf, Except.ok.injEq] at hr; subst hr; rfl
          | flt q => simp only [rowOf, Except.ok.injEq] at hr; subst hr; rfl
          | arr b shape d =>
            match shape with
            | [] => simp [rowOf] at hr
            | [n] => simp only [rowOf, Except.ok.injEq] at hr; subst hr; rfl
            | _ :: _ :: _ => simp [rowOf] at hr
        simp [List.mapM_cons, hs, ih hrs]

theorem wsum_eq_dot : ∀ (w xs : List Rat), wsum w xs = dot w xs
  | [], _ => by simp [wsum, dot]
  | _ :: _, [] => by simp [wsum, dot]
  | a :: w, x :: xs => by simp [wsum, dot, wsum_eq_dot w xs]

theorem pick_eq_bcast (row : List Rat) (s : Nat) : pick row s = bcast row s := by
  simp [pick, bcast]

theorem close_zero_self (a : Rat) : close 0 a a = true := by
  simp [close, absQ]

/-- **Spec bridge (one field, linear).** -/
theorem linearFieldOk_of_blend {vals : List Val} {w : List Rat} {v : Val}
    (h : linearBlend vals w = .ok v) (hl : w.length = vals.length) :
    linearFieldOk w 0 vals v = true := by
  obtain ⟨rows, hrows, rfl, hlen, hrl, hget⟩ := Blend.linear_value_core h
  unfold linearFieldOk
  rw [mapM_samples_of_rowOf hrows]
  have hS : rows.foldl (fun m r => max m r.length) 0 = maxLen rows := rfl
  simp only [hS, beq_self_eq_true, Bool.true_and, Bool.and_eq_true, beq_iff_eq, List.all_eq_true,
    List.mem_range]
  refine ⟨⟨⟨hlen, by rw [hl, mapE_ok_length hrows]⟩, fun r hr => by simpa using hrl r hr⟩, ?_⟩
  intro s hs
  have hs' : s < (linearOut rows w (maxLen rows)).length := by rw [hlen]; exact hs
  rw [List.getD_eq_getElem?_getD, List.getElem?_eq_getElem hs', Option.getD_some, hget s hs',
    wsum_eq_dot]
  have : rows.map (pick · s) = rows.map (bcast · s) := by
    apply List.map_congr_left; intro r _; exact pick_eq_bcast r s
  rw [this]
  exact close_zero_self _

/-! mixture -/

theorem mapM_arr1_of_samplesOf : ∀ {vals : List Val} {rows : List (List Rat)},
    mapE samplesOf vals = .ok rows →
    vals.mapM arr1? = some rows := by
  intro vals
  induction vals with
  | nil => intro rows h; simp [mapE] at h; subst h; rfl
  | cons v vals ih =>
    intro rows h
    simp only [mapE] at h
    split at h
    · cases h
    · rename_i r hr
      split at h
      · cases h
      · rename_i rs hrs
        cases h
        cases v with
        | none => simp [samplesOf] at hr
        | int i => simp [samplesOf] at hr
        | flt q => simp [samplesOf] at hr
        | arr b shape d =>
          match shape with
          | [] => simp [samplesOf] at hr
          | [n] =>
            simp only [samplesOf, Except.ok.injEq] at hr; subst hr
            simp [List.mapM_cons, ih hrs, arr1?]
          | _ :: _ :: _ => simp [samplesOf] at hr

theorem blendSamples_mixture {vals : List Val} {w : Option (List Rat)} {idx : List Nat} {v : Val}
    (h : blendSamples vals w .mixture idx = .ok v) : ∃ w', mixtureBlend vals w' idx = .ok v := by
  unfold blendSamples at h
  cases w <;> dsimp only at h <;> (split at h; · cases h) <;> exact ⟨_, h⟩

theorem blendSamples_linear {vals : List Val} {w : Option (List Rat)} {idx : List Nat} {v : Val}
    (h : blendSamples vals w .linear idx = .ok v) :
    (w.getD (List.replicate vals.length (1 / (vals.length : Rat)))).length = vals.length ∧
    linearBlend vals (w.getD (List.replicate vals.length (1 / (vals.length : Rat)))) = .ok v := by
  unfold blendSamples at h
  cases w <;> dsimp only at h <;> (split at h; · cases h) <;>
    (rename_i hne; exact ⟨by simpa using hne, h⟩)

/-- **Spec bridge (one field, mixture).** -/
theorem mixtureFieldOk_of_blend {vals : List Val} {w : Option (List Rat)} {idx : List Nat} {v : Val}
    (h : blendField .mixture vals w idx = .ok v) (hidx : ∀ i, idx.getD i 0 < vals.length) :
    mixtureFieldOk vals v = true := by
  cases vals with
  | nil => simp [blendField] at h
  | cons v0 rest =>
    by_cases hs : isScalar v0 = true
    · obtain ⟨rfl, hall⟩ := Blend.mixture_scalar_passthrough_core hs h
      cases v with
      | none => simp [isScalar] at hs
      | arr _ _ _ => simp [isScalar] at hs
      | int i =>
        simp only [mixtureFieldOk, List.all_cons, beq_self_eq_true, Bool.true_and, List.all_eq_true, beq_iff_eq]
        exact hall
      | flt q =>
        simp only [mixtureFieldOk, List.all_cons, beq_self_eq_true, Bool.true_and, List.all_eq_true, beq_iff_eq]
        exact hall
    · have hs' : isScalar v0 = false := by simpa using hs
      simp only [blendField, beq_self_eq_true, Bool.true_and, hs', Bool.false_eq_true, if_false] at h
      split at h
      · cases h
      · obtain ⟨w', h⟩ := blendSamples_mixture h
        · obtain ⟨rows, S, data, hrows, hout, hmem⟩ := Blend.mixture_membership_exists_core h hidx
          obtain ⟨rows', S', data', hrows', hall, hout', hlen', _⟩ := Blend.mixture_membership_core h
          rw [hrows] at hrows'; cases hrows'
          rw [hout] at hout'; cases hout'
          subst hout
          unfold mixtureFieldOk
          rw [mapM_arr1_of_samplesOf hrows]
          simp only [Bool.and_eq_true, List.all_eq_true, beq_iff_eq, List.any_eq_true]
          refine ⟨⟨fun r hr => by rw [hall r hr, hlen'], hlen'.symm⟩, ?_⟩
          intro p hp
          obtain ⟨x, s⟩ := p
          have hx := List.mem_zipIdx hp
          simp only [Nat.zero_le, Nat.sub_zero, Nat.zero_add, true_and] at hx
          obtain ⟨hs1, hx⟩ := hx
          obtain ⟨r, hr, heq⟩ := hmem s hs1
          exact ⟨r, hr, by rw [hx, heq]⟩


theorem lookup_pairs_find (t : List Cell) (k : Coord) :
    lookup (t.map pairOf) k = t.find? (·.coord == k) := by
  induction t with
  | nil => rfl
  | cons a t ih =>
    unfold lookup at ih ⊢
    rw [List.map_cons, List.find?_cons, List.find?_cons]
    by_cases h : a.coord == k
    · simp [pairOf, h]
    · have h' : (a.coord == k) = false := by simpa using h
      simp only [pairOf, h']
      exact ih

theorem cellsAt_of_gather {k : Coord} : ∀ {ts : List (List Cell)} {cs : List Cell},
    List.Forall₂ (fun d c => lookup d k = some c) (ts.map indexTriangle) cs →
    (∀ t ∈ ts, (t.map Cell.coord).Nodup) → cellsAt ts k = some cs := by
  intro ts
  induction ts with
  | nil => intro cs h _; cases h; rfl
  | cons t ts ih =>
    intro cs h hnd
    rw [List.map_cons] at h
    cases h with
    | cons h1 h2 =>
      rename_i c cs'
      rw [indexTriangle_nodup (hnd t (by simp)), lookup_pairs_find] at h1
      have := ih h2 (fun t' ht' => hnd t' (by simp [ht']))
      unfold cellsAt at this ⊢
      simp [List.mapM_cons, h1, this]

theorem forFields_intro {ts : List (List Cell)} {out : List Cell}
    {p : Nat → String → List Val → Val → Bool}
    (h : ∀ n (hn : n < out.length), ∃ cs, cellsAt ts out[n].coord = some cs ∧
      ∀ f v, (f, v) ∈ out[n].values → p n f (fieldVals cs f) v = true) :
    forFields ts out p = true := by
  unfold forFields
  rw [List.all_eq_true]
  intro q hq
  obtain ⟨o, n⟩ := q
  have hx := List.mem_zipIdx hq
  simp only [Nat.zero_le, Nat.sub_zero, Nat.zero_add, true_and] at hx
  obtain ⟨hn, ho⟩ := hx
  have ho' : o = out[n]'hn := ho
  clear ho hq
  subst ho'
  obtain ⟨cs, hcs, hall⟩ := h n hn
  simp only [hcs, List.all_eq_true]
  intro r hr
  obtain ⟨f, v⟩ := r
  exact hall f v hr

theorem weightList_spec {w : Weights} {n M : Nat} {wl : List (Option (List Rat))}
    (h : weightList w n = .ok wl) (i : Nat) (hi : i < wl.length) :
    (wl[i]).getD (List.replicate M (1 / (M : Rat))) = specWeights w i M := by
  unfold weightList at h
  split at h
  · cases h; simp [specWeights]
  · cases h; simp [specWeights]
  · cases h
  · rename_i vals
    dsimp only at h
    split at h
    · cases h
    · rename_i r0 rs hrows
      split at h
      · split at h
        · cases h
        · split at h
          · rename_i h1
            cases h
            have h1' : r0.length = 1 := by simpa using h1
            simp [specWeights, hrows, h1', column]
          · rename_i h1
            cases h
            have h1' : ¬ r0.length = 1 := by simpa using h1
            simp [specWeights, hrows, h1', column]
      · cases h
theorem blendPrep_method {ts : List (List Cell)} {w : Weights} {method : String} {m t wl}
    (h : blendPrep ts w method = .ok (m, t, wl)) : parseMethod method = some m ∧
    weightList w t.length = .ok wl := by
  unfold blendPrep at h
  split at h
  · cases h
  · split at h
    · cases h
    · rename_i m' hm'
      split at h
      · cases h
      · split at h
        · cases h
        · split at h
          · cases h
          · split at h
            · cases h
            · split at h
              · cases h
              · rename_i wl' hwl
                cases h
                exact ⟨hm', hwl⟩

theorem gather_length {k : Coord} {idxs : List (List (Coord × Cell))} {cs : List Cell}
    (h : gatherCells idxs k = .ok cs) : cs.length = idxs.length :=
  forall₂_length' (gatherCells_spec h)

/-- **Spec bridge (mixture).** -/
theorem mixtureMembership_model {t0 : List Cell} {rest : List (List Cell)} {w : Weights}
    {method : String} {idx : Nat → String → List Nat} {out : List Cell}
    (h : blend (t0 :: rest) w method idx = .ok out) (hm : parseMethod method = some .mixture)
    (hnd : ∀ t ∈ t0 :: rest, (t.map Cell.coord).Nodup) (hs : t0.Pairwise (fun a b => Cell.le a b))
    (hidx : ∀ n f i, (idx n f).getD i 0 < (t0 :: rest).length) :
    mixtureMembership (t0 :: rest) out = true := by
  obtain ⟨m, wl, hprep, hwl, hlen, hcomp⟩ := blend_value_composed_core h (hnd t0 (by simp)) hs
  have hmm := (blendPrep_method hprep).1
  rw [hm] at hmm; cases hmm
  have hst := (blend_structure_getElem_core h (hnd t0 (by simp)) hs).2
  unfold mixtureMembership
  apply forFields_intro
  intro n hn
  have h0 : n < t0.length := by omega
  obtain ⟨cs, hg, hf2, hvals⟩ := hcomp n h0 hn (by omega)
  refine ⟨cs, ?_, ?_⟩
  · rw [(hst n h0 hn).1]
    exact cellsAt_of_gather hf2 hnd
  · intro f v hmem
    refine mixtureFieldOk_of_blend (hvals f v hmem) (fun i => ?_)
    have : (fieldVals cs f).length = (t0 :: rest).length := by
      simp [fieldVals, gather_length hg]
    rw [this]; exact hidx n f i

/-- **Spec bridge (linear).** -/
theorem linearValueOk_model {t0 : List Cell} {rest : List (List Cell)} {w : Weights}
    {method : String} {idx : Nat → String → List Nat} {out : List Cell}
    (h : blend (t0 :: rest) w method idx = .ok out) (hm : parseMethod method = some .linear)
    (hnd : ∀ t ∈ t0 :: rest, (t.map Cell.coord).Nodup) (hs : t0.Pairwise (fun a b => Cell.le a b)) :
    linearValueOk (t0 :: rest) w out 0 = true := by
  obtain ⟨m, wl, hprep, hwl, hlen, hcomp⟩ := blend_value_composed_core h (hnd t0 (by simp)) hs
  obtain ⟨hmm, hwlist⟩ := blendPrep_method hprep
  rw [hm] at hmm; cases hmm
  have hst := (blend_structure_getElem_core h (hnd t0 (by simp)) hs).2
  unfold linearValueOk
  apply forFields_intro
  intro n hn
  have h0 : n < t0.length := by omega
  have h2 : n < wl.length := by omega
  obtain ⟨cs, hg, hf2, hvals⟩ := hcomp n h0 hn h2
  refine ⟨cs, ?_, ?_⟩
  · rw [(hst n h0 hn).1]
    exact cellsAt_of_gather hf2 hnd
  · intro f v hmem
    have hb := hvals f v hmem
    have hlenv : (fieldVals cs f).length = (t0 :: rest).length := by
      simp [fieldVals, gather_length hg]
    have hbs : blendSamples (fieldVals cs f) wl[n] .linear (idx n f) = .ok v := by
      cases hcs : fieldVals cs f with
      | nil => rw [hcs] at hlenv; simp at hlenv
      | cons v0 vs => rw [hcs] at hb; simpa [blendField] using hb
    obtain ⟨hl, hlin⟩ := blendSamples_linear hbs
    rw [hlenv] at hl hlin
    rw [weightList_spec hwlist n h2] at hl hlin
    exact linearFieldOk_of_blend hlin (by rw [hl, hlenv])
end Bermuda.Blend
