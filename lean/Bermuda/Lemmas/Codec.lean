/-
Helper lemmas for the codec model (C05/C06/C19): fixed-width integers, and a `read (write x ++ rest)
= ok (x, rest)` lemma per syntactic class.
-/
import Bermuda.Model.Codec
set_option linter.unusedSimpArgs false
namespace Bermuda.Codec
open Bermuda
theorem natLE_length (k n : Nat) : (natLE k n).length = k := by
  induction k generalizing n with
  | zero => rfl
  | succ k ih => simp [natLE, ih]

theorem leNat_natLE (k n : Nat) : leNat (natLE k n) = n % 256 ^ k := by
  induction k generalizing n with
  | zero => simp [natLE, leNat, Nat.mod_one]
  | succ k ih =>
    simp only [natLE, leNat, ih]
    have : (UInt8.ofNat (n % 256)).toNat = n % 256 := by simp
    rw [this, Nat.pow_succ, Nat.mul_comm (256 ^ k) 256, Nat.mod_mul]

theorem leInt_intLE2 (i : Int) (h1 : -32768 ≤ i) (h2 : i ≤ 32767) : leInt (intLE 2 i) = i := by
  unfold leInt intLE
  simp only [natLE_length, leNat_natLE]
  have e1 : ((256:Int)^2) = 65536 := by decide
  have e2 : ((256:Nat)^2) = 65536 := by decide
  rw [e1, e2]
  omega

theorem leInt_intLE8 (i : Int) (h1 : -9223372036854775808 ≤ i) (h2 : i ≤ 9223372036854775807) :
    leInt (intLE 8 i) = i := by
  unfold leInt intLE
  simp only [natLE_length, leNat_natLE]
  have e1 : ((256:Int)^8) = 18446744073709551616 := by decide
  have e2 : ((256:Nat)^8) = 18446744073709551616 := by decide
  rw [e1, e2]
  omega

theorem intLE2_eq (i : Int) : ∃ a b, intLE 2 i = [a, b] := ⟨_, _, rfl⟩
theorem natLE2_eq (n : Nat) : ∃ a b, natLE 2 n = [a, b] := ⟨_, _, rfl⟩

theorem dim_le (y : Int) (m : Nat) : dim y m ≤ 31 := by
  unfold dim; split <;> (try split) <;> omega

theorem dateOk_bounds {d : Date} (h : dateOk d = true) :
    1 ≤ d.y ∧ d.y ≤ 9999 ∧ d.m < 256 ∧ d.d < 256 := by
  simp only [dateOk, yearOk, Date.valid, Bool.and_eq_true, decide_eq_true_eq] at h
  have := dim_le d.y d.m
  omega

theorem readDate_writeDate (d : Date) (h : dateOk d = true) (rest : Bytes) :
    readDate (writeDate d ++ rest) = .ok (d, rest) := by
  obtain ⟨a, b, hab⟩ := intLE2_eq d.y
  obtain ⟨h1, h2, h3, h4⟩ := dateOk_bounds h
  have hy : leInt [a, b] = d.y := by rw [← hab]; exact leInt_intLE2 _ (by omega) (by omega)
  have hm : (UInt8.ofNat d.m).toNat = d.m := by simp; omega
  have hd : (UInt8.ofNat d.d).toNat = d.d := by simp; omega
  simp only [writeDate, hab, List.cons_append, List.nil_append, readDate, hy, hm, hd]
  simp [h]

/-- strong prefix: a date cut short always raises -/
theorem readDate_short (s : Bytes) (h : s.length < 4) : readDate s = .error .structError := by
  unfold readDate
  match s, h with
  | [], _ => rfl
  | [_], _ => rfl
  | [_, _], _ => rfl
  | [_, _, _], _ => rfl
  | _ :: _ :: _ :: _ :: _, h => simp at h; omega

theorem writeDate_length (d : Date) : (writeDate d).length = 4 := by
  simp [writeDate, intLE, natLE]

theorem leInt_natLE2 (n : Nat) (h : n < 32768) : leInt (natLE 2 n) = (n : Int) := by
  unfold leInt
  simp only [natLE_length, leNat_natLE]
  have e2 : ((256:Nat)^2) = 65536 := by decide
  rw [e2]
  omega

theorem readStr_writeStr_some (s : Bytes) (h : strOk s = true) (rest : Bytes) :
    readStr (writeStr (some s) ++ rest) = .ok (some s, rest) := by
  simp only [strOk, Bool.and_eq_true, decide_eq_true_eq] at h
  obtain ⟨a, b, hab⟩ := natLE2_eq s.length
  have hn : leInt [a, b] = (s.length : Int) := by rw [← hab]; exact leInt_natLE2 _ h.1
  simp only [writeStr, hab, List.cons_append, List.nil_append, readStr, hn]
  have h1 : ¬ ((s.length : Int) = -1) := by omega
  have h2 : ¬ ((s.length : Int) < 0) := by omega
  simp [h1, h2, h.2]

theorem readStr_writeStr_none (rest : Bytes) :
    readStr (writeStr none ++ rest) = .ok (none, rest) := by
  have : leInt [0xFF, 0xFF] = -1 := by decide
  simp [writeStr, readStr, this]

theorem readStr_writeStr (s : Option Bytes) (h : optStrOk s = true) (rest : Bytes) :
    readStr (writeStr s ++ rest) = .ok (s, rest) := by
  cases s with
  | none => exact readStr_writeStr_none rest
  | some b => exact readStr_writeStr_some b h rest

theorem readExact_append (b rest : Bytes) (n : Nat) (h : b.length = n) :
    readExact n (b ++ rest) = .ok (b, rest) := by
  subst h
  simp [readExact]

theorem readLimit_writeLimit (l : Option Bytes) (h : limitOk l = true) (rest : Bytes) :
    readLimit (writeLimit l ++ rest) = .ok (l, rest) := by
  cases l with
  | none =>
    have : isNaN8 nanBytes = true := by decide
    simp [readLimit, writeLimit, readExact_append nanBytes rest 8 rfl, this]
  | some b =>
    simp only [limitOk, Bool.and_eq_true, beq_iff_eq, Bool.not_eq_true'] at h
    simp [readLimit, writeLimit, readExact_append b rest 8 h.1, h.2]

theorem leNat_natLE4 (n : Nat) (h : n < 4294967296) : leNat (natLE 4 n) = n := by
  rw [leNat_natLE]
  have : (256:Nat)^4 = 4294967296 := by decide
  rw [this]; omega

theorem readDims_writeDims (dims : List Nat) (h : dims.all (· < 4294967296) = true) (rest : Bytes) :
    readDims dims.length (writeDims dims ++ rest) = .ok (dims, rest) := by
  induction dims with
  | nil => simp [readDims, writeDims]
  | cons d ds ih =>
    simp only [List.all_cons, Bool.and_eq_true, decide_eq_true_eq] at h
    have e : writeDims (d :: ds) ++ rest = natLE 4 d ++ (writeDims ds ++ rest) := by
      simp [writeDims]
    simp only [List.length_cons, readDims, e, readExact_append _ _ 4 (natLE_length 4 d), ih h.2,
      leNat_natLE4 d h.1]

theorem readArrBody_writeArrBody (dims : List Nat) (p : Bytes) (h : arrOk dims p = true) (rest : Bytes) :
    readArrBody (writeArrBody dims p ++ rest) = .ok ((dims, p), rest) := by
  simp only [arrOk, Bool.and_eq_true, decide_eq_true_eq, beq_iff_eq] at h
  obtain ⟨⟨h1, h2⟩, h3⟩ := h
  have hn : (UInt8.ofNat dims.length).toNat = dims.length := by simp; omega
  simp only [writeArrBody, List.cons_append, List.append_assoc, readArrBody, hn,
    readDims_writeDims dims h2]
  simp [← h3]

theorem tags :
    K.tString = 128 ∧ K.tInt = 129 ∧ K.tFloat = 130 ∧ K.tBool = 131 ∧ K.tNone = 132 ∧ K.tDate = 133 ∧
    K.tIntArr = 134 ∧ K.tFltArr = 135 ∧ K.tDictEnd = 136 ∧ K.tMetadata = 16 ∧ K.tCell = 17 ∧
    K.tCumulative = 18 ∧ K.tIncremental = 19 := by decide

theorem readVal_writeVal (v : RawVal) (h : valOk v = true) (rest : Bytes) :
    readVal (writeVal v ++ rest) = .ok (v, rest) := by
  obtain ⟨t1, t2, t3, t4, t5, t6, t7, t8, t9, -⟩ := tags
  cases v with
  | none => simp [writeVal, readVal, t1, t2, t3, t4, t5, t6, t7, t8]
  | bool b => cases b <;> simp [writeVal, readVal, t1, t2, t3, t4, t5, t6, t7, t8]
  | int i =>
    simp only [valOk, int64Ok, Bool.and_eq_true, decide_eq_true_eq] at h
    have := readExact_append (intLE 8 i) rest 8 (natLE_length _ _)
    simp [writeVal, readVal, t1, t2, t3, t4, t5, t6, t7, t8, this, leInt_intLE8 i h.1 h.2]
  | flt b =>
    simp only [valOk, beq_iff_eq] at h
    simp [writeVal, readVal, t1, t2, t3, t4, t5, t6, t7, t8, readExact_append b rest 8 h]
  | str s =>
    have := readStr_writeStr_some s h rest
    simp [writeVal, readVal, t1, t2, t3, t4, t5, t6, t7, t8, this]
  | date d =>
    have := readDate_writeDate d h rest
    simp [writeVal, readVal, t1, t2, t3, t4, t5, t6, t7, t8, this]
  | intArr dims p =>
    have := readArrBody_writeArrBody dims p h rest
    simp [writeVal, readVal, t1, t2, t3, t4, t5, t6, t7, t8, this]
  | fltArr dims p =>
    have := readArrBody_writeArrBody dims p h rest
    simp [writeVal, readVal, t1, t2, t3, t4, t5, t6, t7, t8, this]

end Bermuda.Codec
