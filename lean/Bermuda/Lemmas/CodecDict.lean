/-
Codec lemmas, part 2: the padded string pool (placeholder rule), dictionaries, metadata and cell
records, the record loop.
-/
import Bermuda.Lemmas.Codec
set_option linter.unusedSimpArgs false
namespace Bermuda.Codec
open Bermuda

theorem poolLookupFrom_spec (k : Bytes) (l : List Bytes) (i j : Nat)
    (h : poolLookupFrom k l i = some j) :
    i ≤ j ∧ j % 256 ≠ K.tDictEnd.toNat ∧ l[j - i]? = some k := by
  induction l generalizing i with
  | nil => simp [poolLookupFrom] at h
  | cons s r ih =>
    unfold poolLookupFrom at h
    split at h
    · rename_i hc
      cases h
      simp [hc.1, hc.2]
    · obtain ⟨h1, h2, h3⟩ := ih (i + 1) h
      refine ⟨by omega, h2, ?_⟩
      have : j - i = (j - (i + 1)) + 1 := by omega
      rw [this]; simpa using h3

theorem poolLookup_spec {pool : List Bytes} {k : Bytes} {j : Nat} (h : poolLookup pool k = some j) :
    j % 256 ≠ K.tDictEnd.toNat ∧ pool[j]? = some k := by
  have := poolLookupFrom_spec k pool 0 j h
  simpa using this.2

theorem dictEnd_toNat : K.tDictEnd.toNat = 136 := by decide

/-- every key of the sorted key list gets a usable index in the padded pool -/
theorem padPool_lookup (keys : List Bytes) (k : Bytes) (hk : k ∈ keys) (n : Nat) :
    ∃ j, poolLookupFrom k (padPool keys n) n = some j := by
  induction keys generalizing n with
  | nil => cases hk
  | cons k0 ks ih =>
    unfold padPool
    rw [dictEnd_toNat]
    by_cases hn : n % 256 = 136
    · simp only [hn, if_true]
      unfold poolLookupFrom
      rw [dictEnd_toNat]
      simp only [hn, ne_eq, not_true_eq_false, false_and, if_false]
      unfold poolLookupFrom
      rw [dictEnd_toNat]
      have hn1 : (n + 1) % 256 ≠ 136 := by omega
      by_cases hk0 : k0 = k
      · exact ⟨n + 1, by simp [hn1, hk0]⟩
      · simp only [hk0, and_false, if_false]
        have hk' : k ∈ ks := by
          cases hk with
          | head => exact absurd rfl hk0
          | tail _ h => exact h
        exact ih hk' (n + 2)
    · simp only [hn, if_false]
      unfold poolLookupFrom
      rw [dictEnd_toNat]
      by_cases hk0 : k0 = k
      · exact ⟨n, by simp [hn, hk0]⟩
      · simp only [hk0, and_false, if_false]
        have hk' : k ∈ ks := by
          cases hk with
          | head => exact absurd rfl hk0
          | tail _ h => exact h
        exact ih hk' (n + 1)

theorem mem_dedupAdj (l : List Bytes) (k : Bytes) : k ∈ dedupAdj l ↔ k ∈ l := by
  induction l with
  | nil => simp [dedupAdj]
  | cons a r ih =>
    cases r with
    | nil => simp [dedupAdj]
    | cons b r' =>
      unfold dedupAdj
      split
      · rename_i hab
        rw [ih]; subst hab; simp
      · simp only [List.mem_cons] at ih ⊢
        rw [ih]

theorem mem_sortedKeys (t : RawTriangle) (k : Bytes) : k ∈ sortedKeys t ↔ k ∈ allKeys t := by
  unfold sortedKeys
  rw [mem_dedupAdj]
  exact (List.mergeSort_perm _ _).mem_iff

/-- **the placeholder lemma** (D6): every key used anywhere in the triangle has a pool index whose
low byte is not the `DICT_END` byte, and the pool holds the key at that index. -/
theorem poolOf_lookup (t : RawTriangle) (k : Bytes) (hk : k ∈ allKeys t) :
    ∃ j, poolLookup (poolOf t) k = some j ∧ j % 256 ≠ K.tDictEnd.toNat ∧ (poolOf t)[j]? = some k := by
  obtain ⟨j, hj⟩ := padPool_lookup (sortedKeys t) k ((mem_sortedKeys t k).mpr hk) 0
  exact ⟨j, hj, poolLookup_spec hj⟩

def foldSet (acc d : RawDict) : RawDict := d.foldl (fun a e => dictSet a e.1 e.2) acc

theorem idx_first_ne (j : Nat) (h : j % 256 ≠ K.tDictEnd.toNat) :
    (UInt8.ofNat (j % 256) == K.tDictEnd) = false := by
  rw [dictEnd_toNat] at h
  have hd : K.tDictEnd = 136 := by decide
  rw [hd]
  simp only [beq_eq_false_iff_ne, ne_eq]
  intro hc
  have := congrArg UInt8.toNat hc
  simp at this
  omega

theorem leNat_idx (j : Nat) (h : j < 65536) :
    leNat [UInt8.ofNat (j % 256), UInt8.ofNat (j / 256 % 256)] = j := by
  simp [leNat]; omega

theorem readDictAux_writeDict (pool : List Bytes) (hp : pool.length ≤ 65536)
    (d : RawDict) (hd : ∀ e ∈ d, valOk e.2 = true ∧ ∃ j, poolLookup pool e.1 = some j)
    (acc : RawDict) (rest : Bytes) (fuel : Nat) (hf : d.length < fuel) :
    readDictAux (pool.map some) fuel acc (writeDict pool d ++ rest) = .ok (foldSet acc d, rest) := by
  induction d generalizing fuel acc with
  | nil =>
    cases fuel with
    | zero => omega
    | succ f => simp [writeDict, readDictAux, foldSet]
  | cons e tl ih =>
    cases fuel with
    | zero => omega
    | succ f =>
      obtain ⟨hv, j, hj⟩ := hd e (by simp)
      obtain ⟨hj1, hj2⟩ := poolLookup_spec hj
      have hjlt : j < pool.length := by
        have := List.getElem?_eq_some_iff.mp hj2
        exact this.1
      have e1 : writeDict pool (e :: tl) ++ rest =
          UInt8.ofNat (j % 256) :: UInt8.ofNat (j / 256 % 256) :: (writeVal e.2 ++ (writeDict pool tl ++ rest)) := by
        simp [writeDict, writeEntry, hj, natLE]
      have hpool : (pool.map some)[j]? = some (some e.1) := by simp [hj2]
      rw [e1]
      unfold readDictAux
      simp only [idx_first_ne j hj1, Bool.false_eq_true, if_false, leNat_idx j (by omega), hpool,
        readVal_writeVal e.2 hv]
      rw [ih (fun e' he' => hd e' (by simp [he'])) _ f (by simpa using hf)]
      simp [foldSet]

theorem foldSet_nodup (acc d : RawDict) (h : nodupKeys (dictKeys (acc ++ d)) = true) :
    foldSet acc d = acc ++ d := by
  induction d generalizing acc with
  | nil => simp [foldSet]
  | cons e tl ih =>
    have hnot : acc.any (·.1 == e.1) = false := by
      clear ih
      induction acc with
      | nil => rfl
      | cons a r iha =>
        simp only [dictKeys, List.cons_append, List.map_cons, nodupKeys, Bool.and_eq_true,
          Bool.not_eq_true', List.contains_eq_mem, decide_eq_false_iff_not, List.mem_map,
          List.mem_append, List.mem_cons] at h
        simp only [List.any_cons, Bool.or_eq_false_iff, beq_eq_false_iff_ne, ne_eq]
        refine ⟨?_, iha (by simpa [dictKeys] using h.2)⟩
        intro hae
        exact h.1 ⟨e, Or.inr (Or.inl rfl), hae.symm⟩
    have step : foldSet acc (e :: tl) = foldSet (acc ++ [e]) tl := by
      simp [foldSet, dictSet, hnot]
    rw [step, ih (acc ++ [e]) (by simpa using h)]
    simp

theorem foldSet_nil (d : RawDict) (h : nodupKeys (dictKeys d) = true) : foldSet [] d = d := by
  simpa using foldSet_nodup [] d (by simpa using h)

/-- `read (write d ++ rest) = ok (d, rest)` for dictionaries -/
theorem readDict_writeDict (pool : List Bytes) (hp : pool.length ≤ 65536)
    (d : RawDict) (hd : ∀ e ∈ d, valOk e.2 = true ∧ ∃ j, poolLookup pool e.1 = some j)
    (hn : nodupKeys (dictKeys d) = true) (rest : Bytes) :
    readDict (pool.map some) (writeDict pool d ++ rest) = .ok (d, rest) := by
  unfold readDict
  rw [readDictAux_writeDict pool hp d hd [] rest _ ?_, foldSet_nil d hn]
  simp only [List.length_append]
  have : d.length ≤ (writeDict pool d).length := by
    unfold writeDict
    clear hd hn
    induction d with
    | nil => simp
    | cons e tl ih =>
      simp only [List.flatMap_cons, List.length_append, List.length_cons, List.length_nil] at ih ⊢
      have : 2 ≤ (writeEntry pool e).length := by simp [writeEntry, natLE_length]
      omega
  omega

/-- every key of the dictionary has an index in the pool -/
def KeysIn (pool : List Bytes) (d : RawDict) : Prop := ∀ e ∈ d, ∃ j, poolLookup pool e.1 = some j

theorem dictOk_vals {d : RawDict} (h : dictOk d = true) : ∀ e ∈ d, valOk e.2 = true := by
  simp only [dictOk, Bool.and_eq_true, List.all_eq_true] at h
  exact fun e he => (h.1 e he).2

theorem dictOk_nodup {d : RawDict} (h : dictOk d = true) : nodupKeys (dictKeys d) = true := by
  simp only [dictOk, Bool.and_eq_true] at h
  exact h.2

theorem readDict_writeDict' (pool : List Bytes) (hp : pool.length ≤ 65536) (d : RawDict)
    (hd : dictOk d = true) (hk : KeysIn pool d) (rest : Bytes) :
    readDict (pool.map some) (writeDict pool d ++ rest) = .ok (d, rest) :=
  readDict_writeDict pool hp d (fun e he => ⟨dictOk_vals hd e he, hk e he⟩) (dictOk_nodup hd) rest

theorem readMetaBody_writeMetaBody (pool : List Bytes) (hp : pool.length ≤ 65536) (m : RawMetadata)
    (hm : metaOk m = true) (hk1 : KeysIn pool m.details) (hk2 : KeysIn pool m.lossDetails)
    (rest : Bytes) :
    readMetaBody (pool.map some) (writeMetaBody pool m ++ rest) = .ok (m, rest) := by
  simp only [metaOk, Bool.and_eq_true] at hm
  obtain ⟨⟨⟨⟨⟨⟨⟨h1, h2⟩, h3⟩, h4⟩, h5⟩, h6⟩, h7⟩, h8⟩ := hm
  simp only [writeMetaBody, List.append_assoc, readMetaBody, bindP,
    readStr_writeStr _ h1, readStr_writeStr _ h2, readStr_writeStr _ h3, readStr_writeStr _ h4,
    readStr_writeStr _ h5, readLimit_writeLimit _ h6,
    readDict_writeDict' pool hp _ h7 hk1, readDict_writeDict' pool hp _ h8 hk2]

theorem cellInit_cases (c : RawCell) : cellInit c = .ok c ∨ ∃ e, cellInit c = .error e := by
  unfold cellInit
  repeat' split
  all_goals simp

theorem readCellBody_writeCellBody (pool : List Bytes) (hp : pool.length ≤ 65536) (c : RawCell)
    (hc : cellOk c = true) (hk : KeysIn pool c.values) (rest : Bytes) :
    readCellBody (pool.map some) c.kind c.md (writeCellBody pool c ++ rest) = .ok (c, rest) := by
  simp only [cellOk, Bool.and_eq_true] at hc
  obtain ⟨⟨⟨⟨⟨⟨h1, h2⟩, h3⟩, h4⟩, h5⟩, h6⟩, h7⟩ := hc
  have hinit : cellInit c = .ok c := by
    rcases cellInit_cases c with h | ⟨e, h⟩
    · exact h
    · rw [h] at h7; simp at h7
  obtain ⟨kind, ps, pe, ev, prev, values, md⟩ := c
  cases kind <;> cases prev <;> simp at h6
  all_goals
    simp only [writeCellBody, List.append_assoc, readCellBody, bindP, finishCell, readDate_writeDate _ h1,
      readDate_writeDate _ h2, readDate_writeDate _ h3, readDict_writeDict' pool hp _ h4 hk,
      List.nil_append, hinit]
  simp only [readDate_writeDate _ h6, hinit]


theorem markerKind_kindTag (k : CellKind) : markerKind (kindTag k) = some k := by
  cases k <;> decide

theorem kindTag_ne_meta (k : CellKind) : (kindTag k == K.tMetadata) = false := by
  cases k <;> decide

/-- what a cell needs from the pool -/
def CellIn (pool : List Bytes) (c : RawCell) : Prop :=
  KeysIn pool c.values ∧ KeysIn pool c.md.details ∧ KeysIn pool c.md.lossDetails

theorem readRecords_writeRecords (pool : List Bytes) (hp : pool.length ≤ 65536)
    (cells : List RawCell) (hc : ∀ c ∈ cells, cellOk c = true ∧ CellIn pool c)
    (prev : Option RawMetadata) (fuel : Nat) (hf : (writeRecords pool prev cells).length < fuel) :
    readRecords (pool.map some) fuel prev (writeRecords pool prev cells) = .ok cells := by
  induction cells generalizing prev fuel with
  | nil =>
    cases fuel with
    | zero => omega
    | succ f => simp [writeRecords, readRecords]
  | cons c cs ih =>
    obtain ⟨hok, hv, hd, hl⟩ := hc c (by simp)
    have hmeta : metaOk c.md = true := by
      simp only [cellOk, Bool.and_eq_true] at hok
      exact hok.1.1.2
    have hcs : ∀ c' ∈ cs, cellOk c' = true ∧ CellIn pool c' := fun c' h' => hc c' (by simp [h'])
    -- the cell record followed by the remaining records
    have cellStep : ∀ (f : Nat), (writeRecords pool (some c.md) cs).length < f →
        readRecords (pool.map some) (f + 1) (some c.md)
          ((kindTag c.kind :: writeCellBody pool c) ++ writeRecords pool (some c.md) cs) = .ok (c :: cs) := by
      intro f hf'
      simp only [List.cons_append, readRecords, kindTag_ne_meta, Bool.false_eq_true, if_false,
        markerKind_kindTag, Option.getD_some, readCellBody_writeCellBody pool hp c hok hv,
        ih hcs (some c.md) f hf']
    cases fuel with
    | zero => omega
    | succ f =>
      unfold writeRecords at hf ⊢
      by_cases hprev : prev = some c.md
      · subst hprev
        simp only [if_true, List.nil_append] at hf ⊢
        exact cellStep f (by simp only [List.cons_append, List.length_cons, List.length_append] at hf ⊢; omega)
      · simp only [hprev, if_false, List.cons_append, List.append_assoc] at hf ⊢
        cases f with
        | zero => simp at hf
        | succ f' =>
          have hm : (K.tMetadata == K.tMetadata) = true := by simp
          rw [readRecords]
          simp only [hm, if_true, readMetaBody_writeMetaBody pool hp c.md hmeta hd hl]
          have := cellStep f' (by
            simp only [List.length_cons, List.length_append] at hf ⊢; omega)
          simpa using this


theorem readStrs_write (l : List Bytes) (h : ∀ s ∈ l, strOk s = true) (rest : Bytes) :
    readStrs l.length (l.flatMap (fun s => writeStr (some s)) ++ rest) = .ok (l.map some, rest) := by
  induction l with
  | nil => simp [readStrs]
  | cons s r ih =>
    simp only [List.flatMap_cons, List.append_assoc, List.length_cons, readStrs,
      readStr_writeStr_some s (h s (by simp)), ih (fun s' h' => h s' (by simp [h'])), List.map_cons]

theorem intLE2_nat (n : Nat) (h : n < 32768) : intLE 2 (n : Int) = natLE 2 n := by
  unfold intLE
  congr 1
  have e1 : ((256:Int)^2) = 65536 := by decide
  rw [e1]; omega

theorem readPool_writePool (pool : List Bytes) (hlen : pool.length < 32768)
    (h : ∀ s ∈ pool, strOk s = true) (rest : Bytes) :
    readPool (writePool pool ++ rest) = .ok (pool.map some, rest) := by
  have e : writePool pool ++ rest =
      UInt8.ofNat (pool.length % 256) :: UInt8.ofNat (pool.length / 256 % 256) ::
        (pool.flatMap (fun s => writeStr (some s)) ++ rest) := by
    simp [writePool, intLE2_nat _ hlen, natLE]
  rw [e]
  simp only [readPool, leNat_idx pool.length (by omega), readStrs_write pool h]

theorem mem_padPool (keys : List Bytes) (n : Nat) (s : Bytes) (h : s ∈ padPool keys n) :
    s = [] ∨ s ∈ keys := by
  induction keys generalizing n with
  | nil => simp [padPool] at h
  | cons k ks ih =>
    unfold padPool at h
    split at h
    · simp only [List.mem_cons] at h
      rcases h with h | h | h
      · exact Or.inl h
      · exact Or.inr (by simp [h])
      · rcases ih _ h with h | h
        · exact Or.inl h
        · exact Or.inr (by simp [h])
    · simp only [List.mem_cons] at h
      rcases h with h | h
      · exact Or.inr (by simp [h])
      · rcases ih _ h with h | h
        · exact Or.inl h
        · exact Or.inr (by simp [h])

theorem dictOk_keys {d : RawDict} (h : dictOk d = true) : ∀ k ∈ dictKeys d, strOk k = true := by
  simp only [dictOk, Bool.and_eq_true, List.all_eq_true] at h
  intro k hk
  simp only [dictKeys, List.mem_map] at hk
  obtain ⟨e, he, rfl⟩ := hk
  exact (h.1 e he).1

theorem cellOk_parts {c : RawCell} (h : cellOk c = true) :
    dictOk c.values = true ∧ dictOk c.md.details = true ∧ dictOk c.md.lossDetails = true := by
  simp only [cellOk, metaOk, Bool.and_eq_true] at h
  exact ⟨h.1.1.1.2, h.1.1.2.1.2, h.1.1.2.2⟩

theorem allKeys_strOk (t : RawTriangle) (h : ∀ c ∈ t, cellOk c = true) :
    ∀ k ∈ allKeys t, strOk k = true := by
  intro k hk
  simp only [allKeys, List.mem_flatMap, cellKeys, List.mem_append] at hk
  obtain ⟨c, hc, hk⟩ := hk
  obtain ⟨h1, h2, h3⟩ := cellOk_parts (h c hc)
  rcases hk with (hk | hk) | hk
  · exact dictOk_keys h1 k hk
  · exact dictOk_keys h2 k hk
  · exact dictOk_keys h3 k hk

theorem poolOf_strOk (t : RawTriangle) (h : ∀ c ∈ t, cellOk c = true) :
    ∀ s ∈ poolOf t, strOk s = true := by
  intro s hs
  rcases mem_padPool _ _ s hs with h0 | hk
  · subst h0; decide
  · exact allKeys_strOk t h s ((mem_sortedKeys t s).mp hk)

theorem keysIn_of_sub (t : RawTriangle) (d : RawDict) (h : ∀ k ∈ dictKeys d, k ∈ allKeys t) :
    KeysIn (poolOf t) d := by
  intro e he
  obtain ⟨j, hj, -⟩ := poolOf_lookup t e.1 (h e.1 (by simp only [dictKeys, List.mem_map]; exact ⟨e, he, rfl⟩))
  exact ⟨j, hj⟩

theorem cellIn_poolOf (t : RawTriangle) (c : RawCell) (hc : c ∈ t) : CellIn (poolOf t) c := by
  refine ⟨keysIn_of_sub t _ ?_, keysIn_of_sub t _ ?_, keysIn_of_sub t _ ?_⟩
  all_goals
    intro k hk
    simp only [allKeys, List.mem_flatMap, cellKeys, List.mem_append]
    exact ⟨c, hc, by simp [hk]⟩

theorem wf_parts {t : RawTriangle} (h : wf t = true) :
    (∀ c ∈ t, cellOk c = true) ∧ (poolOf t).length < 32768 := by
  simpa [wf, List.all_eq_true] using h

/-- `decode (encode t) = ok t` on the documented domain of the format -/
theorem decode_encode_main (t : RawTriangle) (h : wf t = true) : decode (encode t) = .ok t := by
  obtain ⟨hc, hlen⟩ := wf_parts h
  have hm : K.magic = [175, 54, 1, 0] := by decide
  have hv : K.version = [1] := by decide
  have e1 : (encode t).take 4 = K.magic := by simp [encode, hm]
  have e2 : ((encode t).drop 4).take 1 = K.version := by simp [encode, hm, hv]
  have e3 : (encode t).drop 5 = writePool (poolOf t) ++ writeRecords (poolOf t) none t := by
    simp [encode, hm, hv]
  unfold decode
  simp only [e1, e2, ne_eq, not_true_eq_false, if_false, e3,
    readPool_writePool (poolOf t) hlen (poolOf_strOk t hc)]
  exact readRecords_writeRecords (poolOf t) (by omega) t
    (fun c hc' => ⟨hc c hc', cellIn_poolOf t c hc'⟩) none _ (by omega)
end Bermuda.Codec
