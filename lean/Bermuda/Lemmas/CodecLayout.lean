/-
Round trip of the layout decoder `decodeLayout` (Model/CodecLayout.lean): proofs transcribed from the ones of the
reader-mirroring decoder (Lemmas/Codec.lean, Lemmas/CodecDict.lean), with the strict branches discharged. Core only.
-/
import Bermuda.Model.CodecLayout
import Bermuda.Lemmas.CodecDict
namespace Bermuda.Codec

theorem readStrL_writeStr_some (s : Bytes) (h : strOk s = true) (rest : Bytes) :
    readStrL (writeStr (some s) ++ rest) = .ok (some s, rest) := by
  simp only [strOk, Bool.and_eq_true, decide_eq_true_eq] at h
  obtain ⟨a, b, hab⟩ := natLE2_eq s.length
  have hn : leInt [a, b] = (s.length : Int) := by rw [← hab]; exact leInt_natLE2 _ h.1
  simp only [writeStr, hab, List.cons_append, List.nil_append, readStrL, hn]
  have h1 : ¬ ((s.length : Int) = -1) := by omega
  have h2 : ¬ ((s.length : Int) < 0) := by omega
  simp [h1, h2, h.2]

theorem readStrL_writeStr_none (rest : Bytes) :
    readStrL (writeStr none ++ rest) = .ok (none, rest) := by
  have : leInt [0xFF, 0xFF] = -1 := by decide
  simp [writeStr, readStrL, this]

theorem readStrL_writeStr (s : Option Bytes) (h : optStrOk s = true) (rest : Bytes) :
    readStrL (writeStr s ++ rest) = .ok (s, rest) := by
  cases s with
  | none => exact readStrL_writeStr_none rest
  | some b => exact readStrL_writeStr_some b h rest

theorem readValL_writeVal (v : RawVal) (h : valOk v = true) (rest : Bytes) :
    readValL (writeVal v ++ rest) = .ok (v, rest) := by
  obtain ⟨t1, t2, t3, t4, t5, t6, t7, t8, t9, -⟩ := tags
  cases v with
  | none => simp [writeVal, readValL, t1, t2, t3, t4, t5, t6, t7, t8]
  | bool b => cases b <;> simp [writeVal, readValL, t1, t2, t3, t4, t5, t6, t7, t8]
  | int i =>
    simp only [valOk, int64Ok, Bool.and_eq_true, decide_eq_true_eq] at h
    have := readExact_append (intLE 8 i) rest 8 (natLE_length _ _)
    simp [writeVal, readValL, t1, t2, t3, t4, t5, t6, t7, t8, this, leInt_intLE8 i h.1 h.2]
  | flt b =>
    simp only [valOk, beq_iff_eq] at h
    simp [writeVal, readValL, t1, t2, t3, t4, t5, t6, t7, t8, readExact_append b rest 8 h]
  | str s =>
    have := readStrL_writeStr_some s h rest
    simp [writeVal, readValL, t1, t2, t3, t4, t5, t6, t7, t8, this]
  | date d =>
    have := readDate_writeDate d h rest
    simp [writeVal, readValL, t1, t2, t3, t4, t5, t6, t7, t8, this]
  | intArr dims p =>
    have := readArrBody_writeArrBody dims p h rest
    simp [writeVal, readValL, t1, t2, t3, t4, t5, t6, t7, t8, this]
  | fltArr dims p =>
    have := readArrBody_writeArrBody dims p h rest
    simp [writeVal, readValL, t1, t2, t3, t4, t5, t6, t7, t8, this]

theorem readDictAuxL_writeDict (pool : List Bytes) (hp : pool.length ≤ 65536)
    (d : RawDict) (hd : ∀ e ∈ d, valOk e.2 = true ∧ ∃ j, poolLookup pool e.1 = some j)
    (acc : RawDict) (rest : Bytes) (fuel : Nat) (hf : d.length < fuel) :
    readDictAuxL (pool.map some) fuel acc (writeDict pool d ++ rest) = .ok (foldSet acc d, rest) := by
  induction d generalizing fuel acc with
  | nil =>
    cases fuel with
    | zero => omega
    | succ f => simp [writeDict, readDictAuxL, foldSet]
  | cons e tl ih =>
    cases fuel with
    | zero => omega
    | succ f =>
      obtain ⟨hv, j, hj⟩ := hd e (by simp)
      obtain ⟨hj1, hj2⟩ := poolLookup_spec hj
      have hjlt : j < pool.length := by
        have := List.getElem?_eq_some_iff.mp hj2
        exact this.1
      have e1 : writeDict pool (e :: tl) ++ rest =
          UInt8.ofNat (j % 256) :: UInt8.ofNat (j / 256 % 256) :: (writeVal e.2 ++ (writeDict pool tl ++ rest)) := by
        simp [writeDict, writeEntry, hj, natLE]
      have hpool : (pool.map some)[j]? = some (some e.1) := by simp [hj2]
      rw [e1]
      unfold readDictAuxL
      simp only [idx_first_ne j hj1, Bool.false_eq_true, if_false, leNat_idx j (by omega), hpool,
        readValL_writeVal e.2 hv]
      rw [ih (fun e' he' => hd e' (by simp [he'])) _ f (by simpa using hf)]
      simp [foldSet]

theorem readDictL_writeDict (pool : List Bytes) (hp : pool.length ≤ 65536)
    (d : RawDict) (hd : ∀ e ∈ d, valOk e.2 = true ∧ ∃ j, poolLookup pool e.1 = some j)
    (hn : nodupKeys (dictKeys d) = true) (rest : Bytes) :
    readDictL (pool.map some) (writeDict pool d ++ rest) = .ok (d, rest) := by
  unfold readDictL
  rw [readDictAuxL_writeDict pool hp d hd [] rest _ ?_, foldSet_nil d hn]
  simp only [List.length_append]
  have : d.length ≤ (writeDict pool d).length := by
    unfold writeDict
    clear hd hn
    induction d with
    | nil => simp
    | cons e tl ih =>
      simp only [List.flatMap_cons, List.length_append, List.length_cons, List.length_nil] at ih ⊢
      have : 2 ≤ (writeEntry pool e).length := by simp [writeEntry, natLE_length]
      omega
  omega

theorem readDictL_writeDict' (pool : List Bytes) (hp : pool.length ≤ 65536) (d : RawDict)
    (hd : dictOk d = true) (hk : KeysIn pool d) (rest : Bytes) :
    readDictL (pool.map some) (writeDict pool d ++ rest) = .ok (d, rest) :=
  readDictL_writeDict pool hp d (fun e he => ⟨dictOk_vals hd e he, hk e he⟩) (dictOk_nodup hd) rest

theorem readMetaBodyL_writeMetaBody (pool : List Bytes) (hp : pool.length ≤ 65536) (m : RawMetadata)
    (hm : metaOk m = true) (hk1 : KeysIn pool m.details) (hk2 : KeysIn pool m.lossDetails)
    (rest : Bytes) :
    readMetaBodyL (pool.map some) (writeMetaBody pool m ++ rest) = .ok (m, rest) := by
  simp only [metaOk, Bool.and_eq_true] at hm
  obtain ⟨⟨⟨⟨⟨⟨⟨h1, h2⟩, h3⟩, h4⟩, h5⟩, h6⟩, h7⟩, h8⟩ := hm
  simp only [writeMetaBody, List.append_assoc, readMetaBodyL, bindP,
    readStrL_writeStr _ h1, readStrL_writeStr _ h2, readStrL_writeStr _ h3, readStrL_writeStr _ h4,
    readStrL_writeStr _ h5, readLimit_writeLimit _ h6,
    readDictL_writeDict' pool hp _ h7 hk1, readDictL_writeDict' pool hp _ h8 hk2]

theorem readCellBodyL_writeCellBody (pool : List Bytes) (hp : pool.length ≤ 65536) (c : RawCell)
    (hc : cellOk c = true) (hk : KeysIn pool c.values) (rest : Bytes) :
    readCellBodyL (pool.map some) c.kind c.md (writeCellBody pool c ++ rest) = .ok (c, rest) := by
  simp only [cellOk, Bool.and_eq_true] at hc
  obtain ⟨⟨⟨⟨⟨⟨h1, h2⟩, h3⟩, h4⟩, h5⟩, h6⟩, h7⟩ := hc
  have hinit : cellInit c = .ok c := by
    rcases cellInit_cases c with h | ⟨e, h⟩
    · exact h
    · rw [h] at h7; simp at h7
  obtain ⟨kind, ps, pe, ev, prev, values, md⟩ := c
  cases kind <;> cases prev <;> simp at h6
  all_goals
    simp only [writeCellBody, List.append_assoc, readCellBodyL, bindP, finishCell, readDate_writeDate _ h1,
      readDate_writeDate _ h2, readDate_writeDate _ h3, readDictL_writeDict' pool hp _ h4 hk,
      List.nil_append, hinit]
  simp only [readDate_writeDate _ h6, hinit]


theorem readRecordsL_writeRecords (pool : List Bytes) (hp : pool.length ≤ 65536)
    (cells : List RawCell) (hc : ∀ c ∈ cells, cellOk c = true ∧ CellIn pool c)
    (prev : Option RawMetadata) (fuel : Nat) (hf : (writeRecords pool prev cells).length < fuel) :
    readRecordsL (pool.map some) fuel prev (writeRecords pool prev cells) = .ok cells := by
  induction cells generalizing prev fuel with
  | nil =>
    cases fuel with
    | zero => omega
    | succ f => simp [writeRecords, readRecordsL]
  | cons c cs ih =>
    obtain ⟨hok, hv, hd, hl⟩ := hc c (by simp)
    have hmeta : metaOk c.md = true := by
      simp only [cellOk, Bool.and_eq_true] at hok
      exact hok.1.1.2
    have hcs : ∀ c' ∈ cs, cellOk c' = true ∧ CellIn pool c' := fun c' h' => hc c' (by simp [h'])
    -- the cell record followed by the remaining records
    have cellStep : ∀ (f : Nat), (writeRecords pool (some c.md) cs).length < f →
        readRecordsL (pool.map some) (f + 1) (some c.md)
          ((kindTag c.kind :: writeCellBody pool c) ++ writeRecords pool (some c.md) cs) = .ok (c :: cs) := by
      intro f hf'
      simp only [List.cons_append, readRecordsL, kindTag_ne_meta, Bool.false_eq_true, if_false,
        markerKind_kindTag, Option.getD_some, readCellBodyL_writeCellBody pool hp c hok hv,
        ih hcs (some c.md) f hf']
    cases fuel with
    | zero => omega
    | succ f =>
      unfold writeRecords at hf ⊢
      by_cases hprev : prev = some c.md
      · subst hprev
        simp only [if_true, List.nil_append] at hf ⊢
        exact cellStep f (by simp only [List.cons_append, List.length_cons, List.length_append] at hf ⊢; omega)
      · simp only [hprev, if_false, List.cons_append, List.append_assoc] at hf ⊢
        cases f with
        | zero => simp at hf
        | succ f' =>
          have hm : (K.tMetadata == K.tMetadata) = true := by simp
          rw [readRecordsL]
          simp only [hm, if_true, readMetaBodyL_writeMetaBody pool hp c.md hmeta hd hl]
          have := cellStep f' (by
            simp only [List.length_cons, List.length_append] at hf ⊢; omega)
          simpa using this


theorem readStrsL_write (l : List Bytes) (h : ∀ s ∈ l, strOk s = true) (rest : Bytes) :
    readStrsL l.length (l.flatMap (fun s => writeStr (some s)) ++ rest) = .ok (l.map some, rest) := by
  induction l with
  | nil => simp [readStrsL]
  | cons s r ih =>
    simp only [List.flatMap_cons, List.append_assoc, List.length_cons, readStrsL,
      readStrL_writeStr_some s (h s (by simp)), ih (fun s' h' => h s' (by simp [h'])), List.map_cons]

theorem readPoolL_writePool (pool : List Bytes) (hlen : pool.length < 32768)
    (h : ∀ s ∈ pool, strOk s = true) (rest : Bytes) :
    readPoolL (writePool pool ++ rest) = .ok (pool.map some, rest) := by
  have e : writePool pool ++ rest =
      UInt8.ofNat (pool.length % 256) :: UInt8.ofNat (pool.length / 256 % 256) ::
        (pool.flatMap (fun s => writeStr (some s)) ++ rest) := by
    simp [writePool, intLE2_nat _ hlen, natLE]
  rw [e]
  simp only [readPoolL, leNat_idx pool.length (by omega), readStrsL_write pool h]

theorem decodeLayout_encode_main (t : RawTriangle) (h : wf t = true) : decodeLayout (encode t) = .ok t := by
  obtain ⟨hc, hlen⟩ := wf_parts h
  have hm : K.magic = [175, 54, 1, 0] := by decide
  have hv : K.version = [1] := by decide
  have e1 : (encode t).take 4 = K.magic := by simp [encode, hm]
  have e2 : ((encode t).drop 4).take 1 = K.version := by simp [encode, hm, hv]
  have e3 : (encode t).drop 5 = writePool (poolOf t) ++ writeRecords (poolOf t) none t := by
    simp [encode, hm, hv]
  unfold decodeLayout
  simp only [e1, e2, ne_eq, not_true_eq_false, if_false, e3,
    readPoolL_writePool (poolOf t) hlen (poolOf_strOk t hc)]
  exact readRecordsL_writeRecords (poolOf t) (by omega) t
    (fun c hc' => ⟨hc c hc', cellIn_poolOf t c hc'⟩) none _ (by omega)
end Bermuda.Codec
