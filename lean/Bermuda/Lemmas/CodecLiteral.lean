/-
Helper lemmas for the literal byte-vector theorems of C06 (audit follow-up): staging around
`List.mergeSort` (which `decide` cannot evaluate) and a Boolean form of `decode s = .ok t`. Core only.
-/
import Bermuda.Lemmas.CodecPy
import Bermuda.Lemmas.CodecLayout
namespace Bermuda.Codec

/-- the sorted key list of a concrete triangle, given ANY sorted permutation `L` of its keys
(uniqueness of sorted permutations under the antisymmetric byte order) -/
theorem sortedKeys_eq_of (t : RawTriangle) (L : List Bytes)
    (hs : L.Pairwise (fun a b => bytesLe a b = true)) (hp : L.isPerm (allKeys t) = true) :
    sortedKeys t = dedupAdj L := by
  unfold sortedKeys
  congr 1
  refine List.Perm.eq_of_pairwise (le := fun a b => bytesLe a b = true) ?_
    (List.pairwise_mergeSort bytesLe_trans bytesLe_total _) hs ?_
  · intro a b _ _ h1 h2; exact bytesLe_antisymm a b h1 h2
  · exact (List.mergeSort_perm _ _).trans (List.isPerm_iff.mp hp).symm

theorem encode_eq_literal (t : RawTriangle) (L : List Bytes) (B : Bytes)
    (hs : L.Pairwise (fun a b => bytesLe a b = true)) (hp : L.isPerm (allKeys t) = true)
    (h : K.magic ++ (K.version ++ (writePool (padPool (dedupAdj L) 0) ++
          writeRecords (padPool (dedupAdj L) 0) none t)) = B) : encode t = B := by
  unfold encode poolOf
  rw [sortedKeys_eq_of t L hs hp]; exact h

theorem encodePy_eq_literal (t : RawTriangle) (L : List Bytes) (B : Bytes)
    (hs : L.Pairwise (fun a b => bytesLe a b = true)) (hp : L.isPerm (allKeys t) = true)
    (h : K.magic ++ (K.version ++ (writePool (padPool (dedupAdj L) 0) ++
          writeRecordsPy (padPool (dedupAdj L) 0) none t)) = B) : encodePy t = B := by
  unfold encodePy poolOf
  rw [sortedKeys_eq_of t L hs hp]; exact h

/-- `decode s = .ok t` as a Boolean (`Except Err RawTriangle` has no decidable equality) -/
def decodesTo (s : Bytes) (t : RawTriangle) : Bool :=
  match decode s with
  | .ok r => decide (r = t)
  | .error _ => false

theorem decode_of_decodesTo {s : Bytes} {t : RawTriangle} (h : decodesTo s t = true) : decode s = .ok t := by
  unfold decodesTo at h
  split at h
  · rename_i r hr; rw [hr, of_decide_eq_true h]
  · cases h

/-- `decodeLayout s = .ok t` as a Boolean -/
def layoutDecodesTo (s : Bytes) (t : RawTriangle) : Bool :=
  match decodeLayout s with
  | .ok r => decide (r = t)
  | .error _ => false

theorem decodeLayout_of_decodesTo {s : Bytes} {t : RawTriangle} (h : layoutDecodesTo s t = true) :
    decodeLayout s = .ok t := by
  unfold layoutDecodesTo at h
  split at h
  · rename_i r hr; rw [hr, of_decide_eq_true h]
  · cases h

end Bermuda.Codec
