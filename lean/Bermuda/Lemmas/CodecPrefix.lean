/-
Codec lemmas, part 4 (C19): behaviour of every reader on a strict prefix of what its writer wrote.
`StrongP`: always raises. `WeakP`: raises, or returns having consumed everything (a string read
with a silent short `stream.read`, a value whose tag byte is missing).
-/
import Bermuda.Lemmas.CodecSpec
import Bermuda.Spec.C19
set_option linter.unusedSimpArgs false
namespace Bermuda.Codec
open Bermuda

/-- the reader raised -/
def Fails {α} (r : Except Err α) : Prop := ∃ e, r = .error e

/-- on every strict prefix of `w` the reader raises -/
def StrongP {α} (r : P α) (w : Bytes) : Prop := ∀ j, j < w.length → Fails (r (w.take j))

/-- on every strict prefix of `w` the reader raises or returns having consumed everything -/
def WeakP {α} (r : P α) (w : Bytes) : Prop :=
  ∀ j, j < w.length → Fails (r (w.take j)) ∨ ∃ v, r (w.take j) = .ok (v, [])

theorem StrongP.weak {α} {r : P α} {w : Bytes} (h : StrongP r w) : WeakP r w :=
  fun j hj => Or.inl (h j hj)

theorem readExact_short (n : Nat) (s : Bytes) (h : s.length < n) : readExact n s = .error .structError := by
  simp [readExact, h]

theorem readDate_strong (d : Date) : StrongP readDate (writeDate d) := by
  intro j hj
  rw [writeDate_length] at hj
  exact ⟨_, readDate_short _ (by simp [List.length_take, writeDate_length]; omega)⟩

theorem readLimit_strong (l : Option Bytes) (h : limitOk l = true) : StrongP readLimit (writeLimit l) := by
  intro j hj
  have hl : (writeLimit l).length = 8 := by
    cases l with
    | none => rfl
    | some b => simp only [limitOk, Bool.and_eq_true, beq_iff_eq] at h; simpa [writeLimit] using h.1
  refine ⟨.structError, ?_⟩
  unfold readLimit
  rw [readExact_short]
  simp [List.length_take]; omega

theorem readStr_weak (s : Option Bytes) (h : optStrOk s = true) : WeakP readStr (writeStr s) := by
  intro j hj
  cases s with
  | none =>
    simp only [writeStr, List.length_cons, List.length_nil] at hj
    left
    refine ⟨.structError, ?_⟩
    have : j = 0 ∨ j = 1 := by omega
    rcases this with rfl | rfl <;> simp [writeStr, readStr]
  | some b =>
    simp only [optStrOk, strOk, Bool.and_eq_true, decide_eq_true_eq] at h
    obtain ⟨a, c, hab⟩ := natLE2_eq b.length
    have hn : leInt [a, c] = (b.length : Int) := by rw [← hab]; exact leInt_natLE2 _ h.1
    simp only [writeStr, hab, List.cons_append, List.nil_append, List.length_cons] at hj ⊢
    match j, hj with
    | 0, _ => left; exact ⟨.structError, by simp [readStr]⟩
    | 1, _ => left; exact ⟨.structError, by simp [readStr]⟩
    | k + 2, hj =>
      have h1 : ¬ ((b.length : Int) = -1) := by omega
      have h2 : ¬ ((b.length : Int) < 0) := by omega
      have ht : (List.take k b).take b.length = List.take k b := by
        rw [List.take_take]; congr 1; omega
      have hd : (List.take k b).drop b.length = [] := by
        simp [List.drop_eq_nil_iff, List.length_take]; omega
      simp only [List.take_succ_cons, readStr, hn, h1, h2, if_false, Int.toNat_natCast, ht, hd]
      by_cases hu : utf8Valid (List.take k b) = true
      · right; exact ⟨some (List.take k b), by simp [hu]⟩
      · left; exact ⟨.valueError, by simp [hu]⟩

theorem readStr_nil : readStr [] = .error .structError := rfl
theorem readDate_nil : readDate [] = .error .structError := rfl
theorem readLimit_nil : readLimit [] = .error .structError := rfl


theorem take_append_le {α} (l1 l2 : List α) (i : Nat) (h : i ≤ l1.length) :
    (l1 ++ l2).take i = l1.take i := by
  rw [List.take_append]
  have : i - l1.length = 0 := by omega
  simp [this]

theorem take_append_ge {α} (l1 l2 : List α) (i : Nat) (h : l1.length ≤ i) :
    (l1 ++ l2).take i = l1 ++ l2.take (i - l1.length) := by
  rw [List.take_append, List.take_of_length_le h]

theorem writeDims_length (dims : List Nat) : (writeDims dims).length = 4 * dims.length := by
  induction dims with
  | nil => rfl
  | cons d ds ih => simp [writeDims, natLE_length] at ih ⊢; omega

theorem readDims_strong (dims : List Nat) (h : dims.all (· < 4294967296) = true) :
    StrongP (readDims dims.length) (writeDims dims) := by
  induction dims with
  | nil => intro j hj; simp [writeDims] at hj
  | cons d ds ih =>
    simp only [List.all_cons, Bool.and_eq_true, decide_eq_true_eq] at h
    intro j hj
    have e : writeDims (d :: ds) = natLE 4 d ++ writeDims ds := by simp [writeDims]
    rw [e] at hj ⊢
    by_cases h4 : j < 4
    · rw [take_append_le _ _ _ (by rw [natLE_length]; omega)]
      refine ⟨.structError, ?_⟩
      simp only [List.length_cons, readDims]
      rw [readExact_short]
      simp [List.length_take, natLE_length]; omega
    · rw [take_append_ge _ _ _ (by rw [natLE_length]; omega)]
      simp only [List.length_cons, readDims, readExact_append _ _ 4 (natLE_length 4 d)]
      have hj' : j - (natLE 4 d).length < (writeDims ds).length := by
        simp only [List.length_append, natLE_length] at hj ⊢; omega
      obtain ⟨e', he'⟩ := ih h.2 _ hj'
      exact ⟨e', by rw [he']⟩

theorem readArrBody_strong (dims : List Nat) (p : Bytes) (h : arrOk dims p = true) :
    StrongP readArrBody (writeArrBody dims p) := by
  simp only [arrOk, Bool.and_eq_true, decide_eq_true_eq, beq_iff_eq] at h
  obtain ⟨⟨h1, h2⟩, h3⟩ := h
  have hn : (UInt8.ofNat dims.length).toNat = dims.length := by simp; omega
  intro j hj
  simp only [writeArrBody, List.length_cons, List.length_append] at hj
  match j, hj with
  | 0, _ => exact ⟨.structError, by simp [writeArrBody, readArrBody]⟩
  | i + 1, hj =>
    simp only [writeArrBody, List.take_succ_cons, readArrBody, hn]
    by_cases hi : i < (writeDims dims).length
    · rw [take_append_le _ _ _ (by omega)]
      obtain ⟨e', he'⟩ := readDims_strong dims h2 i hi
      exact ⟨e', by rw [he']⟩
    · rw [take_append_ge _ _ _ (by omega), readDims_writeDims dims h2]
      refine ⟨.valueError, ?_⟩
      have : (List.take (8 * dimsProd dims) (List.take (i - (writeDims dims).length) p)).length
          ≠ 8 * dimsProd dims := by
        simp only [List.length_take]; omega
      simp only [this, if_false]

theorem readVal_nil : readVal [] = .ok (.none, []) := rfl

theorem readVal_weak (v : RawVal) (h : valOk v = true) : WeakP readVal (writeVal v) := by
  obtain ⟨t1, t2, t3, t4, t5, t6, t7, t8, t9, -⟩ := tags
  intro j hj
  match j, hj with
  | 0, _ => right; exact ⟨.none, by simp [readVal]⟩
  | i + 1, hj =>
    cases v with
    | none => simp [writeVal] at hj
    | bool b =>
      simp only [writeVal, List.length_cons, List.length_nil] at hj
      have : i = 0 := by omega
      subst this
      left; exact ⟨.structError, by simp [writeVal, readVal, t1, t2, t3, t4, t5, t6, t7, t8]⟩
    | int x =>
      simp only [writeVal, List.length_cons, intLE, natLE_length] at hj
      left; refine ⟨.structError, ?_⟩
      have : readExact 8 (List.take i (intLE 8 x)) = .error .structError :=
        readExact_short _ _ (by simp [List.length_take, intLE, natLE_length]; omega)
      simp [writeVal, readVal, t1, t2, t3, t4, t5, t6, t7, t8, this]
    | flt b =>
      simp only [valOk, beq_iff_eq] at h
      simp only [writeVal, List.length_cons] at hj
      left; refine ⟨.structError, ?_⟩
      have : readExact 8 (List.take i b) = .error .structError :=
        readExact_short _ _ (by simp [List.length_take]; omega)
      simp [writeVal, readVal, t1, t2, t3, t4, t5, t6, t7, t8, this]
    | str s =>
      simp only [writeVal, List.length_cons] at hj
      rcases readStr_weak (some s) h i (by omega) with ⟨e, he⟩ | ⟨x, hx⟩
      · left; exact ⟨e, by simp [writeVal, readVal, t1, t2, t3, t4, t5, t6, t7, t8, he]⟩
      · right
        cases x with
        | none => exact ⟨.none, by simp [writeVal, readVal, t1, t2, t3, t4, t5, t6, t7, t8, hx]⟩
        | some b => exact ⟨.str b, by simp [writeVal, readVal, t1, t2, t3, t4, t5, t6, t7, t8, hx]⟩
    | date d =>
      simp only [writeVal, List.length_cons] at hj
      obtain ⟨e, he⟩ := readDate_strong d i (by omega)
      left; exact ⟨e, by simp [writeVal, readVal, t1, t2, t3, t4, t5, t6, t7, t8, he]⟩
    | intArr dims p =>
      simp only [writeVal, List.length_cons] at hj
      obtain ⟨e, he⟩ := readArrBody_strong dims p h i (by omega)
      left; exact ⟨e, by simp [writeVal, readVal, t1, t2, t3, t4, t5, t6, t7, t8, he]⟩
    | fltArr dims p =>
      simp only [writeVal, List.length_cons] at hj
      obtain ⟨e, he⟩ := readArrBody_strong dims p h i (by omega)
      left; exact ⟨e, by simp [writeVal, readVal, t1, t2, t3, t4, t5, t6, t7, t8, he]⟩


theorem readDictAux_nil (pool : List (Option Bytes)) (f : Nat) (acc : RawDict) :
    Fails (readDictAux pool f acc []) := by
  cases f with
  | zero => exact ⟨.other, rfl⟩
  | succ f => exact ⟨.structError, rfl⟩

theorem readDictAux_strong (pool : List Bytes) (hp : pool.length ≤ 65536) (d : RawDict)
    (hd : ∀ e ∈ d, valOk e.2 = true ∧ ∃ j, poolLookup pool e.1 = some j) :
    ∀ j, j < (writeDict pool d).length → ∀ (acc : RawDict) (fuel : Nat), j < fuel →
      Fails (readDictAux (pool.map some) fuel acc ((writeDict pool d).take j)) := by
  induction d with
  | nil =>
    intro j hj acc fuel hf
    simp only [writeDict, List.flatMap_nil, List.nil_append, List.length_cons, List.length_nil] at hj
    have : j = 0 := by omega
    subst this
    exact readDictAux_nil _ _ _
  | cons e tl ih =>
    intro j hj acc fuel hf
    obtain ⟨hv, i, hi⟩ := hd e (by simp)
    obtain ⟨hi1, hi2⟩ := poolLookup_spec hi
    have hilt : i < pool.length := (List.getElem?_eq_some_iff.mp hi2).1
    have e1 : writeDict pool (e :: tl) =
        UInt8.ofNat (i % 256) :: UInt8.ofNat (i / 256 % 256) :: (writeVal e.2 ++ writeDict pool tl) := by
      simp [writeDict, writeEntry, hi, natLE]
    have hpool : (pool.map some)[i]? = some (some e.1) := by simp [hi2]
    rw [e1] at hj ⊢
    match j, hj, fuel, hf with
    | 0, _, _, _ => exact readDictAux_nil _ _ _
    | 1, _, f + 1, _ =>
      exact ⟨.structError, by simp [readDictAux, idx_first_ne i hi1]⟩
    | k + 2, hj, f + 1, hf =>
      simp only [List.take_succ_cons]
      unfold readDictAux
      simp only [idx_first_ne i hi1, Bool.false_eq_true, if_false, leNat_idx i (by omega), hpool]
      simp only [List.length_cons, List.length_append] at hj
      by_cases hk : k < (writeVal e.2).length
      · rw [take_append_le _ _ _ (by omega)]
        rcases readVal_weak e.2 hv k hk with ⟨er, her⟩ | ⟨x, hx⟩
        · exact ⟨er, by rw [her]⟩
        · rw [hx]; exact readDictAux_nil _ _ _
      · rw [take_append_ge _ _ _ (by omega), readVal_writeVal e.2 hv]
        exact ih (fun e' he' => hd e' (by simp [he'])) _ (by omega) _ f (by omega)

theorem readDict_strong (pool : List Bytes) (hp : pool.length ≤ 65536) (d : RawDict)
    (hd : dictOk d = true) (hk : KeysIn pool d) : StrongP (readDict (pool.map some)) (writeDict pool d) := by
  intro j hj
  unfold readDict
  exact readDictAux_strong pool hp d (fun e he => ⟨dictOk_vals hd e he, hk e he⟩) j hj [] _
    (by simp [List.length_take]; omega)

theorem readDict_nil (pool : List (Option Bytes)) : Fails (readDict pool []) := ⟨.structError, rfl⟩


theorem readStrs_weak (l : List Bytes) (h : ∀ s ∈ l, strOk s = true) :
    WeakP (readStrs l.length) (l.flatMap (fun s => writeStr (some s))) := by
  induction l with
  | nil => intro j hj; simp at hj
  | cons s r ih =>
    intro j hj
    simp only [List.flatMap_cons, List.length_append] at hj
    simp only [List.flatMap_cons, List.length_cons, readStrs]
    by_cases hk : j < (writeStr (some s)).length
    · rw [take_append_le _ _ _ (by omega)]
      rcases readStr_weak (some s) (h s (by simp)) j hk with ⟨e, he⟩ | ⟨x, hx⟩
      · left; exact ⟨e, by rw [he]⟩
      · rw [hx]
        cases r with
        | nil => right; exact ⟨[x], by simp [readStrs]⟩
        | cons s' r' => left; exact ⟨.structError, by simp [readStrs, readStr]⟩
    · rw [take_append_ge _ _ _ (by omega), readStr_writeStr_some s (h s (by simp))]
      rcases ih (fun s' h' => h s' (by simp [h'])) (j - (writeStr (some s)).length) (by omega) with
        ⟨e, he⟩ | ⟨x, hx⟩
      · left; exact ⟨e, by simp only [he]⟩
      · right; exact ⟨some s :: x, by simp only [hx]⟩

theorem readPool_weak (pool : List Bytes) (hlen : pool.length < 32768)
    (h : ∀ s ∈ pool, strOk s = true) : WeakP readPool (writePool pool) := by
  have e : writePool pool =
      UInt8.ofNat (pool.length % 256) :: UInt8.ofNat (pool.length / 256 % 256) ::
        pool.flatMap (fun s => writeStr (some s)) := by
    simp [writePool, intLE2_nat _ hlen, natLE]
  rw [e]
  intro j hj
  match j, hj with
  | 0, _ => left; exact ⟨.structError, rfl⟩
  | 1, _ => left; exact ⟨.structError, rfl⟩
  | k + 2, hj =>
    simp only [List.take_succ_cons, readPool, leNat_idx pool.length (by omega)]
    exact readStrs_weak pool h k (by simpa using hj)


theorem bindP_fails_nil {α β} {r : P α} (k : α → P β) (h : Fails (r [])) : Fails (bindP r k []) := by
  obtain ⟨e, he⟩ := h
  exact ⟨e, by simp [bindP, he]⟩

theorem strong_last {α β} {r : P α} (k : α → P β) {w : Bytes} (st : StrongP r w) :
    StrongP (bindP r k) w := by
  intro j hj
  obtain ⟨e, he⟩ := st j hj
  exact ⟨e, by simp [bindP, he]⟩

/-- sequencing after a reader that may return early (having consumed everything) on a strict
prefix: the continuation must fail on empty input -/
theorem strong_seq_weak {α β} {r : P α} (k : α → P β) {w1 w2 : Bytes} {x : α}
    (rt : ∀ rest, r (w1 ++ rest) = .ok (x, rest)) (wk : WeakP r w1)
    (fe : ∀ a, Fails (k a [])) (st : StrongP (k x) w2) : StrongP (bindP r k) (w1 ++ w2) := by
  intro j hj
  simp only [List.length_append] at hj
  by_cases h1 : j < w1.length
  · rw [take_append_le _ _ _ (by omega)]
    rcases wk j h1 with ⟨e, he⟩ | ⟨v, hv⟩
    · exact ⟨e, by simp [bindP, he]⟩
    · obtain ⟨e, he⟩ := fe v
      exact ⟨e, by simp [bindP, hv, he]⟩
  · rw [take_append_ge _ _ _ (by omega)]
    obtain ⟨e, he⟩ := st (j - w1.length) (by omega)
    exact ⟨e, by simp [bindP, rt, he]⟩

theorem strong_seq_strong {α β} {r : P α} (k : α → P β) {w1 w2 : Bytes} {x : α}
    (rt : ∀ rest, r (w1 ++ rest) = .ok (x, rest)) (s1 : StrongP r w1)
    (st : StrongP (k x) w2) : StrongP (bindP r k) (w1 ++ w2) := by
  intro j hj
  simp only [List.length_append] at hj
  by_cases h1 : j < w1.length
  · rw [take_append_le _ _ _ (by omega)]
    obtain ⟨e, he⟩ := s1 j h1
    exact ⟨e, by simp [bindP, he]⟩
  · rw [take_append_ge _ _ _ (by omega)]
    obtain ⟨e, he⟩ := st (j - w1.length) (by omega)
    exact ⟨e, by simp [bindP, rt, he]⟩

theorem strongP_nil {α} (r : P α) : StrongP r [] := fun j hj => by simp at hj

theorem readMetaBody_strong (pool : List Bytes) (hp : pool.length ≤ 65536) (m : RawMetadata)
    (hm : metaOk m = true) (hk1 : KeysIn pool m.details) (hk2 : KeysIn pool m.lossDetails) :
    StrongP (readMetaBody (pool.map some)) (writeMetaBody pool m) := by
  simp only [metaOk, Bool.and_eq_true] at hm
  obtain ⟨⟨⟨⟨⟨⟨⟨h1, h2⟩, h3⟩, h4⟩, h5⟩, h6⟩, h7⟩, h8⟩ := hm
  have fs : ∀ {β} (k : Option Bytes → P β), Fails (bindP readStr k []) :=
    fun k => bindP_fails_nil k ⟨_, readStr_nil⟩
  unfold readMetaBody writeMetaBody
  refine strong_seq_weak _ (readStr_writeStr _ h1) (readStr_weak _ h1) (fun _ => fs _) ?_
  refine strong_seq_weak _ (readStr_writeStr _ h2) (readStr_weak _ h2) (fun _ => fs _) ?_
  refine strong_seq_weak _ (readStr_writeStr _ h3) (readStr_weak _ h3) (fun _ => fs _) ?_
  refine strong_seq_weak _ (readStr_writeStr _ h4) (readStr_weak _ h4)
    (fun _ => bindP_fails_nil _ ⟨_, readLimit_nil⟩) ?_
  refine strong_seq_weak _ (readStr_writeStr _ h5) (readStr_weak _ h5)
    (fun _ => bindP_fails_nil _ ⟨_, readLimit_nil⟩) ?_
  refine strong_seq_strong _ (readLimit_writeLimit _ h6) (readLimit_strong _ h6) ?_
  refine strong_seq_strong _ (readDict_writeDict' pool hp _ h7 hk1) (readDict_strong pool hp _ h7 hk1) ?_
  exact strong_last _ (readDict_strong pool hp _ h8 hk2)


theorem readCellBody_strong (pool : List Bytes) (hp : pool.length ≤ 65536) (c : RawCell)
    (hc : cellOk c = true) (hk : KeysIn pool c.values) :
    StrongP (readCellBody (pool.map some) c.kind c.md) (writeCellBody pool c) := by
  simp only [cellOk, Bool.and_eq_true] at hc
  obtain ⟨⟨⟨⟨⟨⟨h1, h2⟩, h3⟩, h4⟩, h5⟩, h6⟩, h7⟩ := hc
  obtain ⟨kind, ps, pe, ev, prev, values, md⟩ := c
  unfold readCellBody writeCellBody
  refine strong_seq_strong _ (readDate_writeDate _ h1) (readDate_strong _) ?_
  refine strong_seq_strong _ (readDate_writeDate _ h2) (readDate_strong _) ?_
  refine strong_seq_strong _ (readDate_writeDate _ h3) (readDate_strong _) ?_
  refine strong_seq_strong _ (readDict_writeDict' pool hp _ h4 hk) (readDict_strong pool hp _ h4 hk) ?_
  cases kind <;> cases prev <;> simp at h6
  · exact strongP_nil _
  · exact strongP_nil _
  · exact strong_last _ (readDate_strong _)

/-- the reader raised, or returned exactly some leading cells of `cells` -/
def PrefixResult (cells : List RawCell) (r : Except Err (List RawCell)) : Prop :=
  Fails r ∨ ∃ k, r = .ok (cells.take k)

theorem metaTag_self : (K.tMetadata == K.tMetadata) = true := by simp

theorem readRecords_prefix (pool : List Bytes) (hp : pool.length ≤ 65536)
    (cells : List RawCell) (hc : ∀ c ∈ cells, cellOk c = true ∧ CellIn pool c) :
    ∀ (prev : Option RawMetadata) (m fuel : Nat),
      ((writeRecords pool prev cells).take m).length < fuel →
      PrefixResult cells (readRecords (pool.map some) fuel prev ((writeRecords pool prev cells).take m)) := by
  induction cells with
  | nil =>
    intro prev m fuel hf
    cases fuel with
    | zero => simp at hf
    | succ f => right; exact ⟨0, by simp [writeRecords, readRecords]⟩
  | cons c cs ih =>
    obtain ⟨hok, hv, hd, hl⟩ := hc c (by simp)
    have hmeta : metaOk c.md = true := by
      simp only [cellOk, Bool.and_eq_true] at hok
      exact hok.1.1.2
    have ih' := ih (fun c' h' => hc c' (by simp [h']))
    -- the cell record and what follows, metadata already current
    have cellPart : ∀ (m fuel : Nat),
        (((kindTag c.kind :: writeCellBody pool c) ++ writeRecords pool (some c.md) cs).take m).length < fuel →
        PrefixResult (c :: cs) (readRecords (pool.map some) fuel (some c.md)
          (((kindTag c.kind :: writeCellBody pool c) ++ writeRecords pool (some c.md) cs).take m)) := by
      intro m fuel hf
      cases fuel with
      | zero => simp at hf
      | succ f =>
        match m with
        | 0 => right; exact ⟨0, by simp [readRecords]⟩
        | i + 1 =>
          simp only [List.cons_append, List.take_succ_cons, List.length_cons] at hf ⊢
          simp only [readRecords, kindTag_ne_meta, Bool.false_eq_true, if_false, markerKind_kindTag,
            Option.getD_some]
          by_cases hi : i < (writeCellBody pool c).length
          · rw [take_append_le _ _ _ (by omega)]
            obtain ⟨e, he⟩ := readCellBody_strong pool hp c hok hv i hi
            left; exact ⟨e, by rw [he]⟩
          · rw [take_append_ge _ _ _ (by omega)] at hf ⊢
            rw [readCellBody_writeCellBody pool hp c hok hv]
            simp only [List.length_append] at hf
            rcases ih' (some c.md) (i - (writeCellBody pool c).length) f (by omega) with ⟨e, he⟩ | ⟨k, hk⟩
            · left; exact ⟨e, by simp only [he]⟩
            · right; exact ⟨k + 1, by simp only [hk, List.take_succ_cons]⟩
    intro prev m fuel hf
    unfold writeRecords at hf ⊢
    by_cases hprev : prev = some c.md
    · subst hprev
      simp only [if_true, List.nil_append] at hf ⊢
      exact cellPart m fuel hf
    · simp only [hprev, if_false, List.cons_append] at hf ⊢
      cases fuel with
      | zero => simp at hf
      | succ f =>
        match m with
        | 0 => right; exact ⟨0, by simp [readRecords]⟩
        | i + 1 =>
          simp only [List.take_succ_cons, List.length_cons] at hf ⊢
          simp only [readRecords, metaTag_self, if_true]
          by_cases hi : i < (writeMetaBody pool c.md).length
          · rw [take_append_le _ _ _ (by omega)]
            obtain ⟨e, he⟩ := readMetaBody_strong pool hp c.md hmeta hd hl i hi
            left; exact ⟨e, by rw [he]⟩
          · rw [take_append_ge _ _ _ (by omega)] at hf ⊢
            rw [readMetaBody_writeMetaBody pool hp c.md hmeta hd hl]
            simp only [List.length_append] at hf
            exact cellPart _ f (by simp only [List.cons_append]; omega)


theorem encode_eq (t : RawTriangle) :
    encode t = 175 :: 54 :: 1 :: 0 :: 1 :: (writePool (poolOf t) ++ writeRecords (poolOf t) none t) := by
  have hm : K.magic = [175, 54, 1, 0] := by decide
  have hv : K.version = [1] := by decide
  simp [encode, hm, hv]

theorem decode_header_err (s : Bytes) (e : Err) (h : readPool s = .error e) :
    decode (175 :: 54 :: 1 :: 0 :: 1 :: s) = .error e := by
  have hm : K.magic = [175, 54, 1, 0] := by decide
  have hv : K.version = [1] := by decide
  simp [decode, hm, hv, h]

theorem decode_header_ok (s : Bytes) (pool : List (Option Bytes)) (rest : Bytes)
    (h : readPool s = .ok (pool, rest)) :
    decode (175 :: 54 :: 1 :: 0 :: 1 :: s) = readRecords pool (rest.length + 1) none rest := by
  have hm : K.magic = [175, 54, 1, 0] := by decide
  have hv : K.version = [1] := by decide
  simp [decode, hm, hv, h]

/-- **C19 (model).** Every strict prefix of a valid file either is refused or decodes to exactly
the leading cells of the original triangle. -/
theorem decode_prefix_safe_main (t : RawTriangle) (h : wf t = true) (n : Nat)
    (hn : n < (encode t).length) : PrefixResult t (decode ((encode t).take n)) := by
  obtain ⟨hc, hlen⟩ := wf_parts h
  rw [encode_eq] at hn ⊢
  by_cases h5 : n < 5
  · left
    have hm : K.magic = [175, 54, 1, 0] := by decide
    have hv : K.version = [1] := by decide
    refine ⟨.valueError, ?_⟩
    have : n = 0 ∨ n = 1 ∨ n = 2 ∨ n = 3 ∨ n = 4 := by omega
    rcases this with rfl | rfl | rfl | rfl | rfl <;> simp [decode, hm, hv]
  · obtain ⟨m, rfl⟩ : ∃ m, n = m + 5 := ⟨n - 5, by omega⟩
    simp only [List.take_succ_cons]
    simp only [List.length_cons, List.length_append] at hn
    by_cases hm : m < (writePool (poolOf t)).length
    · rw [take_append_le _ _ _ (by omega)]
      rcases readPool_weak (poolOf t) hlen (poolOf_strOk t hc) m hm with ⟨e, he⟩ | ⟨v, hv⟩
      · left; exact ⟨e, decode_header_err _ e he⟩
      · right; exact ⟨0, by rw [decode_header_ok _ _ _ hv]; simp [readRecords]⟩
    · rw [take_append_ge _ _ _ (by omega),
        decode_header_ok _ _ _ (readPool_writePool (poolOf t) hlen (poolOf_strOk t hc) _)]
      exact readRecords_prefix (poolOf t) (by omega) t
        (fun c hc' => ⟨hc c hc', cellIn_poolOf t c hc'⟩) none _ _ (by omega)

theorem prefixSafe_take (t : RawTriangle) (h : ∀ c ∈ t, cellOk c = true) (k : Nat) :
    Spec.C19.prefixSafe t (t.take k) = true := by
  have hlen : (t.take k).length ≤ t.length := by simp [List.length_take]; omega
  have htake : t.take (t.take k).length = t.take k := by
    rw [List.length_take]
    by_cases hk : k ≤ t.length
    · rw [Nat.min_eq_left hk]
    · rw [Nat.min_eq_right (by omega), List.take_of_length_le (Nat.le_refl _),
        List.take_of_length_le (by omega)]
  simp only [Spec.C19.prefixSafe, hlen, decide_true, Bool.true_and, htake]
  exact roundTrip_self (t.take k) (fun c hc => h c (List.mem_of_mem_take hc))

end Bermuda.Codec
