/-
Codec lemmas, part 5: the writer as it really decides (Python `Metadata.__eq__`), its agreement with
`encode` on coherent triangles, and the metadata-record count.
-/
import Bermuda.Lemmas.CodecPrefix
import Bermuda.Spec.C06
set_option linter.unusedSimpArgs false
namespace Bermuda.Codec
open Bermuda

theorem writeRecordsPy_eq (pool : List Bytes) (cells : List RawCell) (prev : Option RawMetadata)
    (h : coherentFrom prev cells = true) : writeRecordsPy pool prev cells = writeRecords pool prev cells := by
  induction cells generalizing prev with
  | nil => rfl
  | cons c cs ih =>
    simp only [coherentFrom, Bool.and_eq_true, beq_iff_eq] at h
    unfold writeRecordsPy writeRecords
    rw [ih _ h.2]
    by_cases hp : prev = some c.md
    · have hch : pyChanged prev c.md = false := by rw [h.1]; simp [hp]
      rw [if_pos hp]; simp [hch]
    · have hch : pyChanged prev c.md = true := by rw [h.1]; simp [hp]
      rw [if_neg hp]; simp [hch]

/-- on coherent triangles the writer-as-written and the representation-identity writer agree -/
theorem encodePy_eq_encode (t : RawTriangle) (h : coherent t = true) : encodePy t = encode t := by
  unfold encodePy encode
  rw [writeRecordsPy_eq _ _ _ h]

theorem skipCellBody_writeCellBody (pool : List Bytes) (hp : pool.length ≤ 65536) (c : RawCell)
    (hc : cellOk c = true) (hk : KeysIn pool c.values) (rest : Bytes) :
    skipCellBody (pool.map some) c.kind (writeCellBody pool c ++ rest) = .ok ((), rest) := by
  simp only [cellOk, Bool.and_eq_true] at hc
  obtain ⟨⟨⟨⟨⟨⟨h1, h2⟩, h3⟩, h4⟩, h5⟩, h6⟩, h7⟩ := hc
  obtain ⟨kind, ps, pe, ev, prev, values, md⟩ := c
  cases kind <;> cases prev <;> simp at h6
  all_goals
    simp only [writeCellBody, List.append_assoc, skipCellBody, bindP, readDate_writeDate _ h1,
      readDate_writeDate _ h2, readDate_writeDate _ h3, readDict_writeDict' pool hp _ h4 hk,
      List.nil_append]
  simp only [readDate_writeDate _ h6]

theorem writeRecordsPy_cons (pool : List Bytes) (prev : Option RawMetadata) (c : RawCell) (cs : List RawCell) :
    writeRecordsPy pool prev (c :: cs) =
      (if pyChanged prev c.md then K.tMetadata :: writeMetaBody pool c.md else []) ++
        ((kindTag c.kind :: writeCellBody pool c) ++ writeRecordsPy pool (some c.md) cs) := rfl

theorem metaChanges_cons (prev : Option RawMetadata) (c : RawCell) (cs : List RawCell) :
    metaChanges prev (c :: cs) = (if pyChanged prev c.md then 1 else 0) + metaChanges (some c.md) cs := rfl

theorem countMetaRecords_writeRecordsPy (pool : List Bytes) (hp : pool.length ≤ 65536)
    (cells : List RawCell) (hc : ∀ c ∈ cells, cellOk c = true ∧ CellIn pool c)
    (prev : Option RawMetadata) (fuel : Nat) (hf : (writeRecordsPy pool prev cells).length < fuel) :
    countMetaRecords (pool.map some) fuel (writeRecordsPy pool prev cells) = .ok (metaChanges prev cells) := by
  induction cells generalizing prev fuel with
  | nil =>
    cases fuel with
    | zero => omega
    | succ f => simp [writeRecordsPy, countMetaRecords, metaChanges]
  | cons c cs ih =>
    obtain ⟨hok, hv, hd, hl⟩ := hc c (by simp)
    have hmeta : metaOk c.md = true := by
      simp only [cellOk, Bool.and_eq_true] at hok
      exact hok.1.1.2
    have hcs : ∀ c' ∈ cs, cellOk c' = true ∧ CellIn pool c' := fun c' h' => hc c' (by simp [h'])
    have cellStep : ∀ (f : Nat), (writeRecordsPy pool (some c.md) cs).length < f →
        countMetaRecords (pool.map some) (f + 1)
          ((kindTag c.kind :: writeCellBody pool c) ++ writeRecordsPy pool (some c.md) cs) =
          .ok (metaChanges (some c.md) cs) := by
      intro f hf'
      simp only [List.cons_append, countMetaRecords, kindTag_ne_meta, Bool.false_eq_true, if_false,
        markerKind_kindTag, skipCellBody_writeCellBody pool hp c hok hv, ih hcs (some c.md) f hf']
    cases fuel with
    | zero => omega
    | succ f =>
      rw [writeRecordsPy_cons] at hf ⊢
      rw [metaChanges_cons]
      by_cases hch : pyChanged prev c.md = true
      · simp only [hch, if_true, List.cons_append, List.append_assoc] at hf ⊢
        cases f with
        | zero => simp at hf
        | succ f' =>
          rw [countMetaRecords]
          simp only [metaTag_self, if_true, readMetaBody_writeMetaBody pool hp c.md hmeta hd hl]
          have := cellStep f' (by simp only [List.length_cons, List.length_append] at hf ⊢; omega)
          simp only [List.cons_append] at this
          rw [this]
          simp [Except.map, Nat.add_comm]
      · simp only [hch, Bool.false_eq_true, if_false, List.nil_append, Nat.zero_add] at hf ⊢
        exact cellStep f (by simp only [List.cons_append, List.length_cons, List.length_append] at hf ⊢; omega)

/-- the writer emits exactly one metadata record per metadata change (Python's `!=`) -/
theorem fileMetaRecords_encodePy (t : RawTriangle) (h : wf t = true) :
    fileMetaRecords (encodePy t) = .ok (metaChanges none t) := by
  obtain ⟨hc, hlen⟩ := wf_parts h
  have hm : K.magic = [175, 54, 1, 0] := by decide
  have hv : K.version = [1] := by decide
  have e1 : (encodePy t).take 4 = K.magic := by simp [encodePy, hm]
  have e2 : ((encodePy t).drop 4).take 1 = K.version := by simp [encodePy, hm, hv]
  have e3 : (encodePy t).drop 5 = writePool (poolOf t) ++ writeRecordsPy (poolOf t) none t := by
    simp [encodePy, hm, hv]
  unfold fileMetaRecords
  simp only [e1, e2, ne_eq, not_true_eq_false, if_false, e3,
    readPool_writePool (poolOf t) hlen (poolOf_strOk t hc)]
  exact countMetaRecords_writeRecordsPy (poolOf t) (by omega) t
    (fun c hc' => ⟨hc c hc', cellIn_poolOf t c hc'⟩) none _ (by omega)

theorem recordsOnChange_encodePy (t : RawTriangle) (h : wf t = true) :
    Spec.C06.recordsOnChange t (encodePy t) = true := by
  simp [Spec.C06.recordsOnChange, fileMetaRecords_encodePy t h]
/-! ### what comes back from the writer as written, for EVERY well-formed triangle (audit follow-up) -/

theorem cellInit_withMd (c : RawCell) (m : RawMetadata) :
    (match cellInit { c with md := m } with | .ok _ => true | .error _ => false) =
    (match cellInit c with | .ok _ => true | .error _ => false) := by
  unfold cellInit
  simp only []
  by_cases h1 : (!List.all c.values fun e => cellValOk e.snd) = true
  · simp [h1]
  · by_cases h2 : c.pe < c.ps
    · simp [h1, h2]
    · by_cases h3 : c.ev < c.ps
      · simp [h1, h2, h3]
      · by_cases h4 : (c.ev == Date.max) = true
        · simp [h1, h2, h3, h4]
        · cases hp : c.prev with
          | none => simp [h1, h2, h3, h4]
          | some p =>
            by_cases h5 : c.ev ≤ p
            · simp [h1, h2, h3, h4, h5]
            · simp [h1, h2, h3, h4, h5]

theorem cellOk_withMd {c : RawCell} {m : RawMetadata} (hc : cellOk c = true) (hm : metaOk m = true) :
    cellOk { c with md := m } = true := by
  have e := cellInit_withMd c m
  simp only [cellOk, Bool.and_eq_true] at hc ⊢
  obtain ⟨⟨⟨⟨⟨⟨h1, h2⟩, h3⟩, h4⟩, _⟩, h6⟩, h7⟩ := hc
  exact ⟨⟨⟨⟨⟨⟨h1, h2⟩, h3⟩, h4⟩, hm⟩, h6⟩, e.trans h7⟩

theorem firstReprFrom_cons (prev cur : Option RawMetadata) (c : RawCell) (cs : List RawCell) :
    firstReprFrom prev cur (c :: cs) =
      if pyChanged prev c.md then c :: firstReprFrom (some c.md) (some c.md) cs
      else { c with md := cur.getD c.md } :: firstReprFrom (some c.md) cur cs := rfl

theorem readRecords_writeRecordsPy (pool : List Bytes) (hp : pool.length ≤ 65536)
    (cells : List RawCell) (hc : ∀ c ∈ cells, cellOk c = true ∧ CellIn pool c)
    (prev cur : Option RawMetadata) (hcur : ∀ m, cur = some m → metaOk m = true)
    (hpc : prev.isSome = true → cur.isSome = true)
    (fuel : Nat) (hf : (writeRecordsPy pool prev cells).length < fuel) :
    readRecords (pool.map some) fuel cur (writeRecordsPy pool prev cells) = .ok (firstReprFrom prev cur cells) := by
  induction cells generalizing prev cur fuel with
  | nil =>
    cases fuel with
    | zero => omega
    | succ f => simp [writeRecordsPy, readRecords, firstReprFrom]
  | cons c cs ih =>
    obtain ⟨hok, hv, hd, hl⟩ := hc c (by simp)
    have hmeta : metaOk c.md = true := by
      simp only [cellOk, Bool.and_eq_true] at hok
      exact hok.1.1.2
    have hcs : ∀ c' ∈ cs, cellOk c' = true ∧ CellIn pool c' := fun c' h' => hc c' (by simp [h'])
    -- the cell record read under the current record `m`, followed by the remaining records
    have cellStep : ∀ (m : RawMetadata) (f : Nat), metaOk m = true →
        (writeRecordsPy pool (some c.md) cs).length < f →
        readRecords (pool.map some) (f + 1) (some m)
          ((kindTag c.kind :: writeCellBody pool c) ++ writeRecordsPy pool (some c.md) cs) =
          .ok ({ c with md := m } :: firstReprFrom (some c.md) (some m) cs) := by
      intro m f hm hf'
      have hc' : cellOk { c with md := m } = true := cellOk_withMd hok hm
      have hb := readCellBody_writeCellBody pool hp { c with md := m } hc' hv
        (writeRecordsPy pool (some c.md) cs)
      have hw : writeCellBody pool { c with md := m } = writeCellBody pool c := rfl
      rw [hw] at hb
      simp only [List.cons_append, readRecords, kindTag_ne_meta, Bool.false_eq_true, if_false,
        markerKind_kindTag, Option.getD_some, hb,
        ih hcs (some c.md) (some m) (fun m' e => by cases e; exact hm) (fun _ => rfl) f hf']
    cases fuel with
    | zero => omega
    | succ f =>
      rw [writeRecordsPy_cons] at hf ⊢
      rw [firstReprFrom_cons]
      by_cases hch : pyChanged prev c.md = true
      · simp only [hch, if_true, List.cons_append, List.append_assoc] at hf ⊢
        cases f with
        | zero => simp at hf
        | succ f' =>
          have hm : (K.tMetadata == K.tMetadata) = true := by simp
          rw [readRecords]
          simp only [hm, if_true, readMetaBody_writeMetaBody pool hp c.md hmeta hd hl]
          have := cellStep c.md f' hmeta (by simp only [List.length_cons, List.length_append] at hf ⊢; omega)
          simpa using this
      · simp only [hch, Bool.false_eq_true, if_false, List.nil_append] at hf ⊢
        -- not changed: there was a previous cell, hence a current record
        have hps : prev.isSome = true := by
          cases prev with
          | none => simp [pyChanged] at hch
          | some p => rfl
        obtain ⟨m, hm⟩ := Option.isSome_iff_exists.mp (hpc hps)
        subst hm
        simp only [Option.getD_some]
        exact cellStep m f (hcur m rfl)
          (by simp only [List.cons_append, List.length_cons, List.length_append] at hf ⊢; omega)

/-- **the writer as written, without `coherent`**: reading back `to_binary`'s file gives every cell with the
metadata representation of the first cell of its run of Python-equal metadata -/
theorem decode_encodePy_firstRepr (t : RawTriangle) (h : wf t = true) : decode (encodePy t) = .ok (firstRepr t) := by
  obtain ⟨hc, hlen⟩ := wf_parts h
  have hm : K.magic = [175, 54, 1, 0] := by decide
  have hv : K.version = [1] := by decide
  have e1 : (encodePy t).take 4 = K.magic := by simp [encodePy, hm]
  have e2 : ((encodePy t).drop 4).take 1 = K.version := by simp [encodePy, hm, hv]
  have e3 : (encodePy t).drop 5 = writePool (poolOf t) ++ writeRecordsPy (poolOf t) none t := by
    simp [encodePy, hm, hv]
  unfold decode firstRepr
  simp only [e1, e2, ne_eq, not_true_eq_false, if_false, e3,
    readPool_writePool (poolOf t) hlen (poolOf_strOk t hc)]
  exact readRecords_writeRecordsPy (poolOf t) (by omega) t
    (fun c hc' => ⟨hc c hc', cellIn_poolOf t c hc'⟩) none none (fun m e => by cases e) (fun e => by cases e) _ (by omega)

/-- on coherent triangles nothing changes representation -/
theorem firstReprFrom_of_coherent (cells : List RawCell) (prev : Option RawMetadata)
    (h : coherentFrom prev cells = true) : firstReprFrom prev prev cells = cells := by
  induction cells generalizing prev with
  | nil => rfl
  | cons c cs ih =>
    simp only [coherentFrom, Bool.and_eq_true, beq_iff_eq] at h
    rw [firstReprFrom_cons]
    by_cases hch : pyChanged prev c.md = true
    · simp [hch, ih (some c.md) h.2]
    · have hp : prev = some c.md := by
        have := h.1
        simp only [Bool.not_eq_true] at hch
        rw [hch] at this
        simpa using this.symm
      subst hp
      simp [hch, ih (some c.md) h.2]

theorem firstRepr_of_coherent (t : RawTriangle) (h : coherent t = true) : firstRepr t = t :=
  firstReprFrom_of_coherent t none h

/-! ### prefix safety of the writer as written, for EVERY well-formed triangle (final round) -/

theorem readRecords_prefix_py (pool : List Bytes) (hp : pool.length ≤ 65536)
    (cells : List RawCell) (hc : ∀ c ∈ cells, cellOk c = true ∧ CellIn pool c) :
    ∀ (prev cur : Option RawMetadata), (∀ m, cur = some m → metaOk m = true) →
      (prev.isSome = true → cur.isSome = true) → ∀ (m fuel : Nat),
      ((writeRecordsPy pool prev cells).take m).length < fuel →
      PrefixResult (firstReprFrom prev cur cells)
        (readRecords (pool.map some) fuel cur ((writeRecordsPy pool prev cells).take m)) := by
  induction cells with
  | nil =>
    intro prev cur _ _ m fuel hf
    cases fuel with
    | zero => simp at hf
    | succ f => right; exact ⟨0, by simp [writeRecordsPy, readRecords, firstReprFrom]⟩
  | cons c cs ih =>
    obtain ⟨hok, hv, hd, hl⟩ := hc c (by simp)
    have hmeta : metaOk c.md = true := by
      simp only [cellOk, Bool.and_eq_true] at hok
      exact hok.1.1.2
    have ih' := ih (fun c' h' => hc c' (by simp [h']))
    -- the cell record read under the current record `md0`, and what follows
    have cellPart : ∀ (md0 : RawMetadata), metaOk md0 = true → ∀ (m fuel : Nat),
        (((kindTag c.kind :: writeCellBody pool c) ++ writeRecordsPy pool (some c.md) cs).take m).length < fuel →
        PrefixResult ({ c with md := md0 } :: firstReprFrom (some c.md) (some md0) cs)
          (readRecords (pool.map some) fuel (some md0)
            (((kindTag c.kind :: writeCellBody pool c) ++ writeRecordsPy pool (some c.md) cs).take m)) := by
      intro md0 hm0 m fuel hf
      have hok' : cellOk { c with md := md0 } = true := cellOk_withMd hok hm0
      have hw : writeCellBody pool { c with md := md0 } = writeCellBody pool c := rfl
      cases fuel with
      | zero => simp at hf
      | succ f =>
        match m with
        | 0 => right; exact ⟨0, by simp [readRecords]⟩
        | i + 1 =>
          simp only [List.cons_append, List.take_succ_cons, List.length_cons] at hf ⊢
          simp only [readRecords, kindTag_ne_meta, Bool.false_eq_true, if_false, markerKind_kindTag,
            Option.getD_some]
          by_cases hi : i < (writeCellBody pool c).length
          · rw [take_append_le _ _ _ (by omega)]
            have hs := readCellBody_strong pool hp { c with md := md0 } hok' hv
            rw [hw] at hs
            obtain ⟨e, he⟩ := hs i hi
            left; exact ⟨e, by rw [he]⟩
          · rw [take_append_ge _ _ _ (by omega)] at hf ⊢
            have hb := readCellBody_writeCellBody pool hp { c with md := md0 } hok' hv
            rw [hw] at hb
            rw [hb]
            simp only [List.length_append] at hf
            rcases ih' (some c.md) (some md0) (fun m' e => by cases e; exact hm0) (fun _ => rfl)
                (i - (writeCellBody pool c).length) f (by omega) with ⟨e, he⟩ | ⟨k, hk⟩
            · left; exact ⟨e, by simp only [he]⟩
            · right; exact ⟨k + 1, by simp only [hk, List.take_succ_cons]⟩
    intro prev cur hcur hpc m fuel hf
    rw [writeRecordsPy_cons] at hf ⊢
    rw [firstReprFrom_cons]
    by_cases hch : pyChanged prev c.md = true
    · simp only [hch, if_true, List.cons_append] at hf ⊢
      cases fuel with
      | zero => simp at hf
      | succ f =>
        match m with
        | 0 => right; exact ⟨0, by simp [readRecords]⟩
        | i + 1 =>
          simp only [List.take_succ_cons, List.length_cons] at hf ⊢
          simp only [readRecords, metaTag_self, if_true]
          by_cases hi : i < (writeMetaBody pool c.md).length
          · rw [take_append_le _ _ _ (by omega)]
            obtain ⟨e, he⟩ := readMetaBody_strong pool hp c.md hmeta hd hl i hi
            left; exact ⟨e, by rw [he]⟩
          · rw [take_append_ge _ _ _ (by omega)] at hf ⊢
            rw [readMetaBody_writeMetaBody pool hp c.md hmeta hd hl]
            simp only [List.length_append] at hf
            exact cellPart c.md hmeta (i - (writeMetaBody pool c.md).length) f
              (by simp only [List.cons_append]; omega)
    · simp only [hch, Bool.false_eq_true, if_false, List.nil_append] at hf ⊢
      have hps : prev.isSome = true := by
        cases prev with
        | none => simp [pyChanged] at hch
        | some p => rfl
      obtain ⟨md0, hmd0⟩ := Option.isSome_iff_exists.mp (hpc hps)
      subst hmd0
      simp only [Option.getD_some]
      exact cellPart md0 (hcur md0 rfl) m fuel hf

theorem encodePy_eq' (t : RawTriangle) :
    encodePy t = 175 :: 54 :: 1 :: 0 :: 1 :: (writePool (poolOf t) ++ writeRecordsPy (poolOf t) none t) := by
  have hm : K.magic = [175, 54, 1, 0] := by decide
  have hv : K.version = [1] := by decide
  simp [encodePy, hm, hv]

/-- **C19 for the writer as written, without `coherent`**: every strict prefix of the file `to_binary` really wrote is
refused or decodes to exactly the leading cells of `firstRepr t` (= what the untorn file decodes to) -/
theorem decode_prefix_safe_firstRepr_main (t : RawTriangle) (h : wf t = true) (n : Nat)
    (hn : n < (encodePy t).length) : PrefixResult (firstRepr t) (decode ((encodePy t).take n)) := by
  obtain ⟨hc, hlen⟩ := wf_parts h
  rw [encodePy_eq'] at hn ⊢
  by_cases h5 : n < 5
  · left
    have hm : K.magic = [175, 54, 1, 0] := by decide
    have hv : K.version = [1] := by decide
    refine ⟨.valueError, ?_⟩
    have : n = 0 ∨ n = 1 ∨ n = 2 ∨ n = 3 ∨ n = 4 := by omega
    rcases this with rfl | rfl | rfl | rfl | rfl <;> simp [decode, hm, hv]
  · obtain ⟨m, rfl⟩ : ∃ m, n = m + 5 := ⟨n - 5, by omega⟩
    simp only [List.take_succ_cons]
    simp only [List.length_cons, List.length_append] at hn
    by_cases hm : m < (writePool (poolOf t)).length
    · rw [take_append_le _ _ _ (by omega)]
      rcases readPool_weak (poolOf t) hlen (poolOf_strOk t hc) m hm with ⟨e, he⟩ | ⟨v, hv⟩
      · left; exact ⟨e, decode_header_err _ e he⟩
      · right; exact ⟨0, by rw [decode_header_ok _ _ _ hv]; simp [readRecords]⟩
    · rw [take_append_ge _ _ _ (by omega),
        decode_header_ok _ _ _ (readPool_writePool (poolOf t) hlen (poolOf_strOk t hc) _)]
      exact readRecords_prefix_py (poolOf t) (by omega) t
        (fun c hc' => ⟨hc c hc', cellIn_poolOf t c hc'⟩) none none (fun m e => by cases e)
        (fun e => by cases e) _ _ (by omega)

theorem firstReprFrom_cellOk (cells : List RawCell) (hc : ∀ c ∈ cells, cellOk c = true) :
    ∀ (prev cur : Option RawMetadata), (∀ m, cur = some m → metaOk m = true) →
      ∀ c ∈ firstReprFrom prev cur cells, cellOk c = true := by
  induction cells with
  | nil => intro _ _ _ c hcm; simp [firstReprFrom] at hcm
  | cons c0 cs ih =>
    intro prev cur hcur c hcm
    have hok := hc c0 (by simp)
    have hmeta : metaOk c0.md = true := by
      simp only [cellOk, Bool.and_eq_true] at hok
      exact hok.1.1.2
    have ih' := ih (fun c' h' => hc c' (by simp [h']))
    rw [firstReprFrom_cons] at hcm
    by_cases hch : pyChanged prev c0.md = true
    · simp only [hch, if_true, List.mem_cons] at hcm
      rcases hcm with rfl | hcm
      · exact hok
      · exact ih' (some c0.md) (some c0.md) (fun m e => by cases e; exact hmeta) c hcm
    · simp only [hch, Bool.false_eq_true, if_false, List.mem_cons] at hcm
      rcases hcm with rfl | hcm
      · cases cur with
        | none => simpa using hok
        | some m => exact cellOk_withMd hok (hcur m rfl)
      · exact ih' (some c0.md) cur hcur c hcm

theorem firstRepr_cellOk (t : RawTriangle) (h : wf t = true) : ∀ c ∈ firstRepr t, cellOk c = true :=
  firstReprFrom_cellOk t (wf_parts h).1 none none (fun m e => by cases e)

end Bermuda.Codec
