/-
Codec lemmas, part 5: the writer as it really decides (Python `Metadata.__eq__`), its agreement with
`encode` on coherent triangles, and the metadata-record count.
-/
import Bermuda.Lemmas.CodecPrefix
import Bermuda.Spec.C06
set_option linter.unusedSimpArgs false
namespace Bermuda.Codec
open Bermuda

theorem writeRecordsPy_eq (pool : List Bytes) (cells : List RawCell) (prev : Option RawMetadata)
    (h : coherentFrom prev cells = true) : writeRecordsPy pool prev cells = writeRecords pool prev cells := by
  induction cells generalizing prev with
  | nil => rfl
  | cons c cs ih =>
    simp only [coherentFrom, Bool.and_eq_true, beq_iff_eq] at h
    unfold writeRecordsPy writeRecords
    rw [ih _ h.2]
    by_cases hp : prev = some c.md
    · have hch : pyChanged prev c.md = false := by rw [h.1]; simp [hp]
      rw [if_pos hp]; simp [hch]
    · have hch : pyChanged prev c.md = true := by rw [h.1]; simp [hp]
      rw [if_neg hp]; simp [hch]

/-- on coherent triangles the writer-as-written and the representation-identity writer agree -/
theorem encodePy_eq_encode (t : RawTriangle) (h : coherent t = true) : encodePy t = encode t := by
  unfold encodePy encode
  rw [writeRecordsPy_eq _ _ _ h]

theorem skipCellBody_writeCellBody (pool : List Bytes) (hp : pool.length ≤ 65536) (c : RawCell)
    (hc : cellOk c = true) (hk : KeysIn pool c.values) (rest : Bytes) :
    skipCellBody (pool.map some) c.kind (writeCellBody pool c ++ rest) = .ok ((), rest) := by
  simp only [cellOk, Bool.and_eq_true] at hc
  obtain ⟨⟨⟨⟨⟨⟨h1, h2⟩, h3⟩, h4⟩, h5⟩, h6⟩, h7⟩ := hc
  obtain ⟨kind, ps, pe, ev, prev, values, md⟩ := c
  cases kind <;> cases prev <;> simp at h6
  all_goals
    simp only [writeCellBody, List.append_assoc, skipCellBody, bindP, readDate_writeDate _ h1,
      readDate_writeDate _ h2, readDate_writeDate _ h3, readDict_writeDict' pool hp _ h4 hk,
      List.nil_append]
  simp only [readDate_writeDate _ h6]

theorem writeRecordsPy_cons (pool : List Bytes) (prev : Option RawMetadata) (c : RawCell) (cs : List RawCell) :
    writeRecordsPy pool prev (c :: cs) =
      (if pyChanged prev c.md then K.tMetadata :: writeMetaBody pool c.md else []) ++
        ((kindTag c.kind :: writeCellBody pool c) ++ writeRecordsPy pool (some c.md) cs) := rfl

theorem metaChanges_cons (prev : Option RawMetadata) (c : RawCell) (cs : List RawCell) :
    metaChanges prev (c :: cs) = (if pyChanged prev c.md then 1 else 0) + metaChanges (some c.md) cs := rfl

theorem countMetaRecords_writeRecordsPy (pool : List Bytes) (hp : pool.length ≤ 65536)
    (cells : List RawCell) (hc : ∀ c ∈ cells, cellOk c = true ∧ CellIn pool c)
    (prev : Option RawMetadata) (fuel : Nat) (hf : (writeRecordsPy pool prev cells).length < fuel) :
    countMetaRecords (pool.map some) fuel (writeRecordsPy pool prev cells) = .ok (metaChanges prev cells) := by
  induction cells generalizing prev fuel with
  | nil =>
    cases fuel with
    | zero => omega
    | succ f => simp [writeRecordsPy, countMetaRecords, metaChanges]
  | cons c cs ih =>
    obtain ⟨hok, hv, hd, hl⟩ := hc c (by simp)
    have hmeta : metaOk c.md = true := by
      simp only [cellOk, Bool.and_eq_true] at hok
      exact hok.1.1.2
    have hcs : ∀ c' ∈ cs, cellOk c' = true ∧ CellIn pool c' := fun c' h' => hc c' (by simp [h'])
    have cellStep : ∀ (f : Nat), (writeRecordsPy pool (some c.md) cs).length < f →
        countMetaRecords (pool.map some) (f + 1)
          ((kindTag c.kind :: writeCellBody pool c) ++ writeRecordsPy pool (some c.md) cs) =
          .ok (metaChanges (some c.md) cs) := by
      intro f hf'
      simp only [List.cons_append, countMetaRecords, kindTag_ne_meta, Bool.false_eq_true, if_false,
        markerKind_kindTag, skipCellBody_writeCellBody pool hp c hok hv, ih hcs (some c.md) f hf']
    cases fuel with
    | zero => omega
    | succ f =>
      rw [writeRecordsPy_cons] at hf ⊢
      rw [metaChanges_cons]
      by_cases hch : pyChanged prev c.md = true
      · simp only [hch, if_true, List.cons_append, List.append_assoc] at hf ⊢
        cases f with
        | zero => simp at hf
        | succ f' =>
          rw [countMetaRecords]
          simp only [metaTag_self, if_true, readMetaBody_writeMetaBody pool hp c.md hmeta hd hl]
          have := cellStep f' (by simp only [List.length_cons, List.length_append] at hf ⊢; omega)
          simp only [List.cons_append] at this
          rw [this]
          simp [Except.map, Nat.add_comm]
      · simp only [hch, Bool.false_eq_true, if_false, List.nil_append, Nat.zero_add] at hf ⊢
        exact cellStep f (by simp only [List.cons_append, List.length_cons, List.length_append] at hf ⊢; omega)

/-- the writer emits exactly one metadata record per metadata change (Python's `!=`) -/
theorem fileMetaRecords_encodePy (t : RawTriangle) (h : wf t = true) :
    fileMetaRecords (encodePy t) = .ok (metaChanges none t) := by
  obtain ⟨hc, hlen⟩ := wf_parts h
  have hm : K.magic = [175, 54, 1, 0] := by decide
  have hv : K.version = [1] := by decide
  have e1 : (encodePy t).take 4 = K.magic := by simp [encodePy, hm]
  have e2 : ((encodePy t).drop 4).take 1 = K.version := by simp [encodePy, hm, hv]
  have e3 : (encodePy t).drop 5 = writePool (poolOf t) ++ writeRecordsPy (poolOf t) none t := by
    simp [encodePy, hm, hv]
  unfold fileMetaRecords
  simp only [e1, e2, ne_eq, not_true_eq_false, if_false, e3,
    readPool_writePool (poolOf t) hlen (poolOf_strOk t hc)]
  exact countMetaRecords_writeRecordsPy (poolOf t) (by omega) t
    (fun c hc' => ⟨hc c hc', cellIn_poolOf t c hc'⟩) none _ (by omega)

theorem recordsOnChange_encodePy (t : RawTriangle) (h : wf t = true) :
    Spec.C06.recordsOnChange t (encodePy t) = true := by
  simp [Spec.C06.recordsOnChange, fileMetaRecords_encodePy t h]
/-! ### what comes back from the writer as written, for EVERY well-formed triangle (audit follow-up) -/

theorem cellInit_withMd (c : RawCell) (m : RawMetadata) :
    (match cellInit { c with md := m } with | .ok _ => true | .error _ => false) =
    (match cellInit c with | .ok _ => true | .error _ => false) := by
  unfold cellInit
  simp only []
  by_cases h1 : (!List.all c.values fun e => cellValOk e.snd) = true
  · simp [h1]
  · by_cases h2 : c.pe < c.ps
    · simp [h1, h2]
    · by_cases h3 : c.ev < c.ps
      · simp [h1, h2, h3]
      · by_cases h4 : (c.ev == Date.max) = true
        · simp [h1, h2, h3, h4]
        · cases hp : c.prev with
          | none => simp [h1, h2, h3, h4]
          | some p =>
            by_cases h5 : c.ev ≤ p
            · simp [h1, h2, h3, h4, h5]
            · simp [h1, h2, h3, h4, h5]

theorem cellOk_withMd {c : RawCell} {m : RawMetadata} (hc : cellOk c = true) (hm : metaOk m = true) :
    cellOk { c with md := m } = true := by
  have e := cellInit_withMd c m
  simp only [cellOk, Bool.and_eq_true] at hc ⊢
  obtain ⟨⟨⟨⟨⟨⟨h1, h2⟩, h3⟩, h4⟩, _⟩, h6⟩, h7⟩ := hc
  exact ⟨⟨⟨⟨⟨⟨h1, h2⟩, h3⟩, h4⟩, hm⟩, h6⟩, e.trans h7⟩

theorem firstReprFrom_cons (prev cur : Option RawMetadata) (c : RawCell) (cs : List RawCell) :
    firstReprFrom prev cur (c :: cs) =
      if pyChanged prev c.md then c :: firstReprFrom (some c.md) (some c.md) cs
      else { c with md := cur.getD c.md } :: firstReprFrom (some c.md) cur cs := rfl

theorem readRecords_writeRecordsPy (pool : List Bytes) (hp : pool.length ≤ 65536)
    (cells : List RawCell) (hc : ∀ c ∈ cells, cellOk c = true ∧ CellIn pool c)
    (prev cur : Option RawMetadata) (hcur : ∀ m, cur = some m → metaOk m = true)
    (hpc : prev.isSome = true → cur.isSome = true)
    (fuel : Nat) (hf : (writeRecordsPy pool prev cells).length < fuel) :
    readRecords (pool.map some) fuel cur (writeRecordsPy pool prev cells) = .ok (firstReprFrom prev cur cells) := by
  induction cells generalizing prev cur fuel with
  | nil =>
    cases fuel with
    | zero => omega
    | succ f => simp [writeRecordsPy, readRecords, firstReprFrom]
  | cons c cs ih =>
    obtain ⟨hok, hv, hd, hl⟩ := hc c (by simp)
    have hmeta : metaOk c.md = true := by
      simp only [cellOk, Bool.and_eq_true] at hok
      exact hok.1.1.2
    have hcs : ∀ c' ∈ cs, cellOk c' = true ∧ CellIn pool c' := fun c' h' => hc c' (by simp [h'])
    -- the cell record read under the current record `m`, followed by the remaining records
    have cellStep : ∀ (m : RawMetadata) (f : Nat), metaOk m = true →
        (writeRecordsPy pool (some c.md) cs).length < f →
        readRecords (pool.map some) (f + 1) (some m)
          ((kindTag c.kind :: writeCellBody pool c) ++ writeRecordsPy pool (some c.md) cs) =
          .ok ({ c with md := m } :: firstReprFrom (some c.md) (some m) cs) := by
      intro m f hm hf'
      have hc' : cellOk { c with md := m } = true := cellOk_withMd hok hm
      have hb := readCellBody_writeCellBody pool hp { c with md := m } hc' hv
        (writeRecordsPy pool (some c.md) cs)
      have hw : writeCellBody pool { c with md := m } = writeCellBody pool c := rfl
      rw [hw] at hb
      simp only [List.cons_append, readRecords, kindTag_ne_meta, Bool.false_eq_true, if_false,
        markerKind_kindTag, Option.getD_some, hb,
        ih hcs (some c.md) (some m) (fun m' e => by cases e; exact hm) (fun _ => rfl) f hf']
    cases fuel with
    | zero => omega
    | succ f =>
      rw [writeRecordsPy_cons] at hf ⊢
      rw [firstReprFrom_cons]
      by_cases hch : pyChanged prev c.md = true
      · simp only [hch, if_true, List.cons_append, List.append_assoc] at hf ⊢
        cases f with
        | zero => simp at hf
        | succ f' =>
          have hm : (K.tMetadata == K.tMetadata) = true := by simp
          rw [readRecords]
          simp only [hm, if_true, readMetaBody_writeMetaBody pool hp c.md hmeta hd hl]
          have := cellStep c.md f' hmeta (by simp only [List.length_cons, List.length_append] at hf ⊢; omega)
          simpa using this
      · simp only [hch, Bool.false_eq_true, if_false, List.nil_append] at hf ⊢
        -- not changed: there was a previous cell, hence a current record
        have hps : prev.isSome = true := by
          cases prev with
          | none => simp [pyChanged] at hch
          | some p => rfl
        obtain ⟨m, hm⟩ := Option.isSome_iff_exists.mp (hpc hps)
        subst hm
        simp only [Option.getD_some]
        exact cellStep m f (hcur m rfl)
          (by simp only [List.cons_append, List.length_cons, List.length_append] at hf ⊢; omega)

/-- **the writer as written, without `coherent`**: reading back `to_binary`'s file gives every cell with the
metadata representation of the first cell of its run of Python-equal metadata -/
theorem decode_encodePy_firstRepr (t : RawTriangle) (h : wf t = true) : decode (encodePy t) = .ok (firstRepr t) := by
  obtain ⟨hc, hlen⟩ := wf_parts h
  have hm : K.magic = [175, 54, 1, 0] := by decide
  have hv : K.version = [1] := by decide
  have e1 : (encodePy t).take 4 = K.magic := by simp [encodePy, hm]
  have e2 : ((encodePy t).drop 4).take 1 = K.version := by simp [encodePy, hm, hv]
  have e3 : (encodePy t).drop 5 = writePool (poolOf t) ++ writeRecordsPy (poolOf t) none t := by
    simp [encodePy, hm, hv]
  unfold decode firstRepr
  simp only [e1, e2, ne_eq, not_true_eq_false, if_false, e3,
    readPool_writePool (poolOf t) hlen (poolOf_strOk t hc)]
  exact readRecords_writeRecordsPy (poolOf t) (by omega) t
    (fun c hc' => ⟨hc c hc', cellIn_poolOf t c hc'⟩) none none (fun m e => by cases e) (fun e => by cases e) _ (by omega)

/-- on coherent triangles nothing changes representation -/
theorem firstReprFrom_of_coherent (cells : List RawCell) (prev : Option RawMetadata)
    (h : coherentFrom prev cells = true) : firstReprFrom prev prev cells = cells := by
  induction cells generalizing prev with
  | nil => rfl
  | cons c cs ih =>
    simp only [coherentFrom, Bool.and_eq_true, beq_iff_eq] at h
    rw [firstReprFrom_cons]
    by_cases hch : pyChanged prev c.md = true
    · simp [hch, ih (some c.md) h.2]
    · have hp : prev = some c.md := by
        have := h.1
        simp only [Bool.not_eq_true] at hch
        rw [hch] at this
        simpa using this.symm
      subst hp
      simp [hch, ih (some c.md) h.2]

theorem firstRepr_of_coherent (t : RawTriangle) (h : coherent t = true) : firstRepr t = t :=
  firstReprFrom_of_coherent t none h

end Bermuda.Codec
