/-
Codec lemmas, part 3: pool size bound and the bridge to the executable Spec predicates.
-/
import Bermuda.Lemmas.CodecDict
import Bermuda.Spec.C05
set_option linter.unusedSimpArgs false
namespace Bermuda.Codec
open Bermuda

theorem dedupAdj_length_le (l : List Bytes) : (dedupAdj l).length ≤ l.length := by
  induction l with
  | nil => simp [dedupAdj]
  | cons a r ih =>
    cases r with
    | nil => simp [dedupAdj]
    | cons b r' =>
      unfold dedupAdj
      split
      · simp only [List.length_cons] at ih ⊢; omega
      · simp only [List.length_cons] at ih ⊢; omega

theorem padPool_length_le (keys : List Bytes) (n : Nat) : (padPool keys n).length ≤ 2 * keys.length := by
  induction keys generalizing n with
  | nil => simp [padPool]
  | cons k ks ih =>
    unfold padPool
    split
    · have := ih (n + 2); simp only [List.length_cons]; omega
    · have := ih (n + 1); simp only [List.length_cons]; omega

theorem poolOf_length_le (t : RawTriangle) : (poolOf t).length ≤ 2 * (allKeys t).length := by
  unfold poolOf sortedKeys
  have h1 := padPool_length_le (dedupAdj ((allKeys t).mergeSort bytesLe)) 0
  have h2 := dedupAdj_length_le ((allKeys t).mergeSort bytesLe)
  have h3 : ((allKeys t).mergeSort bytesLe).length = (allKeys t).length := List.length_mergeSort _
  omega

theorem rawGet_self (d : RawDict) (h : nodupKeys (dictKeys d) = true) :
    ∀ e ∈ d, Spec.C05.rawGet? d e.1 = some e.2 := by
  induction d with
  | nil => intro e he; cases he
  | cons a r ih =>
    simp only [dictKeys, List.map_cons, nodupKeys, Bool.and_eq_true, Bool.not_eq_true',
      List.contains_eq_mem, decide_eq_false_iff_not, List.mem_map] at h
    intro e he
    simp only [List.mem_cons] at he
    rcases he with rfl | he
    · simp [Spec.C05.rawGet?]
    · have hne : (a.1 == e.1) = false := by
        simp only [beq_eq_false_iff_ne, ne_eq]
        intro hc
        exact h.1 ⟨e, he, hc.symm⟩
      have := ih (by simpa [dictKeys] using h.2) e he
      simpa [Spec.C05.rawGet?, List.find?, hne] using this

theorem dictEqv_self (d : RawDict) (h : dictOk d = true) : Spec.C05.dictEqv d d = true := by
  simp only [Spec.C05.dictEqv, beq_self_eq_true, Bool.true_and, List.all_eq_true, beq_iff_eq]
  exact rawGet_self d (dictOk_nodup h)

theorem cellEqv_self (c : RawCell) (h : cellOk c = true) : Spec.C05.cellEqv c c = true := by
  obtain ⟨h1, h2, h3⟩ := cellOk_parts h
  simp [Spec.C05.cellEqv, Spec.C05.metaEqv, dictEqv_self _ h1, dictEqv_self _ h2, dictEqv_self _ h3]

theorem roundTrip_self (t : RawTriangle) (h : ∀ c ∈ t, cellOk c = true) : Spec.C05.roundTrip t t = true := by
  unfold Spec.C05.roundTrip
  induction t with
  | nil => rfl
  | cons c cs ih =>
    simp only [Spec.C05.cellsEqv, Bool.and_eq_true]
    exact ⟨cellEqv_self c (h c (by simp)), ih (fun c' h' => h c' (by simp [h']))⟩
/-! ### the pool is sorted -/

theorem bytesLe_total (a b : Bytes) : (bytesLe a b || bytesLe b a) = true := by
  induction a generalizing b with
  | nil => simp [bytesLe]
  | cons x xs ih =>
    cases b with
    | nil => simp [bytesLe]
    | cons y ys =>
      simp only [bytesLe, UInt8.lt_iff_toNat_lt]
      by_cases h1 : x.toNat < y.toNat
      · simp [h1]
      · by_cases h2 : y.toNat < x.toNat
        · simp [h1, h2]
        · simp only [h1, h2, if_false]; exact ih ys

theorem bytesLe_trans (a b c : Bytes) : bytesLe a b = true → bytesLe b c = true → bytesLe a c = true := by
  induction a generalizing b c with
  | nil => intros; simp [bytesLe]
  | cons x xs ih =>
    cases b with
    | nil => simp [bytesLe]
    | cons y ys =>
      cases c with
      | nil => simp [bytesLe]
      | cons z zs =>
        simp only [bytesLe, UInt8.lt_iff_toNat_lt]
        intro h1 h2
        by_cases a1 : x.toNat < y.toNat <;> by_cases a2 : y.toNat < x.toNat <;>
          by_cases b1 : y.toNat < z.toNat <;> by_cases b2 : z.toNat < y.toNat <;>
          by_cases c1 : x.toNat < z.toNat <;> by_cases c2 : z.toNat < x.toNat <;>
          simp only [a1, a2, b1, b2, c1, c2, if_true, if_false] at h1 h2 ⊢ <;>
          first
          | rfl
          | (exfalso; omega)
          | (exact Bool.noConfusion h1)
          | (exact Bool.noConfusion h2)
          | exact ih ys zs h1 h2

theorem bytesLe_antisymm (a b : Bytes) : bytesLe a b = true → bytesLe b a = true → a = b := by
  induction a generalizing b with
  | nil => cases b <;> simp [bytesLe]
  | cons x xs ih =>
    cases b with
    | nil => simp [bytesLe]
    | cons y ys =>
      simp only [bytesLe, UInt8.lt_iff_toNat_lt]
      by_cases a1 : x.toNat < y.toNat <;> by_cases a2 : y.toNat < x.toNat <;>
        simp only [a1, a2, if_true, if_false]
      · exfalso; omega
      · simp
      · simp
      · intro h1 h2
        have : x = y := UInt8.toNat_inj.mp (by omega)
        rw [this, ih ys h1 h2]

theorem dedupAdj_sorted (l : List Bytes) (h : l.Pairwise (fun a b => bytesLe a b = true)) :
    (dedupAdj l).Pairwise (fun a b => bytesLe a b = true ∧ a ≠ b) := by
  induction l with
  | nil => simp [dedupAdj]
  | cons a r ih =>
    cases r with
    | nil => simp [dedupAdj]
    | cons b r' =>
      have hp := List.pairwise_cons.mp h
      unfold dedupAdj
      split
      · exact ih hp.2
      · rename_i hab
        refine List.pairwise_cons.mpr ⟨?_, ih hp.2⟩
        intro x hx
        have hx' : x ∈ b :: r' := (mem_dedupAdj _ _).mp hx
        refine ⟨hp.1 x hx', ?_⟩
        intro hax
        subst hax
        have hab' : bytesLe a b = true := hp.1 b (by simp)
        have hba : bytesLe b a = true := by
          rcases List.mem_cons.mp hx' with rfl | hmem
          · exact hab'
          · exact (List.pairwise_cons.mp hp.2).1 a hmem
        exact hab (bytesLe_antisymm a b hab' hba)

/-- the key list handed to the pool is strictly ascending in byte (= code point) order -/
theorem sortedKeys_sorted (t : RawTriangle) :
    (sortedKeys t).Pairwise (fun a b => bytesLe a b = true ∧ a ≠ b) :=
  dedupAdj_sorted _ (List.pairwise_mergeSort bytesLe_trans bytesLe_total _)


/-! ### a concrete witness used by the non-vacuity examples of C05 / C19: a 2-slice incremental
triangle with all eight value kinds, a non-ASCII string, a `None` string, a 2-d array, a limit -/

def exMeta1 : RawMetadata :=
  { riskBasis := some [65], country := some [195, 156, 98], currency := none, reinsuranceBasis := some [],
    lossDefinition := none, limit := some [0, 0, 0, 0, 0, 0, 240, 63],
    details := [([107], .str [195, 159]), ([100], .date ⟨2020, 2, 29⟩), ([98], .bool true)],
    lossDetails := [([110], .none), ([120], .int (-5)), ([102], .flt [0, 0, 0, 0, 0, 0, 4, 64])] }

def exMeta2 : RawMetadata := { exMeta1 with limit := none, details := [] }

def exTriangle : RawTriangle :=
  [ { kind := .incremental, ps := ⟨2020, 1, 1⟩, pe := ⟨2020, 12, 31⟩, ev := ⟨2020, 12, 31⟩,
      prev := some ⟨2020, 11, 30⟩, md := exMeta1,
      values := [([112], .int 9223372036854775807),
                 ([113], .intArr [2, 1] [1, 0, 0, 0, 0, 0, 0, 0, 2, 0, 0, 0, 0, 0, 0, 0]),
                 ([114], .fltArr [] [0, 0, 0, 0, 0, 0, 248, 127])] },
    { kind := .incremental, ps := ⟨2021, 1, 1⟩, pe := ⟨2021, 12, 31⟩, ev := ⟨2021, 12, 31⟩,
      prev := some ⟨2021, 11, 30⟩, md := exMeta2, values := [([112], .none)] } ]

theorem wf_of_cells_keys (t : RawTriangle) (hc : t.all cellOk = true)
    (hk : 2 * (allKeys t).length < 32768) : wf t = true := by
  have := poolOf_length_le t
  simp only [wf, Bool.and_eq_true, decide_eq_true_eq]
  exact ⟨hc, by omega⟩

theorem exTriangle_cells : exTriangle.all cellOk = true := by decide
theorem exTriangle_keys : 2 * (allKeys exTriangle).length < 32768 := by decide
theorem exTriangle_wf : wf exTriangle = true := wf_of_cells_keys _ exTriangle_cells exTriangle_keys

end Bermuda.Codec
