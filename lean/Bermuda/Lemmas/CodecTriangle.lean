/-
Helper lemmas for composing the codec theorems with the final `Triangle(cells)` of `_read_triangle`
(audit follow-up C05 / C19): prefixes of a canonical cell sequence are canonical; `mapM` and `take`.
-/
import Bermuda.Model.AllOps3
import Bermuda.Properties.C01
namespace Bermuda.Codec
open Bermuda Bermuda.Properties.C01

theorem mapM_take_ok {α β : Type} {f : α → Except Err β} :
    ∀ {l : List α} {ys : List β} (k : Nat), l.mapM f = .ok ys → (l.take k).mapM f = .ok (ys.take k)
  | [], ys, k, h => by
    have : ys = [] := by simpa [List.mapM_nil, pure, Except.pure] using h.symm
    subst this; simp [List.mapM_nil, pure, Except.pure]
  | a :: l, ys, 0, _ => by simp [List.mapM_nil, pure, Except.pure]
  | a :: l, ys, k + 1, h => by
    rw [List.mapM_cons] at h
    simp only [bind, Except.bind, pure, Except.pure] at h
    split at h
    · cases h
    · rename_i x hx
      split at h
      · cases h
      · rename_i xs hxs
        cases h
        rw [List.take_succ_cons, List.mapM_cons, hx]
        simp [bind, Except.bind, pure, Except.pure, mapM_take_ok k hxs]

theorem kindsConsistent_take {l : List Cell} (h : kindsConsistent l = true) (k : Nat) :
    kindsConsistent (l.take k) = true := by
  unfold kindsConsistent at h ⊢
  simp only [Bool.or_eq_true, List.all_eq_true] at h ⊢
  rcases h with (h | h) | h
  · exact Or.inl (Or.inl fun c hc => h c (List.mem_of_mem_take hc))
  · exact Or.inl (Or.inr fun c hc => h c (List.mem_of_mem_take hc))
  · exact Or.inr fun c hc => h c (List.mem_of_mem_take hc)

/-- a prefix of a canonical cell sequence is canonical: `Triangle(cells[:k])` is the identity on it -/
theorem canonical_take {l : List Cell} (h : Canonical l) (k : Nat) : Canonical (l.take k) :=
  ⟨h.1.sublist (List.take_sublist k l), kindsConsistent_take h.2.1 k,
   fun c hc => h.2.2 c (List.mem_of_mem_take hc)⟩

/-- `r = .ok x` as a Boolean (for `decide +kernel` on concrete data) -/
def okIs {α} [DecidableEq α] (r : Except Err α) (x : α) : Bool :=
  match r with
  | .ok y => decide (y = x)
  | .error _ => false

theorem of_okIs {α} [DecidableEq α] {r : Except Err α} {x : α} (h : okIs r x = true) : r = .ok x := by
  unfold okIs at h
  split at h
  · rename_i y; rw [of_decide_eq_true h]
  · cases h

end Bermuda.Codec
