import Bermuda.Model.DateUtils
import Mathlib.Data.Rat.Floor
import Mathlib.Tactic.FieldSimp
import Mathlib.Tactic.Ring
import Mathlib.Tactic.NormNum
import Mathlib.Tactic.Linarith
import Mathlib.Tactic.Positivity

namespace Bermuda

theorem dim_bounds (y : Int) (m : Nat) : 28 ≤ dim y m ∧ dim y m ≤ 31 := by
  unfold dim
  split
  · split <;> omega
  all_goals omega

theorem dim_pos (y : Int) (m : Nat) : 0 < dim y m := by have := dim_bounds y m; omega

/-- the part of `addMonths` after the final lag has been computed -/
def addMonthsLag (finalLag : Rat) : Date :=
  let fr := finalLag - finalLag.floor
  let months : Int := if fr == 0 then truncInt finalLag - 1 else truncInt finalLag
  let frac : Rat := if fr == 0 then 1 else fr
  let month : Nat := (months % 12).toNat + 1
  let year : Int := 1970 + months / 12
  let day := roundHalfEven (frac * (dim year month : Rat))
  if day == 0 then (Date.mk year month 1).pred else ⟨year, month, day.toNat⟩

theorem addMonths_eq_lag (dt : Date) (delta : Rat) :
    addMonths dt delta = addMonthsLag (devLagMonths ⟨1969, 12, 31⟩ dt + delta) := rfl

theorem initLag_eq (dt : Date) :
    devLagMonths ⟨1969, 12, 31⟩ dt = (monthToId dt : Rat) + (dt.d : Rat) / (dim dt.y dt.m : Rat) := by
  unfold devLagMonths monthToId monthFraction
  have h : (((31 : Nat) : Rat)) / ((dim 1969 12 : Nat) : Rat) = 1 := by
    norm_num [dim]
  simp only [h]
  push_cast
  ring

theorem floor_int_add (M : Int) (f : Rat) (h0 : 0 ≤ f) (h1 : f < 1) : ((M : Rat) + f).floor = M := by
  show ⌊(M : Rat) + f⌋ = M
  rw [Int.floor_eq_iff]
  constructor <;> linarith

theorem floor_intCast (M : Int) : ((M : Rat)).floor = M := by
  show ⌊(M : Rat)⌋ = M
  exact Int.floor_intCast M

theorem roundHalfEven_intCast (n : Int) : roundHalfEven (n : Rat) = n := by
  unfold roundHalfEven
  simp only [floor_intCast, sub_self]
  norm_num

theorem roundHalfEven_ge_one {q : Rat} (h : 1/2 < q) : 1 ≤ roundHalfEven q := by
  unfold roundHalfEven
  have hf1 : ((q.floor : Int) : Rat) ≤ q := by show ((⌊q⌋ : Int) : Rat) ≤ q; exact Int.floor_le q
  have hf2 : q < (q.floor : Rat) + 1 := by show q < ((⌊q⌋ : Int) : Rat) + 1; exact Int.lt_floor_add_one q
  have hf0 : 0 ≤ q.floor := by
    show 0 ≤ ⌊q⌋
    exact Int.floor_nonneg.mpr (by linarith)
  simp only []
  split
  · rename_i hr
    have : (0 : Rat) < q.floor := by linarith
    have : 0 < q.floor := by exact_mod_cast this
    omega
  · split
    · omega
    · rename_i h1 h2
      have hr : q - q.floor = 1/2 := by linarith [not_lt.mp h1, not_lt.mp h2]
      split
      · have : (0 : Rat) < q.floor := by linarith
        have : 0 < q.floor := by exact_mod_cast this
        omega
      · omega

theorem roundHalfEven_le {q : Rat} {N : Int} (h : q ≤ N) : roundHalfEven q ≤ N := by
  unfold roundHalfEven
  have hf1 : ((q.floor : Int) : Rat) ≤ q := by show ((⌊q⌋ : Int) : Rat) ≤ q; exact Int.floor_le q
  have hle : q.floor ≤ N := by
    have : ((q.floor : Int) : Rat) ≤ N := by linarith
    exact_mod_cast this
  have key : 0 < q - q.floor → q.floor + 1 ≤ N := by
    intro hpos
    have : ((q.floor : Int) : Rat) < N := by linarith
    have : q.floor < N := by exact_mod_cast this
    omega
  simp only []
  split
  · exact hle
  · split
    · rename_i h2; exact key (by linarith)
    · rename_i h1 h2
      split
      · exact hle
      · exact key (by linarith [not_lt.mp h1])

end Bermuda
