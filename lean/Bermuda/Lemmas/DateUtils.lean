import Bermuda.Model.DateUtils
import Mathlib.Data.Rat.Floor
import Mathlib.Tactic.FieldSimp
import Mathlib.Tactic.Ring
import Mathlib.Tactic.NormNum
import Mathlib.Tactic.Linarith
import Mathlib.Tactic.Positivity

namespace Bermuda

theorem dim_bounds (y : Int) (m : Nat) : 28 ≤ dim y m ∧ dim y m ≤ 31 := by
  unfold dim
  split
  · split <;> omega
  all_goals omega

theorem dim_pos (y : Int) (m : Nat) : 0 < dim y m := by have := dim_bounds y m; omega

/-- the part of `addMonths` after the final lag has been computed -/
def addMonthsLag (finalLag : Rat) : Date :=
  let fr := finalLag - finalLag.floor
  let months : Int := if fr == 0 then truncInt finalLag - 1 else truncInt finalLag
  let frac : Rat := if fr == 0 then 1 else fr
  let month : Nat := (months % 12).toNat + 1
  let year : Int := 1970 + months / 12
  let day := roundHalfEven (frac * (dim year month : Rat))
  if day == 0 then (Date.mk year month 1).pred else ⟨year, month, day.toNat⟩

theorem addMonths_eq_lag (dt : Date) (delta : Rat) :
    addMonths dt delta = addMonthsLag (devLagMonths ⟨1969, 12, 31⟩ dt + delta) := rfl

theorem initLag_eq (dt : Date) :
    devLagMonths ⟨1969, 12, 31⟩ dt = (monthToId dt : Rat) + (dt.d : Rat) / (dim dt.y dt.m : Rat) := by
  unfold devLagMonths monthToId monthFraction
  have h : (((31 : Nat) : Rat)) / ((dim 1969 12 : Nat) : Rat) = 1 := by
    norm_num [dim]
  simp only [h]
  push_cast
  ring

theorem floor_int_add (M : Int) (f : Rat) (h0 : 0 ≤ f) (h1 : f < 1) : ((M : Rat) + f).floor = M := by
  show ⌊(M : Rat) + f⌋ = M
  rw [Int.floor_eq_iff]
  constructor <;> linarith

theorem floor_intCast (M : Int) : ((M : Rat)).floor = M := by
  show ⌊(M : Rat)⌋ = M
  exact Int.floor_intCast M

theorem roundHalfEven_intCast (n : Int) : roundHalfEven (n : Rat) = n := by
  unfold roundHalfEven
  simp only [floor_intCast, sub_self]
  norm_num

theorem roundHalfEven_ge_one {q : Rat} (h : 1/2 < q) : 1 ≤ roundHalfEven q := by
  unfold roundHalfEven
  have hf1 : ((q.floor : Int) : Rat) ≤ q := by show ((⌊q⌋ : Int) : Rat) ≤ q; exact Int.floor_le q
  have hf2 : q < (q.floor : Rat) + 1 := by show q < ((⌊q⌋ : Int) : Rat) + 1; exact Int.lt_floor_add_one q
  have hf0 : 0 ≤ q.floor := by
    show 0 ≤ ⌊q⌋
    exact Int.floor_nonneg.mpr (by linarith)
  simp only []
  split
  · rename_i hr
    have : (0 : Rat) < q.floor := by linarith
    have : 0 < q.floor := by exact_mod_cast this
    omega
  · split
    · omega
    · rename_i h1 h2
      have hr : q - q.floor = 1/2 := by linarith [not_lt.mp h1, not_lt.mp h2]
      split
      · have : (0 : Rat) < q.floor := by linarith
        have : 0 < q.floor := by exact_mod_cast this
        omega
      · omega

theorem roundHalfEven_le {q : Rat} {N : Int} (h : q ≤ N) : roundHalfEven q ≤ N := by
  unfold roundHalfEven
  have hf1 : ((q.floor : Int) : Rat) ≤ q := by show ((⌊q⌋ : Int) : Rat) ≤ q; exact Int.floor_le q
  have hle : q.floor ≤ N := by
    have : ((q.floor : Int) : Rat) ≤ N := by linarith
    exact_mod_cast this
  have key : 0 < q - q.floor → q.floor + 1 ≤ N := by
    intro hpos
    have : ((q.floor : Int) : Rat) < N := by linarith
    have : q.floor < N := by exact_mod_cast this
    omega
  simp only []
  split
  · exact hle
  · split
    · rename_i h2; exact key (by linarith)
    · rename_i h1 h2
      split
      · exact hle
      · exact key (by linarith [not_lt.mp h1])


/-- the calendar month with index `M` (1970-01 = 0) -/
def yearOf (M : Int) : Int := 1970 + M / 12
def monthOf (M : Int) : Nat := (M % 12).toNat + 1

theorem truncInt_nonneg {q : Rat} (h : 0 ≤ q) : truncInt q = q.floor := by
  unfold truncInt; simp [h]

/-- integer final lag `M + 1`, `M ≥ 0`: the last day of month `M` -/
theorem addMonthsLag_int (M : Int) (hM : 0 ≤ M) :
    addMonthsLag ((M : Rat) + 1) = ⟨yearOf M, monthOf M, dim (yearOf M) (monthOf M)⟩ := by
  have hcast : (M : Rat) + 1 = ((M + 1 : Int) : Rat) := by push_cast; ring
  have hnn : (0 : Rat) ≤ ((M + 1 : Int) : Rat) := by exact_mod_cast (by omega : 0 ≤ M + 1)
  unfold addMonthsLag
  simp only [hcast, floor_intCast, sub_self, truncInt_nonneg hnn, beq_self_eq_true, if_true]
  have hm : M + 1 - 1 = M := by omega
  simp only [hm, one_mul]
  have hd : roundHalfEven ((dim (1970 + M / 12) ((M % 12).toNat + 1) : Nat) : Rat)
      = ((dim (1970 + M / 12) ((M % 12).toNat + 1) : Nat) : Int) := by
    have := roundHalfEven_intCast ((dim (1970 + M / 12) ((M % 12).toNat + 1) : Nat) : Int)
    simpa using this
  rw [hd]
  have hp := dim_pos (1970 + M / 12) ((M % 12).toNat + 1)
  have hne : (((dim (1970 + M / 12) ((M % 12).toNat + 1) : Nat) : Int) == 0) = false := by
    simp; omega
  simp only [hne, Int.toNat_natCast, yearOf, monthOf]
  rfl

/-- fractional final lag `M + f`, `0 < f < 1`, `M ≥ 0` -/
theorem addMonthsLag_frac (M : Int) (f : Rat) (hM : 0 ≤ M) (h0 : 0 < f) (h1 : f < 1) :
    addMonthsLag ((M : Rat) + f) =
      (let day := roundHalfEven (f * (dim (yearOf M) (monthOf M) : Rat))
       if day == 0 then (Date.mk (yearOf M) (monthOf M) 1).pred else ⟨yearOf M, monthOf M, day.toNat⟩) := by
  have hfl : ((M : Rat) + f).floor = M := floor_int_add M f (le_of_lt h0) h1
  have hnn : (0 : Rat) ≤ (M : Rat) + f := by
    have : (0 : Rat) ≤ (M : Rat) := by exact_mod_cast hM
    linarith
  have hfr : (M : Rat) + f - ((M : Int) : Rat) = f := by ring
  have hne : (f == 0) = false := by simp; exact ne_of_gt h0
  unfold addMonthsLag
  simp only [hfl, hfr, hne, truncInt_nonneg hnn, yearOf, monthOf]
  rfl


theorem valid_iff (d : Date) : d.valid = true ↔ 1 ≤ d.m ∧ d.m ≤ 12 ∧ 1 ≤ d.d ∧ d.d ≤ dim d.y d.m := by
  simp [Date.valid, and_assoc]

theorem yearOf_monthToId {d : Date} (h : d.valid) : yearOf (monthToId d) = d.y := by
  obtain ⟨h1, h2, -, -⟩ := (valid_iff d).mp h
  unfold yearOf monthToId; omega

theorem monthOf_monthToId {d : Date} (h : d.valid) : monthOf (monthToId d) = d.m := by
  obtain ⟨h1, h2, -, -⟩ := (valid_iff d).mp h
  unfold monthOf monthToId; omega

theorem monthToId_mk (M : Int) (day : Nat) : monthToId ⟨yearOf M, monthOf M, day⟩ = M := by
  unfold monthToId yearOf monthOf
  simp only
  omega

theorem monthOf_range (M : Int) : 1 ≤ monthOf M ∧ monthOf M ≤ 12 := by
  unfold monthOf; omega

/-- the last day of the month with index `M` -/
def monthEndOf (M : Int) : Date := ⟨yearOf M, monthOf M, dim (yearOf M) (monthOf M)⟩

theorem monthEndOf_valid (M : Int) : (monthEndOf M).valid = true := by
  rw [valid_iff]
  have := monthOf_range M
  have := dim_pos (yearOf M) (monthOf M)
  simp only [monthEndOf]
  omega

theorem monthEndOf_isMonthEnd (M : Int) : (monthEndOf M).isMonthEnd = true := by
  simp [monthEndOf, Date.isMonthEnd]

theorem monthToId_monthEndOf (M : Int) : monthToId (monthEndOf M) = M := monthToId_mk M _

theorem monthEndOf_monthToId {d : Date} (hv : d.valid) (he : d.isMonthEnd) : monthEndOf (monthToId d) = d := by
  unfold monthEndOf
  rw [yearOf_monthToId hv, monthOf_monthToId hv]
  have : d.d = dim d.y d.m := by simpa [Date.isMonthEnd] using he
  rw [← this]

/-- the lag of `d + delta` from the origin, split at the month index of `d` -/
theorem finalLag_int (d : Date) (k : Int) :
    devLagMonths ⟨1969, 12, 31⟩ d + ((k : Int) : Rat)
      = ((monthToId d + k : Int) : Rat) + (d.d : Rat) / (dim d.y d.m : Rat) := by
  rw [initLag_eq]; push_cast; ring

theorem finalLag_devLag (p e : Date) :
    devLagMonths ⟨1969, 12, 31⟩ p + devLagMonths p e
      = ((monthToId e : Int) : Rat) + (e.d : Rat) / (dim e.y e.m : Rat) := by
  rw [initLag_eq]
  unfold devLagMonths monthFraction monthToId
  push_cast; ring

/-- `M + d/n` with `1 ≤ d ≤ n = dim(month M)`, `M ≥ 0`, lands on day `d` of month `M` -/
theorem addMonthsLag_own_month (M : Int) (d : Nat) (hM : 0 ≤ M) (h1 : 1 ≤ d)
    (h2 : d ≤ dim (yearOf M) (monthOf M)) :
    addMonthsLag ((M : Rat) + (d : Rat) / (dim (yearOf M) (monthOf M) : Rat)) = ⟨yearOf M, monthOf M, d⟩ := by
  have hn : (0 : Rat) < (dim (yearOf M) (monthOf M) : Rat) := by exact_mod_cast dim_pos _ _
  rcases Nat.lt_or_eq_of_le h2 with hlt | heq
  · have hd0 : (0 : Rat) < (d : Rat) := by exact_mod_cast h1
    have hf0 : (0 : Rat) < (d : Rat) / (dim (yearOf M) (monthOf M) : Rat) := div_pos hd0 hn
    have hf1 : (d : Rat) / (dim (yearOf M) (monthOf M) : Rat) < 1 := by
      rw [div_lt_one hn]; exact_mod_cast hlt
    rw [addMonthsLag_frac M _ hM hf0 hf1]
    have hmul : (d : Rat) / (dim (yearOf M) (monthOf M) : Rat) * (dim (yearOf M) (monthOf M) : Rat) = ((d : Int) : Rat) := by
      field_simp; push_cast; ring
    simp only [hmul, roundHalfEven_intCast]
    have : ((d : Int) == 0) = false := by simp; omega
    simp [this]
  · have hf : (d : Rat) / (dim (yearOf M) (monthOf M) : Rat) = 1 := by
      rw [heq]; exact div_self (ne_of_gt hn)
    rw [hf, addMonthsLag_int M hM, heq]


/-- the inverse law for every target date from 1970 on (no assumption on the start date) -/
theorem addMonths_devLag_of_valid (p e : Date) (he : e.valid) (h70 : 1970 ≤ e.y) :
    addMonths p (devLagMonths p e) = e := by
  obtain ⟨h1, h2, h3, h4⟩ := (valid_iff e).mp he
  rw [addMonths_eq_lag, finalLag_devLag]
  have hM : 0 ≤ monthToId e := by unfold monthToId; omega
  have hy := yearOf_monthToId he
  have hm := monthOf_monthToId he
  have := addMonthsLag_own_month (monthToId e) e.d hM h3 (by rw [hy, hm]; exact h4)
  rw [hy, hm] at this
  exact this

/-- integer offsets: the result is day `day` of month `monthToId d + k` -/
theorem addMonths_int_form (d : Date) (k : Int) (hv : d.valid) (h : 0 ≤ monthToId d + k) :
    ∃ day : Nat, 1 ≤ day ∧ day ≤ dim (yearOf (monthToId d + k)) (monthOf (monthToId d + k)) ∧
      (d.isMonthEnd → day = dim (yearOf (monthToId d + k)) (monthOf (monthToId d + k))) ∧
      addMonths d ((k : Int) : Rat) = ⟨yearOf (monthToId d + k), monthOf (monthToId d + k), day⟩ := by
  obtain ⟨h1, h2, h3, h4⟩ := (valid_iff d).mp hv
  rw [addMonths_eq_lag, finalLag_int]
  generalize hMdef : monthToId d + k = M at *
  have hn : (0 : Rat) < (dim d.y d.m : Rat) := by exact_mod_cast dim_pos _ _
  have hn' : (0 : Rat) < (dim (yearOf M) (monthOf M) : Rat) := by exact_mod_cast dim_pos _ _
  rcases Nat.lt_or_eq_of_le h4 with hlt | heq
  · -- not a month end: 0 < f < 1
    have hd0 : (0 : Rat) < (d.d : Rat) := by exact_mod_cast h3
    have hf0 : (0 : Rat) < (d.d : Rat) / (dim d.y d.m : Rat) := div_pos hd0 hn
    have hf1 : (d.d : Rat) / (dim d.y d.m : Rat) < 1 := by rw [div_lt_one hn]; exact_mod_cast hlt
    rw [addMonthsLag_frac M _ h hf0 hf1]
    have b1 := dim_bounds d.y d.m
    have b2 := dim_bounds (yearOf M) (monthOf M)
    -- the day is at least 1: d/n * n' ≥ 28/31 > 1/2
    have hge : (1 : Rat) / 2 < (d.d : Rat) / (dim d.y d.m : Rat) * (dim (yearOf M) (monthOf M) : Rat) := by
      have h28 : (28 : Rat) ≤ (dim (yearOf M) (monthOf M) : Rat) := by exact_mod_cast b2.1
      have h31 : (dim d.y d.m : Rat) ≤ 31 := by exact_mod_cast b1.2
      have hd1 : (1 : Rat) ≤ (d.d : Rat) := by exact_mod_cast h3
      rw [div_mul_eq_mul_div, lt_div_iff₀ hn]
      nlinarith
    have hle : (d.d : Rat) / (dim d.y d.m : Rat) * (dim (yearOf M) (monthOf M) : Rat)
        ≤ (((dim (yearOf M) (monthOf M) : Nat) : Int) : Rat) := by
      push_cast
      have : (d.d : Rat) / (dim d.y d.m : Rat) * (dim (yearOf M) (monthOf M) : Rat)
          ≤ 1 * (dim (yearOf M) (monthOf M) : Rat) :=
        mul_le_mul_of_nonneg_right (le_of_lt hf1) (le_of_lt hn')
      linarith
    have r1 := roundHalfEven_ge_one hge
    have r2 := roundHalfEven_le hle
    generalize roundHalfEven ((d.d : Rat) / (dim d.y d.m : Rat) * (dim (yearOf M) (monthOf M) : Rat)) = day at r1 r2
    refine ⟨day.toNat, by omega, by omega, ?_, ?_⟩
    · intro hme
      have : d.d = dim d.y d.m := by simpa [Date.isMonthEnd] using hme
      omega
    · have : (day == 0) = false := by simp; omega
      simp [this]
  · -- month end
    have hf : (d.d : Rat) / (dim d.y d.m : Rat) = 1 := by rw [heq]; exact div_self (ne_of_gt hn)
    rw [hf, addMonthsLag_int M h]
    exact ⟨_, dim_pos _ _, Nat.le_refl _, fun _ => rfl, rfl⟩

end Bermuda
