/-
Helper lemmas for C12 (date arithmetic): `Rat.floor` / `roundHalfEven` facts, the month-index
decomposition of `addMonths`, `idToMonth`, and "ordinals count days".
`Rat.floor` of core is definitionally Mathlib's `⌊·⌋` on ℚ (notes/probes/rat_floor_sketch).
-/
import Bermuda.Model.DateUtils
import Mathlib.Data.Rat.Floor
import Mathlib.Tactic.FieldSimp
import Mathlib.Tactic.Ring
import Mathlib.Tactic.NormNum
import Mathlib.Tactic.Linarith
import Mathlib.Tactic.Positivity

namespace Bermuda

theorem dim_bounds (y : Int) (m : Nat) : 28 ≤ dim y m ∧ dim y m ≤ 31 := by
  unfold dim
  split
  · split <;> omega
  all_goals omega

theorem dim_pos (y : Int) (m : Nat) : 0 < dim y m := by have := dim_bounds y m; omega

/-- the part of `addMonths` after the final lag has been computed -/
def addMonthsLag (finalLag : Rat) : Date :=
  let fr := finalLag - finalLag.floor
  let months : Int := if fr == 0 then truncInt finalLag - 1 else truncInt finalLag
  let frac : Rat := if fr == 0 then 1 else fr
  let month : Nat := (months % 12).toNat + 1
  let year : Int := 1970 + months / 12
  let day := roundHalfEven (frac * (dim year month : Rat))
  if day == 0 then (Date.mk year month 1).pred else ⟨year, month, day.toNat⟩

theorem addMonths_eq_lag (dt : Date) (delta : Rat) :
    addMonths dt delta = addMonthsLag (devLagMonths ⟨1969, 12, 31⟩ dt + delta) := rfl

theorem initLag_eq (dt : Date) :
    devLagMonths ⟨1969, 12, 31⟩ dt = (monthToId dt : Rat) + (dt.d : Rat) / (dim dt.y dt.m : Rat) := by
  unfold devLagMonths monthToId monthFraction
  have h : (((31 : Nat) : Rat)) / ((dim 1969 12 : Nat) : Rat) = 1 := by
    norm_num [dim]
  simp only [h]
  push_cast
  ring

theorem floor_int_add (M : Int) (f : Rat) (h0 : 0 ≤ f) (h1 : f < 1) : ((M : Rat) + f).floor = M := by
  show ⌊(M : Rat) + f⌋ = M
  rw [Int.floor_eq_iff]
  constructor <;> linarith

theorem floor_intCast (M : Int) : ((M : Rat)).floor = M := by
  show ⌊(M : Rat)⌋ = M
  exact Int.floor_intCast M

theorem roundHalfEven_intCast (n : Int) : roundHalfEven (n : Rat) = n := by
  unfold roundHalfEven
  simp only [floor_intCast, sub_self]
  norm_num

theorem roundHalfEven_ge_one {q : Rat} (h : 1/2 < q) : 1 ≤ roundHalfEven q := by
  unfold roundHalfEven
  have hf1 : ((q.floor : Int) : Rat) ≤ q := by show ((⌊q⌋ : Int) : Rat) ≤ q; exact Int.floor_le q
  have hf2 : q < (q.floor : Rat) + 1 := by show q < ((⌊q⌋ : Int) : Rat) + 1; exact Int.lt_floor_add_one q
  have hf0 : 0 ≤ q.floor := by
    show 0 ≤ ⌊q⌋
    exact Int.floor_nonneg.mpr (by linarith)
  simp only []
  split
  · rename_i hr
    have : (0 : Rat) < q.floor := by linarith
    have : 0 < q.floor := by exact_mod_cast this
    omega
  · split
    · omega
    · rename_i h1 h2
      have hr : q - q.floor = 1/2 := by linarith [not_lt.mp h1, not_lt.mp h2]
      split
      · have : (0 : Rat) < q.floor := by linarith
        have : 0 < q.floor := by exact_mod_cast this
        omega
      · omega

theorem roundHalfEven_le {q : Rat} {N : Int} (h : q ≤ N) : roundHalfEven q ≤ N := by
  unfold roundHalfEven
  have hf1 : ((q.floor : Int) : Rat) ≤ q := by show ((⌊q⌋ : Int) : Rat) ≤ q; exact Int.floor_le q
  have hle : q.floor ≤ N := by
    have : ((q.floor : Int) : Rat) ≤ N := by linarith
    exact_mod_cast this
  have key : 0 < q - q.floor → q.floor + 1 ≤ N := by
    intro hpos
    have : ((q.floor : Int) : Rat) < N := by linarith
    have : q.floor < N := by exact_mod_cast this
    omega
  simp only []
  split
  · exact hle
  · split
    · rename_i h2; exact key (by linarith)
    · rename_i h1 h2
      split
      · exact hle
      · exact key (by linarith [not_lt.mp h1])


/-- the calendar month with index `M` (1970-01 = 0) -/
def yearOf (M : Int) : Int := 1970 + M / 12
def monthOf (M : Int) : Nat := (M % 12).toNat + 1

theorem truncInt_nonneg {q : Rat} (h : 0 ≤ q) : truncInt q = q.floor := by
  unfold truncInt; simp [h]

/-- integer final lag `M + 1`, `M ≥ 0`: the last day of month `M` -/
theorem addMonthsLag_int (M : Int) (hM : 0 ≤ M) :
    addMonthsLag ((M : Rat) + 1) = ⟨yearOf M, monthOf M, dim (yearOf M) (monthOf M)⟩ := by
  have hcast : (M : Rat) + 1 = ((M + 1 : Int) : Rat) := by push_cast; ring
  have hnn : (0 : Rat) ≤ ((M + 1 : Int) : Rat) := by exact_mod_cast (by omega : 0 ≤ M + 1)
  unfold addMonthsLag
  simp only [hcast, floor_intCast, sub_self, truncInt_nonneg hnn, beq_self_eq_true, if_true]
  have hm : M + 1 - 1 = M := by omega
  simp only [hm, one_mul]
  have hd : roundHalfEven ((dim (1970 + M / 12) ((M % 12).toNat + 1) : Nat) : Rat)
      = ((dim (1970 + M / 12) ((M % 12).toNat + 1) : Nat) : Int) := by
    have := roundHalfEven_intCast ((dim (1970 + M / 12) ((M % 12).toNat + 1) : Nat) : Int)
    simpa using this
  rw [hd]
  have hp := dim_pos (1970 + M / 12) ((M % 12).toNat + 1)
  have hne : (((dim (1970 + M / 12) ((M % 12).toNat + 1) : Nat) : Int) == 0) = false := by
    simp; omega
  simp only [hne, Int.toNat_natCast, yearOf, monthOf]
  rfl

/-- fractional final lag `M + f`, `0 < f < 1`, `M ≥ 0` -/
theorem addMonthsLag_frac (M : Int) (f : Rat) (hM : 0 ≤ M) (h0 : 0 < f) (h1 : f < 1) :
    addMonthsLag ((M : Rat) + f) =
      (let day := roundHalfEven (f * (dim (yearOf M) (monthOf M) : Rat))
       if day == 0 then (Date.mk (yearOf M) (monthOf M) 1).pred else ⟨yearOf M, monthOf M, day.toNat⟩) := by
  have hfl : ((M : Rat) + f).floor = M := floor_int_add M f (le_of_lt h0) h1
  have hnn : (0 : Rat) ≤ (M : Rat) + f := by
    have : (0 : Rat) ≤ (M : Rat) := by exact_mod_cast hM
    linarith
  have hfr : (M : Rat) + f - ((M : Int) : Rat) = f := by ring
  have hne : (f == 0) = false := by simp; exact ne_of_gt h0
  unfold addMonthsLag
  simp only [hfl, hfr, hne, truncInt_nonneg hnn, yearOf, monthOf]
  rfl


theorem valid_iff (d : Date) : d.valid = true ↔ 1 ≤ d.m ∧ d.m ≤ 12 ∧ 1 ≤ d.d ∧ d.d ≤ dim d.y d.m := by
  simp [Date.valid, and_assoc]

theorem yearOf_monthToId {d : Date} (h : d.valid) : yearOf (monthToId d) = d.y := by
  obtain ⟨h1, h2, -, -⟩ := (valid_iff d).mp h
  unfold yearOf monthToId; omega

theorem monthOf_monthToId {d : Date} (h : d.valid) : monthOf (monthToId d) = d.m := by
  obtain ⟨h1, h2, -, -⟩ := (valid_iff d).mp h
  unfold monthOf monthToId; omega

theorem monthToId_mk (M : Int) (day : Nat) : monthToId ⟨yearOf M, monthOf M, day⟩ = M := by
  unfold monthToId yearOf monthOf
  simp only
  omega

theorem monthOf_range (M : Int) : 1 ≤ monthOf M ∧ monthOf M ≤ 12 := by
  unfold monthOf; omega

/-- the last day of the month with index `M` -/
def monthEndOf (M : Int) : Date := ⟨yearOf M, monthOf M, dim (yearOf M) (monthOf M)⟩

theorem monthEndOf_valid (M : Int) : (monthEndOf M).valid = true := by
  rw [valid_iff]
  have := monthOf_range M
  have := dim_pos (yearOf M) (monthOf M)
  simp only [monthEndOf]
  omega

theorem monthEndOf_isMonthEnd (M : Int) : (monthEndOf M).isMonthEnd = true := by
  simp [monthEndOf, Date.isMonthEnd]

theorem monthToId_monthEndOf (M : Int) : monthToId (monthEndOf M) = M := monthToId_mk M _

theorem monthEndOf_monthToId {d : Date} (hv : d.valid) (he : d.isMonthEnd) : monthEndOf (monthToId d) = d := by
  unfold monthEndOf
  rw [yearOf_monthToId hv, monthOf_monthToId hv]
  have : d.d = dim d.y d.m := by simpa [Date.isMonthEnd] using he
  rw [← this]

/-- the lag of `d + delta` from the origin, split at the month index of `d` -/
theorem finalLag_int (d : Date) (k : Int) :
    devLagMonths ⟨1969, 12, 31⟩ d + ((k : Int) : Rat)
      = ((monthToId d + k : Int) : Rat) + (d.d : Rat) / (dim d.y d.m : Rat) := by
  rw [initLag_eq]; push_cast; ring

theorem finalLag_devLag (p e : Date) :
    devLagMonths ⟨1969, 12, 31⟩ p + devLagMonths p e
      = ((monthToId e : Int) : Rat) + (e.d : Rat) / (dim e.y e.m : Rat) := by
  rw [initLag_eq]
  unfold devLagMonths monthFraction monthToId
  push_cast; ring

/-- `M + d/n` with `1 ≤ d ≤ n = dim(month M)`, `M ≥ 0`, lands on day `d` of month `M` -/
theorem addMonthsLag_own_month (M : Int) (d : Nat) (hM : 0 ≤ M) (h1 : 1 ≤ d)
    (h2 : d ≤ dim (yearOf M) (monthOf M)) :
    addMonthsLag ((M : Rat) + (d : Rat) / (dim (yearOf M) (monthOf M) : Rat)) = ⟨yearOf M, monthOf M, d⟩ := by
  have hn : (0 : Rat) < (dim (yearOf M) (monthOf M) : Rat) := by exact_mod_cast dim_pos _ _
  rcases Nat.lt_or_eq_of_le h2 with hlt | heq
  · have hd0 : (0 : Rat) < (d : Rat) := by exact_mod_cast h1
    have hf0 : (0 : Rat) < (d : Rat) / (dim (yearOf M) (monthOf M) : Rat) := div_pos hd0 hn
    have hf1 : (d : Rat) / (dim (yearOf M) (monthOf M) : Rat) < 1 := by
      rw [div_lt_one hn]; exact_mod_cast hlt
    rw [addMonthsLag_frac M _ hM hf0 hf1]
    have hmul : (d : Rat) / (dim (yearOf M) (monthOf M) : Rat) * (dim (yearOf M) (monthOf M) : Rat) = ((d : Int) : Rat) := by
      field_simp; push_cast; ring
    simp only [hmul, roundHalfEven_intCast]
    have : ((d : Int) == 0) = false := by simp; omega
    simp [this]
  · have hf : (d : Rat) / (dim (yearOf M) (monthOf M) : Rat) = 1 := by
      rw [heq]; exact div_self (ne_of_gt hn)
    rw [hf, addMonthsLag_int M hM, heq]


/-- the inverse law for every target date from 1970 on (no assumption on the start date) -/
theorem addMonths_devLag_of_valid (p e : Date) (he : e.valid) (h70 : 1970 ≤ e.y) :
    addMonths p (devLagMonths p e) = e := by
  obtain ⟨h1, h2, h3, h4⟩ := (valid_iff e).mp he
  rw [addMonths_eq_lag, finalLag_devLag]
  have hM : 0 ≤ monthToId e := by unfold monthToId; omega
  have hy := yearOf_monthToId he
  have hm := monthOf_monthToId he
  have := addMonthsLag_own_month (monthToId e) e.d hM h3 (by rw [hy, hm]; exact h4)
  rw [hy, hm] at this
  exact this

/-- integer offsets: the result is day `day` of month `monthToId d + k` -/
theorem addMonths_int_form (d : Date) (k : Int) (hv : d.valid) (h : 0 ≤ monthToId d + k) :
    ∃ day : Nat, 1 ≤ day ∧ day ≤ dim (yearOf (monthToId d + k)) (monthOf (monthToId d + k)) ∧
      (d.isMonthEnd → day = dim (yearOf (monthToId d + k)) (monthOf (monthToId d + k))) ∧
      addMonths d ((k : Int) : Rat) = ⟨yearOf (monthToId d + k), monthOf (monthToId d + k), day⟩ := by
  obtain ⟨h1, h2, h3, h4⟩ := (valid_iff d).mp hv
  rw [addMonths_eq_lag, finalLag_int]
  generalize hMdef : monthToId d + k = M at *
  have hn : (0 : Rat) < (dim d.y d.m : Rat) := by exact_mod_cast dim_pos _ _
  have hn' : (0 : Rat) < (dim (yearOf M) (monthOf M) : Rat) := by exact_mod_cast dim_pos _ _
  rcases Nat.lt_or_eq_of_le h4 with hlt | heq
  · -- not a month end: 0 < f < 1
    have hd0 : (0 : Rat) < (d.d : Rat) := by exact_mod_cast h3
    have hf0 : (0 : Rat) < (d.d : Rat) / (dim d.y d.m : Rat) := div_pos hd0 hn
    have hf1 : (d.d : Rat) / (dim d.y d.m : Rat) < 1 := by rw [div_lt_one hn]; exact_mod_cast hlt
    rw [addMonthsLag_frac M _ h hf0 hf1]
    have b1 := dim_bounds d.y d.m
    have b2 := dim_bounds (yearOf M) (monthOf M)
    -- the day is at least 1: d/n * n' ≥ 28/31 > 1/2
    have hge : (1 : Rat) / 2 < (d.d : Rat) / (dim d.y d.m : Rat) * (dim (yearOf M) (monthOf M) : Rat) := by
      have h28 : (28 : Rat) ≤ (dim (yearOf M) (monthOf M) : Rat) := by exact_mod_cast b2.1
      have h31 : (dim d.y d.m : Rat) ≤ 31 := by exact_mod_cast b1.2
      have hd1 : (1 : Rat) ≤ (d.d : Rat) := by exact_mod_cast h3
      rw [div_mul_eq_mul_div, lt_div_iff₀ hn]
      nlinarith
    have hle : (d.d : Rat) / (dim d.y d.m : Rat) * (dim (yearOf M) (monthOf M) : Rat)
        ≤ (((dim (yearOf M) (monthOf M) : Nat) : Int) : Rat) := by
      push_cast
      have : (d.d : Rat) / (dim d.y d.m : Rat) * (dim (yearOf M) (monthOf M) : Rat)
          ≤ 1 * (dim (yearOf M) (monthOf M) : Rat) :=
        mul_le_mul_of_nonneg_right (le_of_lt hf1) (le_of_lt hn')
      linarith
    have r1 := roundHalfEven_ge_one hge
    have r2 := roundHalfEven_le hle
    generalize roundHalfEven ((d.d : Rat) / (dim d.y d.m : Rat) * (dim (yearOf M) (monthOf M) : Rat)) = day at r1 r2
    refine ⟨day.toNat, by omega, by omega, ?_, ?_⟩
    · intro hme
      have : d.d = dim d.y d.m := by simpa [Date.isMonthEnd] using hme
      omega
    · have : (day == 0) = false := by simp; omega
      simp [this]
  · -- month end
    have hf : (d.d : Rat) / (dim d.y d.m : Rat) = 1 := by rw [heq]; exact div_self (ne_of_gt hn)
    rw [hf, addMonthsLag_int M h]
    exact ⟨_, dim_pos _ _, Nat.le_refl _, fun _ => rfl, rfl⟩


theorem idToMonth_true (id : Int) : idToMonth id true = ⟨yearOf id, monthOf id, 1⟩ := by
  simp [idToMonth, yearOf, monthOf]

theorem dim_twelve (y : Int) : dim y 12 = 31 := by simp [dim]

theorem idToMonth_false (id : Int) : idToMonth id false = monthEndOf id := by
  simp only [idToMonth, Bool.false_eq_true, if_false, monthEndOf]
  unfold Date.pred
  simp only [Nat.lt_irrefl, if_false]
  by_cases h : ((id + 1) % 12).toNat + 1 > 1
  · simp only [h, if_true]
    have e1 : 1970 + (id + 1) / 12 = yearOf id := by unfold yearOf; omega
    have e2 : ((id + 1) % 12).toNat + 1 - 1 = monthOf id := by unfold monthOf; omega
    rw [e1, e2]
  · simp only [h, if_false]
    have e1 : 1970 + (id + 1) / 12 - 1 = yearOf id := by unfold yearOf; omega
    have e2 : monthOf id = 12 := by unfold monthOf; omega
    rw [e1, e2, dim_twelve]

/-! ### ordinals count days -/

theorem daysBeforeMonth_succ (y : Int) (m : Nat) (h : 1 ≤ m) :
    daysBeforeMonth y (m + 1) = daysBeforeMonth y m + dim y m := by
  unfold daysBeforeMonth
  obtain ⟨n, rfl⟩ : ∃ n, m = n + 1 := ⟨m - 1, by omega⟩
  simp only [Nat.add_sub_cancel, List.range_succ, List.foldl_append, List.foldl_cons, List.foldl_nil]

theorem daysBeforeMonth_one (y : Int) : daysBeforeMonth y 1 = 0 := by
  simp [daysBeforeMonth]

theorem daysBeforeMonth_twelve (y : Int) :
    daysBeforeMonth y 12 = if isLeap y then 335 else 334 := by
  simp only [daysBeforeMonth, List.range_succ, List.range_zero]
  simp only [List.nil_append, List.cons_append, List.foldl_cons, List.foldl_nil, dim]
  split <;> rfl

theorem daysBeforeYear_succ (y : Int) :
    daysBeforeYear (y + 1) = daysBeforeYear y + (if isLeap y then 366 else 365) := by
  unfold daysBeforeYear isLeap
  simp only [Int.add_sub_cancel]
  by_cases h4 : y % 4 = 0 <;> by_cases h100 : y % 100 = 0 <;> by_cases h400 : y % 400 = 0 <;>
    simp [h4, h100, h400] <;> omega

theorem ordinal_succ {d : Date} (hv : d.valid) : d.succ.ordinal = d.ordinal + 1 := by
  obtain ⟨h1, h2, h3, h4⟩ := (valid_iff d).mp hv
  unfold Date.succ
  split
  · simp only [Date.ordinal]; omega
  · split
    · have hd : d.d = dim d.y d.m := by omega
      simp only [Date.ordinal, daysBeforeMonth_succ d.y d.m h1]
      omega
    · have hm : d.m = 12 := by omega
      have hd : d.d = dim d.y d.m := by omega
      rw [hm, dim_twelve] at hd
      simp only [Date.ordinal, daysBeforeYear_succ, daysBeforeMonth_one, hm, hd, daysBeforeMonth_twelve]
      split <;> omega

theorem succ_valid {d : Date} (hv : d.valid) : d.succ.valid = true := by
  obtain ⟨h1, h2, h3, h4⟩ := (valid_iff d).mp hv
  unfold Date.succ
  split
  · rw [valid_iff]; simp only; omega
  · split
    · rw [valid_iff]; have := dim_pos d.y (d.m + 1); simp only; omega
    · rw [valid_iff]; have := dim_pos (d.y + 1) 1; simp only; omega

theorem iterate_succ_valid {d : Date} (hv : d.valid) (n : Nat) : (Date.succ^[n] d).valid = true := by
  induction n generalizing d with
  | zero => exact hv
  | succ n ih => exact ih (succ_valid hv)

theorem ordinal_iterate_succ {d : Date} (hv : d.valid) (n : Nat) :
    (Date.succ^[n] d).ordinal = d.ordinal + n := by
  induction n generalizing d with
  | zero => simp
  | succ n ih =>
    rw [Function.iterate_succ_apply, ih (succ_valid hv), ordinal_succ hv]
    push_cast; omega


/-! ### `Date.ofOrdinal` inverts `Date.ordinal` on date.min .. date.max -/

def yearLen (y : Int) : Int := if isLeap y then 366 else 365

theorem daysBeforeYear_lower (y : Int) (h : 1 ≤ y) : 365 * (y - 1) ≤ daysBeforeYear y := by
  unfold daysBeforeYear; simp only; omega

theorem daysBeforeYear_upper (y : Int) (h : 1 ≤ y) : daysBeforeYear y ≤ 366 * (y - 1) := by
  unfold daysBeforeYear; simp only; omega

theorem findYear_spec (n : Int) : ∀ (fuel : Nat) (y : Int), daysBeforeYear y < n →
    n ≤ daysBeforeYear (y + fuel + 1) →
    daysBeforeYear (Date.ofOrdinal.findYear n fuel y) < n ∧
      n ≤ daysBeforeYear (Date.ofOrdinal.findYear n fuel y + 1) := by
  intro fuel
  induction fuel with
  | zero =>
    intro y h1 h2
    have e : y + ((0 : Nat) : Int) + 1 = y + 1 := by omega
    rw [e] at h2
    simpa [Date.ofOrdinal.findYear] using ⟨h1, h2⟩
  | succ f ih =>
    intro y h1 h2
    unfold Date.ofOrdinal.findYear
    split
    · rename_i hlt
      apply ih (y + 1) hlt
      have : y + 1 + (f : Int) + 1 = y + ((f + 1 : Nat) : Int) + 1 := by push_cast; omega
      rw [this]; exact h2
    · rename_i hge
      exact ⟨h1, by omega⟩


/-- days from the start of month `m` to the end of the year -/
theorem daysBeforeMonth_thirteen (y : Int) : (daysBeforeMonth y 13 : Int) = yearLen y := by
  have h := daysBeforeMonth_succ y 12 (by omega)
  rw [h, daysBeforeMonth_twelve, dim_twelve]
  unfold yearLen; split <;> rfl

theorem daysBeforeYear_succ' (y : Int) : daysBeforeYear (y + 1) = daysBeforeYear y + yearLen y :=
  daysBeforeYear_succ y

theorem findMonth_spec (y : Int) : ∀ (fuel m : Nat) (rest : Int), 1 ≤ m → m + fuel = 13 → 1 ≤ rest →
    (daysBeforeMonth y m : Int) + rest ≤ daysBeforeMonth y 13 →
    let r := Date.ofOrdinal.findMonth y fuel m rest
    1 ≤ r.1 ∧ r.1 ≤ 12 ∧ 1 ≤ r.2 ∧ r.2 ≤ dim y r.1 ∧
      (daysBeforeMonth y r.1 : Int) + r.2 = daysBeforeMonth y m + rest := by
  intro fuel
  induction fuel with
  | zero =>
    intro m rest h1 h2 h3 h4
    have : m = 13 := by omega
    subst this
    omega
  | succ f ih =>
    intro m rest h1 h2 h3 h4
    unfold Date.ofOrdinal.findMonth
    have hs := daysBeforeMonth_succ y m h1
    split
    · rename_i hgt
      have := ih (m + 1) (rest - dim y m) (by omega) (by omega) (by omega) (by rw [hs]; push_cast; omega)
      simp only at this ⊢
      rw [hs] at this
      push_cast at this
      omega
    · rename_i hle
      simp only
      refine ⟨h1, by omega, h3, by omega, ?_⟩
      trivial


theorem ofOrdinal_spec (n : Int) (h1 : 1 ≤ n) (h2 : n ≤ 3652059) :
    (Date.ofOrdinal n).valid = true ∧ (Date.ofOrdinal n).ordinal = n := by
  have hy0 : 1 ≤ (n - 1) / 366 + 1 := by omega
  have hlo := daysBeforeYear_upper ((n - 1) / 366 + 1) hy0
  have hup := daysBeforeYear_lower ((n - 1) / 366 + 1 + ((400 : Nat) : Int) + 1) (by omega)
  obtain ⟨hA, hB⟩ := findYear_spec n 400 ((n - 1) / 366 + 1) (by omega) (by omega)
  unfold Date.ofOrdinal
  simp only
  generalize Date.ofOrdinal.findYear n 400 ((n - 1) / 366 + 1) = y at hA hB
  rw [daysBeforeYear_succ'] at hB
  have hm := findMonth_spec y 12 1 (n - daysBeforeYear y) (by omega) (by omega) (by omega)
    (by rw [daysBeforeMonth_one, daysBeforeMonth_thirteen]; omega)
  simp only at hm
  rw [daysBeforeMonth_one] at hm
  generalize Date.ofOrdinal.findMonth y 12 1 (n - daysBeforeYear y) = r at hm
  obtain ⟨m, d⟩ := r
  simp only at hm ⊢
  obtain ⟨a, b, c, e, f⟩ := hm
  constructor
  · rw [valid_iff]; simp only; omega
  · simp only [Date.ordinal]; omega

theorem addDays_ordinal (d : Date) (n : Int) (h1 : 1 ≤ d.ordinal + n) (h2 : d.ordinal + n ≤ 3652059) :
    (d.addDays n).valid = true ∧ (d.addDays n).ordinal = d.ordinal + n :=
  ofOrdinal_spec _ h1 h2


/-! ### before 1970: integer lags are still right, fractional lags land one month late (D8) -/

theorem truncInt_intCast (z : Int) : truncInt (z : Rat) = z := by
  unfold truncInt
  split
  · exact floor_intCast z
  · have : -((z : Int) : Rat) = ((-z : Int) : Rat) := by push_cast; ring
    rw [this, floor_intCast]; omega

/-- integer final lag `M + 1`, any sign: the last day of month `M` -/
theorem addMonthsLag_int' (M : Int) : addMonthsLag ((M : Rat) + 1) = monthEndOf M := by
  have hcast : (M : Rat) + 1 = ((M + 1 : Int) : Rat) := by push_cast; ring
  unfold addMonthsLag
  simp only [hcast, floor_intCast, sub_self, truncInt_intCast, beq_self_eq_true, if_true]
  have hm : M + 1 - 1 = M := by omega
  simp only [hm, one_mul]
  have hd : roundHalfEven ((dim (1970 + M / 12) ((M % 12).toNat + 1) : Nat) : Rat)
      = ((dim (1970 + M / 12) ((M % 12).toNat + 1) : Nat) : Int) := by
    have := roundHalfEven_intCast ((dim (1970 + M / 12) ((M % 12).toNat + 1) : Nat) : Int)
    simpa using this
  rw [hd]
  have hp := dim_pos (1970 + M / 12) ((M % 12).toNat + 1)
  have hne : (((dim (1970 + M / 12) ((M % 12).toNat + 1) : Nat) : Int) == 0) = false := by
    simp; omega
  simp only [hne, Int.toNat_natCast, monthEndOf, yearOf, monthOf]
  rfl

theorem pred_first_of_month (M : Int) : (Date.mk (yearOf (M + 1)) (monthOf (M + 1)) 1).pred = monthEndOf M := by
  have := idToMonth_false M
  simpa [idToMonth, yearOf, monthOf] using this

/-- fractional final lag `M + f` with `M < 0` (a date before 1970): `int()` truncates toward zero,
so the month index used is `M + 1` -/
theorem addMonthsLag_frac_neg (M : Int) (f : Rat) (hM : M < 0) (h0 : 0 < f) (h1 : f < 1) :
    addMonthsLag ((M : Rat) + f) =
      (let day := roundHalfEven (f * (dim (yearOf (M + 1)) (monthOf (M + 1)) : Rat))
       if day == 0 then monthEndOf M else ⟨yearOf (M + 1), monthOf (M + 1), day.toNat⟩) := by
  have hfl : ((M : Rat) + f).floor = M := floor_int_add M f (le_of_lt h0) h1
  have hneg : ¬ (0 : Rat) ≤ (M : Rat) + f := by
    have : (M : Rat) ≤ -1 := by exact_mod_cast (by omega : M ≤ -1)
    linarith
  have hfl2 : (-((M : Rat) + f)).floor = -M - 1 := by
    have e : -((M : Rat) + f) = ((-M - 1 : Int) : Rat) + (1 - f) := by push_cast; ring
    rw [e]; exact floor_int_add _ _ (by linarith) (by linarith)
  have htr : truncInt ((M : Rat) + f) = M + 1 := by
    unfold truncInt; rw [if_neg hneg, hfl2]; omega
  have hfr : (M : Rat) + f - ((M : Int) : Rat) = f := by ring
  have hne : (f == 0) = false := by simp; exact ne_of_gt h0
  rw [← pred_first_of_month M]
  unfold addMonthsLag
  simp only [hfl, hfr, hne, htr, yearOf, monthOf]
  rfl

/-- month ends, integer offsets, ANY year: the last day of month `monthToId d + k` -/
theorem addMonths_monthEnd_all (d : Date) (k : Int) (he : d.isMonthEnd) :
    addMonths d ((k : Int) : Rat) = monthEndOf (monthToId d + k) := by
  rw [addMonths_eq_lag, finalLag_int]
  have e1 : d.d = dim d.y d.m := by simpa [Date.isMonthEnd] using he
  have n1 : ((dim d.y d.m : Nat) : Rat) ≠ 0 := by exact_mod_cast (Nat.ne_of_gt (dim_pos _ _))
  rw [e1, div_self n1, addMonthsLag_int']

/-- the inverse law holds for month-end targets in ANY year -/
theorem addMonths_devLag_monthEnd (p e : Date) (he : e.valid) (hme : e.isMonthEnd) :
    addMonths p (devLagMonths p e) = e := by
  rw [addMonths_eq_lag, finalLag_devLag]
  have e1 : e.d = dim e.y e.m := by simpa [Date.isMonthEnd] using hme
  have n1 : ((dim e.y e.m : Nat) : Rat) ≠ 0 := by exact_mod_cast (Nat.ne_of_gt (dim_pos _ _))
  rw [e1, div_self n1, addMonthsLag_int']
  exact monthEndOf_monthToId he hme

/-- … and fails for every target before 1970 that is not a month end -/
theorem addMonths_devLag_pre1970_ne (p e : Date) (he : e.valid) (h70 : e.y < 1970)
    (hme : e.isMonthEnd = false) : addMonths p (devLagMonths p e) ≠ e := by
  obtain ⟨h1, h2, h3, h4⟩ := (valid_iff e).mp he
  rw [addMonths_eq_lag, finalLag_devLag]
  have hlt : e.d < dim e.y e.m := by
    have : e.d ≠ dim e.y e.m := by simpa [Date.isMonthEnd] using hme
    omega
  have hn : (0 : Rat) < (dim e.y e.m : Rat) := by exact_mod_cast dim_pos _ _
  have hd0 : (0 : Rat) < (e.d : Rat) := by exact_mod_cast h3
  have hf0 : (0 : Rat) < (e.d : Rat) / (dim e.y e.m : Rat) := div_pos hd0 hn
  have hf1 : (e.d : Rat) / (dim e.y e.m : Rat) < 1 := by rw [div_lt_one hn]; exact_mod_cast hlt
  have hM : monthToId e < 0 := by unfold monthToId; omega
  rw [addMonthsLag_frac_neg _ _ hM hf0 hf1]
  simp only
  split
  · intro h
    have := monthEndOf_isMonthEnd (monthToId e)
    rw [h, hme] at this
    exact Bool.false_ne_true this
  · intro h
    have := congrArg monthToId h
    rw [monthToId_mk] at this
    omega


/-- D8 for integer offsets: a date that is not a month end, moved to a month before 1970, lands
exactly one month late -/
theorem addMonths_int_pre1970_form (d : Date) (k : Int) (hv : d.valid) (hne : d.isMonthEnd = false)
    (h : monthToId d + k < 0) :
    monthToId (addMonths d ((k : Int) : Rat)) = monthToId d + k + 1 := by
  obtain ⟨h1, h2, h3, h4⟩ := (valid_iff d).mp hv
  rw [addMonths_eq_lag, finalLag_int]
  generalize monthToId d + k = M at *
  have hlt : d.d < dim d.y d.m := by
    have : d.d ≠ dim d.y d.m := by simpa [Date.isMonthEnd] using hne
    omega
  have hn : (0 : Rat) < (dim d.y d.m : Rat) := by exact_mod_cast dim_pos _ _
  have hn' : (0 : Rat) < (dim (yearOf (M + 1)) (monthOf (M + 1)) : Rat) := by exact_mod_cast dim_pos _ _
  have hd0 : (0 : Rat) < (d.d : Rat) := by exact_mod_cast h3
  have hf0 : (0 : Rat) < (d.d : Rat) / (dim d.y d.m : Rat) := div_pos hd0 hn
  have hf1 : (d.d : Rat) / (dim d.y d.m : Rat) < 1 := by rw [div_lt_one hn]; exact_mod_cast hlt
  rw [addMonthsLag_frac_neg M _ h hf0 hf1]
  have b1 := dim_bounds d.y d.m
  have b2 := dim_bounds (yearOf (M + 1)) (monthOf (M + 1))
  have hge : (1 : Rat) / 2 < (d.d : Rat) / (dim d.y d.m : Rat) * (dim (yearOf (M + 1)) (monthOf (M + 1)) : Rat) := by
    have h28 : (28 : Rat) ≤ (dim (yearOf (M + 1)) (monthOf (M + 1)) : Rat) := by exact_mod_cast b2.1
    have h31 : (dim d.y d.m : Rat) ≤ 31 := by exact_mod_cast b1.2
    have hd1 : (1 : Rat) ≤ (d.d : Rat) := by exact_mod_cast h3
    rw [div_mul_eq_mul_div, lt_div_iff₀ hn]
    nlinarith
  have r1 := roundHalfEven_ge_one hge
  generalize roundHalfEven ((d.d : Rat) / (dim d.y d.m : Rat) * (dim (yearOf (M + 1)) (monthOf (M + 1)) : Rat)) = day at r1
  have : (day == 0) = false := by simp; omega
  simp only [this]
  exact monthToId_mk _ _

/-- integer offsets, closed form of the DAY: day = round-half-even(day / days-in-month × days in the target month) -/
theorem addMonths_int_day_form (d : Date) (k : Int) (hv : d.valid) (h : 0 ≤ monthToId d + k) :
    addMonths d ((k : Int) : Rat) = ⟨yearOf (monthToId d + k), monthOf (monthToId d + k),
      (roundHalfEven ((d.d : Rat) / (dim d.y d.m : Rat)
        * (dim (yearOf (monthToId d + k)) (monthOf (monthToId d + k)) : Rat))).toNat⟩ := by
  obtain ⟨h1, h2, h3, h4⟩ := (valid_iff d).mp hv
  rw [addMonths_eq_lag, finalLag_int]
  generalize hMdef : monthToId d + k = M at *
  have hn : (0 : Rat) < (dim d.y d.m : Rat) := by exact_mod_cast dim_pos _ _
  have hn' : (0 : Rat) < (dim (yearOf M) (monthOf M) : Rat) := by exact_mod_cast dim_pos _ _
  rcases Nat.lt_or_eq_of_le h4 with hlt | heq
  · have hd0 : (0 : Rat) < (d.d : Rat) := by exact_mod_cast h3
    have hf0 : (0 : Rat) < (d.d : Rat) / (dim d.y d.m : Rat) := div_pos hd0 hn
    have hf1 : (d.d : Rat) / (dim d.y d.m : Rat) < 1 := by rw [div_lt_one hn]; exact_mod_cast hlt
    rw [addMonthsLag_frac M _ h hf0 hf1]
    have b1 := dim_bounds d.y d.m
    have b2 := dim_bounds (yearOf M) (monthOf M)
    have hge : (1 : Rat) / 2 < (d.d : Rat) / (dim d.y d.m : Rat) * (dim (yearOf M) (monthOf M) : Rat) := by
      have h28 : (28 : Rat) ≤ (dim (yearOf M) (monthOf M) : Rat) := by exact_mod_cast b2.1
      have h31 : (dim d.y d.m : Rat) ≤ 31 := by exact_mod_cast b1.2
      have hd1 : (1 : Rat) ≤ (d.d : Rat) := by exact_mod_cast h3
      rw [div_mul_eq_mul_div, lt_div_iff₀ hn]
      nlinarith
    have r1 := roundHalfEven_ge_one hge
    have : (roundHalfEven ((d.d : Rat) / (dim d.y d.m : Rat) * (dim (yearOf M) (monthOf M) : Rat)) == 0) = false := by
      simp; omega
    simp [this]
  · have hf : (d.d : Rat) / (dim d.y d.m : Rat) = 1 := by rw [heq]; exact div_self (ne_of_gt hn)
    rw [hf, addMonthsLag_int M h, one_mul]
    have hr : roundHalfEven ((dim (yearOf M) (monthOf M) : Nat) : Rat)
        = ((dim (yearOf M) (monthOf M) : Nat) : Int) := by
      have := roundHalfEven_intCast ((dim (yearOf M) (monthOf M) : Nat) : Int)
      simpa using this
    rw [hr, Int.toNat_natCast]

end Bermuda
