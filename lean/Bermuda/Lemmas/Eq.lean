/-
Helper lemmas for C02: `values_eq`, `Metadata.__eq__`, `Cell.__eq__`, `Triangle.__eq__` are
equivalence relations with a declarative characterisation; the counting argument behind
"one edit makes it unequal".  Core Lean only.
-/
import Bermuda.Model.Eq
import Bermuda.Lemmas.Sort
namespace Bermuda
open Std

/-! ### values -/

theorem Val.eqv_iff {x y : Val} : x.eqv y = true ↔ x.shape = y.shape ∧ x.data = y.data := by
  simp [Val.eqv]

theorem Val.eqv_refl (x : Val) : x.eqv x = true := by simp [Val.eqv]

theorem Val.eqv_symm {x y : Val} (h : x.eqv y = true) : y.eqv x = true := by
  rw [Val.eqv_iff] at *; exact ⟨h.1.symm, h.2.symm⟩

theorem Val.eqv_trans {x y z : Val} (h₁ : x.eqv y = true) (h₂ : y.eqv z = true) : x.eqv z = true := by
  rw [Val.eqv_iff] at *; exact ⟨h₁.1.trans h₂.1, h₁.2.trans h₂.2⟩

theorem sortStrings_eq_iff_perm {a b : List String} : sortStrings a = sortStrings b ↔ a.Perm b := by
  constructor
  · intro h
    have ha := List.mergeSort_perm a (fun a b => compare a b != .gt)
    have hb := List.mergeSort_perm b (fun a b => compare a b != .gt)
    unfold sortStrings at h
    exact ha.symm.trans (h ▸ hb)
  · intro h
    exact mergeSort_perm_invariant (cmp := (compare : String → String → Ordering)) h
      (fun a b _ _ hab => LawfulEqCmp.eq_of_compare hab)

theorem sortStrings_perm (a : List String) : (sortStrings a).Perm a :=
  List.mergeSort_perm a _

theorem Dict.get?_nil {α} (k : String) : Dict.get? ([] : Dict α) k = none := rfl

theorem Dict.get?_cons {α} (p : String × α) (rest : Dict α) (k : String) :
    Dict.get? (p :: rest) k = if p.1 = k then some p.2 else Dict.get? rest k := by
  by_cases hk : p.1 = k <;> simp [Dict.get?, hk]

theorem Dict.keys_cons {α} (p : String × α) (rest : Dict α) : Dict.keys (p :: rest) = p.1 :: Dict.keys rest := rfl

theorem Dict.get?_of_mem_keys {α} {d : Dict α} {k : String} (h : k ∈ d.keys) : ∃ v, d.get? k = some v := by
  induction d with
  | nil => simp [Dict.keys] at h
  | cons p rest ih =>
    rw [Dict.get?_cons]
    by_cases hk : p.1 = k
    · exact ⟨p.2, by simp [hk]⟩
    · rw [Dict.keys_cons, List.mem_cons] at h
      rcases h with h | h
      · exact absurd h.symm hk
      · simpa [hk] using ih h

theorem Dict.mem_keys_of_get? {α} {d : Dict α} {k : String} {v : α} (h : d.get? k = some v) : k ∈ d.keys := by
  simp only [Dict.get?, Option.map_eq_some_iff] at h
  obtain ⟨p, hp, _⟩ := h
  have h1 := List.mem_of_find?_eq_some hp
  have h2 := List.find?_some hp
  simp only [beq_iff_eq] at h2
  exact List.mem_map.mpr ⟨p, h1, h2⟩

/-! ### `values_eq` -/

theorem keysEq_iff {a b : Dict Val} : keysEq a b = true ↔ a.keys.Perm b.keys := by
  simp [keysEq, sortStrings_eq_iff_perm]

theorem valueEqAt_iff {a b : Dict Val} {k : String} :
    valueEqAt a b k = true ↔ ∃ x y, a.get? k = some x ∧ b.get? k = some y ∧ x.eqv y = true := by
  unfold valueEqAt
  split
  · rename_i x y hx hy; simp [hx, hy]
  · rename_i h
    constructor
    · intro h'; cases h'
    · rintro ⟨x, y, hx, hy, _⟩; exact absurd hy (by intro hy; exact h x y hx hy)

/-- **characterisation of `values_eq`**: same field names (as multisets; Python dicts have distinct
keys) and under every name numerically equal values of equal shape -/
theorem valuesEq_iff {a b : Dict Val} :
    valuesEq a b = true ↔
      a.keys.Perm b.keys ∧ ∀ k ∈ a.keys, ∃ x y, a.get? k = some x ∧ b.get? k = some y ∧ x.eqv y = true := by
  simp only [valuesEq, Bool.and_eq_true, keysEq_iff, List.all_eq_true, valueEqAt_iff]

theorem valuesEq_refl (a : Dict Val) : valuesEq a a = true := by
  rw [valuesEq_iff]
  refine ⟨List.Perm.refl _, fun k hk => ?_⟩
  obtain ⟨v, hv⟩ := Dict.get?_of_mem_keys hk
  exact ⟨v, v, hv, hv, Val.eqv_refl v⟩

theorem valuesEq_symm {a b : Dict Val} (h : valuesEq a b = true) : valuesEq b a = true := by
  rw [valuesEq_iff] at *
  refine ⟨h.1.symm, fun k hk => ?_⟩
  obtain ⟨x, y, hx, hy, hxy⟩ := h.2 k (h.1.mem_iff.mpr hk)
  exact ⟨y, x, hy, hx, Val.eqv_symm hxy⟩

theorem valuesEq_trans {a b c : Dict Val} (h₁ : valuesEq a b = true) (h₂ : valuesEq b c = true) :
    valuesEq a c = true := by
  rw [valuesEq_iff] at *
  refine ⟨h₁.1.trans h₂.1, fun k hk => ?_⟩
  obtain ⟨x, y, hx, hy, hxy⟩ := h₁.2 k hk
  obtain ⟨y', z, hy', hz, hyz⟩ := h₂.2 k (h₁.1.mem_iff.mp hk)
  have : y = y' := by rw [hy] at hy'; exact Option.some.inj hy'
  subst this
  exact ⟨x, z, hx, hz, Val.eqv_trans hxy hyz⟩

/-! ### metadata -/

theorem Metadata.eqv_iff_hashKey {a b : Metadata} : a.eqv b = true ↔ a.hashKey = b.hashKey := by
  cases a; cases b
  simp [Metadata.eqv, Metadata.hashKey, and_assoc]

theorem Metadata.eqv_refl (a : Metadata) : a.eqv a = true := Metadata.eqv_iff_hashKey.mpr rfl
theorem Metadata.eqv_symm {a b : Metadata} (h : a.eqv b = true) : b.eqv a = true :=
  Metadata.eqv_iff_hashKey.mpr (Metadata.eqv_iff_hashKey.mp h).symm
theorem Metadata.eqv_trans {a b c : Metadata} (h₁ : a.eqv b = true) (h₂ : b.eqv c = true) : a.eqv c = true :=
  Metadata.eqv_iff_hashKey.mpr ((Metadata.eqv_iff_hashKey.mp h₁).trans (Metadata.eqv_iff_hashKey.mp h₂))

theorem Metadata.hashKey_of_canon {m : Metadata} (h : m.Canon) : m.hashKey = m := by
  cases m
  simp only [Metadata.hashKey]
  rw [sortItems_of_canon h.1, sortItems_of_canon h.2]

/-- on canonical metadata (key-sorted detail dicts) Python's `==` is structural equality -/
theorem Metadata.eqv_iff_eq {a b : Metadata} (ha : a.Canon) (hb : b.Canon) : a.eqv b = true ↔ a = b := by
  rw [Metadata.eqv_iff_hashKey, Metadata.hashKey_of_canon ha, Metadata.hashKey_of_canon hb]

/-! ### cells -/

/-- class and `prev_evaluation_date` fit together: exactly the incremental cells have one
(implied by the constructor's rules, `Cell.datesOk`) -/
def Cell.KindOk (c : Cell) : Prop := c.kind = .incremental ↔ c.prev.isSome = true

theorem Cell.kindOk_of_datesOk {c : Cell} (h : c.datesOk = true) : c.KindOk := by
  unfold Cell.datesOk at h
  unfold Cell.KindOk
  simp only [Bool.and_eq_true] at h
  have h4 := h.2
  revert h4
  cases hk : c.kind <;> cases hp : c.prev <;> simp

theorem classCompat_comm (a b : CellKind) : classCompat a b = classCompat b a := by
  cases a <;> cases b <;> rfl

theorem classCompat_self (a : CellKind) : classCompat a a = true := by cases a <;> rfl

theorem Cell.baseEq_iff {a b : Cell} :
    a.baseEq b = true ↔ classCompat a.kind b.kind = true ∧ a.ps = b.ps ∧ a.pe = b.pe ∧ a.ev = b.ev ∧
      a.md.eqv b.md = true ∧ valuesEq a.values b.values = true := by
  simp [Cell.baseEq, and_assoc]

theorem Cell.baseEq_symm {a b : Cell} (h : a.baseEq b = true) : b.baseEq a = true := by
  rw [Cell.baseEq_iff] at *
  obtain ⟨h1, h2, h3, h4, h5, h6⟩ := h
  exact ⟨classCompat_comm _ _ ▸ h1, h2.symm, h3.symm, h4.symm, Metadata.eqv_symm h5, valuesEq_symm h6⟩

theorem Cell.baseEq_comm (a b : Cell) : a.baseEq b = b.baseEq a := by
  rw [Bool.eq_iff_iff]; exact ⟨Cell.baseEq_symm, Cell.baseEq_symm⟩

/-- the dispatch of `==` in normal form: `Cell.__eq__`'s conjunction, plus the comparison of
`prev_evaluation_date` whenever an `IncrementalCell.__eq__` is the method that runs -/
theorem cellEq_eq (a b : Cell) :
    cellEq a b = (a.baseEq b &&
      (if a.kind = .incremental ∨ b.kind = .incremental then a.prev == b.prev else true)) := by
  unfold cellEq
  split
  · rename_i h; simp [Cell.incEq, h]
  · rename_i h1 h2
    simp only [Cell.incEq, h1, h2, or_true, if_true]
    rw [Cell.baseEq_comm b a, BEq.comm (a := b.prev)]
  · rename_i h1 h2
    cases ha : a.kind <;> cases hb : b.kind <;> simp_all [Cell.baseEq, classCompat, CellKind.isInstanceOf]

theorem cellEq_iff' {a b : Cell} :
    cellEq a b = true ↔
      classCompat a.kind b.kind = true ∧ a.ps = b.ps ∧ a.pe = b.pe ∧ a.ev = b.ev ∧
      ((a.kind = .incremental ∨ b.kind = .incremental) → a.prev = b.prev) ∧
      a.md.eqv b.md = true ∧ valuesEq a.values b.values = true := by
  rw [cellEq_eq, Bool.and_eq_true, Cell.baseEq_iff]
  by_cases h : a.kind = .incremental ∨ b.kind = .incremental
  · simp only [h, if_true, beq_iff_eq, forall_const]; grind
  · simp only [h, if_false, false_imp_iff]; grind

theorem cellEq_refl (a : Cell) : cellEq a a = true := by
  rw [cellEq_iff']
  exact ⟨classCompat_self _, rfl, rfl, rfl, fun _ => rfl, Metadata.eqv_refl _, valuesEq_refl _⟩

theorem cellEq_symm {a b : Cell} (h : cellEq a b = true) : cellEq b a = true := by
  rw [cellEq_iff'] at *
  obtain ⟨h1, h2, h3, h4, h5, h6, h7⟩ := h
  exact ⟨classCompat_comm _ _ ▸ h1, h2.symm, h3.symm, h4.symm, fun h => (h5 h.symm).symm,
    Metadata.eqv_symm h6, valuesEq_symm h7⟩

theorem cellEq_comm (a b : Cell) : cellEq a b = cellEq b a := by
  rw [Bool.eq_iff_iff]; exact ⟨cellEq_symm, cellEq_symm⟩

/-- equal well-formed cells are of the same basis: an `IncrementalCell` only equals an `IncrementalCell` -/
theorem cellEq_sameBasis {a b : Cell} (ha : a.KindOk) (hb : b.KindOk) (h : cellEq a b = true) :
    (a.kind = .incremental ↔ b.kind = .incremental) := by
  rw [cellEq_iff'] at h
  have hp := h.2.2.2.2.1
  unfold Cell.KindOk at ha hb
  constructor
  · intro hk; rw [hb, ← hp (Or.inl hk), ← ha]; exact hk
  · intro hk; rw [ha, hp (Or.inr hk), ← hb]; exact hk

theorem classCompat_of_sameBasis {a b : CellKind} (h : a = .incremental ↔ b = .incremental) :
    classCompat a b = true := by
  cases a <;> cases b <;> simp_all [classCompat, CellKind.isInstanceOf]

theorem cellEq_trans {a b c : Cell} (ha : a.KindOk) (hb : b.KindOk) (hc : c.KindOk)
    (h₁ : cellEq a b = true) (h₂ : cellEq b c = true) : cellEq a c = true := by
  have s₁ := cellEq_sameBasis ha hb h₁
  have s₂ := cellEq_sameBasis hb hc h₂
  rw [cellEq_iff'] at *
  obtain ⟨_, a2, a3, a4, a5, a6, a7⟩ := h₁
  obtain ⟨_, b2, b3, b4, b5, b6, b7⟩ := h₂
  refine ⟨classCompat_of_sameBasis (s₁.trans s₂), a2.trans b2, a3.trans b3, a4.trans b4, ?_,
    Metadata.eqv_trans a6 b6, valuesEq_trans a7 b7⟩
  intro h
  have hbk : b.kind = .incremental := by
    rcases h with h | h
    · exact s₁.mp h
    · exact s₂.mpr h
  exact (a5 (Or.inr hbk)).trans (b5 (Or.inl hbk))

/-! ### triangles -/

@[simp] theorem triEq_nil_nil : triEq [] [] = true := rfl
@[simp] theorem triEq_nil_cons (y : Cell) (ys : List Cell) : triEq [] (y :: ys) = false := rfl
@[simp] theorem triEq_cons_nil (x : Cell) (xs : List Cell) : triEq (x :: xs) [] = false := rfl

@[simp] theorem triEq_cons_cons (x y : Cell) (xs ys : List Cell) :
    triEq (x :: xs) (y :: ys) = (cellEq x y && triEq xs ys) := by
  rw [Bool.eq_iff_iff]
  simp only [triEq, List.length_cons, List.zipWith_cons_cons, List.all_cons, id, Bool.and_eq_true,
    beq_iff_eq, Nat.add_right_cancel_iff]
  grind

theorem triEq_length {a b : List Cell} (h : triEq a b = true) : a.length = b.length := by
  simp only [triEq, Bool.and_eq_true, beq_iff_eq] at h; exact h.1

theorem triEq_of_length_ne {a b : List Cell} (h : a.length ≠ b.length) : triEq a b = false := by
  cases hab : triEq a b
  · rfl
  · exact absurd (triEq_length hab) h

theorem triEq_iff_getElem {a b : List Cell} :
    triEq a b = true ↔ a.length = b.length ∧
      ∀ i (h₁ : i < a.length) (h₂ : i < b.length), cellEq a[i] b[i] = true := by
  induction a generalizing b with
  | nil => cases b <;> simp
  | cons x xs ih =>
    cases b with
    | nil => simp
    | cons y ys =>
      simp only [triEq_cons_cons, Bool.and_eq_true, ih, List.length_cons, Nat.add_right_cancel_iff]
      constructor
      · rintro ⟨h0, hl, hr⟩
        refine ⟨hl, fun i h₁ h₂ => ?_⟩
        cases i with
        | zero => simpa using h0
        | succ i => simpa using hr i (by omega) (by omega)
      · rintro ⟨hl, h⟩
        refine ⟨by simpa using h 0 (by omega) (by omega), hl, fun i h₁ h₂ => ?_⟩
        have := h (i + 1) (by simp; omega) (by simp; omega)
        simpa only [List.getElem_cons_succ] using this

theorem triEq_refl (a : List Cell) : triEq a a = true := by
  induction a with
  | nil => rfl
  | cons x xs ih => simp [cellEq_refl, ih]

theorem triEq_symm {a b : List Cell} (h : triEq a b = true) : triEq b a = true := by
  induction a generalizing b with
  | nil => cases b <;> simp_all
  | cons x xs ih =>
    cases b with
    | nil => simp at h
    | cons y ys =>
      simp only [triEq_cons_cons, Bool.and_eq_true] at h ⊢
      exact ⟨cellEq_symm h.1, ih h.2⟩

theorem triEq_trans {a b c : List Cell} (ha : ∀ x ∈ a, x.KindOk) (hb : ∀ x ∈ b, x.KindOk)
    (hc : ∀ x ∈ c, x.KindOk) (h₁ : triEq a b = true) (h₂ : triEq b c = true) : triEq a c = true := by
  induction a generalizing b c with
  | nil => cases b <;> cases c <;> simp_all
  | cons x xs ih =>
    cases b with
    | nil => simp at h₁
    | cons y ys =>
      cases c with
      | nil => simp at h₂
      | cons z zs =>
        simp only [triEq_cons_cons, Bool.and_eq_true] at h₁ h₂ ⊢
        exact ⟨cellEq_trans (ha x (by simp)) (hb y (by simp)) (hc z (by simp)) h₁.1 h₂.1,
          ih (fun x hx => ha x (by simp [hx])) (fun x hx => hb x (by simp [hx]))
            (fun x hx => hc x (by simp [hx])) h₁.2 h₂.2⟩

/-- equal triangles contain equally many cells of every `==`-invariant kind -/
theorem triEq_countP {p : Cell → Bool} {a b : List Cell}
    (hp : ∀ x ∈ a, ∀ y ∈ b, cellEq x y = true → p x = p y) (h : triEq a b = true) :
    a.countP p = b.countP p := by
  induction a generalizing b with
  | nil => cases b <;> simp_all
  | cons x xs ih =>
    cases b with
    | nil => simp at h
    | cons y ys =>
      simp only [triEq_cons_cons, Bool.and_eq_true] at h
      have hxy : p x = p y := hp x (by simp) y (by simp) h.1
      have := ih (b := ys) (fun x hx y hy => hp x (by simp [hx]) y (by simp [hy])) h.2
      simp only [List.countP_cons, hxy, this]

/-- **replacing one cell by a cell that is not `==` to it — wherever the replacement ends up after
re-sorting — gives an unequal triangle** (multiset argument: `==` is an equivalence, and the two
triangles contain different numbers of cells equal to the new cell) -/
theorem triEq_perm_set_false {t t' : List Cell} {i : Nat} {c' : Cell} (hi : i < t.length)
    (hwf : ∀ c ∈ t, c.KindOk) (hc' : c'.KindOk) (hne : cellEq t[i] c' = false)
    (hp : t'.Perm (t.set i c')) : triEq t t' = false := by
  cases h : triEq t t'
  · rfl
  · exfalso
    have hwf' : ∀ y ∈ t', y.KindOk := by
      intro y hy
      rcases List.mem_or_eq_of_mem_set (hp.mem_iff.mp hy) with hy | hy
      · exact hwf y hy
      · exact hy ▸ hc'
    have hcount := triEq_countP (p := fun x => cellEq c' x) (a := t) (b := t') (by
      intro x hx y hy hxy
      rw [Bool.eq_iff_iff]
      exact ⟨fun h => cellEq_trans hc' (hwf x hx) (hwf' y hy) h hxy,
             fun h => cellEq_trans hc' (hwf' y hy) (hwf x hx) h (cellEq_symm hxy)⟩) h
    rw [hp.countP_eq, List.countP_set hi] at hcount
    simp only [cellEq_comm c' t[i], hne, cellEq_refl, Bool.false_eq_true, if_false, if_true, Nat.sub_zero] at hcount
    omega

end Bermuda
