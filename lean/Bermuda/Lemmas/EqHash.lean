/-
Helper lemmas for C02, part 2: hash keys respect `==`; single edits on a cell make it unequal.
Core Lean only.
-/
import Bermuda.Lemmas.Eq
namespace Bermuda
open Std

/-! ### hash keys -/

theorem Val.hkey_arr {b : Bool} {s : List Nat} {d : List Rat} {h : HVal}
    (hh : (Val.arr b s d).hkey = .ok h) : h = .tup d := by
  unfold Val.hkey at hh
  split at hh <;> simp_all

theorem Val.hkey_eq_of_eqv {x y : Val} {hx hy : HVal} (h : x.eqv y = true)
    (h₁ : x.hkey = .ok hx) (h₂ : y.hkey = .ok hy) : hx = hy := by
  rw [Val.eqv_iff] at h
  obtain ⟨hs, hd⟩ := h
  cases x <;> cases y
  case arr.arr =>
    have := Val.hkey_arr h₁; have := Val.hkey_arr h₂
    simp_all [Val.data]
  all_goals simp_all [Val.hkey, Val.shape, Val.data]

theorem mapM_ok_congr {α β : Type} {f g : α → Except Err β} {l : List α} {xs ys : List β}
    (h : ∀ k ∈ l, ∀ x y, f k = .ok x → g k = .ok y → x = y)
    (hf : l.mapM f = .ok xs) (hg : l.mapM g = .ok ys) : xs = ys := by
  induction l generalizing xs ys with
  | nil => simp_all [List.mapM_nil, pure, Except.pure]
  | cons a rest ih =>
    rw [List.mapM_cons] at hf hg
    simp only [bind, Except.bind, pure, Except.pure] at hf hg
    split at hf
    · cases hf
    · rename_i x hx
      split at hf
      · cases hf
      · rename_i xs' hxs
        split at hg
        · cases hg
        · rename_i y hy
          split at hg
          · cases hg
          · rename_i ys' hys
            cases hf; cases hg
            rw [h a (by simp) x y hx hy, ih (fun k hk => h k (by simp [hk])) hxs hys]

theorem valsHashKey_eq_of_valuesEq {a b : Dict Val} {ka kb : List (String × HVal)}
    (h : valuesEq a b = true) (h₁ : valsHashKey a = .ok ka) (h₂ : valsHashKey b = .ok kb) : ka = kb := by
  have hk : sortStrings a.keys = sortStrings b.keys := by
    have h' := h
    simp only [valuesEq, keysEq, Bool.and_eq_true, beq_iff_eq] at h'
    exact h'.1
  rw [valuesEq_iff] at h
  unfold valsHashKey at h₁ h₂
  rw [← hk] at h₂
  refine mapM_ok_congr ?_ h₁ h₂
  intro k hkmem x y hx hy
  have hka : k ∈ a.keys := (sortStrings_perm a.keys).mem_iff.mp hkmem
  obtain ⟨u, v, hu, hv, huv⟩ := h.2 k hka
  simp only [hu, hv] at hx hy
  cases hux : u.hkey with
  | error e => simp [hux, Except.map] at hx
  | ok p =>
    cases hvy : v.hkey with
    | error e => simp [hvy, Except.map] at hy
    | ok q =>
      simp only [hux, hvy, Except.map, Except.ok.injEq] at hx hy
      rw [← hx, ← hy, Val.hkey_eq_of_eqv huv hux hvy]

theorem Cell.hashKey_ok {c : Cell} {k : HKey} (h : c.hashKey = .ok k) :
    ∃ vals, valsHashKey c.values = .ok vals ∧
      k = { cls := c.kind.hashName, ps := c.ps, pe := c.pe, ev := c.ev, md := c.md.hashKey, vals := vals,
            prev := match c.kind with | .incremental => some c.prev | _ => none } := by
  simp only [Cell.hashKey, bind, Except.bind, pure, Except.pure] at h
  split at h
  · cases h
  · rename_i vals hv
    exact ⟨vals, hv, by cases h; rfl⟩

/-- equal cells have equal hash keys (whenever both are hashable at all) -/
theorem Cell.hashKey_eq_of_cellEq {a b : Cell} {ka kb : HKey} (ha : a.KindOk) (hb : b.KindOk)
    (h : cellEq a b = true) (h₁ : a.hashKey = .ok ka) (h₂ : b.hashKey = .ok kb) : ka = kb := by
  have hs := cellEq_sameBasis ha hb h
  rw [cellEq_iff'] at h
  obtain ⟨_, e1, e2, e3, e4, e5, e6⟩ := h
  obtain ⟨va, hva, rfl⟩ := Cell.hashKey_ok h₁
  obtain ⟨vb, hvb, rfl⟩ := Cell.hashKey_ok h₂
  have hv := valsHashKey_eq_of_valuesEq e6 hva hvb
  have hm := Metadata.eqv_iff_hashKey.mp e5
  have hn : a.kind.hashName = b.kind.hashName := by
    cases hka : a.kind <;> cases hkb : b.kind <;> simp_all [CellKind.hashName]
  have hp : (match a.kind with | .incremental => some a.prev | _ => none) =
            (match b.kind with | .incremental => some b.prev | _ => (none : Option (Option Date))) := by
    cases hka : a.kind <;> cases hkb : b.kind <;> simp_all
  rw [e1, e2, e3, hv, hm, hn, hp]

/-- equal triangles have equal hash keys (whenever both are hashable at all) -/
theorem triHashKey_eq_of_triEq' {a b : List Cell} {ka kb : List HKey}
    (ha : ∀ x ∈ a, x.KindOk) (hb : ∀ x ∈ b, x.KindOk)
    (h : triEq a b = true) (h₁ : triHashKey a = .ok ka) (h₂ : triHashKey b = .ok kb) : ka = kb := by
  unfold triHashKey at h₁ h₂
  induction a generalizing b ka kb with
  | nil =>
    cases b with
    | nil => simp_all [List.mapM_nil, pure, Except.pure]
    | cons y ys => simp at h
  | cons x xs ih =>
    cases b with
    | nil => simp at h
    | cons y ys =>
      simp only [triEq_cons_cons, Bool.and_eq_true] at h
      rw [List.mapM_cons] at h₁ h₂
      simp only [bind, Except.bind, pure, Except.pure] at h₁ h₂
      split at h₁
      · cases h₁
      · rename_i kx hkx
        split at h₁
        · cases h₁
        · rename_i kxs hkxs
          split at h₂
          · cases h₂
          · rename_i ky hky
            split at h₂
            · cases h₂
            · rename_i kys hkys
              cases h₁; cases h₂
              rw [Cell.hashKey_eq_of_cellEq (ha x (by simp)) (hb y (by simp)) h.1 hkx hky,
                ih (fun x hx => ha x (by simp [hx])) (fun x hx => hb x (by simp [hx])) h.2 hkxs hkys]

/-! ### single edits on a cell -/

theorem cellEq_false_of {a b : Cell} (h : cellEq a b = true → False) : cellEq a b = false := by
  cases hc : cellEq a b
  · rfl
  · exact (h hc).elim

theorem cellEq_edit_ps_false {c : Cell} {d : Date} (h : d ≠ c.ps) : cellEq c { c with ps := d } = false :=
  cellEq_false_of fun hc => h (cellEq_iff'.mp hc).2.1.symm

theorem cellEq_edit_pe_false {c : Cell} {d : Date} (h : d ≠ c.pe) : cellEq c { c with pe := d } = false :=
  cellEq_false_of fun hc => h (cellEq_iff'.mp hc).2.2.1.symm

theorem cellEq_edit_ev_false {c : Cell} {d : Date} (h : d ≠ c.ev) : cellEq c { c with ev := d } = false :=
  cellEq_false_of fun hc => h (cellEq_iff'.mp hc).2.2.2.1.symm

theorem cellEq_edit_prev_false {c : Cell} {d : Option Date} (hk : c.kind = .incremental) (h : d ≠ c.prev) :
    cellEq c { c with prev := d } = false :=
  cellEq_false_of fun hc => h ((cellEq_iff'.mp hc).2.2.2.2.1 (Or.inl hk)).symm

theorem cellEq_edit_meta_false {c : Cell} {m : Metadata} (h : c.md.eqv m = false) :
    cellEq c { c with md := m } = false :=
  cellEq_false_of fun hc => by
    have := (cellEq_iff'.mp hc).2.2.2.2.2.1
    simp [h] at this

theorem Dict.mem_keys_iff_contains {α} {d : Dict α} {k : String} : d.contains k = true ↔ k ∈ d.keys := by
  simp only [Dict.contains, Dict.keys, List.any_eq_true, List.mem_map, beq_iff_eq]

theorem Dict.get?_map_set {α} (d : Dict α) {k : String} {v : α} (h : k ∈ d.keys) :
    Dict.get? (d.map (fun p => if p.1 == k then (k, v) else p)) k = some v := by
  induction d with
  | nil => simp [Dict.keys] at h
  | cons p rest ih =>
    rw [List.map_cons, Dict.get?_cons]
    by_cases hk : p.1 = k
    · simp [hk]
    · rw [Dict.keys_cons, List.mem_cons] at h
      have hr : k ∈ Dict.keys rest := by
        rcases h with h | h
        · exact absurd h.symm hk
        · exact h
      have := ih hr
      simpa [hk] using this

/-- `d[k] = v` on an existing key: afterwards `d[k]` is `v` -/
theorem Dict.get?_set_of_mem {α} {d : Dict α} {k : String} {v : α} (h : k ∈ d.keys) :
    (d.set k v).get? k = some v := by
  unfold Dict.set
  rw [if_pos (Dict.mem_keys_iff_contains.mpr h)]
  exact Dict.get?_map_set d h

/-- overwriting one field with a numerically different value -/
theorem cellEq_edit_value_false {c : Cell} {k : String} {v v' : Val}
    (hk : c.values.get? k = some v) (hv : v.eqv v' = false) :
    cellEq c { c with values := c.values.set k v' } = false :=
  cellEq_false_of fun hc => by
    have h7 := (cellEq_iff'.mp hc).2.2.2.2.2.2
    rw [valuesEq_iff] at h7
    have hmem := Dict.mem_keys_of_get? hk
    obtain ⟨x, y, hx, hy, hxy⟩ := h7.2 k hmem
    simp only [Dict.get?_set_of_mem hmem, hk, Option.some.injEq] at hx hy
    subst hx; subst hy
    simp [hv] at hxy

/-- `{(k' if key == k else key): value}`: renaming field `k` to a fresh name `k'` -/
def Dict.rename {α} (d : Dict α) (k k' : String) : Dict α :=
  d.map fun p => if p.1 == k then (k', p.2) else p

theorem cellEq_rename_field_false {c : Cell} {k k' : String}
    (hk : k ∈ c.values.keys) (hk' : k' ∉ c.values.keys) :
    cellEq c { c with values := c.values.rename k k' } = false :=
  cellEq_false_of fun hc => by
    have h7 := (cellEq_iff'.mp hc).2.2.2.2.2.2
    rw [valuesEq_iff] at h7
    apply hk'
    apply h7.1.mem_iff.mpr
    simp only [Dict.keys, List.mem_map] at hk ⊢
    obtain ⟨p, hp, rfl⟩ := hk
    exact ⟨(k', p.2), List.mem_map.mpr ⟨p, hp, by simp⟩, rfl⟩

/-! ### hashability of equal cells (audit follow-up) -/

/-- a 0-d array: `np.array_equal(5, np.array(5))` is True, yet `hash` of the cell holding the 0-d
array raises (`tuple(v)` iterates a 0-d array) — the one value form on which `==`-equal cells are
not hashable together -/
def Val.zeroD : Val → Bool
  | .arr _ [] _ => true
  | _ => false

theorem Val.hkey_ok_of_eqv {x y : Val} {hx : HVal} (h : x.eqv y = true) (zx : x.zeroD = false)
    (zy : y.zeroD = false) (h₁ : x.hkey = .ok hx) : ∃ hy, y.hkey = .ok hy := by
  rw [Val.eqv_iff] at h
  obtain ⟨hs, _⟩ := h
  cases y with
  | none => exact ⟨_, rfl⟩
  | int i => exact ⟨_, rfl⟩
  | flt q => exact ⟨_, rfl⟩
  | arr b' s' d' =>
    cases x with
    | arr b s d =>
      simp only [Val.shape] at hs
      subst hs
      match s, h₁ with
      | [n], _ => exact ⟨_, rfl⟩
      | [], h₁ => simp [Val.hkey] at h₁
      | _ :: _ :: _, h₁ => simp [Val.hkey] at h₁
    | none => simp only [Val.shape] at hs; subst hs; simp [Val.zeroD] at zy
    | int i => simp only [Val.shape] at hs; subst hs; simp [Val.zeroD] at zy
    | flt q => simp only [Val.shape] at hs; subst hs; simp [Val.zeroD] at zy

theorem mapM_ok_of_forall' {α β : Type} {f : α → Except Err β} {l : List α}
    (h : ∀ k ∈ l, ∃ y, f k = .ok y) : ∃ ys, l.mapM f = .ok ys := by
  induction l with
  | nil => exact ⟨[], by simp [List.mapM_nil, pure, Except.pure]⟩
  | cons a rest ih =>
    obtain ⟨y, hy⟩ := h a (by simp)
    obtain ⟨ys, hys⟩ := ih (fun k hk => h k (by simp [hk]))
    exact ⟨y :: ys, by rw [List.mapM_cons]; simp [hy, hys, bind, Except.bind, pure, Except.pure]⟩

theorem mapM_ok_forall {α β : Type} {f : α → Except Err β} {l : List α} {ys : List β}
    (h : l.mapM f = .ok ys) : ∀ k ∈ l, ∃ y, f k = .ok y := by
  induction l generalizing ys with
  | nil => intro k hk; cases hk
  | cons a rest ih =>
    rw [List.mapM_cons] at h
    simp only [bind, Except.bind, pure, Except.pure] at h
    split at h
    · cases h
    · rename_i x hx
      split at h
      · cases h
      · rename_i xs hxs
        intro k hk
        rcases List.mem_cons.mp hk with rfl | hk
        · exact ⟨x, hx⟩
        · exact ih hxs k hk

/-- no value of the dict is a 0-d array -/
def Dict.noZeroD (d : Dict Val) : Prop := ∀ k x, d.get? k = some x → x.zeroD = false

theorem valsHashKey_ok_of_valuesEq {a b : Dict Val} {ka : List (String × HVal)}
    (h : valuesEq a b = true) (za : Dict.noZeroD a) (zb : Dict.noZeroD b)
    (h₁ : valsHashKey a = .ok ka) : ∃ kb, valsHashKey b = .ok kb := by
  have hk : sortStrings a.keys = sortStrings b.keys := by
    have h' := h
    simp only [valuesEq, keysEq, Bool.and_eq_true, beq_iff_eq] at h'
    exact h'.1
  rw [valuesEq_iff] at h
  unfold valsHashKey at h₁ ⊢
  rw [← hk]
  refine mapM_ok_of_forall' ?_
  intro k hkmem
  have hka : k ∈ a.keys := (sortStrings_perm a.keys).mem_iff.mp hkmem
  obtain ⟨u, v, hu, hv, huv⟩ := h.2 k hka
  obtain ⟨y, hy⟩ := mapM_ok_forall h₁ k hkmem
  simp only [hu] at hy
  cases hux : u.hkey with
  | error e => simp [hux, Except.map] at hy
  | ok p =>
    obtain ⟨q, hq⟩ := Val.hkey_ok_of_eqv huv (za k u hu) (zb k v hv) hux
    exact ⟨(k, q), by simp [hv, hq, Except.map]⟩

/-- **equal cells are hashable together** (0-d arrays aside) and then hash alike -/
theorem Cell.hashKey_ok_of_cellEq {a b : Cell} {ka : HKey} (ha : a.KindOk) (hb : b.KindOk)
    (h : cellEq a b = true) (za : Dict.noZeroD a.values) (zb : Dict.noZeroD b.values)
    (h₁ : a.hashKey = .ok ka) : b.hashKey = .ok ka := by
  obtain ⟨va, hva, _⟩ := Cell.hashKey_ok h₁
  obtain ⟨vb, hvb⟩ := valsHashKey_ok_of_valuesEq (cellEq_iff'.mp h).2.2.2.2.2.2 za zb hva
  have h₂ : ∃ kb, b.hashKey = .ok kb := by
    simp only [Cell.hashKey, bind, Except.bind, pure, Except.pure, hvb]
    exact ⟨_, rfl⟩
  obtain ⟨kb, h₂⟩ := h₂
  rw [h₂, Cell.hashKey_eq_of_cellEq ha hb h h₁ h₂]

end Bermuda
