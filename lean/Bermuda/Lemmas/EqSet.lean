/-
Helper lemmas for C02, part 3: the abc.Set mixins; the declarative Spec relation (Spec/C02.lean)
coincides with the model of the code on well-formed input.  Core Lean only.
-/
import Bermuda.Lemmas.EqHash
import Bermuda.Properties.C01
import Bermuda.Spec.C02
namespace Bermuda
open Std Bermuda.Properties.C01

/-! ### abc.Set mixins -/

theorem Triangle.mem_iff {c : Cell} {t : List Cell} :
    Triangle.mem c t = true ↔ ∃ x ∈ t, cellEq x c = true := by
  simp [Triangle.mem]

theorem Triangle.le_iff {a b : List Cell} :
    Triangle.le a b = true ↔ a.length ≤ b.length ∧ ∀ c ∈ a, ∃ x ∈ b, cellEq x c = true := by
  unfold Triangle.le
  by_cases h : a.length > b.length
  · simp [h]; omega
  · simp only [h, if_false, List.all_eq_true, Triangle.mem_iff]
    exact ⟨fun h' => ⟨by omega, h'⟩, fun h' => h'.2⟩

theorem Triangle.isdisjoint_iff {a b : List Cell} :
    Triangle.isdisjoint a b = true ↔ ∀ c ∈ b, ∀ x ∈ a, cellEq x c = false := by
  simp [Triangle.isdisjoint, Triangle.mem]

theorem kindsConsistent_sublist {s l : List Cell} (hs : s.Sublist l) (h : kindsConsistent l = true) :
    kindsConsistent s = true := by
  unfold kindsConsistent at *
  simp only [Bool.or_eq_true, List.all_eq_true] at *
  rcases h with (h | h) | h
  · exact Or.inl (Or.inl fun c hc => h c (hs.subset hc))
  · exact Or.inl (Or.inr fun c hc => h c (hs.subset hc))
  · exact Or.inr fun c hc => h c (hs.subset hc)

/-- `Triangle(filter)` of a triangle: succeeds, is a sorted permutation of the kept cells; when the
triangle was already sorted it is the kept cells in their order -/
theorem ofCells_filter {b : List Cell} (p : Cell → Bool) (hk : kindsConsistent b = true) :
    ∃ t, Triangle.ofCells (b.filter p) = .ok t ∧ t.Perm (b.filter p) ∧
      t.Pairwise (fun x y => Cell.le x y) ∧
      (b.Pairwise (fun x y => Cell.le x y) → t = b.filter p) := by
  obtain ⟨t, ht⟩ := (ofCells_ok_iff (b.filter p)).mpr (kindsConsistent_sublist List.filter_sublist hk)
  refine ⟨t, ht, ofCells_perm ht, ofCells_sorted ht, fun hs => ?_⟩
  have : Triangle.ofCells (b.filter p) = .ok (b.filter p) := by
    unfold Triangle.ofCells
    rw [kindsConsistent_sublist List.filter_sublist hk, if_pos rfl]
    congr 1
    exact List.mergeSort_of_pairwise (hs.sublist List.filter_sublist)
  rw [this] at ht
  cases ht; rfl

/-! ### the declarative Spec relation coincides with the model of the code on well-formed input -/

theorem Dict.get?_eq_some_of_mem {α} {d : Dict α} {k : String} {v : α} (hnd : d.keys.Nodup)
    (h : (k, v) ∈ d) : d.get? k = some v := by
  induction d with
  | nil => simp at h
  | cons p rest ih =>
    rw [Dict.keys_cons, List.nodup_cons] at hnd
    rw [Dict.get?_cons]
    rcases List.mem_cons.mp h with h | h
    · subst h; simp
    · have hk : p.1 ≠ k := by
        intro hpk
        apply hnd.1
        rw [hpk]
        exact List.mem_map.mpr ⟨(k, v), h, rfl⟩
      simp [hk, ih hnd.2 h]

theorem Dict.mem_of_get? {α} {d : Dict α} {k : String} {v : α} (h : d.get? k = some v) : (k, v) ∈ d := by
  simp only [Dict.get?, Option.map_eq_some_iff] at h
  obtain ⟨p, hp, rfl⟩ := h
  have h1 := List.mem_of_find?_eq_some hp
  have h2 := List.find?_some hp
  simp only [beq_iff_eq] at h2
  rw [← h2]; exact h1

theorem Spec.valuesSame_eq_valuesEq {a b : Dict Val} (ha : a.keys.Nodup) (hb : b.keys.Nodup) :
    Spec.valuesSame a b = valuesEq a b := by
  rw [Bool.eq_iff_iff, valuesEq_iff]
  simp only [Spec.valuesSame, Bool.and_eq_true, List.all_eq_true, List.contains_iff_mem]
  constructor
  · rintro ⟨⟨h1, h2⟩, h3⟩
    refine ⟨(List.perm_ext_iff_of_nodup ha hb).mpr fun k => ⟨h1 k, h2 k⟩, fun k hk => ?_⟩
    obtain ⟨x, hx⟩ := Dict.get?_of_mem_keys hk
    have := h3 (k, x) (Dict.mem_of_get? hx)
    simp only at this
    split at this
    · rename_i y hy; exact ⟨x, y, hx, hy, this⟩
    · cases this
  · rintro ⟨hp, h⟩
    refine ⟨⟨fun k hk => hp.mem_iff.mp hk, fun k hk => hp.mem_iff.mpr hk⟩, fun kv hkv => ?_⟩
    have hk : kv.1 ∈ a.keys := List.mem_map.mpr ⟨kv, hkv, rfl⟩
    obtain ⟨x, y, hx, hy, hxy⟩ := h kv.1 hk
    have : x = kv.2 := by
      have := Dict.get?_eq_some_of_mem ha (k := kv.1) (v := kv.2) hkv
      rw [hx] at this; exact Option.some.inj this
    subst this
    simp only [hy]; exact hxy

/-- the Prop behind `Spec.wfCell` -/
structure Cell.WF (c : Cell) : Prop where
  dates : c.datesOk = true
  keys : c.values.keys.Nodup
  canon : c.md.Canon

theorem Spec.wfCell_iff {c : Cell} : Spec.wfCell c = true ↔ c.WF := by
  simp only [Spec.wfCell, Bool.and_eq_true, decide_eq_true_eq]
  constructor
  · rintro ⟨⟨⟨h1, h2⟩, h3⟩, h4⟩; exact ⟨h1, h2, ⟨h3, h4⟩⟩
  · rintro ⟨h1, h2, ⟨h3, h4⟩⟩; exact ⟨⟨⟨h1, h2⟩, h3⟩, h4⟩

theorem Cell.WF.kindOk {c : Cell} (h : c.WF) : c.KindOk := Cell.kindOk_of_datesOk h.dates

theorem Spec.cellSame_eq_cellEq {a b : Cell} (ha : a.WF) (hb : b.WF) :
    Spec.cellSame a b = cellEq a b := by
  rw [Bool.eq_iff_iff, cellEq_iff']
  simp only [Spec.cellSame, Bool.and_eq_true, beq_iff_eq, Spec.valuesSame_eq_valuesEq ha.keys hb.keys,
    Metadata.eqv_iff_eq ha.canon hb.canon, Spec.sameBasis]
  have ka := ha.kindOk
  have kb := hb.kindOk
  unfold Cell.KindOk at ka kb
  constructor
  · rintro ⟨⟨⟨⟨⟨⟨h1, h2⟩, h3⟩, h4⟩, h5⟩, h6⟩, h7⟩
    refine ⟨classCompat_of_sameBasis ?_, h2, h3, h4, fun _ => h5, h6, h7⟩
    rw [ka, kb, h5]
  · rintro ⟨h1, h2, h3, h4, h5, h6, h7⟩
    have hp : a.prev = b.prev := by
      by_cases hi : a.kind = .incremental ∨ b.kind = .incremental
      · exact h5 hi
      · have h1' : a.prev.isSome = false := by
          cases hh : a.prev.isSome
          · rfl
          · exact absurd (Or.inl (ka.mpr hh)) hi
        have h2' : b.prev.isSome = false := by
          cases hh : b.prev.isSome
          · rfl
          · exact absurd (Or.inr (kb.mpr hh)) hi
        cases hap : a.prev <;> cases hbp : b.prev <;> simp_all
    refine ⟨⟨⟨⟨⟨⟨?_, h2⟩, h3⟩, h4⟩, hp⟩, h6⟩, h7⟩
    have : (a.kind = .incremental) ↔ (b.kind = .incremental) := by rw [ka, kb, hp]
    rw [Bool.eq_iff_iff]; simp only [beq_iff_eq]; exact this

theorem Spec.isIn_eq_mem {c : Cell} {t : List Cell} (hc : c.WF) (ht : ∀ x ∈ t, x.WF) :
    Spec.isIn c t = Triangle.mem c t := by
  unfold Spec.isIn Triangle.mem
  induction t with
  | nil => rfl
  | cons x xs ih =>
    simp only [List.any_cons]
    rw [Spec.cellSame_eq_cellEq (ht x (by simp)) hc, ih (fun y hy => ht y (by simp [hy]))]

theorem Spec.triSame_eq_triEq {a b : List Cell} (ha : ∀ x ∈ a, x.WF) (hb : ∀ x ∈ b, x.WF) :
    Spec.triSame a b = triEq a b := by
  rw [Bool.eq_iff_iff, triEq_iff_getElem]
  simp only [Spec.triSame, Bool.and_eq_true, beq_iff_eq, List.all_eq_true, List.mem_range]
  constructor
  · rintro ⟨hl, h⟩
    refine ⟨hl, fun i h₁ h₂ => ?_⟩
    have := h i h₁
    rw [List.getElem?_eq_getElem h₁, List.getElem?_eq_getElem h₂] at this
    rw [← Spec.cellSame_eq_cellEq (ha _ (List.getElem_mem h₁)) (hb _ (List.getElem_mem h₂))]
    exact this
  · rintro ⟨hl, h⟩
    refine ⟨hl, fun i hi => ?_⟩
    have h₂ : i < b.length := hl ▸ hi
    rw [List.getElem?_eq_getElem hi, List.getElem?_eq_getElem h₂]
    simp only
    rw [Spec.cellSame_eq_cellEq (ha _ (List.getElem_mem hi)) (hb _ (List.getElem_mem h₂))]
    exact h i hi h₂

theorem filter_isIn_eq {a b : List Cell} (ha : ∀ x ∈ a, x.WF) (hb : ∀ x ∈ b, x.WF) :
    b.filter (fun c => Spec.isIn c a) = b.filter (fun c => Triangle.mem c a) :=
  List.filter_congr fun c hc => Spec.isIn_eq_mem (hb c hc) ha

end Bermuda
