/-
Helper lemmas for C15 (`Model/Extend.lean`): `mapM` in `Except`, the cells one slice contributes to
the right triangle / right diagonal, and what `Triangle.rightEdge` returns.
-/
import Bermuda.Model.Extend
import Bermuda.Lemmas.Sort
import Bermuda.Lemmas.Ops
import Bermuda.Lemmas.BasisRows
import Bermuda.Properties.C01
import Bermuda.Lemmas.DateUtils
namespace Bermuda.Extend
open Bermuda Std

/-! ### `mapM` in `Except` -/

theorem mapM_ok_cons {α β : Type} {f : α → Except Err β} {a : α} {rest : List α} {out : List β}
    (h : (a :: rest).mapM f = .ok out) :
    ∃ b bs, f a = .ok b ∧ rest.mapM f = .ok bs ∧ out = b :: bs := by
  rw [List.mapM_cons] at h
  simp only [bind, Except.bind] at h
  split at h
  · cases h
  · rename_i v hv
    split at h
    · cases h
    · rename_i vs hvs
      simp only [pure, Except.pure] at h
      cases h
      exact ⟨v, vs, hv, hvs, rfl⟩

theorem mapM_ok_mem {α β : Type} {f : α → Except Err β} {l : List α} {out : List β}
    (h : l.mapM f = .ok out) : ∀ y ∈ out, ∃ x ∈ l, f x = .ok y := by
  induction l generalizing out with
  | nil => simp [List.mapM_nil, pure, Except.pure] at h; subst h; simp
  | cons a rest ih =>
    obtain ⟨b, bs, hb, hbs, rfl⟩ := mapM_ok_cons h
    intro y hy
    rcases List.mem_cons.mp hy with rfl | hy
    · exact ⟨a, by simp, hb⟩
    · obtain ⟨x, hx, hfx⟩ := ih hbs y hy
      exact ⟨x, by simp [hx], hfx⟩

theorem mapM_ok_mem' {α β : Type} {f : α → Except Err β} {l : List α} {out : List β}
    (h : l.mapM f = .ok out) : ∀ x ∈ l, ∃ y ∈ out, f x = .ok y := by
  induction l generalizing out with
  | nil => simp
  | cons a rest ih =>
    obtain ⟨b, bs, hb, hbs, rfl⟩ := mapM_ok_cons h
    intro x hx
    rcases List.mem_cons.mp hx with rfl | hx
    · exact ⟨b, by simp, hb⟩
    · obtain ⟨y, hy, hfy⟩ := ih hbs x hx
      exact ⟨y, by simp [hy], hfy⟩

/-- membership in the flattened result of a `mapM` -/
theorem mapM_flatten_mem {α β : Type} {f : α → Except Err (List β)} {l : List α} {out : List (List β)}
    (h : l.mapM f = .ok out) (y : β) :
    y ∈ out.flatten ↔ ∃ x ∈ l, ∃ ys, f x = .ok ys ∧ y ∈ ys := by
  constructor
  · intro hy
    obtain ⟨ys, hys, hy⟩ := List.mem_flatten.mp hy
    obtain ⟨x, hx, hfx⟩ := mapM_ok_mem h ys hys
    exact ⟨x, hx, ys, hfx, hy⟩
  · rintro ⟨x, hx, ys, hfx, hy⟩
    obtain ⟨ys', hys', hfx'⟩ := mapM_ok_mem' h x hx
    rw [hfx] at hfx'; cases hfx'
    exact List.mem_flatten.mpr ⟨ys, hys', hy⟩

theorem mk?_ok {c d : Cell} (h : c.mk? = .ok d) : d = c ∧ c.datesOk = true := by
  unfold Cell.mk? at h
  split at h
  · cases h; exact ⟨rfl, by assumption⟩
  · cases h

/-! ### the right edge: latest observation of every slice row -/

theorem getLast?_max {α} {R : α → α → Prop} : ∀ {l : List α} {a : α}, l.Pairwise R →
    l.getLast? = some a → ∀ x ∈ l, R x a ∨ x = a
  | [], _, _, h, _, _ => by simp at h
  | [b], a, _, h, x, hx => by
    simp at h hx; subst h; subst hx; exact Or.inr rfl
  | b :: c :: rest, a, hp, h, x, hx => by
    have h' : (c :: rest).getLast? = some a := by simpa [List.getLast?_cons_cons] using h
    rcases List.mem_cons.mp hx with rfl | hx
    · have hmem : a ∈ c :: rest := List.mem_of_getLast? h'
      exact Or.inl ((List.pairwise_cons.mp hp).1 a hmem)
    · exact getLast?_max (List.pairwise_cons.mp hp).2 h' x hx

def evCmp : Cell → Cell → Ordering := cmpOn (·.ev) Date.cmp

instance : TransCmp evCmp := by unfold evCmp; infer_instance

/-- every cell of `Triangle.rightEdge t` is a cell of `t`, and no cell of `t` on the same slice row
(metadata, period) has a later evaluation date -/
theorem rightEdge_latest {t edge : List Cell} (h : Triangle.rightEdge t = .ok edge) {e : Cell}
    (he : e ∈ edge) :
    e ∈ t ∧ ∀ o ∈ t, o.md = e.md → o.ps = e.ps → o.pe = e.pe → Date.cmp o.ev e.ev ≠ .gt := by
  unfold Triangle.rightEdge at h
  have hperm := Properties.C01.ofCells_perm h
  have he' := hperm.mem_iff.mp he
  obtain ⟨p, hp, hc⟩ := List.mem_flatMap.mp he'
  obtain ⟨q, hq, hlast⟩ := List.mem_filterMap.mp hc
  have het : e ∈ t := mem_of_mem_slices hp (mem_of_mem_groupBy hq (mem_of_lastBy? hlast))
  refine ⟨het, ?_⟩
  intro o ho hmd hps hpe
  -- the slice and the group of `e`
  have hinv := groupBy_inv (fun c : Cell => (c.ps, c.pe)) p.2
  have hcontent := hinv.content q hq
  have heq : e ∈ q.2 := mem_of_lastBy? hlast
  have heq' := heq
  rw [hcontent, List.mem_filter] at heq'
  have hkey : (e.ps, e.pe) = q.1 := by simpa using heq'.2
  -- `p` is the slice of `e.md`
  unfold Triangle.slices at hp
  obtain ⟨m, _, rfl⟩ := List.mem_map.mp hp
  have hem : e.md = m := by
    have := (List.mem_filter.mp ((List.mergeSort_perm _ _).mem_iff.mp heq'.1)).2
    simpa using this
  have hop : o ∈ (t.filter (·.md == m)).mergeSort Cell.le := by
    apply (List.mergeSort_perm _ _).mem_iff.mpr
    exact List.mem_filter.mpr ⟨ho, by simp [hmd, hem]⟩
  have hoq : o ∈ q.2 := by
    rw [hcontent, List.mem_filter]
    exact ⟨hop, by simp [← hkey, hps, hpe]⟩
  -- `e` is the last of the row sorted by evaluation date
  unfold lastBy? at hlast
  have hsorted : (q.2.mergeSort (leOf evCmp)).Pairwise (fun a b => leOf evCmp a b) :=
    sorted_mergeSort (cmp := evCmp) q.2
  have hos : o ∈ q.2.mergeSort (leOf evCmp) := (List.mergeSort_perm _ _).mem_iff.mpr hoq
  have hlast' : (q.2.mergeSort (leOf evCmp)).getLast? = some e := hlast
  rcases getLast?_max hsorted hlast' o hos with hle | rfl
  · simpa [leOf, evCmp, cmpOn] using hle
  · rw [ReflCmp.compare_self (cmp := Date.cmp)]; simp

/-! ### the cells one slice contributes -/

theorem mem_rightPairs {lags : List Rat} {u : LagUnit} {edge : List Cell} {p : Rat × Cell} :
    p ∈ rightPairs lags u edge ↔ p.1 ∈ lags ∧ p.2 ∈ edge ∧ p.1 > p.2.devLag u := by
  obtain ⟨l, c⟩ := p
  simp only [rightPairs, List.mem_flatMap, List.mem_map, List.mem_filter, decide_eq_true_eq,
    Prod.mk.injEq]
  constructor
  · rintro ⟨lag, hlag, c', ⟨hc', hgt⟩, rfl, rfl⟩
    exact ⟨hlag, hc', hgt⟩
  · rintro ⟨h1, h2, h3⟩
    exact ⟨l, h1, c, ⟨h2, h3⟩, rfl, rfl⟩

theorem rightCellOf_ok {u : LagUnit} {p : Rat × Cell} {c : Cell} :
    rightCellOf u p = .ok c ↔
      ∃ ev, addDevLag p.2.pe p.1 u = .ok ev ∧ c = emptyCell p.2 ev ∧ (emptyCell p.2 ev).datesOk = true := by
  unfold rightCellOf
  simp only [bind, Except.bind]
  constructor
  · intro h
    split at h
    · cases h
    · rename_i ev hev
      obtain ⟨rfl, hd⟩ := mk?_ok h
      exact ⟨ev, hev, rfl, hd⟩
  · rintro ⟨ev, hev, rfl, hd⟩
    rw [hev]
    simp [Cell.mk?, hd]

/-- `c` is one of the cells `_make_right_triangle_slice` creates on `slice`: an empty cumulative cell
on the row of a right-edge cell `e`, at `period_end + lag` for a lag of the slice's lag list that
exceeds the lag of `e` -/
def SliceRightCell (lags : Option (List Rat)) (u : LagUnit) (slice : List Cell) (c : Cell) : Prop :=
  ∃ edge, Triangle.rightEdge slice = .ok edge ∧ ∃ e ∈ edge, ∃ lag ∈ lagListOf lags u slice,
    lag > e.devLag u ∧ ∃ ev, addDevLag e.pe lag u = .ok ev ∧ c = emptyCell e ev

theorem rightTriangleSlice_mem {lags : Option (List Rat)} {u : LagUnit} {slice cells : List Cell}
    (h : rightTriangleSlice lags u slice = .ok cells) (c : Cell) :
    c ∈ cells ↔ SliceRightCell lags u slice c := by
  unfold rightTriangleSlice at h
  simp only [bind, Except.bind] at h
  split at h
  · cases h
  · rename_i edge hedge
    split at h
    · simp [throw, throwThe, MonadExceptOf.throw] at h
    · constructor
      · intro hc
        obtain ⟨p, hp, hpc⟩ := mapM_ok_mem h c hc
        obtain ⟨ev, hev, rfl, _⟩ := rightCellOf_ok.mp hpc
        obtain ⟨h1, h2, h3⟩ := mem_rightPairs.mp hp
        exact ⟨edge, hedge, p.2, h2, p.1, h1, h3, ev, hev, rfl⟩
      · rintro ⟨edge', hedge', e, he, lag, hlag, hgt, ev, hev, rfl⟩
        rw [hedge] at hedge'; cases hedge'
        have hp : (lag, e) ∈ rightPairs (lagListOf lags u slice) u edge :=
          mem_rightPairs.mpr ⟨hlag, he, hgt⟩
        obtain ⟨y, hy, hfy⟩ := mapM_ok_mem' h (lag, e) hp
        obtain ⟨ev', hev', rfl, _⟩ := rightCellOf_ok.mp hfy
        rw [hev] at hev'; cases hev'
        exact hy

theorem mem_diagPairs {dates : List Date} {edge : List Cell} {p : Cell × Date} :
    p ∈ diagPairs dates edge ↔ p.1 ∈ edge ∧ p.2 ∈ dates ∧ p.1.ps ≤ p.2 := by
  obtain ⟨c, d⟩ := p
  simp only [diagPairs, List.mem_flatMap, List.mem_map, List.mem_filter, decide_eq_true_eq,
    Prod.mk.injEq]
  constructor
  · rintro ⟨c', hc', d', ⟨hd', hle⟩, rfl, rfl⟩
    exact ⟨hc', hd', hle⟩
  · rintro ⟨h1, h2, h3⟩
    exact ⟨c, h1, d, ⟨h2, h3⟩, rfl, rfl⟩

/-- the dates `_make_right_diagonal_slice` keeps for a slice -/
def diagDatesOf (dates : List Date) (hist : Bool) (slice : List Cell) : List Date :=
  if hist then dates else
    match maxEval slice with
    | some m => dates.filter fun d => m < d
    | none => dates

/-- `c` is one of the cells `_make_right_diagonal_slice` creates on `slice` -/
def SliceDiagCell (dates : List Date) (hist : Bool) (slice : List Cell) (c : Cell) : Prop :=
  ∃ edge, Triangle.rightEdge slice = .ok edge ∧ ∃ e ∈ edge, ∃ d ∈ diagDatesOf dates hist slice,
    e.ps ≤ d ∧ c = emptyCell e d

theorem rightDiagonalSlice_mem {dates : List Date} {hist : Bool} {slice cells : List Cell}
    (h : rightDiagonalSlice dates hist slice = .ok cells) (c : Cell) :
    c ∈ cells ↔ SliceDiagCell dates hist slice c := by
  unfold rightDiagonalSlice at h
  simp only [bind, Except.bind] at h
  split at h
  · cases h
  · rename_i edge hedge
    constructor
    · intro hc
      obtain ⟨p, hp, hpc⟩ := mapM_ok_mem h c hc
      obtain ⟨rfl, _⟩ := mk?_ok hpc
      obtain ⟨h1, h2, h3⟩ := mem_diagPairs.mp hp
      exact ⟨edge, hedge, p.1, h1, p.2, h2, h3, rfl⟩
    · rintro ⟨edge', hedge', e, he, d, hd, hle, rfl⟩
      rw [hedge] at hedge'; cases hedge'
      have hp : (e, d) ∈ diagPairs (diagDatesOf dates hist slice) edge := mem_diagPairs.mpr ⟨he, hd, hle⟩
      obtain ⟨y, hy, hfy⟩ := mapM_ok_mem' h (e, d) hp
      obtain ⟨rfl, _⟩ := mk?_ok hfy
      exact hy

/-! ### the common tail on a cumulative input: a sorted permutation of the new cells -/

theorem finishRight_cum {t new out : List Cell} (hinc : Triangle.isIncremental t = false)
    (h : finishRight t new = .ok out) : out.Perm new := by
  unfold finishRight at h
  simp only [bind, Except.bind, hinc, pure, Except.pure] at h
  split at h
  · cases h
  · rename_i right hr
    simp at h
    subst h
    exact Properties.C01.ofCells_perm hr

/-! ### whole-triangle characterisations, dates, backfill helpers -/

theorem slices_spec {t : List Cell} {p : Metadata × List Cell} (hp : p ∈ Triangle.slices t) (c : Cell) :
    c ∈ p.2 ↔ c ∈ t ∧ c.md = p.1 := by
  unfold Triangle.slices at hp
  obtain ⟨m, _, rfl⟩ := List.mem_map.mp hp
  simp only
  rw [(List.mergeSort_perm _ _).mem_iff, List.mem_filter]
  simp

/-- the cells `make_right_triangle` asks for on a cumulative triangle -/
def RightTriCell (t : List Cell) (lags : Option (List Rat)) (u : LagUnit) (c : Cell) : Prop :=
  ∃ p ∈ Triangle.slices t, SliceRightCell lags u p.2 c

theorem rightTriangleCells_mem {t new : List Cell} {lags : Option (List Rat)} {u : LagUnit}
    (h : rightTriangleCells t lags (some u) = .ok new) (c : Cell) :
    c ∈ new ↔ RightTriCell t lags u c := by
  unfold rightTriangleCells at h
  simp only [bind, Except.bind, pure, Except.pure] at h
  split at h
  · cases h
  · rename_i parts hparts
    cases h
    rw [mapM_flatten_mem hparts]
    constructor
    · rintro ⟨p, hp, ys, hys, hc⟩
      exact ⟨p, hp, (rightTriangleSlice_mem hys c).mp hc⟩
    · rintro ⟨p, hp, hs⟩
      obtain ⟨ys, _, hys⟩ := mapM_ok_mem' hparts p hp
      exact ⟨p, hp, ys, hys, (rightTriangleSlice_mem hys c).mpr hs⟩

theorem makeRightTriangle_cum {t out : List Cell} {lags : Option (List Rat)} {u? : Option LagUnit}
    (hinc : Triangle.isIncremental t = false) (h : makeRightTriangleU t lags u? = .ok out) :
    ∃ new, rightTriangleCells t lags u? = .ok new ∧ out.Perm new := by
  unfold makeRightTriangleU at h
  simp only [hinc, Bool.false_eq_true, if_false, bind, Except.bind, pure, Except.pure] at h
  split at h
  · cases h
  · rename_i new hnew
    exact ⟨new, hnew, finishRight_cum hinc h⟩

/-- month-aligned cell from 1970 on: period end and evaluation date are valid month ends -/
def MonthAligned (c : Cell) : Prop :=
  c.pe.valid = true ∧ c.pe.isMonthEnd = true ∧ c.ev.valid = true ∧ c.ev.isMonthEnd = true ∧
  1970 ≤ c.pe.y ∧ 1970 ≤ c.ev.y

theorem devLagMonths_monthEnds {p e : Date} (hp : p.isMonthEnd = true) (he : e.isMonthEnd = true) :
    devLagMonths p e = ((monthToId e - monthToId p : Int) : Rat) := by
  have h1 : p.d = dim p.y p.m := by simpa [Date.isMonthEnd] using hp
  have h2 : e.d = dim e.y e.m := by simpa [Date.isMonthEnd] using he
  have hp0 : ((dim p.y p.m : Nat) : Rat) ≠ 0 := by
    have := dim_pos p.y p.m; exact_mod_cast (by omega : dim p.y p.m ≠ 0)
  have he0 : ((dim e.y e.m : Nat) : Rat) ≠ 0 := by
    have := dim_pos e.y e.m; exact_mod_cast (by omega : dim e.y e.m ≠ 0)
  unfold devLagMonths monthFraction monthToId
  rw [h1, h2, div_self hp0, div_self he0]
  push_cast
  ring

theorem monthEndOf_lt {M N : Int} (h : M < N) : monthEndOf M < monthEndOf N := by
  rw [Date.lt_iff]
  simp only [monthEndOf, yearOf, monthOf]
  have : M / 12 < N / 12 ∨ (M / 12 = N / 12 ∧ M % 12 < N % 12) := by omega
  rcases this with h1 | ⟨h1, h2⟩
  · left; omega
  · right
    refine ⟨by omega, Or.inl ?_⟩
    have := Int.emod_nonneg M (by omega : (12 : Int) ≠ 0)
    omega

/-- on month-end dates from 1970 on, `add_months(period_end, k)` for an integer lag `k` exceeding the
observed lag lies strictly after the observed evaluation date -/
theorem addMonths_after {c : Cell} (hc : MonthAligned c) {k : Int}
    (hk : ((k : Int) : Rat) > c.devLag .month) : c.ev < addMonths c.pe ((k : Int) : Rat) := by
  obtain ⟨hpv, hpe, hev, hee, hpy, hey⟩ := hc
  have hlag : c.devLag .month = ((monthToId c.ev - monthToId c.pe : Int) : Rat) := by
    show devLagMonths c.pe c.ev = _
    exact devLagMonths_monthEnds hpe hee
  rw [hlag] at hk
  have hk' : monthToId c.ev - monthToId c.pe < k := by exact_mod_cast hk
  have hev0 : 0 ≤ monthToId c.ev := by
    have := ((valid_iff c.ev).mp hev).1
    unfold monthToId; omega
  have hM : 0 ≤ monthToId c.pe + k := by omega
  obtain ⟨day, _, _, hday, hform⟩ := addMonths_int_form c.pe k hpv hM
  rw [hform, hday hpe]
  have h1 : c.ev = monthEndOf (monthToId c.ev) := (monthEndOf_monthToId hev hee).symm
  rw [h1]
  exact monthEndOf_lt (by omega)

theorem Date.not_gt_iff (a b : Date) : Date.cmp a b ≠ .gt ↔ ¬ (b < a) := by
  show _ ↔ ¬ (Date.cmp b a = .lt)
  rw [Std.OrientedCmp.eq_swap (cmp := Date.cmp) (a := b) (b := a)]
  cases Date.cmp a b <;> simp

theorem Date.lt_of_not_gt_of_lt {a b c : Date} (h1 : Date.cmp a b ≠ .gt) (h2 : b < c) : a < c := by
  rw [Date.not_gt_iff] at h1
  rw [Date.lt_iff] at h1 h2 ⊢
  omega

/-- what a cell asked for by `make_right_triangle` looks like, in terms of the whole triangle -/
theorem RightTriCell.row {t : List Cell} {lags : Option (List Rat)} {u : LagUnit} {c : Cell}
    (h : RightTriCell t lags u c) :
    ∃ e ∈ t, c = emptyCell e c.ev ∧
      (∀ o ∈ t, o.md = e.md → o.ps = e.ps → o.pe = e.pe → Date.cmp o.ev e.ev ≠ .gt) ∧
      ∃ p ∈ Triangle.slices t, p.1 = e.md ∧ ∃ lag ∈ lagListOf lags u p.2,
        lag > e.devLag u ∧ addDevLag e.pe lag u = .ok c.ev := by
  obtain ⟨p, hp, edge, hedge, e, he, lag, hlag, hgt, ev, hev, rfl⟩ := h
  obtain ⟨hep, hlatest⟩ := rightEdge_latest hedge he
  obtain ⟨het, hem⟩ := (slices_spec hp e).mp hep
  refine ⟨e, het, rfl, ?_, p, hp, hem.symm, lag, hlag, hgt, hev⟩
  intro o ho hmd hps hpe
  exact hlatest o ((slices_spec hp o).mpr ⟨ho, hmd.trans hem⟩) hmd hps hpe

/-- the cells `make_right_diagonal` asks for on a cumulative triangle -/
def RightDiagCell (t : List Cell) (dates : List Date) (hist : Bool) (c : Cell) : Prop :=
  ∃ p ∈ Triangle.slices t, SliceDiagCell dates hist p.2 c

theorem rightDiagonalCells_mem {t new : List Cell} {dates : List Date} {hist : Bool}
    (h : rightDiagonalCells t dates hist = .ok new) (c : Cell) :
    c ∈ new ↔ RightDiagCell t dates hist c := by
  unfold rightDiagonalCells at h
  simp only [bind, Except.bind, pure, Except.pure] at h
  split at h
  · cases h
  · rename_i parts hparts
    cases h
    rw [mapM_flatten_mem hparts]
    constructor
    · rintro ⟨p, hp, ys, hys, hc⟩
      exact ⟨p, hp, (rightDiagonalSlice_mem hys c).mp hc⟩
    · rintro ⟨p, hp, hs⟩
      obtain ⟨ys, _, hys⟩ := mapM_ok_mem' hparts p hp
      exact ⟨p, hp, ys, hys, (rightDiagonalSlice_mem hys c).mpr hs⟩

theorem makeRightDiagonal_cum {t out : List Cell} {dates : List Date} {hist : Bool}
    (hinc : Triangle.isIncremental t = false) (h : makeRightDiagonal t dates hist = .ok out) :
    ∃ new, rightDiagonalCells t dates hist = .ok new ∧ out.Perm new := by
  unfold makeRightDiagonal at h
  simp only [hinc, Bool.false_eq_true, if_false, bind, Except.bind, pure, Except.pure] at h
  split at h
  · cases h
  · rename_i new hnew
    exact ⟨new, hnew, finishRight_cum hinc h⟩

theorem maxEval_fold_ge (rest : List Cell) (m0 : Date) :
    Date.cmp m0 (rest.foldl (fun m x => if m < x.ev then x.ev else m) m0) ≠ .gt ∧
    ∀ o ∈ rest, Date.cmp o.ev (rest.foldl (fun m x => if m < x.ev then x.ev else m) m0) ≠ .gt := by
  induction rest generalizing m0 with
  | nil => simp [Std.ReflCmp.compare_self (cmp := Date.cmp)]
  | cons a rest ih =>
    simp only [List.foldl_cons]
    obtain ⟨h1, h2⟩ := ih (if m0 < a.ev then a.ev else m0)
    have hstep : Date.cmp m0 (if m0 < a.ev then a.ev else m0) ≠ .gt ∧
        Date.cmp a.ev (if m0 < a.ev then a.ev else m0) ≠ .gt := by
      split
      · rename_i hlt
        refine ⟨?_, by simp [Std.ReflCmp.compare_self (cmp := Date.cmp)]⟩
        have : Date.cmp m0 a.ev = .lt := hlt
        simp [this]
      · rename_i hnl
        refine ⟨by simp [Std.ReflCmp.compare_self (cmp := Date.cmp)], ?_⟩
        rw [Date.not_gt_iff]; exact hnl
    have trans : ∀ {x y z : Date}, Date.cmp x y ≠ .gt → Date.cmp y z ≠ .gt → Date.cmp x z ≠ .gt := by
      intro x y z hxy hyz
      rw [Date.not_gt_iff, Date.lt_iff] at *
      omega
    refine ⟨trans hstep.1 h1, ?_⟩
    intro o ho
    rcases List.mem_cons.mp ho with rfl | ho
    · exact trans hstep.2 h1
    · exact h2 o ho

theorem maxEval_ge {l : List Cell} {m : Date} (h : maxEval l = some m) :
    ∀ o ∈ l, Date.cmp o.ev m ≠ .gt := by
  cases l with
  | nil => simp [maxEval] at h
  | cons c rest =>
    simp only [maxEval, Option.some.injEq] at h
    subst h
    intro o ho
    rcases List.mem_cons.mp ho with rfl | ho
    · exact (maxEval_fold_ge rest _).1
    · exact (maxEval_fold_ge rest _).2 o ho

theorem mem_takeValid {l : List Cell} {a : Cell} (h : a ∈ takeValid l) : a ∈ l := by
  induction l with
  | nil => simp [takeValid] at h
  | cons c rest ih =>
    simp only [takeValid] at h
    split at h
    · rcases List.mem_cons.mp h with rfl | h
      · simp
      · exact List.mem_cons_of_mem _ (ih h)
    · simp at h

/-- a cell `backfill` adds on the row `first` heads: the `i`-th step back from the first lag -/
def backfillCell (first : Cell) (repl : Dict Val) (res : Int) (i : Nat) : Cell :=
  { first with ev := addMonths first.pe (first.devLag - (((i : Int) + 1 : Int) : Rat) * (res : Rat)),
               values := repl }

theorem backfillRow_mem {statics : List String} {res? : Option Int} {minLag minAllowed : Int}
    {row ys : List Cell} (h : backfillRow statics res? minLag minAllowed row = .ok ys) {a : Cell}
    (ha : a ∈ ys) :
    ∃ first, row.head? = some first ∧ ∃ repl, replacementValues first statics = .ok repl ∧
      ∃ res, res? = some res ∧ 0 < res ∧
      ∃ i, i < backfillSteps first.devLag res (max minLag minAllowed) ∧ a = backfillCell first repl res i := by
  unfold backfillRow at h
  split at h
  · cases h; simp at ha
  · rename_i first hfirst
    simp only [bind, Except.bind] at h
    split at h
    · cases h
    · rename_i repl hrepl
      cases res? with
      | none => simp [throw, throwThe, MonadExceptOf.throw] at h
      | some res =>
        simp only [pure, Except.pure] at h
        split at h
        · split at h
          · simp [throw, throwThe, MonadExceptOf.throw] at h
          · cases h; simp at ha
        · rename_i hpos
          cases h
          have := mem_takeValid ha
          obtain ⟨i, hi, rfl⟩ := List.mem_map.mp this
          exact ⟨first, hfirst, repl, hrepl, res, rfl, by omega, i, List.mem_range.mp hi, rfl⟩

/-- invariant of the loop `for field in static_fields: replacement_values[field] = first[field]` -/
def ReplInv (first : Cell) (done : List String) (d : Dict Val) : Prop :=
  d.keys = first.values.keys ∧
  ∀ kv ∈ d, (kv.1 ∈ done ∧ first.values.get? kv.1 = some kv.2) ∨ (kv.1 ∉ done ∧ kv.2 = Val.int 0)

theorem get?_some_contains {d : Dict Val} {k : String} {v : Val} (h : d.get? k = some v) :
    k ∈ d.keys := by
  unfold Dict.get? at h
  cases hf : d.find? (·.1 == k) with
  | none => simp [hf] at h
  | some p =>
    have hp := List.mem_of_find?_eq_some hf
    have hk : p.1 = k := by simpa using List.find?_some hf
    exact List.mem_map.mpr ⟨p, hp, hk⟩

theorem replStep {first : Cell} {done : List String} {d : Dict Val} (hinv : ReplInv first done d)
    {f : String} {v : Val} (hv : first.values.get? f = some v) : ReplInv first (done ++ [f]) (d.set f v) := by
  obtain ⟨hkeys, hent⟩ := hinv
  have hmem : f ∈ d.keys := hkeys ▸ get?_some_contains hv
  have hcont : d.contains f = true := by
    obtain ⟨p, hp, hpf⟩ := List.mem_map.mp hmem
    simp only [Dict.contains, List.any_eq_true]
    exact ⟨p, hp, by simp [hpf]⟩
  unfold Dict.set
  rw [if_pos hcont]
  constructor
  · rw [← hkeys]
    unfold Dict.keys
    rw [List.map_map]
    apply List.map_congr_left
    intro p _
    simp only [Function.comp]
    split
    · rename_i h
      have h' : p.1 = f := by simpa using h
      exact h'.symm
    · rfl
  · intro kv hkv
    obtain ⟨p, hp, rfl⟩ := List.mem_map.mp hkv
    split
    · left; exact ⟨by simp, hv⟩
    · rename_i hne
      have hne' : p.1 ≠ f := by simpa using hne
      rcases hent p hp with ⟨h1, h2⟩ | ⟨h1, h2⟩
      · left; exact ⟨by simp [h1], h2⟩
      · right; exact ⟨by simp [h1, hne'], h2⟩

theorem replFold {first : Cell} : ∀ (statics done : List String) (d repl : Dict Val),
    ReplInv first done d →
    statics.foldlM (fun d f => match first.values.get? f with
      | some v => (pure (d.set f v) : Except Err (Dict Val))
      | none => throw Err.keyError) d = .ok repl →
    ReplInv first (done ++ statics) repl
  | [], done, d, repl, hinv, h => by
    simp only [List.foldlM_nil, pure, Except.pure] at h
    cases h; simpa using hinv
  | f :: rest, done, d, repl, hinv, h => by
    rw [List.foldlM_cons] at h
    cases hv : first.values.get? f with
    | none => simp [hv, bind, Except.bind, throw, throwThe, MonadExceptOf.throw] at h
    | some v =>
      simp only [hv, bind, Except.bind, pure, Except.pure] at h
      have := replFold rest (done ++ [f]) (d.set f v) repl (replStep hinv hv) h
      simpa [List.append_assoc] using this

end Bermuda.Extend
