/-
Lemmas for `backfill` (C15): the `try/except: break` loop and dates before the first observation.
-/
import Bermuda.Lemmas.Extend
namespace Bermuda.Extend
open Bermuda

theorem takeValid_mem : ∀ (l : List Cell) (i : Nat) (hi : i < l.length),
    (∀ j (hj : j ≤ i), (l[j]'(by omega)).datesOk = true) → l[i] ∈ takeValid l
  | [], i, hi, _ => by simp at hi
  | c :: rest, 0, _, h => by
    have h0 := h 0 (by omega)
    simp only [List.getElem_cons_zero] at h0
    simp [takeValid, h0]
  | c :: rest, i + 1, hi, h => by
    have h0 := h 0 (by omega)
    simp only [List.getElem_cons_zero] at h0
    simp only [takeValid, h0, if_true, List.getElem_cons_succ]
    apply List.mem_cons_of_mem
    apply takeValid_mem rest i (by simpa using hi)
    intro j hj
    have := h (j + 1) (by omega)
    simpa using this

theorem backfillRow_ok_pos {statics : List String} {res minLag minAllowed : Int} {row ys : List Cell}
    {first : Cell} (hf : row.head? = some first) (hres : 0 < res)
    (h : backfillRow statics (some res) minLag minAllowed row = .ok ys) :
    ∃ repl, replacementValues first statics = .ok repl ∧
      ys = takeValid ((List.range (backfillSteps first.devLag res (max minLag minAllowed))).map
        (backfillCell first repl res)) := by
  unfold backfillRow at h
  rw [hf] at h
  simp only [bind, Except.bind] at h
  split at h
  · cases h
  · rename_i repl hrepl
    simp only [pure, Except.pure] at h
    have hnot : ¬ res ≤ 0 := by omega
    rw [if_neg hnot] at h
    cases h
    exact ⟨repl, hrepl, rfl⟩

theorem addMonths_before {c : Cell} (hc : MonthAligned c) {k : Int}
    (hk : ((k : Int) : Rat) < c.devLag .month) (h70 : 0 ≤ monthToId c.pe + k) :
    addMonths c.pe ((k : Int) : Rat) < c.ev := by
  obtain ⟨hpv, hpe, hev, hee, hpy, hey⟩ := hc
  have hlag : c.devLag .month = ((monthToId c.ev - monthToId c.pe : Int) : Rat) := by
    show devLagMonths c.pe c.ev = _
    exact devLagMonths_monthEnds hpe hee
  rw [hlag] at hk
  have hk' : k < monthToId c.ev - monthToId c.pe := by exact_mod_cast hk
  obtain ⟨day, _, _, hday, hform⟩ := addMonths_int_form c.pe k hpv h70
  rw [hform, hday hpe]
  have h1 : c.ev = monthEndOf (monthToId c.ev) := (monthEndOf_monthToId hev hee).symm
  rw [h1]
  exact monthEndOf_lt (by omega)

end Bermuda.Extend
