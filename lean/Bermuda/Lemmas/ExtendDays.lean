/-
C15, day unit: a later ordinal is a later date (uses c09c08's `Lemmas/AggregateDates.lean`).
-/
import Bermuda.Lemmas.Extend
import Bermuda.Lemmas.AggregateDates
namespace Bermuda.Extend
open Bermuda

theorem Date.lt_of_ordinal_lt {a b : Date} (ha : a.valid = true) (hb : b.valid = true)
    (h : a.ordinal < b.ordinal) : a < b := by
  have h1 : ¬ b < a := not_lt_of_ordinal_le_agg ha hb (by omega)
  have h2 : a ≠ b := fun e => by rw [e] at h; omega
  rw [Date.lt_iff] at h1 ⊢
  have : a.y ≠ b.y ∨ a.m ≠ b.m ∨ a.d ≠ b.d := by
    by_contra hcon
    apply h2
    obtain ⟨y, m, d⟩ := a
    obtain ⟨y', m', d'⟩ := b
    simp only [not_or, not_not] at hcon
    obtain ⟨rfl, rfl, rfl⟩ := hcon
    rfl
  omega

end Bermuda.Extend
