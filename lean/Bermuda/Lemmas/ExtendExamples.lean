/-
C15: concrete example triangles for the non-vacuity / success instances of `Properties/C15.lean`, and the staged
evaluation of the model on them (`List.mergeSort` does not reduce in the kernel: every sort is applied to an already
sorted list via `List.mergeSort_of_pairwise`, the rest is `decide +kernel`).
-/
import Bermuda.Lemmas.ExtendTotal
namespace Bermuda.Extend
open Bermuda

def exB1 : Cell :=
  { kind := .cumulative, ps := ⟨2020, 1, 1⟩, pe := ⟨2020, 1, 31⟩, ev := ⟨2020, 3, 31⟩,
    values := [("paid_loss", .int 5), ("earned_premium", .int 100)] }
def exB2 : Cell :=
  { kind := .cumulative, ps := ⟨2020, 1, 1⟩, pe := ⟨2020, 1, 31⟩, ev := ⟨2020, 4, 30⟩,
    values := [("paid_loss", .int 7), ("earned_premium", .int 100)] }
/-- one row observed at the lags 2 and 3 -/
def exBack : List Cell := [exB1, exB2]


theorem exBack_periods : periods exBack = [(⟨2020, 1, 1⟩, ⟨2020, 1, 31⟩)] := by
  unfold periods
  rw [List.mergeSort_of_pairwise (by decide +kernel)]
  decide +kernel

theorem exBack_pres : periodResolution exBack = some 1 := by
  unfold periodResolution
  rw [exBack_periods]
  simp only
  rw [List.mergeSort_of_pairwise (by decide +kernel)]
  decide +kernel


def exF1 : Cell :=
  { kind := .cumulative, ps := ⟨2020, 1, 1⟩, pe := ⟨2020, 1, 31⟩, ev := ⟨2020, 1, 31⟩, values := [("paid_loss", .int 5)] }
def exF2 : Cell :=
  { kind := .cumulative, ps := ⟨2020, 1, 1⟩, pe := ⟨2020, 1, 31⟩, ev := ⟨2020, 3, 31⟩, values := [("paid_loss", .int 7)] }
def exFill : List Cell := [exF1, exF2]


theorem exFill_rows : slicePeriodRows exFill = [(sliceKey exF1, exFill)] := by
  unfold slicePeriodRows
  rw [List.mergeSort_of_pairwise (by decide +kernel)]
  rw [show (exFill.map sliceKey).eraseDups = [sliceKey exF1] by decide +kernel]
  simp only [List.map]
  rw [show exFill.filter (fun c => sliceKey c == sliceKey exF1) = exFill by decide +kernel]
  rw [List.mergeSort_of_pairwise (by decide +kernel)]

theorem exFill_row : fillRow 1 false exFill
    = .ok [exF1, exF2, { exF1 with ev := ⟨2020, 2, 29⟩ }] := by
  unfold fillRow newLags
  simp only [show exFill.head? = some exF1 from rfl, show exFill.getLast? = some exF2 from rfl]
  rw [List.mergeSort_of_pairwise (by decide +kernel)]
  decide +kernel


end Bermuda.Extend
