/-
Lemmas for `fill_forward_gaps` (C15): the lag dictionary, one fill step, one row, the whole triangle.
-/
import Bermuda.Lemmas.Extend
namespace Bermuda.Extend
open Bermuda Std

/-! ### generic: invariants of `foldlM` in `Except` -/

theorem foldlM_inv {α β : Type} {f : β → α → Except Err β} (Inv : β → Prop) :
    ∀ (l : List α) (init r : β), Inv init →
      (∀ d x d', x ∈ l → Inv d → f d x = .ok d' → Inv d') →
      l.foldlM f init = .ok r → Inv r
  | [], init, r, h0, _, h => by
    simp only [List.foldlM_nil, pure, Except.pure] at h; cases h; exact h0
  | x :: rest, init, r, h0, hstep, h => by
    rw [List.foldlM_cons] at h
    simp only [bind, Except.bind] at h
    split at h
    · cases h
    · rename_i d' hd'
      exact foldlM_inv Inv rest d' r (hstep init x d' (by simp) h0 hd')
        (fun d y d'' hy => hstep d y d'' (by simp [hy])) h

/-! ### the lag dictionary -/

theorem mem_lagSet {d : LagDict} {k : Rat} {v : Cell} {p : Rat × Cell} (h : p ∈ lagSet d k v) :
    p = (k, v) ∨ (p ∈ d ∧ p.1 ≠ k) := by
  unfold lagSet at h
  split at h
  · obtain ⟨q, hq, rfl⟩ := List.mem_map.mp h
    split
    · rename_i hk
      have : q.1 = k := by simpa using hk
      left; rw [this]
    · rename_i hk
      right; exact ⟨hq, by simpa using hk⟩
  · rename_i hany
    rcases List.mem_append.mp h with h | h
    · right
      refine ⟨h, ?_⟩
      intro hk
      apply hany
      simp only [List.any_eq_true]
      exact ⟨p, h, by simp [hk]⟩
    · left; simpa using h

theorem lagSet_keep {d : LagDict} {k : Rat} {v : Cell} {p : Rat × Cell} (hp : p ∈ d) (hk : p.1 ≠ k) :
    p ∈ lagSet d k v := by
  unfold lagSet
  split
  · exact List.mem_map.mpr ⟨p, hp, by simp [hk]⟩
  · exact List.mem_append_left _ hp

theorem lagSet_has (d : LagDict) (k : Rat) (v : Cell) : (k, v) ∈ lagSet d k v := by
  unfold lagSet
  split
  · rename_i hany
    obtain ⟨q, hq, hqk⟩ := List.any_eq_true.mp hany
    have : q.1 = k := by simpa using hqk
    exact List.mem_map.mpr ⟨q, hq, by simp [this]⟩
  · simp

theorem lagGet_some {d : LagDict} {k : Rat} {c : Cell} (h : lagGet d k = some c) : (k, c) ∈ d := by
  unfold lagGet at h
  cases hf : d.find? (·.1 == k) with
  | none => simp [hf] at h
  | some p =>
    simp [hf] at h
    have hp := List.mem_of_find?_eq_some hf
    have hk : p.1 = k := by simpa using List.find?_some hf
    obtain ⟨a, b⟩ := p
    simp at hk h
    subst hk; subst h
    exact hp

/-- entries of `{cell.dev_lag(): cell for cell in row}` come from the row -/
theorem lagDictOf_fold_mem (row : List Cell) (init : LagDict) :
    ∀ p ∈ row.foldl (fun d c => lagSet d c.devLag c) init,
      p ∈ init ∨ (p.2 ∈ row ∧ p.1 = p.2.devLag) := by
  induction row generalizing init with
  | nil => intro p hp; exact Or.inl hp
  | cons a rest ih =>
    intro p hp
    simp only [List.foldl_cons] at hp
    rcases ih _ p hp with h | h
    · rcases mem_lagSet h with rfl | ⟨h, _⟩
      · right; simp
      · exact Or.inl h
    · right; exact ⟨List.mem_cons_of_mem _ h.1, h.2⟩

theorem lagDictOf_mem {row : List Cell} {p : Rat × Cell} (hp : p ∈ lagDictOf row) :
    p.2 ∈ row ∧ p.1 = p.2.devLag := by
  rcases lagDictOf_fold_mem row [] p hp with h | h
  · simp at h
  · exact h

/-- no two cells of the row share a lag: every cell of the row is in the dictionary -/
theorem lagDictOf_fold_complete (row : List Cell) (init : LagDict)
    (hnd : row.Pairwise (fun a b => a.devLag ≠ b.devLag)) :
    (∀ c ∈ row, (c.devLag, c) ∈ row.foldl (fun d c => lagSet d c.devLag c) init) ∧
    (∀ p ∈ init, (∀ c ∈ row, c.devLag ≠ p.1) → p ∈ row.foldl (fun d c => lagSet d c.devLag c) init) := by
  induction row generalizing init with
  | nil => exact ⟨by simp, fun p hp _ => hp⟩
  | cons a rest ih =>
    obtain ⟨ha, hrest⟩ := List.pairwise_cons.mp hnd
    obtain ⟨ih1, ih2⟩ := ih (lagSet init a.devLag a) hrest
    simp only [List.foldl_cons]
    constructor
    · intro c hc
      rcases List.mem_cons.mp hc with rfl | hc
      · exact ih2 _ (lagSet_has _ _ _) (fun c' hc' => (ha c' hc').symm)
      · exact ih1 c hc
    · intro p hp hne
      exact ih2 p (lagSet_keep hp (fun h => hne a (by simp) h.symm)) (fun c hc => hne c (by simp [hc]))

theorem lagDictOf_complete {row : List Cell} (hnd : row.Pairwise (fun a b => a.devLag ≠ b.devLag))
    {c : Cell} (hc : c ∈ row) : (c.devLag, c) ∈ lagDictOf row :=
  (lagDictOf_fold_complete row [] hnd).1 c hc


/-! ### rows of `slice_period_rows` -/

theorem mem_slicePeriodRows {t : List Cell} {r : SliceKey × List Cell} (h : r ∈ slicePeriodRows t) :
    ∃ c0 ∈ t, r.1 = sliceKey c0 ∧ r.2 = (t.filter fun c => sliceKey c == r.1).mergeSort evLe := by
  unfold slicePeriodRows at h
  obtain ⟨k, hk, rfl⟩ := List.mem_map.mp h
  have hk' := (List.mergeSort_perm _ _).mem_iff.mp hk
  rw [List.mem_eraseDups] at hk'
  obtain ⟨c0, hc0, rfl⟩ := List.mem_map.mp hk'
  exact ⟨c0, hc0, rfl, rfl⟩

theorem mem_row_iff {t : List Cell} {r : SliceKey × List Cell} (h : r ∈ slicePeriodRows t) (c : Cell) :
    c ∈ r.2 ↔ c ∈ t ∧ sliceKey c = r.1 := by
  obtain ⟨_, _, _, h2⟩ := mem_slicePeriodRows h
  rw [h2, (List.mergeSort_perm _ _).mem_iff, List.mem_filter]
  simp

theorem row_of_mem {t : List Cell} {c : Cell} (hc : c ∈ t) :
    ∃ r ∈ slicePeriodRows t, r.1 = sliceKey c ∧ c ∈ r.2 := by
  unfold slicePeriodRows
  have hk : sliceKey c ∈ ((t.map sliceKey).eraseDups).mergeSort (fun a b => sliceKeyCmp a b != .gt) := by
    rw [(List.mergeSort_perm _ _).mem_iff, List.mem_eraseDups]
    exact List.mem_map_of_mem hc
  refine ⟨_, List.mem_map_of_mem hk, rfl, ?_⟩
  rw [(List.mergeSort_perm _ _).mem_iff, List.mem_filter]
  exact ⟨hc, by simp⟩

/-! ### `range`, new lags, one fill step -/

theorem mem_pyRange_pos {a b s x : Int} (hs : 0 < s) (h : x ∈ pyRange a b s) :
    ∃ i : Nat, x = a + s * (i : Int) ∧ x < b := by
  unfold pyRange at h
  rw [if_pos hs] at h
  obtain ⟨i, hi, rfl⟩ := List.mem_map.mp h
  refine ⟨i, rfl, ?_⟩
  have hi' := List.mem_range.mp hi
  have h1 : ((i : Int) + 1) ≤ (b - a + s - 1) / s := by omega
  have h2 := (Int.le_ediv_iff_mul_le hs).mp h1
  have : ((i : Int) + 1) * s = s * (i : Int) + s := by ring
  omega

/-- the cell `fill_forward_gaps` puts at lag `lag`, copied from `src` -/
def fillCell (noneFlag : Bool) (src : Cell) (lag : Int) : Cell :=
  if noneFlag then
    { src with ev := addMonths src.pe (lag : Rat),
               values := src.values.map fun (kv : String × Val) => (kv.1, Val.none) }
  else { src with ev := addMonths src.pe (lag : Rat) }

theorem fillStep_ok {res : Int} {noneFlag : Bool} {d d' : LagDict} {lag : Int}
    (h : fillStep res noneFlag d lag = .ok d') :
    ∃ src, (((lag - res : Int) : Rat), src) ∈ d ∧ d' = lagSet d lag (fillCell noneFlag src lag) := by
  unfold fillStep at h
  simp only [bind, Except.bind] at h
  split at h
  · simp [throw, throwThe, MonadExceptOf.throw] at h
  · rename_i src hg
    have hmem : (((lag - res : Int) : Rat), src) ∈ d := by
      have := lagGet_some hg
      simpa using this
    split at h
    · cases h
    · rename_i c hc
      obtain ⟨rfl, _⟩ := mk?_ok hc
      refine ⟨src, hmem, ?_⟩
      cases noneFlag with
      | false =>
        simp only [Bool.false_eq_true, if_false, pure, Except.pure] at h
        cases h
        simp [fillCell]
      | true =>
        simp only [if_true] at h
        split at h
        · cases h
        · rename_i c2 hc2
          obtain ⟨rfl, _⟩ := mk?_ok hc2
          simp only [pure, Except.pure] at h
          cases h
          simp [fillCell]

/-- every lag of the row is a key of the dictionary (whatever cell it ends up holding) -/
theorem lagDictOf_fold_key (row : List Cell) (init : LagDict) :
    (∀ o ∈ row, ∃ p ∈ row.foldl (fun d c => lagSet d c.devLag c) init, p.1 = o.devLag) ∧
    (∀ q ∈ init, ∃ p ∈ row.foldl (fun d c => lagSet d c.devLag c) init, p.1 = q.1) := by
  induction row generalizing init with
  | nil => exact ⟨by simp, fun q hq => ⟨q, hq, rfl⟩⟩
  | cons a rest ih =>
    obtain ⟨ih1, ih2⟩ := ih (lagSet init a.devLag a)
    simp only [List.foldl_cons]
    constructor
    · intro o ho
      rcases List.mem_cons.mp ho with rfl | ho
      · exact ih2 _ (lagSet_has _ _ _)
      · exact ih1 o ho
    · intro q hq
      by_cases hk : q.1 = a.devLag
      · obtain ⟨p, hp, hpk⟩ := ih2 _ (lagSet_has init a.devLag a)
        exact ⟨p, hp, by rw [hpk, hk]⟩
      · exact ih2 q (lagSet_keep hq hk)

theorem lagDictOf_complete_key {row : List Cell} {o : Cell} (ho : o ∈ row) :
    ∃ p ∈ lagDictOf row, p.1 = o.devLag := (lagDictOf_fold_key row []).1 o ho

theorem mem_newLags {res : Int} {row : List Cell} {x : Int} (h : x ∈ newLags res row) :
    ∃ f l, row.head? = some f ∧ row.getLast? = some l ∧
      x ∈ pyRange (truncInt f.devLag) (truncInt (l.devLag + res)) res ∧
      ∀ o ∈ row, o.devLag ≠ (x : Rat) := by
  unfold newLags at h
  split at h
  · rename_i f l hf hl
    have h' := (List.mergeSort_perm _ _).mem_iff.mp h
    rw [List.mem_filter, List.mem_eraseDups] at h'
    refine ⟨f, l, hf, hl, h'.1, ?_⟩
    intro o ho heq
    have hnot := h'.2
    simp only [Bool.not_eq_true', List.any_eq_false] at hnot
    have hmem := lagDictOf_complete_key ho
    obtain ⟨p, hp, hpk⟩ := hmem
    have := hnot p hp
    simp [hpk, heq] at this
  · simp at h

/-! ### one row of `fill_forward_gaps` -/

theorem truncInt_intCast (n : Int) : truncInt ((n : Int) : Rat) = n := by
  unfold truncInt
  split
  · exact floor_intCast n
  · have : -((n : Int) : Rat) = (((-n : Int)) : Rat) := by push_cast; ring
    rw [this, floor_intCast]; omega

theorem fillCell_fillCell (nf : Bool) (o : Cell) (l' l : Int) :
    fillCell nf (fillCell nf o l') l = fillCell nf o l := by
  cases nf <;> simp [fillCell, List.map_map, Function.comp]

/-- all observed lags of the row lie on one integer grid of step `res` -/
def GridRow (res : Int) (row : List Cell) : Prop :=
  ∃ a : Int, ∀ o ∈ row, ∃ j : Int, o.devLag = ((a + res * j : Int) : Rat)

/-- `c` is a cell `fill_forward_gaps` adds to `row`: at an unobserved grid lag strictly between the
row's first and last lag, copied (or blanked) from the observation `o` with the greatest lag below it -/
def FillCellOf (res : Int) (nf : Bool) (row : List Cell) (c : Cell) : Prop :=
  ∃ f l, row.head? = some f ∧ row.getLast? = some l ∧ ∃ lag : Int,
    f.devLag < (lag : Rat) ∧ (lag : Rat) < l.devLag ∧ (∃ i : Nat, lag = truncInt f.devLag + res * (i : Int)) ∧
    (∀ o ∈ row, o.devLag ≠ (lag : Rat)) ∧
    ∃ o ∈ row, o.devLag < (lag : Rat) ∧ (∀ o' ∈ row, o'.devLag ≤ (lag : Rat) → o'.devLag ≤ o.devLag) ∧
      c = fillCell nf o lag

/-- invariant of the dictionary entries during the fill loop -/
def EntryOk (res : Int) (nf : Bool) (row : List Cell) (p : Rat × Cell) : Prop :=
  ∃ o ∈ row, o.devLag ≤ p.1 ∧ (∀ o' ∈ row, o'.devLag ≤ p.1 → o'.devLag ≤ o.devLag) ∧
    ((p.2 = o ∧ p.1 = o.devLag) ∨
     (∃ lag ∈ newLags res row, p.1 = (lag : Rat) ∧ o.devLag < (lag : Rat) ∧ p.2 = fillCell nf o lag))

theorem fillRow_ok {res : Int} {nf : Bool} {row cells : List Cell} (h : fillRow res nf row = .ok cells) :
    cells = [] ∧ row = [] ∨
    ∃ d, (newLags res row).foldlM (fillStep res nf) (lagDictOf row) = .ok d ∧ cells = d.map (·.2) := by
  unfold fillRow at h
  by_cases hr : row.isEmpty = true
  · simp only [hr, if_true, pure, Except.pure] at h
    cases h
    left; exact ⟨rfl, by simpa using hr⟩
  · simp only [hr, Bool.false_eq_true, if_false, bind, Except.bind] at h
    split at h
    · simp [throw, throwThe, MonadExceptOf.throw] at h
    · simp only [pure, Except.pure] at h
      split at h
      · cases h
      · rename_i d hd
        cases h
        exact Or.inr ⟨d, hd, rfl⟩

/-- no observed cell of a row is lost -/
theorem fillRow_preserves {res : Int} {nf : Bool} {row cells : List Cell}
    (h : fillRow res nf row = .ok cells) (hnd : row.Pairwise (fun a b => a.devLag ≠ b.devLag)) :
    ∀ c ∈ row, c ∈ cells := by
  rcases fillRow_ok h with ⟨_, rfl⟩ | ⟨d, hd, rfl⟩
  · simp
  · intro c hc
    have hinv := foldlM_inv (f := fillStep res nf) (fun d => ∀ p ∈ lagDictOf row, p ∈ d)
      (newLags res row) (lagDictOf row) d (fun p hp => hp) ?_ hd
    · exact List.mem_map.mpr ⟨_, hinv _ (lagDictOf_complete hnd hc), rfl⟩
    · intro d0 x d1 hx hI hstep p hp
      obtain ⟨src, _, rfl⟩ := fillStep_ok hstep
      apply lagSet_keep (hI p hp)
      obtain ⟨_, _, _, _, _, hne⟩ := mem_newLags hx
      rw [(lagDictOf_mem hp).2]
      exact hne _ (lagDictOf_mem hp).1

theorem fillRow_entries {res : Int} {nf : Bool} {row : List Cell} {d : LagDict} (hres : 0 < res)
    (hgrid : GridRow res row)
    (hd : (newLags res row).foldlM (fillStep res nf) (lagDictOf row) = .ok d) :
    ∀ p ∈ d, EntryOk res nf row p := by
  refine foldlM_inv (f := fillStep res nf) (fun d => ∀ p ∈ d, EntryOk res nf row p)
    (newLags res row) (lagDictOf row) d ?_ ?_ hd
  · intro p hp
    obtain ⟨h1, h2⟩ := lagDictOf_mem hp
    exact ⟨p.2, h1, by rw [h2], fun o' _ ho' => by rw [h2] at ho'; exact ho', Or.inl ⟨rfl, h2⟩⟩
  · intro d0 x d1 hx hI hstep p hp
    obtain ⟨src, hsrc, rfl⟩ := fillStep_ok hstep
    rcases mem_lagSet hp with rfl | ⟨hp0, _⟩
    · -- the new entry
      obtain ⟨o, ho, hle, hnear, hform⟩ := hI _ hsrc
      obtain ⟨f, l, hf, hl, hrange, hne⟩ := mem_newLags hx
      obtain ⟨i, hxi, _⟩ := mem_pyRange_pos hres hrange
      obtain ⟨a, ha⟩ := hgrid
      have hfrow : f ∈ row := List.mem_of_head? hf
      obtain ⟨jf, hjf⟩ := ha f hfrow
      have hxa : x = a + res * (jf + i) := by
        rw [hxi, hjf, truncInt_intCast]; ring
      have hr : (0 : Rat) < (res : Rat) := by exact_mod_cast hres
      simp only at hle
      have hlt : o.devLag < (x : Rat) := by
        have : (((x - res : Int)) : Rat) = (x : Rat) - (res : Rat) := by push_cast; ring
        rw [this] at hle; linarith
      refine ⟨o, ho, _root_.le_of_lt hlt, ?_, Or.inr ⟨x, hx, rfl, hlt, ?_⟩⟩
      · intro o' ho' hle'
        obtain ⟨j', hj'⟩ := ha o' ho'
        have hne' := hne o' ho'
        have hlt' : o'.devLag < (x : Rat) := _root_.lt_of_le_of_ne hle' hne'
        rw [hj', hxa] at hlt'
        have hlt'' : a + res * j' < a + res * (jf + i) := by exact_mod_cast hlt'
        have hj : j' < jf + i := by
          by_contra hcon
          have : res * (jf + i) ≤ res * j' := Int.mul_le_mul_of_nonneg_left (by omega) (by omega)
          omega
        have hle2 : o'.devLag ≤ (((x - res : Int)) : Rat) := by
          rw [hj', hxa]
          have : a + res * j' ≤ a + res * (jf + i) - res := by
            have : res * j' ≤ res * (jf + i - 1) := Int.mul_le_mul_of_nonneg_left (by omega) (by omega)
            have h2 : res * (jf + i - 1) = res * (jf + i) - res := by ring
            omega
          exact_mod_cast this
        exact hnear o' ho' hle2
      · rcases hform with ⟨rfl, _⟩ | ⟨lag', _, _, _, rfl⟩
        · rfl
        · exact fillCell_fillCell nf o lag' x
    · exact hI p hp0

/-- every cell of a filled row is an observed cell of the row or a well-placed fill cell -/
theorem fillRow_cells {res : Int} {nf : Bool} {row cells : List Cell} (hres : 0 < res)
    (hgrid : GridRow res row) (h : fillRow res nf row = .ok cells) :
    ∀ c ∈ cells, c ∈ row ∨ FillCellOf res nf row c := by
  rcases fillRow_ok h with ⟨rfl, _⟩ | ⟨d, hd, rfl⟩
  · simp
  · intro c hc
    obtain ⟨p, hp, rfl⟩ := List.mem_map.mp hc
    obtain ⟨o, ho, hle, hnear, hform⟩ := fillRow_entries hres hgrid hd p hp
    rcases hform with ⟨h1, _⟩ | ⟨x, hx, hpx, hlt, hpc⟩
    · left; rw [h1]; exact ho
    · right
      obtain ⟨f, l, hf, hl, hrange, hne⟩ := mem_newLags hx
      obtain ⟨i, hxi, hxb⟩ := mem_pyRange_pos hres hrange
      obtain ⟨a, ha⟩ := hgrid
      obtain ⟨jf, hjf⟩ := ha f (List.mem_of_head? hf)
      obtain ⟨jl, hjl⟩ := ha l (List.mem_of_getLast? hl)
      have hxa : x = a + res * (jf + i) := by rw [hxi, hjf, truncInt_intCast]; ring
      have hlast : truncInt (l.devLag + (res : Rat)) = a + res * (jl + 1) := by
        have : l.devLag + (res : Rat) = (((a + res * (jl + 1) : Int)) : Rat) := by
          rw [hjl]; push_cast; ring
        rw [this, truncInt_intCast]
      rw [hlast, hxa] at hxb
      have hji : jf + i < jl + 1 := by
        by_contra hcon
        have : res * (jl + 1) ≤ res * (jf + i) := Int.mul_le_mul_of_nonneg_left (by omega) (by omega)
        omega
      have hnel : jf + (i : Int) ≠ jl := by
        intro heq
        apply hne l (List.mem_of_getLast? hl)
        rw [hjl, hxa, heq]
      have hnef : (i : Int) ≠ 0 := by
        intro heq
        apply hne f (List.mem_of_head? hf)
        rw [hjf, hxa, heq]; simp
      refine ⟨f, l, hf, hl, x, ?_, ?_, ⟨i, hxi⟩, hne, o, ho, hlt, ?_, hpc⟩
      · rw [hjf, hxa]
        have : a + res * jf < a + res * (jf + i) := by
          have : res * jf < res * (jf + i) := Int.mul_lt_mul_of_pos_left (by omega) hres
          omega
        exact_mod_cast this
      · rw [hjl, hxa]
        have : a + res * (jf + i) < a + res * jl := by
          have : res * (jf + i) < res * jl := Int.mul_lt_mul_of_pos_left (by omega) hres
          omega
        exact_mod_cast this
      · intro o' ho' hle'
        apply hnear o' ho'
        rw [hpx]; exact hle'

/-! ### the whole triangle -/

/-- the resolution `fill_forward_gaps` / `backfill` work with: the given one or the inferred one -/
def resolvedRes (t : List Cell) (res? : Option Int) : Option Int :=
  match res? with
  | some r => some r
  | none => evalDateResolution t

theorem fillForwardGaps_ok {t out : List Cell} {res? : Option Int} {nf : Bool}
    (h : fillForwardGaps t res? nf = .ok out) :
    (slicePeriodRows t = [] ∧ out = []) ∨
    ∃ res parts, resolvedRes t res? = some res ∧
      (slicePeriodRows t).mapM (fun r => fillRow res nf r.2) = .ok parts ∧ out.Perm parts.flatten := by
  unfold fillForwardGaps at h
  by_cases hr : (slicePeriodRows t).isEmpty = true
  · simp only [hr, if_true, bind, Except.bind] at h
    left
    refine ⟨by simpa using hr, ?_⟩
    have hp := Properties.C01.ofCells_perm (l := []) (t := out) (by
      revert h; cases Triangle.ofCells ([] : List Cell) <;> simp)
    simpa using hp.eq_nil
  · simp only [hr, Bool.false_eq_true, if_false, bind, Except.bind] at h
    right
    cases res? with
    | some r =>
      simp only [pure, Except.pure] at h
      split at h
      · cases h
      · rename_i parts hparts
        exact ⟨r, parts, rfl, hparts, Properties.C01.ofCells_perm h⟩
    | none =>
      cases he : evalDateResolution t with
      | none => simp [he, throw, throwThe, MonadExceptOf.throw] at h
      | some r =>
        simp only [he, pure, Except.pure] at h
        split at h
        · cases h
        · rename_i parts hparts
          exact ⟨r, parts, by simp [resolvedRes, he], hparts, Properties.C01.ofCells_perm h⟩
end Bermuda.Extend
