/-
C15: completeness of `fill_forward_gaps` — every grid lag between first and last observation is present.
-/
import Bermuda.Lemmas.ExtendFill
namespace Bermuda.Extend
open Bermuda

theorem pyRange_mem_of {a b s : Int} (hs : 0 < s) (i : Nat) (h : a + s * (i : Int) < b) :
    a + s * (i : Int) ∈ pyRange a b s := by
  unfold pyRange
  rw [if_pos hs]
  apply List.mem_map.mpr
  refine ⟨i, List.mem_range.mpr ?_, rfl⟩
  have h1 : ((i : Int) + 1) * s ≤ b - a + s - 1 := by
    have : ((i : Int) + 1) * s = s * (i : Int) + s := by ring
    omega
  have h2 := (Int.le_ediv_iff_mul_le hs).mpr h1
  omega

/-- keys only grow during the fill loop, and every processed lag has an entry afterwards -/
theorem fill_fold_keys {res : Int} {nf : Bool} : ∀ (l : List Int) (d0 d : LagDict),
    l.foldlM (fillStep res nf) d0 = .ok d →
    (∀ p ∈ d0, ∃ q ∈ d, q.1 = p.1) ∧ (∀ x ∈ l, ∃ q ∈ d, q.1 = ((x : Int) : Rat))
  | [], d0, d, h => by
    simp only [List.foldlM_nil, pure, Except.pure] at h; cases h
    exact ⟨fun p hp => ⟨p, hp, rfl⟩, by simp⟩
  | x :: rest, d0, d, h => by
    rw [List.foldlM_cons] at h
    simp only [bind, Except.bind] at h
    split at h
    · cases h
    · rename_i d1 hd1
      obtain ⟨src, _, rfl⟩ := fillStep_ok hd1
      obtain ⟨ih1, ih2⟩ := fill_fold_keys rest _ d h
      have hgrow : ∀ p ∈ d0, ∃ q ∈ lagSet d0 (x : Rat) (fillCell nf src x), q.1 = p.1 := by
        intro p hp
        by_cases hk : p.1 = ((x : Int) : Rat)
        · exact ⟨_, lagSet_has _ _ _, hk.symm⟩
        · exact ⟨p, lagSet_keep hp hk, rfl⟩
      constructor
      · intro p hp
        obtain ⟨q, hq, hqk⟩ := hgrow p hp
        obtain ⟨q', hq', hqk'⟩ := ih1 q hq
        exact ⟨q', hq', hqk'.trans hqk⟩
      · intro y hy
        rcases List.mem_cons.mp hy with rfl | hy
        · obtain ⟨q', hq', hqk'⟩ := ih1 _ (lagSet_has d0 (y : Rat) (fillCell nf src y))
          exact ⟨q', hq', hqk'⟩
        · exact ih2 y hy

/-- every lag `range(first, last + res, res)` asks for is a key of the filled row -/
theorem fillRow_complete_keys {res : Int} {nf : Bool} {row : List Cell} {d : LagDict} {f l : Cell}
    (hf : row.head? = some f) (hl : row.getLast? = some l)
    (hd : (newLags res row).foldlM (fillStep res nf) (lagDictOf row) = .ok d)
    {x : Int} (hx : x ∈ pyRange (truncInt f.devLag) (truncInt (l.devLag + res)) res) :
    ∃ q ∈ d, q.1 = ((x : Int) : Rat) := by
  obtain ⟨h1, h2⟩ := fill_fold_keys _ _ _ hd
  by_cases hobs : ∃ o ∈ row, o.devLag = ((x : Int) : Rat)
  · obtain ⟨o, ho, hoe⟩ := hobs
    obtain ⟨p, hp, hpk⟩ := lagDictOf_complete_key ho
    obtain ⟨q, hq, hqk⟩ := h1 p hp
    exact ⟨q, hq, by rw [hqk, hpk, hoe]⟩
  · apply h2
    unfold newLags
    rw [hf, hl]
    simp only
    rw [(List.mergeSort_perm _ _).mem_iff, List.mem_filter, List.mem_eraseDups]
    refine ⟨hx, ?_⟩
    simp only [Bool.not_eq_true', List.any_eq_false, beq_iff_eq]
    intro p hp hpk
    apply hobs
    obtain ⟨hp1, hp2⟩ := lagDictOf_mem hp
    exact ⟨p.2, hp1, by rw [← hp2, hpk]⟩


theorem fillCell_fields (nf : Bool) (o : Cell) (x : Int) :
    (fillCell nf o x).md = o.md ∧ (fillCell nf o x).ps = o.ps ∧ (fillCell nf o x).pe = o.pe ∧
    (fillCell nf o x).ev = addMonths o.pe (x : Rat) := by
  cases nf <;> simp [fillCell]

/-- one row: every lag of `range(first, last + res, res)` is present in the filled row — as the observed
cell with that lag or as the fill cell at `period_end + lag` -/
theorem fillRow_complete {res : Int} {nf : Bool} {row cells : List Cell} (hres : 0 < res)
    (hgrid : GridRow res row) (h : fillRow res nf row = .ok cells) {f l : Cell}
    (hf : row.head? = some f) (hl : row.getLast? = some l) {x : Int}
    (hx : x ∈ pyRange (truncInt f.devLag) (truncInt (l.devLag + res)) res) :
    ∃ c ∈ cells, ∃ o ∈ row, c.md = o.md ∧ c.ps = o.ps ∧ c.pe = o.pe ∧
      ((c = o ∧ o.devLag = ((x : Int) : Rat)) ∨ c.ev = addMonths c.pe ((x : Int) : Rat)) := by
  rcases fillRow_ok h with ⟨_, rfl⟩ | ⟨d, hd, rfl⟩
  · simp at hf
  · obtain ⟨q, hq, hqk⟩ := fillRow_complete_keys hf hl hd hx
    obtain ⟨o, ho, _, _, hform⟩ := fillRow_entries hres hgrid hd q hq
    refine ⟨q.2, List.mem_map.mpr ⟨q, hq, rfl⟩, o, ho, ?_⟩
    rcases hform with ⟨h1, h2⟩ | ⟨lag, _, hlag, _, h2⟩
    · rw [h1]; exact ⟨rfl, rfl, rfl, Or.inl ⟨rfl, by rw [← h2, hqk]⟩⟩
    · have hx' : lag = x := by
        have : ((lag : Int) : Rat) = ((x : Int) : Rat) := by rw [← hlag, hqk]
        exact_mod_cast this
      subst hx'
      obtain ⟨f1, f2, f3, f4⟩ := fillCell_fields nf o lag
      rw [h2]
      exact ⟨f1, f2, f3, Or.inr (by rw [f4, f3])⟩
end Bermuda.Extend
