/-
C15: `fill_forward_gaps` succeeds on the domain — the lookup `period_cells[lag - eval_resolution]` never misses on
a compatible positive resolution, so the call returns as soon as no constructor call raises.
-/
import Bermuda.Lemmas.ExtendTotal
namespace Bermuda.Extend
open Bermuda

theorem datesOk_congr {a b : Cell} (hk : a.kind = b.kind) (hps : a.ps = b.ps) (hpe : a.pe = b.pe)
    (hev : a.ev = b.ev) (hprev : a.prev = b.prev) : a.datesOk = b.datesOk := by
  unfold Cell.datesOk
  rw [hk, hps, hpe, hev, hprev]

theorem lagGet_of_key {d : LagDict} {k : Rat} (h : ∃ p ∈ d, p.1 = k) : ∃ c, lagGet d k = some c := by
  obtain ⟨p, hp, hpk⟩ := h
  unfold lagGet
  cases hf : d.find? (·.1 == k) with
  | some q => exact ⟨q.2, rfl⟩
  | none =>
    have := List.find?_eq_none.mp hf p hp
    simp [hpk] at this

/-- frame of a cell: everything the constructor looks at except the evaluation date -/
def SameFrame (c o : Cell) : Prop := c.kind = o.kind ∧ c.ps = o.ps ∧ c.pe = o.pe ∧ c.prev = o.prev

/-- invariant of the fill loop for totality: observed lags and processed lags are keys; every entry has the frame of
an observed cell whose lag is not above the key -/
def TInv (row : List Cell) (pre : List Int) (d : LagDict) : Prop :=
  (∀ o ∈ row, ∃ p ∈ d, p.1 = o.devLag) ∧ (∀ x ∈ pre, ∃ p ∈ d, p.1 = ((x : Int) : Rat)) ∧
  ∀ p ∈ d, ∃ o ∈ row, o.devLag ≤ p.1 ∧ SameFrame p.2 o

theorem lagSet_key_grow {d : LagDict} {k : Rat} {v : Cell} {q : Rat × Cell} (hq : q ∈ d) :
    ∃ p ∈ lagSet d k v, p.1 = q.1 := by
  by_cases hk : q.1 = k
  · exact ⟨_, lagSet_has _ _ _, hk.symm⟩
  · exact ⟨q, lagSet_keep hq hk, rfl⟩

theorem fill_loop_ok {res : Int} {nf : Bool} {row : List Cell} (hres : 0 < res)
    (hpred : ∀ pre x suf, newLags res row = pre ++ x :: suf →
      (∃ o ∈ row, o.devLag = (((x - res : Int)) : Rat)) ∨ (x - res) ∈ pre)
    (hctor : ∀ o ∈ row, ∀ x ∈ newLags res row, o.devLag < ((x : Int) : Rat) →
      ({ o with ev := addMonths o.pe ((x : Int) : Rat) } : Cell).datesOk = true) :
    ∀ (suf : List Int) (pre : List Int) (d : LagDict), newLags res row = pre ++ suf → TInv row pre d →
      ∃ r, suf.foldlM (fillStep res nf) d = .ok r
  | [], _, d, _, _ => ⟨d, rfl⟩
  | x :: suf, pre, d, hL, hI => by
    obtain ⟨hobs, hpre, hent⟩ := hI
    have hx : x ∈ newLags res row := by rw [hL]; simp
    -- the lookup
    have hkey : ∃ p ∈ d, p.1 = (((x - res : Int)) : Rat) := by
      rcases hpred pre x suf hL with ⟨o, ho, hoe⟩ | hin
      · obtain ⟨p, hp, hpk⟩ := hobs o ho
        exact ⟨p, hp, hpk.trans hoe⟩
      · exact hpre _ hin
    obtain ⟨src, hsrc⟩ := lagGet_of_key hkey
    have hsrcmem := lagGet_some hsrc
    obtain ⟨o, ho, hole, hk, hps, hpe, hprev⟩ := hent _ hsrcmem
    simp only at hole hk hps hpe hprev
    have hr : (0 : Rat) < (res : Rat) := by exact_mod_cast hres
    have holt : o.devLag < ((x : Int) : Rat) := by
      have : (((x - res : Int)) : Rat) = (x : Rat) - (res : Rat) := by push_cast; ring
      rw [this] at hole; linarith
    have e1 : ({ src with ev := addMonths src.pe ((x : Int) : Rat) } : Cell).datesOk
        = ({ o with ev := addMonths o.pe ((x : Int) : Rat) } : Cell).datesOk :=
      datesOk_congr hk hps hpe (show addMonths src.pe _ = addMonths o.pe _ by rw [hpe]) hprev
    have hd1 : ({ src with ev := addMonths src.pe ((x : Int) : Rat) } : Cell).datesOk = true :=
      e1.trans (hctor o ho x hx holt)
    have e2 : ({ src with ev := addMonths src.pe ((x : Int) : Rat),
                          values := src.values.map fun (kv : String × Val) => (kv.1, Val.none) } : Cell).datesOk
        = ({ src with ev := addMonths src.pe ((x : Int) : Rat) } : Cell).datesOk :=
      datesOk_congr rfl rfl rfl rfl rfl
    have hd2 := e2.trans hd1
    -- the step
    have hstep : ∃ c, fillStep res nf d x = .ok (lagSet d x c) ∧ SameFrame c o := by
      unfold fillStep
      simp only [hsrc, bind, Except.bind, Cell.mk?, hd1, if_true]
      cases nf with
      | false =>
        exact ⟨{ src with ev := addMonths src.pe ((x : Int) : Rat) }, by simp [pure, Except.pure],
          hk, hps, hpe, hprev⟩
      | true =>
        simp only [if_true, hd2, pure, Except.pure]
        exact ⟨{ src with ev := addMonths src.pe ((x : Int) : Rat),
                          values := src.values.map fun (kv : String × Val) => (kv.1, Val.none) }, rfl,
          hk, hps, hpe, hprev⟩
    obtain ⟨c, hc, hframe⟩ := hstep
    have hI' : TInv row (pre ++ [x]) (lagSet d x c) := by
      refine ⟨?_, ?_, ?_⟩
      · intro o' ho'
        obtain ⟨q, hq, hqk⟩ := hobs o' ho'
        obtain ⟨p, hp, hpk⟩ := lagSet_key_grow (k := ((x : Int) : Rat)) (v := c) hq
        exact ⟨p, hp, hpk.trans hqk⟩
      · intro y hy
        rcases List.mem_append.mp hy with hy | hy
        · obtain ⟨q, hq, hqk⟩ := hpre y hy
          obtain ⟨p, hp, hpk⟩ := lagSet_key_grow (k := ((x : Int) : Rat)) (v := c) hq
          exact ⟨p, hp, hpk.trans hqk⟩
        · simp only [List.mem_singleton] at hy; subst hy
          exact ⟨_, lagSet_has _ _ _, rfl⟩
      · intro p hp
        rcases mem_lagSet hp with rfl | ⟨hp0, _⟩
        · exact ⟨o, ho, _root_.le_of_lt holt, hframe⟩
        · exact hent p hp0
    obtain ⟨r, hr'⟩ := fill_loop_ok hres hpred hctor suf (pre ++ [x]) (lagSet d x c)
      (by rw [hL]; simp) hI'
    refine ⟨r, ?_⟩
    rw [List.foldlM_cons]
    simp only [hc, bind, Except.bind]
    exact hr'

theorem tinv_init (row : List Cell) : TInv row [] (lagDictOf row) := by
  refine ⟨fun o ho => lagDictOf_complete_key ho, by simp, ?_⟩
  intro p hp
  obtain ⟨h1, h2⟩ := lagDictOf_mem hp
  exact ⟨p.2, h1, by rw [h2], rfl, rfl, rfl, rfl⟩

/-- on a grid row the lag one step below a new lag is observed or an earlier new lag, and every new lag lies
strictly below the row's last lag -/
theorem newLags_grid {res : Int} {row : List Cell} (hres : 0 < res) (hgrid : GridRow res row) :
    (∀ pre x suf, newLags res row = pre ++ x :: suf →
      (∃ o ∈ row, o.devLag = (((x - res : Int)) : Rat)) ∨ (x - res) ∈ pre) ∧
    ∀ x ∈ newLags res row, ∃ l ∈ row, ((x : Int) : Rat) < l.devLag := by
  obtain ⟨a, ha⟩ := hgrid
  have hfacts : ∀ x ∈ newLags res row, ∃ f l, row.head? = some f ∧ row.getLast? = some l ∧
      ∃ jf jl : Int, ∃ i : Nat, f.devLag = ((a + res * jf : Int) : Rat) ∧ l.devLag = ((a + res * jl : Int) : Rat) ∧
        x = a + res * (jf + i) ∧ (i : Int) ≠ 0 ∧ jf + i < jl := by
    intro x hx
    obtain ⟨f, l, hf, hl, hrange, hne⟩ := mem_newLags hx
    obtain ⟨i, hxi, hxb⟩ := mem_pyRange_pos hres hrange
    obtain ⟨jf, hjf⟩ := ha f (List.mem_of_head? hf)
    obtain ⟨jl, hjl⟩ := ha l (List.mem_of_getLast? hl)
    have hxa : x = a + res * (jf + i) := by rw [hxi, hjf, truncInt_intCast]; ring
    have hlast : truncInt (l.devLag + (res : Rat)) = a + res * (jl + 1) := by
      have : l.devLag + (res : Rat) = (((a + res * (jl + 1) : Int)) : Rat) := by rw [hjl]; push_cast; ring
      rw [this, truncInt_intCast]
    rw [hlast, hxa] at hxb
    have hji : jf + i < jl + 1 := by
      by_contra hcon
      have : res * (jl + 1) ≤ res * (jf + i) := Int.mul_le_mul_of_nonneg_left (by omega) (by omega)
      omega
    have hnel : jf + (i : Int) ≠ jl := by
      intro heq; apply hne l (List.mem_of_getLast? hl); rw [hjl, hxa, heq]
    have hnef : (i : Int) ≠ 0 := by
      intro heq; apply hne f (List.mem_of_head? hf); rw [hjf, hxa, heq]; simp
    exact ⟨f, l, hf, hl, jf, jl, i, hjf, hjl, hxa, hnef, by omega⟩
  constructor
  · intro pre x suf hL
    have hx : x ∈ newLags res row := by rw [hL]; simp
    obtain ⟨f, l, hf, hl, jf, jl, i, hjf, hjl, hxa, hi0, hlt⟩ := hfacts x hx
    by_cases hobs : ∃ o ∈ row, o.devLag = (((x - res : Int)) : Rat)
    · exact Or.inl hobs
    · right
      -- `x - res` is itself a new lag
      have hy : x - res ∈ newLags res row := by
        unfold newLags
        rw [hf, hl]
        simp only
        rw [(List.mergeSort_perm _ _).mem_iff, List.mem_filter, List.mem_eraseDups]
        constructor
        · have hlast : truncInt (l.devLag + (res : Rat)) = a + res * (jl + 1) := by
            have : l.devLag + (res : Rat) = (((a + res * (jl + 1) : Int)) : Rat) := by rw [hjl]; push_cast; ring
            rw [this, truncInt_intCast]
          rw [hjf, truncInt_intCast, hlast]
          have hform : x - res = (a + res * jf) + res * (((i - 1 : Nat)) : Int) := by
            have : ((i - 1 : Nat) : Int) = (i : Int) - 1 := by omega
            rw [this, hxa]; ring
          rw [hform]
          apply pyRange_mem_of hres
          have : ((i - 1 : Nat) : Int) = (i : Int) - 1 := by omega
          rw [this]
          have h1 : res * (jf + i) < res * (jl + 1) := Int.mul_lt_mul_of_pos_left (by omega) hres
          have h2 : a + res * jf + res * ((i : Int) - 1) = a + res * (jf + i) - res := by ring
          omega
        · simp only [Bool.not_eq_true', List.any_eq_false, beq_iff_eq]
          intro p hp hpk
          apply hobs
          obtain ⟨hp1, hp2⟩ := lagDictOf_mem hp
          exact ⟨p.2, hp1, by rw [← hp2, hpk]⟩
      -- sortedness: everything from `x` on is ≥ x
      have hsorted : (newLags res row).Pairwise (fun a b => intLe a b = true) := by
        unfold newLags
        rw [hf, hl]
        simp only
        apply List.pairwise_mergeSort
        · intro a b c hab hbc; simp only [intLe, decide_eq_true_eq] at *; omega
        · intro a b; simp only [intLe, Bool.or_eq_true, decide_eq_true_eq]; omega
      rw [hL] at hy hsorted
      rcases List.mem_append.mp hy with hy | hy
      · exact hy
      · exfalso
        have hxs := (List.pairwise_append.mp hsorted).2.1
        rcases List.mem_cons.mp hy with hy | hy
        · omega
        · have := (List.pairwise_cons.mp hxs).1 _ hy
          simp only [intLe, decide_eq_true_eq] at this
          omega
  · intro x hx
    obtain ⟨f, l, hf, hl, jf, jl, i, hjf, hjl, hxa, hi0, hlt⟩ := hfacts x hx
    refine ⟨l, List.mem_of_getLast? hl, ?_⟩
    rw [hjl, hxa]
    have : a + res * (jf + i) < a + res * jl := by
      have : res * (jf + i) < res * jl := Int.mul_lt_mul_of_pos_left hlt hres
      omega
    exact_mod_cast this

/-- one row -/
theorem fillRow_total {res : Int} {nf : Bool} {row : List Cell} (hres : 0 < res) (hgrid : GridRow res row)
    (hctor : ∀ o ∈ row, ∀ l ∈ row, ∀ x : Int, o.devLag < ((x : Int) : Rat) → ((x : Int) : Rat) < l.devLag →
      ({ o with ev := addMonths o.pe ((x : Int) : Rat) } : Cell).datesOk = true) :
    ∃ cells, fillRow res nf row = .ok cells := by
  unfold fillRow
  by_cases hr : row.isEmpty = true
  · exact ⟨[], by simp only [hr, if_true]; rfl⟩
  · have hne : ¬ ((res == 0) = true) := by simp; omega
    obtain ⟨hpred, hbound⟩ := newLags_grid hres hgrid
    obtain ⟨d, hd⟩ := fill_loop_ok (nf := nf) hres hpred
      (fun o ho x hx hlt => by
        obtain ⟨l, hl, hxl⟩ := hbound x hx
        exact hctor o ho l hl x hlt hxl)
      (newLags res row) [] (lagDictOf row) (by simp) (tinv_init row)
    refine ⟨d.map (·.2), ?_⟩
    simp only [hr, Bool.false_eq_true, if_false, hne, hd, bind, Except.bind, pure, Except.pure]

/-- **totality of `fill_forward_gaps`**: on a class-consistent triangle, for a positive (given or inferred)
resolution on whose grid the lags of every slice row lie, the call returns as soon as no constructor call raises:
moving an observed cell to an integer lag strictly between its own lag and a lag of its row gives a valid cell. -/
theorem fillForwardGaps_total {t : List Cell} {res? : Option Int} {nf : Bool} {res : Int}
    (hk : kindsConsistent t = true) (hresv : resolvedRes t res? = some res) (hres : 0 < res)
    (hgrid : ∀ r ∈ slicePeriodRows t, GridRow res r.2)
    (hctor : ∀ o ∈ t, ∀ l ∈ t, rowKey l = rowKey o → ∀ x : Int, o.devLag < ((x : Int) : Rat) →
      ((x : Int) : Rat) < l.devLag → ({ o with ev := addMonths o.pe ((x : Int) : Rat) } : Cell).datesOk = true) :
    ∃ out, fillForwardGaps t res? nf = .ok out := by
  have hrows : ∀ r ∈ slicePeriodRows t, ∃ ys, fillRow res nf r.2 = .ok ys := by
    intro r hr
    apply fillRow_total hres (hgrid r hr)
    intro o ho l hl x h1 h2
    obtain ⟨hot, hok⟩ := (mem_row_iff hr o).mp ho
    obtain ⟨hlt, hlk⟩ := (mem_row_iff hr l).mp hl
    exact hctor o hot l hlt (sliceKey_eq_iff.mp (hlk.trans hok.symm)) x h1 h2
  obtain ⟨parts, hparts⟩ := mapM_ok_of_forall (slicePeriodRows t) hrows
  have hkinds : ∀ c ∈ parts.flatten, ∃ o ∈ t, c.kind = o.kind := by
    intro c hc
    obtain ⟨ys, hys, hcy⟩ := List.mem_flatten.mp hc
    obtain ⟨r, hr, hfr⟩ := mapM_ok_mem hparts ys hys
    rcases fillRow_ok hfr with ⟨rfl, _⟩ | ⟨d, hd, rfl⟩
    · cases hcy
    · obtain ⟨p, hp, rfl⟩ := List.mem_map.mp hcy
      rcases (fillRow_loose hd).2 p hp with ⟨h1, _⟩ | ⟨o, ho, _, _, _, h2, _⟩
      · exact ⟨p.2, ((mem_row_iff hr p.2).mp h1).1, rfl⟩
      · refine ⟨o, ((mem_row_iff hr o).mp ho).1, ?_⟩
        rw [h2]; cases nf <;> rfl
  obtain ⟨out, hout⟩ := ofCells_ok (kindsConsistent_of_kinds hkinds hk)
  refine ⟨out, ?_⟩
  unfold fillForwardGaps
  by_cases hrE : (slicePeriodRows t).isEmpty = true
  · have : slicePeriodRows t = [] := by simpa using hrE
    rw [this] at hparts
    simp only [List.mapM_nil, pure, Except.pure] at hparts
    cases hparts
    simp only [hrE, if_true]
    simpa using hout
  · cases res? with
    | some r =>
      simp only [resolvedRes, Option.some.injEq] at hresv; subst hresv
      simp only [hrE, Bool.false_eq_true, if_false, bind, Except.bind, pure, Except.pure, hparts, hout]
    | none =>
      simp only [resolvedRes] at hresv
      simp only [hrE, Bool.false_eq_true, if_false, bind, Except.bind, pure, Except.pure, hresv, hparts, hout]

end Bermuda.Extend
