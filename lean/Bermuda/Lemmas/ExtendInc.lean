/-
Lemmas for the incremental path of `make_right_triangle` / `make_right_diagonal` (C15):
structure of `to_incremental` on the new cells, the edge cells of `_fix_prev_evaluation_date`, the chain.
-/
import Bermuda.Lemmas.Extend
namespace Bermuda.Extend
open Bermuda Std

/-! ### structure of `to_incremental` on one row -/

/-- the incremental cell between two consecutive cumulative cells `a`, `b` of row `k` -/
def pairCell (k : RowKey) (a b : Cell) (v : Dict Val) : Cell :=
  { kind := .incremental, ps := k.1.1, pe := k.1.2, prev := some a.ev, ev := b.ev, md := k.2, values := v }

/-- the first incremental cell of row `k` -/
def firstCell (k : RowKey) (c0 : Cell) : Cell :=
  { kind := .incremental, ps := k.1.1, pe := k.1.2, prev := some k.1.1.pred, ev := c0.ev, md := k.2,
    values := c0.values }

theorem incPairs_mem (k : RowKey) : ∀ (rest : List Cell) (p : Cell) (ds : List Cell),
    incPairs k p rest = .ok ds →
    ∀ d ∈ ds, ∃ l1 a b l2 v, p :: rest = l1 ++ a :: b :: l2 ∧ valuesDiff a.values b.values = .ok v ∧
      d = pairCell k a b v ∧ a.ev < b.ev
  | [], p, ds, h => by
    simp only [incPairs] at h; cases h; simp
  | n :: rest, p, ds, h => by
    simp only [incPairs, bind, Except.bind] at h
    split at h
    · cases h
    · rename_i v hv
      split at h
      · cases h
      · rename_i c hc
        split at h
        · cases h
        · rename_i cs hcs
          simp only [pure, Except.pure] at h
          cases h
          obtain ⟨rfl, hd⟩ := mk?_ok hc
          intro d hd'
          rcases List.mem_cons.mp hd' with rfl | hd'
          · refine ⟨[], p, n, rest, v, rfl, hv, rfl, ?_⟩
            simp only [Cell.datesOk, Bool.and_eq_true, decide_eq_true_eq] at hd
            exact hd.2
          · obtain ⟨l1, a, b, l2, v', hl, hv', rfl, hlt⟩ := incPairs_mem k rest n cs hcs d hd'
            exact ⟨p :: l1, a, b, l2, v', by rw [hl]; rfl, hv', rfl, hlt⟩

/-- conversely every consecutive pair of the row yields a cell -/
theorem incPairs_cover (k : RowKey) : ∀ (rest : List Cell) (p : Cell) (ds : List Cell),
    incPairs k p rest = .ok ds →
    ∀ l1 a b l2, p :: rest = l1 ++ a :: b :: l2 → ∃ v, pairCell k a b v ∈ ds
  | [], p, ds, _, l1, a, b, l2, hl => by
    have := congrArg List.length hl
    simp at this; omega
  | n :: rest, p, ds, h, l1, a, b, l2, hl => by
    simp only [incPairs, bind, Except.bind] at h
    split at h
    · cases h
    · rename_i v hv
      split at h
      · cases h
      · rename_i c hc
        split at h
        · cases h
        · rename_i cs hcs
          simp only [pure, Except.pure] at h
          cases h
          obtain ⟨rfl, _⟩ := mk?_ok hc
          cases l1 with
          | nil =>
            simp only [List.nil_append, List.cons.injEq] at hl
            obtain ⟨rfl, rfl, _⟩ := hl
            exact ⟨v, by simp [pairCell]⟩
          | cons x l1' =>
            simp only [List.cons_append, List.cons.injEq] at hl
            obtain ⟨v', hv'⟩ := incPairs_cover k rest n cs hcs l1' a b l2 hl.2
            exact ⟨v', List.mem_cons_of_mem _ hv'⟩

theorem incRow_ok {k : RowKey} {cells ds : List Cell} (h : incRow k cells = .ok ds) :
    (cells = [] ∧ ds = []) ∨
    ∃ c0 rest pairs, cells = c0 :: rest ∧ incPairs k c0 rest = .ok pairs ∧ ds = firstCell k c0 :: pairs ∧
      (firstCell k c0).datesOk = true := by
  unfold incRow at h
  split at h
  · cases h; exact Or.inl ⟨rfl, rfl⟩
  · rename_i c0 rest
    simp only [bind, Except.bind] at h
    split at h
    · cases h
    · rename_i f hf
      split at h
      · cases h
      · rename_i pairs hp
        simp only [pure, Except.pure] at h
        cases h
        obtain ⟨rfl, hd⟩ := mk?_ok hf
        exact Or.inr ⟨c0, rest, pairs, rfl, hp, rfl, hd⟩


/-! ### rows of a triangle (`orderedRows`) -/

theorem orderedRows_spec {t : List Cell} {p : RowKey × List Cell} (hp : p ∈ orderedRows t) :
    (∀ c, c ∈ p.2 ↔ c ∈ t ∧ rowKey c = p.1) ∧ p.2.Pairwise (fun a b => leOf Cell.cmp a b) := by
  unfold orderedRows at hp
  obtain ⟨q, hq, rfl⟩ := List.mem_map.mp hp
  have hinv := groupBy_inv rowKey t
  refine ⟨?_, sorted_mergeSort (cmp := Cell.cmp) q.2⟩
  intro c
  simp only
  rw [(List.mergeSort_perm _ _).mem_iff, hinv.content q hq, List.mem_filter]
  simp

theorem orderedRows_key_unique {t : List Cell} {p q : RowKey × List Cell} (hp : p ∈ orderedRows t)
    (hq : q ∈ orderedRows t) (h : p.1 = q.1) : p = q := by
  unfold orderedRows at hp hq
  obtain ⟨p', hp', rfl⟩ := List.mem_map.mp hp
  obtain ⟨q', hq', rfl⟩ := List.mem_map.mp hq
  have hnd := (groupBy_inv rowKey t).nodup
  have : p' = q' := by
    have hinj := List.inj_on_of_nodup_map hnd
    exact hinj hp' hq' h
  rw [this]

theorem orderedRows_cover {t : List Cell} {c : Cell} (hc : c ∈ t) :
    ∃ p ∈ orderedRows t, p.1 = rowKey c ∧ c ∈ p.2 := by
  obtain ⟨q, hq, hk⟩ := (groupBy_inv rowKey t).covers c hc
  refine ⟨(q.1, q.2.mergeSort Cell.le), ?_, hk, ?_⟩
  · unfold orderedRows; exact List.mem_map.mpr ⟨q, hq, rfl⟩
  · rw [(List.mergeSort_perm _ _).mem_iff, (groupBy_inv rowKey t).content q hq, List.mem_filter]
    exact ⟨hc, by simp [hk]⟩

/-- `to_incremental` on a non-incremental triangle: the rows converted one by one, then sorted -/
theorem toIncremental_ok {right inc : List Cell} (hni : Triangle.isIncremental right = false)
    (h : Triangle.toIncremental right = .ok inc) :
    ∃ parts, (orderedRows right).mapM (fun p => incRow p.1 p.2) = .ok parts ∧ inc.Perm parts.flatten := by
  unfold Triangle.toIncremental at h
  simp only [hni, Bool.false_eq_true, if_false] at h
  unfold overRows at h
  cases hm : (orderedRows right).mapM (fun p => incRow p.1 p.2) with
  | error e => simp [hm, Except.map, Except.bind] at h
  | ok parts =>
    simp only [hm, Except.map, Except.bind] at h
    exact ⟨parts, rfl, Properties.C01.ofCells_perm h⟩

/-- the two kinds of cells of `to_incremental right` -/
def IsFirst (right : List Cell) (d : Cell) : Prop :=
  ∃ p ∈ orderedRows right, ∃ c0 rest, p.2 = c0 :: rest ∧ d = firstCell p.1 c0

def IsPair (right : List Cell) (d : Cell) : Prop :=
  ∃ p ∈ orderedRows right, ∃ l1 a b l2 v, p.2 = l1 ++ a :: b :: l2 ∧
    valuesDiff a.values b.values = .ok v ∧ d = pairCell p.1 a b v ∧ a.ev < b.ev

theorem inc_cells {right inc : List Cell} (hni : Triangle.isIncremental right = false)
    (h : Triangle.toIncremental right = .ok inc) :
    (∀ d ∈ inc, IsFirst right d ∨ IsPair right d) ∧ (∀ d, IsFirst right d → d ∈ inc) := by
  obtain ⟨parts, hparts, hperm⟩ := toIncremental_ok hni h
  constructor
  · intro d hd
    obtain ⟨ds, hds, hdd⟩ := List.mem_flatten.mp (hperm.mem_iff.mp hd)
    obtain ⟨p, hp, hrow⟩ := mapM_ok_mem hparts ds hds
    rcases incRow_ok hrow with ⟨_, rfl⟩ | ⟨c0, rest, pairs, hcells, hpairs, rfl, _⟩
    · cases hdd
    · rcases List.mem_cons.mp hdd with rfl | hdp
      · exact Or.inl ⟨p, hp, c0, rest, hcells, rfl⟩
      · obtain ⟨l1, a, b, l2, v, hl, hv, rfl, hlt⟩ := incPairs_mem p.1 rest c0 pairs hpairs d hdp
        exact Or.inr ⟨p, hp, l1, a, b, l2, v, by rw [hcells, hl], hv, rfl, hlt⟩
  · rintro d ⟨p, hp, c0, rest, hcells, rfl⟩
    obtain ⟨ds, hds, hrow⟩ := mapM_ok_mem' hparts p hp
    rcases incRow_ok hrow with ⟨hnil, _⟩ | ⟨c0', rest', pairs, hcells', _, rfl, _⟩
    · rw [hcells] at hnil; cases hnil
    · rw [hcells] at hcells'; cases hcells'
      exact hperm.mem_iff.mpr (List.mem_flatten.mpr ⟨_, hds, by simp⟩)

/-! ### slices and period rows -/

theorem metasOf_fold (l : List Cell) (init : List Metadata) :
    (∀ m ∈ init, m ∈ l.foldl (fun acc c => if acc.contains c.md then acc else acc ++ [c.md]) init) ∧
    (∀ c ∈ l, c.md ∈ l.foldl (fun acc c => if acc.contains c.md then acc else acc ++ [c.md]) init) := by
  induction l generalizing init with
  | nil => exact ⟨fun m hm => hm, by simp⟩
  | cons a rest ih =>
    simp only [List.foldl_cons]
    obtain ⟨ih1, ih2⟩ := ih (if init.contains a.md then init else init ++ [a.md])
    constructor
    · intro m hm
      apply ih1
      split
      · exact hm
      · exact List.mem_append_left _ hm
    · intro c hc
      rcases List.mem_cons.mp hc with rfl | hc
      · apply ih1
        split
        · rename_i h; simpa using h
        · simp
      · exact ih2 c hc

theorem slices_cover {t : List Cell} {c : Cell} (hc : c ∈ t) :
    ∃ p ∈ Triangle.slices t, p.1 = c.md ∧ c ∈ p.2 := by
  have hm : c.md ∈ metasOf t := (metasOf_fold t []).2 c hc
  refine ⟨(c.md, (t.filter (·.md == c.md)).mergeSort Cell.le), ?_, rfl, ?_⟩
  · unfold Triangle.slices; exact List.mem_map.mpr ⟨c.md, hm, rfl⟩
  · rw [(List.mergeSort_perm _ _).mem_iff, List.mem_filter]; exact ⟨hc, by simp⟩

instance : TransCmp mdEvCmp := by unfold mdEvCmp; infer_instance

theorem periodRows_spec {s : List Cell} {q : Period × List Cell} (hq : q ∈ periodRows s) :
    (∀ c, c ∈ q.2 ↔ c ∈ s ∧ cellPeriod c = q.1) ∧ q.2.Pairwise (fun a b => leOf mdEvCmp a b) := by
  unfold periodRows at hq
  obtain ⟨p, _, rfl⟩ := List.mem_map.mp hq
  refine ⟨?_, sorted_mergeSort (cmp := mdEvCmp) _⟩
  intro c
  simp only
  rw [(List.mergeSort_perm _ _).mem_iff, List.mem_filter]
  simp

theorem periodRows_cover {s : List Cell} {c : Cell} (hc : c ∈ s) :
    ∃ q ∈ periodRows s, q.1 = cellPeriod c ∧ c ∈ q.2 := by
  have hp : cellPeriod c ∈ periods s := by
    unfold periods
    rw [(List.mergeSort_perm _ _).mem_iff, List.mem_eraseDups]
    exact List.mem_map_of_mem hc
  refine ⟨(cellPeriod c, _), List.mem_map.mpr ⟨cellPeriod c, hp, rfl⟩, rfl, ?_⟩
  rw [(List.mergeSort_perm _ _).mem_iff, List.mem_filter]
  exact ⟨hc, by simp⟩

theorem head?_min {α} {R : α → α → Prop} {l : List α} {h : α} (hp : l.Pairwise R)
    (hh : l.head? = some h) : ∀ x ∈ l, x = h ∨ R h x := by
  cases l with
  | nil => simp at hh
  | cons a rest =>
    simp at hh; subst hh
    intro x hx
    rcases List.mem_cons.mp hx with rfl | hx
    · exact Or.inl rfl
    · exact Or.inr ((List.pairwise_cons.mp hp).1 x hx)

/-- the `edge_cells` of `_fix_prev_evaluation_date` -/
def edgeCellsOf (inc : List Cell) : List Cell :=
  (Triangle.slices inc).flatMap fun (_, slc) => (periodRows slc).filterMap fun (_, row) => row.head?

/-- `e` is the head of its (slice, period) row of `inc`: it is in `inc`, and no cell of `inc` with the
same metadata and period has an earlier evaluation date -/
theorem edgeCellsOf_mem {inc : List Cell} {e : Cell} (he : e ∈ edgeCellsOf inc) :
    e ∈ inc ∧ ∀ x ∈ inc, x.md = e.md → cellPeriod x = cellPeriod e → Date.cmp e.ev x.ev ≠ .gt := by
  unfold edgeCellsOf at he
  obtain ⟨p, hp, he⟩ := List.mem_flatMap.mp he
  obtain ⟨q, hq, hhead⟩ := List.mem_filterMap.mp he
  obtain ⟨hrow, hsorted⟩ := periodRows_spec hq
  have heq : e ∈ q.2 := List.mem_of_head? hhead
  obtain ⟨hes, hep⟩ := (hrow e).mp heq
  obtain ⟨hei, hem⟩ := (slices_spec hp e).mp hes
  refine ⟨hei, ?_⟩
  intro x hx hmd hper
  have hxs : x ∈ p.2 := (slices_spec hp x).mpr ⟨hx, hmd.trans hem⟩
  have hxq : x ∈ q.2 := (hrow x).mpr ⟨hxs, hper.trans hep⟩
  rcases head?_min hsorted hhead x hxq with rfl | hle
  · rw [ReflCmp.compare_self (cmp := Date.cmp)]; simp
  · have : mdEvCmp e x ≠ .gt := by simpa [leOf] using hle
    revert this
    simp only [mdEvCmp, compareLex, cmpOn, hmd]
    rw [ReflCmp.compare_self (cmp := Metadata.cmp)]
    simp

/-- every (metadata, period) group of `inc` has its head among the edge cells -/
theorem edgeCellsOf_cover {inc : List Cell} {d : Cell} (hd : d ∈ inc) :
    ∃ e ∈ edgeCellsOf inc, e.md = d.md ∧ cellPeriod e = cellPeriod d := by
  obtain ⟨p, hp, hpm, hdp⟩ := slices_cover hd
  obtain ⟨q, hq, hqp, hdq⟩ := periodRows_cover hdp
  cases hh : q.2.head? with
  | none =>
    have : q.2 = [] := by simpa using hh
    rw [this] at hdq; cases hdq
  | some e =>
    have heq : e ∈ q.2 := List.mem_of_head? hh
    obtain ⟨hrow, _⟩ := periodRows_spec hq
    obtain ⟨hes, hep⟩ := (hrow e).mp heq
    obtain ⟨_, hem⟩ := (slices_spec hp e).mp hes
    refine ⟨e, ?_, hem.trans hpm, hep.trans hqp⟩
    unfold edgeCellsOf
    exact List.mem_flatMap.mpr ⟨p, hp, List.mem_filterMap.mpr ⟨q, hq, hh⟩⟩

/-! ### the edge cells are exactly the first cells of the rows -/

theorem rowKey_firstCell (k : RowKey) (c0 : Cell) : rowKey (firstCell k c0) = k := rfl
theorem rowKey_pairCell (k : RowKey) (a b : Cell) (v : Dict Val) : rowKey (pairCell k a b v) = k := rfl

theorem row_head_min {right : List Cell} (hprev : ∀ n ∈ right, n.prev = none)
    {p : RowKey × List Cell} (hp : p ∈ orderedRows right) {c0 : Cell} {rest : List Cell}
    (hcells : p.2 = c0 :: rest) : ∀ x ∈ p.2, Date.cmp c0.ev x.ev ≠ .gt := by
  obtain ⟨hmem, hsorted⟩ := orderedRows_spec hp
  intro x hx
  have hc0 : c0 ∈ p.2 := by rw [hcells]; simp
  have hk : rowKey c0 = rowKey x := ((hmem c0).mp hc0).2.trans ((hmem x).mp hx).2.symm
  have hle : leOf Cell.cmp c0 x = true ∨ x = c0 := by
    rw [hcells] at hsorted hx
    rcases List.mem_cons.mp hx with rfl | hx
    · exact Or.inr rfl
    · exact Or.inl ((List.pairwise_cons.mp hsorted).1 x hx)
  rcases hle with hle | rfl
  · have h1 := hprev c0 ((hmem c0).mp hc0).1
    have h2 := hprev x ((hmem x).mp hx).1
    unfold leOf at hle
    rw [cmp_row hk, h1, h2] at hle
    intro hgt
    rw [hgt] at hle
    simp [Ordering.then] at hle
  · rw [ReflCmp.compare_self (cmp := Date.cmp)]; simp

theorem edge_isFirst {right inc : List Cell} (hni : Triangle.isIncremental right = false)
    (hprev : ∀ n ∈ right, n.prev = none) (h : Triangle.toIncremental right = .ok inc)
    {e : Cell} (he : e ∈ edgeCellsOf inc) : IsFirst right e := by
  obtain ⟨hcls, hfirst⟩ := inc_cells hni h
  obtain ⟨hei, hmin⟩ := edgeCellsOf_mem he
  rcases hcls e hei with hf | ⟨p, hp, l1, a, b, l2, v, hcells, _, rfl, hlt⟩
  · exact hf
  · exfalso
    -- the row is non-empty: its first cell precedes `b`
    obtain ⟨c0, rest, hc⟩ : ∃ c0 rest, p.2 = c0 :: rest := by
      cases hp2 : p.2 with
      | nil => rw [hp2] at hcells; cases l1 <;> simp at hcells
      | cons c0 rest => exact ⟨c0, rest, rfl⟩
    have hfi : firstCell p.1 c0 ∈ inc := hfirst _ ⟨p, hp, c0, rest, hc, rfl⟩
    have h1 := hmin _ hfi rfl rfl
    have ha : a ∈ p.2 := by rw [hcells]; simp
    have h2 := row_head_min hprev hp hc a ha
    -- b.ev ≤ c0.ev ≤ a.ev < b.ev
    simp only [pairCell, firstCell] at h1
    rw [Date.not_gt_iff] at h1 h2
    rw [Date.lt_iff] at h1 h2 hlt
    omega

theorem first_isEdge {right inc : List Cell} (hni : Triangle.isIncremental right = false)
    (hprev : ∀ n ∈ right, n.prev = none) (h : Triangle.toIncremental right = .ok inc)
    {d : Cell} (hd : IsFirst right d) : d ∈ edgeCellsOf inc := by
  obtain ⟨_, hfirst⟩ := inc_cells hni h
  have hdi := hfirst d hd
  obtain ⟨e, he, hem, hep⟩ := edgeCellsOf_cover hdi
  obtain ⟨p', hp', c0', rest', hc', rfl⟩ := edge_isFirst hni hprev h he
  obtain ⟨p, hp, c0, rest, hc, rfl⟩ := hd
  have hk : p'.1 = p.1 := by
    have h1 : p'.1.2 = p.1.2 := hem
    have h2 : p'.1.1 = p.1.1 := by
      simp only [cellPeriod, firstCell, Prod.mk.injEq] at hep
      exact Prod.ext hep.1 hep.2
    exact Prod.ext h2 h1
  have := orderedRows_key_unique hp' hp hk
  subst this
  rw [hc] at hc'; cases hc'
  exact he

/-! ### `_fix_prev_evaluation_date` and the incremental tail of the right-hand operators -/

theorem le_ev {x y : Cell} (hk : rowKey x = rowKey y) (hx : x.prev = none) (hy : y.prev = none)
    (hle : leOf Cell.cmp x y = true) : Date.cmp x.ev y.ev ≠ .gt := by
  unfold leOf at hle
  rw [cmp_row hk, hx, hy] at hle
  intro hgt
  rw [hgt] at hle
  simp [Ordering.then] at hle

theorem fixPrev_ok {t inc out : List Cell} (h : fixPrevEvaluationDate t inc = .ok out) :
    ∃ obs fixed, Triangle.rightEdge t = .ok obs ∧
      out.Perm ((inc.filter fun c => !(edgeCellsOf inc).contains c) ++ fixed) ∧
      ∀ y ∈ fixed, ∃ cell ∈ obs, ∃ ob ∈ edgeCellsOf inc, cellPeriod ob = cellPeriod cell ∧
        ob.md = cell.md ∧ y = { ob with prev := some cell.ev } := by
  unfold fixPrevEvaluationDate at h
  simp only [bind, Except.bind] at h
  split at h
  · cases h
  · rename_i obs hobs
    split at h
    · cases h
    · rename_i fixed hfixed
      refine ⟨obs, fixed, hobs, Properties.C01.ofCells_perm h, ?_⟩
      intro y hy
      obtain ⟨x, hx, hxy⟩ := mapM_ok_mem hfixed y hy
      obtain ⟨rfl, _⟩ := mk?_ok hxy
      obtain ⟨cell, hcell, hx⟩ := List.mem_flatMap.mp hx
      obtain ⟨ob, hob, rfl⟩ := List.mem_map.mp hx
      obtain ⟨hob1, hob2⟩ := List.mem_filter.mp hob
      simp only [Bool.and_eq_true, beq_iff_eq] at hob2
      exact ⟨cell, hcell, ob, hob1, hob2.1, hob2.2, rfl⟩

/-- what an added cell of an incremental result looks like: an empty incremental cell at the coordinate
of a new cumulative cell, whose previous evaluation date is either the observed right edge of its row
(and then it is the earliest added cell of the row) or the evaluation date of the added cell just
before it in the row -/
def ChainCell (t new : List Cell) (c : Cell) : Prop :=
  c.kind = .incremental ∧ c.values = [] ∧
  ((∃ obs e, Triangle.rightEdge t = .ok obs ∧ e ∈ obs ∧ e.md = c.md ∧ cellPeriod e = cellPeriod c ∧
      c.prev = some e.ev ∧ (∃ n ∈ new, rowKey n = rowKey c ∧ n.ev = c.ev) ∧
      ∀ n' ∈ new, rowKey n' = rowKey c → Date.cmp c.ev n'.ev ≠ .gt) ∨
   (∃ a ∈ new, ∃ b ∈ new, rowKey a = rowKey c ∧ rowKey b = rowKey c ∧ c.prev = some a.ev ∧
      c.ev = b.ev ∧ a.ev < b.ev ∧
      ∀ n' ∈ new, rowKey n' = rowKey c → ¬ (a.ev < n'.ev ∧ n'.ev < b.ev)))

theorem valuesDiff_nil {v : Dict Val} (h : valuesDiff [] [] = .ok v) : v = [] := by
  simp [valuesDiff, sameKeys, Dict.keys, pure, Except.pure] at h
  exact h

theorem finishRight_inc {t new out : List Cell} (hinc : Triangle.isIncremental t = true)
    (hnew : ∀ n ∈ new, n.kind = .cumulative ∧ n.values = [] ∧ n.prev = none)
    (h : finishRight t new = .ok out) : ∀ c ∈ out, ChainCell t new c := by
  unfold finishRight at h
  simp only [bind, Except.bind, hinc, if_true] at h
  split at h
  · cases h
  · rename_i right hright
    split at h
    · cases h
    · rename_i inc hincr
      have hperm := Properties.C01.ofCells_perm hright
      have hr : ∀ n ∈ right, n.kind = .cumulative ∧ n.values = [] ∧ n.prev = none :=
        fun n hn => hnew n (hperm.mem_iff.mp hn)
      have hni : Triangle.isIncremental right = false :=
        not_isIncremental_of_all (fun c hc => by rw [(hr c hc).1]; simp)
      have hprev : ∀ n ∈ right, n.prev = none := fun n hn => (hr n hn).2.2
      obtain ⟨hcls, _⟩ := inc_cells hni hincr
      obtain ⟨obs, fixed, hobs, hout, hfixed⟩ := fixPrev_ok h
      -- facts about a first cell
      have first_fact : ∀ p ∈ orderedRows right, ∀ c0 rest, p.2 = c0 :: rest →
          (∃ n ∈ new, rowKey n = p.1 ∧ n.ev = c0.ev) ∧ c0.values = [] ∧
          ∀ n' ∈ new, rowKey n' = p.1 → Date.cmp c0.ev n'.ev ≠ .gt := by
        intro p hp c0 rest hc
        obtain ⟨hmem, _⟩ := orderedRows_spec hp
        have hc0 : c0 ∈ p.2 := by rw [hc]; simp
        obtain ⟨hc0r, hc0k⟩ := (hmem c0).mp hc0
        refine ⟨⟨c0, hperm.mem_iff.mp hc0r, hc0k, rfl⟩, (hr c0 hc0r).2.1, ?_⟩
        intro n' hn' hk
        exact row_head_min hprev hp hc n' ((hmem n').mpr ⟨hperm.mem_iff.mpr hn', hk⟩)
      intro c hc
      rcases List.mem_append.mp (hout.mem_iff.mp hc) with hcf | hcf
      · -- an unfixed cell: not an edge cell, hence a pair cell
        obtain ⟨hci, hne⟩ := List.mem_filter.mp hcf
        have hnotfirst : ¬ IsFirst right c := by
          intro hf
          have := first_isEdge hni hprev hincr hf
          simp only [Bool.not_eq_true', List.contains_eq_mem, decide_eq_false_iff_not] at hne
          exact hne this
        rcases hcls c hci with hf | ⟨p, hp, l1, a, b, l2, v, hcells, hv, rfl, hlt⟩
        · exact absurd hf hnotfirst
        · obtain ⟨hmem, hsorted⟩ := orderedRows_spec hp
          have ha : a ∈ p.2 := by rw [hcells]; simp
          have hb : b ∈ p.2 := by rw [hcells]; simp
          obtain ⟨har, hak⟩ := (hmem a).mp ha
          obtain ⟨hbr, hbk⟩ := (hmem b).mp hb
          have hv' : v = [] := by
            rw [(hr a har).2.1, (hr b hbr).2.1] at hv; exact valuesDiff_nil hv
          refine ⟨rfl, hv', Or.inr ⟨a, hperm.mem_iff.mp har, b, hperm.mem_iff.mp hbr, hak, hbk, rfl, rfl, hlt, ?_⟩⟩
          intro n' hn' hk ⟨h1, h2⟩
          have hn'p : n' ∈ p.2 := (hmem n').mpr ⟨hperm.mem_iff.mpr hn', hk⟩
          have hn'r := ((hmem n').mp hn'p).1
          rw [hcells] at hn'p hsorted
          obtain ⟨_, hs2, hs12⟩ := List.pairwise_append.mp hsorted
          rcases List.mem_append.mp hn'p with hin | hin
          · have hle := hs12 n' hin a (by simp)
            have := le_ev (hk.trans hak.symm) (hprev n' hn'r) (hprev a har) hle
            rw [Date.not_gt_iff] at this; exact this h1
          · rcases List.mem_cons.mp hin with rfl | hin
            · rw [Date.lt_iff] at h1; omega
            · rcases List.mem_cons.mp hin with rfl | hin
              · rw [Date.lt_iff] at h2; omega
              · have hle := (List.pairwise_cons.mp (List.pairwise_cons.mp hs2).2).1 n' hin
                have := le_ev (hbk.trans hk.symm) (hprev b hbr) (hprev n' hn'r) hle
                rw [Date.not_gt_iff] at this; exact this h2
      · -- a fixed edge cell
        obtain ⟨cell, hcell, ob, hob, hper, hmd, rfl⟩ := hfixed c hcf
        obtain ⟨p, hp, c0, rest, hcells, rfl⟩ := edge_isFirst hni hprev hincr hob
        obtain ⟨hn, hvals, hmin⟩ := first_fact p hp c0 rest hcells
        exact ⟨rfl, hvals, Or.inl ⟨obs, cell, hobs, hcell, hmd.symm, hper.symm, rfl, hn, hmin⟩⟩
/-! ### unfolding the two operators on an incremental input -/

theorem makeRightTriangle_inc {t out : List Cell} {lags : Option (List Rat)} {u? : Option LagUnit}
    (hinc : Triangle.isIncremental t = true) (h : makeRightTriangleU t lags u? = .ok out) :
    ∃ cum new, Triangle.toCumulative t = .ok cum ∧ rightTriangleCells cum lags u? = .ok new ∧
      finishRight t new = .ok out := by
  unfold makeRightTriangleU at h
  simp only [hinc, if_true, bind, Except.bind] at h
  split at h
  · cases h
  · rename_i cum hcum
    split at h
    · cases h
    · rename_i new hnew
      exact ⟨cum, new, hcum, hnew, h⟩

theorem makeRightDiagonal_inc {t out : List Cell} {dates : List Date} {hist : Bool}
    (hinc : Triangle.isIncremental t = true) (h : makeRightDiagonal t dates hist = .ok out) :
    ∃ cum new, Triangle.toCumulative t = .ok cum ∧ rightDiagonalCells cum dates hist = .ok new ∧
      finishRight t new = .ok out := by
  unfold makeRightDiagonal at h
  simp only [hinc, if_true, bind, Except.bind] at h
  split at h
  · cases h
  · rename_i cum hcum
    split at h
    · cases h
    · rename_i new hnew
      exact ⟨cum, new, hcum, hnew, h⟩

theorem RightTriCell.empty {t : List Cell} {lags : Option (List Rat)} {u : LagUnit} {c : Cell}
    (h : RightTriCell t lags u c) : c.kind = .cumulative ∧ c.values = [] ∧ c.prev = none := by
  obtain ⟨_, _, _, _, _, _, _, _, _, _, _, rfl⟩ := h
  exact ⟨rfl, rfl, rfl⟩

theorem RightDiagCell.empty {t : List Cell} {dates : List Date} {hist : Bool} {c : Cell}
    (h : RightDiagCell t dates hist c) : c.kind = .cumulative ∧ c.values = [] ∧ c.prev = none := by
  obtain ⟨_, _, _, _, _, _, _, _, _, rfl⟩ := h
  exact ⟨rfl, rfl, rfl⟩

end Bermuda.Extend
