/-
C15, incremental input: relation between an incremental triangle and its cumulative form, coverage of
the new cells by the result, reduction of the incremental case to the cumulative triangle.
-/
import Bermuda.Lemmas.ExtendInc
namespace Bermuda.Extend
open Bermuda Std

/-! ### `to_cumulative` keeps rows and evaluation dates -/

theorem cumPairs_evs (k : RowKey) : ∀ (rest : List Cell) (ev : Date) (vals : Dict Val) (cs : List Cell),
    cumPairs k ev vals rest = .ok cs →
    cs.map (·.ev) = rest.map (·.ev) ∧ ∀ c ∈ cs, rowKey c = k ∧ c.kind = .cumulative
  | [], _, _, cs, h => by simp only [cumPairs] at h; cases h; simp
  | c :: rest, ev, vals, cs, h => by
    simp only [cumPairs] at h
    split at h
    · cases h
    · simp only [bind, Except.bind] at h
      split at h
      · cases h
      · rename_i v hv
        split at h
        · cases h
        · rename_i cell hcell
          split at h
          · cases h
          · rename_i cs' hcs'
            simp only [pure, Except.pure] at h
            cases h
            obtain ⟨rfl, _⟩ := mk?_ok hcell
            obtain ⟨h1, h2⟩ := cumPairs_evs k rest c.ev v cs' hcs'
            refine ⟨by simp [h1], ?_⟩
            intro x hx
            rcases List.mem_cons.mp hx with rfl | hx
            · exact ⟨rfl, rfl⟩
            · exact h2 x hx

theorem cumRow_evs {k : RowKey} {cells ds : List Cell} (h : cumRow k cells = .ok ds) :
    ds.map (·.ev) = cells.map (·.ev) ∧ ∀ c ∈ ds, rowKey c = k ∧ c.kind = .cumulative := by
  unfold cumRow at h
  split at h
  · cases h; simp
  · rename_i c0 rest
    split at h
    · cases h
    · simp only [bind, Except.bind] at h
      split at h
      · cases h
      · rename_i first hfirst
        split at h
        · cases h
        · rename_i others hothers
          simp only [pure, Except.pure] at h
          cases h
          obtain ⟨rfl, _⟩ := mk?_ok hfirst
          obtain ⟨h1, h2⟩ := cumPairs_evs k rest c0.ev c0.values others hothers
          refine ⟨by simp [h1], ?_⟩
          intro x hx
          rcases List.mem_cons.mp hx with rfl | hx
          · exact ⟨rfl, rfl⟩
          · exact h2 x hx

theorem toCumulative_cells {t cum : List Cell} (hinc : Triangle.isIncremental t = true)
    (h : Triangle.toCumulative t = .ok cum) :
    (∀ c ∈ cum, c.kind = .cumulative ∧ ∃ x ∈ t, rowKey x = rowKey c ∧ x.ev = c.ev) ∧
    (∀ x ∈ t, ∃ c ∈ cum, rowKey c = rowKey x ∧ c.ev = x.ev) := by
  unfold Triangle.toCumulative at h
  simp only [hinc, Bool.not_true, Bool.false_eq_true, if_false] at h
  unfold overRows at h
  cases hm : (orderedRows t).mapM (fun p => cumRow p.1 p.2) with
  | error e => simp [hm, Except.map, Except.bind] at h
  | ok parts =>
    simp only [hm, Except.map, Except.bind] at h
    have hperm := Properties.C01.ofCells_perm h
    constructor
    · intro c hc
      obtain ⟨ds, hds, hcd⟩ := List.mem_flatten.mp (hperm.mem_iff.mp hc)
      obtain ⟨p, hp, hrow⟩ := mapM_ok_mem hm ds hds
      obtain ⟨hevs, hkeys⟩ := cumRow_evs hrow
      obtain ⟨hk, hkind⟩ := hkeys c hcd
      refine ⟨hkind, ?_⟩
      have : c.ev ∈ p.2.map (·.ev) := by rw [← hevs]; exact List.mem_map_of_mem hcd
      obtain ⟨x, hx, hxe⟩ := List.mem_map.mp this
      obtain ⟨hxt, hxk⟩ := ((orderedRows_spec hp).1 x).mp hx
      exact ⟨x, hxt, hxk.trans hk.symm, hxe⟩
    · intro x hx
      obtain ⟨p, hp, hpk, hxp⟩ := orderedRows_cover hx
      obtain ⟨ds, hds, hrow⟩ := mapM_ok_mem' hm p hp
      obtain ⟨hevs, hkeys⟩ := cumRow_evs hrow
      have : x.ev ∈ ds.map (·.ev) := by rw [hevs]; exact List.mem_map_of_mem hxp
      obtain ⟨c, hc, hce⟩ := List.mem_map.mp this
      refine ⟨c, hperm.mem_iff.mpr (List.mem_flatten.mpr ⟨ds, hds, hc⟩), ?_, hce⟩
      exact (hkeys c hc).1.trans hpk

/-! ### the right edge covers every row -/

theorem rightEdge_cover {t obs : List Cell} (h : Triangle.rightEdge t = .ok obs) {x : Cell} (hx : x ∈ t) :
    ∃ e ∈ obs, e.md = x.md ∧ cellPeriod e = cellPeriod x := by
  unfold Triangle.rightEdge at h
  have hperm := Properties.C01.ofCells_perm h
  obtain ⟨p, hp, hpm, hxp⟩ := slices_cover hx
  have hinv := groupBy_inv (fun c : Cell => (c.ps, c.pe)) p.2
  obtain ⟨q, hq, hqk⟩ := hinv.covers x hxp
  have hxq : x ∈ q.2 := by
    rw [hinv.content q hq, List.mem_filter]; exact ⟨hxp, by simp [hqk]⟩
  have hne : (q.2.mergeSort (fun a b => Date.cmp a.ev b.ev != .gt)) ≠ [] := by
    intro hnil
    have := (List.mergeSort_perm q.2 (fun a b => Date.cmp a.ev b.ev != .gt)).mem_iff.mpr hxq
    rw [hnil] at this; cases this
  obtain ⟨e, he⟩ : ∃ e, lastBy? (fun a b : Cell => Date.cmp a.ev b.ev != .gt) q.2 = some e := by
    unfold lastBy?
    exact ⟨_, List.getLast?_eq_some_getLast hne⟩
  have heq : e ∈ q.2 := mem_of_lastBy? he
  have heq' := heq
  rw [hinv.content q hq, List.mem_filter] at heq'
  have hkey : (e.ps, e.pe) = q.1 := by simpa using heq'.2
  have hem : e.md = p.1 := ((slices_spec hp e).mp heq'.1).2
  refine ⟨e, ?_, hem.trans hpm, ?_⟩
  · apply hperm.mem_iff.mpr
    exact List.mem_flatMap.mpr ⟨p, hp, List.mem_filterMap.mpr ⟨q, hq, he⟩⟩
  · show (e.ps, e.pe) = (x.ps, x.pe)
    rw [hkey, hqk]


/-! ### coverage: every new cumulative cell has its incremental cell in the result -/

theorem fixPrev_cover {t inc out : List Cell} (h : fixPrevEvaluationDate t inc = .ok out) :
    ∃ obs, Triangle.rightEdge t = .ok obs ∧
      (∀ d ∈ inc, d ∉ edgeCellsOf inc → d ∈ out) ∧
      (∀ cell ∈ obs, ∀ ob ∈ edgeCellsOf inc, cellPeriod ob = cellPeriod cell → ob.md = cell.md →
        ({ ob with prev := some cell.ev } : Cell) ∈ out) := by
  unfold fixPrevEvaluationDate at h
  simp only [bind, Except.bind] at h
  split at h
  · cases h
  · rename_i obs hobs
    split at h
    · cases h
    · rename_i fixed hfixed
      have hperm := Properties.C01.ofCells_perm h
      refine ⟨obs, hobs, ?_, ?_⟩
      · intro d hd hne
        apply hperm.mem_iff.mpr
        apply List.mem_append_left
        apply List.mem_filter.mpr
        refine ⟨hd, ?_⟩
        simp only [Bool.not_eq_true', List.contains_eq_mem, decide_eq_false_iff_not]
        exact hne
      · intro cell hcell ob hob hper hmd
        have hx : ({ ob with prev := some cell.ev } : Cell) ∈
            obs.flatMap fun cell => ((edgeCellsOf inc).filter fun ob =>
              cellPeriod ob == cellPeriod cell && ob.md == cell.md).map fun ob =>
                { ob with prev := some cell.ev } := by
          apply List.mem_flatMap.mpr
          refine ⟨cell, hcell, List.mem_map.mpr ⟨ob, List.mem_filter.mpr ⟨hob, ?_⟩, rfl⟩⟩
          simp [hper, hmd]
        obtain ⟨y, hy, hxy⟩ := mapM_ok_mem' hfixed _ hx
        obtain ⟨rfl, _⟩ := mk?_ok hxy
        exact hperm.mem_iff.mpr (List.mem_append_right _ hy)

theorem split_before {α} {c0 n : α} {rest : List α} (hn : n ∈ rest) :
    ∃ l1 a l2, c0 :: rest = l1 ++ a :: n :: l2 := by
  obtain ⟨s, t, rfl⟩ := List.append_of_mem hn
  have hne : c0 :: s ≠ [] := by simp
  refine ⟨(c0 :: s).dropLast, (c0 :: s).getLast hne, t, ?_⟩
  have := List.dropLast_append_getLast hne
  calc c0 :: (s ++ n :: t) = (c0 :: s) ++ n :: t := rfl
    _ = ((c0 :: s).dropLast ++ [(c0 :: s).getLast hne]) ++ n :: t := by rw [this]
    _ = _ := by simp

theorem finishRight_inc_cover {t new out : List Cell} (hinc : Triangle.isIncremental t = true)
    (hnew : ∀ n ∈ new, n.kind = .cumulative ∧ n.values = [] ∧ n.prev = none)
    (hrows : ∀ n ∈ new, ∃ x ∈ t, x.md = n.md ∧ cellPeriod x = cellPeriod n)
    (h : finishRight t new = .ok out) :
    ∀ n ∈ new, ∃ c ∈ out, rowKey c = rowKey n ∧ c.ev = n.ev := by
  unfold finishRight at h
  simp only [bind, Except.bind, hinc, if_true] at h
  split at h
  · cases h
  · rename_i right hright
    split at h
    · cases h
    · rename_i inc hincr
      have hperm := Properties.C01.ofCells_perm hright
      have hr : ∀ n ∈ right, n.kind = .cumulative ∧ n.values = [] ∧ n.prev = none :=
        fun n hn => hnew n (hperm.mem_iff.mp hn)
      have hni : Triangle.isIncremental right = false :=
        not_isIncremental_of_all (fun c hc => by rw [(hr c hc).1]; simp)
      obtain ⟨parts, hparts, hpi⟩ := toIncremental_ok hni hincr
      obtain ⟨obs, hobs, hkeep, hfix⟩ := fixPrev_cover h
      intro n hn
      obtain ⟨p, hp, hpk, hnp⟩ := orderedRows_cover (hperm.mem_iff.mpr hn)
      obtain ⟨ds, hds, hrow⟩ := mapM_ok_mem' hparts p hp
      -- the incremental cell of `n` in `inc`
      obtain ⟨d, hd, hdk, hde⟩ : ∃ d ∈ inc, rowKey d = rowKey n ∧ d.ev = n.ev := by
        rcases incRow_ok hrow with ⟨hnil, _⟩ | ⟨c0, rest, pairs, hcells, hpairs, rfl, _⟩
        · rw [hnil] at hnp; cases hnp
        · rw [hcells] at hnp
          rcases List.mem_cons.mp hnp with rfl | hnr
          · exact ⟨firstCell p.1 n, hpi.mem_iff.mpr (List.mem_flatten.mpr ⟨_, hds, by simp⟩), hpk, rfl⟩
          · obtain ⟨l1, a, l2, hl⟩ := split_before (c0 := c0) hnr
            obtain ⟨v, hv⟩ := incPairs_cover p.1 rest c0 pairs hpairs l1 a n l2 hl
            exact ⟨pairCell p.1 a n v,
              hpi.mem_iff.mpr (List.mem_flatten.mpr ⟨_, hds, List.mem_cons_of_mem _ hv⟩), hpk, rfl⟩
      by_cases hedge : d ∈ edgeCellsOf inc
      · obtain ⟨x, hx, hxm, hxp⟩ := hrows n hn
        obtain ⟨e, he, hem, hep⟩ := rightEdge_cover hobs hx
        have hdmd : d.md = n.md := by
          have := congrArg (·.2) hdk; simpa [rowKey] using this
        have hdper : cellPeriod d = cellPeriod n := by
          have := congrArg (·.1) hdk; simpa [rowKey, cellPeriod] using this
        refine ⟨_, hfix e he d hedge (hdper.trans (hxp.symm.trans hep.symm)) (hdmd.trans (hxm.symm.trans hem.symm)), ?_, hde⟩
        exact hdk
      · exact ⟨d, hkeep d hd hedge, hdk, hde⟩

/-! ### reduction of the incremental case to the cumulative triangle -/

theorem finishRight_right {t new out : List Cell} (h : finishRight t new = .ok out) :
    ∃ right, Triangle.ofCells new = .ok right := by
  unfold finishRight at h
  simp only [bind, Except.bind] at h
  split at h
  · cases h
  · rename_i right hr; exact ⟨right, hr⟩

theorem finishRight_of_cum {cum new right : List Cell} (hni : Triangle.isIncremental cum = false)
    (hr : Triangle.ofCells new = .ok right) : finishRight cum new = .ok right := by
  unfold finishRight
  simp [bind, Except.bind, hr, hni, pure, Except.pure]

/-- on an incremental triangle the operator first builds the result of the cumulative triangle `cum`
(`right`, a sorted arrangement of `new`) and then converts it -/
theorem rightTri_reduces {t out : List Cell} {lags : Option (List Rat)} {u? : Option LagUnit}
    (hinc : Triangle.isIncremental t = true) (h : makeRightTriangleU t lags u? = .ok out) :
    ∃ cum new right, Triangle.toCumulative t = .ok cum ∧ Triangle.isIncremental cum = false ∧
      rightTriangleCells cum lags u? = .ok new ∧ makeRightTriangleU cum lags u? = .ok right ∧
      right.Perm new ∧ finishRight t new = .ok out := by
  obtain ⟨cum, new, hcum, hnew, hfin⟩ := makeRightTriangle_inc hinc h
  obtain ⟨right, hr⟩ := finishRight_right hfin
  have hni : Triangle.isIncremental cum = false :=
    not_isIncremental_of_all (fun c hc => by rw [((toCumulative_cells hinc hcum).1 c hc).1]; simp)
  refine ⟨cum, new, right, hcum, hni, hnew, ?_, Properties.C01.ofCells_perm hr, hfin⟩
  unfold makeRightTriangleU
  simp only [hni, Bool.false_eq_true, if_false, bind, Except.bind, pure, Except.pure, hnew]
  exact finishRight_of_cum hni hr

theorem rightDiag_reduces {t out : List Cell} {dates : List Date} {hist : Bool}
    (hinc : Triangle.isIncremental t = true) (h : makeRightDiagonal t dates hist = .ok out) :
    ∃ cum new right, Triangle.toCumulative t = .ok cum ∧ Triangle.isIncremental cum = false ∧
      rightDiagonalCells cum dates hist = .ok new ∧ makeRightDiagonal cum dates hist = .ok right ∧
      right.Perm new ∧ finishRight t new = .ok out := by
  obtain ⟨cum, new, hcum, hnew, hfin⟩ := makeRightDiagonal_inc hinc h
  obtain ⟨right, hr⟩ := finishRight_right hfin
  have hni : Triangle.isIncremental cum = false :=
    not_isIncremental_of_all (fun c hc => by rw [((toCumulative_cells hinc hcum).1 c hc).1]; simp)
  refine ⟨cum, new, right, hcum, hni, hnew, ?_, Properties.C01.ofCells_perm hr, hfin⟩
  unfold makeRightDiagonal
  simp only [hni, Bool.false_eq_true, if_false, bind, Except.bind, pure, Except.pure, hnew]
  exact finishRight_of_cum hni hr

theorem rowKey_eq_iff {a b : Cell} : rowKey a = rowKey b ↔ a.md = b.md ∧ a.ps = b.ps ∧ a.pe = b.pe := by
  simp only [rowKey, Prod.mk.injEq]
  constructor
  · rintro ⟨⟨h1, h2⟩, h3⟩; exact ⟨h3, h1, h2⟩
  · rintro ⟨h3, h1, h2⟩; exact ⟨⟨h1, h2⟩, h3⟩

/-- the cumulative form the operators work on: `t` itself, or `to_cumulative(t)` -/
def CumOf (t cum : List Cell) : Prop :=
  (Triangle.isIncremental t = false ∧ cum = t) ∨
  (Triangle.isIncremental t = true ∧ Triangle.toCumulative t = .ok cum)

/-- `t` and `cum` have the same rows and the same evaluation dates on every row -/
def SameGrid (t cum : List Cell) : Prop :=
  (∀ c ∈ cum, ∃ x ∈ t, rowKey x = rowKey c ∧ x.ev = c.ev) ∧
  (∀ x ∈ t, ∃ c ∈ cum, rowKey c = rowKey x ∧ c.ev = x.ev)

theorem CumOf.sameGrid {t cum : List Cell} (h : CumOf t cum) : SameGrid t cum := by
  rcases h with ⟨_, rfl⟩ | ⟨hinc, hcum⟩
  · exact ⟨fun c hc => ⟨c, hc, rfl, rfl⟩, fun x hx => ⟨x, hx, rfl, rfl⟩⟩
  · obtain ⟨hA, hB⟩ := toCumulative_cells hinc hcum
    exact ⟨fun c hc => (hA c hc).2, hB⟩

theorem CumOf.unique {t cum cum' : List Cell} (h : CumOf t cum) (h' : CumOf t cum') : cum' = cum := by
  rcases h with ⟨h1, h2⟩ | ⟨h1, h2⟩ <;> rcases h' with ⟨g1, g2⟩ | ⟨g1, g2⟩
  · rw [h2, g2]
  · rw [h1] at g1; cases g1
  · rw [h1] at g1; cases g1
  · rw [h2] at g2; cases g2; rfl

theorem devLag_of_row {x c : Cell} (hk : rowKey x = rowKey c) (hev : x.ev = c.ev) (u : LagUnit) :
    x.devLag u = c.devLag u := by
  obtain ⟨_, _, h3⟩ := rowKey_eq_iff.mp hk
  unfold Cell.devLag
  rw [h3, hev]

theorem lagListOf_int {lags : Option (List Rat)} {slice : List Cell}
    (hal : ∀ c ∈ slice, MonthAligned c)
    (hint : ∀ l, lags = some l → ∀ lag ∈ l, ∃ k : Int, lag = ((k : Int) : Rat)) :
    ∀ lag ∈ lagListOf lags .month slice, ∃ k : Int, lag = ((k : Int) : Rat) := by
  intro lag hlag
  cases lags with
  | some l => exact hint l rfl lag hlag
  | none =>
    simp only [lagListOf, List.mem_eraseDups] at hlag
    obtain ⟨c, hc, rfl⟩ := List.mem_map.mp hlag
    obtain ⟨_, hpe, _, hee, _, _⟩ := hal c hc
    exact ⟨_, devLagMonths_monthEnds hpe hee⟩

theorem monthAligned_of_row {x e : Cell} (hk : rowKey x = rowKey e) (hev : x.ev = e.ev)
    (hx : MonthAligned x) : MonthAligned e := by
  obtain ⟨_, _, h3⟩ := rowKey_eq_iff.mp hk
  unfold MonthAligned at *
  rw [← h3, ← hev]; exact hx


end Bermuda.Extend
