/-
C15: the `nodup` clause — the result of the right-hand operators has each coordinate once.
-/
import Bermuda.Lemmas.ExtendSpecDiag
import Mathlib.Data.List.Nodup
namespace Bermuda.Extend
open Bermuda Std

/-! ### `Nodup` building blocks -/

theorem nodup_eraseDups {α} [BEq α] [LawfulBEq α] : ∀ (l : List α), l.eraseDups.Nodup := by
  intro l
  induction h : l.length using Nat.strong_induction_on generalizing l with
  | _ n ih =>
    cases l with
    | nil => simp
    | cons a rest =>
      rw [List.eraseDups_cons, List.nodup_cons]
      constructor
      · rw [List.mem_eraseDups, List.mem_filter]
        simp
      · apply ih (rest.filter (fun b => !b == a)).length _ _ rfl
        have := List.length_filter_le (fun b => !b == a) rest
        simp at h; omega

theorem metasOf_fold_nodup (l : List Cell) (init : List Metadata) (h : init.Nodup) :
    (l.foldl (fun acc c => if acc.contains c.md then acc else acc ++ [c.md]) init).Nodup := by
  induction l generalizing init with
  | nil => exact h
  | cons a rest ih =>
    simp only [List.foldl_cons]
    apply ih
    split
    · exact h
    · rename_i hc
      rw [List.nodup_append]
      refine ⟨h, by simp, ?_⟩
      intro x hx y hy
      simp at hy; subst hy
      intro e; subst e
      apply hc; simpa using hx

theorem metasOf_nodup (t : List Cell) : (metasOf t).Nodup := metasOf_fold_nodup t [] (by simp)

theorem slices_keys_nodup (t : List Cell) : ((Triangle.slices t).map (·.1)).Nodup := by
  unfold Triangle.slices
  rw [List.map_map]
  have : ((fun p : Metadata × List Cell => p.1) ∘ fun m => (m, (t.filter (·.md == m)).mergeSort Cell.le)) = id := by
    funext m; rfl
  rw [this, List.map_id]
  exact metasOf_nodup t

theorem periods_nodup (t : List Cell) : (periods t).Nodup := by
  unfold periods
  exact (List.mergeSort_perm _ _).nodup_iff.mpr (nodup_eraseDups _)

theorem periodRows_keys_nodup (s : List Cell) : ((periodRows s).map (·.1)).Nodup := by
  unfold periodRows
  rw [List.map_map]
  have : ((fun q : Period × List Cell => q.1) ∘ fun p =>
      (p, (s.filter fun c => cellPeriod c == p).mergeSort (fun a b => mdEvCmp a b != .gt))) = id := by
    funext p; rfl
  rw [this, List.map_id]
  exact periods_nodup s

/-- row identity of a cell -/
def rowId (c : Cell) : Metadata × Period := (c.md, cellPeriod c)

theorem filterMap_map_sublist {α β γ} {f : α → Option β} {g : β → γ} {h : α → γ} :
    ∀ (l : List α), (∀ q ∈ l, ∀ c, f q = some c → g c = h q) →
      ((l.filterMap f).map g).Sublist (l.map h)
  | [], _ => by simp
  | q :: rest, hf => by
    have ih := filterMap_map_sublist rest (fun q' hq' => hf q' (List.mem_cons_of_mem _ hq'))
    rw [List.filterMap_cons]
    cases hq : f q with
    | none => simp only [List.map_cons]; exact List.Sublist.cons _ ih
    | some c =>
      simp only [List.map_cons]
      rw [hf q (by simp) c hq]
      exact List.Sublist.cons_cons _ ih

/-- a list built slice by slice, row by row, with at most one cell per row, has pairwise different row ids -/
theorem nodup_rowId_blocks {β} (L : List (Metadata × List β)) (key : β → Period) (pick : β → Option Cell)
    (hL : (L.map (·.1)).Nodup) (hk : ∀ p ∈ L, (p.2.map key).Nodup)
    (hp : ∀ p ∈ L, ∀ q ∈ p.2, ∀ c, pick q = some c → rowId c = (p.1, key q)) :
    ((L.flatMap fun p => p.2.filterMap pick).map rowId).Nodup := by
  rw [List.map_flatMap, List.nodup_flatMap]
  constructor
  · intro p hpL
    have hsub := filterMap_map_sublist (f := pick) (g := rowId) (h := fun q => (p.1, key q)) p.2 (hp p hpL)
    apply List.Nodup.sublist hsub
    have : p.2.map (fun q => (p.1, key q)) = (p.2.map key).map (fun k => (p.1, k)) := by
      rw [List.map_map]; rfl
    rw [this]
    exact List.Nodup.map (fun a b h => (Prod.mk.injEq _ _ _ _ ▸ h).2) (hk p hpL)
  · have hLn : L.Nodup := List.Nodup.of_map _ hL
    apply hLn.pairwise_of_forall_ne
    intro a ha b hb hab x hxa hxb
    obtain ⟨c1, hc1, rfl⟩ := List.mem_map.mp hxa
    obtain ⟨c2, hc2, he⟩ := List.mem_map.mp hxb
    obtain ⟨q1, hq1, hp1⟩ := List.mem_filterMap.mp hc1
    obtain ⟨q2, hq2, hp2⟩ := List.mem_filterMap.mp hc2
    have e1 := hp a ha q1 hq1 c1 hp1
    have e2 := hp b hb q2 hq2 c2 hp2
    rw [e1, e2] at he
    have hk' : b.1 = a.1 := (Prod.mk.injEq _ _ _ _ ▸ he).1
    exact hab (List.inj_on_of_nodup_map hL ha hb hk'.symm)

theorem rowId_eq_iff {a b : Cell} : rowId a = rowId b ↔ rowKey a = rowKey b := by
  simp only [rowId, rowKey, cellPeriod, Prod.mk.injEq]
  constructor
  · rintro ⟨h1, h2, h3⟩; exact ⟨⟨h2, h3⟩, h1⟩
  · rintro ⟨⟨h2, h3⟩, h1⟩; exact ⟨h1, h2, h3⟩

/-- `right_edge` has one cell per slice row -/
theorem rightEdge_rows_nodup {t obs : List Cell} (h : Triangle.rightEdge t = .ok obs) :
    (obs.map rowId).Nodup := by
  unfold Triangle.rightEdge at h
  have hperm := Properties.C01.ofCells_perm h
  rw [(hperm.map rowId).nodup_iff]
  have hre : ((Triangle.slices t).flatMap fun (p : Metadata × List Cell) =>
        (groupBy (fun c : Cell => (c.ps, c.pe)) p.2).filterMap fun q =>
          lastBy? (fun a b => Date.cmp a.ev b.ev != .gt) q.2)
      = (((Triangle.slices t).map fun p => (p.1, groupBy (fun c : Cell => (c.ps, c.pe)) p.2)).flatMap
          fun p => p.2.filterMap fun q => lastBy? (fun a b => Date.cmp a.ev b.ev != .gt) q.2) := by
    rw [List.flatMap_map]
  rw [hre]
  apply nodup_rowId_blocks _ (fun q => q.1)
  · rw [List.map_map]
    exact slices_keys_nodup t
  · intro p hp
    obtain ⟨p0, _, rfl⟩ := List.mem_map.mp hp
    exact (groupBy_inv _ p0.2).nodup
  · intro p hp q hq c hc
    obtain ⟨p0, hp0, rfl⟩ := List.mem_map.mp hp
    have hcq : c ∈ q.2 := mem_of_lastBy? hc
    rw [(groupBy_inv _ p0.2).content q hq, List.mem_filter] at hcq
    have hkey : (c.ps, c.pe) = q.1 := by simpa using hcq.2
    have hmd : c.md = p0.1 := ((slices_spec hp0 c).mp hcq.1).2
    simp only [rowId, cellPeriod, hmd, hkey]

/-- the edge cells of `_fix_prev_evaluation_date`: one per (slice, period) -/
theorem edgeCellsOf_rows_nodup (inc : List Cell) : ((edgeCellsOf inc).map rowId).Nodup := by
  unfold edgeCellsOf
  have hre : ((Triangle.slices inc).flatMap fun (x : Metadata × List Cell) =>
        (periodRows x.2).filterMap fun (y : Period × List Cell) => y.2.head?)
      = (((Triangle.slices inc).map fun p => (p.1, periodRows p.2)).flatMap
          fun p => p.2.filterMap fun (q : Period × List Cell) => q.2.head?) := by
    rw [List.flatMap_map]
  have hform : ((Triangle.slices inc).flatMap fun x =>
      match x with
      | (_, slc) => (periodRows slc).filterMap fun x => match x with | (_, row) => row.head?)
      = ((Triangle.slices inc).flatMap fun (x : Metadata × List Cell) =>
        (periodRows x.2).filterMap fun (y : Period × List Cell) => y.2.head?) := rfl
  rw [hform, hre]
  apply nodup_rowId_blocks _ (fun q => q.1)
  · rw [List.map_map]
    exact slices_keys_nodup inc
  · intro p hp
    obtain ⟨p0, _, rfl⟩ := List.mem_map.mp hp
    exact periodRows_keys_nodup p0.2
  · intro p hp q hq c hc
    obtain ⟨p0, hp0, rfl⟩ := List.mem_map.mp hp
    have hcq : c ∈ q.2 := List.mem_of_head? hc
    obtain ⟨hcs, hper⟩ := ((periodRows_spec hq).1 c).mp hcq
    have hmd : c.md = p0.1 := ((slices_spec hp0 c).mp hcs).2
    simp only [rowId, hmd, hper]


/-! ### coordinates as a multiset: through `to_incremental` -/

/-- coordinate of a cell: row key and evaluation date -/
def ckey (c : Cell) : RowKey × Date := (rowKey c, c.ev)

theorem incPairs_keys (k : RowKey) : ∀ (rest : List Cell) (p : Cell) (ds : List Cell),
    incPairs k p rest = .ok ds → (∀ c ∈ rest, rowKey c = k) → ds.map ckey = rest.map ckey
  | [], p, ds, h, _ => by simp only [incPairs] at h; cases h; rfl
  | n :: rest, p, ds, h, hk => by
    simp only [incPairs, bind, Except.bind] at h
    split at h
    · cases h
    · split at h
      · cases h
      · rename_i c hc
        split at h
        · cases h
        · rename_i cs hcs
          simp only [pure, Except.pure] at h
          cases h
          obtain ⟨rfl, _⟩ := mk?_ok hc
          have ih := incPairs_keys k rest n cs hcs (fun c hc => hk c (List.mem_cons_of_mem _ hc))
          simp only [List.map_cons, ih]
          congr 1
          simp only [ckey, rowKey, Prod.mk.injEq, and_true]
          have := hk n (by simp)
          subst this
          exact ⟨⟨rfl, rfl⟩, rfl⟩

theorem incRow_keys {k : RowKey} {cells ds : List Cell} (h : incRow k cells = .ok ds)
    (hk : ∀ c ∈ cells, rowKey c = k) : ds.map ckey = cells.map ckey := by
  rcases incRow_ok h with ⟨rfl, rfl⟩ | ⟨c0, rest, pairs, rfl, hpairs, rfl, _⟩
  · rfl
  · have ih := incPairs_keys k rest c0 pairs hpairs (fun c hc => hk c (List.mem_cons_of_mem _ hc))
    simp only [List.map_cons, ih]
    congr 1
    simp only [ckey, firstCell, rowKey, Prod.mk.injEq, and_true]
    have := hk c0 (by simp)
    subst this
    exact ⟨⟨rfl, rfl⟩, rfl⟩

theorem mapM_rows_keys : ∀ (L : List (RowKey × List Cell)) (parts : List (List Cell)),
    L.mapM (fun p => incRow p.1 p.2) = .ok parts → (∀ p ∈ L, ∀ c ∈ p.2, rowKey c = p.1) →
    parts.flatten.map ckey = (L.flatMap (·.2)).map ckey
  | [], parts, h, _ => by
    simp [List.mapM_nil, pure, Except.pure] at h; subst h; rfl
  | p :: L, parts, h, hk => by
    obtain ⟨ds, rest, hds, hrest, rfl⟩ := mapM_ok_cons h
    have ih := mapM_rows_keys L rest hrest (fun q hq => hk q (List.mem_cons_of_mem _ hq))
    simp only [List.flatten_cons, List.map_append, List.flatMap_cons, ih,
      incRow_keys hds (hk p (by simp))]

theorem flatMap_sorted_perm : ∀ (G : List (RowKey × List Cell)),
    ((G.map fun p => (p.1, p.2.mergeSort Cell.le)).flatMap (·.2)).Perm (G.flatMap (·.2))
  | [] => by simp
  | p :: G => by
    simp only [List.map_cons, List.flatMap_cons]
    exact List.Perm.append (List.mergeSort_perm _ _) (flatMap_sorted_perm G)

theorem orderedRows_flat_perm (t : List Cell) : ((orderedRows t).flatMap (·.2)).Perm t := by
  unfold orderedRows
  exact (flatMap_sorted_perm _).trans (groupBy_inv rowKey t).perm

/-- `to_incremental` keeps the multiset of coordinates -/
theorem toIncremental_keys_perm {right inc : List Cell} (hni : Triangle.isIncremental right = false)
    (h : Triangle.toIncremental right = .ok inc) : (inc.map ckey).Perm (right.map ckey) := by
  obtain ⟨parts, hparts, hperm⟩ := toIncremental_ok hni h
  have h1 := mapM_rows_keys _ _ hparts (fun p hp c hc => (((orderedRows_spec hp).1 c).mp hc).2)
  exact ((hperm.map ckey).trans (by rw [h1])).trans ((orderedRows_flat_perm right).map ckey)

/-! ### the result of `finishRight` has the coordinates of the new cells, each once -/

theorem mapM_mk?_eq : ∀ (l out : List Cell), l.mapM Cell.mk? = .ok out → out = l
  | [], out, h => by simp [List.mapM_nil, pure, Except.pure] at h; exact h
  | c :: rest, out, h => by
    obtain ⟨b, bs, hb, hbs, rfl⟩ := mapM_ok_cons h
    obtain ⟨rfl, _⟩ := mk?_ok hb
    rw [mapM_mk?_eq rest bs hbs]

theorem rowId_of_ckey {a b : Cell} (h : ckey a = ckey b) : rowId a = rowId b := by
  simp only [ckey, Prod.mk.injEq] at h
  exact rowId_eq_iff.mpr h.1

theorem finishRight_keys_nodup {t new out : List Cell} (hkind : ∀ n ∈ new, n.kind = .cumulative)
    (hnd : (new.map ckey).Nodup) (h : finishRight t new = .ok out) : (out.map ckey).Nodup := by
  unfold finishRight at h
  simp only [bind, Except.bind] at h
  split at h
  · cases h
  · rename_i right hright
    have hperm := Properties.C01.ofCells_perm hright
    cases hinc : Triangle.isIncremental t with
    | false =>
      simp only [hinc, Bool.false_eq_true, if_false, pure, Except.pure] at h
      cases h
      exact ((hperm.map ckey).nodup_iff).mpr hnd
    | true =>
      simp only [hinc, if_true] at h
      split at h
      · cases h
      · rename_i inc hincr
        have hni : Triangle.isIncremental right = false :=
          not_isIncremental_of_all (fun c hc => by rw [hkind c (hperm.mem_iff.mp hc)]; simp)
        have hinck : (inc.map ckey).Nodup :=
          ((toIncremental_keys_perm hni hincr).trans (hperm.map ckey)).nodup_iff.mpr hnd
        unfold fixPrevEvaluationDate at h
        simp only [bind, Except.bind] at h
        split at h
        · cases h
        · rename_i obs hobs
          split at h
          · cases h
          · rename_i fixed hfixed
            have hfix := mapM_mk?_eq _ _ hfixed
            have hout := Properties.C01.ofCells_perm h
            rw [((hout.map ckey)).nodup_iff, List.map_append, List.nodup_append]
            have hedge_rows := edgeCellsOf_rows_nodup inc
            have hobs_rows := rightEdge_rows_nodup hobs
            have hedge_keys : ((edgeCellsOf inc).map ckey).Nodup := by
              apply List.Nodup.map_on _ (List.Nodup.of_map _ hedge_rows)
              intro x hx y hy hxy
              exact List.inj_on_of_nodup_map hedge_rows hx hy (rowId_of_ckey hxy)
            refine ⟨?_, ?_, ?_⟩
            · exact List.Nodup.sublist ((List.filter_sublist).map ckey) hinck
            · rw [hfix, List.map_flatMap, List.nodup_flatMap]
              constructor
              · intro cell _
                rw [List.map_map]
                have : (ckey ∘ fun ob : Cell => { ob with prev := some cell.ev }) = ckey := by
                  funext ob; rfl
                rw [this]
                exact List.Nodup.sublist ((List.filter_sublist).map ckey) hedge_keys
              · apply (List.Nodup.of_map _ hobs_rows).pairwise_of_forall_ne
                intro a ha b hb hab x hxa hxb
                obtain ⟨c1, hc1, rfl⟩ := List.mem_map.mp hxa
                obtain ⟨c2, hc2, he⟩ := List.mem_map.mp hxb
                obtain ⟨o1, ho1, rfl⟩ := List.mem_map.mp hc1
                obtain ⟨o2, ho2, rfl⟩ := List.mem_map.mp hc2
                have m1 := (List.mem_filter.mp ho1).2
                have m2 := (List.mem_filter.mp ho2).2
                simp only [Bool.and_eq_true, beq_iff_eq] at m1 m2
                have hk : rowId o2 = rowId o1 := rowId_of_ckey he
                have : rowId a = rowId b := by
                  simp only [rowId, Prod.mk.injEq] at hk ⊢
                  exact ⟨by rw [← m1.2, ← m2.2, hk.1], by rw [← m1.1, ← m2.1, hk.2]⟩
                exact hab (List.inj_on_of_nodup_map hobs_rows ha hb this)
            · intro x hx y hy hxy
              subst hxy
              obtain ⟨c, hc, rfl⟩ := List.mem_map.mp hx
              obtain ⟨c2, hc2, he⟩ := List.mem_map.mp hy
              rw [hfix] at hc2
              obtain ⟨cell, _, hc2⟩ := List.mem_flatMap.mp hc2
              obtain ⟨ob, hob, rfl⟩ := List.mem_map.mp hc2
              have hobe := (List.mem_filter.mp hob).1
              obtain ⟨hci, hcne⟩ := List.mem_filter.mp hc
              have hobi : ob ∈ inc := (edgeCellsOf_mem hobe).1
              have hk : ckey ob = ckey c := he
              have : ob = c := List.inj_on_of_nodup_map hinck hobi hci hk
              subst this
              simp only [Bool.not_eq_true', List.contains_eq_mem, decide_eq_false_iff_not] at hcne
              exact hcne hobe

/-! ### the Bool clause `nodupCoords`, and the new cells of the right diagonal -/

theorem nodupCoords_of_keys : ∀ (l : List Cell), (l.map ckey).Nodup → Spec.C15.nodupCoords l = true
  | [], _ => rfl
  | c :: rest, h => by
    simp only [List.map_cons, List.nodup_cons] at h
    simp only [Spec.C15.nodupCoords, Bool.and_eq_true, Bool.not_eq_true', List.any_eq_false]
    refine ⟨?_, nodupCoords_of_keys rest h.2⟩
    intro o ho hs
    apply h.1
    simp only [Spec.C15.sameCoord, Bool.and_eq_true, beq_iff_eq] at hs
    have : ckey c = ckey o := by
      simp only [ckey, Prod.mk.injEq]; exact ⟨sameRow_iff'.mp hs.1, hs.2⟩
    rw [this]; exact List.mem_map_of_mem ho

theorem nodupList_nodup {α} [BEq α] [LawfulBEq α] : ∀ (l : List α), Spec.C15.nodupList l = true → l.Nodup
  | [], _ => List.nodup_nil
  | a :: rest, h => by
    simp only [Spec.C15.nodupList, Bool.and_eq_true, Bool.not_eq_true', List.contains_eq_mem,
      decide_eq_false_iff_not] at h
    exact List.nodup_cons.mpr ⟨h.1, nodupList_nodup rest h.2⟩

theorem mapM_ok_eq_map {α β : Type} {f : α → Except Err β} {g : α → β} : ∀ (l : List α) (out : List β),
    l.mapM f = .ok out → (∀ x ∈ l, ∀ y, f x = .ok y → y = g x) → out = l.map g
  | [], out, h, _ => by simp [List.mapM_nil, pure, Except.pure] at h; exact h
  | a :: rest, out, h, hg => by
    obtain ⟨b, bs, hb, hbs, rfl⟩ := mapM_ok_cons h
    rw [hg a (by simp) b hb, mapM_ok_eq_map rest bs hbs (fun x hx => hg x (List.mem_cons_of_mem _ hx))]
    rfl

/-- cells built slice by slice have pairwise different coordinates if each slice's block has, and the
cells of a block carry the slice's metadata -/
theorem nodup_keys_slices (S : List (Metadata × List Cell)) (G : Metadata × List Cell → List Cell)
    (hS : (S.map (·.1)).Nodup) (hG : ∀ p ∈ S, ((G p).map ckey).Nodup)
    (hmd : ∀ p ∈ S, ∀ c ∈ G p, c.md = p.1) : ((S.flatMap G).map ckey).Nodup := by
  rw [List.map_flatMap, List.nodup_flatMap]
  refine ⟨hG, ?_⟩
  apply (List.Nodup.of_map _ hS).pairwise_of_forall_ne
  intro a ha b hb hab x hxa hxb
  obtain ⟨c1, hc1, rfl⟩ := List.mem_map.mp hxa
  obtain ⟨c2, hc2, he⟩ := List.mem_map.mp hxb
  have hk : rowId c2 = rowId c1 := rowId_of_ckey he
  have : a.1 = b.1 := by
    rw [← hmd a ha c1 hc1, ← hmd b hb c2 hc2]
    simp only [rowId, Prod.mk.injEq] at hk
    exact hk.1.symm
  exact hab (List.inj_on_of_nodup_map hS ha hb this)

/-- explicit block of one slice of the right diagonal -/
def diagBlock (dates : List Date) (hist : Bool) (p : Metadata × List Cell) : List Cell :=
  match Triangle.rightEdge p.2 with
  | .ok edge => (diagPairs (diagDatesOf dates hist p.2) edge).map fun q => emptyCell q.1 q.2
  | .error _ => []

theorem rightDiagonalSlice_eq {dates : List Date} {hist : Bool} {p : Metadata × List Cell} {ys : List Cell}
    (h : rightDiagonalSlice dates hist p.2 = .ok ys) : ys = diagBlock dates hist p := by
  unfold rightDiagonalSlice at h
  simp only [bind, Except.bind] at h
  split at h
  · cases h
  · rename_i edge hedge
    unfold diagBlock
    rw [hedge]
    exact mapM_ok_eq_map _ _ h (fun x _ y hy => (mk?_ok hy).1)

theorem rightDiagonalCells_eq {cum new : List Cell} {dates : List Date} {hist : Bool}
    (h : rightDiagonalCells cum dates hist = .ok new) :
    new = (Triangle.slices cum).flatMap (diagBlock dates hist) := by
  unfold rightDiagonalCells at h
  simp only [bind, Except.bind, pure, Except.pure] at h
  split at h
  · cases h
  · rename_i parts hparts
    cases h
    rw [mapM_ok_eq_map _ _ hparts (fun p _ ys hys => rightDiagonalSlice_eq hys)]
    simp [List.flatMap_def]

theorem diagBlock_keys_nodup {dates : List Date} {hist : Bool} (hd : dates.Nodup)
    (p : Metadata × List Cell) : ((diagBlock dates hist p).map ckey).Nodup := by
  unfold diagBlock
  cases hedge : Triangle.rightEdge p.2 with
  | error e => simp
  | ok edge =>
    simp only
    have hrows := rightEdge_rows_nodup hedge
    have hdd : (diagDatesOf dates hist p.2).Nodup := by
      unfold diagDatesOf
      split
      · exact hd
      · split
        · exact hd.filter _
        · exact hd
    rw [List.map_map]
    unfold diagPairs
    rw [List.map_flatMap, List.nodup_flatMap]
    constructor
    · intro c _
      rw [List.map_map]
      apply List.Nodup.map_on _ (hdd.filter _)
      intro x _ y _ hxy
      simp only [Function.comp, ckey, emptyCell, Prod.mk.injEq] at hxy
      exact hxy.2
    · apply (List.Nodup.of_map _ hrows).pairwise_of_forall_ne
      intro a ha b hb hab x hxa hxb
      simp only [List.map_map] at hxa hxb
      obtain ⟨d1, _, rfl⟩ := List.mem_map.mp hxa
      obtain ⟨d2, _, he⟩ := List.mem_map.mp hxb
      simp only [Function.comp, ckey, emptyCell, Prod.mk.injEq] at he
      have : rowId a = rowId b := rowId_eq_iff.mpr he.1.symm
      exact hab (List.inj_on_of_nodup_map hrows ha hb this)

theorem diagBlock_md {dates : List Date} {hist : Bool} {S : List Cell} {p : Metadata × List Cell}
    (hp : p ∈ Triangle.slices S) : ∀ c ∈ diagBlock dates hist p, c.md = p.1 := by
  intro c hc
  unfold diagBlock at hc
  cases hedge : Triangle.rightEdge p.2 with
  | error e => rw [hedge] at hc; cases hc
  | ok edge =>
    rw [hedge] at hc
    obtain ⟨q, hq, rfl⟩ := List.mem_map.mp hc
    obtain ⟨h1, _, _⟩ := mem_diagPairs.mp hq
    exact ((slices_spec hp q.1).mp (rightEdge_latest hedge h1).1).2

theorem rightDiag_new_keys_nodup {cum new : List Cell} {dates : List Date} {hist : Bool}
    (hd : dates.Nodup) (h : rightDiagonalCells cum dates hist = .ok new) : (new.map ckey).Nodup := by
  rw [rightDiagonalCells_eq h]
  exact nodup_keys_slices _ _ (slices_keys_nodup cum) (fun p _ => diagBlock_keys_nodup hd p)
    (fun p hp => diagBlock_md hp)

/-! ### the new cells of the right triangle (month unit) -/

theorem addMonths_form_after {c : Cell} (hc : MonthAligned c) {k : Int}
    (hk : ((k : Int) : Rat) > c.devLag .month) :
    addMonths c.pe ((k : Int) : Rat) = monthEndOf (monthToId c.pe + k) := by
  obtain ⟨hpv, hpe, hev, hee, hpy, hey⟩ := hc
  have hlag : c.devLag .month = ((monthToId c.ev - monthToId c.pe : Int) : Rat) :=
    devLagMonths_monthEnds hpe hee
  rw [hlag] at hk
  have hk' : monthToId c.ev - monthToId c.pe < k := by exact_mod_cast hk
  have hev0 : 0 ≤ monthToId c.ev := by
    have := ((valid_iff c.ev).mp hev).1
    unfold monthToId; omega
  obtain ⟨day, _, _, hday, hform⟩ := addMonths_int_form c.pe k hpv (by omega)
  rw [hform, hday hpe]; rfl

theorem addMonths_inj_after {c : Cell} (hc : MonthAligned c) {k1 k2 : Int}
    (h1 : ((k1 : Int) : Rat) > c.devLag .month) (h2 : ((k2 : Int) : Rat) > c.devLag .month)
    (h : addMonths c.pe ((k1 : Int) : Rat) = addMonths c.pe ((k2 : Int) : Rat)) : k1 = k2 := by
  rw [addMonths_form_after hc h1, addMonths_form_after hc h2] at h
  have := congrArg monthToId h
  rw [monthToId_monthEndOf, monthToId_monthEndOf] at this
  omega

/-- explicit block of one slice of the right triangle, month unit -/
def triBlock (lags : Option (List Rat)) (p : Metadata × List Cell) : List Cell :=
  match Triangle.rightEdge p.2 with
  | .ok edge => (rightPairs (lagListOf lags .month p.2) .month edge).map fun q =>
      emptyCell q.2 (addMonths q.2.pe q.1)
  | .error _ => []

theorem rightTriangleSlice_eq {lags : Option (List Rat)} {p : Metadata × List Cell} {ys : List Cell}
    (h : rightTriangleSlice lags .month p.2 = .ok ys) : ys = triBlock lags p := by
  unfold rightTriangleSlice at h
  simp only [bind, Except.bind] at h
  split at h
  · cases h
  · rename_i edge hedge
    split at h
    · simp [throw, throwThe, MonadExceptOf.throw] at h
    · unfold triBlock
      rw [hedge]
      apply mapM_ok_eq_map _ _ h
      intro x _ y hy
      obtain ⟨ev, hev, rfl, _⟩ := rightCellOf_ok.mp hy
      have : addMonths x.2.pe x.1 = ev := Except.ok.inj hev
      rw [this]

theorem rightTriangleCells_eq {cum new : List Cell} {lags : Option (List Rat)}
    (h : rightTriangleCells cum lags (some .month) = .ok new) :
    new = (Triangle.slices cum).flatMap (triBlock lags) := by
  unfold rightTriangleCells at h
  simp only [bind, Except.bind, pure, Except.pure] at h
  split at h
  · cases h
  · rename_i parts hparts
    cases h
    rw [mapM_ok_eq_map _ _ hparts (fun p _ ys hys => rightTriangleSlice_eq hys)]
    simp [List.flatMap_def]

theorem triBlock_keys_nodup {lags : Option (List Rat)} {S : List Cell} {p : Metadata × List Cell}
    (hp : p ∈ Triangle.slices S) (hal : ∀ c ∈ S, MonthAligned c)
    (hint : ∀ l, lags = some l → ∀ lag ∈ l, ∃ k : Int, lag = ((k : Int) : Rat))
    (hnd : ∀ l, lags = some l → l.Nodup) : ((triBlock lags p).map ckey).Nodup := by
  unfold triBlock
  cases hedge : Triangle.rightEdge p.2 with
  | error e => simp
  | ok edge =>
    simp only
    have hrows := rightEdge_rows_nodup hedge
    have halp : ∀ c ∈ p.2, MonthAligned c := fun c hc => hal c (mem_of_mem_slices hp hc)
    have hlags : (lagListOf lags .month p.2).Nodup := by
      cases lags with
      | some l => exact hnd l rfl
      | none => exact nodup_eraseDups _
    have hints := lagListOf_int halp hint
    rw [List.map_map]
    unfold rightPairs
    rw [List.map_flatMap, List.nodup_flatMap]
    constructor
    · intro lag _
      rw [List.map_map]
      apply List.Nodup.map_on _ ((List.Nodup.of_map _ hrows).filter _)
      intro x hx y hy hxy
      simp only [Function.comp, ckey, emptyCell, Prod.mk.injEq] at hxy
      exact List.inj_on_of_nodup_map hrows (List.mem_filter.mp hx).1 (List.mem_filter.mp hy).1
        (rowId_eq_iff.mpr hxy.1)
    · apply hlags.pairwise_of_forall_ne
      intro l1 hl1 l2 hl2 hne x hxa hxb
      simp only [List.map_map] at hxa hxb
      obtain ⟨e1, he1, rfl⟩ := List.mem_map.mp hxa
      obtain ⟨e2, he2, he⟩ := List.mem_map.mp hxb
      obtain ⟨he1m, hg1⟩ := List.mem_filter.mp he1
      obtain ⟨he2m, hg2⟩ := List.mem_filter.mp he2
      simp only [Function.comp, ckey, emptyCell, Prod.mk.injEq] at he
      have hee : e2 = e1 := List.inj_on_of_nodup_map hrows he2m he1m (rowId_eq_iff.mpr he.1)
      subst hee
      obtain ⟨k1, rfl⟩ := hints l1 hl1
      obtain ⟨k2, rfl⟩ := hints l2 hl2
      have hale := halp e2 (rightEdge_latest hedge he2m).1
      have := addMonths_inj_after hale (by simpa using hg2) (by simpa using hg1) he.2
      exact hne (by rw [this])

theorem triBlock_md {lags : Option (List Rat)} {S : List Cell} {p : Metadata × List Cell}
    (hp : p ∈ Triangle.slices S) : ∀ c ∈ triBlock lags p, c.md = p.1 := by
  intro c hc
  unfold triBlock at hc
  cases hedge : Triangle.rightEdge p.2 with
  | error e => rw [hedge] at hc; cases hc
  | ok edge =>
    rw [hedge] at hc
    obtain ⟨q, hq, rfl⟩ := List.mem_map.mp hc
    obtain ⟨_, h2, _⟩ := mem_rightPairs.mp hq
    exact ((slices_spec hp q.2).mp (rightEdge_latest hedge h2).1).2

theorem rightTri_new_keys_nodup {cum new : List Cell} {lags : Option (List Rat)}
    (hal : ∀ c ∈ cum, MonthAligned c)
    (hint : ∀ l, lags = some l → ∀ lag ∈ l, ∃ k : Int, lag = ((k : Int) : Rat))
    (hnd : ∀ l, lags = some l → l.Nodup)
    (h : rightTriangleCells cum lags (some .month) = .ok new) : (new.map ckey).Nodup := by
  rw [rightTriangleCells_eq h]
  exact nodup_keys_slices _ _ (slices_keys_nodup cum)
    (fun p hp => triBlock_keys_nodup hp hal hint hnd) (fun p hp => triBlock_md hp)
theorem rightTri_nodupCoords {t cum new out : List Cell} {lags : Option (List Rat)}
    (hf : TriFacts t cum new out lags .month) (hal : ∀ c ∈ t, MonthAligned c)
    (hint : ∀ l, lags = some l → ∀ lag ∈ l, ∃ k : Int, lag = ((k : Int) : Rat))
    (hnd : ∀ l, lags = some l → l.Nodup) : Spec.C15.nodupCoords out = true := by
  have hk := rightTri_new_keys_nodup (aligned_cum hf.cumOf.sameGrid hal) hint hnd hf.newEq
  exact nodupCoords_of_keys out (finishRight_keys_nodup (fun n hn => (hf.empties n hn).1) hk hf.fin)


end Bermuda.Extend
