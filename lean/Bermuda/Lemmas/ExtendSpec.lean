/-
Bridging lemmas between the Prop statements of C15 and the executable predicates of `Spec/C15.lean`.
-/
import Bermuda.Lemmas.Extend
import Bermuda.Spec.C15
namespace Bermuda.Extend
open Bermuda

theorem maxEval_mem {l : List Cell} {m : Date} (h : maxEval l = some m) : ∃ o ∈ l, o.ev = m := by
  cases l with
  | nil => simp [maxEval] at h
  | cons c rest =>
    simp only [maxEval, Option.some.injEq] at h
    subst h
    have : ∀ (rest : List Cell) (m0 : Date),
        rest.foldl (fun m x => if m < x.ev then x.ev else m) m0 = m0 ∨
        ∃ o ∈ rest, o.ev = rest.foldl (fun m x => if m < x.ev then x.ev else m) m0 := by
      intro rest
      induction rest with
      | nil => intro m0; exact Or.inl rfl
      | cons a rest ih =>
        intro m0
        simp only [List.foldl_cons]
        rcases ih (if m0 < a.ev then a.ev else m0) with h | ⟨o, ho, hoe⟩
        · rw [h]
          split
          · exact Or.inr ⟨a, by simp, rfl⟩
          · exact Or.inl rfl
        · exact Or.inr ⟨o, List.mem_cons_of_mem _ ho, hoe⟩
    rcases this rest c.ev with h | ⟨o, ho, hoe⟩
    · exact ⟨c, by simp, h.symm⟩
    · exact ⟨o, List.mem_cons_of_mem _ ho, hoe⟩

theorem sameRow_iff {a b : Cell} : Spec.C15.sameRow a b = true ↔ a.md = b.md ∧ a.ps = b.ps ∧ a.pe = b.pe := by
  simp [Spec.C15.sameRow, and_assoc]

end Bermuda.Extend
