/-
C15: helpers shared by the Bool bridges of `fillSpec` and `backfillSpec`:
`minRat` / `minEval` / `sourceOf` / `firstOf` of the Spec, the list equation `kept t out = t`,
month-end forms of `addMonths`, nodup of coordinates built block by block.
-/
import Bermuda.Lemmas.ExtendNodup
import Bermuda.Lemmas.ExtendFillComplete
namespace Bermuda.Extend
open Bermuda

/-! ### `minRat`, `minEval` -/

theorem minRat_fold (rest : List Rat) (m0 : Rat) :
    (rest.foldl (fun m x => if x < m then x else m) m0 = m0 ∨
      rest.foldl (fun m x => if x < m then x else m) m0 ∈ rest) ∧
    rest.foldl (fun m x => if x < m then x else m) m0 ≤ m0 ∧
    ∀ x ∈ rest, rest.foldl (fun m x => if x < m then x else m) m0 ≤ x := by
  induction rest generalizing m0 with
  | nil => simp
  | cons a rest ih =>
    simp only [List.foldl_cons]
    obtain ⟨h1, h2, h3⟩ := ih (if a < m0 then a else m0)
    have hstep : (if a < m0 then a else m0) ≤ m0 ∧ (if a < m0 then a else m0) ≤ a := by
      split
      · rename_i h; exact ⟨_root_.le_of_lt h, le_refl _⟩
      · rename_i h; exact ⟨le_refl _, not_lt.mp h⟩
    refine ⟨?_, le_trans h2 hstep.1, ?_⟩
    · rcases h1 with h | h
      · rw [h]
        split
        · right; simp
        · left; rfl
      · right; exact List.mem_cons_of_mem _ h
    · intro x hx
      rcases List.mem_cons.mp hx with rfl | hx
      · exact le_trans h2 hstep.2
      · exact h3 x hx

theorem minRat_spec {l : List Rat} {m : Rat} (h : Spec.C15.minRat l = some m) :
    m ∈ l ∧ ∀ x ∈ l, m ≤ x := by
  cases l with
  | nil => simp [Spec.C15.minRat] at h
  | cons q rest =>
    simp only [Spec.C15.minRat, Option.some.injEq] at h
    subst h
    obtain ⟨h1, h2, h3⟩ := minRat_fold rest q
    constructor
    · rcases h1 with h | h
      · rw [h]; simp
      · exact List.mem_cons_of_mem _ h
    · intro x hx
      rcases List.mem_cons.mp hx with rfl | hx
      · exact h2
      · exact h3 x hx

theorem minRat_some {l : List Rat} (h : l ≠ []) : ∃ m, Spec.C15.minRat l = some m := by
  cases l with
  | nil => exact absurd rfl h
  | cons q rest => exact ⟨_, rfl⟩

theorem Date.lt_irrefl' (a : Date) : ¬ (a < a) := by rw [Date.lt_iff]; omega

theorem Date.lt_trans' {a b c : Date} (h1 : a < b) (h2 : b < c) : a < c := by
  rw [Date.lt_iff] at *; omega

theorem Date.lt_of_lt_of_not_lt {a b c : Date} (h1 : a < b) (h2 : ¬ (c < b)) : a < c := by
  rw [Date.lt_iff] at *; omega

theorem Date.lt_of_not_lt_of_lt {a b c : Date} (h1 : ¬ (b < a)) (h2 : b < c) : a < c := by
  rw [Date.lt_iff] at *; omega

theorem Date.eq_of_not_lt {a b : Date} (h1 : ¬ (a < b)) (h2 : ¬ (b < a)) : a = b := by
  rw [Date.lt_iff] at h1 h2
  obtain ⟨y, m, d⟩ := a
  obtain ⟨y', m', d'⟩ := b
  simp only at h1 h2
  have : y = y' ∧ m = m' ∧ d = d' := by omega
  obtain ⟨rfl, rfl, rfl⟩ := this
  rfl

theorem minEval_fold (rest : List Cell) (m0 : Date) :
    (rest.foldl (fun m x => if x.ev < m then x.ev else m) m0 = m0 ∨
      ∃ o ∈ rest, o.ev = rest.foldl (fun m x => if x.ev < m then x.ev else m) m0) ∧
    ¬ (m0 < rest.foldl (fun m x => if x.ev < m then x.ev else m) m0) ∧
    ∀ o ∈ rest, ¬ (o.ev < rest.foldl (fun m x => if x.ev < m then x.ev else m) m0) := by
  induction rest generalizing m0 with
  | nil => simp [Date.lt_irrefl']
  | cons a rest ih =>
    simp only [List.foldl_cons]
    obtain ⟨h1, h2, h3⟩ := ih (if a.ev < m0 then a.ev else m0)
    have hstep : ¬ (m0 < (if a.ev < m0 then a.ev else m0)) ∧ ¬ (a.ev < (if a.ev < m0 then a.ev else m0)) := by
      split
      · rename_i h
        refine ⟨?_, Date.lt_irrefl' _⟩
        rw [Date.lt_iff] at h ⊢; omega
      · rename_i h; exact ⟨Date.lt_irrefl' _, h⟩
    have trans : ∀ {x y z : Date}, ¬ (x < y) → ¬ (y < z) → ¬ (x < z) := by
      intro x y z hxy hyz
      rw [Date.lt_iff] at *; omega
    refine ⟨?_, trans hstep.1 h2, ?_⟩
    · rcases h1 with h | ⟨o, ho, hoe⟩
      · rw [h]
        split
        · right; exact ⟨a, by simp, rfl⟩
        · left; rfl
      · right; exact ⟨o, List.mem_cons_of_mem _ ho, hoe⟩
    · intro o ho
      rcases List.mem_cons.mp ho with rfl | ho
      · exact trans hstep.2 h2
      · exact h3 o ho

theorem minEval_spec {l : List Cell} {m : Date} (h : Spec.C15.minEval l = some m) :
    (∃ o ∈ l, o.ev = m) ∧ ∀ o ∈ l, ¬ (o.ev < m) := by
  cases l with
  | nil => simp [Spec.C15.minEval] at h
  | cons c rest =>
    simp only [Spec.C15.minEval, Option.some.injEq] at h
    subst h
    obtain ⟨h1, h2, h3⟩ := minEval_fold rest c.ev
    constructor
    · rcases h1 with h | ⟨o, ho, hoe⟩
      · exact ⟨c, by simp, h.symm⟩
      · exact ⟨o, List.mem_cons_of_mem _ ho, hoe⟩
    · intro o ho
      rcases List.mem_cons.mp ho with rfl | ho
      · exact h2
      · exact h3 o ho

theorem minEval_some {l : List Cell} (h : l ≠ []) : ∃ m, Spec.C15.minEval l = some m := by
  cases l with
  | nil => exact absurd rfl h
  | cons c rest => exact ⟨_, rfl⟩

/-! ### `sourceOf` (latest earlier observation) and `firstOf` (earliest observation) -/

theorem latest_fold (l : List Cell) (init : Option Cell) :
    ∀ s, l.foldl (fun best o => match best with
        | none => some o
        | some b => if b.ev < o.ev then some o else some b) init = some s →
      (init = some s ∨ s ∈ l) ∧ (∀ b, init = some b → ¬ (s.ev < b.ev)) ∧ ∀ o ∈ l, ¬ (s.ev < o.ev) := by
  induction l generalizing init with
  | nil =>
    intro s h
    simp only [List.foldl_nil] at h
    exact ⟨Or.inl h, fun b hb => by rw [h] at hb; cases hb; exact Date.lt_irrefl' _, by simp⟩
  | cons a rest ih =>
    intro s h
    simp only [List.foldl_cons] at h
    obtain ⟨h1, h2, h3⟩ := ih _ s h
    cases init with
    | none =>
      simp only at h1 h2
      have hsa := h2 a rfl
      refine ⟨Or.inr ?_, by simp, ?_⟩
      · rcases h1 with h1 | h1
        · cases h1; simp
        · exact List.mem_cons_of_mem _ h1
      · intro o ho
        rcases List.mem_cons.mp ho with rfl | ho
        · exact hsa
        · exact h3 o ho
    | some b =>
      simp only at h1 h2
      by_cases hlt : b.ev < a.ev
      · simp only [hlt, if_true] at h1 h2
        have hsa := h2 a rfl
        refine ⟨Or.inr ?_, ?_, ?_⟩
        · rcases h1 with h1 | h1
          · cases h1; simp
          · exact List.mem_cons_of_mem _ h1
        · intro b' hb'; cases hb'
          intro hcon
          rw [Date.lt_iff] at hsa hlt hcon; omega
        · intro o ho
          rcases List.mem_cons.mp ho with rfl | ho
          · exact hsa
          · exact h3 o ho
      · simp only [hlt, if_false] at h1 h2
        have hsb := h2 b rfl
        refine ⟨?_, ?_, ?_⟩
        · rcases h1 with h1 | h1
          · exact Or.inl h1
          · exact Or.inr (List.mem_cons_of_mem _ h1)
        · intro b' hb'; cases hb'; exact hsb
        · intro o ho
          rcases List.mem_cons.mp ho with rfl | ho
          · intro hcon
            rw [Date.lt_iff] at hsb hlt hcon; omega
          · exact h3 o ho

theorem latest_fold_some (l : List Cell) (init : Option Cell) (h : init.isSome = true ∨ l ≠ []) :
    ∃ s, l.foldl (fun best o => match best with
        | none => some o
        | some b => if b.ev < o.ev then some o else some b) init = some s := by
  induction l generalizing init with
  | nil =>
    rcases h with h | h
    · cases init with
      | none => cases h
      | some b => exact ⟨b, rfl⟩
    · exact absurd rfl h
  | cons a rest ih =>
    simp only [List.foldl_cons]
    apply ih
    left
    cases init with
    | none => rfl
    | some b => simp only; split <;> rfl

theorem sourceOf_spec {t : List Cell} {a s : Cell} (h : Spec.C15.sourceOf t a = some s) :
    s ∈ Spec.C15.rowOf t a ∧ s.ev < a.ev ∧
      ∀ o ∈ Spec.C15.rowOf t a, o.ev < a.ev → ¬ (s.ev < o.ev) := by
  unfold Spec.C15.sourceOf at h
  obtain ⟨h1, _, h3⟩ := latest_fold _ none s h
  rcases h1 with h1 | h1
  · cases h1
  · obtain ⟨hs, hlt⟩ := List.mem_filter.mp h1
    refine ⟨hs, by simpa using hlt, ?_⟩
    intro o ho holt
    exact h3 o (List.mem_filter.mpr ⟨ho, by simpa using holt⟩)

theorem sourceOf_some {t : List Cell} {a o : Cell} (ho : o ∈ Spec.C15.rowOf t a) (hlt : o.ev < a.ev) :
    ∃ s, Spec.C15.sourceOf t a = some s := by
  unfold Spec.C15.sourceOf
  apply latest_fold_some
  right
  exact List.ne_nil_of_mem (List.mem_filter.mpr ⟨ho, by simpa using hlt⟩)

theorem earliest_fold (l : List Cell) (init : Option Cell) :
    ∀ s, l.foldl (fun best o => match best with
        | none => some o
        | some b => if o.ev < b.ev then some o else some b) init = some s →
      (init = some s ∨ s ∈ l) ∧ (∀ b, init = some b → ¬ (b.ev < s.ev)) ∧ ∀ o ∈ l, ¬ (o.ev < s.ev) := by
  induction l generalizing init with
  | nil =>
    intro s h
    simp only [List.foldl_nil] at h
    exact ⟨Or.inl h, fun b hb => by rw [h] at hb; cases hb; exact Date.lt_irrefl' _, by simp⟩
  | cons a rest ih =>
    intro s h
    simp only [List.foldl_cons] at h
    obtain ⟨h1, h2, h3⟩ := ih _ s h
    cases init with
    | none =>
      simp only at h1 h2
      have hsa := h2 a rfl
      refine ⟨Or.inr ?_, by simp, ?_⟩
      · rcases h1 with h1 | h1
        · cases h1; simp
        · exact List.mem_cons_of_mem _ h1
      · intro o ho
        rcases List.mem_cons.mp ho with rfl | ho
        · exact hsa
        · exact h3 o ho
    | some b =>
      simp only at h1 h2
      by_cases hlt : a.ev < b.ev
      · simp only [hlt, if_true] at h1 h2
        have hsa := h2 a rfl
        refine ⟨Or.inr ?_, ?_, ?_⟩
        · rcases h1 with h1 | h1
          · cases h1; simp
          · exact List.mem_cons_of_mem _ h1
        · intro b' hb'; cases hb'
          intro hcon
          rw [Date.lt_iff] at hsa hlt hcon; omega
        · intro o ho
          rcases List.mem_cons.mp ho with rfl | ho
          · exact hsa
          · exact h3 o ho
      · simp only [hlt, if_false] at h1 h2
        have hsb := h2 b rfl
        refine ⟨?_, ?_, ?_⟩
        · rcases h1 with h1 | h1
          · exact Or.inl h1
          · exact Or.inr (List.mem_cons_of_mem _ h1)
        · intro b' hb'; cases hb'; exact hsb
        · intro o ho
          rcases List.mem_cons.mp ho with rfl | ho
          · intro hcon
            rw [Date.lt_iff] at hsb hlt hcon; omega
          · exact h3 o ho

theorem earliest_fold_some (l : List Cell) (init : Option Cell) (h : init.isSome = true ∨ l ≠ []) :
    ∃ s, l.foldl (fun best o => match best with
        | none => some o
        | some b => if o.ev < b.ev then some o else some b) init = some s := by
  induction l generalizing init with
  | nil =>
    rcases h with h | h
    · cases init with
      | none => cases h
      | some b => exact ⟨b, rfl⟩
    · exact absurd rfl h
  | cons a rest ih =>
    simp only [List.foldl_cons]
    apply ih
    left
    cases init with
    | none => rfl
    | some b => simp only; split <;> rfl

theorem firstOf_spec {t : List Cell} {a s : Cell} (h : Spec.C15.firstOf t a = some s) :
    s ∈ Spec.C15.rowOf t a ∧ ∀ o ∈ Spec.C15.rowOf t a, ¬ (o.ev < s.ev) := by
  unfold Spec.C15.firstOf at h
  obtain ⟨h1, _, h3⟩ := earliest_fold _ none s h
  rcases h1 with h1 | h1
  · cases h1
  · exact ⟨h1, h3⟩

theorem firstOf_some {t : List Cell} {a o : Cell} (ho : o ∈ Spec.C15.rowOf t a) :
    ∃ s, Spec.C15.firstOf t a = some s := by
  unfold Spec.C15.firstOf
  apply earliest_fold_some
  right
  exact List.ne_nil_of_mem ho

/-! ### coordinates -/

theorem sameCoord_iff {a b : Cell} : Spec.C15.sameCoord a b = true ↔ ckey a = ckey b := by
  simp only [Spec.C15.sameCoord, Bool.and_eq_true, beq_iff_eq, ckey, Prod.mk.injEq, sameRow_iff']

theorem ckey_inj_of_nodup {l : List Cell} (h : (l.map ckey).Nodup) {a b : Cell} (ha : a ∈ l) (hb : b ∈ l)
    (hk : ckey a = ckey b) : a = b :=
  List.inj_on_of_nodup_map h ha hb hk

theorem mem_added {t out : List Cell} {a : Cell} :
    a ∈ Spec.C15.added t out ↔ a ∈ out ∧ ∀ o ∈ t, ckey a ≠ ckey o := by
  simp only [Spec.C15.added, List.mem_filter, Bool.not_eq_true', List.any_eq_false]
  constructor
  · rintro ⟨h1, h2⟩
    exact ⟨h1, fun o ho hk => h2 o ho (sameCoord_iff.mpr hk)⟩
  · rintro ⟨h1, h2⟩
    exact ⟨h1, fun o ho hs => h2 o ho (sameCoord_iff.mp hs)⟩

theorem mem_kept {t out : List Cell} {a : Cell} :
    a ∈ Spec.C15.kept t out ↔ a ∈ out ∧ ∃ o ∈ t, ckey a = ckey o := by
  simp only [Spec.C15.kept, List.mem_filter, List.any_eq_true, sameCoord_iff]

/-- a sorted output with pairwise different coordinates that contains every observed cell: the cells
at occupied coordinates are exactly the observed triangle, as a LIST; the added ones have pairwise
different coordinates -/
theorem spec_preserved {t out : List Cell} (hsorted_t : t.Pairwise (fun a b => Cell.le a b))
    (hmd : ∀ c ∈ t, c.md.Canon) (hnd : (t.map ckey).Nodup)
    (hsorted : out.Pairwise (fun a b => Cell.le a b)) (hkeys : (out.map ckey).Nodup)
    (hsub : ∀ c ∈ t, c ∈ out) :
    Spec.C15.kept t out = t ∧ Spec.C15.nodupCoords (Spec.C15.added t out) = true := by
  have hmem : ∀ c, c ∈ Spec.C15.kept t out ↔ c ∈ t := by
    intro c
    rw [mem_kept]
    constructor
    · rintro ⟨hc, o, ho, hk⟩
      rw [ckey_inj_of_nodup hkeys hc (hsub o ho) hk]; exact ho
    · intro hc; exact ⟨hsub c hc, c, hc, rfl⟩
  have hksub : (Spec.C15.kept t out).Sublist out := List.filter_sublist
  have hasub : (Spec.C15.added t out).Sublist out := List.filter_sublist
  constructor
  · have hknd : (Spec.C15.kept t out).Nodup := ((List.Nodup.of_map _ hkeys)).sublist hksub
    have hperm : (Spec.C15.kept t out).Perm t :=
      (List.perm_ext_iff_of_nodup hknd (List.Nodup.of_map _ hnd)).mpr hmem
    apply sorted_perm_unique (cmp := Cell.cmp) ?_ (hsorted.sublist hksub) hsorted_t hperm
    intro a b ha hb hcmp
    have ha' := (hmem a).mp ha
    have hco := (Cell.cmp_eq_eq (hmd a ha') (hmd b hb)).mp hcmp
    simp only [Cell.coord, Coord.mk.injEq] at hco
    apply ckey_inj_of_nodup hnd ha' hb
    simp only [ckey, rowKey, Prod.mk.injEq]
    exact ⟨⟨⟨hco.2.1, hco.2.2.1⟩, hco.1⟩, hco.2.2.2.1⟩
  · exact nodupCoords_of_keys _ ((hkeys.sublist (hasub.map ckey)))

/-- with nothing added the output is the observed triangle -/
theorem out_eq_of_added_nil {t out : List Cell} (hk : Spec.C15.kept t out = t)
    (ha : Spec.C15.added t out = []) : out = t := by
  rw [← hk]
  unfold Spec.C15.kept
  symm
  rw [List.filter_eq_self]
  intro c hc
  unfold Spec.C15.added at ha
  rw [List.filter_eq_nil_iff] at ha
  have := ha c hc
  simpa using this

/-! ### coordinates built block by block -/

theorem mapM_blocks_keys_nodup {ρ κ : Type} (f : ρ → Except Err (List Cell)) (tag : ρ → κ) (ctag : Cell → κ)
    (hct : ∀ a b : Cell, ckey a = ckey b → ctag a = ctag b) :
    ∀ (L : List ρ) (parts : List (List Cell)), (L.map tag).Nodup → L.mapM f = .ok parts →
      (∀ r ∈ L, ∀ ys, f r = .ok ys → (ys.map ckey).Nodup ∧ ∀ c ∈ ys, ctag c = tag r) →
      (parts.flatten.map ckey).Nodup
  | [], parts, _, h, _ => by
    simp only [List.mapM_nil, pure, Except.pure] at h; cases h; simp
  | r :: rest, parts, hnd, h, hb => by
    obtain ⟨b, bs, hb1, hbs, rfl⟩ := mapM_ok_cons h
    simp only [List.map_cons, List.nodup_cons] at hnd
    have ih := mapM_blocks_keys_nodup f tag ctag hct rest bs hnd.2 hbs
      (fun r' hr' => hb r' (List.mem_cons_of_mem _ hr'))
    obtain ⟨hbn, hbt⟩ := hb r (by simp) b hb1
    simp only [List.flatten_cons, List.map_append]
    rw [List.nodup_append]
    refine ⟨hbn, ih, ?_⟩
    intro x hx y hy hxy
    obtain ⟨c, hc, rfl⟩ := List.mem_map.mp hx
    obtain ⟨c', hc', rfl⟩ := List.mem_map.mp hy
    obtain ⟨ys, hys, hcy⟩ := List.mem_flatten.mp hc'
    obtain ⟨r', hr', hfr'⟩ := mapM_ok_mem hbs ys hys
    have h1 := hbt c hc
    have h2 := (hb r' (List.mem_cons_of_mem _ hr') ys hfr').2 c' hcy
    apply hnd.1
    rw [← h1, hct c c' hxy, h2]
    exact List.mem_map_of_mem hr'

theorem nodup_map_of_nodup_map {α β γ : Type} {g : α → β} {h : α → γ} {l : List α} (hg : (l.map g).Nodup)
    (hinj : ∀ p ∈ l, ∀ q ∈ l, h p = h q → g p = g q) : (l.map h).Nodup := by
  rw [List.Nodup, List.pairwise_map] at hg ⊢
  exact hg.imp_of_mem (fun {p q} hp hq hne he => hne (hinj p hp q hq he))

/-! ### month-end forms -/

theorem monthToId_nonneg {d : Date} (hv : d.valid = true) (hy : 1970 ≤ d.y) : 0 ≤ monthToId d := by
  have := ((valid_iff d).mp hv).1
  unfold monthToId; omega

/-- the integer lag of a month-aligned cell -/
def lagInt (c : Cell) : Int := monthToId c.ev - monthToId c.pe

theorem devLag_lagInt {c : Cell} (hc : MonthAligned c) : c.devLag = ((lagInt c : Int) : Rat) := by
  obtain ⟨_, h2, _, h4, _, _⟩ := hc
  exact devLagMonths_monthEnds h2 h4

theorem ev_monthEndOf {c : Cell} (hc : MonthAligned c) : c.ev = monthEndOf (monthToId c.pe + lagInt c) := by
  obtain ⟨_, _, h3, h4, _, _⟩ := hc
  have : monthToId c.pe + lagInt c = monthToId c.ev := by unfold lagInt; omega
  rw [this, monthEndOf_monthToId h3 h4]

/-- `add_months(period_end, k)` for an integer `k` landing in a month from 1970 on is that month's end -/
theorem addMonths_form {c : Cell} (hc : MonthAligned c) {k : Int} (h70 : 0 ≤ monthToId c.pe + k) :
    addMonths c.pe ((k : Int) : Rat) = monthEndOf (monthToId c.pe + k) := by
  obtain ⟨hpv, hpe, _, _, _, _⟩ := hc
  obtain ⟨day, _, _, hday, hform⟩ := addMonths_int_form c.pe k hpv h70
  rw [hform, hday hpe]; rfl

theorem monthEndOf_inj {M N : Int} (h : monthEndOf M = monthEndOf N) : M = N := by
  have := congrArg monthToId h
  rwa [monthToId_monthEndOf, monthToId_monthEndOf] at this

theorem monthEndOf_lt_iff {M N : Int} : monthEndOf M < monthEndOf N ↔ M < N := by
  constructor
  · intro h
    by_contra hcon
    rcases Int.lt_or_eq_of_le (Int.not_lt.mp hcon) with h' | h'
    · have := monthEndOf_lt h'
      exact Date.lt_irrefl' _ (Date.lt_trans' h this)
    · rw [h'] at h; exact Date.lt_irrefl' _ h
  · exact monthEndOf_lt

/-- a month-aligned cell with integer lag `k` sits at `add_months(period_end, k)` -/
theorem addMonths_lag_eq_ev {c : Cell} (hc : MonthAligned c) {k : Int} (hk : c.devLag = ((k : Int) : Rat)) :
    addMonths c.pe ((k : Int) : Rat) = c.ev := by
  have hk' : k = lagInt c := by
    rw [devLag_lagInt hc] at hk
    exact_mod_cast hk.symm
  subst hk'
  have h0 : 0 ≤ monthToId c.pe + lagInt c := by
    have := monthToId_nonneg hc.2.2.1 hc.2.2.2.2.2
    unfold lagInt; omega
  rw [addMonths_form hc h0, ← ev_monthEndOf hc]

end Bermuda.Extend
