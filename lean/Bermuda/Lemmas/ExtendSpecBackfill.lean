/-
C15: the executable clauses of `backfillSpec` hold of the model's `backfill`.
-/
import Bermuda.Lemmas.ExtendSpecFill
namespace Bermuda.Extend
open Bermuda

/-! ### decomposition of a successful run -/

theorem backfill_ok {t out : List Cell} {statics : List String} {res? : Option Int} {minLag : Int}
    (h : backfill t statics res? minLag = .ok out) :
    ∃ pres parts addTri, periodResolution t = some pres ∧
      (periodRows t).mapM (fun r => backfillRow statics (resolvedRes t res?) minLag (-pres + 1) r.2) = .ok parts ∧
      Triangle.ofCells parts.flatten = .ok addTri ∧ Triangle.ofCells (t ++ addTri) = .ok out := by
  unfold backfill at h
  cases hpr : periodResolution t with
  | none => simp [hpr, bind, Except.bind, throw, throwThe, MonadExceptOf.throw] at h
  | some pres =>
    simp only [hpr, bind, Except.bind, pure, Except.pure] at h
    split at h
    · cases h
    · rename_i parts hparts
      split at h
      · cases h
      · rename_i addTri hadd
        exact ⟨pres, parts, addTri, rfl, hparts, hadd, h⟩

/-- the block one period row contributes -/
theorem backfillRow_shape {statics : List String} {res? : Option Int} {minLag minAllowed : Int}
    {row ys : List Cell} (h : backfillRow statics res? minLag minAllowed row = .ok ys) :
    ys = [] ∨ ∃ first repl res, row.head? = some first ∧ replacementValues first statics = .ok repl ∧
      res? = some res ∧ 0 < res ∧
      ys = takeValid ((List.range (backfillSteps first.devLag res (max minLag minAllowed))).map
        (backfillCell first repl res)) := by
  unfold backfillRow at h
  split at h
  · cases h; exact Or.inl rfl
  · rename_i first hfirst
    simp only [bind, Except.bind] at h
    split at h
    · cases h
    · rename_i repl hrepl
      cases res? with
      | none => simp [throw, throwThe, MonadExceptOf.throw] at h
      | some res =>
        simp only [pure, Except.pure] at h
        split at h
        · split at h
          · simp [throw, throwThe, MonadExceptOf.throw] at h
          · cases h; exact Or.inl rfl
        · rename_i hpos
          cases h
          exact Or.inr ⟨first, repl, res, hfirst, hrepl, rfl, by omega, rfl⟩

theorem takeValid_sublist : ∀ (l : List Cell), (takeValid l).Sublist l
  | [] => List.Sublist.slnil
  | c :: rest => by
    simp only [takeValid]
    split
    · exact (takeValid_sublist rest).cons_cons c
    · exact List.nil_sublist _

theorem takeValid_datesOk : ∀ (l : List Cell), ∀ c ∈ takeValid l, c.datesOk = true
  | [], c, h => by simp [takeValid] at h
  | a :: rest, c, h => by
    simp only [takeValid] at h
    split at h
    · rename_i ha
      rcases List.mem_cons.mp h with rfl | h
      · exact ha
      · exact takeValid_datesOk rest c h
    · simp at h

/-! ### the head of a period row -/

structure PRowFacts (t : List Cell) (row : Period × List Cell) (first : Cell) : Prop where
  head : row.2.head? = some first
  mem : first ∈ t
  period : cellPeriod first = row.1
  earliest : ∀ o ∈ t, rowKey o = rowKey first → ¬ (o.ev < first.ev)
  lowest : ∀ o ∈ t, cellPeriod o = row.1 → Metadata.cmp first.md o.md ≠ .gt

theorem mdEvCmp_not_gt {a b : Cell} (h : leOf mdEvCmp a b = true) :
    Metadata.cmp a.md b.md ≠ .gt ∧ (Metadata.cmp a.md b.md = .eq → ¬ (b.ev < a.ev)) := by
  simp only [leOf, mdEvCmp, compareLex, cmpOn, bne_iff_ne, ne_eq] at h
  cases hm : Metadata.cmp a.md b.md with
  | lt => simp
  | gt => simp [hm] at h
  | eq =>
    simp only [hm, Ordering.then] at h
    refine ⟨by simp, fun _ => ?_⟩
    exact (Date.not_gt_iff _ _).mp h

theorem prow_facts {t : List Cell} {row : Period × List Cell} (hrow : row ∈ periodRows t) :
    ∃ first, PRowFacts t row first := by
  obtain ⟨hmem, hsorted⟩ := periodRows_spec hrow
  have hne : row.2 ≠ [] := by
    unfold periodRows at hrow
    obtain ⟨p, hp, rfl⟩ := List.mem_map.mp hrow
    unfold periods at hp
    rw [(List.mergeSort_perm _ _).mem_iff, List.mem_eraseDups] at hp
    obtain ⟨c, hc, rfl⟩ := List.mem_map.mp hp
    apply List.ne_nil_of_mem (a := c)
    rw [(List.mergeSort_perm _ _).mem_iff, List.mem_filter]
    exact ⟨hc, by simp⟩
  obtain ⟨first, hf⟩ : ∃ f, row.2.head? = some f := by
    cases h : row.2 with
    | nil => exact absurd h hne
    | cons a rest => exact ⟨a, rfl⟩
  have hfr : first ∈ row.2 := List.mem_of_head? hf
  obtain ⟨hft, hfp⟩ := (hmem first).mp hfr
  refine ⟨first, hf, hft, hfp, ?_, ?_⟩
  · intro o ho hk
    have hor : o ∈ row.2 := (hmem o).mpr ⟨ho, by
      rw [← hfp]; obtain ⟨_, h2, h3⟩ := rowKey_eq_iff.mp hk; simp [cellPeriod, h2, h3]⟩
    rcases head?_min hsorted hf o hor with rfl | hle
    · exact Date.lt_irrefl' _
    · have := (mdEvCmp_not_gt hle).2
      apply this
      rw [(rowKey_eq_iff.mp hk).1]
      exact Std.ReflCmp.compare_self
  · intro o ho hp
    have hor : o ∈ row.2 := (hmem o).mpr ⟨ho, hp⟩
    rcases head?_min hsorted hf o hor with rfl | hle
    · rw [Std.ReflCmp.compare_self (cmp := Metadata.cmp)]; simp
    · exact (mdEvCmp_not_gt hle).1

/-! ### the domain hypothesis of the loop -/

/-- the loop of `backfill` on a row starting at `first` (the earliest observation of its slice row) runs
down to its bound: every cell it would create passes the `Cell` constructor (the Python loop `break`s at the
first `ValueError`) and lies in a month from 1970 on (`add_months` is wrong before 1970 — D8) -/
def BackfillOk (t : List Cell) (res lo : Int) : Prop :=
  ∀ first ∈ t, (∀ o ∈ t, rowKey o = rowKey first → ¬ (o.ev < first.ev)) →
    ∀ i : Nat, i < backfillSteps first.devLag res lo →
      0 ≤ monthToId first.ev - ((i : Int) + 1) * res ∧
      ({ first with
          ev := addMonths first.pe (first.devLag - (((i : Int) + 1 : Int) : Rat) * (res : Rat)) } : Cell).datesOk
        = true

theorem backfillCell_datesOk (first : Cell) (repl : Dict Val) (res : Int) (i : Nat) :
    (backfillCell first repl res i).datesOk =
      ({ first with
          ev := addMonths first.pe (first.devLag - (((i : Int) + 1 : Int) : Rat) * (res : Rat)) } : Cell).datesOk
      := rfl

theorem backfillCell_rowKey (first : Cell) (repl : Dict Val) (res : Int) (i : Nat) :
    rowKey (backfillCell first repl res i) = rowKey first := rfl

/-- the evaluation date of the `i`-th backfilled cell -/
theorem backfillCell_ev {first : Cell} (hal : MonthAligned first) (repl : Dict Val) {res : Int} {i : Nat}
    (h70 : 0 ≤ monthToId first.ev - ((i : Int) + 1) * res) :
    (backfillCell first repl res i).ev =
      monthEndOf (monthToId first.pe + (lagInt first - ((i : Int) + 1) * res)) := by
  have hcast : first.devLag - (((i : Int) + 1 : Int) : Rat) * (res : Rat)
      = (((lagInt first - ((i : Int) + 1) * res : Int)) : Rat) := by
    rw [devLag_lagInt hal]; push_cast; ring
  show addMonths first.pe (first.devLag - (((i : Int) + 1 : Int) : Rat) * (res : Rat)) = _
  rw [hcast, addMonths_form hal (by unfold lagInt; omega)]

theorem backfillCell_before {first : Cell} (hal : MonthAligned first) (repl : Dict Val) {res : Int} {i : Nat}
    (hres : 0 < res) (h70 : 0 ≤ monthToId first.ev - ((i : Int) + 1) * res) :
    (backfillCell first repl res i).ev < first.ev := by
  rw [backfillCell_ev hal repl h70, ev_monthEndOf hal, monthEndOf_lt_iff]
  have : 0 < ((i : Int) + 1) * res := Int.mul_pos (by omega) hres
  omega

/-! ### one block -/

/-- facts about the block of one period row -/
theorem backfill_block {t : List Cell} (hD : SpecDomain t) {row : Period × List Cell}
    (hrow : row ∈ periodRows t) {statics : List String} {res? : Option Int} {minLag minAllowed : Int}
    {ys : List Cell} (h : backfillRow statics res? minLag minAllowed row.2 = .ok ys)
    (hok : ∀ res, res? = some res → BackfillOk t res (max minLag minAllowed)) :
    (ys.map ckey).Nodup ∧ ∀ a ∈ ys, cellPeriod a = row.1 ∧ a.datesOk = true ∧
      ∃ first, PRowFacts t row first ∧ ∃ repl, replacementValues first statics = .ok repl ∧
        ∃ res, res? = some res ∧ 0 < res ∧ ∃ i, i < backfillSteps first.devLag res (max minLag minAllowed) ∧
          a = backfillCell first repl res i ∧ a.ev < first.ev := by
  rcases backfillRow_shape h with rfl | ⟨first, repl, res, hf, hrepl, rfl, hpos, rfl⟩
  · simp
  · obtain ⟨first', hP⟩ := prow_facts hrow
    have : first' = first := by have := hP.head; rw [hf] at this; cases this; rfl
    subst this
    have hal := hD.aligned first' hP.mem
    have hB := hok res rfl first' hP.mem hP.earliest
    constructor
    · apply List.Nodup.sublist ((takeValid_sublist _).map ckey)
      rw [List.map_map]
      apply List.Nodup.map_on ?_ List.nodup_range
      intro i hi j hj hij
      simp only [Function.comp, ckey, Prod.mk.injEq] at hij
      have h1 := hij.2
      rw [backfillCell_ev hal repl (hB i (List.mem_range.mp hi)).1,
        backfillCell_ev hal repl (hB j (List.mem_range.mp hj)).1] at h1
      have h2 := monthEndOf_inj h1
      have h3 : ((i : Int) + 1) * res = ((j : Int) + 1) * res := by omega
      have h4 := Int.eq_of_mul_eq_mul_right (by omega) h3
      omega
    · intro a ha
      have ha' := takeValid_sublist _ |>.subset ha
      obtain ⟨i, hi, rfl⟩ := List.mem_map.mp ha'
      have hi' := List.mem_range.mp hi
      refine ⟨hP.period, takeValid_datesOk _ _ ha, first', hP, repl, hrepl, res, rfl, hpos, i, hi', rfl, ?_⟩
      exact backfillCell_before hal repl hpos (hB i hi').1

/-! ### structure of the output -/

/-- everything the bridges need to know about a successful `backfill` on the domain -/
structure BackfillFacts (t out : List Cell) (statics : List String) (res? : Option Int) (minLag : Int) :
    Prop where
  canonical : Properties.C01.Canonical out
  keys : (out.map ckey).Nodup
  sub : ∀ c ∈ t, c ∈ out
  added : ∀ a ∈ out, a ∈ t ∨ ∃ pres row first repl res i, periodResolution t = some pres ∧
    row ∈ periodRows t ∧ PRowFacts t row first ∧ replacementValues first statics = .ok repl ∧
    resolvedRes t res? = some res ∧ 0 < res ∧ i < backfillSteps first.devLag res (max minLag (-pres + 1)) ∧
    a = backfillCell first repl res i ∧ a.ev < first.ev

theorem backfill_facts {t out : List Cell} {statics : List String} {res? : Option Int} {minLag : Int}
    (hD : SpecDomain t) (h : backfill t statics res? minLag = .ok out)
    (hok : ∀ res pres, resolvedRes t res? = some res → periodResolution t = some pres →
      BackfillOk t res (max minLag (-pres + 1))) :
    BackfillFacts t out statics res? minLag := by
  obtain ⟨pres, parts, addTri, hpres, hparts, hadd, hout⟩ := backfill_ok h
  have hperm := Properties.C01.ofCells_perm hout
  have hperm2 := Properties.C01.ofCells_perm hadd
  have hblock : ∀ row ∈ periodRows t, ∀ ys,
      backfillRow statics (resolvedRes t res?) minLag (-pres + 1) row.2 = .ok ys → _ :=
    fun row hrow ys hys => backfill_block hD hrow hys (fun res hres => hok res pres hres hpres)
  have hflat : ∀ a ∈ parts.flatten, ∃ row ∈ periodRows t, ∃ ys,
      backfillRow statics (resolvedRes t res?) minLag (-pres + 1) row.2 = .ok ys ∧ a ∈ ys := by
    intro a ha
    obtain ⟨ys, hys, hay⟩ := List.mem_flatten.mp ha
    obtain ⟨row, hrow, hfr⟩ := mapM_ok_mem hparts ys hys
    exact ⟨row, hrow, ys, hfr, hay⟩
  have haddfacts : ∀ a ∈ parts.flatten, a.datesOk = true ∧ ∃ row first repl res i,
      row ∈ periodRows t ∧ PRowFacts t row first ∧ replacementValues first statics = .ok repl ∧
      resolvedRes t res? = some res ∧ 0 < res ∧ i < backfillSteps first.devLag res (max minLag (-pres + 1)) ∧
      a = backfillCell first repl res i ∧ a.ev < first.ev := by
    intro a ha
    obtain ⟨row, hrow, ys, hys, hay⟩ := hflat a ha
    obtain ⟨_, hd, first, hP, repl, hrepl, res, hres, hpos, i, hi, rfl, hlt⟩ := (hblock row hrow ys hys).2 a hay
    exact ⟨hd, row, first, repl, res, i, hrow, hP, hrepl, hres, hpos, hi, rfl, hlt⟩
  refine ⟨?_, ?_, ?_, ?_⟩
  · apply Properties.C01.ofCells_canonical hout
    intro c hc
    rcases List.mem_append.mp hc with hc | hc
    · exact hD.canonical.2.2 c hc
    · exact (haddfacts c (hperm2.mem_iff.mp hc)).1
  · rw [(hperm.map ckey).nodup_iff, List.map_append, List.nodup_append]
    refine ⟨hD.nodup, ?_, ?_⟩
    · rw [(hperm2.map ckey).nodup_iff]
      apply mapM_blocks_keys_nodup
        (fun r : Period × List Cell => backfillRow statics (resolvedRes t res?) minLag (-pres + 1) r.2)
        (·.1) cellPeriod
        (fun a b hab => by
          simp only [ckey, Prod.mk.injEq] at hab
          obtain ⟨_, h2, h3⟩ := rowKey_eq_iff.mp hab.1
          simp [cellPeriod, h2, h3])
        _ _ (periodRows_keys_nodup t) hparts
      intro row hrow ys hys
      exact ⟨(hblock row hrow ys hys).1, fun c hc => ((hblock row hrow ys hys).2 c hc).1⟩
    · intro x hx y hy hxy
      obtain ⟨o, ho, rfl⟩ := List.mem_map.mp hx
      obtain ⟨a, ha, rfl⟩ := List.mem_map.mp hy
      obtain ⟨_, row, first, repl, res, i, _, hP, _, _, _, _, rfl, hlt⟩ := haddfacts a (hperm2.mem_iff.mp ha)
      simp only [ckey, Prod.mk.injEq] at hxy
      apply hP.earliest o ho (by rw [hxy.1]; rfl)
      rw [hxy.2]; exact hlt
  · exact fun c hc => hperm.mem_iff.mpr (List.mem_append_left _ hc)
  · intro a ha
    rcases List.mem_append.mp (hperm.mem_iff.mp ha) with ha | ha
    · exact Or.inl ha
    · right
      obtain ⟨_, row, first, repl, res, i, hrow, hP, hrepl, hres, hpos, hi, rfl, hlt⟩ :=
        haddfacts a (hperm2.mem_iff.mp ha)
      exact ⟨pres, row, first, repl, res, i, hpres, hrow, hP, hrepl, hres, hpos, hi, rfl, hlt⟩

/-- completeness: every step of every period row is in the output -/
theorem backfill_cell_mem {t out : List Cell} {statics : List String} {res? : Option Int}
    {minLag pres res : Int} (h : backfill t statics res? minLag = .ok out)
    (hpres : periodResolution t = some pres) (hres : resolvedRes t res? = some res) (hpos : 0 < res)
    {row : Period × List Cell} (hrow : row ∈ periodRows t) {first : Cell} (hf : row.2.head? = some first) :
    ∃ repl, replacementValues first statics = .ok repl ∧
      ∀ i, i < backfillSteps first.devLag res (max minLag (-pres + 1)) →
        (∀ j, j ≤ i → (backfillCell first repl res j).datesOk = true) →
        backfillCell first repl res i ∈ out := by
  obtain ⟨pres', parts, addTri, hpres', hparts, hadd, hout⟩ := backfill_ok h
  rw [hpres] at hpres'; cases hpres'
  have hperm := Properties.C01.ofCells_perm hout
  have hperm2 := Properties.C01.ofCells_perm hadd
  obtain ⟨ys, hys, hrowok⟩ := mapM_ok_mem' hparts row hrow
  change backfillRow statics (resolvedRes t res?) minLag (-pres + 1) row.2 = .ok ys at hrowok
  rw [hres] at hrowok
  obtain ⟨repl, hrepl, rfl⟩ := backfillRow_ok_pos hf hpos hrowok
  refine ⟨repl, hrepl, ?_⟩
  intro i hi hok
  apply hperm.mem_iff.mpr
  apply List.mem_append_right
  apply hperm2.mem_iff.mpr
  apply List.mem_flatten.mpr
  refine ⟨_, hys, ?_⟩
  have hlen : i < ((List.range (backfillSteps first.devLag res (max minLag (-pres + 1)))).map
      (backfillCell first repl res)).length := by simpa using hi
  have := takeValid_mem _ i hlen (by
    intro j hj
    simp only [List.getElem_map, List.getElem_range]
    exact hok j hj)
  simpa using this

/-- `backfill_values` at lemma level -/
theorem replacementValues_spec {first : Cell} {statics : List String} {repl : Dict Val}
    (h : replacementValues first statics = .ok repl) :
    repl.keys = first.values.keys ∧
    ∀ kv ∈ repl, (kv.1 ∈ statics ∧ first.values.get? kv.1 = some kv.2) ∨
                 (kv.1 ∉ statics ∧ kv.2 = Val.int 0) := by
  have hinit : ReplInv first [] (first.values.map fun kv => (kv.1, Val.int 0)) := by
    constructor
    · simp [Dict.keys, List.map_map, Function.comp]
    · intro kv hkv
      obtain ⟨p, _, rfl⟩ := List.mem_map.mp hkv
      right; simp
  have := replFold statics [] _ repl hinit h
  rw [List.nil_append] at this
  exact this

end Bermuda.Extend
