/-
C15: the executable clauses `beforeFirst`, `minLag`, `values` of `backfillSpec` hold of the model's `backfill`.
-/
import Bermuda.Lemmas.ExtendSpecBackfill
namespace Bermuda.Extend
open Bermuda

theorem lag_lt_iff_same_row {t : List Cell} (hD : SpecDomain t) {a b : Cell} (ha : a ∈ t) (hb : b ∈ t)
    (hk : rowKey a = rowKey b) : a.ev < b.ev ↔ lagInt a < lagInt b := by
  rw [ev_monthEndOf (hD.aligned a ha), ev_monthEndOf (hD.aligned b hb), monthEndOf_lt_iff, pe_of_rowKey hk]
  omega

/-- the Spec's first lag of a row is the lag of the row's earliest observation -/
theorem firstLag_of_earliest {t : List Cell} (hD : SpecDomain t) {first : Cell} (hf : first ∈ t)
    (hearly : ∀ o ∈ t, rowKey o = rowKey first → ¬ (o.ev < first.ev)) {c : Cell}
    (hc : rowKey c = rowKey first) :
    Spec.C15.firstLag t c = some ((lagInt first : Int) : Rat) := by
  have hfo : first ∈ Spec.C15.rowOf t c := mem_rowOf.mpr ⟨hf, hc⟩
  have hne : (Spec.C15.rowOf t c).map (fun o => o.devLag) ≠ [] := by
    intro hnil
    have := List.mem_map_of_mem (f := fun o : Cell => o.devLag) hfo
    rw [hnil] at this; cases this
  obtain ⟨m, hm⟩ := minRat_some hne
  obtain ⟨hmem, hle⟩ := minRat_spec hm
  obtain ⟨o, ho, rfl⟩ := List.mem_map.mp hmem
  obtain ⟨hot, hok⟩ := mem_rowOf.mp ho
  have hof : rowKey o = rowKey first := hok.symm.trans hc
  unfold Spec.C15.firstLag
  rw [hm]
  have h1 : o.devLag ≤ first.devLag := hle _ (List.mem_map_of_mem (f := fun o : Cell => o.devLag) hfo)
  rw [devLag_lagInt (hD.aligned o hot), devLag_lagInt (hD.aligned first hf)] at h1
  have h1' : lagInt o ≤ lagInt first := by exact_mod_cast h1
  have h2 := (lag_lt_iff_same_row hD hot hf hof).not.mp (hearly o hot hof)
  show some o.devLag = _
  rw [devLag_lagInt (hD.aligned o hot)]
  have : lagInt o = lagInt first := by omega
  rw [this]

theorem mem_gridBelow {f : Rat} {res lo : Int} (hres : 0 < res) {l : Rat} :
    l ∈ Spec.C15.gridBelow f res lo ↔
      ∃ i : Nat, i < backfillSteps f res lo ∧ l = f - (((i : Int) + 1 : Int) : Rat) * (res : Rat) := by
  unfold Spec.C15.gridBelow backfillSteps
  rw [if_pos (by simpa using hres)]
  simp only [List.mem_map, List.mem_range]
  constructor
  · rintro ⟨i, hi, rfl⟩; exact ⟨i, hi, rfl⟩
  · rintro ⟨i, hi, rfl⟩; exact ⟨i, hi, rfl⟩

/-- unpack the facts about an added cell with the resolved parameters -/
theorem backfill_added_cell {t out : List Cell} {statics : List String} {res? : Option Int} {minLag : Int}
    (hF : BackfillFacts t out statics res? minLag) {res pres : Int}
    (hres : resolvedRes t res? = some res) (hpr : periodResolution t = some pres)
    {a : Cell} (ha : a ∈ Spec.C15.added t out) :
    ∃ row first repl i, row ∈ periodRows t ∧ PRowFacts t row first ∧
      replacementValues first statics = .ok repl ∧ 0 < res ∧
      i < backfillSteps first.devLag res (max minLag (-pres + 1)) ∧
      a = backfillCell first repl res i ∧ a.ev < first.ev := by
  obtain ⟨hao, hfree⟩ := mem_added.mp ha
  rcases hF.added a hao with hat | ⟨pres', row, first, repl, res', i, hpr', hrow, hP, hrepl, hres', hpos, hi, rfl, hlt⟩
  · exact absurd rfl (hfree a hat)
  · rw [hres] at hres'; cases hres'
    rw [hpr] at hpr'; cases hpr'
    exact ⟨row, first, repl, i, hrow, hP, hrepl, hpos, hi, rfl, hlt⟩

/-! ### `beforeFirst` -/

theorem spec_backfill_beforeFirst {t out : List Cell} {statics : List String} {res? : Option Int}
    {minLag : Int} (hD : SpecDomain t) (hF : BackfillFacts t out statics res? minLag) {res pres : Int}
    (hres : resolvedRes t res? = some res) (hpr : periodResolution t = some pres) :
    Spec.C15.backfillBeforeFirst t res (max minLag (-pres + 1)) out = true := by
  simp only [Spec.C15.backfillBeforeFirst, List.all_eq_true, Bool.and_eq_true]
  intro a ha
  obtain ⟨row, first, repl, i, hrow, hP, hrepl, hpos, hi, rfl, hlt⟩ := backfill_added_cell hF hres hpr ha
  have hk : rowKey (backfillCell first repl res i) = rowKey first := rfl
  have hal := hD.aligned first hP.mem
  constructor
  · have hfo : first ∈ Spec.C15.rowOf t (backfillCell first repl res i) := mem_rowOf.mpr ⟨hP.mem, hk⟩
    obtain ⟨m, hm⟩ := minEval_some (List.ne_nil_of_mem hfo)
    obtain ⟨⟨o, ho, hoe⟩, _⟩ := minEval_spec hm
    obtain ⟨hot, hok⟩ := mem_rowOf.mp ho
    rw [hm]
    simp only [Spec.C15.optLt, decide_eq_true_eq]
    rw [← hoe]
    exact Date.lt_of_lt_of_not_lt hlt (hP.earliest o hot (hok.symm.trans hk))
  · rw [firstLag_of_earliest hD hP.mem hP.earliest hk]
    simp only [List.any_eq_true, beq_iff_eq]
    rw [devLag_lagInt hal] at hi
    refine ⟨_, (mem_gridBelow hpos).mpr ⟨i, hi, rfl⟩, ?_⟩
    show addMonths first.pe _ = addMonths first.pe (first.devLag - _)
    rw [devLag_lagInt hal]

/-! ### `values` -/

theorem spec_backfill_values {t out : List Cell} {statics : List String} {res? : Option Int}
    {minLag : Int} (hD : SpecDomain t) (hF : BackfillFacts t out statics res? minLag) {res pres : Int}
    (hres : resolvedRes t res? = some res) (hpr : periodResolution t = some pres) :
    Spec.C15.backfillValues t statics out = true := by
  simp only [Spec.C15.backfillValues, List.all_eq_true]
  intro a ha
  obtain ⟨row, first, repl, i, hrow, hP, hrepl, hpos, hi, rfl, hlt⟩ := backfill_added_cell hF hres hpr ha
  have hk : rowKey (backfillCell first repl res i) = rowKey first := rfl
  have hfo : first ∈ Spec.C15.rowOf t (backfillCell first repl res i) := mem_rowOf.mpr ⟨hP.mem, hk⟩
  obtain ⟨s, hs⟩ := firstOf_some hfo
  obtain ⟨hsr, hsmin⟩ := firstOf_spec hs
  obtain ⟨hst, hsk⟩ := mem_rowOf.mp hsr
  have hsf : rowKey s = rowKey first := hsk.symm.trans hk
  have hsfirst : s = first := by
    apply ckey_inj_of_nodup hD.nodup hst hP.mem
    simp only [ckey, Prod.mk.injEq]
    exact ⟨hsf, Date.eq_of_not_lt (hP.earliest s hst hsf) (hsmin first hfo)⟩
  rw [hs, hsfirst]
  obtain ⟨hkeys, hvals⟩ := replacementValues_spec hrepl
  have h1 : (backfillCell first repl res i).kind = first.kind := rfl
  have h2 : (backfillCell first repl res i).prev = first.prev := rfl
  have h3 : (backfillCell first repl res i).values = repl := rfl
  simp only [h1, h2, h3, hkeys, beq_self_eq_true, Bool.true_and, List.all_eq_true]
  intro kv hkv
  rcases hvals kv hkv with ⟨hin, hget⟩ | ⟨hnin, hzero⟩
  · have : statics.contains kv.1 = true := by simpa using hin
    rw [if_pos this, hget]; simp
  · have : ¬ (statics.contains kv.1 = true) := by simpa using hnin
    rw [if_neg this, hzero]; simp

/-! ### `minLag` -/

theorem spec_backfill_minLag {t out : List Cell} {statics : List String} {res? : Option Int}
    {minLag : Int} (hD : SpecDomain t) (h : backfill t statics res? minLag = .ok out) {res pres : Int}
    (hres : resolvedRes t res? = some res) (hpr : periodResolution t = some pres) (hpos : 0 < res)
    (hok : BackfillOk t res (max minLag (-pres + 1))) :
    Spec.C15.backfillMinLag t res (max minLag (-pres + 1)) out = true := by
  simp only [Spec.C15.backfillMinLag, List.all_eq_true, Bool.or_eq_true, Bool.not_eq_true']
  intro rep hrep
  cases hfs : Spec.C15.firstSliceOfPeriod t rep with
  | false => exact Or.inl rfl
  | true =>
    right
    obtain ⟨row, hrow, hrp, hrr⟩ := periodRows_cover hrep
    obtain ⟨first, hP⟩ := prow_facts hrow
    have hper : cellPeriod first = cellPeriod rep := hP.period.trans hrp
    simp only [cellPeriod, Prod.mk.injEq] at hper
    -- `first` is in the slice of `rep`
    have hmd : first.md = rep.md := by
      simp only [Spec.C15.firstSliceOfPeriod, List.all_eq_true, List.mem_filter, Bool.and_eq_true,
        beq_iff_eq, bne_iff_ne, ne_eq, and_imp] at hfs
      have h1 := hfs first hP.mem hper.1 hper.2
      have h2 := hP.lowest rep hrep hrp.symm
      have heq : Metadata.cmp first.md rep.md = .eq :=
        leOf_antisymm (cmp := Metadata.cmp) (by simpa [leOf] using h2) (by simpa [leOf] using h1)
      exact (Metadata.cmp_eq_eq (hD.canon first hP.mem) (hD.canon rep hrep)).mp heq
    have hk : rowKey rep = rowKey first := rowKey_eq_iff.mpr ⟨hmd.symm, hper.1.symm, hper.2.symm⟩
    have hal := hD.aligned first hP.mem
    rw [firstLag_of_earliest hD hP.mem hP.earliest hk]
    simp only [List.all_eq_true, List.any_eq_true, Bool.and_eq_true, beq_iff_eq]
    intro l hl
    obtain ⟨i, hi, rfl⟩ := (mem_gridBelow hpos).mp hl
    rw [← devLag_lagInt hal] at hi
    have hB := hok first hP.mem hP.earliest
    obtain ⟨repl, hrepl, hall⟩ := backfill_cell_mem h hpr hres hpos hrow hP.head
    have hmem := hall i hi (fun j hj => by
      rw [backfillCell_datesOk]; exact (hB j (by omega)).2)
    have hlt := backfillCell_before hal repl hpos (hB i hi).1
    refine ⟨backfillCell first repl res i, mem_added.mpr ⟨hmem, ?_⟩, ?_, ?_⟩
    · intro o ho hko
      simp only [ckey, Prod.mk.injEq] at hko
      apply hP.earliest o ho (by rw [← hko.1]; rfl)
      rw [← hko.2]; exact hlt
    · exact sameRow_iff'.mpr hk.symm
    · show addMonths first.pe (first.devLag - _) = addMonths rep.pe _
      rw [devLag_lagInt hal, hper.2]

end Bermuda.Extend
