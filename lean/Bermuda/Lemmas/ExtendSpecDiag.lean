/-
C15: the executable clauses of `rightDiagSpec` hold of the model's outputs.
-/
import Bermuda.Lemmas.ExtendSpecTri
namespace Bermuda.Extend
open Bermuda

/-! ### `make_right_diagonal` (include_historic = False) -/

theorem RightDiagCell.facts {cum : List Cell} {dates : List Date} {n : Cell}
    (h : RightDiagCell cum dates false n) :
    ∃ e ∈ cum, n = emptyCell e n.ev ∧ n.ev ∈ dates ∧ e.ps ≤ n.ev ∧
      ∀ o ∈ cum, o.md = n.md → o.ev < n.ev := by
  obtain ⟨p, hp, edge, hedge, e, he, d, hd, hle, rfl⟩ := h
  obtain ⟨hep, _⟩ := rightEdge_latest hedge he
  obtain ⟨het, hem⟩ := (slices_spec hp e).mp hep
  obtain ⟨m, hm⟩ := maxEval_some (List.ne_nil_of_mem hep)
  simp only [diagDatesOf, Bool.false_eq_true, if_false, hm, List.mem_filter, decide_eq_true_eq] at hd
  refine ⟨e, het, rfl, hd.1, hle, ?_⟩
  intro o ho hmd
  have hop : o ∈ p.2 := (slices_spec hp o).mpr ⟨ho, hmd.trans hem⟩
  exact Date.lt_of_not_gt_of_lt (maxEval_ge hm o hop) hd.2

structure DiagFacts (t cum new out : List Cell) (dates : List Date) (hist : Bool := false) : Prop where
  cumOf : CumOf t cum
  iff : ∀ n, n ∈ new ↔ RightDiagCell cum dates hist n
  fwd : ∀ c ∈ out, ∃ n ∈ new, rowKey c = rowKey n ∧ c.ev = n.ev
  bwd : ∀ n ∈ new, ∃ c ∈ out, rowKey c = rowKey n ∧ c.ev = n.ev
  edges : ∀ p ∈ Triangle.slices cum, ∃ edge, Triangle.rightEdge p.2 = .ok edge
  chain : Triangle.isIncremental t = true → ∀ c ∈ out, ChainCell t new c
  empties : ∀ n ∈ new, n.kind = .cumulative ∧ n.values = [] ∧ n.prev = none
  fin : finishRight t new = .ok out
  newOk : ∀ n ∈ new, n.datesOk = true
  cumPerm : Triangle.isIncremental t = false → out.Perm new
  newEq : rightDiagonalCells cum dates hist = .ok new

theorem rightDiagonalCells_edges {cum new : List Cell} {dates : List Date} {hist : Bool}
    (h : rightDiagonalCells cum dates hist = .ok new) :
    ∀ p ∈ Triangle.slices cum, ∃ edge, Triangle.rightEdge p.2 = .ok edge := by
  unfold rightDiagonalCells at h
  simp only [bind, Except.bind, pure, Except.pure] at h
  split at h
  · cases h
  · rename_i parts hparts
    intro p hp
    obtain ⟨ys, _, hys⟩ := mapM_ok_mem' hparts p hp
    unfold rightDiagonalSlice at hys
    simp only [bind, Except.bind] at hys
    split at hys
    · cases hys
    · rename_i edge hedge; exact ⟨edge, hedge⟩

theorem RightDiagCell.src {cum : List Cell} {dates : List Date} {hist : Bool} {n : Cell}
    (h : RightDiagCell cum dates hist n) :
    ∃ e ∈ cum, n = emptyCell e n.ev ∧ n.ev ∈ dates ∧ e.ps ≤ n.ev := by
  obtain ⟨p, hp, edge, hedge, e, he, d, hd, hle, rfl⟩ := h
  refine ⟨e, mem_of_mem_slices hp (rightEdge_latest hedge he).1, rfl, ?_, hle⟩
  revert hd
  unfold diagDatesOf
  split
  · exact id
  · split
    · intro hd; exact (List.mem_filter.mp hd).1
    · exact id

theorem rightDiag_facts {t out : List Cell} {dates : List Date} {hist : Bool}
    (h : makeRightDiagonal t dates hist = .ok out) :
    ∃ cum new, DiagFacts t cum new out dates hist := by
  cases hinc : Triangle.isIncremental t with
  | false =>
    obtain ⟨new, hnew, hfin⟩ := makeRightDiagonal_fin hinc h
    have hperm := finishRight_cum hinc hfin
    exact ⟨t, new, Or.inl ⟨hinc, rfl⟩, rightDiagonalCells_mem hnew,
      fun c hc => ⟨c, hperm.mem_iff.mp hc, rfl, rfl⟩, fun n hn => ⟨n, hperm.mem_iff.mpr hn, rfl, rfl⟩,
      rightDiagonalCells_edges hnew, (fun h' => by rw [hinc] at h'; cases h'),
      fun n hn => RightDiagCell.empty ((rightDiagonalCells_mem hnew n).mp hn), hfin,
      rightDiagonalCells_datesOk hnew, fun _ => hperm, hnew⟩
  | true =>
    obtain ⟨cum, new, right, hcum, hni, hnew, hright, hperm, hfin⟩ := rightDiag_reduces hinc h
    have hiff := rightDiagonalCells_mem hnew
    have hempty : ∀ n ∈ new, n.kind = .cumulative ∧ n.values = [] ∧ n.prev = none :=
      fun n hn => RightDiagCell.empty ((hiff n).mp hn)
    have hchain := finishRight_inc hinc hempty hfin
    refine ⟨cum, new, Or.inr ⟨hinc, hcum⟩, hiff, ?_, ?_, rightDiagonalCells_edges hnew, fun _ => hchain,
      hempty, hfin, rightDiagonalCells_datesOk hnew, (fun h' => by rw [hinc] at h'; cases h'), hnew⟩
    · intro c hc
      obtain ⟨_, _, hch⟩ := hchain c hc
      rcases hch with ⟨_, _, _, _, _, _, _, ⟨n, hn, hk, he⟩, _⟩ | ⟨_, _, b, hb, _, hk, _, he, _⟩
      · exact ⟨n, hn, hk.symm, he.symm⟩
      · exact ⟨b, hb, hk.symm, he⟩
    · apply finishRight_inc_cover hinc hempty ?_ hfin
      intro n hn
      obtain ⟨e, he, hne, _⟩ := ((hiff n).mp hn).src
      obtain ⟨_, x, hx, hxk, _⟩ := (toCumulative_cells hinc hcum).1 e he
      obtain ⟨h1, h2, h3⟩ := rowKey_eq_iff.mp hxk
      refine ⟨x, hx, ?_, ?_⟩
      · rw [hne]; exact h1
      · rw [hne]; show (x.ps, x.pe) = (e.ps, e.pe); rw [h2, h3]

/-- per-cell facts of the result relative to the observed triangle -/
theorem DiagFacts.cell {t cum new out : List Cell} {dates : List Date} (hf : DiagFacts t cum new out dates)
    {c : Cell} (hc : c ∈ out) :
    c.ev ∈ dates ∧ c.ps ≤ c.ev ∧ (∃ x ∈ t, rowKey x = rowKey c) ∧ ∀ o ∈ t, o.md = c.md → o.ev < c.ev := by
  have hg := hf.cumOf.sameGrid
  obtain ⟨n, hn, hk, hev⟩ := hf.fwd c hc
  obtain ⟨e, he, hne, hd, hle, hafter⟩ := ((hf.iff n).mp hn).facts
  have hkn : rowKey n = rowKey e := by rw [hne]; rfl
  obtain ⟨x, hx, hxk, _⟩ := hg.1 e he
  refine ⟨by rw [hev]; exact hd, ?_, ⟨x, hx, hxk.trans (hk.trans hkn).symm⟩, ?_⟩
  · rw [hev, (rowKey_eq_iff.mp (hk.trans hkn)).2.1]; exact hle
  · intro o ho hm
    obtain ⟨o', ho', hok, hoe⟩ := hg.2 o ho
    have := hafter o' ho' (by rw [md_of_rowKey hok, hm, md_of_rowKey hk])
    rw [hoe, ← hev] at this; exact this

theorem sliceMax_lt {t : List Cell} {c x : Cell} (hx : x ∈ t) (hxm : x.md = c.md) {d : Date}
    (h : ∀ o ∈ t, o.md = c.md → o.ev < d) : Spec.C15.optLt (Spec.C15.sliceMax t c) (some d) = true := by
  have hxs : x ∈ Spec.C15.sliceOf t c := mem_sliceOf.mpr ⟨hx, hxm⟩
  obtain ⟨m, hm⟩ := maxEval_some (List.ne_nil_of_mem hxs)
  obtain ⟨o, ho, hoe⟩ := maxEval_mem hm
  obtain ⟨hot, hom⟩ := mem_sliceOf.mp ho
  unfold Spec.C15.sliceMax
  rw [hm]
  simp only [Spec.C15.optLt, decide_eq_true_eq]
  rw [← hoe]; exact h o hot hom

theorem spec_rightDiag_onGrid {t cum new out : List Cell} {dates : List Date}
    (hf : DiagFacts t cum new out dates) : Spec.C15.rightDiagOnGrid t dates out = true := by
  simp only [Spec.C15.rightDiagOnGrid, List.all_eq_true, Bool.and_eq_true, decide_eq_true_eq]
  intro c hc
  obtain ⟨hd, hle, ⟨x, hx, hxk⟩, hafter⟩ := hf.cell hc
  exact ⟨⟨by simpa using hd, sliceMax_lt hx (md_of_rowKey hxk) hafter⟩, hle⟩

theorem spec_rightDiag_complete {t cum new out : List Cell} {dates : List Date}
    (hf : DiagFacts t cum new out dates) : Spec.C15.rightDiagComplete t dates out = true := by
  have hg := hf.cumOf.sameGrid
  simp only [Spec.C15.rightDiagComplete, List.all_eq_true, Bool.or_eq_true, Bool.not_eq_true']
  intro rep hrep d hd
  by_cases hcond : (Spec.C15.optLt (Spec.C15.sliceMax t rep) (some d) && decide (rep.ps ≤ d)) = true
  swap
  · left; simpa using hcond
  right
  simp only [Bool.and_eq_true, decide_eq_true_eq] at hcond
  obtain ⟨hlt, hps⟩ := hcond
  obtain ⟨rep', hrep', hrk, _⟩ := hg.2 rep hrep
  obtain ⟨p, hp, hpm, hrp⟩ := slices_cover hrep'
  obtain ⟨edge, hedge⟩ := hf.edges p hp
  obtain ⟨e, he, hem, hep⟩ := rightEdge_cover hedge hrp
  have hke : rowKey e = rowKey rep := by
    have h1 : rowKey e = rowKey rep' := by
      rw [rowKey_eq_iff]
      simp only [cellPeriod, Prod.mk.injEq] at hep
      exact ⟨hem, hep.1, hep.2⟩
    exact h1.trans hrk
  -- `d` is kept for the slice: it exceeds the slice's latest evaluation date
  have hdd : d ∈ diagDatesOf dates false p.2 := by
    obtain ⟨m, hm⟩ := maxEval_some (List.ne_nil_of_mem hrp)
    simp only [diagDatesOf, Bool.false_eq_true, if_false, hm, List.mem_filter, decide_eq_true_eq]
    refine ⟨hd, ?_⟩
    obtain ⟨o', ho', hoe'⟩ := maxEval_mem hm
    obtain ⟨ho'c, ho'm⟩ := (slices_spec hp o').mp ho'
    obtain ⟨o, ho, hok, hoe⟩ := hg.1 o' ho'c
    have hom : o.md = rep.md := by rw [md_of_rowKey hok, ho'm, hpm, md_of_rowKey hrk]
    have hos : o ∈ Spec.C15.sliceOf t rep := mem_sliceOf.mpr ⟨ho, hom⟩
    unfold Spec.C15.sliceMax at hlt
    obtain ⟨m2, hm2⟩ := maxEval_some (List.ne_nil_of_mem hos)
    rw [hm2] at hlt
    simp only [Spec.C15.optLt, decide_eq_true_eq] at hlt
    have := maxEval_ge hm2 o hos
    rw [← hoe', ← hoe]
    exact Date.lt_of_not_gt_of_lt this hlt
  have hcell : RightDiagCell cum dates false (emptyCell e d) :=
    ⟨p, hp, edge, hedge, e, he, d, hdd, by rw [(rowKey_eq_iff.mp hke).2.1]; exact hps, rfl⟩
  obtain ⟨c, hc, hck, hce⟩ := hf.bwd _ ((hf.iff _).mpr hcell)
  simp only [List.any_eq_true, Bool.and_eq_true, beq_iff_eq]
  exact ⟨c, hc, sameRow_iff'.mpr (hck.trans hke), hce⟩

theorem spec_rightDiag_emptyWhenComplete {t cum new out : List Cell} {dates : List Date}
    (hf : DiagFacts t cum new out dates) :
    (!(Spec.C15.rightDiagNothingMissing t dates) || out.isEmpty) = true := by
  cases out with
  | nil => simp
  | cons c rest =>
    obtain ⟨hd, hle, ⟨x, hx, hxk⟩, hafter⟩ := hf.cell (c := c) (by simp)
    simp only [Bool.or_eq_true, Bool.not_eq_true', List.isEmpty_cons, Bool.false_eq_true, or_false]
    simp only [Spec.C15.rightDiagNothingMissing]
    rw [List.all_eq_false]
    refine ⟨x, hx, ?_⟩
    simp only [Bool.not_eq_true, List.all_eq_false]
    refine ⟨c.ev, hd, ?_⟩
    have h1 : Spec.C15.optLt (Spec.C15.sliceMax t x) (some c.ev) = true := by
      unfold Spec.C15.sliceMax
      rw [sliceOf_congr (md_of_rowKey hxk)]
      exact sliceMax_lt hx (md_of_rowKey hxk) hafter
    have h2 : x.ps ≤ c.ev := by rw [(rowKey_eq_iff.mp hxk).2.1]; exact hle
    simp [h1, h2]

end Bermuda.Extend
