/-
C15: `make_right_diagonal(include_historic=True)` — the clauses that hold of the model's output, and the
re-creation of occupied coordinates.
-/
import Bermuda.Lemmas.ExtendNodup
namespace Bermuda.Extend
open Bermuda

theorem DiagFacts.histCell {t cum new out : List Cell} {dates : List Date} {hist : Bool}
    (hf : DiagFacts t cum new out dates hist) {c : Cell} (hc : c ∈ out) :
    c.ev ∈ dates ∧ c.ps ≤ c.ev ∧ ∃ x ∈ t, rowKey x = rowKey c := by
  have hg := hf.cumOf.sameGrid
  obtain ⟨n, hn, hk, hev⟩ := hf.fwd c hc
  obtain ⟨e, he, hne, hd, hle⟩ := ((hf.iff n).mp hn).src
  have hkn : rowKey n = rowKey e := by rw [hne]; rfl
  obtain ⟨x, hx, hxk, _⟩ := hg.1 e he
  refine ⟨by rw [hev]; exact hd, ?_, x, hx, hxk.trans (hk.trans hkn).symm⟩
  rw [hev, (rowKey_eq_iff.mp (hk.trans hkn)).2.1]; exact hle

theorem spec_rightDiagHist_onGrid {t cum new out : List Cell} {dates : List Date} {hist : Bool}
    (hf : DiagFacts t cum new out dates hist) : Spec.C15.rightDiagHistOnGrid t dates out = true := by
  simp only [Spec.C15.rightDiagHistOnGrid, List.all_eq_true, Bool.and_eq_true, decide_eq_true_eq,
    Bool.not_eq_true', List.isEmpty_eq_false_iff]
  intro c hc
  obtain ⟨hd, hle, x, hx, hxk⟩ := hf.histCell hc
  exact ⟨⟨by simpa using hd, hle⟩, List.ne_nil_of_mem (mem_rowOf.mpr ⟨hx, hxk.symm⟩)⟩

theorem spec_rightDiagHist_complete {t cum new out : List Cell} {dates : List Date}
    (hf : DiagFacts t cum new out dates true) : Spec.C15.rightDiagHistComplete t dates out = true := by
  have hg := hf.cumOf.sameGrid
  simp only [Spec.C15.rightDiagHistComplete, List.all_eq_true, Bool.or_eq_true, Bool.not_eq_true',
    decide_eq_false_iff_not]
  intro rep hrep d hd
  by_cases hps : rep.ps ≤ d
  swap
  · exact Or.inl hps
  right
  obtain ⟨rep', hrep', hrk, _⟩ := hg.2 rep hrep
  obtain ⟨p, hp, hpm, hrp⟩ := slices_cover hrep'
  obtain ⟨edge, hedge⟩ := hf.edges p hp
  obtain ⟨e, he, hem, hep⟩ := rightEdge_cover hedge hrp
  have hke : rowKey e = rowKey rep := by
    have h1 : rowKey e = rowKey rep' := by
      rw [rowKey_eq_iff]
      simp only [cellPeriod, Prod.mk.injEq] at hep
      exact ⟨hem, hep.1, hep.2⟩
    exact h1.trans hrk
  have hcell : RightDiagCell cum dates true (emptyCell e d) :=
    ⟨p, hp, edge, hedge, e, he, d, by simpa [diagDatesOf] using hd,
      by rw [(rowKey_eq_iff.mp hke).2.1]; exact hps, rfl⟩
  obtain ⟨c, hc, hck, hce⟩ := hf.bwd _ ((hf.iff _).mpr hcell)
  simp only [List.any_eq_true, Bool.and_eq_true, beq_iff_eq]
  exact ⟨c, hc, sameRow_iff'.mpr (hck.trans hke), hce⟩

/-- with `include_historic = True` a requested date that is the evaluation date of an observed cell `x` (not
before the period start) is served: the result has a cell on the coordinate of `x` -/
theorem rightDiag_hist_occupied {t cum new out : List Cell} {dates : List Date}
    (hf : DiagFacts t cum new out dates true) {x : Cell} (hx : x ∈ t) (hd : x.ev ∈ dates) (hps : x.ps ≤ x.ev) :
    ∃ c ∈ out, Spec.C15.sameCoord c x = true := by
  have := spec_rightDiagHist_complete hf
  simp only [Spec.C15.rightDiagHistComplete, List.all_eq_true, Bool.or_eq_true, Bool.not_eq_true',
    decide_eq_false_iff_not, List.any_eq_true, Bool.and_eq_true, beq_iff_eq] at this
  rcases this x hx x.ev hd with h | ⟨c, hc, hrow, hev⟩
  · exact absurd hps h
  · exact ⟨c, hc, by simp [Spec.C15.sameCoord, hrow, hev]⟩

end Bermuda.Extend
