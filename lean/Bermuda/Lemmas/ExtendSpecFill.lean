/-
C15: the executable clauses of `fillSpec` hold of the model's `fill_forward_gaps`.
Part 1: structure of the output (coordinates pairwise different, canonical form, observed cells kept).
-/
import Bermuda.Lemmas.ExtendSpecAux
namespace Bermuda.Extend
open Bermuda

/-! ### one fill step, with the constructor check -/

theorem fillStep_ok' {res : Int} {noneFlag : Bool} {d d' : LagDict} {lag : Int}
    (h : fillStep res noneFlag d lag = .ok d') :
    ∃ src, (((lag - res : Int) : Rat), src) ∈ d ∧ d' = lagSet d lag (fillCell noneFlag src lag) ∧
      (fillCell noneFlag src lag).datesOk = true := by
  unfold fillStep at h
  simp only [bind, Except.bind] at h
  split at h
  · simp [throw, throwThe, MonadExceptOf.throw] at h
  · rename_i src hg
    have hmem : (((lag - res : Int) : Rat), src) ∈ d := by
      have := lagGet_some hg
      simpa using this
    split at h
    · cases h
    · rename_i c hc
      obtain ⟨rfl, hd1⟩ := mk?_ok hc
      refine ⟨src, hmem, ?_⟩
      cases noneFlag with
      | false =>
        simp only [Bool.false_eq_true, if_false, pure, Except.pure] at h
        cases h
        exact ⟨by simp [fillCell], by simpa [fillCell] using hd1⟩
      | true =>
        simp only [if_true] at h
        split at h
        · cases h
        · rename_i c2 hc2
          obtain ⟨rfl, hd2⟩ := mk?_ok hc2
          simp only [pure, Except.pure] at h
          cases h
          exact ⟨by simp [fillCell], by simpa [fillCell] using hd2⟩

/-! ### the keys of the lag dictionary stay pairwise different -/

theorem lagSet_keys_nodup {d : LagDict} {k : Rat} {v : Cell} (h : (d.map (·.1)).Nodup) :
    ((lagSet d k v).map (·.1)).Nodup := by
  unfold lagSet
  split
  · rw [List.map_map]
    have : ((fun p : Rat × Cell => p.1) ∘ fun p => if (p.1 == k) = true then (p.1, v) else p)
        = fun p : Rat × Cell => p.1 := by
      funext p; simp only [Function.comp]; split <;> rfl
    rw [this]; exact h
  · rename_i hany
    rw [List.map_append, List.nodup_append]
    refine ⟨h, by simp, ?_⟩
    intro x hx y hy
    simp only [List.map_cons, List.map_nil, List.mem_singleton] at hy
    subst hy
    intro hxy; subst hxy
    apply hany
    obtain ⟨p, hp, hpk⟩ := List.mem_map.mp hx
    simp only [List.any_eq_true]
    exact ⟨p, hp, by simp [hpk]⟩

theorem lagDictOf_fold_keys_nodup (row : List Cell) (init : LagDict) (h : (init.map (·.1)).Nodup) :
    ((row.foldl (fun d c => lagSet d c.devLag c) init).map (·.1)).Nodup := by
  induction row generalizing init with
  | nil => exact h
  | cons a rest ih => exact ih _ (lagSet_keys_nodup h)

theorem lagDictOf_keys_nodup (row : List Cell) : ((lagDictOf row).map (·.1)).Nodup :=
  lagDictOf_fold_keys_nodup row [] (by simp)

/-- what an entry of the filled dictionary is, with no assumption on the resolution -/
def FillEntry (res : Int) (nf : Bool) (row : List Cell) (p : Rat × Cell) : Prop :=
  (p.2 ∈ row ∧ p.1 = p.2.devLag) ∨
  ∃ o ∈ row, ∃ lag ∈ newLags res row, p.1 = ((lag : Int) : Rat) ∧ p.2 = fillCell nf o lag ∧
    p.2.datesOk = true

theorem fillRow_loose {res : Int} {nf : Bool} {row : List Cell} {d : LagDict}
    (hd : (newLags res row).foldlM (fillStep res nf) (lagDictOf row) = .ok d) :
    (d.map (·.1)).Nodup ∧ ∀ p ∈ d, FillEntry res nf row p := by
  refine foldlM_inv (f := fillStep res nf)
    (fun d => (d.map (·.1)).Nodup ∧ ∀ p ∈ d, FillEntry res nf row p)
    (newLags res row) (lagDictOf row) d ?_ ?_ hd
  · exact ⟨lagDictOf_keys_nodup row, fun p hp => Or.inl (lagDictOf_mem hp)⟩
  · intro d0 x d1 hx hI hstep
    obtain ⟨src, hsrc, rfl, hok⟩ := fillStep_ok' hstep
    refine ⟨lagSet_keys_nodup hI.1, ?_⟩
    intro p hp
    rcases mem_lagSet hp with rfl | ⟨hp0, _⟩
    · right
      rcases hI.2 _ hsrc with ⟨h1, _⟩ | ⟨o, ho, lag', _, _, h2, _⟩
      · exact ⟨src, h1, x, hx, rfl, rfl, hok⟩
      · simp only at h2
        refine ⟨o, ho, x, hx, rfl, ?_, hok⟩
        show fillCell nf src x = fillCell nf o x
        rw [h2, fillCell_fillCell]
    · exact hI.2 p hp0

/-! ### one row: coordinates, slice key, constructor rules -/

theorem sliceKey_eq_iff {a b : Cell} : sliceKey a = sliceKey b ↔ rowKey a = rowKey b := by
  simp only [sliceKey, rowKey, Prod.mk.injEq]
  constructor
  · rintro ⟨h1, h2, h3⟩; exact ⟨⟨h2, h3⟩, h1⟩
  · rintro ⟨⟨h2, h3⟩, h1⟩; exact ⟨h1, h2, h3⟩

theorem fillCell_sliceKey (nf : Bool) (o : Cell) (x : Int) : sliceKey (fillCell nf o x) = sliceKey o := by
  obtain ⟨f1, f2, f3, _⟩ := fillCell_fields nf o x
  simp only [sliceKey, f1, f2, f3]

theorem newLags_ge {res : Int} {row : List Cell} (hres : 0 < res) {x : Int} (hx : x ∈ newLags res row) :
    ∃ f ∈ row, truncInt f.devLag ≤ x := by
  obtain ⟨f, l, hf, _, hrange, _⟩ := mem_newLags hx
  obtain ⟨i, hxi, _⟩ := mem_pyRange_pos hres hrange
  refine ⟨f, List.mem_of_head? hf, ?_⟩
  have : 0 ≤ res * (i : Int) := Int.mul_nonneg (by omega) (by omega)
  omega

theorem lagInt_trunc {c : Cell} (hc : MonthAligned c) : truncInt c.devLag = lagInt c := by
  rw [devLag_lagInt hc, truncInt_intCast]

/-- every entry of the filled dictionary of a month-aligned row sits at the month end `period_end + key` -/
theorem fillEntry_ev {res : Int} {nf : Bool} {row : List Cell} {k : SliceKey} (hres : 0 < res)
    (hal : ∀ c ∈ row, MonthAligned c) (hkey : ∀ c ∈ row, sliceKey c = k) {p : Rat × Cell}
    (hp : FillEntry res nf row p) :
    sliceKey p.2 = k ∧ ∃ kk : Int, p.1 = ((kk : Int) : Rat) ∧ p.2.ev = monthEndOf (monthToId k.2.2 + kk) := by
  rcases hp with ⟨h1, h2⟩ | ⟨o, ho, lag, hlag, h1, h2, _⟩
  · refine ⟨hkey _ h1, lagInt p.2, ?_, ?_⟩
    · rw [h2, devLag_lagInt (hal _ h1)]
    · have := ev_monthEndOf (hal _ h1)
      rw [this]
      have hk := hkey _ h1
      simp only [sliceKey] at hk
      rw [← hk]
  · have hk := hkey _ ho
    refine ⟨by rw [h2, fillCell_sliceKey, hk], lag, h1, ?_⟩
    obtain ⟨f, hf, hle⟩ := newLags_ge hres hlag
    rw [lagInt_trunc (hal f hf)] at hle
    have hf0 := monthToId_nonneg (hal f hf).2.2.1 (hal f hf).2.2.2.2.2
    have hpe : f.pe = o.pe := by
      have h1 := hkey _ hf; have h2 := hkey _ ho
      simp only [sliceKey] at h1 h2
      rw [← h2] at h1
      exact (Prod.mk.inj (Prod.mk.inj h1).2).2
    have h70 : 0 ≤ monthToId o.pe + lag := by
      have : lagInt f = monthToId f.ev - monthToId f.pe := rfl
      rw [← hpe]; omega
    rw [h2, (fillCell_fields nf o lag).2.2.2, addMonths_form (hal o ho) h70]
    simp only [sliceKey] at hk
    rw [← hk]

theorem fillRow_out {res : Int} {nf : Bool} {row cells : List Cell} {k : SliceKey} (hres : 0 < res)
    (hal : ∀ c ∈ row, MonthAligned c) (hkey : ∀ c ∈ row, sliceKey c = k)
    (hok : ∀ c ∈ row, c.datesOk = true) (h : fillRow res nf row = .ok cells) :
    (cells.map ckey).Nodup ∧ ∀ c ∈ cells, sliceKey c = k ∧ c.datesOk = true := by
  rcases fillRow_ok h with ⟨rfl, _⟩ | ⟨d, hd, rfl⟩
  · simp
  · obtain ⟨hnd, hent⟩ := fillRow_loose hd
    constructor
    · rw [List.map_map]
      apply nodup_map_of_nodup_map hnd
      intro p hp q hq hpq
      obtain ⟨_, kp, hkp, hep⟩ := fillEntry_ev hres hal hkey (hent p hp)
      obtain ⟨_, kq, hkq, heq⟩ := fillEntry_ev hres hal hkey (hent q hq)
      simp only [Function.comp, ckey, Prod.mk.injEq] at hpq
      have := hpq.2
      rw [hep, heq] at this
      have := monthEndOf_inj this
      have hkk : kp = kq := by omega
      show p.1 = q.1
      rw [hkp, hkq, hkk]
    · intro c hc
      obtain ⟨p, hp, rfl⟩ := List.mem_map.mp hc
      refine ⟨(fillEntry_ev hres hal hkey (hent p hp)).1, ?_⟩
      rcases hent p hp with ⟨h1, _⟩ | ⟨_, _, _, _, _, _, h3⟩
      · exact hok _ h1
      · exact h3

/-! ### the whole triangle -/

theorem slicePeriodRows_keys_nodup (t : List Cell) : ((slicePeriodRows t).map (·.1)).Nodup := by
  unfold slicePeriodRows
  rw [List.map_map]
  have : ((fun q : SliceKey × List Cell => q.1) ∘ fun k =>
      (k, (t.filter fun c => sliceKey c == k).mergeSort evLe)) = id := by
    funext p; rfl
  rw [this, List.map_id]
  exact (List.mergeSort_perm _ _).nodup_iff.mpr (nodup_eraseDups _)

theorem fillForwardGaps_ok' {t out : List Cell} {res? : Option Int} {nf : Bool}
    (h : fillForwardGaps t res? nf = .ok out) :
    (slicePeriodRows t = [] ∧ out = []) ∨
    ∃ res parts, resolvedRes t res? = some res ∧
      (slicePeriodRows t).mapM (fun r => fillRow res nf r.2) = .ok parts ∧
      Triangle.ofCells parts.flatten = .ok out := by
  unfold fillForwardGaps at h
  by_cases hr : (slicePeriodRows t).isEmpty = true
  · simp only [hr, if_true, bind, Except.bind] at h
    left
    refine ⟨by simpa using hr, ?_⟩
    have hp := Properties.C01.ofCells_perm (l := []) (t := out) (by
      revert h; cases Triangle.ofCells ([] : List Cell) <;> simp)
    simpa using hp.eq_nil
  · simp only [hr, Bool.false_eq_true, if_false, bind, Except.bind] at h
    right
    cases res? with
    | some r =>
      simp only [pure, Except.pure] at h
      split at h
      · cases h
      · rename_i parts hparts
        exact ⟨r, parts, rfl, hparts, h⟩
    | none =>
      cases he : evalDateResolution t with
      | none => simp [he, throw, throwThe, MonadExceptOf.throw] at h
      | some r =>
        simp only [he, pure, Except.pure] at h
        split at h
        · cases h
        · rename_i parts hparts
          exact ⟨r, parts, by simp [resolvedRes, he], hparts, h⟩

theorem slicePeriodRows_nil {t : List Cell} (h : slicePeriodRows t = []) : t = [] := by
  cases t with
  | nil => rfl
  | cons c rest =>
    obtain ⟨r, hr, _⟩ := row_of_mem (t := c :: rest) (c := c) (by simp)
    rw [h] at hr; cases hr

/-- the domain of the bridges: a canonical month-aligned triangle with canonical metadata and no
coordinate occupied twice -/
structure SpecDomain (t : List Cell) : Prop where
  canonical : Properties.C01.Canonical t
  canon : ∀ c ∈ t, c.md.Canon
  aligned : ∀ c ∈ t, MonthAligned c
  nodup : (t.map ckey).Nodup

/-- the lags within a slice row are pairwise different -/
theorem row_lags_nodup {t : List Cell} (hD : SpecDomain t) {r : SliceKey × List Cell}
    (hr : r ∈ slicePeriodRows t) : r.2.Pairwise (fun a b => a.devLag ≠ b.devLag) := by
  have hnd : r.2.Nodup := by
    obtain ⟨_, _, _, h2⟩ := mem_slicePeriodRows hr
    rw [h2]
    exact (List.mergeSort_perm _ _).nodup_iff.mpr ((List.Nodup.of_map _ hD.nodup).filter _)
  refine (List.Nodup.pairwise_of_forall_ne hnd ?_)
  intro a ha b hb hne hlag
  obtain ⟨hat, hak⟩ := (mem_row_iff hr a).mp ha
  obtain ⟨hbt, hbk⟩ := (mem_row_iff hr b).mp hb
  apply hne
  apply ckey_inj_of_nodup hD.nodup hat hbt
  have hk : rowKey a = rowKey b := sliceKey_eq_iff.mp (hak.trans hbk.symm)
  have hpe := pe_of_rowKey hk
  have h1 := (devLag_lt_iff (hD.aligned a hat) (hD.aligned b hbt) hpe).not
  have h2 := (devLag_lt_iff (hD.aligned b hbt) (hD.aligned a hat) hpe.symm).not
  have hev : a.ev = b.ev := Date.eq_of_not_lt (h1.mp (by rw [hlag]; exact lt_irrefl _))
    (h2.mp (by rw [hlag]; exact lt_irrefl _))
  simp only [ckey, Prod.mk.injEq]; exact ⟨hk, hev⟩

theorem fill_preserves_observed' {t out : List Cell} {res? : Option Int} {nf : Bool}
    (h : fillForwardGaps t res? nf = .ok out)
    (hnd : ∀ r ∈ slicePeriodRows t, r.2.Pairwise (fun a b => a.devLag ≠ b.devLag)) :
    ∀ c ∈ t, c ∈ out := by
  intro c hc
  obtain ⟨r, hr, _, hcr⟩ := row_of_mem hc
  rcases fillForwardGaps_ok h with ⟨hempty, _⟩ | ⟨res, parts, _, hparts, hperm⟩
  · rw [hempty] at hr; cases hr
  · obtain ⟨ys, hys, hfy⟩ := mapM_ok_mem' hparts r hr
    exact hperm.mem_iff.mpr (List.mem_flatten.mpr ⟨ys, hys, fillRow_preserves hfy (hnd r hr) c hcr⟩)

/-- structure of the output of `fill_forward_gaps` on the domain, for a positive resolution: sorted,
one cell class, constructor rules, pairwise different coordinates, every observed cell present -/
theorem fill_out_structure {t out : List Cell} {res? : Option Int} {nf : Bool} (hD : SpecDomain t)
    (h : fillForwardGaps t res? nf = .ok out)
    (hpos : ∀ res, resolvedRes t res? = some res → 0 < res) :
    Properties.C01.Canonical out ∧ (out.map ckey).Nodup ∧ ∀ c ∈ t, c ∈ out := by
  have hsub := fill_preserves_observed' h (fun r hr => row_lags_nodup hD hr)
  rcases fillForwardGaps_ok' h with ⟨_, rfl⟩ | ⟨res, parts, hres, hparts, hof⟩
  · exact ⟨⟨List.Pairwise.nil, rfl, by simp⟩, by simp, hsub⟩
  · have hres0 := hpos res hres
    have hrows : ∀ r ∈ slicePeriodRows t, ∀ ys, fillRow res nf r.2 = .ok ys →
        (ys.map ckey).Nodup ∧ ∀ c ∈ ys, sliceKey c = r.1 ∧ c.datesOk = true := by
      intro r hr ys hys
      exact fillRow_out hres0 (fun c hc => hD.aligned c ((mem_row_iff hr c).mp hc).1)
        (fun c hc => ((mem_row_iff hr c).mp hc).2)
        (fun c hc => hD.canonical.2.2 c ((mem_row_iff hr c).mp hc).1) hys
    have hperm := Properties.C01.ofCells_perm hof
    refine ⟨Properties.C01.ofCells_canonical hof ?_, ?_, hsub⟩
    · intro c hc
      obtain ⟨ys, hys, hcy⟩ := List.mem_flatten.mp hc
      obtain ⟨r, hr, hfr⟩ := mapM_ok_mem hparts ys hys
      exact ((hrows r hr ys hfr).2 c hcy).2
    · rw [(hperm.map ckey).nodup_iff]
      apply mapM_blocks_keys_nodup (fun r : SliceKey × List Cell => fillRow res nf r.2) (·.1) sliceKey
        (fun a b hab => by
          simp only [ckey, Prod.mk.injEq] at hab
          exact sliceKey_eq_iff.mpr hab.1)
        _ _ (slicePeriodRows_keys_nodup t) hparts
      intro r hr ys hys
      exact ⟨(hrows r hr ys hys).1, fun c hc => ((hrows r hr ys hys).2 c hc).1⟩

end Bermuda.Extend
