/-
C15: the executable clauses of `fillSpec` hold of the model's `fill_forward_gaps`.
Part 2: the placement clauses (`insideGaps`, `complete`, `values`, `emptyWhenComplete`) and the grid
hypothesis from the Bool `fillCompatible`.
-/
import Bermuda.Lemmas.ExtendSpecFill
namespace Bermuda.Extend
open Bermuda

/-! ### first / last cell of an evaluation-date-sorted slice row -/

theorem evLe_eq : evLe = leOf evCmp := by funext a b; rfl

structure RowFacts (r : SliceKey × List Cell) (f l : Cell) : Prop where
  hf : r.2.head? = some f
  hl : r.2.getLast? = some l
  fmin : ∀ o ∈ r.2, ¬ (o.ev < f.ev)
  lmax : ∀ o ∈ r.2, ¬ (l.ev < o.ev)

theorem head_min {l : List Cell} (hs : l.Pairwise (fun a b => leOf evCmp a b)) {f : Cell}
    (hf : l.head? = some f) : ∀ o ∈ l, ¬ (o.ev < f.ev) := by
  cases l with
  | nil => simp at hf
  | cons a rest =>
    simp only [List.head?_cons, Option.some.injEq] at hf; subst hf
    intro o ho
    rcases List.mem_cons.mp ho with rfl | ho
    · exact Date.lt_irrefl' _
    · have := (List.pairwise_cons.mp hs).1 o ho
      have h2 : Date.cmp a.ev o.ev ≠ .gt := by simpa [leOf, evCmp, cmpOn] using this
      exact (Date.not_gt_iff _ _).mp h2

theorem row_facts {t : List Cell} {r : SliceKey × List Cell} (hr : r ∈ slicePeriodRows t) :
    ∃ f l, RowFacts r f l := by
  obtain ⟨c0, hc0, hk, h2⟩ := mem_slicePeriodRows hr
  have hc0r : c0 ∈ r.2 := (mem_row_iff hr c0).mpr ⟨hc0, hk.symm⟩
  have hsorted : r.2.Pairwise (fun a b => leOf evCmp a b) := by
    rw [h2, evLe_eq]; exact sorted_mergeSort (cmp := evCmp) _
  have hne : r.2 ≠ [] := List.ne_nil_of_mem hc0r
  obtain ⟨f, hf⟩ : ∃ f, r.2.head? = some f := by
    cases h : r.2 with
    | nil => exact absurd h hne
    | cons a rest => exact ⟨a, rfl⟩
  obtain ⟨l, hl⟩ : ∃ l, r.2.getLast? = some l := by
    cases h : r.2.getLast? with
    | none => exact absurd (List.getLast?_eq_none_iff.mp h) hne
    | some l => exact ⟨l, rfl⟩
  refine ⟨f, l, hf, hl, head_min hsorted hf, ?_⟩
  intro o ho
  rcases getLast?_max hsorted hl o ho with hle | rfl
  · have h2 : Date.cmp o.ev l.ev ≠ .gt := by simpa [leOf, evCmp, cmpOn] using hle
    exact (Date.not_gt_iff _ _).mp h2
  · exact Date.lt_irrefl' _

/-- the Spec's row of a cell on the slice row `r` has the members of `r` -/
theorem mem_rowOf_row {t : List Cell} {r : SliceKey × List Cell} (hr : r ∈ slicePeriodRows t) {c : Cell}
    (hc : sliceKey c = r.1) (o : Cell) : o ∈ Spec.C15.rowOf t c ↔ o ∈ r.2 := by
  rw [mem_rowOf, mem_row_iff hr, ← hc, sliceKey_eq_iff]
  constructor
  · rintro ⟨h1, h2⟩; exact ⟨h1, h2.symm⟩
  · rintro ⟨h1, h2⟩; exact ⟨h1, h2.symm⟩

/-- cells of a slice row of the domain: month end at `period_end + lagInt` -/
theorem row_cell {t : List Cell} (hD : SpecDomain t) {r : SliceKey × List Cell}
    (hr : r ∈ slicePeriodRows t) {c : Cell} (hc : c ∈ r.2) :
    c ∈ t ∧ MonthAligned c ∧ sliceKey c = r.1 ∧ c.pe = r.1.2.2 ∧
      c.ev = monthEndOf (monthToId r.1.2.2 + lagInt c) ∧ 0 ≤ monthToId r.1.2.2 + lagInt c := by
  obtain ⟨hct, hck⟩ := (mem_row_iff hr c).mp hc
  have hal := hD.aligned c hct
  have hpe : c.pe = r.1.2.2 := by rw [← hck]; rfl
  refine ⟨hct, hal, hck, hpe, by rw [← hpe]; exact ev_monthEndOf hal, ?_⟩
  rw [← hpe]
  have := monthToId_nonneg hal.2.2.1 hal.2.2.2.2.2
  unfold lagInt; omega

theorem row_lag_lt_iff {t : List Cell} (hD : SpecDomain t) {r : SliceKey × List Cell}
    (hr : r ∈ slicePeriodRows t) {a b : Cell} (ha : a ∈ r.2) (hb : b ∈ r.2) :
    a.ev < b.ev ↔ lagInt a < lagInt b := by
  obtain ⟨_, _, _, _, h1, _⟩ := row_cell hD hr ha
  obtain ⟨_, _, _, _, h2, _⟩ := row_cell hD hr hb
  rw [h1, h2, monthEndOf_lt_iff]; omega

theorem firstLag_row {t : List Cell} (hD : SpecDomain t) {r : SliceKey × List Cell}
    (hr : r ∈ slicePeriodRows t) {f l : Cell} (hF : RowFacts r f l) {c : Cell} (hc : sliceKey c = r.1) :
    Spec.C15.firstLag t c = some ((lagInt f : Int) : Rat) := by
  have hfr : f ∈ r.2 := List.mem_of_head? hF.hf
  have hne : (Spec.C15.rowOf t c).map (fun o => o.devLag) ≠ [] := by
    intro hnil
    have := List.mem_map_of_mem (f := fun o : Cell => o.devLag) ((mem_rowOf_row hr hc f).mpr hfr)
    rw [hnil] at this; cases this
  obtain ⟨m, hm⟩ := minRat_some hne
  obtain ⟨hmem, hle⟩ := minRat_spec hm
  obtain ⟨o, ho, rfl⟩ := List.mem_map.mp hmem
  have hor := (mem_rowOf_row hr hc o).mp ho
  unfold Spec.C15.firstLag
  rw [hm]
  have h1 : o.devLag ≤ f.devLag :=
    hle _ (List.mem_map_of_mem (f := fun o : Cell => o.devLag) ((mem_rowOf_row hr hc f).mpr hfr))
  rw [devLag_lagInt (row_cell hD hr hor).2.1, devLag_lagInt (row_cell hD hr hfr).2.1] at h1
  have h1' : lagInt o ≤ lagInt f := by exact_mod_cast h1
  have h2 := (row_lag_lt_iff hD hr hor hfr).not.mp (hF.fmin o hor)
  show some o.devLag = _
  rw [devLag_lagInt (row_cell hD hr hor).2.1]
  have : lagInt o = lagInt f := by omega
  rw [this]

theorem lastLag_row {t : List Cell} (hD : SpecDomain t) {r : SliceKey × List Cell}
    (hr : r ∈ slicePeriodRows t) {f l : Cell} (hF : RowFacts r f l) {c : Cell} (hc : sliceKey c = r.1) :
    Spec.C15.lastLag t .month c = some ((lagInt l : Int) : Rat) := by
  have hlr : l ∈ r.2 := List.mem_of_getLast? hF.hl
  have hne : (Spec.C15.rowOf t c).map (fun o => o.devLag .month) ≠ [] := by
    intro hnil
    have := List.mem_map_of_mem (f := fun o : Cell => o.devLag .month) ((mem_rowOf_row hr hc l).mpr hlr)
    rw [hnil] at this; cases this
  obtain ⟨m, hm⟩ := maxRat_some hne
  obtain ⟨hmem, hle⟩ := maxRat_spec hm
  obtain ⟨o, ho, rfl⟩ := List.mem_map.mp hmem
  have hor := (mem_rowOf_row hr hc o).mp ho
  unfold Spec.C15.lastLag
  rw [hm]
  have h1 : l.devLag ≤ o.devLag :=
    hle _ (List.mem_map_of_mem (f := fun o : Cell => o.devLag .month) ((mem_rowOf_row hr hc l).mpr hlr))
  rw [devLag_lagInt (row_cell hD hr hor).2.1, devLag_lagInt (row_cell hD hr hlr).2.1] at h1
  have h1' : lagInt l ≤ lagInt o := by exact_mod_cast h1
  have h2 := (row_lag_lt_iff hD hr hlr hor).not.mp (hF.lmax o hor)
  show some o.devLag = _
  rw [devLag_lagInt (row_cell hD hr hor).2.1]
  have : lagInt o = lagInt l := by omega
  rw [this]

theorem innerGrid_row {t : List Cell} (hD : SpecDomain t) {r : SliceKey × List Cell}
    (hr : r ∈ slicePeriodRows t) {f l : Cell} (hF : RowFacts r f l) {c : Cell} (hc : sliceKey c = r.1)
    (res : Int) : Spec.C15.innerGrid t res c = pyRange (lagInt f + res) (lagInt l) res := by
  unfold Spec.C15.innerGrid
  rw [firstLag_row hD hr hF hc, lastLag_row hD hr hF hc]
  simp only [floor_intCast]

theorem mem_pyRange_iff {a b s x : Int} (hs : 0 < s) :
    x ∈ pyRange a b s ↔ ∃ i : Nat, x = a + s * (i : Int) ∧ x < b := by
  constructor
  · exact mem_pyRange_pos hs
  · rintro ⟨i, rfl, h⟩; exact pyRange_mem_of hs i h

/-! ### the grid hypothesis from the executable `fillCompatible` -/

theorem rat_of_den_one {q : Rat} (h : q.den = 1) : q = ((q.num : Int) : Rat) := by
  have := Rat.mkRat_self q
  rw [h] at this
  rw [← this]
  simp [Rat.mkRat_one]

theorem gridRow_of_compatible {t : List Cell} (hD : SpecDomain t) {res : Int}
    (hc : Spec.C15.fillCompatible t res = true) :
    0 < res ∧ ∀ r ∈ slicePeriodRows t, GridRow res r.2 := by
  simp only [Spec.C15.fillCompatible, Bool.and_eq_true, decide_eq_true_eq, List.all_eq_true] at hc
  obtain ⟨hpos, hall⟩ := hc
  refine ⟨hpos, ?_⟩
  intro r hr
  obtain ⟨f, l, hF⟩ := row_facts hr
  have hfr : f ∈ r.2 := List.mem_of_head? hF.hf
  refine ⟨lagInt f, ?_⟩
  intro o ho
  obtain ⟨hot, hal, hok, _⟩ := row_cell hD hr ho
  have := hall o hot
  rw [firstLag_row hD hr hF hok] at this
  simp only [Bool.and_eq_true, Spec.C15.isInt, beq_iff_eq] at this
  have hq := rat_of_den_one this.2
  refine ⟨((o.devLag - ((lagInt f : Int) : Rat)) / (res : Rat)).num, ?_⟩
  have hr0 : ((res : Int) : Rat) ≠ 0 := by
    have : (0 : Rat) < ((res : Int) : Rat) := by exact_mod_cast hpos
    exact ne_of_gt this
  rw [div_eq_iff hr0] at hq
  push_cast
  linarith

/-! ### what `fill_forward_gaps` adds -/

theorem fill_cells' {t out : List Cell} {res? : Option Int} {nf : Bool} {res : Int}
    (h : fillForwardGaps t res? nf = .ok out) (hres : resolvedRes t res? = some res) (hpos : 0 < res)
    (hgrid : ∀ r ∈ slicePeriodRows t, GridRow res r.2) :
    ∀ c ∈ out, c ∈ t ∨ ∃ r ∈ slicePeriodRows t, FillCellOf res nf r.2 c := by
  intro c hc
  rcases fillForwardGaps_ok h with ⟨_, rfl⟩ | ⟨res', parts, hres', hparts, hperm⟩
  · cases hc
  · rw [hres] at hres'; cases hres'
    obtain ⟨ys, hys, hcy⟩ := List.mem_flatten.mp (hperm.mem_iff.mp hc)
    obtain ⟨r, hr, hfy⟩ := mapM_ok_mem hparts ys hys
    rcases fillRow_cells hpos (hgrid r hr) hfy c hcy with hrow | hfill
    · exact Or.inl ((mem_row_iff hr c).mp hrow).1
    · exact Or.inr ⟨r, hr, hfill⟩

theorem fill_complete' {t out : List Cell} {res? : Option Int} {nf : Bool} {res : Int}
    (h : fillForwardGaps t res? nf = .ok out) (hres : resolvedRes t res? = some res) (hpos : 0 < res)
    (hgrid : ∀ r ∈ slicePeriodRows t, GridRow res r.2)
    {r : SliceKey × List Cell} (hr : r ∈ slicePeriodRows t) {f l : Cell}
    (hf : r.2.head? = some f) (hl : r.2.getLast? = some l) {x : Int}
    (hx : x ∈ pyRange (truncInt f.devLag) (truncInt (l.devLag + res)) res) :
    ∃ c ∈ out, ∃ o ∈ r.2, c.md = o.md ∧ c.ps = o.ps ∧ c.pe = o.pe ∧
      ((c = o ∧ o.devLag = ((x : Int) : Rat)) ∨ c.ev = addMonths c.pe ((x : Int) : Rat)) := by
  rcases fillForwardGaps_ok h with ⟨hempty, _⟩ | ⟨res', parts, hres', hparts, hperm⟩
  · rw [hempty] at hr; cases hr
  · rw [hres] at hres'; cases hres'
    obtain ⟨ys, hys, hfy⟩ := mapM_ok_mem' hparts r hr
    obtain ⟨c, hc, rest⟩ := fillRow_complete hpos (hgrid r hr) hfy hf hl hx
    exact ⟨c, hperm.mem_iff.mpr (List.mem_flatten.mpr ⟨ys, hys, hc⟩), rest⟩

/-- everything known about a cell `fill_forward_gaps` put on an unoccupied coordinate -/
structure FillAdded (t : List Cell) (res : Int) (nf : Bool) (a : Cell) (r : SliceKey × List Cell)
    (f l o : Cell) (lag : Int) (i : Nat) : Prop where
  row : r ∈ slicePeriodRows t
  facts : RowFacts r f l
  src : o ∈ r.2
  eq : a = fillCell nf o lag
  grid : lag = lagInt f + res * (i : Int)
  gtFirst : lagInt f < lag
  ltLast : lag < lagInt l
  below : lagInt o < lag
  nearest : ∀ o' ∈ r.2, lagInt o' ≤ lag → lagInt o' ≤ lagInt o
  key : sliceKey a = r.1
  ev : a.ev = monthEndOf (monthToId r.1.2.2 + lag)

theorem fill_added_facts {t out : List Cell} {res? : Option Int} {nf : Bool} {res : Int}
    (hD : SpecDomain t)
    (h : fillForwardGaps t res? nf = .ok out) (hres : resolvedRes t res? = some res) (hpos : 0 < res)
    (hgrid : ∀ r ∈ slicePeriodRows t, GridRow res r.2) {a : Cell} (ha : a ∈ Spec.C15.added t out) :
    ∃ r f l o lag i, FillAdded t res nf a r f l o lag i := by
  obtain ⟨hao, hfree⟩ := mem_added.mp ha
  rcases fill_cells' h hres hpos hgrid a hao with hat | ⟨r, hr, hfc⟩
  · exact absurd rfl (hfree a hat)
  · obtain ⟨f, l, hf, hl, lag, hflt, hllt, ⟨i, hi⟩, _, o, ho, holt, hnear, rfl⟩ := hfc
    obtain ⟨f', l', hF⟩ := row_facts hr
    have : f' = f := by have := hF.hf; rw [hf] at this; cases this; rfl
    subst this
    have : l' = l := by have := hF.hl; rw [hl] at this; cases this; rfl
    subst this
    have hfr : f' ∈ r.2 := List.mem_of_head? hf
    have hlr : l' ∈ r.2 := List.mem_of_getLast? hl
    obtain ⟨_, half, _, _, _, hf0⟩ := row_cell hD hr hfr
    obtain ⟨_, hall, _, _, _, _⟩ := row_cell hD hr hlr
    obtain ⟨_, halo, hok, hope, _, _⟩ := row_cell hD hr ho
    rw [devLag_lagInt half] at hflt
    rw [devLag_lagInt hall] at hllt
    rw [devLag_lagInt halo] at holt
    rw [lagInt_trunc half] at hi
    have h1 : lagInt f' < lag := by exact_mod_cast hflt
    have h2 : lag < lagInt l' := by exact_mod_cast hllt
    have h3 : lagInt o < lag := by exact_mod_cast holt
    refine ⟨r, f', l', o, lag, i, hr, hF, ho, rfl, hi, h1, h2, h3, ?_, ?_, ?_⟩
    · intro o' ho' hle
      have hal' := (row_cell hD hr ho').2.1
      have := hnear o' ho' (by rw [devLag_lagInt hal']; exact_mod_cast hle)
      rw [devLag_lagInt hal', devLag_lagInt halo] at this
      exact_mod_cast this
    · rw [fillCell_sliceKey, hok]
    · rw [(fillCell_fields nf o lag).2.2.2, addMonths_form halo (by rw [hope]; omega), hope]

/-! ### `insideGaps` -/

theorem spec_fill_insideGaps {t out : List Cell} {res? : Option Int} {nf : Bool} {res : Int}
    (hD : SpecDomain t)
    (h : fillForwardGaps t res? nf = .ok out) (hres : resolvedRes t res? = some res) (hpos : 0 < res)
    (hgrid : ∀ r ∈ slicePeriodRows t, GridRow res r.2) :
    Spec.C15.fillInsideGaps t res out = true := by
  simp only [Spec.C15.fillInsideGaps, List.all_eq_true, Bool.and_eq_true]
  intro a ha
  obtain ⟨r, f, l, o, lag, i, hA⟩ := fill_added_facts hD h hres hpos hgrid ha
  have hr := hA.row
  have hfr : f ∈ r.2 := List.mem_of_head? hA.facts.hf
  have hlr : l ∈ r.2 := List.mem_of_getLast? hA.facts.hl
  have hfe := (row_cell hD hr hfr).2.2.2.2.1
  have hle := (row_cell hD hr hlr).2.2.2.2.1
  refine ⟨⟨?_, ?_⟩, ?_⟩
  · have hfo : f ∈ Spec.C15.rowOf t a := (mem_rowOf_row hr hA.key f).mpr hfr
    obtain ⟨m, hm⟩ := minEval_some (List.ne_nil_of_mem hfo)
    obtain ⟨_, hmin⟩ := minEval_spec hm
    rw [hm]
    simp only [Spec.C15.optLt, decide_eq_true_eq]
    have hfa : f.ev < a.ev := by rw [hfe, hA.ev, monthEndOf_lt_iff]; have := hA.gtFirst; omega
    exact Date.lt_of_not_lt_of_lt (hmin f hfo) hfa
  · have hlo : l ∈ Spec.C15.rowOf t a := (mem_rowOf_row hr hA.key l).mpr hlr
    obtain ⟨m, hm⟩ := maxEval_some (List.ne_nil_of_mem hlo)
    have hmax := maxEval_ge hm l hlo
    rw [hm]
    simp only [Spec.C15.optLt, decide_eq_true_eq]
    have hal : a.ev < l.ev := by rw [hle, hA.ev, monthEndOf_lt_iff]; have := hA.ltLast; omega
    exact Date.lt_of_lt_of_not_lt hal ((Date.not_gt_iff _ _).mp hmax)
  · rw [innerGrid_row hD hr hA.facts hA.key, List.any_eq_true]
    refine ⟨lag, ?_, ?_⟩
    · rw [mem_pyRange_iff hpos]
      have hi0 : (i : Int) ≠ 0 := by
        intro h0; have := hA.gtFirst; have := hA.grid; rw [h0] at this; omega
      refine ⟨i - 1, ?_, hA.ltLast⟩
      have : ((i - 1 : Nat) : Int) = (i : Int) - 1 := by omega
      rw [this, hA.grid]; ring
    · rw [hA.eq, (fillCell_fields nf o lag).2.2.1, (fillCell_fields nf o lag).2.2.2]
      simp

/-! ### `complete` -/

theorem spec_fill_complete {t out : List Cell} {res? : Option Int} {nf : Bool} {res : Int}
    (hD : SpecDomain t)
    (h : fillForwardGaps t res? nf = .ok out) (hres : resolvedRes t res? = some res) (hpos : 0 < res)
    (hgrid : ∀ r ∈ slicePeriodRows t, GridRow res r.2) :
    Spec.C15.fillComplete t res out = true := by
  simp only [Spec.C15.fillComplete, List.all_eq_true, Bool.or_eq_true, List.any_eq_true,
    Bool.and_eq_true, beq_iff_eq]
  intro rep hrep x hx
  obtain ⟨r, hr, hrk, hrr⟩ := row_of_mem hrep
  obtain ⟨f, l, hF⟩ := row_facts hr
  have hfr : f ∈ r.2 := List.mem_of_head? hF.hf
  have hlr : l ∈ r.2 := List.mem_of_getLast? hF.hl
  obtain ⟨_, half, _, _, _, _⟩ := row_cell hD hr hfr
  obtain ⟨_, hall, _, _, _, _⟩ := row_cell hD hr hlr
  obtain ⟨_, _, _, hreppe, _, _⟩ := row_cell hD hr hrr
  rw [innerGrid_row hD hr hF hrk.symm, mem_pyRange_iff hpos] at hx
  obtain ⟨i, hxi, hxl⟩ := hx
  have hx' : x ∈ pyRange (truncInt f.devLag) (truncInt (l.devLag + res)) res := by
    have h1 : l.devLag + (res : Rat) = (((lagInt l + res : Int)) : Rat) := by
      rw [devLag_lagInt hall]; push_cast; ring
    rw [lagInt_trunc half, h1, truncInt_intCast, mem_pyRange_iff hpos]
    refine ⟨i + 1, ?_, by omega⟩
    rw [hxi]; push_cast; ring
  obtain ⟨c, hc, o, ho, c1, c2, c3, hcase⟩ := fill_complete' h hres hpos hgrid hr hF.hf hF.hl hx'
  obtain ⟨hot, halo, hok, hope, _, _⟩ := row_cell hD hr ho
  have hco : rowKey c = rowKey o := rowKey_eq_iff.mpr ⟨c1, c2, c3⟩
  have hor : rowKey o = rowKey rep := sliceKey_eq_iff.mp (hok.trans hrk)
  rcases hcase with ⟨rfl, hlag⟩ | hev
  · left
    refine ⟨c, (mem_rowOf_row hr hrk.symm c).mpr ho, ?_⟩
    rw [hreppe, ← hope]; exact (addMonths_lag_eq_ev halo hlag).symm
  · have hcev : c.ev = addMonths rep.pe ((x : Int) : Rat) := by rw [hev, c3, hope, hreppe]
    by_cases hocc : ∃ o' ∈ t, ckey c = ckey o'
    · obtain ⟨o', ho', hk⟩ := hocc
      simp only [ckey, Prod.mk.injEq] at hk
      left
      refine ⟨o', mem_rowOf.mpr ⟨ho', ?_⟩, by rw [← hk.2]; exact hcev⟩
      rw [← hk.1, hco, hor]
    · right
      refine ⟨c, mem_added.mpr ⟨hc, fun o' ho' hk => hocc ⟨o', ho', hk⟩⟩, ?_, hcev⟩
      exact sameRow_iff'.mpr (hco.trans hor)

/-! ### `values` -/

theorem spec_fill_values {t out : List Cell} {res? : Option Int} {nf : Bool} {res : Int}
    (hD : SpecDomain t)
    (h : fillForwardGaps t res? nf = .ok out) (hres : resolvedRes t res? = some res) (hpos : 0 < res)
    (hgrid : ∀ r ∈ slicePeriodRows t, GridRow res r.2) :
    Spec.C15.fillValues t nf out = true := by
  simp only [Spec.C15.fillValues, List.all_eq_true]
  intro a ha
  obtain ⟨r, f, l, o, lag, i, hA⟩ := fill_added_facts hD h hres hpos hgrid ha
  have hr := hA.row
  obtain ⟨hot, halo, hok, hope, hoev, _⟩ := row_cell hD hr hA.src
  have hoa : o.ev < a.ev := by rw [hoev, hA.ev, monthEndOf_lt_iff]; have := hA.below; omega
  have hoo : o ∈ Spec.C15.rowOf t a := (mem_rowOf_row hr hA.key o).mpr hA.src
  obtain ⟨s, hs⟩ := sourceOf_some hoo hoa
  obtain ⟨hsr, hsa, hsmax⟩ := sourceOf_spec hs
  have hsr' := (mem_rowOf_row hr hA.key s).mp hsr
  obtain ⟨hst, _, hsk, _, hsev, _⟩ := row_cell hD hr hsr'
  have h1 : lagInt s < lag := by
    rw [hsev, hA.ev, monthEndOf_lt_iff] at hsa; omega
  have h2 := hA.nearest s hsr' (by omega)
  have h3 := (row_lag_lt_iff hD hr hsr' hA.src).not.mp (hsmax o hoo hoa)
  have hso : s = o := by
    apply ckey_inj_of_nodup hD.nodup hst hot
    simp only [ckey, Prod.mk.injEq]
    refine ⟨sliceKey_eq_iff.mp (hsk.trans hok.symm), ?_⟩
    rw [hsev, hoev]
    have : lagInt s = lagInt o := by omega
    rw [this]
  rw [hs, hso, hA.eq]
  cases nf <;> simp [fillCell]

/-! ### `emptyWhenComplete` -/

theorem spec_fill_emptyWhenComplete {t out : List Cell} {res? : Option Int} {nf : Bool} {res : Int}
    (hD : SpecDomain t)
    (h : fillForwardGaps t res? nf = .ok out) (hres : resolvedRes t res? = some res) (hpos : 0 < res)
    (hgrid : ∀ r ∈ slicePeriodRows t, GridRow res r.2) (hkept : Spec.C15.kept t out = t) :
    (!(Spec.C15.fillNothingMissing t res) || out == t) = true := by
  cases hnm : Spec.C15.fillNothingMissing t res with
  | false => simp
  | true =>
    have hnil : Spec.C15.added t out = [] := by
      apply List.eq_nil_iff_forall_not_mem.mpr
      intro a ha
      obtain ⟨r, f, l, o, lag, i, hA⟩ := fill_added_facts hD h hres hpos hgrid ha
      have hr := hA.row
      have hfr : f ∈ r.2 := List.mem_of_head? hA.facts.hf
      obtain ⟨hft, half, hfk, hfpe, _, _⟩ := row_cell hD hr hfr
      obtain ⟨_, halo, _, hope, _, _⟩ := row_cell hD hr hA.src
      simp only [Spec.C15.fillNothingMissing, List.all_eq_true, List.any_eq_true, beq_iff_eq] at hnm
      have hlag : lag ∈ Spec.C15.innerGrid t res f := by
        rw [innerGrid_row hD hr hA.facts hfk, mem_pyRange_iff hpos]
        have hi0 : (i : Int) ≠ 0 := by
          intro h0; have := hA.gtFirst; have := hA.grid; rw [h0] at this; omega
        refine ⟨i - 1, ?_, hA.ltLast⟩
        have : ((i - 1 : Nat) : Int) = (i : Int) - 1 := by omega
        rw [this, hA.grid]; ring
      obtain ⟨o', ho', hoe'⟩ := hnm f hft lag hlag
      have ho'r := (mem_rowOf_row hr hfk o').mp ho'
      obtain ⟨ho't, _, ho'k, _, _, _⟩ := row_cell hD hr ho'r
      apply (mem_added.mp ha).2 o' ho't
      simp only [ckey, Prod.mk.injEq]
      refine ⟨sliceKey_eq_iff.mp (hA.key.trans ho'k.symm), ?_⟩
      rw [hoe', hA.ev, addMonths_form half (by rw [hfpe]; have := hA.gtFirst; have := (row_cell hD hr hfr).2.2.2.2.2; omega), hfpe]
    rw [out_eq_of_added_nil hkept hnil]
    simp

end Bermuda.Extend
