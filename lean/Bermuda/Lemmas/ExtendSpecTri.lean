/-
C15: the executable clauses of `Spec/C15.lean` (`rightTriSpec`, shared clauses) hold of the model's outputs.
-/
import Bermuda.Lemmas.ExtendIncCum
import Bermuda.Lemmas.ExtendSpec
import Bermuda.Lemmas.ExtendBackfill
namespace Bermuda.Extend
open Bermuda

/-! ### `maxRat` / `minRat` -/

theorem maxRat_fold (rest : List Rat) (m0 : Rat) :
    (rest.foldl (fun m x => if m < x then x else m) m0 = m0 ∨
      rest.foldl (fun m x => if m < x then x else m) m0 ∈ rest) ∧
    m0 ≤ rest.foldl (fun m x => if m < x then x else m) m0 ∧
    ∀ x ∈ rest, x ≤ rest.foldl (fun m x => if m < x then x else m) m0 := by
  induction rest generalizing m0 with
  | nil => simp
  | cons a rest ih =>
    simp only [List.foldl_cons]
    obtain ⟨h1, h2, h3⟩ := ih (if m0 < a then a else m0)
    have hstep : m0 ≤ (if m0 < a then a else m0) ∧ a ≤ (if m0 < a then a else m0) := by
      split
      · rename_i h; exact ⟨_root_.le_of_lt h, le_refl _⟩
      · rename_i h; exact ⟨le_refl _, not_lt.mp h⟩
    refine ⟨?_, le_trans hstep.1 h2, ?_⟩
    · rcases h1 with h | h
      · rw [h]
        split
        · right; simp
        · left; rfl
      · right; exact List.mem_cons_of_mem _ h
    · intro x hx
      rcases List.mem_cons.mp hx with rfl | hx
      · exact le_trans hstep.2 h2
      · exact h3 x hx

theorem maxRat_spec {l : List Rat} {m : Rat} (h : Spec.C15.maxRat l = some m) :
    m ∈ l ∧ ∀ x ∈ l, x ≤ m := by
  cases l with
  | nil => simp [Spec.C15.maxRat] at h
  | cons q rest =>
    simp only [Spec.C15.maxRat, Option.some.injEq] at h
    subst h
    obtain ⟨h1, h2, h3⟩ := maxRat_fold rest q
    constructor
    · rcases h1 with h | h
      · rw [h]; simp
      · exact List.mem_cons_of_mem _ h
    · intro x hx
      rcases List.mem_cons.mp hx with rfl | hx
      · exact h2
      · exact h3 x hx

theorem maxRat_some {l : List Rat} (h : l ≠ []) : ∃ m, Spec.C15.maxRat l = some m := by
  cases l with
  | nil => exact absurd rfl h
  | cons q rest => exact ⟨_, rfl⟩

/-! ### month ends: date order = month-id order = lag order -/

theorem monthEnd_lt_iff {a b : Date} (ha : a.valid = true) (hae : a.isMonthEnd = true)
    (hb : b.valid = true) (hbe : b.isMonthEnd = true) : a < b ↔ monthToId a < monthToId b := by
  obtain ⟨a1, a2, a3, a4⟩ := (valid_iff a).mp ha
  obtain ⟨b1, b2, b3, b4⟩ := (valid_iff b).mp hb
  have had : a.d = dim a.y a.m := by simpa [Date.isMonthEnd] using hae
  have hbd : b.d = dim b.y b.m := by simpa [Date.isMonthEnd] using hbe
  rw [Date.lt_iff]
  unfold monthToId
  constructor
  · rintro (h | ⟨h1, h | ⟨h2, h3⟩⟩)
    · omega
    · omega
    · rw [had, hbd, h1, h2] at h3; omega
  · intro h
    by_cases hy : a.y < b.y
    · exact Or.inl hy
    · right
      have hyy : a.y = b.y := by omega
      refine ⟨hyy, Or.inl (by omega)⟩

theorem devLag_lt_iff {a b : Cell} (ha : MonthAligned a) (hb : MonthAligned b)
    (hpe : a.pe = b.pe) : a.devLag < b.devLag ↔ a.ev < b.ev := by
  obtain ⟨_, a2, a3, a4, _, _⟩ := ha
  obtain ⟨_, b2, b3, b4, _, _⟩ := hb
  have h1 : a.devLag = ((monthToId a.ev - monthToId a.pe : Int) : Rat) := devLagMonths_monthEnds a2 a4
  have h2 : b.devLag = ((monthToId b.ev - monthToId b.pe : Int) : Rat) := devLagMonths_monthEnds b2 b4
  rw [h1, h2, monthEnd_lt_iff a3 a4 b3 b4, hpe]
  constructor
  · intro h
    have : monthToId a.ev - monthToId b.pe < monthToId b.ev - monthToId b.pe := by exact_mod_cast h
    omega
  · intro h
    have : monthToId a.ev - monthToId b.pe < monthToId b.ev - monthToId b.pe := by omega
    exact_mod_cast this

theorem devLag_le_of_not_gt {a b : Cell} (ha : MonthAligned a)
    (hb : MonthAligned b) (hpe : a.pe = b.pe) (h : Date.cmp a.ev b.ev ≠ .gt) :
    a.devLag ≤ b.devLag := by
  rw [Date.not_gt_iff] at h
  have := (devLag_lt_iff hb ha hpe.symm).not.mpr h
  exact not_lt.mp this


/-! ### `canonical` -/

theorem rightTriangleCells_datesOk {cum new : List Cell} {lags : Option (List Rat)} {u : LagUnit}
    (h : rightTriangleCells cum lags (some u) = .ok new) : ∀ n ∈ new, n.datesOk = true := by
  unfold rightTriangleCells at h
  simp only [bind, Except.bind, pure, Except.pure] at h
  split at h
  · cases h
  · rename_i parts hparts
    cases h
    intro n hn
    obtain ⟨ys, hys, hny⟩ := List.mem_flatten.mp hn
    obtain ⟨p, _, hslice⟩ := mapM_ok_mem hparts ys hys
    unfold rightTriangleSlice at hslice
    simp only [bind, Except.bind] at hslice
    split at hslice
    · cases hslice
    · split at hslice
      · simp [throw, throwThe, MonadExceptOf.throw] at hslice
      · obtain ⟨q, _, hq⟩ := mapM_ok_mem hslice n hny
        obtain ⟨ev, _, rfl, hd⟩ := rightCellOf_ok.mp hq
        exact hd

theorem rightDiagonalCells_datesOk {cum new : List Cell} {dates : List Date} {hist : Bool}
    (h : rightDiagonalCells cum dates hist = .ok new) : ∀ n ∈ new, n.datesOk = true := by
  unfold rightDiagonalCells at h
  simp only [bind, Except.bind, pure, Except.pure] at h
  split at h
  · cases h
  · rename_i parts hparts
    cases h
    intro n hn
    obtain ⟨ys, hys, hny⟩ := List.mem_flatten.mp hn
    obtain ⟨p, _, hslice⟩ := mapM_ok_mem hparts ys hys
    unfold rightDiagonalSlice at hslice
    simp only [bind, Except.bind] at hslice
    split at hslice
    · cases hslice
    · obtain ⟨q, _, hq⟩ := mapM_ok_mem hslice n hny
      obtain ⟨rfl, hd⟩ := mk?_ok hq
      exact hd

theorem incPairs_datesOk (k : RowKey) : ∀ (rest : List Cell) (p : Cell) (ds : List Cell),
    incPairs k p rest = .ok ds → ∀ d ∈ ds, d.datesOk = true
  | [], p, ds, h => by simp only [incPairs] at h; cases h; simp
  | n :: rest, p, ds, h => by
    simp only [incPairs, bind, Except.bind] at h
    split at h
    · cases h
    · split at h
      · cases h
      · rename_i c hc
        split at h
        · cases h
        · rename_i cs hcs
          simp only [pure, Except.pure] at h
          cases h
          obtain ⟨rfl, hd⟩ := mk?_ok hc
          intro d hd'
          rcases List.mem_cons.mp hd' with rfl | hd'
          · exact hd
          · exact incPairs_datesOk k rest n cs hcs d hd'

theorem toIncremental_datesOk {right inc : List Cell} (hni : Triangle.isIncremental right = false)
    (h : Triangle.toIncremental right = .ok inc) : ∀ d ∈ inc, d.datesOk = true := by
  obtain ⟨parts, hparts, hperm⟩ := toIncremental_ok hni h
  intro d hd
  obtain ⟨ds, hds, hdd⟩ := List.mem_flatten.mp (hperm.mem_iff.mp hd)
  obtain ⟨p, _, hrow⟩ := mapM_ok_mem hparts ds hds
  rcases incRow_ok hrow with ⟨_, rfl⟩ | ⟨c0, rest, pairs, _, hpairs, rfl, hfd⟩
  · cases hdd
  · rcases List.mem_cons.mp hdd with rfl | hdp
    · exact hfd
    · exact incPairs_datesOk p.1 rest c0 pairs hpairs d hdp

/-- the result of either right-hand operator is a canonical triangle -/
theorem finishRight_canonical {t new out : List Cell} (hkind : ∀ n ∈ new, n.kind = .cumulative)
    (hd : ∀ n ∈ new, n.datesOk = true) (h : finishRight t new = .ok out) :
    Spec.isCanonical out = true := by
  apply Properties.C01.isCanonical_of_canonical
  unfold finishRight at h
  simp only [bind, Except.bind] at h
  split at h
  · cases h
  · rename_i right hright
    have hr : ∀ c ∈ right, c.datesOk = true :=
      fun c hc => hd c ((Properties.C01.ofCells_perm hright).mem_iff.mp hc)
    cases hinc : Triangle.isIncremental t with
    | false =>
      simp only [hinc, Bool.false_eq_true, if_false, pure, Except.pure] at h
      cases h
      exact Properties.C01.ofCells_canonical hright hd
    | true =>
      simp only [hinc, if_true] at h
      split at h
      · cases h
      · rename_i inc hincr
        have hni : Triangle.isIncremental right = false :=
          not_isIncremental_of_all (fun c hc => by
            rw [hkind c ((Properties.C01.ofCells_perm hright).mem_iff.mp hc)]; simp)
        have hid := toIncremental_datesOk hni hincr
        unfold fixPrevEvaluationDate at h
        simp only [bind, Except.bind] at h
        split at h
        · cases h
        · split at h
          · cases h
          · rename_i fixed hfixed
            apply Properties.C01.ofCells_canonical h
            intro c hc
            rcases List.mem_append.mp hc with hc | hc
            · exact hid c (List.mem_filter.mp hc).1
            · obtain ⟨x, _, hx⟩ := mapM_ok_mem hfixed c hc
              obtain ⟨rfl, hdx⟩ := mk?_ok hx
              exact hdx

/-! ### what is known about a result of `make_right_triangle` -/

structure TriFacts (t cum new out : List Cell) (lags : Option (List Rat)) (u : LagUnit) : Prop where
  cumOf : CumOf t cum
  iff : ∀ n, n ∈ new ↔ RightTriCell cum lags u n
  fwd : ∀ c ∈ out, ∃ n ∈ new, rowKey c = rowKey n ∧ c.ev = n.ev
  bwd : ∀ n ∈ new, ∃ c ∈ out, rowKey c = rowKey n ∧ c.ev = n.ev
  edges : ∀ p ∈ Triangle.slices cum, ∃ edge, Triangle.rightEdge p.2 = .ok edge
  chain : Triangle.isIncremental t = true → ∀ c ∈ out, ChainCell t new c
  empties : ∀ n ∈ new, n.kind = .cumulative ∧ n.values = [] ∧ n.prev = none
  fin : finishRight t new = .ok out
  newOk : ∀ n ∈ new, n.datesOk = true
  cumPerm : Triangle.isIncremental t = false → out.Perm new
  newEq : rightTriangleCells cum lags (some u) = .ok new

theorem rightTriangleSlice_edge {lags : Option (List Rat)} {u : LagUnit} {slice cells : List Cell}
    (h : rightTriangleSlice lags u slice = .ok cells) : ∃ edge, Triangle.rightEdge slice = .ok edge := by
  unfold rightTriangleSlice at h
  simp only [bind, Except.bind] at h
  split at h
  · cases h
  · rename_i edge hedge; exact ⟨edge, hedge⟩

theorem rightTriangleCells_edges {cum new : List Cell} {lags : Option (List Rat)} {u : LagUnit}
    (h : rightTriangleCells cum lags (some u) = .ok new) :
    ∀ p ∈ Triangle.slices cum, ∃ edge, Triangle.rightEdge p.2 = .ok edge := by
  unfold rightTriangleCells at h
  simp only [bind, Except.bind, pure, Except.pure] at h
  split at h
  · cases h
  · rename_i parts hparts
    intro p hp
    obtain ⟨ys, _, hys⟩ := mapM_ok_mem' hparts p hp
    exact rightTriangleSlice_edge hys

theorem makeRightTriangle_fin {t out : List Cell} {lags : Option (List Rat)} {u? : Option LagUnit}
    (hinc : Triangle.isIncremental t = false) (h : makeRightTriangleU t lags u? = .ok out) :
    ∃ new, rightTriangleCells t lags u? = .ok new ∧ finishRight t new = .ok out := by
  unfold makeRightTriangleU at h
  simp only [hinc, Bool.false_eq_true, if_false, bind, Except.bind, pure, Except.pure] at h
  split at h
  · cases h
  · rename_i new hnew
    exact ⟨new, hnew, h⟩

theorem makeRightDiagonal_fin {t out : List Cell} {dates : List Date} {hist : Bool}
    (hinc : Triangle.isIncremental t = false) (h : makeRightDiagonal t dates hist = .ok out) :
    ∃ new, rightDiagonalCells t dates hist = .ok new ∧ finishRight t new = .ok out := by
  unfold makeRightDiagonal at h
  simp only [hinc, Bool.false_eq_true, if_false, bind, Except.bind, pure, Except.pure] at h
  split at h
  · cases h
  · rename_i new hnew
    exact ⟨new, hnew, h⟩

theorem rightTri_facts {t out : List Cell} {lags : Option (List Rat)} {u : LagUnit}
    (h : makeRightTriangleU t lags (some u) = .ok out) :
    ∃ cum new, TriFacts t cum new out lags u := by
  cases hinc : Triangle.isIncremental t with
  | false =>
    obtain ⟨new, hnew, hfin⟩ := makeRightTriangle_fin hinc h
    have hperm := finishRight_cum hinc hfin
    exact ⟨t, new, Or.inl ⟨hinc, rfl⟩, rightTriangleCells_mem hnew,
      fun c hc => ⟨c, hperm.mem_iff.mp hc, rfl, rfl⟩, fun n hn => ⟨n, hperm.mem_iff.mpr hn, rfl, rfl⟩,
      rightTriangleCells_edges hnew, (fun h' => by rw [hinc] at h'; cases h'),
      fun n hn => RightTriCell.empty ((rightTriangleCells_mem hnew n).mp hn), hfin,
      rightTriangleCells_datesOk hnew, fun _ => hperm, hnew⟩
  | true =>
    obtain ⟨cum, new, right, hcum, hni, hnew, hright, hperm, hfin⟩ := rightTri_reduces hinc h
    have hiff := rightTriangleCells_mem hnew
    have hempty : ∀ n ∈ new, n.kind = .cumulative ∧ n.values = [] ∧ n.prev = none :=
      fun n hn => RightTriCell.empty ((hiff n).mp hn)
    have hchain := finishRight_inc hinc hempty hfin
    refine ⟨cum, new, Or.inr ⟨hinc, hcum⟩, hiff, ?_, ?_, rightTriangleCells_edges hnew, fun _ => hchain,
      hempty, hfin, rightTriangleCells_datesOk hnew, (fun h' => by rw [hinc] at h'; cases h'), hnew⟩
    · intro c hc
      obtain ⟨_, _, hch⟩ := hchain c hc
      rcases hch with ⟨_, _, _, _, _, _, _, ⟨n, hn, hk, he⟩, _⟩ | ⟨_, _, b, hb, _, hk, _, he, _⟩
      · exact ⟨n, hn, hk.symm, he.symm⟩
      · exact ⟨b, hb, hk.symm, he⟩
    · apply finishRight_inc_cover hinc hempty ?_ hfin
      intro n hn
      obtain ⟨e, he, hne, _⟩ := ((hiff n).mp hn).row
      obtain ⟨_, x, hx, hxk, _⟩ := (toCumulative_cells hinc hcum).1 e he
      obtain ⟨h1, h2, h3⟩ := rowKey_eq_iff.mp hxk
      refine ⟨x, hx, ?_, ?_⟩
      · rw [hne]; exact h1
      · rw [hne]; show (x.ps, x.pe) = (e.ps, e.pe); rw [h2, h3]

theorem sameRow_iff' {a b : Cell} :
    Spec.C15.sameRow a b = true ↔ rowKey a = rowKey b := by
  rw [sameRow_iff, rowKey_eq_iff]

theorem mem_rowOf {t : List Cell} {c o : Cell} : o ∈ Spec.C15.rowOf t c ↔ o ∈ t ∧ rowKey c = rowKey o := by
  simp [Spec.C15.rowOf, List.mem_filter, sameRow_iff']

theorem mem_sliceOf {t : List Cell} {c o : Cell} : o ∈ Spec.C15.sliceOf t c ↔ o ∈ t ∧ o.md = c.md := by
  simp [Spec.C15.sliceOf, List.mem_filter]

theorem rowOf_congr {t : List Cell} {a b : Cell} (h : rowKey a = rowKey b) :
    Spec.C15.rowOf t a = Spec.C15.rowOf t b := by
  unfold Spec.C15.rowOf
  apply List.filter_congr
  intro o _
  obtain ⟨h1, h2, h3⟩ := rowKey_eq_iff.mp h
  simp [Spec.C15.sameRow, h1, h2, h3]

theorem sliceOf_congr {t : List Cell} {a b : Cell} (h : a.md = b.md) :
    Spec.C15.sliceOf t a = Spec.C15.sliceOf t b := by
  unfold Spec.C15.sliceOf; rw [h]

theorem md_of_rowKey {a b : Cell} (h : rowKey a = rowKey b) : a.md = b.md := (rowKey_eq_iff.mp h).1
theorem pe_of_rowKey {a b : Cell} (h : rowKey a = rowKey b) : a.pe = b.pe := (rowKey_eq_iff.mp h).2.2

/-- the lag list of the cumulative slice and the Spec's lag set of `t` have the same members -/
theorem lagList_iff_lagSet {t cum : List Cell} (hg : SameGrid t cum) {lags : Option (List Rat)} {u : LagUnit}
    {p : Metadata × List Cell} (hp : p ∈ Triangle.slices cum) {c : Cell} (hmd : c.md = p.1) (l : Rat) :
    l ∈ lagListOf lags u p.2 ↔ l ∈ Spec.C15.lagSetOf t lags u c := by
  cases lags with
  | some ls => simp [lagListOf, Spec.C15.lagSetOf]
  | none =>
    simp only [lagListOf, Spec.C15.lagSetOf, List.mem_eraseDups, List.mem_map]
    constructor
    · rintro ⟨c', hc', rfl⟩
      obtain ⟨hcc, hcm⟩ := (slices_spec hp c').mp hc'
      obtain ⟨x, hx, hxk, hxe⟩ := hg.1 c' hcc
      exact ⟨x, mem_sliceOf.mpr ⟨hx, by rw [md_of_rowKey hxk, hcm, hmd]⟩, devLag_of_row hxk hxe u⟩
    · rintro ⟨x, hx, rfl⟩
      obtain ⟨hxt, hxm⟩ := mem_sliceOf.mp hx
      obtain ⟨c', hc', hck, hce⟩ := hg.2 x hxt
      exact ⟨c', (slices_spec hp c').mpr ⟨hc', by rw [md_of_rowKey hck, hxm, hmd]⟩, devLag_of_row hck hce u⟩

/-! ### `rightTriSpec`: `onGrid`, `complete`, `emptyWhenComplete` (month unit) -/

theorem aligned_cum {t cum : List Cell} (hg : SameGrid t cum) (hal : ∀ c ∈ t, MonthAligned c) :
    ∀ e ∈ cum, MonthAligned e := by
  intro e he
  obtain ⟨x, hx, hxk, hxe⟩ := hg.1 e he
  exact monthAligned_of_row hxk hxe (hal x hx)

/-- the greatest lag of the observed row of `c` is below every lag exceeding the lag of the row's latest
observation `e` -/
theorem gtOpt_lastLag {t cum : List Cell} (hg : SameGrid t cum) (hal : ∀ c ∈ t, MonthAligned c)
    {e c : Cell} (he : e ∈ cum) (hk : rowKey c = rowKey e)
    (hlatest : ∀ o ∈ cum, o.md = e.md → o.ps = e.ps → o.pe = e.pe → Date.cmp o.ev e.ev ≠ .gt)
    {l : Rat} (hl : l > e.devLag .month) : Spec.C15.gtOpt l (Spec.C15.lastLag t .month c) = true := by
  obtain ⟨x, hx, hxk, _⟩ := hg.1 e he
  have hne : (Spec.C15.rowOf t c).map (fun o => o.devLag .month) ≠ [] := by
    intro hnil
    have : x ∈ Spec.C15.rowOf t c := mem_rowOf.mpr ⟨hx, hk.trans hxk.symm⟩
    have := List.mem_map_of_mem (f := fun o => o.devLag .month) this
    rw [hnil] at this; cases this
  obtain ⟨m, hm⟩ := maxRat_some hne
  unfold Spec.C15.lastLag
  rw [hm]
  simp only [Spec.C15.gtOpt, decide_eq_true_eq]
  obtain ⟨hmem, _⟩ := maxRat_spec hm
  obtain ⟨o, ho, rfl⟩ := List.mem_map.mp hmem
  obtain ⟨hot, hok⟩ := mem_rowOf.mp ho
  obtain ⟨o', ho', hok', hoe'⟩ := hg.2 o hot
  have hkk : rowKey o' = rowKey e := hok'.trans (hok.symm.trans hk)
  obtain ⟨k1, k2, k3⟩ := rowKey_eq_iff.mp hkk
  have hle := hlatest o' ho' k1 k2 k3
  have halc := aligned_cum hg hal
  have := devLag_le_of_not_gt (halc o' ho') (halc e he) k3 hle
  rw [devLag_of_row hok' hoe' .month] at this
  exact lt_of_le_of_lt this hl

theorem spec_rightTri_onGrid {t cum new out : List Cell} {lags : Option (List Rat)}
    (hf : TriFacts t cum new out lags .month) (hal : ∀ c ∈ t, MonthAligned c) :
    Spec.C15.rightTriOnGrid t lags .month out = true := by
  have hg := hf.cumOf.sameGrid
  simp only [Spec.C15.rightTriOnGrid, List.all_eq_true, List.any_eq_true, Bool.and_eq_true]
  intro c hc
  obtain ⟨n, hn, hk, hev⟩ := hf.fwd c hc
  obtain ⟨e, he, hne, hlatest, p, hp, hpm, lag, hlag, hgt, hadd⟩ := ((hf.iff n).mp hn).row
  have hkn : rowKey n = rowKey e := by rw [hne]; rfl
  have hke : rowKey c = rowKey e := hk.trans hkn
  refine ⟨lag, ?_, gtOpt_lastLag hg hal he hke hlatest hgt, ?_⟩
  · exact (lagList_iff_lagSet hg hp (by rw [md_of_rowKey hke, hpm]) lag).mp hlag
  · rw [pe_of_rowKey hke, hev]
    simp [Spec.C15.evAt, hadd]

theorem spec_rightTri_complete {t cum new out : List Cell} {lags : Option (List Rat)}
    (hf : TriFacts t cum new out lags .month) :
    Spec.C15.rightTriComplete t lags .month out = true := by
  have hg := hf.cumOf.sameGrid
  simp only [Spec.C15.rightTriComplete, List.all_eq_true, Bool.or_eq_true, Bool.not_eq_true']
  intro rep hrep l hl
  by_cases hgt : Spec.C15.gtOpt l (Spec.C15.lastLag t .month rep) = true
  swap
  · left; simpa using hgt
  right
  -- the right-edge cell of the row of `rep` in the cumulative form
  obtain ⟨rep', hrep', hrk, _⟩ := hg.2 rep hrep
  obtain ⟨p, hp, hpm, hrp⟩ := slices_cover hrep'
  obtain ⟨edge, hedge⟩ := hf.edges p hp
  obtain ⟨e, he, hem, hep⟩ := rightEdge_cover hedge hrp
  have hep2 : e ∈ p.2 := (rightEdge_latest hedge he).1
  have hec : e ∈ cum := mem_of_mem_slices hp hep2
  have hke : rowKey e = rowKey rep := by
    have h1 : rowKey e = rowKey rep' := by
      rw [rowKey_eq_iff]
      simp only [cellPeriod, Prod.mk.injEq] at hep
      exact ⟨hem, hep.1, hep.2⟩
    exact h1.trans hrk
  -- l exceeds the lag of `e`
  have hle : l > e.devLag .month := by
    obtain ⟨x, hx, hxk, hxe⟩ := hg.1 e hec
    unfold Spec.C15.lastLag at hgt
    cases hm : Spec.C15.maxRat ((Spec.C15.rowOf t rep).map fun o => o.devLag .month) with
    | none => rw [hm] at hgt; simp [Spec.C15.gtOpt] at hgt
    | some m =>
      rw [hm] at hgt
      simp only [Spec.C15.gtOpt, decide_eq_true_eq] at hgt
      have hxr : x ∈ Spec.C15.rowOf t rep := mem_rowOf.mpr ⟨hx, (hxk.trans hke).symm⟩
      have := (maxRat_spec hm).2 _ (List.mem_map_of_mem (f := fun o => o.devLag .month) hxr)
      rw [devLag_of_row hxk hxe .month] at this
      exact lt_of_le_of_lt this hgt
  have hlag : l ∈ lagListOf lags .month p.2 :=
    (lagList_iff_lagSet hg hp (by rw [← md_of_rowKey hrk, hpm]) l).mpr hl
  have hcell : RightTriCell cum lags .month (emptyCell e (addMonths e.pe l)) :=
    ⟨p, hp, edge, hedge, e, he, l, hlag, hle, _, rfl, rfl⟩
  obtain ⟨c, hc, hck, hce⟩ := hf.bwd _ ((hf.iff _).mpr hcell)
  have hpe : rep.pe = e.pe := (pe_of_rowKey hke).symm
  simp only [Spec.C15.evAt, addDevLag, hpe, List.any_eq_true, Bool.and_eq_true, beq_iff_eq]
  exact ⟨c, hc, sameRow_iff'.mpr (hck.trans hke), hce⟩

theorem spec_rightTri_emptyWhenComplete {t cum new out : List Cell} {lags : Option (List Rat)}
    (hf : TriFacts t cum new out lags .month) (hal : ∀ c ∈ t, MonthAligned c) :
    (!(Spec.C15.rightTriNothingMissing t lags .month) || out.isEmpty) = true := by
  cases out with
  | nil => simp
  | cons c rest =>
    have hgrid := spec_rightTri_onGrid hf hal
    simp only [Spec.C15.rightTriOnGrid, List.all_eq_true, List.any_eq_true, Bool.and_eq_true] at hgrid
    obtain ⟨l, hl, hgt, _⟩ := hgrid c (by simp)
    obtain ⟨n, hn, hk, _⟩ := hf.fwd c (by simp)
    obtain ⟨e, he, hne, _⟩ := ((hf.iff n).mp hn).row
    obtain ⟨x, hx, hxk, _⟩ := hf.cumOf.sameGrid.1 e he
    have hkx : rowKey x = rowKey c := by
      rw [hxk, hk, hne]; rfl
    simp only [Bool.or_eq_true, Bool.not_eq_true', List.isEmpty_cons, Bool.false_eq_true, or_false]
    simp only [Spec.C15.rightTriNothingMissing]
    rw [List.all_eq_false]
    refine ⟨x, hx, ?_⟩
    simp only [Bool.not_eq_true, List.all_eq_false]
    refine ⟨l, ?_, ?_⟩
    · unfold Spec.C15.lagSetOf at hl ⊢
      rw [sliceOf_congr (md_of_rowKey hkx)]; exact hl
    · unfold Spec.C15.lastLag at hgt ⊢
      rw [rowOf_congr hkx]; simp [hgt]

/-! ### `chain` -/

theorem Date.eq_of_not_gt {a b : Date} (h1 : Date.cmp a b ≠ .gt) (h2 : Date.cmp b a ≠ .gt) : a = b := by
  rw [Date.not_gt_iff, Date.lt_iff] at h1 h2
  obtain ⟨y, m, d⟩ := a
  obtain ⟨y', m', d'⟩ := b
  simp only at h1 h2
  have : y = y' ∧ m = m' ∧ d = d' := by omega
  obtain ⟨rfl, rfl, rfl⟩ := this
  rfl

theorem maxEval_nil : maxEval [] = none := rfl

theorem maxEval_some {l : List Cell} (h : l ≠ []) : ∃ m, maxEval l = some m := by
  cases l with
  | nil => exact absurd rfl h
  | cons c rest => exact ⟨_, rfl⟩

/-- the Bool chain clause from the Prop chain facts (`new` related to `out` coordinate-wise) -/
theorem spec_chain {t new out : List Cell}
    (hchain : Triangle.isIncremental t = true → ∀ c ∈ out, ChainCell t new c)
    (fwd : ∀ c ∈ out, ∃ n ∈ new, rowKey c = rowKey n ∧ c.ev = n.ev)
    (bwd : ∀ n ∈ new, ∃ c ∈ out, rowKey c = rowKey n ∧ c.ev = n.ev) :
    Spec.C15.chainOk t out = true := by
  unfold Spec.C15.chainOk
  cases hinc : Triangle.isIncremental t with
  | false => simp
  | true =>
    simp only [if_true, List.all_eq_true]
    intro c hc
    obtain ⟨_, _, hch⟩ := hchain hinc c hc
    rcases hch with ⟨obs, e, hobs, he, hem, hep, hprev, _, hmin⟩ |
        ⟨a, ha, b, hb, hak, hbk, hprev, hcev, hlt, hbetween⟩
    · -- first added cell of its row
      have hearlier : (Spec.C15.rowOf out c).filter (fun o => o.ev < c.ev) = [] := by
        rw [List.filter_eq_nil_iff]
        intro o ho
        obtain ⟨hoo, hok⟩ := mem_rowOf.mp ho
        obtain ⟨n', hn', hk', he'⟩ := fwd o hoo
        have := hmin n' hn' (hk'.symm.trans hok.symm)
        rw [← he', Date.not_gt_iff] at this
        simpa using this
      rw [hearlier, maxEval_nil]
      simp only
      obtain ⟨het, hlatest⟩ := rightEdge_latest hobs he
      have hke : rowKey c = rowKey e := by
        rw [rowKey_eq_iff]
        simp only [cellPeriod, Prod.mk.injEq] at hep
        exact ⟨hem.symm, hep.1.symm, hep.2.symm⟩
      have her : e ∈ Spec.C15.rowOf t c := mem_rowOf.mpr ⟨het, hke⟩
      obtain ⟨m, hm⟩ := maxEval_some (List.ne_nil_of_mem her)
      obtain ⟨o, ho, hoe⟩ := maxEval_mem hm
      obtain ⟨hot, hok⟩ := mem_rowOf.mp ho
      obtain ⟨k1, k2, k3⟩ := rowKey_eq_iff.mp (hok.symm.trans hke)
      have h1 := hlatest o hot k1 k2 k3
      have h2 := maxEval_ge hm e her
      have : m = e.ev := by rw [← hoe]; exact Date.eq_of_not_gt h1 (by rw [hoe]; exact h2)
      rw [hm, hprev, this]; simp
    · -- a later cell: its predecessor is the latest earlier added cell
      obtain ⟨ca, hca, hcak, hcae⟩ := bwd a ha
      have hcar : ca ∈ (Spec.C15.rowOf out c).filter (fun o => o.ev < c.ev) := by
        rw [List.mem_filter]
        refine ⟨mem_rowOf.mpr ⟨hca, (hcak.trans hak).symm⟩, ?_⟩
        rw [hcae, hcev]; simpa using hlt
      obtain ⟨m, hm⟩ := maxEval_some (List.ne_nil_of_mem hcar)
      obtain ⟨o, ho, hoe⟩ := maxEval_mem hm
      obtain ⟨hor, holt⟩ := List.mem_filter.mp ho
      obtain ⟨hoo, hok⟩ := mem_rowOf.mp hor
      obtain ⟨n', hn', hk', he'⟩ := fwd o hoo
      have hge := maxEval_ge hm ca hcar
      have hnot : ¬ (a.ev < n'.ev ∧ n'.ev < b.ev) := hbetween n' hn' (hk'.symm.trans hok.symm)
      have holt' : o.ev < c.ev := by simpa using holt
      have : m = a.ev := by
        rw [← hoe]
        apply Date.eq_of_not_gt
        · rw [Date.not_gt_iff]
          intro hlt'
          apply hnot
          rw [← he', ← hcev]; exact ⟨hlt', holt'⟩
        · rw [hoe, ← hcae]; exact hge
      rw [hm, hprev, this]; simp

/-! ### clauses shared by the two right-hand operators -/

theorem spec_valuesEmpty {out : List Cell} (h : ∀ c ∈ out, c.values = []) :
    Spec.C15.valuesEmpty out = true := by
  simp only [Spec.C15.valuesEmpty, List.all_eq_true]
  intro c hc; rw [h c hc]; rfl

theorem spec_basis {t new out : List Cell}
    (hempty : ∀ n ∈ new, n.kind = .cumulative ∧ n.values = [] ∧ n.prev = none)
    (hperm : Triangle.isIncremental t = false → out.Perm new)
    (hchain : Triangle.isIncremental t = true → ∀ c ∈ out, ChainCell t new c) :
    Spec.C15.basisKept t out = true := by
  unfold Spec.C15.basisKept
  cases hinc : Triangle.isIncremental t with
  | false =>
    simp only [Bool.false_eq_true, if_false, List.all_eq_true]
    intro c hc
    obtain ⟨h1, _, h3⟩ := hempty c ((hperm hinc).mem_iff.mp hc)
    simp [h1, h3]
  | true =>
    simp only [if_true, List.all_eq_true]
    intro c hc
    obtain ⟨hk, _, hp⟩ := hchain hinc c hc
    rcases hp with ⟨_, _, _, _, _, _, hp, _⟩ | ⟨_, _, _, _, _, _, hp, _⟩ <;> simp [hk, hp]

theorem spec_values_of_facts {t new out : List Cell}
    (hempty : ∀ n ∈ new, n.kind = .cumulative ∧ n.values = [] ∧ n.prev = none)
    (hperm : Triangle.isIncremental t = false → out.Perm new)
    (hchain : Triangle.isIncremental t = true → ∀ c ∈ out, ChainCell t new c) :
    ∀ c ∈ out, c.values = [] := by
  intro c hc
  cases hinc : Triangle.isIncremental t with
  | false => exact (hempty c ((hperm hinc).mem_iff.mp hc)).2.1
  | true => exact (hchain hinc c hc).2.1

theorem spec_disjoint {t out : List Cell}
    (hafter : ∀ c ∈ out, ∀ o ∈ t, rowKey o = rowKey c → o.ev < c.ev) :
    Spec.C15.disjoint t out = true := by
  simp only [Spec.C15.disjoint, List.all_eq_true, Bool.not_eq_true', List.any_eq_false]
  intro c hc o ho
  simp only [Spec.C15.sameCoord, Bool.and_eq_true, beq_iff_eq, not_and]
  intro hrow hev
  have := hafter c hc o ho (sameRow_iff'.mp hrow).symm
  rw [hev, Date.lt_iff] at this; omega

theorem spec_afterLatest {t out : List Cell}
    (hrow : ∀ c ∈ out, ∃ x ∈ t, rowKey x = rowKey c)
    (hafter : ∀ c ∈ out, ∀ o ∈ t, rowKey o = rowKey c → o.ev < c.ev) :
    Spec.C15.afterLatest t out = true := by
  simp only [Spec.C15.afterLatest, List.all_eq_true]
  intro c hc
  obtain ⟨x, hx, hxk⟩ := hrow c hc
  have hxr : x ∈ Spec.C15.rowOf t c := mem_rowOf.mpr ⟨hx, hxk.symm⟩
  obtain ⟨m, hm⟩ := maxEval_some (List.ne_nil_of_mem hxr)
  obtain ⟨o, ho, hoe⟩ := maxEval_mem hm
  obtain ⟨hot, hok⟩ := mem_rowOf.mp ho
  rw [hm]
  simp only [Spec.C15.optLt, decide_eq_true_eq]
  rw [← hoe]; exact hafter c hc o hot hok.symm
end Bermuda.Extend
