/-
C15: the clauses of `rightTriSpec` for ANY unit under three abstract facts about the unit's date arithmetic
(`LagOrder`, `LagInj`, totality of `addDevLag`), and their instances for the day unit.
-/
import Bermuda.Lemmas.ExtendSpecAux
import Bermuda.Lemmas.ExtendDays
namespace Bermuda.Extend
open Bermuda

/-- within a row of the cumulative form, a cell that is not later has a lag that is not greater -/
def LagOrder (cum : List Cell) (u : LagUnit) : Prop :=
  ∀ a ∈ cum, ∀ b ∈ cum, rowKey a = rowKey b → Date.cmp a.ev b.ev ≠ .gt → a.devLag u ≤ b.devLag u

/-- two different lags of a slice's lag list beyond the lag of a cell give different evaluation dates -/
def LagInj (cum : List Cell) (lags : Option (List Rat)) (u : LagUnit) : Prop :=
  ∀ p ∈ Triangle.slices cum, ∀ e ∈ p.2, ∀ l1 ∈ lagListOf lags u p.2, ∀ l2 ∈ lagListOf lags u p.2,
    l1 > e.devLag u → l2 > e.devLag u → ∀ ev, addDevLag e.pe l1 u = .ok ev → addDevLag e.pe l2 u = .ok ev → l1 = l2

theorem addDevLag_total {u : LagUnit} (hu : u ≠ .timedelta) (pe : Date) (l : Rat) :
    ∃ ev, addDevLag pe l u = .ok ev := by
  cases u with
  | month => exact ⟨_, rfl⟩
  | day => exact ⟨_, rfl⟩
  | timedelta => exact absurd rfl hu

/-! ### `onGrid`, `complete`, `emptyWhenComplete` -/

theorem gtOpt_lastLag_u {t cum : List Cell} {u : LagUnit} (hg : SameGrid t cum) (hord : LagOrder cum u)
    {e c : Cell} (he : e ∈ cum) (hk : rowKey c = rowKey e)
    (hlatest : ∀ o ∈ cum, o.md = e.md → o.ps = e.ps → o.pe = e.pe → Date.cmp o.ev e.ev ≠ .gt)
    {l : Rat} (hl : l > e.devLag u) : Spec.C15.gtOpt l (Spec.C15.lastLag t u c) = true := by
  obtain ⟨x, hx, hxk, _⟩ := hg.1 e he
  have hne : (Spec.C15.rowOf t c).map (fun o => o.devLag u) ≠ [] := by
    intro hnil
    have : x ∈ Spec.C15.rowOf t c := mem_rowOf.mpr ⟨hx, hk.trans hxk.symm⟩
    have := List.mem_map_of_mem (f := fun o => o.devLag u) this
    rw [hnil] at this; cases this
  obtain ⟨m, hm⟩ := maxRat_some hne
  unfold Spec.C15.lastLag
  rw [hm]
  simp only [Spec.C15.gtOpt, decide_eq_true_eq]
  obtain ⟨hmem, _⟩ := maxRat_spec hm
  obtain ⟨o, ho, rfl⟩ := List.mem_map.mp hmem
  obtain ⟨hot, hok⟩ := mem_rowOf.mp ho
  obtain ⟨o', ho', hok', hoe'⟩ := hg.2 o hot
  have hkk : rowKey o' = rowKey e := hok'.trans (hok.symm.trans hk)
  obtain ⟨k1, k2, k3⟩ := rowKey_eq_iff.mp hkk
  have hle := hlatest o' ho' k1 k2 k3
  have := hord o' ho' e he hkk hle
  rw [devLag_of_row hok' hoe' u] at this
  exact lt_of_le_of_lt this hl

theorem spec_rightTri_onGrid_u {t cum new out : List Cell} {lags : Option (List Rat)} {u : LagUnit}
    (hf : TriFacts t cum new out lags u) (hord : LagOrder cum u) :
    Spec.C15.rightTriOnGrid t lags u out = true := by
  have hg := hf.cumOf.sameGrid
  simp only [Spec.C15.rightTriOnGrid, List.all_eq_true, List.any_eq_true, Bool.and_eq_true]
  intro c hc
  obtain ⟨n, hn, hk, hev⟩ := hf.fwd c hc
  obtain ⟨e, he, hne, hlatest, p, hp, hpm, lag, hlag, hgt, hadd⟩ := ((hf.iff n).mp hn).row
  have hkn : rowKey n = rowKey e := by rw [hne]; rfl
  have hke : rowKey c = rowKey e := hk.trans hkn
  refine ⟨lag, ?_, gtOpt_lastLag_u hg hord he hke hlatest hgt, ?_⟩
  · exact (lagList_iff_lagSet hg hp (by rw [md_of_rowKey hke, hpm]) lag).mp hlag
  · rw [pe_of_rowKey hke, hev]
    simp [Spec.C15.evAt, hadd]

theorem spec_rightTri_complete_u {t cum new out : List Cell} {lags : Option (List Rat)} {u : LagUnit}
    (hf : TriFacts t cum new out lags u) (hu : u ≠ .timedelta) :
    Spec.C15.rightTriComplete t lags u out = true := by
  have hg := hf.cumOf.sameGrid
  simp only [Spec.C15.rightTriComplete, List.all_eq_true, Bool.or_eq_true, Bool.not_eq_true']
  intro rep hrep l hl
  by_cases hgt : Spec.C15.gtOpt l (Spec.C15.lastLag t u rep) = true
  swap
  · left; simpa using hgt
  right
  obtain ⟨rep', hrep', hrk, _⟩ := hg.2 rep hrep
  obtain ⟨p, hp, hpm, hrp⟩ := slices_cover hrep'
  obtain ⟨edge, hedge⟩ := hf.edges p hp
  obtain ⟨e, he, hem, hep⟩ := rightEdge_cover hedge hrp
  have hep2 : e ∈ p.2 := (rightEdge_latest hedge he).1
  have hec : e ∈ cum := mem_of_mem_slices hp hep2
  have hke : rowKey e = rowKey rep := by
    have h1 : rowKey e = rowKey rep' := by
      rw [rowKey_eq_iff]
      simp only [cellPeriod, Prod.mk.injEq] at hep
      exact ⟨hem, hep.1, hep.2⟩
    exact h1.trans hrk
  have hle : l > e.devLag u := by
    obtain ⟨x, hx, hxk, hxe⟩ := hg.1 e hec
    unfold Spec.C15.lastLag at hgt
    cases hm : Spec.C15.maxRat ((Spec.C15.rowOf t rep).map fun o => o.devLag u) with
    | none => rw [hm] at hgt; simp [Spec.C15.gtOpt] at hgt
    | some m =>
      rw [hm] at hgt
      simp only [Spec.C15.gtOpt, decide_eq_true_eq] at hgt
      have hxr : x ∈ Spec.C15.rowOf t rep := mem_rowOf.mpr ⟨hx, (hxk.trans hke).symm⟩
      have := (maxRat_spec hm).2 _ (List.mem_map_of_mem (f := fun o => o.devLag u) hxr)
      rw [devLag_of_row hxk hxe u] at this
      exact lt_of_le_of_lt this hgt
  have hlag : l ∈ lagListOf lags u p.2 :=
    (lagList_iff_lagSet hg hp (by rw [← md_of_rowKey hrk, hpm]) l).mpr hl
  obtain ⟨ev, hev⟩ := addDevLag_total hu e.pe l
  have hcell : RightTriCell cum lags u (emptyCell e ev) :=
    ⟨p, hp, edge, hedge, e, he, l, hlag, hle, ev, hev, rfl⟩
  obtain ⟨c, hc, hck, hce⟩ := hf.bwd _ ((hf.iff _).mpr hcell)
  have hpe : rep.pe = e.pe := (pe_of_rowKey hke).symm
  simp only [Spec.C15.evAt, hpe, hev, List.any_eq_true, Bool.and_eq_true, beq_iff_eq]
  exact ⟨c, hc, sameRow_iff'.mpr (hck.trans hke), hce⟩

theorem spec_rightTri_emptyWhenComplete_u {t cum new out : List Cell} {lags : Option (List Rat)}
    {u : LagUnit} (hf : TriFacts t cum new out lags u) (hord : LagOrder cum u) :
    (!(Spec.C15.rightTriNothingMissing t lags u) || out.isEmpty) = true := by
  cases out with
  | nil => simp
  | cons c rest =>
    have hgrid := spec_rightTri_onGrid_u hf hord
    simp only [Spec.C15.rightTriOnGrid, List.all_eq_true, List.any_eq_true, Bool.and_eq_true] at hgrid
    obtain ⟨l, hl, hgt, _⟩ := hgrid c (by simp)
    obtain ⟨n, hn, hk, _⟩ := hf.fwd c (by simp)
    obtain ⟨e, he, hne, _⟩ := ((hf.iff n).mp hn).row
    obtain ⟨x, hx, hxk, _⟩ := hf.cumOf.sameGrid.1 e he
    have hkx : rowKey x = rowKey c := by
      rw [hxk, hk, hne]; rfl
    simp only [Bool.or_eq_true, Bool.not_eq_true', List.isEmpty_cons, Bool.false_eq_true, or_false]
    simp only [Spec.C15.rightTriNothingMissing]
    rw [List.all_eq_false]
    refine ⟨x, hx, ?_⟩
    simp only [Bool.not_eq_true, List.all_eq_false]
    refine ⟨l, ?_, ?_⟩
    · unfold Spec.C15.lagSetOf at hl ⊢
      rw [sliceOf_congr (md_of_rowKey hkx)]; exact hl
    · unfold Spec.C15.lastLag at hgt ⊢
      rw [rowOf_congr hkx]; simp [hgt]

/-! ### `nodup` -/

theorem mapM_pairwise {α β : Type} {f : α → Except Err β} {R : α → α → Prop} {S : β → β → Prop}
    (hRS : ∀ x y a b, R x y → f x = .ok a → f y = .ok b → S a b) :
    ∀ (l : List α) (out : List β), l.Pairwise R → l.mapM f = .ok out → out.Pairwise S
  | [], out, _, h => by
    simp only [List.mapM_nil, pure, Except.pure] at h; cases h; exact List.Pairwise.nil
  | x :: rest, out, hp, h => by
    obtain ⟨b, bs, hb, hbs, rfl⟩ := mapM_ok_cons h
    obtain ⟨h1, h2⟩ := List.pairwise_cons.mp hp
    refine List.pairwise_cons.mpr ⟨?_, mapM_pairwise hRS rest bs h2 hbs⟩
    intro b' hb'
    obtain ⟨y, hy, hfy⟩ := mapM_ok_mem hbs b' hb'
    exact hRS x y b b' (h1 y hy) hb hfy

theorem rightPairs_pairwise {L : List Rat} {u : LagUnit} {edge : List Cell} (hL : L.Nodup)
    (hrows : (edge.map rowId).Nodup) :
    (rightPairs L u edge).Pairwise (fun x y => rowId x.2 ≠ rowId y.2 ∨ x.1 ≠ y.1) := by
  unfold rightPairs
  rw [List.pairwise_flatMap]
  constructor
  · intro lag _
    rw [List.pairwise_map]
    have hnd : ((edge.filter fun c => lag > c.devLag u).map rowId).Nodup :=
      hrows.sublist (List.filter_sublist.map rowId)
    rw [List.Nodup, List.pairwise_map] at hnd
    exact hnd.imp (fun h => Or.inl h)
  · apply hL.pairwise_of_forall_ne
    intro l1 _ l2 _ hne x hx y hy
    obtain ⟨_, _, rfl⟩ := List.mem_map.mp hx
    obtain ⟨_, _, rfl⟩ := List.mem_map.mp hy
    exact Or.inr hne

theorem rightTriangleSlice_keys_nodup {cum : List Cell} {lags : Option (List Rat)} {u : LagUnit}
    (hinj : LagInj cum lags u) (hnd : ∀ l, lags = some l → l.Nodup)
    {p : Metadata × List Cell} (hp : p ∈ Triangle.slices cum) {ys : List Cell}
    (h : rightTriangleSlice lags u p.2 = .ok ys) :
    (ys.map ckey).Nodup ∧ ∀ c ∈ ys, c.md = p.1 := by
  have hmd : ∀ c ∈ ys, c.md = p.1 := by
    intro c hc
    obtain ⟨edge, hedge, e, he, _, _, _, _, _, rfl⟩ := (rightTriangleSlice_mem h c).mp hc
    exact ((slices_spec hp e).mp (rightEdge_latest hedge he).1).2
  refine ⟨?_, hmd⟩
  unfold rightTriangleSlice at h
  simp only [bind, Except.bind] at h
  split at h
  · cases h
  · rename_i edge hedge
    split at h
    · simp [throw, throwThe, MonadExceptOf.throw] at h
    · have hL : (lagListOf lags u p.2).Nodup := by
        cases lags with
        | some l => exact hnd l rfl
        | none => exact nodup_eraseDups _
      have hpw := (rightPairs_pairwise (u := u) hL (rightEdge_rows_nodup hedge)).imp_of_mem
        (S := fun x y => x ∈ rightPairs (lagListOf lags u p.2) u edge ∧
          y ∈ rightPairs (lagListOf lags u p.2) u edge ∧ (rowId x.2 ≠ rowId y.2 ∨ x.1 ≠ y.1))
        (fun hx hy hr => ⟨hx, hy, hr⟩)
      rw [List.Nodup, List.pairwise_map]
      refine mapM_pairwise (f := rightCellOf u) ?_ _ _ hpw h
      intro x y a b ⟨hx, hy, hr⟩ ha hb hkey
      obtain ⟨ev1, hev1, rfl, _⟩ := rightCellOf_ok.mp ha
      obtain ⟨ev2, hev2, rfl, _⟩ := rightCellOf_ok.mp hb
      simp only [ckey, emptyCell, Prod.mk.injEq] at hkey
      have hrow : rowId x.2 = rowId y.2 := rowId_eq_iff.mpr hkey.1
      obtain ⟨hx1, hx2, hx3⟩ := mem_rightPairs.mp hx
      obtain ⟨hy1, hy2, hy3⟩ := mem_rightPairs.mp hy
      have hxy : x.2 = y.2 := List.inj_on_of_nodup_map (rightEdge_rows_nodup hedge) hx2 hy2 hrow
      rcases hr with hr | hr
      · exact hr hrow
      · apply hr
        rw [← hxy] at hev2 hy3
        rw [← hkey.2] at hev2
        exact hinj p hp x.2 (rightEdge_latest hedge hx2).1 x.1 hx1 y.1 hy1 hx3 hy3 ev1 hev1 hev2

theorem rightTri_new_keys_nodup_u {cum new : List Cell} {lags : Option (List Rat)} {u : LagUnit}
    (hinj : LagInj cum lags u) (hnd : ∀ l, lags = some l → l.Nodup)
    (h : rightTriangleCells cum lags (some u) = .ok new) : (new.map ckey).Nodup := by
  unfold rightTriangleCells at h
  simp only [bind, Except.bind, pure, Except.pure] at h
  split at h
  · cases h
  · rename_i parts hparts
    cases h
    apply mapM_blocks_keys_nodup (fun p : Metadata × List Cell => rightTriangleSlice lags u p.2) (·.1)
      (fun c => c.md) (fun a b hab => by
        simp only [ckey, Prod.mk.injEq] at hab
        exact md_of_rowKey hab.1) _ _ (slices_keys_nodup cum) hparts
    intro p hp ys hys
    exact rightTriangleSlice_keys_nodup hinj hnd hp hys

theorem rightTri_nodupCoords_u {t cum new out : List Cell} {lags : Option (List Rat)} {u : LagUnit}
    (hf : TriFacts t cum new out lags u) (hinj : LagInj cum lags u)
    (hnd : ∀ l, lags = some l → l.Nodup) : Spec.C15.nodupCoords out = true := by
  have hk := rightTri_new_keys_nodup_u hinj hnd hf.newEq
  exact nodupCoords_of_keys out (finishRight_keys_nodup (fun n hn => (hf.empties n hn).1) hk hf.fin)

/-! ### the day unit -/

theorem devLag_day (c : Cell) : c.devLag .day = ((c.ev.ordinal - c.pe.ordinal : Int) : Rat) := rfl

theorem lagOrder_day {cum : List Cell} (hval : ∀ c ∈ cum, c.pe.valid = true ∧ c.ev.valid = true) :
    LagOrder cum .day := by
  intro a ha b hb hk hle
  rw [devLag_day, devLag_day, pe_of_rowKey hk]
  have hnot : ¬ (b.ev < a.ev) := (Date.not_gt_iff _ _).mp hle
  have : a.ev.ordinal ≤ b.ev.ordinal := by
    by_contra hcon
    exact hnot (Date.lt_of_ordinal_lt (hval b hb).2 (hval a ha).2 (by omega))
  have h2 : a.ev.ordinal - b.pe.ordinal ≤ b.ev.ordinal - b.pe.ordinal := by omega
  exact_mod_cast h2

theorem lagListOf_int_day {lags : Option (List Rat)}
    (hint : ∀ l, lags = some l → ∀ lag ∈ l, ∃ k : Int, lag = ((k : Int) : Rat))
    {p : Metadata × List Cell} {lag : Rat} (hlag : lag ∈ lagListOf lags .day p.2) :
    ∃ k : Int, lag = ((k : Int) : Rat) := by
  cases lags with
  | some l => exact hint l rfl lag hlag
  | none =>
    simp only [lagListOf, List.mem_eraseDups] at hlag
    obtain ⟨c, _, rfl⟩ := List.mem_map.mp hlag
    exact ⟨c.ev.ordinal - c.pe.ordinal, rfl⟩

theorem lagInj_day {cum : List Cell} {lags : Option (List Rat)}
    (hint : ∀ l, lags = some l → ∀ lag ∈ l, ∃ k : Int, lag = ((k : Int) : Rat))
    (hrange : ∀ p ∈ Triangle.slices cum, ∀ e ∈ p.2, ∀ lag ∈ lagListOf lags .day p.2,
      1 ≤ e.pe.ordinal + lag.floor ∧ e.pe.ordinal + lag.floor ≤ 3652059) :
    LagInj cum lags .day := by
  intro p hp e he l1 hl1 l2 hl2 _ _ ev h1 h2
  obtain ⟨k1, rfl⟩ := lagListOf_int_day hint hl1
  obtain ⟨k2, rfl⟩ := lagListOf_int_day hint hl2
  have e1 : e.pe.addDays (((k1 : Int) : Rat)).floor = ev := Except.ok.inj h1
  have e2 : e.pe.addDays (((k2 : Int) : Rat)).floor = ev := Except.ok.inj h2
  obtain ⟨a1, a2⟩ := hrange p hp e he _ hl1
  obtain ⟨b1, b2⟩ := hrange p hp e he _ hl2
  rw [floor_intCast] at e1 e2 a1 a2 b1 b2
  have o1 := (addDays_ordinal e.pe k1 a1 a2).2
  have o2 := (addDays_ordinal e.pe k2 b1 b2).2
  rw [e1] at o1; rw [e2] at o2
  have : k1 = k2 := by omega
  rw [this]

end Bermuda.Extend
