/-
C15: success (totality) of the extension operators of the model — when the operators return `.ok`.
The right-hand operators on a cumulative (`Cell` / `CumulativeCell`) input succeed exactly when no
constructor call raises; `backfill` succeeds when the static fields exist.
-/
import Bermuda.Lemmas.ExtendSpecBackfillClauses
import Bermuda.Lemmas.ExtendSpecFillClauses
namespace Bermuda.Extend
open Bermuda

theorem mapM_ok_of_forall {α β : Type} {f : α → Except Err β} :
    ∀ (l : List α), (∀ x ∈ l, ∃ y, f x = .ok y) → ∃ ys, l.mapM f = .ok ys
  | [], _ => ⟨[], rfl⟩
  | a :: rest, h => by
    obtain ⟨y, hy⟩ := h a (by simp)
    obtain ⟨ys, hys⟩ := mapM_ok_of_forall rest (fun x hx => h x (List.mem_cons_of_mem _ hx))
    exact ⟨y :: ys, by rw [List.mapM_cons, hy, hys]; rfl⟩

theorem kindsConsistent_of_subset {l t : List Cell} (hsub : ∀ c ∈ l, c ∈ t)
    (h : kindsConsistent t = true) : kindsConsistent l = true := by
  unfold kindsConsistent at h ⊢
  simp only [Bool.or_eq_true, List.all_eq_true] at h ⊢
  rcases h with (h | h) | h
  · exact Or.inl (Or.inl fun c hc => h c (hsub c hc))
  · exact Or.inl (Or.inr fun c hc => h c (hsub c hc))
  · exact Or.inr fun c hc => h c (hsub c hc)

theorem kindsConsistent_of_cumulative {l : List Cell} (h : ∀ c ∈ l, c.kind = .cumulative) :
    kindsConsistent l = true := by
  unfold kindsConsistent
  simp only [Bool.or_eq_true, List.all_eq_true]
  exact Or.inl (Or.inr fun c hc => by rw [h c hc]; rfl)

theorem ofCells_ok {l : List Cell} (h : kindsConsistent l = true) : ∃ t, Triangle.ofCells l = .ok t :=
  (Properties.C01.ofCells_ok_iff l).mpr h

theorem rightEdge_ok {t : List Cell} (h : kindsConsistent t = true) :
    ∃ edge, Triangle.rightEdge t = .ok edge := by
  unfold Triangle.rightEdge
  apply ofCells_ok
  apply kindsConsistent_of_subset ?_ h
  intro c hc
  obtain ⟨p, hp, hc⟩ := List.mem_flatMap.mp hc
  obtain ⟨q, hq, hlast⟩ := List.mem_filterMap.mp hc
  exact mem_of_mem_slices hp (mem_of_mem_groupBy hq (mem_of_lastBy? hlast))

theorem slice_kindsConsistent {t : List Cell} (h : kindsConsistent t = true) {p : Metadata × List Cell}
    (hp : p ∈ Triangle.slices t) : kindsConsistent p.2 = true :=
  kindsConsistent_of_subset (fun _ hc => mem_of_mem_slices hp hc) h

/-! ### `make_right_diagonal` on a cumulative input -/

/-- `make_right_diagonal` (either value of `include_historic`) returns on a class-consistent cumulative
triangle as soon as no constructor call raises: for every cell `e` and every requested date `d` not before
the period start, the empty cell on the row of `e` at `d` passes the `Cell` constructor. -/
theorem makeRightDiagonal_ok {t : List Cell} {dates : List Date} {hist : Bool}
    (hk : kindsConsistent t = true) (hinc : Triangle.isIncremental t = false)
    (hdates : ∀ e ∈ t, ∀ d ∈ dates, e.ps ≤ d → (emptyCell e d).datesOk = true) :
    ∃ out, makeRightDiagonal t dates hist = .ok out := by
  have hslices : ∀ p ∈ Triangle.slices t, ∃ ys, rightDiagonalSlice dates hist p.2 = .ok ys := by
    intro p hp
    obtain ⟨edge, hedge⟩ := rightEdge_ok (slice_kindsConsistent hk hp)
    unfold rightDiagonalSlice
    simp only [hedge, bind, Except.bind]
    apply mapM_ok_of_forall
    intro q hq
    obtain ⟨h1, h2, h3⟩ := mem_diagPairs.mp hq
    have het : q.1 ∈ t := mem_of_mem_slices hp (rightEdge_latest hedge h1).1
    have hd : q.2 ∈ dates := by
      revert h2
      split
      · exact id
      · split
        · intro h2; exact (List.mem_filter.mp h2).1
        · exact id
    exact ⟨emptyCell q.1 q.2, by simp [Cell.mk?, hdates q.1 het q.2 hd h3]⟩
  obtain ⟨parts, hparts⟩ := mapM_ok_of_forall (Triangle.slices t) hslices
  have hnew : rightDiagonalCells t dates hist = .ok parts.flatten := by
    unfold rightDiagonalCells
    simp only [hparts, bind, Except.bind, pure, Except.pure]
  have hcum : ∀ n ∈ parts.flatten, n.kind = .cumulative :=
    fun n hn => (RightDiagCell.empty ((rightDiagonalCells_mem hnew n).mp hn)).1
  obtain ⟨right, hright⟩ := ofCells_ok (kindsConsistent_of_cumulative hcum)
  refine ⟨right, ?_⟩
  unfold makeRightDiagonal finishRight
  simp only [hinc, Bool.false_eq_true, if_false, hnew, hright, bind, Except.bind, pure, Except.pure]

/-! ### `make_right_triangle` on a cumulative input, month / day unit -/

/-- `make_right_triangle` (month or day unit) returns on a class-consistent cumulative triangle as soon as
no constructor call raises: for every cell `e`, every lag `l` that can be asked for on its slice (a
requested lag, or the lag of a cell of the same slice) exceeding the lag of `e`, and the evaluation date
`period_end + l`, the empty cell passes the `Cell` constructor. -/
theorem makeRightTriangle_ok {t : List Cell} {lags : Option (List Rat)} {u : LagUnit} (hu : u ≠ .timedelta)
    (hk : kindsConsistent t = true) (hinc : Triangle.isIncremental t = false)
    (hcells : ∀ e ∈ t, ∀ l,
      ((∃ ls, lags = some ls ∧ l ∈ ls) ∨ (lags = none ∧ ∃ o ∈ t, o.md = e.md ∧ o.devLag u = l)) →
      l > e.devLag u → ∀ ev, addDevLag e.pe l u = .ok ev → (emptyCell e ev).datesOk = true) :
    ∃ out, makeRightTriangleU t lags (some u) = .ok out := by
  have hslices : ∀ p ∈ Triangle.slices t, ∃ ys, rightTriangleSlice lags u p.2 = .ok ys := by
    intro p hp
    obtain ⟨edge, hedge⟩ := rightEdge_ok (slice_kindsConsistent hk hp)
    unfold rightTriangleSlice
    have hnt : (u == LagUnit.timedelta) = false := by cases u <;> simp_all
    simp only [hedge, hnt, Bool.false_and, Bool.false_eq_true, if_false, bind, Except.bind]
    apply mapM_ok_of_forall
    intro q hq
    obtain ⟨h1, h2, h3⟩ := mem_rightPairs.mp hq
    have hep := (rightEdge_latest hedge h2).1
    have het : q.2 ∈ t := mem_of_mem_slices hp hep
    obtain ⟨ev, hev⟩ : ∃ ev, addDevLag q.2.pe q.1 u = .ok ev := by
      cases u with
      | month => exact ⟨_, rfl⟩
      | day => exact ⟨_, rfl⟩
      | timedelta => exact absurd rfl hu
    have hl : (∃ ls, lags = some ls ∧ q.1 ∈ ls) ∨
        (lags = none ∧ ∃ o ∈ t, o.md = q.2.md ∧ o.devLag u = q.1) := by
      cases lags with
      | some ls => exact Or.inl ⟨ls, rfl, by simpa [lagListOf] using h1⟩
      | none =>
        simp only [lagListOf, List.mem_eraseDups, List.mem_map] at h1
        obtain ⟨o, ho, hol⟩ := h1
        obtain ⟨hot, hom⟩ := (slices_spec hp o).mp ho
        obtain ⟨_, hem⟩ := (slices_spec hp q.2).mp hep
        exact Or.inr ⟨rfl, o, hot, hom.trans hem.symm, hol⟩
    have hd := hcells q.2 het q.1 hl h3 ev hev
    exact ⟨emptyCell q.2 ev, rightCellOf_ok.mpr ⟨ev, hev, rfl, hd⟩⟩
  obtain ⟨parts, hparts⟩ := mapM_ok_of_forall (Triangle.slices t) hslices
  have hnew : rightTriangleCells t lags (some u) = .ok parts.flatten := by
    unfold rightTriangleCells
    simp only [hparts, bind, Except.bind, pure, Except.pure]
  have hcum : ∀ n ∈ parts.flatten, n.kind = .cumulative :=
    fun n hn => (RightTriCell.empty ((rightTriangleCells_mem hnew n).mp hn)).1
  obtain ⟨right, hright⟩ := ofCells_ok (kindsConsistent_of_cumulative hcum)
  refine ⟨right, ?_⟩
  unfold makeRightTriangleU finishRight
  simp only [hinc, Bool.false_eq_true, if_false, hnew, hright, bind, Except.bind, pure, Except.pure]

/-! ### `backfill` -/

theorem replFold_ok (first : Cell) : ∀ (statics : List String) (d : Dict Val),
    (∀ f ∈ statics, ∃ v, first.values.get? f = some v) →
    ∃ r, statics.foldlM (fun d f => match first.values.get? f with
      | some v => (pure (d.set f v) : Except Err (Dict Val))
      | none => throw Err.keyError) d = .ok r
  | [], d, _ => ⟨d, rfl⟩
  | f :: rest, d, h => by
    obtain ⟨v, hv⟩ := h f (by simp)
    obtain ⟨r, hr⟩ := replFold_ok first rest (d.set f v) (fun g hg => h g (List.mem_cons_of_mem _ hg))
    refine ⟨r, ?_⟩
    rw [List.foldlM_cons]
    simp only [hv, bind, Except.bind, pure, Except.pure]
    exact hr

theorem replacementValues_ok {first : Cell} {statics : List String}
    (h : ∀ f ∈ statics, ∃ v, first.values.get? f = some v) :
    ∃ repl, replacementValues first statics = .ok repl :=
  replFold_ok first statics _ h

theorem backfillRow_total {statics : List String} {res minLag minAllowed : Int} {row : List Cell}
    (hres : 0 < res) (hstat : ∀ first, row.head? = some first → ∀ f ∈ statics, ∃ v, first.values.get? f = some v) :
    ∃ ys, backfillRow statics (some res) minLag minAllowed row = .ok ys := by
  unfold backfillRow
  cases hf : row.head? with
  | none => exact ⟨[], rfl⟩
  | some first =>
    obtain ⟨repl, hrepl⟩ := replacementValues_ok (hstat first hf)
    have hnot : ¬ res ≤ 0 := by omega
    simp only [hrepl, bind, Except.bind, pure, Except.pure, if_neg hnot]
    exact ⟨_, rfl⟩

theorem kindsConsistent_of_kinds {l t : List Cell} (hsub : ∀ c ∈ l, ∃ o ∈ t, c.kind = o.kind)
    (h : kindsConsistent t = true) : kindsConsistent l = true := by
  unfold kindsConsistent at h ⊢
  simp only [Bool.or_eq_true, List.all_eq_true] at h ⊢
  rcases h with (h | h) | h
  · exact Or.inl (Or.inl fun c hc => by obtain ⟨o, ho, hk⟩ := hsub c hc; rw [hk]; exact h o ho)
  · exact Or.inl (Or.inr fun c hc => by obtain ⟨o, ho, hk⟩ := hsub c hc; rw [hk]; exact h o ho)
  · exact Or.inr fun c hc => by obtain ⟨o, ho, hk⟩ := hsub c hc; rw [hk]; exact h o ho

/-- `backfill` returns on a class-consistent triangle with a period resolution (i.e. non-empty), a positive (given
or inferred) evaluation resolution, and the static fields present in every cell (`first.values[field]`). -/
theorem backfill_total {t : List Cell} {statics : List String} {res? : Option Int} {minLag pres res : Int}
    (hk : kindsConsistent t = true) (hpr : periodResolution t = some pres)
    (hres : resolvedRes t res? = some res) (hpos : 0 < res)
    (hstat : ∀ c ∈ t, ∀ f ∈ statics, (c.values.get? f).isSome = true) :
    ∃ out, backfill t statics res? minLag = .ok out := by
  replace hstat : ∀ c ∈ t, ∀ f ∈ statics, ∃ v, c.values.get? f = some v :=
    fun c hc f hf => Option.isSome_iff_exists.mp (hstat c hc f hf)
  have hrows : ∀ r ∈ periodRows t, ∃ ys,
      backfillRow statics (resolvedRes t res?) minLag (-pres + 1) r.2 = .ok ys := by
    intro r hr
    rw [hres]
    apply backfillRow_total hpos
    intro first hf
    exact hstat first (((periodRows_spec hr).1 first).mp (List.mem_of_head? hf)).1
  obtain ⟨parts, hparts⟩ := mapM_ok_of_forall (periodRows t) hrows
  have hkinds : ∀ a ∈ parts.flatten, ∃ o ∈ t, a.kind = o.kind := by
    intro a ha
    obtain ⟨ys, hys, hay⟩ := List.mem_flatten.mp ha
    obtain ⟨r, hr, hfr⟩ := mapM_ok_mem hparts ys hys
    obtain ⟨first, hf, _, _, _, _, _, _, _, rfl⟩ := backfillRow_mem hfr hay
    exact ⟨first, (((periodRows_spec hr).1 first).mp (List.mem_of_head? hf)).1, rfl⟩
  obtain ⟨addTri, hadd⟩ := ofCells_ok (kindsConsistent_of_kinds hkinds hk)
  have hperm := Properties.C01.ofCells_perm hadd
  obtain ⟨out, hout⟩ := ofCells_ok (l := t ++ addTri) (kindsConsistent_of_kinds (by
    intro c hc
    rcases List.mem_append.mp hc with hc | hc
    · exact ⟨c, hc, rfl⟩
    · exact hkinds c (hperm.mem_iff.mp hc)) hk)
  refine ⟨out, ?_⟩
  unfold backfill
  cases res? with
  | some r =>
    simp only [resolvedRes] at hparts
    simp only [hpr, bind, Except.bind, pure, Except.pure, hparts, hadd, Triangle.add, hout]
  | none =>
    simp only [resolvedRes] at hparts
    simp only [hpr, bind, Except.bind, pure, Except.pure, hparts, hadd, Triangle.add, hout]

end Bermuda.Extend
