/-
C15: success of the incremental tail of the right-hand operators (`to_incremental` of the new cells, then
`_fix_prev_evaluation_date`) and of the two operators on a complete `IncrementalCell` triangle.
-/
import Bermuda.Lemmas.ExtendTotal
import Bermuda.Properties.C04
namespace Bermuda.Extend
open Bermuda

theorem inc_kind {right inc : List Cell} (hni : Triangle.isIncremental right = false)
    (h : Triangle.toIncremental right = .ok inc) : ∀ d ∈ inc, d.kind = .incremental := by
  intro d hd
  rcases (inc_cells hni h).1 d hd with ⟨_, _, _, _, _, rfl⟩ | ⟨_, _, _, _, _, _, _, _, _, rfl, _⟩ <;> rfl

theorem kindsConsistent_of_incremental {l : List Cell} (h : ∀ c ∈ l, c.kind = .incremental) :
    kindsConsistent l = true := by
  unfold kindsConsistent
  simp only [Bool.or_eq_true, List.all_eq_true]
  exact Or.inr fun c hc => by rw [h c hc]; rfl

/-- the common tail on an incremental input returns: the new (empty, cumulative, valid) cells have pairwise different
coordinates and lie strictly after every observation of their row -/
theorem finishRight_total_inc {t new : List Cell} (hinc : Triangle.isIncremental t = true)
    (hk : kindsConsistent t = true)
    (hempty : ∀ n ∈ new, n.kind = .cumulative ∧ n.values = [] ∧ n.prev = none)
    (hok : ∀ n ∈ new, n.datesOk = true) (hps : ∀ n ∈ new, n.ps.valid = true)
    (hcanon : ∀ n ∈ new, n.md.Canon) (hnd : (new.map ckey).Nodup)
    (hafter : ∀ n ∈ new, ∀ e ∈ t, rowKey e = rowKey n → e.ev < n.ev) :
    ∃ out, finishRight t new = .ok out := by
  obtain ⟨right, hright⟩ := ofCells_ok (kindsConsistent_of_cumulative fun n hn => (hempty n hn).1)
  have hperm := Properties.C01.ofCells_perm hright
  have hmem : ∀ c ∈ right, c ∈ new := fun c hc => hperm.mem_iff.mp hc
  have hwf : Properties.C04.WFcum right := by
    refine ⟨?_, ?_, fun c hc => hok c (hmem c hc), fun c hc => hps c (hmem c hc), ?_, ?_⟩
    · have hs := Properties.C01.ofCells_sorted hright
      have hn : right.Pairwise (fun a b => ckey a ≠ ckey b) := by
        have : (right.map ckey).Nodup := (hperm.map ckey).nodup_iff.mpr hnd
        rwa [List.Nodup, List.pairwise_map] at this
      refine (hs.and hn).imp_of_mem ?_
      intro a b ha hb ⟨hle, hne⟩
      cases hc : Cell.cmp a b with
      | lt => rfl
      | gt => simp [Cell.le, hc] at hle
      | eq =>
        exfalso
        have hco := (Cell.cmp_eq_eq (hcanon a (hmem a ha)) (hcanon b (hmem b hb))).mp hc
        simp only [Cell.coord, Coord.mk.injEq] at hco
        apply hne
        simp only [ckey, rowKey, Prod.mk.injEq]
        exact ⟨⟨⟨hco.2.1, hco.2.2.1⟩, hco.1⟩, hco.2.2.2.1⟩
    · intro c hc; rw [(hempty c (hmem c hc)).1]; simp
    · intro a ha b hb _
      rw [(hempty a (hmem a ha)).2.1, (hempty b (hmem b hb)).2.1]; rfl
    · intro a ha b hb _
      rw [(hempty b (hmem b hb)).2.1]
      intro kv hkv; cases hkv
  obtain ⟨u, hu, _⟩ := Properties.C04.toCum_toInc hwf
  have hni : Triangle.isIncremental right = false :=
    not_isIncremental_of_all (fun c hc => by rw [(hempty c (hmem c hc)).1]; simp)
  have hukind := inc_kind hni hu
  have hudates := toIncremental_datesOk hni hu
  have hukeys := toIncremental_keys_perm hni hu
  obtain ⟨obs, hobs⟩ := rightEdge_ok hk
  have hfix : ∀ cell ∈ obs, ∀ ob ∈ edgeCellsOf u, cellPeriod ob = cellPeriod cell → ob.md = cell.md →
      ∃ y, Cell.mk? ({ ob with prev := some cell.ev } : Cell) = .ok y := by
    intro cell hcell ob hobe hper hmd
    have hobu := (edgeCellsOf_mem hobe).1
    have hcellt := (rightEdge_latest hobs hcell).1
    obtain ⟨n, hn, hnk⟩ : ∃ n ∈ new, ckey n = ckey ob := by
      have : ckey ob ∈ new.map ckey :=
        (hperm.map ckey).mem_iff.mp (hukeys.mem_iff.mp (List.mem_map_of_mem hobu))
      obtain ⟨n, hn, hnk⟩ := List.mem_map.mp this
      exact ⟨n, hn, hnk⟩
    simp only [ckey, Prod.mk.injEq] at hnk
    have hrow : rowKey cell = rowKey n := by
      rw [hnk.1, rowKey_eq_iff]
      simp only [cellPeriod, Prod.mk.injEq] at hper
      exact ⟨hmd.symm, hper.1.symm, hper.2.symm⟩
    have hlt : cell.ev < ob.ev := by rw [← hnk.2]; exact hafter n hn cell hcellt hrow
    have hd := hudates ob hobu
    have hkind := hukind ob hobu
    refine ⟨{ ob with prev := some cell.ev }, ?_⟩
    unfold Cell.mk?
    rw [if_pos]
    unfold Cell.datesOk at hd ⊢
    simp only [hkind, Bool.and_eq_true] at hd ⊢
    exact ⟨hd.1, by simpa using hlt⟩
  have key : ∀ (L : List Cell) (e : Err), (∀ x ∈ L, ∃ y, Cell.mk? x = .ok y) →
      L.mapM Cell.mk? = .error e → False := by
    intro L e hL he
    obtain ⟨ys, hys⟩ := mapM_ok_of_forall L hL
    rw [hys] at he; cases he
  unfold finishRight
  simp only [hright, hinc, if_true, hu, bind, Except.bind]
  unfold fixPrevEvaluationDate
  simp only [hobs, bind, Except.bind]
  split
  · rename_i e he
    exfalso
    refine key _ e ?_ he
    intro x hx
    obtain ⟨cell, hcell, hx⟩ := List.mem_flatMap.mp hx
    obtain ⟨ob, hob, rfl⟩ := List.mem_map.mp hx
    obtain ⟨hobe, hcond⟩ := List.mem_filter.mp hob
    simp only [Bool.and_eq_true, beq_iff_eq] at hcond
    exact hfix cell hcell ob hobe hcond.1 hcond.2
  · rename_i fixed hfixed
    have hfixedEq := mapM_mk?_eq _ _ hfixed
    apply ofCells_ok
    apply kindsConsistent_of_incremental
    intro c hc
    rcases List.mem_append.mp hc with hc | hc
    · exact hukind c (List.mem_filter.mp hc).1
    · rw [hfixedEq] at hc
      obtain ⟨cell, _, hx⟩ := List.mem_flatMap.mp hc
      obtain ⟨ob, hob, rfl⟩ := List.mem_map.mp hx
      exact hukind ob (edgeCellsOf_mem (List.mem_filter.mp hob).1).1


theorem emptyCell_congr {e x : Cell} (hk : rowKey x = rowKey e) (d : Date) : emptyCell e d = emptyCell x d := by
  obtain ⟨h1, h2, h3⟩ := rowKey_eq_iff.mp hk
  simp [emptyCell, h1, h2, h3]

/-- `make_right_diagonal` (default `include_historic = False`) returns on a complete incremental triangle with
canonical metadata for distinct requested dates as soon as no `CumulativeCell(...)` call raises -/
theorem makeRightDiagonal_ok_inc {t : List Cell} {dates : List Date} (hC : Properties.C04.Complete t)
    (hinc : Triangle.isIncremental t = true) (hcanon : ∀ c ∈ t, c.md.Canon) (hd : dates.Nodup)
    (hdates : ∀ e ∈ t, ∀ d ∈ dates, e.ps ≤ d → (emptyCell e d).datesOk = true) :
    ∃ out, makeRightDiagonal t dates false = .ok out := by
  obtain ⟨cum, hcum, _⟩ := Properties.C04.toInc_toCum hC
  obtain ⟨hA, hB⟩ := toCumulative_cells hinc hcum
  have hkc : kindsConsistent cum = true := kindsConsistent_of_cumulative fun c hc => (hA c hc).1
  have hni : Triangle.isIncremental cum = false :=
    not_isIncremental_of_all (fun c hc => by rw [(hA c hc).1]; simp)
  obtain ⟨right, hright⟩ := makeRightDiagonal_ok (t := cum) (dates := dates) (hist := false) hkc hni (by
    intro e he d hdd hle
    obtain ⟨_, x, hx, hxk, _⟩ := hA e he
    rw [emptyCell_congr hxk d]
    exact hdates x hx d hdd (by rw [(rowKey_eq_iff.mp hxk).2.1]; exact hle))
  obtain ⟨new, hnew, _⟩ := makeRightDiagonal_fin hni hright
  have hiff := rightDiagonalCells_mem hnew
  have hsrc : ∀ n ∈ new, ∃ x ∈ t, rowKey x = rowKey n := by
    intro n hn
    obtain ⟨e, he, hne, _⟩ := ((hiff n).mp hn).src
    obtain ⟨_, x, hx, hxk, _⟩ := hA e he
    exact ⟨x, hx, by rw [hxk, hne]; rfl⟩
  have hkt : kindsConsistent t = true := kindsConsistent_of_incremental hC.1.isInc
  obtain ⟨out, hout⟩ := finishRight_total_inc (t := t) (new := new) hinc hkt
    (fun n hn => RightDiagCell.empty ((hiff n).mp hn)) (rightDiagonalCells_datesOk hnew)
    (fun n hn => by
      obtain ⟨x, hx, hxk⟩ := hsrc n hn
      rw [← (rowKey_eq_iff.mp hxk).2.1]; exact hC.1.psValid x hx)
    (fun n hn => by
      obtain ⟨x, hx, hxk⟩ := hsrc n hn
      rw [← (rowKey_eq_iff.mp hxk).1]; exact hcanon x hx)
    (rightDiag_new_keys_nodup hd hnew)
    (fun n hn e' he' hk => by
      obtain ⟨_, _, _, _, _, hafter⟩ := ((hiff n).mp hn).facts
      obtain ⟨c, hc, hck, hce⟩ := hB e' he'
      rw [← hce]
      exact hafter c hc (by rw [md_of_rowKey hck, md_of_rowKey hk]))
  refine ⟨out, ?_⟩
  unfold makeRightDiagonal
  simp only [hinc, if_true, hcum, hnew, bind, Except.bind]
  exact hout

/-- `make_right_triangle`, month unit, on a complete incremental month-aligned triangle with canonical metadata,
integer and distinct requested lags, returns as soon as no `CumulativeCell(...)` call raises -/
theorem makeRightTriangle_ok_inc {t : List Cell} {lags : Option (List Rat)} (hC : Properties.C04.Complete t)
    (hinc : Triangle.isIncremental t = true) (hcanon : ∀ c ∈ t, c.md.Canon)
    (hal : ∀ c ∈ t, MonthAligned c)
    (hint : ∀ l, lags = some l → ∀ lag ∈ l, ∃ k : Int, lag = ((k : Int) : Rat))
    (hnd : ∀ l, lags = some l → l.Nodup)
    (hcells : ∀ e ∈ t, ∀ l,
      ((∃ ls, lags = some ls ∧ l ∈ ls) ∨ (lags = none ∧ ∃ o ∈ t, o.md = e.md ∧ o.devLag = l)) →
      l > e.devLag → (emptyCell e (addMonths e.pe l)).datesOk = true) :
    ∃ out, makeRightTriangleU t lags (some .month) = .ok out := by
  obtain ⟨cum, hcum, _⟩ := Properties.C04.toInc_toCum hC
  obtain ⟨hA, hB⟩ := toCumulative_cells hinc hcum
  have hg : SameGrid t cum := CumOf.sameGrid (Or.inr ⟨hinc, hcum⟩)
  have halc := aligned_cum hg hal
  have hkc : kindsConsistent cum = true := kindsConsistent_of_cumulative fun c hc => (hA c hc).1
  have hni : Triangle.isIncremental cum = false :=
    not_isIncremental_of_all (fun c hc => by rw [(hA c hc).1]; simp)
  obtain ⟨right, hright⟩ := makeRightTriangle_ok (t := cum) (lags := lags) (u := .month) (by decide) hkc hni (by
    intro e he l hl hgt ev hev
    obtain ⟨_, x, hx, hxk, hxe⟩ := hA e he
    have hev' : addMonths e.pe l = ev := Except.ok.inj hev
    rw [← hev', emptyCell_congr hxk, ← pe_of_rowKey hxk]
    apply hcells x hx l ?_ (by rw [devLag_of_row hxk hxe .month]; exact hgt)
    rcases hl with hl | ⟨hn, o, ho, hom, hol⟩
    · exact Or.inl hl
    · obtain ⟨_, y, hy, hyk, hye⟩ := hA o ho
      exact Or.inr ⟨hn, y, hy, by rw [md_of_rowKey hyk, hom, ← md_of_rowKey hxk],
        by rw [← hol]; exact devLag_of_row hyk hye .month⟩)
  obtain ⟨new, hnew, _⟩ := makeRightTriangle_fin hni hright
  have hiff := rightTriangleCells_mem hnew
  have hrowf : ∀ n ∈ new, ∃ e ∈ cum, n = emptyCell e n.ev ∧
      (∀ o ∈ cum, o.md = e.md → o.ps = e.ps → o.pe = e.pe → Date.cmp o.ev e.ev ≠ .gt) ∧ e.ev < n.ev := by
    intro n hn
    obtain ⟨e, he, hne, hlatest, p, hp, _, lag, hlag, hgt, hev⟩ := ((hiff n).mp hn).row
    refine ⟨e, he, hne, hlatest, ?_⟩
    obtain ⟨k, rfl⟩ := lagListOf_int (fun c hc => halc c (mem_of_mem_slices hp hc)) hint lag hlag
    have hev' : addMonths e.pe ((k : Int) : Rat) = n.ev := Except.ok.inj hev
    rw [← hev']
    exact addMonths_after (halc e he) hgt
  have hsrc : ∀ n ∈ new, ∃ x ∈ t, rowKey x = rowKey n := by
    intro n hn
    obtain ⟨e, he, hne, _⟩ := hrowf n hn
    obtain ⟨_, x, hx, hxk, _⟩ := hA e he
    exact ⟨x, hx, by rw [hxk, hne]; rfl⟩
  have hkt : kindsConsistent t = true := kindsConsistent_of_incremental hC.1.isInc
  obtain ⟨out, hout⟩ := finishRight_total_inc (t := t) (new := new) hinc hkt
    (fun n hn => RightTriCell.empty ((hiff n).mp hn)) (rightTriangleCells_datesOk hnew)
    (fun n hn => by
      obtain ⟨x, hx, hxk⟩ := hsrc n hn
      rw [← (rowKey_eq_iff.mp hxk).2.1]; exact hC.1.psValid x hx)
    (fun n hn => by
      obtain ⟨x, hx, hxk⟩ := hsrc n hn
      rw [← (rowKey_eq_iff.mp hxk).1]; exact hcanon x hx)
    (rightTri_new_keys_nodup halc hint hnd hnew)
    (fun n hn e' he' hk => by
      obtain ⟨e, he, hne, hlatest, hlt⟩ := hrowf n hn
      obtain ⟨c, hc, hck, hce⟩ := hB e' he'
      have hkn : rowKey n = rowKey e := by rw [hne]; rfl
      obtain ⟨k1, k2, k3⟩ := rowKey_eq_iff.mp (hck.trans (hk.trans hkn))
      rw [← hce]
      exact Date.lt_of_not_gt_of_lt (hlatest c hc k1 k2 k3) hlt)
  refine ⟨out, ?_⟩
  unfold makeRightTriangleU
  simp only [hinc, if_true, hcum, hnew, bind, Except.bind]
  exact hout

end Bermuda.Extend
