/-
C15: `make_right_diagonal(include_historic=True)` on a complete `IncrementalCell` triangle — it raises as soon as a
requested date lands at or before an observation of a row it is created on, and returns when every created cell lies
strictly beyond the observations of its row.
-/
import Bermuda.Lemmas.ExtendTotalInc
namespace Bermuda.Extend
open Bermuda

/-- the stages of `finishRight` on an incremental input up to `to_incremental` return (copied from the proof of
`finishRight_total_inc`; nothing about the position of the new cells relative to the observations is needed here) -/
theorem finishRight_stages_inc {new : List Cell}
    (hempty : ∀ n ∈ new, n.kind = .cumulative ∧ n.values = [] ∧ n.prev = none)
    (hok : ∀ n ∈ new, n.datesOk = true) (hps : ∀ n ∈ new, n.ps.valid = true)
    (hcanon : ∀ n ∈ new, n.md.Canon) (hnd : (new.map ckey).Nodup) :
    ∃ right u, Triangle.ofCells new = .ok right ∧ Triangle.toIncremental right = .ok u ∧
      (∀ d ∈ u, d.kind = .incremental) ∧ (u.map ckey).Perm (new.map ckey) := by
  obtain ⟨right, hright⟩ := ofCells_ok (kindsConsistent_of_cumulative fun n hn => (hempty n hn).1)
  have hperm := Properties.C01.ofCells_perm hright
  have hmem : ∀ c ∈ right, c ∈ new := fun c hc => hperm.mem_iff.mp hc
  have hwf : Properties.C04.WFcum right := by
    refine ⟨?_, ?_, fun c hc => hok c (hmem c hc), fun c hc => hps c (hmem c hc), ?_, ?_⟩
    · have hs := Properties.C01.ofCells_sorted hright
      have hn : right.Pairwise (fun a b => ckey a ≠ ckey b) := by
        have : (right.map ckey).Nodup := (hperm.map ckey).nodup_iff.mpr hnd
        rwa [List.Nodup, List.pairwise_map] at this
      refine (hs.and hn).imp_of_mem ?_
      intro a b ha hb ⟨hle, hne⟩
      cases hc : Cell.cmp a b with
      | lt => rfl
      | gt => simp [Cell.le, hc] at hle
      | eq =>
        exfalso
        have hco := (Cell.cmp_eq_eq (hcanon a (hmem a ha)) (hcanon b (hmem b hb))).mp hc
        simp only [Cell.coord, Coord.mk.injEq] at hco
        apply hne
        simp only [ckey, rowKey, Prod.mk.injEq]
        exact ⟨⟨⟨hco.2.1, hco.2.2.1⟩, hco.1⟩, hco.2.2.2.1⟩
    · intro c hc; rw [(hempty c (hmem c hc)).1]; simp
    · intro a ha b hb _
      rw [(hempty a (hmem a ha)).2.1, (hempty b (hmem b hb)).2.1]; rfl
    · intro a ha b hb _
      rw [(hempty b (hmem b hb)).2.1]
      intro kv hkv; cases hkv
  obtain ⟨u, hu, _⟩ := Properties.C04.toCum_toInc hwf
  have hni : Triangle.isIncremental right = false :=
    not_isIncremental_of_all (fun c hc => by rw [(hempty c (hmem c hc)).1]; simp)
  exact ⟨right, u, hright, hu, inc_kind hni hu, (toIncremental_keys_perm hni hu).trans (hperm.map ckey)⟩

/-- one failing constructor call makes the whole comprehension raise `ValueError` (the only class `Cell.mk?` raises) -/
theorem mapM_mk?_error : ∀ (l : List Cell), (∃ x ∈ l, x.datesOk = false) →
    l.mapM Cell.mk? = .error .valueError
  | [], h => by obtain ⟨x, hx, _⟩ := h; cases hx
  | a :: rest, h => by
    rw [List.mapM_cons]
    cases ha : a.datesOk with
    | false => simp [Cell.mk?, ha, bind, Except.bind]
    | true =>
      have hrest : ∃ x ∈ rest, x.datesOk = false := by
        obtain ⟨x, hx, hxd⟩ := h
        rcases List.mem_cons.mp hx with rfl | hx
        · rw [ha] at hxd; cases hxd
        · exact ⟨x, hx, hxd⟩
      simp [Cell.mk?, ha, bind, Except.bind, mapM_mk?_error rest hrest]

/-- `_fix_prev_evaluation_date` raises `ValueError` when one re-linked first cell is invalid -/
theorem fixPrev_error {t u obs : List Cell} (hobs : Triangle.rightEdge t = .ok obs) {cell ob : Cell}
    (hcell : cell ∈ obs) (hob : ob ∈ edgeCellsOf u) (hp : cellPeriod ob = cellPeriod cell) (hm : ob.md = cell.md)
    (hbad : ({ ob with prev := some cell.ev } : Cell).datesOk = false) :
    fixPrevEvaluationDate t u = .error .valueError := by
  unfold edgeCellsOf at hob
  unfold fixPrevEvaluationDate
  simp only [hobs, bind, Except.bind]
  rw [mapM_mk?_error]
  refine ⟨_, List.mem_flatMap.mpr ⟨cell, hcell, List.mem_map.mpr ⟨ob, List.mem_filter.mpr ⟨hob, ?_⟩, rfl⟩⟩, hbad⟩
  simp only [Bool.and_eq_true, beq_iff_eq]
  exact ⟨hp, hm⟩

/-- the tail raises `ValueError` when a new cell lies at or before an observation of its row -/
theorem finishRight_error_inc {t new : List Cell} (hinc : Triangle.isIncremental t = true)
    (hk : kindsConsistent t = true)
    (hempty : ∀ n ∈ new, n.kind = .cumulative ∧ n.values = [] ∧ n.prev = none)
    (hok : ∀ n ∈ new, n.datesOk = true) (hps : ∀ n ∈ new, n.ps.valid = true)
    (hcanon : ∀ n ∈ new, n.md.Canon) (hnd : (new.map ckey).Nodup)
    {n x : Cell} (hn : n ∈ new) (hx : x ∈ t) (hrow : rowKey x = rowKey n) (hnot : ¬ x.ev < n.ev) :
    finishRight t new = .error .valueError := by
  obtain ⟨right, u, hright, hu, hukind, hukeys⟩ := finishRight_stages_inc hempty hok hps hcanon hnd
  obtain ⟨obs, hobs⟩ := rightEdge_ok hk
  -- the cell of `u` on the coordinate of `n`
  obtain ⟨un, hun, hunk⟩ : ∃ un ∈ u, ckey un = ckey n := by
    have : ckey n ∈ u.map ckey := hukeys.mem_iff.mpr (List.mem_map_of_mem hn)
    obtain ⟨un, hun, hk'⟩ := List.mem_map.mp this
    exact ⟨un, hun, hk'⟩
  simp only [ckey, Prod.mk.injEq] at hunk
  -- the head of its row in `u`
  obtain ⟨ob, hob, hobm, hobp⟩ := edgeCellsOf_cover hun
  have hobmin := (edgeCellsOf_mem hob).2 un hun hobm.symm hobp.symm
  -- the observed right-edge cell of the row
  obtain ⟨cell, hcell, hcm, hcp⟩ := rightEdge_cover hobs hx
  obtain ⟨k1, k2, k3⟩ := rowKey_eq_iff.mp (hrow.trans hunk.1.symm)
  have hcp' : cell.ps = x.ps ∧ cell.pe = x.pe := by
    simp only [cellPeriod, Prod.mk.injEq] at hcp; exact hcp
  have hlatest := (rightEdge_latest hobs hcell).2 x hx hcm.symm hcp'.1.symm hcp'.2.symm
  have hunp : cellPeriod un = cellPeriod cell := by
    simp only [cellPeriod, Prod.mk.injEq]; exact ⟨by rw [hcp'.1, k2], by rw [hcp'.2, k3]⟩
  have hfail : ¬ cell.ev < ob.ev := by
    intro hlt
    apply hnot
    rw [← hunk.2]
    exact Date.lt_of_lt_of_not_lt (Date.lt_of_not_gt_of_lt hlatest hlt) ((Date.not_gt_iff _ _).mp hobmin)
  have hbad : ({ ob with prev := some cell.ev } : Cell).datesOk = false := by
    have hkind := hukind ob (edgeCellsOf_mem hob).1
    unfold Cell.datesOk
    simp only [hkind]
    simp [hfail]
  unfold finishRight
  simp only [hright, hinc, if_true, hu, bind, Except.bind]
  exact fixPrev_error hobs hcell hob (hobp.trans hunp) (hobm.trans (k1.symm.trans hcm.symm)) hbad

/-- the pieces shared by the two theorems: cumulative form, new cells, their facts -/
theorem rightDiag_hist_setup {t : List Cell} {dates : List Date} (hC : Properties.C04.Complete t)
    (hinc : Triangle.isIncremental t = true) (hcanon : ∀ c ∈ t, c.md.Canon) (hd : dates.Nodup)
    (hdates : ∀ e ∈ t, ∀ d ∈ dates, e.ps ≤ d → (emptyCell e d).datesOk = true) :
    ∃ cum new, Triangle.toCumulative t = .ok cum ∧ rightDiagonalCells cum dates true = .ok new ∧
      (∀ n, n ∈ new ↔ RightDiagCell cum dates true n) ∧
      (∀ c ∈ cum, c.kind = .cumulative ∧ ∃ x ∈ t, rowKey x = rowKey c ∧ x.ev = c.ev) ∧
      (∀ x ∈ t, ∃ c ∈ cum, rowKey c = rowKey x ∧ c.ev = x.ev) ∧
      (∀ n ∈ new, n.kind = .cumulative ∧ n.values = [] ∧ n.prev = none) ∧
      (∀ n ∈ new, n.datesOk = true) ∧ (∀ n ∈ new, n.ps.valid = true) ∧ (∀ n ∈ new, n.md.Canon) ∧
      (new.map ckey).Nodup := by
  obtain ⟨cum, hcum, _⟩ := Properties.C04.toInc_toCum hC
  obtain ⟨hA, hB⟩ := toCumulative_cells hinc hcum
  have hkc : kindsConsistent cum = true := kindsConsistent_of_cumulative fun c hc => (hA c hc).1
  have hni : Triangle.isIncremental cum = false :=
    not_isIncremental_of_all (fun c hc => by rw [(hA c hc).1]; simp)
  obtain ⟨right, hright⟩ := makeRightDiagonal_ok (t := cum) (dates := dates) (hist := true) hkc hni (by
    intro e he d hdd hle
    obtain ⟨_, x, hx, hxk, _⟩ := hA e he
    rw [emptyCell_congr hxk d]
    exact hdates x hx d hdd (by rw [(rowKey_eq_iff.mp hxk).2.1]; exact hle))
  obtain ⟨new, hnew, _⟩ := makeRightDiagonal_fin hni hright
  have hiff := rightDiagonalCells_mem hnew
  have hsrc : ∀ n ∈ new, ∃ x ∈ t, rowKey x = rowKey n := by
    intro n hn
    obtain ⟨e, he, hne, _⟩ := ((hiff n).mp hn).src
    obtain ⟨_, x, hx, hxk, _⟩ := hA e he
    exact ⟨x, hx, by rw [hxk, hne]; rfl⟩
  refine ⟨cum, new, hcum, hnew, hiff, hA, hB, fun n hn => RightDiagCell.empty ((hiff n).mp hn),
    rightDiagonalCells_datesOk hnew, ?_, ?_, rightDiag_new_keys_nodup hd hnew⟩
  · intro n hn
    obtain ⟨x, hx, hxk⟩ := hsrc n hn
    rw [← (rowKey_eq_iff.mp hxk).2.1]; exact hC.1.psValid x hx
  · intro n hn
    obtain ⟨x, hx, hxk⟩ := hsrc n hn
    rw [← (rowKey_eq_iff.mp hxk).1]; exact hcanon x hx

/-- `include_historic = True` on a complete incremental triangle returns when every requested date that is not
before a row's period start lies strictly after every observation of that row -/
theorem makeRightDiagonal_ok_inc_hist {t : List Cell} {dates : List Date} (hC : Properties.C04.Complete t)
    (hinc : Triangle.isIncremental t = true) (hcanon : ∀ c ∈ t, c.md.Canon) (hd : dates.Nodup)
    (hdates : ∀ e ∈ t, ∀ d ∈ dates, e.ps ≤ d → (emptyCell e d).datesOk = true)
    (hbeyond : ∀ e ∈ t, ∀ d ∈ dates, e.ps ≤ d → e.ev < d) :
    ∃ out, makeRightDiagonal t dates true = .ok out := by
  obtain ⟨cum, new, hcum, hnew, hiff, hA, hB, hempty, hok, hps, hcan, hnd⟩ :=
    rightDiag_hist_setup hC hinc hcanon hd hdates
  have hkt : kindsConsistent t = true := kindsConsistent_of_incremental hC.1.isInc
  obtain ⟨out, hout⟩ := finishRight_total_inc (t := t) (new := new) hinc hkt hempty hok hps hcan hnd
    (fun n hn e' he' hk => by
      obtain ⟨e, _, hne, hdd, hle⟩ := ((hiff n).mp hn).src
      have hps' : e'.ps = e.ps := by
        have := (rowKey_eq_iff.mp hk).2.1
        rw [this, hne]; rfl
      exact hbeyond e' he' n.ev hdd (by rw [hps']; exact hle))
  refine ⟨out, ?_⟩
  unfold makeRightDiagonal
  simp only [hinc, if_true, hcum, hnew, bind, Except.bind]
  exact hout

/-- `include_historic = True` on a complete incremental triangle raises `ValueError` when a requested date, not before
the period start of an observed cell `x`, is not after `x`'s evaluation date -/
theorem makeRightDiagonal_error_inc_hist {t : List Cell} {dates : List Date} (hC : Properties.C04.Complete t)
    (hinc : Triangle.isIncremental t = true) (hcanon : ∀ c ∈ t, c.md.Canon) (hd : dates.Nodup)
    (hdates : ∀ e ∈ t, ∀ d ∈ dates, e.ps ≤ d → (emptyCell e d).datesOk = true)
    {x : Cell} {d : Date} (hx : x ∈ t) (hdd : d ∈ dates) (hle : x.ps ≤ d) (hnot : ¬ x.ev < d) :
    makeRightDiagonal t dates true = .error .valueError := by
  obtain ⟨cum, new, hcum, hnew, hiff, hA, hB, hempty, hok, hps, hcan, hnd⟩ :=
    rightDiag_hist_setup hC hinc hcanon hd hdates
  have hkt : kindsConsistent t = true := kindsConsistent_of_incremental hC.1.isInc
  -- the new cell on the row of `x` at date `d`
  obtain ⟨c, hc, hck, _⟩ := hB x hx
  obtain ⟨p, hp, _, hcp⟩ := slices_cover hc
  obtain ⟨edge, hedge⟩ := rightDiagonalCells_edges hnew p hp
  obtain ⟨e, he, hem, hep⟩ := rightEdge_cover hedge hcp
  have hep' : e.ps = c.ps ∧ e.pe = c.pe := by
    simp only [cellPeriod, Prod.mk.injEq] at hep; exact hep
  obtain ⟨k1, k2, k3⟩ := rowKey_eq_iff.mp hck
  have hn : emptyCell e d ∈ new := by
    refine (hiff _).mpr ⟨p, hp, edge, hedge, e, he, d, ?_, ?_, rfl⟩
    · simp only [diagDatesOf, if_true]; exact hdd
    · rw [hep'.1, k2]; exact hle
  have hrow : rowKey x = rowKey (emptyCell e d) := by
    rw [rowKey_eq_iff]
    exact ⟨by show x.md = e.md; rw [hem, k1], by show x.ps = e.ps; rw [hep'.1, k2],
      by show x.pe = e.pe; rw [hep'.2, k3]⟩
  have herr := finishRight_error_inc (t := t) (new := new) hinc hkt hempty hok hps hcan hnd hn hx hrow hnot
  unfold makeRightDiagonal
  simp only [hinc, if_true, hcum, hnew, bind, Except.bind]
  exact herr

end Bermuda.Extend
