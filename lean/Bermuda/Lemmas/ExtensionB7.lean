/-
C15: `make_right_diagonal(include_historic=True)` on a complete `IncrementalCell` triangle — it raises as soon as a
requested date lands at or before an observation of a row it is created on, and returns when every created cell lies
strictly beyond the observations of its row.
-/
import Bermuda.Lemmas.ExtendTotalInc
import Bermuda.Lemmas.ExtendNodup
namespace Bermuda.Extend
open Bermuda

/-- the stages of `finishRight` on an incremental input up to `to_incremental` return (copied from the proof of
`finishRight_total_inc`; nothing about the position of the new cells relative to the observations is needed here) -/
theorem finishRight_stages_inc {new : List Cell}
    (hempty : ∀ n ∈ new, n.kind = .cumulative ∧ n.values = [] ∧ n.prev = none)
    (hok : ∀ n ∈ new, n.datesOk = true) (hps : ∀ n ∈ new, n.ps.valid = true)
    (hcanon : ∀ n ∈ new, n.md.Canon) (hnd : (new.map ckey).Nodup) :
    ∃ right u, Triangle.ofCells new = .ok right ∧ Triangle.toIncremental right = .ok u ∧
      (∀ d ∈ u, d.kind = .incremental) ∧ (u.map ckey).Perm (new.map ckey) := by
  obtain ⟨right, hright⟩ := ofCells_ok (kindsConsistent_of_cumulative fun n hn => (hempty n hn).1)
  have hperm := Properties.C01.ofCells_perm hright
  have hmem : ∀ c ∈ right, c ∈ new := fun c hc => hperm.mem_iff.mp hc
  have hwf : Properties.C04.WFcum right := by
    refine ⟨?_, ?_, fun c hc => hok c (hmem c hc), fun c hc => hps c (hmem c hc), ?_, ?_⟩
    · have hs := Properties.C01.ofCells_sorted hright
      have hn : right.Pairwise (fun a b => ckey a ≠ ckey b) := by
        have : (right.map ckey).Nodup := (hperm.map ckey).nodup_iff.mpr hnd
        rwa [List.Nodup, List.pairwise_map] at this
      refine (hs.and hn).imp_of_mem ?_
      intro a b ha hb ⟨hle, hne⟩
      cases hc : Cell.cmp a b with
      | lt => rfl
      | gt => simp [Cell.le, hc] at hle
      | eq =>
        exfalso
        have hco := (Cell.cmp_eq_eq (hcanon a (hmem a ha)) (hcanon b (hmem b hb))).mp hc
        simp only [Cell.coord, Coord.mk.injEq] at hco
        apply hne
        simp only [ckey, rowKey, Prod.mk.injEq]
        exact ⟨⟨⟨hco.2.1, hco.2.2.1⟩, hco.1⟩, hco.2.2.2.1⟩
    · intro c hc; rw [(hempty c (hmem c hc)).1]; simp
    · intro a ha b hb _
      rw [(hempty a (hmem a ha)).2.1, (hempty b (hmem b hb)).2.1]; rfl
    · intro a ha b hb _
      rw [(hempty b (hmem b hb)).2.1]
      intro kv hkv; cases hkv
  obtain ⟨u, hu, _⟩ := Properties.C04.toCum_toInc hwf
  have hni : Triangle.isIncremental right = false :=
    not_isIncremental_of_all (fun c hc => by rw [(hempty c (hmem c hc)).1]; simp)
  exact ⟨right, u, hright, hu, inc_kind hni hu, (toIncremental_keys_perm hni hu).trans (hperm.map ckey)⟩

/-- one failing constructor call makes the whole comprehension raise `ValueError` (the only class `Cell.mk?` raises) -/
theorem mapM_mk?_error : ∀ (l : List Cell), (∃ x ∈ l, x.datesOk = false) →
    l.mapM Cell.mk? = .error .valueError
  | [], h => by obtain ⟨x, hx, _⟩ := h; cases hx
  | a :: rest, h => by
    rw [List.mapM_cons]
    cases ha : a.datesOk with
    | false => simp [Cell.mk?, ha, bind, Except.bind]
    | true =>
      have hrest : ∃ x ∈ rest, x.datesOk = false := by
        obtain ⟨x, hx, hxd⟩ := h
        rcases List.mem_cons.mp hx with rfl | hx
        · rw [ha] at hxd; cases hxd
        · exact ⟨x, hx, hxd⟩
      simp [Cell.mk?, ha, bind, Except.bind, mapM_mk?_error rest hrest]

/-- `_fix_prev_evaluation_date` raises `ValueError` when one re-linked first cell is invalid -/
theorem fixPrev_error {t u obs : List Cell} (hobs : Triangle.rightEdge t = .ok obs) {cell ob : Cell}
    (hcell : cell ∈ obs) (hob : ob ∈ edgeCellsOf u) (hp : cellPeriod ob = cellPeriod cell) (hm : ob.md = cell.md)
    (hbad : ({ ob with prev := some cell.ev } : Cell).datesOk = false) :
    fixPrevEvaluationDate t u = .error .valueError := by
  unfold edgeCellsOf at hob
  unfold fixPrevEvaluationDate
  simp only [hobs, bind, Except.bind]
  rw [mapM_mk?_error]
  refine ⟨_, List.mem_flatMap.mpr ⟨cell, hcell, List.mem_map.mpr ⟨ob, List.mem_filter.mpr ⟨hob, ?_⟩, rfl⟩⟩, hbad⟩
  simp only [Bool.and_eq_true, beq_iff_eq]
  exact ⟨hp, hm⟩

/-- the tail raises `ValueError` when a new cell lies at or before an observation of its row -/
theorem finishRight_error_inc {t new : List Cell} (hinc : Triangle.isIncremental t = true)
    (hk : kindsConsistent t = true)
    (hempty : ∀ n ∈ new, n.kind = .cumulative ∧ n.values = [] ∧ n.prev = none)
    (hok : ∀ n ∈ new, n.datesOk = true) (hps : ∀ n ∈ new, n.ps.valid = true)
    (hcanon : ∀ n ∈ new, n.md.Canon) (hnd : (new.map ckey).Nodup)
    {n x : Cell} (hn : n ∈ new) (hx : x ∈ t) (hrow : rowKey x = rowKey n) (hnot : ¬ x.ev < n.ev) :
    finishRight t new = .error .valueError := by
  obtain ⟨right, u, hright, hu, hukind, hukeys⟩ := finishRight_stages_inc hempty hok hps hcanon hnd
  obtain ⟨obs, hobs⟩ := rightEdge_ok hk
  -- the cell of `u` on the coordinate of `n`
  obtain ⟨un, hun, hunk⟩ : ∃ un ∈ u, ckey un = ckey n := by
    have : ckey n ∈ u.map ckey := hukeys.mem_iff.mpr (List.mem_map_of_mem hn)
    obtain ⟨un, hun, hk'⟩ := List.mem_map.mp this
    exact ⟨un, hun, hk'⟩
  simp only [ckey, Prod.mk.injEq] at hunk
  -- the head of its row in `u`
  obtain ⟨ob, hob, hobm, hobp⟩ := edgeCellsOf_cover hun
  have hobmin := (edgeCellsOf_mem hob).2 un hun hobm.symm hobp.symm
  -- the observed right-edge cell of the row
  obtain ⟨cell, hcell, hcm, hcp⟩ := rightEdge_cover hobs hx
  obtain ⟨k1, k2, k3⟩ := rowKey_eq_iff.mp (hrow.trans hunk.1.symm)
  have hcp' : cell.ps = x.ps ∧ cell.pe = x.pe := by
    simp only [cellPeriod, Prod.mk.injEq] at hcp; exact hcp
  have hlatest := (rightEdge_latest hobs hcell).2 x hx hcm.symm hcp'.1.symm hcp'.2.symm
  have hunp : cellPeriod un = cellPeriod cell := by
    simp only [cellPeriod, Prod.mk.injEq]; exact ⟨by rw [hcp'.1, k2], by rw [hcp'.2, k3]⟩
  have hfail : ¬ cell.ev < ob.ev := by
    intro hlt
    apply hnot
    rw [← hunk.2]
    exact Date.lt_of_lt_of_not_lt (Date.lt_of_not_gt_of_lt hlatest hlt) ((Date.not_gt_iff _ _).mp hobmin)
  have hbad : ({ ob with prev := some cell.ev } : Cell).datesOk = false := by
    have hkind := hukind ob (edgeCellsOf_mem hob).1
    unfold Cell.datesOk
    simp only [hkind]
    simp [hfail]
  unfold finishRight
  simp only [hright, hinc, if_true, hu, bind, Except.bind]
  exact fixPrev_error hobs hcell hob (hobp.trans hunp) (hobm.trans (k1.symm.trans hcm.symm)) hbad

/-- the pieces shared by the two theorems: cumulative form, new cells, their facts -/
theorem rightDiag_hist_setup {t : List Cell} {dates : List Date} (hC : Properties.C04.Complete t)
    (hinc : Triangle.isIncremental t = true) (hcanon : ∀ c ∈ t, c.md.Canon) (hd : dates.Nodup)
    (hdates : ∀ e ∈ t, ∀ d ∈ dates, e.ps ≤ d → (emptyCell e d).datesOk = true) :
    ∃ cum new, Triangle.toCumulative t = .ok cum ∧ rightDiagonalCells cum dates true = .ok new ∧
      (∀ n, n ∈ new ↔ RightDiagCell cum dates true n) ∧
      (∀ c ∈ cum, c.kind = .cumulative ∧ ∃ x ∈ t, rowKey x = rowKey c ∧ x.ev = c.ev) ∧
      (∀ x ∈ t, ∃ c ∈ cum, rowKey c = rowKey x ∧ c.ev = x.ev) ∧
      (∀ n ∈ new, n.kind = .cumulative ∧ n.values = [] ∧ n.prev = none) ∧
      (∀ n ∈ new, n.datesOk = true) ∧ (∀ n ∈ new, n.ps.valid = true) ∧ (∀ n ∈ new, n.md.Canon) ∧
      (new.map ckey).Nodup := by
  obtain ⟨cum, hcum, _⟩ := Properties.C04.toInc_toCum hC
  obtain ⟨hA, hB⟩ := toCumulative_cells hinc hcum
  have hkc : kindsConsistent cum = true := kindsConsistent_of_cumulative fun c hc => (hA c hc).1
  have hni : Triangle.isIncremental cum = false :=
    not_isIncremental_of_all (fun c hc => by rw [(hA c hc).1]; simp)
  obtain ⟨right, hright⟩ := makeRightDiagonal_ok (t := cum) (dates := dates) (hist := true) hkc hni (by
    intro e he d hdd hle
    obtain ⟨_, x, hx, hxk, _⟩ := hA e he
    rw [emptyCell_congr hxk d]
    exact hdates x hx d hdd (by rw [(rowKey_eq_iff.mp hxk).2.1]; exact hle))
  obtain ⟨new, hnew, _⟩ := makeRightDiagonal_fin hni hright
  have hiff := rightDiagonalCells_mem hnew
  have hsrc : ∀ n ∈ new, ∃ x ∈ t, rowKey x = rowKey n := by
    intro n hn
    obtain ⟨e, he, hne, _⟩ := ((hiff n).mp hn).src
    obtain ⟨_, x, hx, hxk, _⟩ := hA e he
    exact ⟨x, hx, by rw [hxk, hne]; rfl⟩
  refine ⟨cum, new, hcum, hnew, hiff, hA, hB, fun n hn => RightDiagCell.empty ((hiff n).mp hn),
    rightDiagonalCells_datesOk hnew, ?_, ?_, rightDiag_new_keys_nodup hd hnew⟩
  · intro n hn
    obtain ⟨x, hx, hxk⟩ := hsrc n hn
    rw [← (rowKey_eq_iff.mp hxk).2.1]; exact hC.1.psValid x hx
  · intro n hn
    obtain ⟨x, hx, hxk⟩ := hsrc n hn
    rw [← (rowKey_eq_iff.mp hxk).1]; exact hcanon x hx

/-- `include_historic = True` on a complete incremental triangle returns when every requested date that is not
before a row's period start lies strictly after every observation of that row -/
theorem makeRightDiagonal_ok_inc_hist {t : List Cell} {dates : List Date} (hC : Properties.C04.Complete t)
    (hinc : Triangle.isIncremental t = true) (hcanon : ∀ c ∈ t, c.md.Canon) (hd : dates.Nodup)
    (hdates : ∀ e ∈ t, ∀ d ∈ dates, e.ps ≤ d → (emptyCell e d).datesOk = true)
    (hbeyond : ∀ e ∈ t, ∀ d ∈ dates, e.ps ≤ d → e.ev < d) :
    ∃ out, makeRightDiagonal t dates true = .ok out := by
  obtain ⟨cum, new, hcum, hnew, hiff, hA, hB, hempty, hok, hps, hcan, hnd⟩ :=
    rightDiag_hist_setup hC hinc hcanon hd hdates
  have hkt : kindsConsistent t = true := kindsConsistent_of_incremental hC.1.isInc
  obtain ⟨out, hout⟩ := finishRight_total_inc (t := t) (new := new) hinc hkt hempty hok hps hcan hnd
    (fun n hn e' he' hk => by
      obtain ⟨e, _, hne, hdd, hle⟩ := ((hiff n).mp hn).src
      have hps' : e'.ps = e.ps := by
        have := (rowKey_eq_iff.mp hk).2.1
        rw [this, hne]; rfl
      exact hbeyond e' he' n.ev hdd (by rw [hps']; exact hle))
  refine ⟨out, ?_⟩
  unfold makeRightDiagonal
  simp only [hinc, if_true, hcum, hnew, bind, Except.bind]
  exact hout

/-- `include_historic = True` on a complete incremental triangle raises `ValueError` when a requested date, not before
the period start of an observed cell `x`, is not after `x`'s evaluation date -/
theorem makeRightDiagonal_error_inc_hist {t : List Cell} {dates : List Date} (hC : Properties.C04.Complete t)
    (hinc : Triangle.isIncremental t = true) (hcanon : ∀ c ∈ t, c.md.Canon) (hd : dates.Nodup)
    (hdates : ∀ e ∈ t, ∀ d ∈ dates, e.ps ≤ d → (emptyCell e d).datesOk = true)
    {x : Cell} {d : Date} (hx : x ∈ t) (hdd : d ∈ dates) (hle : x.ps ≤ d) (hnot : ¬ x.ev < d) :
    makeRightDiagonal t dates true = .error .valueError := by
  obtain ⟨cum, new, hcum, hnew, hiff, hA, hB, hempty, hok, hps, hcan, hnd⟩ :=
    rightDiag_hist_setup hC hinc hcanon hd hdates
  have hkt : kindsConsistent t = true := kindsConsistent_of_incremental hC.1.isInc
  -- the new cell on the row of `x` at date `d`
  obtain ⟨c, hc, hck, _⟩ := hB x hx
  obtain ⟨p, hp, _, hcp⟩ := slices_cover hc
  obtain ⟨edge, hedge⟩ := rightDiagonalCells_edges hnew p hp
  obtain ⟨e, he, hem, hep⟩ := rightEdge_cover hedge hcp
  have hep' : e.ps = c.ps ∧ e.pe = c.pe := by
    simp only [cellPeriod, Prod.mk.injEq] at hep; exact hep
  obtain ⟨k1, k2, k3⟩ := rowKey_eq_iff.mp hck
  have hn : emptyCell e d ∈ new := by
    refine (hiff _).mpr ⟨p, hp, edge, hedge, e, he, d, ?_, ?_, rfl⟩
    · simp only [diagDatesOf, if_true]; exact hdd
    · rw [hep'.1, k2]; exact hle
  have hrow : rowKey x = rowKey (emptyCell e d) := by
    rw [rowKey_eq_iff]
    exact ⟨by show x.md = e.md; rw [hem, k1], by show x.ps = e.ps; rw [hep'.1, k2],
      by show x.pe = e.pe; rw [hep'.2, k3]⟩
  have herr := finishRight_error_inc (t := t) (new := new) hinc hkt hempty hok hps hcan hnd hn hx hrow hnot
  unfold makeRightDiagonal
  simp only [hinc, if_true, hcum, hnew, bind, Except.bind]
  exact herr

/-! ### a date requested twice: `make_right_diagonal` on cumulative input returns one coordinate twice -/

theorem dup_sublist_flatMap {α β : Type} (f : α → List β) {l : List α} {a : α} (ha : a ∈ l) {b : β}
    (h : List.Sublist [b, b] (f a)) : List.Sublist [b, b] (l.flatMap f) := by
  rw [List.flatMap_def]
  exact h.trans (List.sublist_flatten_of_mem (List.mem_map_of_mem ha))

/-- default flag, cumulative (or plain `Cell`) input: a date `d` listed twice, not before the period start of an observed
cell `x` and after every observation of `x`'s slice, yields the empty cell of some row twice — the result has a repeated
element (the library warns `DuplicateCellWarning` and returns) -/
theorem makeRightDiagonal_dup_cum {t out : List Cell} {dates : List Date}
    (hinc : Triangle.isIncremental t = false) (h : makeRightDiagonal t dates false = .ok out)
    {x : Cell} {d : Date} (hx : x ∈ t) (hdup : List.Sublist [d, d] dates) (hle : x.ps ≤ d)
    (hafter : ∀ o ∈ t, o.md = x.md → o.ev < d) : ¬ out.Nodup := by
  obtain ⟨new, hnew, hfin⟩ := makeRightDiagonal_fin hinc h
  have hperm := finishRight_cum hinc hfin
  intro hnd
  have hndn : new.Nodup := hperm.nodup_iff.mp hnd
  obtain ⟨p, hp, hpm, hxp⟩ := slices_cover hx
  obtain ⟨edge, hedge⟩ := rightDiagonalCells_edges hnew p hp
  obtain ⟨e, he, _, hep⟩ := rightEdge_cover hedge hxp
  have hps : e.ps = x.ps := by
    simp only [cellPeriod, Prod.mk.injEq] at hep; exact hep.1
  have hd1 : List.Sublist [d, d] (diagDatesOf dates false p.2) := by
    unfold diagDatesOf
    simp only [Bool.false_eq_true, if_false]
    cases hm : maxEval p.2 with
    | none => exact hdup
    | some m =>
      obtain ⟨o, ho, hoe⟩ := maxEval_mem hm
      obtain ⟨hot, hom⟩ := (slices_spec hp o).mp ho
      have hmd : m < d := by rw [← hoe]; exact hafter o hot (hom.trans hpm)
      have := hdup.filter (fun d' => decide (m < d'))
      simpa [hmd] using this
  have hd2 : List.Sublist [d, d] ((diagDatesOf dates false p.2).filter fun d' => e.ps ≤ d') := by
    have := hd1.filter (fun d' => decide (e.ps ≤ d'))
    have hle' : e.ps ≤ d := by rw [hps]; exact hle
    simpa [hle'] using this
  have hd3 : List.Sublist [(e, d), (e, d)] (diagPairs (diagDatesOf dates false p.2) edge) := by
    unfold diagPairs
    exact dup_sublist_flatMap _ he (by simpa using hd2.map (fun d' => (e, d')))
  have hd4 : List.Sublist [emptyCell e d, emptyCell e d] (diagBlock dates false p) := by
    unfold diagBlock
    rw [hedge]
    simpa using hd3.map (fun q : Cell × Date => emptyCell q.1 q.2)
  have hd5 : List.Sublist [emptyCell e d, emptyCell e d] new := by
    rw [rightDiagonalCells_eq hnew]
    exact dup_sublist_flatMap _ hp hd4
  have := hndn.sublist hd5
  simp at this

/-! ### two requested day lags floored onto one date: `make_right_triangle` on cumulative input returns it twice -/

/-- explicit block of one slice of the right triangle, day unit -/
def triBlockDay (lags : Option (List Rat)) (p : Metadata × List Cell) : List Cell :=
  match Triangle.rightEdge p.2 with
  | .ok edge => (rightPairs (lagListOf lags .day p.2) .day edge).map fun q =>
      emptyCell q.2 (q.2.pe.addDays q.1.floor)
  | .error _ => []

theorem rightTriangleSlice_eq_day {lags : Option (List Rat)} {p : Metadata × List Cell} {ys : List Cell}
    (h : rightTriangleSlice lags .day p.2 = .ok ys) : ys = triBlockDay lags p := by
  unfold rightTriangleSlice at h
  simp only [bind, Except.bind] at h
  split at h
  · cases h
  · rename_i edge hedge
    split at h
    · simp [throw, throwThe, MonadExceptOf.throw] at h
    · unfold triBlockDay
      rw [hedge]
      apply mapM_ok_eq_map _ _ h
      intro x _ y hy
      obtain ⟨ev, hev, rfl, _⟩ := rightCellOf_ok.mp hy
      have : x.2.pe.addDays x.1.floor = ev := Except.ok.inj hev
      rw [this]

theorem rightTriangleCells_eq_day {cum new : List Cell} {lags : Option (List Rat)}
    (h : rightTriangleCells cum lags (some .day) = .ok new) :
    new = (Triangle.slices cum).flatMap (triBlockDay lags) := by
  unfold rightTriangleCells at h
  simp only [bind, Except.bind, pure, Except.pure] at h
  split at h
  · cases h
  · rename_i parts hparts
    cases h
    rw [mapM_ok_eq_map _ _ hparts (fun p _ ys hys => rightTriangleSlice_eq_day hys)]
    simp [List.flatMap_def]

theorem pair_sublist_flatMap {α β : Type} (f : α → List β) {l : List α} {a1 a2 : α}
    (h : List.Sublist [a1, a2] l) {b1 b2 : β} (h1 : b1 ∈ f a1) (h2 : b2 ∈ f a2) :
    List.Sublist [b1, b2] (l.flatMap f) := by
  have hs : List.Sublist ([a1, a2].flatMap f) (l.flatMap f) := h.flatMap f
  refine List.Sublist.trans ?_ hs
  simp only [List.flatMap_cons, List.flatMap_nil, List.append_nil]
  exact List.Sublist.append (List.singleton_sublist.mpr h1) (List.singleton_sublist.mpr h2)

/-- cumulative input, day unit: two requested lags (in this order in the list), both beyond every lag of the row of `x`,
floored onto the same date — the result has a repeated cell -/
theorem makeRightTriangle_dup_cum_day {t out : List Cell} {ls : List Rat}
    (hinc : Triangle.isIncremental t = false) (h : makeRightTriangleU t (some ls) (some .day) = .ok out)
    {x : Cell} {l1 l2 : Rat} (hx : x ∈ t) (hdup : List.Sublist [l1, l2] ls)
    (hgt : ∀ o ∈ t, rowKey o = rowKey x → l1 > o.devLag .day ∧ l2 > o.devLag .day)
    (hsame : x.pe.addDays l1.floor = x.pe.addDays l2.floor) : ¬ out.Nodup := by
  obtain ⟨new, hnew, hfin⟩ := makeRightTriangle_fin hinc h
  have hperm := finishRight_cum hinc hfin
  intro hnd
  have hndn : new.Nodup := hperm.nodup_iff.mp hnd
  obtain ⟨p, hp, hpm, hxp⟩ := slices_cover hx
  obtain ⟨edge, hedge⟩ := rightTriangleCells_edges hnew p hp
  obtain ⟨e, he, hem, hep⟩ := rightEdge_cover hedge hxp
  have hep' : e.ps = x.ps ∧ e.pe = x.pe := by
    simp only [cellPeriod, Prod.mk.injEq] at hep; exact hep
  have het : e ∈ t := mem_of_mem_slices hp (rightEdge_latest hedge he).1
  have hex : rowKey e = rowKey x := by rw [rowKey_eq_iff]; exact ⟨hem, hep'.1, hep'.2⟩
  obtain ⟨g1, g2⟩ := hgt e het hex
  have hpairs : List.Sublist [(l1, e), (l2, e)] (rightPairs (lagListOf (some ls) .day p.2) .day edge) := by
    unfold rightPairs
    refine pair_sublist_flatMap _ hdup ?_ ?_
    · exact List.mem_map.mpr ⟨e, List.mem_filter.mpr ⟨he, by simpa using g1⟩, rfl⟩
    · exact List.mem_map.mpr ⟨e, List.mem_filter.mpr ⟨he, by simpa using g2⟩, rfl⟩
  have hblock : List.Sublist [emptyCell e (e.pe.addDays l1.floor), emptyCell e (e.pe.addDays l2.floor)]
      (triBlockDay (some ls) p) := by
    unfold triBlockDay
    rw [hedge]
    simpa using hpairs.map (fun q : Rat × Cell => emptyCell q.2 (q.2.pe.addDays q.1.floor))
  have hnew' : List.Sublist [emptyCell e (e.pe.addDays l1.floor), emptyCell e (e.pe.addDays l2.floor)] new := by
    rw [rightTriangleCells_eq_day hnew, List.flatMap_def]
    exact hblock.trans (List.sublist_flatten_of_mem (List.mem_map_of_mem hp))
  have := hndn.sublist hnew'
  rw [hep'.2, hsame] at this
  simp at this

end Bermuda.Extend
