/-
C15: success of `make_right_triangle` on a complete `IncrementalCell` triangle for ANY dispatched unit under the abstract
facts "a greater lag gives a later date" and `LagInj`; the day-unit instance.
-/
import Bermuda.Lemmas.ExtendTotalInc
import Bermuda.Lemmas.ExtendSpecTriUnit
import Bermuda.Lemmas.ExtensionB7
namespace Bermuda.Extend
open Bermuda

/-- unit-generic version of `makeRightTriangle_ok_inc` -/
theorem makeRightTriangle_ok_inc_u {t cum : List Cell} {lags : Option (List Rat)} {u : LagUnit}
    (hu : u ≠ .timedelta) (hC : Properties.C04.Complete t)
    (hinc : Triangle.isIncremental t = true) (hcanon : ∀ c ∈ t, c.md.Canon)
    (hcum : Triangle.toCumulative t = .ok cum)
    (hmono : ∀ p ∈ Triangle.slices cum, ∀ e ∈ p.2, ∀ lag ∈ lagListOf lags u p.2, lag > e.devLag u →
      ∀ ev, addDevLag e.pe lag u = .ok ev → e.ev < ev)
    (hinj : LagInj cum lags u) (hnd : ∀ l, lags = some l → l.Nodup)
    (hcells : ∀ e ∈ t, ∀ l,
      ((∃ ls, lags = some ls ∧ l ∈ ls) ∨ (lags = none ∧ ∃ o ∈ t, o.md = e.md ∧ o.devLag u = l)) →
      l > e.devLag u → ∀ ev, addDevLag e.pe l u = .ok ev → (emptyCell e ev).datesOk = true) :
    ∃ out, makeRightTriangleU t lags (some u) = .ok out := by
  obtain ⟨hA, hB⟩ := toCumulative_cells hinc hcum
  have hkc : kindsConsistent cum = true := kindsConsistent_of_cumulative fun c hc => (hA c hc).1
  have hni : Triangle.isIncremental cum = false :=
    not_isIncremental_of_all (fun c hc => by rw [(hA c hc).1]; simp)
  obtain ⟨right, hright⟩ := makeRightTriangle_ok (t := cum) (lags := lags) (u := u) hu hkc hni (by
    intro e he l hl hgt ev hev
    obtain ⟨_, x, hx, hxk, hxe⟩ := hA e he
    rw [emptyCell_congr hxk]
    apply hcells x hx l ?_ (by rw [devLag_of_row hxk hxe u]; exact hgt) ev (by rw [pe_of_rowKey hxk]; exact hev)
    rcases hl with hl | ⟨hn, o, ho, hom, hol⟩
    · exact Or.inl hl
    · obtain ⟨_, y, hy, hyk, hye⟩ := hA o ho
      exact Or.inr ⟨hn, y, hy, by rw [md_of_rowKey hyk, hom, ← md_of_rowKey hxk],
        by rw [← hol]; exact devLag_of_row hyk hye u⟩)
  obtain ⟨new, hnew, _⟩ := makeRightTriangle_fin hni hright
  have hiff := rightTriangleCells_mem hnew
  have hrowf : ∀ n ∈ new, ∃ e ∈ cum, n = emptyCell e n.ev ∧
      (∀ o ∈ cum, o.md = e.md → o.ps = e.ps → o.pe = e.pe → Date.cmp o.ev e.ev ≠ .gt) ∧ e.ev < n.ev := by
    intro n hn
    obtain ⟨e, he, hne, hlatest, p, hp, hpm, lag, hlag, hgt, hev⟩ := ((hiff n).mp hn).row
    exact ⟨e, he, hne, hlatest, hmono p hp e ((slices_spec hp e).mpr ⟨he, hpm.symm⟩) lag hlag hgt _ hev⟩
  have hsrc : ∀ n ∈ new, ∃ x ∈ t, rowKey x = rowKey n := by
    intro n hn
    obtain ⟨e, he, hne, _⟩ := hrowf n hn
    obtain ⟨_, x, hx, hxk, _⟩ := hA e he
    exact ⟨x, hx, by rw [hxk, hne]; rfl⟩
  have hkt : kindsConsistent t = true := kindsConsistent_of_incremental hC.1.isInc
  obtain ⟨out, hout⟩ := finishRight_total_inc (t := t) (new := new) hinc hkt
    (fun n hn => RightTriCell.empty ((hiff n).mp hn)) (rightTriangleCells_datesOk hnew)
    (fun n hn => by
      obtain ⟨x, hx, hxk⟩ := hsrc n hn
      rw [← (rowKey_eq_iff.mp hxk).2.1]; exact hC.1.psValid x hx)
    (fun n hn => by
      obtain ⟨x, hx, hxk⟩ := hsrc n hn
      rw [← (rowKey_eq_iff.mp hxk).1]; exact hcanon x hx)
    (rightTri_new_keys_nodup_u hinj hnd hnew)
    (fun n hn e' he' hk => by
      obtain ⟨e, he, hne, hlatest, hlt⟩ := hrowf n hn
      obtain ⟨c, hc, hck, hce⟩ := hB e' he'
      have hkn : rowKey n = rowKey e := by rw [hne]; rfl
      obtain ⟨k1, k2, k3⟩ := rowKey_eq_iff.mp (hck.trans (hk.trans hkn))
      rw [← hce]
      exact Date.lt_of_not_gt_of_lt (hlatest c hc k1 k2 k3) hlt)
  refine ⟨out, ?_⟩
  unfold makeRightTriangleU
  simp only [hinc, if_true, hcum, hnew, bind, Except.bind]
  exact hout

/-- a greater integer day lag gives a later date (valid dates, results inside `date.min .. date.max`) -/
theorem lagAfter_day {cum : List Cell} {lags : Option (List Rat)}
    (hval : ∀ c ∈ cum, c.pe.valid = true ∧ c.ev.valid = true)
    (hint : ∀ l, lags = some l → ∀ lag ∈ l, ∃ k : Int, lag = ((k : Int) : Rat))
    (hrange : ∀ p ∈ Triangle.slices cum, ∀ e ∈ p.2, ∀ lag ∈ lagListOf lags .day p.2,
      1 ≤ e.pe.ordinal + lag.floor ∧ e.pe.ordinal + lag.floor ≤ 3652059) :
    ∀ p ∈ Triangle.slices cum, ∀ e ∈ p.2, ∀ lag ∈ lagListOf lags .day p.2, lag > e.devLag .day →
      ∀ ev, addDevLag e.pe lag .day = .ok ev → e.ev < ev := by
  intro p hp e he lag hlag hgt ev hev
  have hec : e ∈ cum := mem_of_mem_slices hp he
  obtain ⟨hpv, hevv⟩ := hval e hec
  obtain ⟨k, rfl⟩ := lagListOf_int_day hint hlag
  have hev' : e.pe.addDays (((k : Int) : Rat)).floor = ev := Except.ok.inj hev
  rw [floor_intCast] at hev'
  obtain ⟨r1, r2⟩ := hrange p hp e he _ hlag
  rw [floor_intCast] at r1 r2
  obtain ⟨hv, hord⟩ := addDays_ordinal e.pe k r1 r2
  rw [hev'] at hv hord
  have hk : e.ev.ordinal - e.pe.ordinal < k := by
    have : (((e.ev.ordinal - e.pe.ordinal : Int)) : Rat) < ((k : Int) : Rat) := hgt
    exact_mod_cast this
  exact Date.lt_of_ordinal_lt hevv hv (by omega)

/-- `make_right_triangle`, day unit, on a complete incremental triangle: valid period-end / evaluation dates, integer
and distinct requested lags, results inside `date.min .. date.max`, no `CumulativeCell(...)` call raises -/
theorem makeRightTriangle_ok_inc_day {t : List Cell} {lags : Option (List Rat)} (hC : Properties.C04.Complete t)
    (hinc : Triangle.isIncremental t = true) (hcanon : ∀ c ∈ t, c.md.Canon)
    (hval : ∀ c ∈ t, c.pe.valid = true ∧ c.ev.valid = true)
    (hint : ∀ l, lags = some l → ∀ lag ∈ l, ∃ k : Int, lag = ((k : Int) : Rat))
    (hnd : ∀ l, lags = some l → l.Nodup)
    (hrange : ∀ e ∈ t, ∀ l,
      ((∃ ls, lags = some ls ∧ l ∈ ls) ∨ (lags = none ∧ ∃ o ∈ t, o.md = e.md ∧ o.devLag .day = l)) →
      1 ≤ e.pe.ordinal + l.floor ∧ e.pe.ordinal + l.floor ≤ 3652059)
    (hcells : ∀ e ∈ t, ∀ l,
      ((∃ ls, lags = some ls ∧ l ∈ ls) ∨ (lags = none ∧ ∃ o ∈ t, o.md = e.md ∧ o.devLag .day = l)) →
      l > e.devLag .day → (emptyCell e (e.pe.addDays l.floor)).datesOk = true) :
    ∃ out, makeRightTriangleU t lags (some .day) = .ok out := by
  obtain ⟨cum, hcum, _⟩ := Properties.C04.toInc_toCum hC
  obtain ⟨hA, hB⟩ := toCumulative_cells hinc hcum
  have hvalc : ∀ c ∈ cum, c.pe.valid = true ∧ c.ev.valid = true := by
    intro c hc
    obtain ⟨_, x, hx, hxk, hxe⟩ := hA c hc
    rw [← pe_of_rowKey hxk, ← hxe]; exact hval x hx
  have hrangec : ∀ p ∈ Triangle.slices cum, ∀ e ∈ p.2, ∀ lag ∈ lagListOf lags .day p.2,
      1 ≤ e.pe.ordinal + lag.floor ∧ e.pe.ordinal + lag.floor ≤ 3652059 := by
    intro p hp e he lag hlag
    obtain ⟨hec, hem⟩ := (slices_spec hp e).mp he
    obtain ⟨_, x, hx, hxk, _⟩ := hA e hec
    rw [← pe_of_rowKey hxk]
    apply hrange x hx lag
    cases hl : lags with
    | some ls => rw [hl] at hlag; exact Or.inl ⟨ls, rfl, hlag⟩
    | none =>
      rw [hl] at hlag
      simp only [lagListOf, List.mem_eraseDups] at hlag
      obtain ⟨c, hc, rfl⟩ := List.mem_map.mp hlag
      obtain ⟨hcc, hcm⟩ := (slices_spec hp c).mp hc
      obtain ⟨_, y, hy, hyk, hye⟩ := hA c hcc
      exact Or.inr ⟨rfl, y, hy, by rw [md_of_rowKey hyk, hcm, ← hem, ← md_of_rowKey hxk],
        devLag_of_row hyk hye .day⟩
  exact makeRightTriangle_ok_inc_u (by decide) hC hinc hcanon hcum (lagAfter_day hvalc hint hrangec)
    (lagInj_day hint hrangec) hnd (by
      intro e he l hl hgt ev hev
      have : e.pe.addDays l.floor = ev := Except.ok.inj hev
      rw [← this]
      exact hcells e he l hl hgt)

/-- `make_right_triangle` with requested lags on a complete incremental triangle RAISES `ValueError` when a requested lag
exceeding every lag of a row lands on a date that is not after an observation `x` of that row -/
theorem makeRightTriangle_error_inc_collision {t : List Cell} {ls : List Rat} {u : LagUnit} (hu : u ≠ .timedelta)
    (hC : Properties.C04.Complete t) (hinc : Triangle.isIncremental t = true) (hcanon : ∀ c ∈ t, c.md.Canon)
    (hnd : ls.Nodup)
    (hinj : ∀ e ∈ t, ∀ l1 ∈ ls, ∀ l2 ∈ ls, l1 > e.devLag u → l2 > e.devLag u →
      addDevLag e.pe l1 u = addDevLag e.pe l2 u → l1 = l2)
    (hcells : ∀ e ∈ t, ∀ l ∈ ls, l > e.devLag u → ∀ ev, addDevLag e.pe l u = .ok ev →
      (emptyCell e ev).datesOk = true)
    {x : Cell} {l : Rat} {ev : Date} (hx : x ∈ t) (hl : l ∈ ls)
    (hgt : ∀ o ∈ t, rowKey o = rowKey x → l > o.devLag u)
    (hev : addDevLag x.pe l u = .ok ev) (hnot : ¬ x.ev < ev) :
    makeRightTriangleU t (some ls) (some u) = .error .valueError := by
  obtain ⟨cum, hcum, _⟩ := Properties.C04.toInc_toCum hC
  obtain ⟨hA, hB⟩ := toCumulative_cells hinc hcum
  have hkc : kindsConsistent cum = true := kindsConsistent_of_cumulative fun c hc => (hA c hc).1
  have hni : Triangle.isIncremental cum = false :=
    not_isIncremental_of_all (fun c hc => by rw [(hA c hc).1]; simp)
  obtain ⟨right, hright⟩ := makeRightTriangle_ok (t := cum) (lags := some ls) (u := u) hu hkc hni (by
    intro e he l' hl' hgt' ev' hev'
    obtain ⟨_, y, hy, hyk, hye⟩ := hA e he
    rw [emptyCell_congr hyk]
    rcases hl' with ⟨ls', hls', hl'⟩ | ⟨hn, _⟩
    · cases hls'
      exact hcells y hy l' hl' (by rw [devLag_of_row hyk hye u]; exact hgt') ev' (by rw [pe_of_rowKey hyk]; exact hev')
    · cases hn)
  obtain ⟨new, hnew, _⟩ := makeRightTriangle_fin hni hright
  have hiff := rightTriangleCells_mem hnew
  have hsrc : ∀ n ∈ new, ∃ y ∈ t, rowKey y = rowKey n := by
    intro n hn
    obtain ⟨e, he, hne, _⟩ := ((hiff n).mp hn).row
    obtain ⟨_, y, hy, hyk, _⟩ := hA e he
    exact ⟨y, hy, by rw [hyk, hne]; rfl⟩
  have hinjc : LagInj cum (some ls) u := by
    intro p hp e he l1 hl1 l2 hl2 h1 h2 ev' e1 e2
    obtain ⟨_, y, hy, hyk, hye⟩ := hA e (mem_of_mem_slices hp he)
    have hd := devLag_of_row hyk hye u
    refine hinj y hy l1 hl1 l2 hl2 (by rw [hd]; exact h1) (by rw [hd]; exact h2) ?_
    rw [pe_of_rowKey hyk, e1, e2]
  have hkt : kindsConsistent t = true := kindsConsistent_of_incremental hC.1.isInc
  -- the colliding new cell
  obtain ⟨c, hc, hck, _⟩ := hB x hx
  obtain ⟨p, hp, _, hcp⟩ := slices_cover hc
  obtain ⟨edge, hedge⟩ := rightTriangleCells_edges hnew p hp
  obtain ⟨e, he, hem, hep⟩ := rightEdge_cover hedge hcp
  have hep' : e.ps = c.ps ∧ e.pe = c.pe := by
    simp only [cellPeriod, Prod.mk.injEq] at hep; exact hep
  obtain ⟨k1, k2, k3⟩ := rowKey_eq_iff.mp hck
  have hec : e ∈ cum := mem_of_mem_slices hp (rightEdge_latest hedge he).1
  obtain ⟨_, y, hy, hyk, hye⟩ := hA e hec
  have hex : rowKey e = rowKey x := by
    rw [rowKey_eq_iff]; exact ⟨hem.trans k1, hep'.1.trans k2, hep'.2.trans k3⟩
  have hgte : l > e.devLag u := by
    rw [← devLag_of_row hyk hye u]; exact hgt y hy (hyk.trans hex)
  have hn : emptyCell e ev ∈ new := by
    refine (hiff _).mpr ⟨p, hp, edge, hedge, e, he, l, hl, hgte, ev, ?_, rfl⟩
    rw [pe_of_rowKey hex]; exact hev
  have hrow : rowKey x = rowKey (emptyCell e ev) := hex.symm
  have herr := finishRight_error_inc (t := t) (new := new) hinc hkt
    (fun n hn => RightTriCell.empty ((hiff n).mp hn)) (rightTriangleCells_datesOk hnew)
    (fun n hn => by
      obtain ⟨y, hy, hyk⟩ := hsrc n hn
      rw [← (rowKey_eq_iff.mp hyk).2.1]; exact hC.1.psValid y hy)
    (fun n hn => by
      obtain ⟨y, hy, hyk⟩ := hsrc n hn
      rw [← (rowKey_eq_iff.mp hyk).1]; exact hcanon y hy)
    (rightTri_new_keys_nodup_u hinjc (fun l' hl' => by cases hl'; exact hnd) hnew)
    hn hx hrow hnot
  unfold makeRightTriangleU
  simp only [hinc, if_true, hcum, hnew, bind, Except.bind]
  exact herr

end Bermuda.Extend
