/-
Helper lemmas for C14 (row algebra of the tabular forms): `mapM` in `Except`, row counts of the
per-cell writers, membership in the expanded group-by key list.
-/
import Bermuda.Model.Frame
import Bermuda.Spec.C14
namespace Bermuda.Frame
open Bermuda Bermuda.Spec.C14

theorem mapM_except_length {α β ε : Type} (f : α → Except ε β) :
    ∀ (l : List α) (r : List β), l.mapM f = .ok r → r.length = l.length := by
  intro l
  induction l with
  | nil => intro r h; simp [pure, Except.pure] at h; subst h; rfl
  | cons a t ih =>
    intro r h
    rw [List.mapM_cons] at h
    cases hfa : f a with
    | error e => simp [hfa, bind, Except.bind] at h
    | ok b =>
      cases hm : t.mapM f with
      | error e => simp [hfa, hm, bind, Except.bind] at h
      | ok bs =>
        simp [hfa, hm, bind, Except.bind, pure, Except.pure] at h
        subst h
        simp [ih bs hm]

theorem mapM_transfer {α β ε : Type} (f : α → Except ε β) (g : α → Option Nat) (len : β → Nat)
    (hfg : ∀ a b, f a = .ok b → g a = some (len b)) :
    ∀ (l : List α) (r : List β), l.mapM f = .ok r → l.mapM g = some (r.map len) := by
  intro l
  induction l with
  | nil => intro r h; simp [pure, Except.pure] at h; subst h; rfl
  | cons a t ih =>
    intro r h
    rw [List.mapM_cons] at h
    cases hfa : f a with
    | error e => simp [hfa, bind, Except.bind] at h
    | ok b =>
      cases hm : t.mapM f with
      | error e => simp [hfa, hm, bind, Except.bind] at h
      | ok bs =>
        simp [hfa, hm, bind, Except.bind, pure, Except.pure] at h
        subst h
        rw [List.mapM_cons, hfg a b hfa, ih bs hm]
        rfl

theorem dropConstantScenario_length {rows rows' : List Row}
    (h : dropConstantScenario rows = .ok rows') : rows'.length = rows.length := by
  unfold dropConstantScenario at h
  split at h
  · cases h
  · split at h <;> (cases h; simp)

theorem cleanFieldDicts_length {c : Cell} {fs : List String} {fds : List (Dict Rat)}
    (h : cleanFieldDicts c fs = .ok fds) : commonFieldLength c fs = .ok fds.length := by
  unfold cleanFieldDicts at h
  cases hn : commonFieldLength c fs with
  | error e => simp [hn, bind, Except.bind] at h
  | ok n =>
    simp only [hn, bind, Except.bind] at h
    have := mapM_except_length _ _ _ h
    simp at this
    rw [this]

theorem cellWideRows_length {c : Cell} {md fs : List String} {rs : List Row}
    (h : cellWideRows c md fs = .ok rs) : commonFieldLength c fs = .ok rs.length := by
  unfold cellWideRows at h
  cases hf : cleanFieldDicts c fs with
  | error e => simp [hf, Except.map] at h
  | ok fds =>
    simp only [hf, Except.map] at h
    cases h
    simp [cleanFieldDicts_length hf]

theorem length_flatten_eq_sum {α : Type} (ls : List (List α)) :
    ls.flatten.length = (ls.map List.length).sum := by
  induction ls with
  | nil => rfl
  | cons a t ih => simp [ih]

theorem zip_flatMap_length {α β γ : Type} (g : α × List β → List γ)
    (hg : ∀ p, (g p).length = p.2.length) :
    ∀ (fds : List (List β)) (is : List α), is.length = fds.length →
      ((List.zip is fds).flatMap g).length = (fds.map List.length).sum := by
  intro fds
  induction fds with
  | nil => intro is _; simp
  | cons fd rest ih =>
    intro is his
    cases is with
    | nil => simp at his
    | cons i is' =>
      simp only [List.length_cons, Nat.add_right_cancel_iff] at his
      simp [hg, ih is' his]

theorem cellLongRows_length {c : Cell} {md : List String} {rs : List Row}
    (h : cellLongRows c md = .ok rs) :
    ∃ fds, cleanFieldDicts c c.values.keys = .ok fds ∧ rs.length = (fds.map List.length).sum := by
  unfold cellLongRows at h
  cases hf : cleanFieldDicts c c.values.keys with
  | error e => simp [hf, Except.map] at h
  | ok fds =>
    simp only [hf, Except.map] at h
    cases h
    refine ⟨fds, rfl, ?_⟩
    exact zip_flatMap_length _ (by intro p; simp) fds (List.range fds.length) (by simp)

theorem mem_groupCols {fn : String} (h : keysCover fn = true) (d l : List String)
    {k : String} (hk : k ∈ requiredKeys) {x : String} (hx : x ∈ expandKey d l k) :
    x ∈ groupCols fn d l := by
  unfold keysCover at h
  unfold groupCols
  split at h
  · rename_i fn' ks heq
    rw [heq]
    simp only [List.all_eq_true, List.contains_iff_mem] at h
    exact List.mem_flatMap.mpr ⟨k, h k hk, hx⟩
  · cases h


theorem filterMap_congr' {α β : Type} {f g : α → Option β} {l : List α}
    (h : ∀ x ∈ l, f x = g x) : l.filterMap f = l.filterMap g := by
  induction l with
  | nil => rfl
  | cons a t ih =>
    simp only [List.filterMap_cons, h a List.mem_cons_self]
    rw [ih (fun x hx => h x (List.mem_cons_of_mem _ hx))]

theorem col_eq_of_key {fn : String} (cols d l : List String) (r₁ r₂ : Row)
    (h₁ : ∀ k, k ∉ cols → Row.col r₁ k = .none) (h₂ : ∀ k, k ∉ cols → Row.col r₂ k = .none)
    (hkey : (groupCols fn d l).map (keyEntry cols d l r₁) = (groupCols fn d l).map (keyEntry cols d l r₂))
    {x : String} (hx : x ∈ groupCols fn d l) : Row.col r₁ x = Row.col r₂ x := by
  by_cases hc : x ∈ cols
  · have := List.map_inj_left.mp hkey x hx
    simpa [keyEntry, hc] using this
  · rw [h₁ x hc, h₂ x hc]


end Bermuda.Frame
