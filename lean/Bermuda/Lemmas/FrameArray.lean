/-
C14, array data frame of a regular single-slice cumulative triangle:
`fromArrayFrame (toArrayFrame t field) = t` (numerically), with the period resolution given or
inferred from the first two period starts (`round`, D19). Date facts come from C12's
`Lemmas/DateUtils.lean`: a first of month plus whole months is a first of month (dates from 1970
on), a month end plus whole months is the month end of the shifted month, development lags between
month ends are integers.
-/
import Bermuda.Lemmas.DateUtils
import Bermuda.Lemmas.FrameLong
namespace Bermuda.Frame
open Bermuda Bermuda.Spec.C14 Std

/-! ### date facts for the array frame -/

theorem roundHalfEven_near (n : Int) (q : Rat) (h1 : (n : Rat) - 1/2 < q) (h2 : q < (n : Rat) + 1/2) :
    roundHalfEven q = n := by
  unfold roundHalfEven
  by_cases hq : (n : Rat) ≤ q
  · have hf : q.floor = n := by
      show ⌊q⌋ = n
      rw [Int.floor_eq_iff]
      constructor
      · exact hq
      · linarith
    simp only [hf]
    have : q - (n : Rat) < 1/2 := by linarith
    rw [if_pos this]
  · have hq' : q < n := lt_of_not_ge hq
    have hf : q.floor = n - 1 := by
      show ⌊q⌋ = n - 1
      rw [Int.floor_eq_iff]
      constructor
      · push_cast; linarith
      · push_cast; linarith
    simp only [hf]
    have h3 : ¬ (q - ((n - 1 : Int) : Rat) < 1/2) := by push_cast; linarith
    have h4 : (1 : Rat)/2 < q - ((n - 1 : Int) : Rat) := by push_cast; linarith
    simp only [h3, h4, if_false, if_true]
    omega

/-- a first of month plus whole months is a first of month (dates from 1970 on) -/
theorem addMonths_first (d : Date) (_hv : d.valid = true) (hd : d.d = 1) (k : Int)
    (h : 0 ≤ monthToId d + k) :
    addMonths d (k : Rat) = ⟨yearOf (monthToId d + k), monthOf (monthToId d + k), 1⟩ := by
  rw [addMonths_eq_lag, finalLag_int]
  generalize hM : monthToId d + k = M at *
  have b1 := dim_bounds d.y d.m
  have b2 := dim_bounds (yearOf M) (monthOf M)
  have hn : (0 : Rat) < (dim d.y d.m : Rat) := by exact_mod_cast dim_pos _ _
  have hf0 : (0 : Rat) < (d.d : Rat) / (dim d.y d.m : Rat) := by
    rw [hd]; exact div_pos (by norm_num) hn
  have hf1 : (d.d : Rat) / (dim d.y d.m : Rat) < 1 := by
    rw [hd, div_lt_one hn]
    have : (28 : Rat) ≤ (dim d.y d.m : Rat) := by exact_mod_cast b1.1
    push_cast; linarith
  rw [addMonthsLag_frac M _ h hf0 hf1]
  have hday : roundHalfEven ((d.d : Rat) / (dim d.y d.m : Rat) * (dim (yearOf M) (monthOf M) : Rat)) = 1 := by
    apply roundHalfEven_near 1
    · rw [hd]
      have h28 : (28 : Rat) ≤ (dim (yearOf M) (monthOf M) : Rat) := by exact_mod_cast b2.1
      have h31 : (dim d.y d.m : Rat) ≤ 31 := by exact_mod_cast b1.2
      rw [div_mul_eq_mul_div, lt_div_iff₀ hn]
      push_cast; nlinarith
    · rw [hd]
      have h31 : (dim (yearOf M) (monthOf M) : Rat) ≤ 31 := by exact_mod_cast b2.2
      have h28 : (28 : Rat) ≤ (dim d.y d.m : Rat) := by exact_mod_cast b1.1
      rw [div_mul_eq_mul_div, div_lt_iff₀ hn]
      push_cast; nlinarith
  simp only [hday]
  rfl

theorem periodEnd_of_first (d : Date) (hv : d.valid = true) (hd : d.d = 1) (res : Int)
    (h : 0 ≤ monthToId d + res) :
    (addMonths d (res : Rat)).pred = monthEndOf (monthToId d + res - 1) := by
  rw [addMonths_first d hv hd res h]
  have := pred_first_of_month (monthToId d + res - 1)
  rw [show monthToId d + res - 1 + 1 = monthToId d + res by omega] at this
  exact this

theorem devLag_monthEnds {p e : Date} (hp : p.isMonthEnd = true) (he : e.isMonthEnd = true) :
    devLagMonths p e = ((monthToId e - monthToId p : Int) : Rat) := by
  have h1 : p.d = dim p.y p.m := by simpa [Date.isMonthEnd] using hp
  have h2 : e.d = dim e.y e.m := by simpa [Date.isMonthEnd] using he
  have hp0 : ((dim p.y p.m : Nat) : Rat) ≠ 0 := by
    have := dim_pos p.y p.m; exact_mod_cast (by omega : dim p.y p.m ≠ 0)
  have he0 : ((dim e.y e.m : Nat) : Rat) ≠ 0 := by
    have := dim_pos e.y e.m; exact_mod_cast (by omega : dim e.y e.m ≠ 0)
  unfold devLagMonths monthFraction monthToId
  rw [h1, h2, div_self hp0, div_self he0]
  push_cast; ring


/-! ### generic list facts for the array frame -/

theorem foldl_setEntry_map {α : Type} (key : α → Int) (val : α → Val) : ∀ (cells : List α) (acc : List (Int × Val)),
    ((acc.map (·.1)) ++ cells.map key).Nodup →
    cells.foldl (fun es c => setEntry es (key c) (val c)) acc = acc ++ cells.map fun c => (key c, val c)
  | [], acc, _ => by simp
  | c :: rest, acc, h => by
    rw [List.foldl_cons]
    have hno : ¬ (acc.any (·.1 == key c) = true) := by
      intro ha
      obtain ⟨e, he, hek⟩ := List.any_eq_true.mp ha
      rw [List.map_cons, List.nodup_append] at h
      exact h.2.2 _ (List.mem_map_of_mem he) _ List.mem_cons_self (by simpa using hek)
    have hstep : setEntry acc (key c) (val c) = acc ++ [(key c, val c)] := by
      unfold setEntry; rw [if_neg hno]
    rw [hstep, foldl_setEntry_map key val rest (acc ++ [(key c, val c)]) (by
      simpa [List.append_assoc] using h)]
    simp

theorem addLag_spec (k : Int) (acc : List Int) :
    (acc.Nodup → (addLag acc k).Nodup) ∧ ∀ x, x ∈ addLag acc k ↔ x ∈ acc ∨ x = k := by
  unfold addLag
  by_cases h : acc.contains k = true
  · rw [if_pos h]
    have hk : k ∈ acc := List.contains_iff_mem.mp h
    exact ⟨id, fun x => ⟨Or.inl, fun hx => hx.elim id (fun he => he ▸ hk)⟩⟩
  · rw [if_neg h]
    have hk : k ∉ acc := fun hm => h (List.contains_iff_mem.mpr hm)
    refine ⟨fun hn => ?_, fun x => by simp⟩
    rw [List.nodup_append]
    exact ⟨hn, by simp, by intro a ha b hb; simp at hb; subst hb; intro he; exact hk (he ▸ ha)⟩

theorem foldl_addLag_spec {β : Type} (f : β → Int) : ∀ (l : List β) (acc : List Int),
    (acc.Nodup → (l.foldl (fun a e => addLag a (f e)) acc).Nodup) ∧
    ∀ x, x ∈ l.foldl (fun a e => addLag a (f e)) acc ↔ x ∈ acc ∨ ∃ e ∈ l, f e = x
  | [], acc => by simp
  | e :: rest, acc => by
    rw [List.foldl_cons]
    have h1 := addLag_spec (f e) acc
    have h2 := foldl_addLag_spec f rest (addLag acc (f e))
    refine ⟨fun hn => h2.1 (h1.1 hn), fun x => ?_⟩
    rw [h2.2 x, h1.2 x]
    simp only [List.mem_cons, exists_eq_or_imp]
    constructor
    · rintro ((h | h) | h)
      · exact Or.inl h
      · exact Or.inr (Or.inl h.symm)
      · exact Or.inr (Or.inr h)
    · rintro (h | h | h)
      · exact Or.inl (Or.inl h)
      · exact Or.inl (Or.inr h.symm)
      · exact Or.inr h

theorem frameCols_spec (rows : List ArrayRow) :
    (frameCols rows).Nodup ∧ ∀ x, x ∈ frameCols rows ↔ ∃ r ∈ rows, ∃ e ∈ r.entries, e.1 = x := by
  unfold frameCols
  suffices ∀ (rows : List ArrayRow) (acc : List Int),
      (acc.Nodup → (rows.foldl (fun acc r => r.entries.foldl (fun a e => addLag a e.1) acc) acc).Nodup) ∧
      ∀ x, x ∈ rows.foldl (fun acc r => r.entries.foldl (fun a e => addLag a e.1) acc) acc ↔
        x ∈ acc ∨ ∃ r ∈ rows, ∃ e ∈ r.entries, e.1 = x by
    have := this rows []
    exact ⟨this.1 List.nodup_nil, fun x => by simpa using this.2 x⟩
  intro rows
  induction rows with
  | nil => intro acc; simp
  | cons r rest ih =>
    intro acc
    rw [List.foldl_cons]
    have h1 := foldl_addLag_spec (fun e : Int × Val => e.1) r.entries acc
    have h2 := ih (r.entries.foldl (fun a e => addLag a e.1) acc)
    refine ⟨fun hn => h2.1 (h1.1 hn), fun x => ?_⟩
    rw [h2.2 x, h1.2 x]
    simp only [List.mem_cons, exists_eq_or_imp]
    constructor
    · rintro ((h | h) | h)
      · exact Or.inl h
      · exact Or.inr (Or.inl h)
      · exact Or.inr (Or.inr h)
    · rintro (h | h | h)
      · exact Or.inl (Or.inl h)
      · exact Or.inl (Or.inr h)
      · exact Or.inr h

theorem find?_key_nodup {es : List (Int × Val)} (hn : (es.map (·.1)).Nodup) {e : Int × Val} (he : e ∈ es) :
    es.find? (·.1 == e.1) = some e := by
  induction es with
  | nil => cases he
  | cons a rest ih =>
    simp only [List.map_cons, List.nodup_cons] at hn
    rw [List.find?_cons]
    rcases List.mem_cons.mp he with rfl | h'
    · simp
    · have : (a.1 == e.1) = false := by
        apply beq_false_of_ne
        intro heq; exact hn.1 (heq ▸ List.mem_map_of_mem h')
      rw [this]; exact ih hn.2 h'


/-! ### a regular single-slice triangle and its array frame -/

structure RegCell (c : Cell) (field : String) (res : Int) (md : Metadata) : Prop where
  md : c.md = md
  prev : c.prev = none
  dates : c.datesOk = true
  vals : ∃ v q, c.values = [(field, v)] ∧ valNum? v = some q
  psv : c.ps.valid = true
  ps1 : c.ps.d = 1
  ps70 : 0 ≤ monthToId c.ps
  pe : c.pe = monthEndOf (monthToId c.ps + res - 1)
  evv : c.ev.valid = true
  eve : c.ev.isMonthEnd = true

/-- regular single-slice cumulative triangle of `res`-month periods starting on firsts of month
(from 1970 on), evaluated at month ends, one numeric scalar field -/
structure RegularSingle (t : List Cell) (field : String) (res : Int) (md : Metadata) : Prop where
  ne : t ≠ []
  sorted : t.Pairwise (fun a b => Cell.cmp a b = .lt)
  kinds : kindsConsistent t = true
  notInc : ∀ c ∈ t, c.kind ≠ .incremental
  canon : md.Canon
  res1 : 1 ≤ res
  cell : ∀ c ∈ t, RegCell c field res md

def lagOf (c : Cell) : Int := monthToId c.ev - monthToId c.pe

def aq (c : Cell) : Rat := (c.values.head?.bind fun kv => valNum? kv.2).getD 0

/-- what comes back from the array frame -/
def arecon (field : String) (md : Metadata) (c : Cell) : Cell :=
  { kind := .cumulative, ps := c.ps, pe := c.pe, ev := c.ev, prev := none,
    values := [(field, Val.flt (aq c))], md := md }

section areg
variable {t : List Cell} {field : String} {res : Int} {md : Metadata} (h : RegularSingle t field res md)
include h

theorem reg_nodup : t.Nodup := by
  refine h.sorted.imp ?_
  intro a b hab he
  subst he
  rw [ReflCmp.compare_self (cmp := Cell.cmp)] at hab
  cases hab

theorem reg_pe_monthEnd {c : Cell} (hc : c ∈ t) : c.pe.isMonthEnd = true ∧ c.pe.valid = true := by
  rw [(h.cell c hc).pe]
  exact ⟨monthEndOf_isMonthEnd _, monthEndOf_valid _⟩

theorem reg_lag {c : Cell} (hc : c ∈ t) : truncInt (c.devLag .month) = lagOf c := by
  unfold Cell.devLag calculateDevLag
  simp only
  rw [devLag_monthEnds (reg_pe_monthEnd h hc).1 (h.cell c hc).eve, truncInt_intCast]
  rfl

theorem reg_value {c : Cell} (hc : c ∈ t) :
    ∃ v, c.values = [(field, v)] ∧ valNum? v = some (aq c) ∧ (Dict.get? c.values field).getD .none = v := by
  obtain ⟨v, q, hv, hq⟩ := (h.cell c hc).vals
  refine ⟨v, hv, ?_, ?_⟩
  · simp [aq, hv, hq]
  · simp [hv, Dict.get?]

theorem reg_filtered : (t.filter fun c => c.values.contains field) = t := by
  rw [List.filter_eq_self]
  intro c hc
  obtain ⟨v, hv, _, _⟩ := reg_value h hc
  rw [hv]
  simp [Dict.contains]

theorem reg_ofCells : Triangle.ofCells t = .ok t := by
  unfold Triangle.ofCells
  rw [if_pos h.kinds]
  congr 1
  apply List.mergeSort_of_pairwise
  refine h.sorted.imp ?_
  intro a b hab
  unfold Cell.le; rw [hab]; rfl

theorem reg_metas : (metasOf t).length ≤ 1 := by
  have hn := Units.metasOf_nodup t
  have hall : ∀ m ∈ metasOf t, m = md := by
    intro m hm
    obtain ⟨c, hc, rfl⟩ := Units.mem_metasOf.mp hm
    exact (h.cell c hc).md
  match hm : metasOf t, hn, hall with
  | [], _, _ => simp
  | [_], _, _ => simp
  | a :: b :: rest, hn, hall =>
    exfalso
    have ha := hall a (by simp)
    have hb := hall b (by simp)
    rw [ha, hb] at hn
    simp at hn

theorem toArrayFrame_reg :
    toArrayFrame t field = .ok ((periodsOf t).map (arrayRowOf t field)) := by
  unfold toArrayFrame
  rw [reg_filtered h, reg_ofCells h]
  simp only [Except.bind]
  have h1 : ¬ (metasOf t).length > 1 := by have := reg_metas h; omega
  rw [if_neg h1]
  have h2 : firstIsIncremental t = false := by
    cases ht : t with
    | nil => rfl
    | cons c rest =>
      have := h.notInc c (by rw [ht]; exact List.mem_cons_self)
      simp only [firstIsIncremental]
      cases hk : c.kind <;> simp_all
  rw [h2]
  rfl

end areg


section areg2
variable {t : List Cell} {field : String} {res : Int} {md : Metadata} (h : RegularSingle t field res md)
include h

theorem mem_periodsOf {p : Date × Date} : p ∈ periodsOf t ↔ ∃ c ∈ t, (c.ps, c.pe) = p := by
  unfold periodsOf
  rw [(List.mergeSort_perm _ _).mem_iff, List.mem_eraseDups, List.mem_map]

theorem periodsOf_nodup : (periodsOf t).Nodup := by
  unfold periodsOf
  exact (List.mergeSort_perm _ _).nodup_iff.mpr (nodup_eraseDups' _)

theorem mem_periodCells {p : Date × Date} {c : Cell} :
    c ∈ periodCells t p ↔ c ∈ t ∧ (c.ps, c.pe) = p := by
  unfold periodCells
  rw [(List.mergeSort_perm _ _).mem_iff, List.mem_filter]
  simp [Prod.ext_iff]

theorem periodCells_nodup (p : Date × Date) : (periodCells t p).Nodup := by
  unfold periodCells
  exact (List.mergeSort_perm _ _).nodup_iff.mpr ((reg_nodup h).sublist List.filter_sublist)

/-- two cells of the triangle with the same period and the same lag are the same cell -/
theorem lag_inj {a b : Cell} (ha : a ∈ t) (hb : b ∈ t) (hp : (a.ps, a.pe) = (b.ps, b.pe))
    (hl : lagOf a = lagOf b) : a = b := by
  have hpe : a.pe = b.pe := (Prod.ext_iff.mp hp).2
  have hps : a.ps = b.ps := (Prod.ext_iff.mp hp).1
  have hid : monthToId a.ev = monthToId b.ev := by
    unfold lagOf at hl; rw [hpe] at hl; omega
  have hev : a.ev = b.ev := by
    rw [← monthEndOf_monthToId (h.cell a ha).evv (h.cell a ha).eve,
      ← monthEndOf_monthToId (h.cell b hb).evv (h.cell b hb).eve, hid]
  have hcmp : Cell.cmp a b = .eq := by
    have hca : a.md.Canon := by rw [(h.cell a ha).md]; exact h.canon
    have hcb : b.md.Canon := by rw [(h.cell b hb).md]; exact h.canon
    rw [Cell.cmp_eq_eq hca hcb]
    simp [Cell.coord, hps, hpe, hev, (h.cell a ha).md, (h.cell b hb).md, (h.cell a ha).prev, (h.cell b hb).prev]
  -- strict sortedness: distinct members are never tied
  apply Classical.byContradiction
  intro hne
  obtain ⟨i, hi, rfl⟩ := List.getElem_of_mem ha
  obtain ⟨j, hj, rfl⟩ := List.getElem_of_mem hb
  have hij : i ≠ j := fun he => hne (by subst he; rfl)
  rcases Nat.lt_or_gt_of_ne hij with hlt | hgt
  · have := List.pairwise_iff_getElem.mp h.sorted i j hi hj hlt
    rw [hcmp] at this; cases this
  · have := List.pairwise_iff_getElem.mp h.sorted j i hj hi hgt
    rw [OrientedCmp.eq_swap (cmp := Cell.cmp), hcmp] at this
    cases this

theorem rowEntries_reg (p : Date × Date) :
    rowEntries (periodCells t p) field =
      (periodCells t p).map fun c => (lagOf c, (Dict.get? c.values field).getD .none) := by
  unfold rowEntries
  have hcongr : ∀ (cells : List Cell), (∀ c ∈ cells, c ∈ t) →
      cells.foldl (fun es c => setEntry es (truncInt (c.devLag .month)) ((Dict.get? c.values field).getD .none)) [] =
      cells.foldl (fun es c => setEntry es (lagOf c) ((Dict.get? c.values field).getD .none)) [] := by
    intro cells hmem
    suffices ∀ acc : List (Int × Val),
        cells.foldl (fun es c => setEntry es (truncInt (c.devLag .month)) ((Dict.get? c.values field).getD .none)) acc =
        cells.foldl (fun es c => setEntry es (lagOf c) ((Dict.get? c.values field).getD .none)) acc from this []
    induction cells with
    | nil => intro acc; rfl
    | cons c rest ih =>
      intro acc
      rw [List.foldl_cons, List.foldl_cons, reg_lag h (hmem c List.mem_cons_self)]
      exact ih (fun x hx => hmem x (List.mem_cons_of_mem _ hx)) _
  rw [hcongr _ (fun c hc => (mem_periodCells h).mp hc |>.1)]
  have := foldl_setEntry_map lagOf (fun c : Cell => (Dict.get? c.values field).getD .none) (periodCells t p) [] (by
    simp only [List.map_nil, List.nil_append]
    refine List.Nodup.map_on ?_ (periodCells_nodup h p)
    intro a ha b hb hab
    obtain ⟨ha1, ha2⟩ := (mem_periodCells h).mp ha
    obtain ⟨hb1, hb2⟩ := (mem_periodCells h).mp hb
    exact lag_inj h ha1 hb1 (ha2.trans hb2.symm) hab)
  simpa using this

end areg2


section areg3
variable {t : List Cell} {field : String} {res : Int} {md : Metadata} (h : RegularSingle t field res md)
include h

theorem reg_periodEnd {c : Cell} (hc : c ∈ t) : (addMonths c.ps (res : Rat)).pred = c.pe := by
  have hr := h.cell c hc
  rw [periodEnd_of_first c.ps hr.psv hr.ps1 res (by have := hr.ps70; have := h.res1; omega), hr.pe]

theorem reg_eval {c : Cell} (hc : c ∈ t) : addMonths c.pe ((lagOf c : Int) : Rat) = c.ev := by
  have hr := h.cell c hc
  rw [addMonths_monthEnd_all c.pe (lagOf c) (reg_pe_monthEnd h hc).1]
  unfold lagOf
  rw [show monthToId c.pe + (monthToId c.ev - monthToId c.pe) = monthToId c.ev by omega]
  exact monthEndOf_monthToId hr.evv hr.eve

theorem entries_keys_nodup (p : Date × Date) :
    ((arrayRowOf t field p).entries.map (·.1)).Nodup := by
  unfold arrayRowOf
  simp only
  rw [rowEntries_reg h p, List.map_map]
  refine List.Nodup.map_on ?_ (periodCells_nodup h p)
  intro a ha b hb hab
  obtain ⟨ha1, ha2⟩ := (mem_periodCells h).mp ha
  obtain ⟨hb1, hb2⟩ := (mem_periodCells h).mp hb
  exact lag_inj h ha1 hb1 (ha2.trans hb2.symm) hab

theorem frameCell_of_cell {p : Date × Date} {c : Cell} (hc : c ∈ periodCells t p) :
    frameCell field md (arrayRowOf t field p) p.2 (lagOf c) = some (arecon field md c) := by
  obtain ⟨hct, hcp⟩ := (mem_periodCells h).mp hc
  obtain ⟨v, hv, hq, hg⟩ := reg_value h hct
  have hmem : (lagOf c, (Dict.get? c.values field).getD .none) ∈ (arrayRowOf t field p).entries := by
    unfold arrayRowOf; simp only
    rw [rowEntries_reg h p]
    exact List.mem_map.mpr ⟨c, hc, rfl⟩
  unfold frameCell
  rw [find?_key_nodup (entries_keys_nodup h p) hmem]
  simp only [Option.bind_some, hg, hq, Option.map_some]
  have hp1 : p.1 = c.ps := by rw [← hcp]
  have hp2 : p.2 = c.pe := by rw [← hcp]
  simp only [arecon, arrayRowOf, hp1, hp2, reg_eval h hct]

theorem frameCell_some_iff {p : Date × Date} {lag : Int} {x : Cell}
    (hx : frameCell field md (arrayRowOf t field p) p.2 lag = some x) :
    ∃ c ∈ periodCells t p, lagOf c = lag ∧ x = arecon field md c := by
  unfold frameCell at hx
  cases hf : (arrayRowOf t field p).entries.find? (·.1 == lag) with
  | none => simp [hf] at hx
  | some e =>
    have he := List.mem_of_find?_eq_some hf
    have hk : e.1 = lag := by simpa using List.find?_some hf
    unfold arrayRowOf at he
    simp only at he
    rw [rowEntries_reg h p] at he
    obtain ⟨c, hc, rfl⟩ := List.mem_map.mp he
    refine ⟨c, hc, hk, ?_⟩
    have := frameCell_of_cell h hc
    simp only at hk
    rw [hk] at this
    unfold frameCell at this
    rw [hf] at this
    rw [hf] at hx
    rw [hx] at this
    exact Option.some.inj this

theorem arecon_datesOk {c : Cell} (hc : c ∈ t) : (arecon field md c).datesOk = true := by
  have hd := (h.cell c hc).dates
  have hp := (h.cell c hc).prev
  have hk := h.notInc c hc
  unfold Cell.datesOk at hd ⊢
  simp only [arecon]
  rw [hp] at hd
  cases hck : c.kind <;> simp_all

theorem rowCells_reg {p : Date × Date} (hp : p ∈ periodsOf t) (cols : List Int) :
    rowCells field md res cols (arrayRowOf t field p) =
      .ok (cols.filterMap (frameCell field md (arrayRowOf t field p) p.2)) := by
  obtain ⟨c, hc, hcp⟩ := (mem_periodsOf h).mp hp
  have hpe : (addMonths (arrayRowOf t field p).period (res : Rat)).pred = p.2 := by
    have : (arrayRowOf t field p).period = c.ps := by simp [arrayRowOf, ← hcp]
    rw [this, reg_periodEnd h hc, ← hcp]
  unfold rowCells
  rw [hpe]
  have := mapM_ok_of_forall Cell.mk? id (cols.filterMap (frameCell field md (arrayRowOf t field p) p.2)) (by
    intro x hx
    obtain ⟨lag, _, hl⟩ := List.mem_filterMap.mp hx
    obtain ⟨c', hc', _, rfl⟩ := frameCell_some_iff h hl
    unfold Cell.mk?
    rw [if_pos (arecon_datesOk h ((mem_periodCells h).mp hc').1)]
    rfl)
  simpa using this

end areg3


section areg4
variable {t : List Cell} {field : String} {res : Int} {md : Metadata} (h : RegularSingle t field res md)
include h

def frameCellsOf (t : List Cell) (field : String) (md : Metadata) : List Cell :=
  ((periodsOf t).map fun p =>
    (frameCols ((periodsOf t).map (arrayRowOf t field))).filterMap
      (frameCell field md (arrayRowOf t field p) p.2)).flatten

theorem mem_frameCellsOf {x : Cell} : x ∈ frameCellsOf t field md ↔ ∃ c ∈ t, x = arecon field md c := by
  unfold frameCellsOf
  constructor
  · intro hx
    obtain ⟨l, hl, hxl⟩ := List.mem_flatten.mp hx
    obtain ⟨p, _, rfl⟩ := List.mem_map.mp hl
    obtain ⟨lag, _, hf⟩ := List.mem_filterMap.mp hxl
    obtain ⟨c, hc, _, rfl⟩ := frameCell_some_iff h hf
    exact ⟨c, ((mem_periodCells h).mp hc).1, rfl⟩
  · rintro ⟨c, hc, rfl⟩
    have hp : (c.ps, c.pe) ∈ periodsOf t := (mem_periodsOf h).mpr ⟨c, hc, rfl⟩
    have hcp : c ∈ periodCells t (c.ps, c.pe) := (mem_periodCells h).mpr ⟨hc, rfl⟩
    refine List.mem_flatten.mpr ⟨_, List.mem_map_of_mem hp, List.mem_filterMap.mpr ⟨lagOf c, ?_, frameCell_of_cell h hcp⟩⟩
    rw [(frameCols_spec _).2]
    refine ⟨arrayRowOf t field (c.ps, c.pe), List.mem_map_of_mem hp, (lagOf c, (Dict.get? c.values field).getD .none), ?_, rfl⟩
    unfold arrayRowOf; simp only
    rw [rowEntries_reg h]
    exact List.mem_map.mpr ⟨c, hcp, rfl⟩

theorem arecon_inj {a b : Cell} (ha : a ∈ t) (hb : b ∈ t) (he : arecon field md a = arecon field md b) : a = b := by
  have hps : a.ps = b.ps := by have := congrArg Cell.ps he; simpa [arecon] using this
  have hpe : a.pe = b.pe := by have := congrArg Cell.pe he; simpa [arecon] using this
  have hev : a.ev = b.ev := by have := congrArg Cell.ev he; simpa [arecon] using this
  apply lag_inj h ha hb (by rw [hps, hpe])
  unfold lagOf; rw [hev, hpe]

theorem frameCellsOf_nodup : (frameCellsOf t field md).Nodup := by
  unfold frameCellsOf
  rw [List.nodup_flatten]
  constructor
  · intro l hl
    obtain ⟨p, hp, rfl⟩ := List.mem_map.mp hl
    apply List.Nodup.filterMap _ (frameCols_spec _).1
    intro lag lag' x hx hx'
    obtain ⟨c, hc, hl1, rfl⟩ := frameCell_some_iff h (Option.mem_def.mp hx)
    obtain ⟨c', hc', hl2, he⟩ := frameCell_some_iff h (Option.mem_def.mp hx')
    have := arecon_inj h ((mem_periodCells h).mp hc).1 ((mem_periodCells h).mp hc').1 he
    rw [← hl1, ← hl2, this]
  · rw [List.pairwise_map]
    refine (periodsOf_nodup h).imp ?_
    intro p p' hne x hx hx'
    obtain ⟨lag, _, hf⟩ := List.mem_filterMap.mp hx
    obtain ⟨lag', _, hf'⟩ := List.mem_filterMap.mp hx'
    obtain ⟨c, hc, _, rfl⟩ := frameCell_some_iff h hf
    obtain ⟨c', hc', _, he⟩ := frameCell_some_iff h hf'
    have := arecon_inj h ((mem_periodCells h).mp hc).1 ((mem_periodCells h).mp hc').1 he
    apply hne
    rw [← ((mem_periodCells h).mp hc).2, ← ((mem_periodCells h).mp hc').2, this]

theorem cmp_arecon {a b : Cell} (ha : a ∈ t) (hb : b ∈ t) :
    Cell.cmp (arecon field md a) (arecon field md b) = Cell.cmp a b := by
  simp only [Cell.cmp, compareLex, cmpOn, arecon, (h.cell a ha).md, (h.cell b hb).md,
    (h.cell a ha).prev, (h.cell b hb).prev]

theorem canonCell_arecon {c : Cell} (hc : c ∈ t) : canonCell (arecon field md c) = canonCell c := by
  obtain ⟨v, hv, hq, _⟩ := reg_value h hc
  have hkind : typedKind CellKind.cumulative = typedKind c.kind := by
    have := h.notInc c hc
    cases hck : c.kind <;> simp_all [typedKind]
  unfold canonCell
  simp only [arecon, (h.cell c hc).prev, (h.cell c hc).md, hkind, hv, List.map_cons, List.map_nil]
  congr 2
  have : numV (Val.flt (aq c)) = numV v := by
    cases v with
    | none => simp [valNum?] at hq
    | int i => simp only [valNum?, Option.some.injEq] at hq; rw [← hq]; try rfl
    | flt q => simp only [valNum?, Option.some.injEq] at hq; rw [← hq]; try rfl
    | arr a b d =>
      match d, hq with
      | [q], hq => simp only [valNum?, Option.some.injEq] at hq; rw [← hq]; try rfl
  rw [this]

/-- **fromArrayFrame_toArrayFrame**, period resolution given. -/
theorem fromArrayFrame_toArrayFrame_explicit :
    okAnd (backSpec t)
      ((toArrayFrame t field).bind fun rows => fromArrayFrame rows field md (some res)) = true := by
  rw [toArrayFrame_reg h]
  simp only [Except.bind]
  unfold fromArrayFrame
  simp only [frameResolution, Except.bind]
  have hrows : ((periodsOf t).map (arrayRowOf t field)).mapM
      (rowCells field md res (frameCols ((periodsOf t).map (arrayRowOf t field)))) =
      .ok ((periodsOf t).map fun p =>
        (frameCols ((periodsOf t).map (arrayRowOf t field))).filterMap
          (frameCell field md (arrayRowOf t field p) p.2)) := by
    rw [List.mapM_map]
    apply mapM_ok_of_forall
    intro p hp
    exact rowCells_reg h hp _
  rw [hrows]
  simp only
  change okAnd (backSpec t) (Triangle.ofCells (frameCellsOf t field md)) = true
  -- the constructor sorts the cells back into the triangle's order
  have hperm : (frameCellsOf t field md).Perm (t.map (arecon field md)) := by
    rw [List.perm_ext_iff_of_nodup (frameCellsOf_nodup h)
      (List.Nodup.map_on (fun a ha b hb he => arecon_inj h ha hb he) (reg_nodup h))]
    intro x
    rw [mem_frameCellsOf h, List.mem_map]
    constructor
    · rintro ⟨c, hc, rfl⟩; exact ⟨c, hc, rfl⟩
    · rintro ⟨c, hc, rfl⟩; exact ⟨c, hc, rfl⟩
  have hsorted : (t.map (arecon field md)).Pairwise (fun a b => Cell.le a b = true) := by
    rw [List.pairwise_map]
    have hs : t.Pairwise (fun a b => a ∈ t ∧ b ∈ t ∧ Cell.cmp a b = .lt) := by
      rw [List.pairwise_iff_getElem]
      intro i j hi hj hij
      exact ⟨List.getElem_mem hi, List.getElem_mem hj, List.pairwise_iff_getElem.mp h.sorted i j hi hj hij⟩
    refine hs.imp ?_
    intro a b ⟨ha, hb, hlt⟩
    unfold Cell.le; rw [cmp_arecon h ha hb, hlt]; rfl
  have hk : kindsConsistent (frameCellsOf t field md) = true := by
    unfold kindsConsistent
    have : (frameCellsOf t field md).all (·.kind == .cumulative) = true := by
      rw [List.all_eq_true]
      intro x hx
      obtain ⟨c, _, rfl⟩ := (mem_frameCellsOf h).mp hx
      rfl
    simp [this]
  unfold Triangle.ofCells
  rw [if_pos hk]
  have hsort : (frameCellsOf t field md).mergeSort Cell.le = t.map (arecon field md) := by
    have := mergeSort_perm_invariant (cmp := Cell.cmp) hperm (by
      intro a b ha hb hab
      obtain ⟨x, hx, rfl⟩ := (mem_frameCellsOf h).mp ha
      obtain ⟨y, hy, rfl⟩ := (mem_frameCellsOf h).mp hb
      rw [cmp_arecon h hx hy] at hab
      -- tied members of a strictly sorted list coincide
      have : x = y := by
        apply Classical.byContradiction
        intro hne
        obtain ⟨i, hi, rfl⟩ := List.getElem_of_mem hx
        obtain ⟨j, hj, rfl⟩ := List.getElem_of_mem hy
        have hij : i ≠ j := fun he => hne (by subst he; rfl)
        rcases Nat.lt_or_gt_of_ne hij with hlt | hgt
        · have := List.pairwise_iff_getElem.mp h.sorted i j hi hj hlt
          rw [hab] at this; cases this
        · have := List.pairwise_iff_getElem.mp h.sorted j i hj hi hgt
          rw [OrientedCmp.eq_swap (cmp := Cell.cmp), hab] at this
          cases this
      rw [this])
    show (frameCellsOf t field md).mergeSort (leOf Cell.cmp) = _
    rw [this]
    exact List.mergeSort_of_pairwise hsorted
  rw [hsort]
  simp only [okAnd, backSpec, sameNumeric, List.map_map]
  rw [beq_iff_eq]
  apply List.map_congr_left
  intro c hc
  exact canonCell_arecon h hc

end areg4


theorem round_devLag_firsts (s e : Date) (hs : s.d = 1) (he : e.d = 1) :
    roundHalfEven (devLagMonths s e) = monthToId e - monthToId s := by
  have b1 := dim_bounds s.y s.m
  have b2 := dim_bounds e.y e.m
  have hs0 : (28 : Rat) ≤ (dim s.y s.m : Rat) := by exact_mod_cast b1.1
  have hs1 : (dim s.y s.m : Rat) ≤ 31 := by exact_mod_cast b1.2
  have he0 : (28 : Rat) ≤ (dim e.y e.m : Rat) := by exact_mod_cast b2.1
  have he1 : (dim e.y e.m : Rat) ≤ 31 := by exact_mod_cast b2.2
  have hform : devLagMonths s e = ((monthToId e - monthToId s : Int) : Rat)
      - 1 / (dim s.y s.m : Rat) + 1 / (dim e.y e.m : Rat) := by
    unfold devLagMonths monthFraction monthToId
    rw [hs, he]
    push_cast; ring
  have hps : (0 : Rat) < (dim s.y s.m : Rat) := by linarith
  have hpe : (0 : Rat) < (dim e.y e.m : Rat) := by linarith
  have i1 : (1 : Rat) / (dim s.y s.m : Rat) ≤ 1 / 28 := by
    rw [div_le_div_iff₀ hps (by norm_num)]; linarith
  have i2 : (0 : Rat) < 1 / (dim s.y s.m : Rat) := by positivity
  have i3 : (1 : Rat) / (dim e.y e.m : Rat) ≤ 1 / 28 := by
    rw [div_le_div_iff₀ hpe (by norm_num)]; linarith
  have i4 : (0 : Rat) < 1 / (dim e.y e.m : Rat) := by positivity
  apply roundHalfEven_near
  · rw [hform]; linarith
  · rw [hform]; linarith

section areg5
variable {t : List Cell} {field : String} {res : Int} {md : Metadata} (h : RegularSingle t field res md)
include h

/-- **fromArrayFrame_toArrayFrame**, period resolution inferred from the first two period starts
(which must be `res` months apart; `round`, not `int` — D19). -/
theorem fromArrayFrame_toArrayFrame_inferred
    (hp : ∃ p0 p1 rest, periodsOf t = p0 :: p1 :: rest ∧ monthToId p1.1 = monthToId p0.1 + res) :
    okAnd (backSpec t)
      ((toArrayFrame t field).bind fun rows => fromArrayFrame rows field md none) = true := by
  have hexp := fromArrayFrame_toArrayFrame_explicit h
  rw [toArrayFrame_reg h] at hexp ⊢
  simp only [Except.bind] at hexp ⊢
  obtain ⟨p0, p1, rest, hper, hres⟩ := hp
  have h0 : p0 ∈ periodsOf t := by rw [hper]; simp
  have h1 : p1 ∈ periodsOf t := by rw [hper]; simp
  obtain ⟨c0, hc0, hcp0⟩ := (mem_periodsOf h).mp h0
  obtain ⟨c1, hc1, hcp1⟩ := (mem_periodsOf h).mp h1
  have hfr : frameResolution ((periodsOf t).map (arrayRowOf t field)) none = .ok res := by
    rw [hper]
    simp only [List.map_cons, frameResolution, arrayRowOf]
    rw [round_devLag_firsts p0.1 p1.1 (by rw [← hcp0]; exact (h.cell c0 hc0).ps1)
      (by rw [← hcp1]; exact (h.cell c1 hc1).ps1)]
    congr 1; omega
  unfold fromArrayFrame at hexp ⊢
  rw [hfr]
  simpa [frameResolution] using hexp

end areg5

end Bermuda.Frame
