/-
C14, `array_data_frame_to_triangle` with ALL its arguments (`fromArrayFrameFull`): for a frame with
first-of-month periods (strictly ascending) and strictly ascending column lags — read from integer
labels, or `i · eval_resolution` (given, or the period resolution when a label is not an integer) — the
reader builds exactly `Spec.arrayExpected`: one `CumulativeCell` per entry, period of `res` months, evaluated
`lag` months after the period end (or, with `dev_lag_from_period_end=False` and integer labels, `lag`
months after the period start minus a day), in row-major order. `array_triangle_builder` is the left fold
of `merge` over these triangles; for two frames C10's `merge` theorems apply.
-/
import Bermuda.Lemmas.FrameStatics
import Bermuda.Lemmas.FrameMatrix
namespace Bermuda.Frame
open Bermuda Bermuda.Spec.C14 Std

theorem monthEndOf_lt {M1 M2 : Int} (h : M1 < M2) : Date.cmp (monthEndOf M1) (monthEndOf M2) = .lt := by
  unfold Date.cmp monthEndOf
  simp only [compareLex, cmpOn]
  by_cases hy : yearOf M1 < yearOf M2
  · rw [Int.compare_eq_lt.mpr hy]; rfl
  · have hye : yearOf M1 = yearOf M2 := by unfold yearOf at hy ⊢; omega
    have hm : monthOf M1 < monthOf M2 := by unfold yearOf at hye; unfold monthOf; omega
    rw [hye, Std.compare_eq_iff_eq.mpr rfl, Nat.compare_eq_lt.mpr hm]
    rfl

theorem zip_fst_sublist {α β : Type} : ∀ (l : List α) (l' : List β), ((l.zip l').map Prod.fst).Sublist l
  | [], _ => by simp
  | _ :: _, [] => by simp
  | a :: l, b :: l' => by
    simp only [List.zip_cons_cons, List.map_cons]
    exact List.Sublist.cons_cons a (zip_fst_sublist l l')

theorem mapM_mk_ok : ∀ (l : List Cell), (∀ c ∈ l, c.datesOk = true) → l.mapM Cell.mk? = .ok l
  | [], _ => rfl
  | c :: l, h => by
    rw [List.mapM_cons]
    have hc : Cell.mk? c = .ok c := by unfold Cell.mk?; rw [if_pos (h c List.mem_cons_self)]
    rw [hc, mapM_mk_ok l (fun x hx => h x (List.mem_cons_of_mem _ hx))]
    rfl

/-- the cell a frame entry stands for (the body of `Spec.arrayExpected`) -/
def expCell (field : String) (md : Metadata) (res : Int) (fromEnd : Bool) (ps : Date) (lv : Int × Val) : Option Cell :=
  match lv.2 with
  | .none => none
  | v => some { kind := .cumulative, ps := ps, pe := periodEndOf ps res,
                ev := if fromEnd then monthEndAfter (periodEndOf ps res) lv.1 else monthEndAfter ps (lv.1 - 1),
                values := [(field, v)], md := md }

theorem arrayExpected_eq (field : String) (md : Metadata) (res : Int) (fromEnd : Bool) (lags : List Int)
    (rows : List (Date × List Val)) :
    arrayExpected field md res fromEnd lags rows =
      rows.flatMap fun r => (lags.zip r.2).filterMap (expCell field md res fromEnd r.1) := rfl

/-- a frame the reader reads as `arrayExpected`: first-of-month periods from 1970 on, strictly ascending;
`res ≥ 1`; column lags strictly ascending; with lags counted from the period start, no lag before
1970; the constructor's date rules hold for every expected cell -/
structure RegFrame (field : String) (md : Metadata) (res : Int) (fromEnd : Bool) (lags : List Int)
    (rows : List (Date × List Val)) : Prop where
  res1 : 1 ≤ res
  first : ∀ r ∈ rows, r.1.valid = true ∧ r.1.d = 1 ∧ 0 ≤ monthToId r.1
  asc : rows.Pairwise (fun a b => Date.cmp a.1 b.1 = .lt)
  lagsAsc : lags.Pairwise (· < ·)
  fromStart : fromEnd = false → ∀ r ∈ rows, ∀ l ∈ lags, 0 ≤ monthToId r.1 + l
  dates : ∀ c ∈ arrayExpected field md res fromEnd lags rows, c.datesOk = true

section full
variable {field : String} {md : Metadata} {res : Int} {fromEnd : Bool} {lags : List Int}
  {rows : List (Date × List Val)} (h : RegFrame field md res fromEnd lags rows)
include h

theorem periodEnd_row {r : Date × List Val} (hr : r ∈ rows) : (addMonths r.1 (res : Rat)).pred = periodEndOf r.1 res := by
  obtain ⟨hv, hd, h0⟩ := h.first r hr
  rw [periodEnd_of_first r.1 hv hd res (by have := h.res1; omega)]
  unfold periodEndOf
  rw [idToMonth_false]

theorem arrayCell_eq {evalRes : Option Int} {fe : Bool} (hfe : (fe || evalRes.isSome) = fromEnd)
    {r : Date × List Val} (hr : r ∈ rows) {lv : Int × Val} (hl : lv.1 ∈ lags) :
    arrayCell field md fe evalRes r.1 (periodEndOf r.1 res) lv = expCell field md res fromEnd r.1 lv := by
  unfold arrayCell expCell
  cases hv : lv.2 with
  | none => rfl
  | int i =>
    simp only [hfe]
    congr 2
    cases hf : fromEnd with
    | true =>
      simp only [if_true]
      unfold periodEndOf monthEndAfter
      rw [idToMonth_false, idToMonth_false, addMonths_monthEnd_all _ _ (monthEndOf_isMonthEnd _)]
    | false =>
      simp only [Bool.false_eq_true, if_false]
      obtain ⟨hvv, hd, _⟩ := h.first r hr
      have := periodEnd_of_first r.1 hvv hd lv.1 (h.fromStart hf r hr lv.1 hl)
      rw [this]
      unfold monthEndAfter
      rw [idToMonth_false]
      congr 1
      omega
  | flt q =>
    simp only [hfe]
    congr 2
    cases hf : fromEnd with
    | true =>
      simp only [if_true]
      unfold periodEndOf monthEndAfter
      rw [idToMonth_false, idToMonth_false, addMonths_monthEnd_all _ _ (monthEndOf_isMonthEnd _)]
    | false =>
      simp only [Bool.false_eq_true, if_false]
      obtain ⟨hvv, hd, _⟩ := h.first r hr
      have := periodEnd_of_first r.1 hvv hd lv.1 (h.fromStart hf r hr lv.1 hl)
      rw [this]
      unfold monthEndAfter
      rw [idToMonth_false]
      congr 1
      omega
  | arr a sh d =>
    simp only [hfe]
    congr 2
    cases hf : fromEnd with
    | true =>
      simp only [if_true]
      unfold periodEndOf monthEndAfter
      rw [idToMonth_false, idToMonth_false, addMonths_monthEnd_all _ _ (monthEndOf_isMonthEnd _)]
    | false =>
      simp only [Bool.false_eq_true, if_false]
      obtain ⟨hvv, hd, _⟩ := h.first r hr
      have := periodEnd_of_first r.1 hvv hd lv.1 (h.fromStart hf r hr lv.1 hl)
      rw [this]
      unfold monthEndAfter
      rw [idToMonth_false]
      congr 1
      omega

theorem rowCells_eq {evalRes : Option Int} {fe : Bool} (hfe : (fe || evalRes.isSome) = fromEnd)
    {r : Date × List Val} (hr : r ∈ rows) :
    arrayRowCells field md fe evalRes res lags r =
      .ok ((lags.zip r.2).filterMap (expCell field md res fromEnd r.1)) := by
  unfold arrayRowCells
  rw [periodEnd_row h hr]
  have hfm : (lags.zip r.2).filterMap (arrayCell field md fe evalRes r.1 (periodEndOf r.1 res)) =
      (lags.zip r.2).filterMap (expCell field md res fromEnd r.1) := by
    apply List.filterMap_congr
    intro lv hlv
    exact arrayCell_eq h hfe hr (List.of_mem_zip hlv).1
  rw [hfm]
  apply mapM_mk_ok
  intro c hc
  apply h.dates
  rw [arrayExpected_eq]
  exact List.mem_flatMap.mpr ⟨r, hr, hc⟩

omit h in
theorem expCell_props {r : Date × List Val} {lv : Int × Val} {c : Cell} (hc : expCell field md res fromEnd r.1 lv = some c) :
    c.kind = .cumulative ∧ c.prev = none ∧ c.md = md ∧ c.ps = r.1 ∧ c.pe = periodEndOf r.1 res ∧
    c.ev = (if fromEnd then monthEndAfter (periodEndOf r.1 res) lv.1 else monthEndAfter r.1 (lv.1 - 1)) := by
  unfold expCell at hc
  split at hc
  · cases hc
  · cases hc
    exact ⟨rfl, rfl, rfl, rfl, rfl, rfl⟩

omit h in
theorem ev_lt (ps : Date) {l1 l2 : Int} (hl : l1 < l2) :
    Date.cmp (if fromEnd then monthEndAfter (periodEndOf ps res) l1 else monthEndAfter ps (l1 - 1))
             (if fromEnd then monthEndAfter (periodEndOf ps res) l2 else monthEndAfter ps (l2 - 1)) = .lt := by
  cases fromEnd with
  | true =>
    simp only [if_true]
    unfold monthEndAfter
    rw [idToMonth_false, idToMonth_false]
    exact monthEndOf_lt (by omega)
  | false =>
    simp only [Bool.false_eq_true, if_false]
    unfold monthEndAfter
    rw [idToMonth_false, idToMonth_false]
    exact monthEndOf_lt (by omega)

/-- the expected cells are strictly sorted in row-major order -/
theorem expected_sorted :
    (arrayExpected field md res fromEnd lags rows).Pairwise (fun a b => Cell.cmp a b = .lt) := by
  rw [arrayExpected_eq, List.pairwise_flatMap]
  constructor
  · intro r _
    have hz : (lags.zip r.2).Pairwise (fun a b => a.1 < b.1) := by
      have := List.Pairwise.sublist (zip_fst_sublist lags r.2) h.lagsAsc
      exact List.pairwise_map.mp this
    refine List.Pairwise.filterMap _ ?_ hz
    intro a a' haa b hb b' hb'
    obtain ⟨_, b2, b3, b4, b5, b6⟩ := expCell_props (Option.mem_def.mp hb)
    obtain ⟨_, c2, c3, c4, c5, c6⟩ := expCell_props (Option.mem_def.mp hb')
    simp only [Cell.cmp, compareLex, cmpOn, b2, b3, b4, b5, b6, c2, c3, c4, c5, c6]
    rw [ReflCmp.compare_self (cmp := Metadata.cmp), ReflCmp.compare_self (cmp := Date.cmp),
      ReflCmp.compare_self (cmp := Date.cmp), ev_lt r.1 haa]
    rfl
  · refine h.asc.imp ?_
    intro r r' hrr x hx y hy
    obtain ⟨lv, _, hx⟩ := List.mem_filterMap.mp hx
    obtain ⟨lv', _, hy⟩ := List.mem_filterMap.mp hy
    obtain ⟨_, _, b3, b4, _, _⟩ := expCell_props hx
    obtain ⟨_, _, c3, c4, _, _⟩ := expCell_props hy
    simp only [Cell.cmp, compareLex, cmpOn, b3, b4, c3, c4]
    rw [ReflCmp.compare_self (cmp := Metadata.cmp), hrr]
    rfl

end full

/-- **array frame, all arguments** (`period_resolution` given). `er` is the evaluation resolution in force
(`effectiveEvalResolution`), the column lags are `columnLags fr.cols er`, lags count from the period end
unless `dev_lag_from_period_end=False` AND the lags are read from integer labels. -/
theorem fromArrayFrameFull_spec {cols : List String} {rows : List (Date × List Val)} {field : String}
    {md : Metadata} {res : Int} {evalRes : Option Int} {fe : Bool}
    (h : RegFrame field md res (fe || (effectiveEvalResolution cols res evalRes).isSome)
          (columnLags cols (effectiveEvalResolution cols res evalRes)) rows) :
    fromArrayFrameFull { cols := cols, rows := rows.map fun r => (PeriodEntry.date r.1, r.2) } field (some res)
        evalRes fe md =
      .ok (arrayExpected field md res (fe || (effectiveEvalResolution cols res evalRes).isSome)
            (columnLags cols (effectiveEvalResolution cols res evalRes)) rows) := by
  unfold fromArrayFrameFull
  have hparse : (rows.map fun r => (PeriodEntry.date r.1, r.2)).mapM
      (fun (r : PeriodEntry × List Val) => r.1.parse) = .ok (rows.map (·.1)) := by
    rw [mapM_ok_of_forall _ (fun r : PeriodEntry × List Val => match r.1 with | .date d => d | .text _ => Date.min)]
    · rw [List.map_map]; rfl
    · intro r hr
      obtain ⟨p, _, rfl⟩ := List.mem_map.mp hr
      rfl
  simp only [hparse, Except.bind, arrayResolution]
  have hent : (rows.map fun r => (PeriodEntry.date r.1, r.2)).map (fun (r : PeriodEntry × List Val) => r.2) =
      rows.map (·.2) := by
    rw [List.map_map]; rfl
  rw [hent, zip_fst_snd,
    mapM_ok_of_forall _ (fun r : Date × List Val => (List.zip (columnLags cols (effectiveEvalResolution cols res evalRes)) r.2).filterMap
      (expCell field md res (fe || (effectiveEvalResolution cols res evalRes).isSome) r.1)) rows
      (fun r hr => rowCells_eq h rfl hr)]
  simp only
  have hflat : (rows.map fun r => (List.zip (columnLags cols (effectiveEvalResolution cols res evalRes)) r.2).filterMap
      (expCell field md res (fe || (effectiveEvalResolution cols res evalRes).isSome) r.1)).flatten =
      arrayExpected field md res (fe || (effectiveEvalResolution cols res evalRes).isSome)
        (columnLags cols (effectiveEvalResolution cols res evalRes)) rows := by
    rw [arrayExpected_eq, List.flatMap_def]
  rw [hflat]
  unfold Triangle.ofCells
  have hkc : kindsConsistent (arrayExpected field md res (fe || (effectiveEvalResolution cols res evalRes).isSome)
      (columnLags cols (effectiveEvalResolution cols res evalRes)) rows) = true := by
    unfold kindsConsistent
    have : (arrayExpected field md res (fe || (effectiveEvalResolution cols res evalRes).isSome)
        (columnLags cols (effectiveEvalResolution cols res evalRes)) rows).all (·.kind == .cumulative) = true := by
      rw [List.all_eq_true]
      intro x hx
      rw [arrayExpected_eq] at hx
      obtain ⟨r, _, hx⟩ := List.mem_flatMap.mp hx
      obtain ⟨lv, _, hx⟩ := List.mem_filterMap.mp hx
      rw [(expCell_props hx).1]
      rfl
    simp [this]
  rw [if_pos hkc]
  congr 1
  apply List.mergeSort_of_pairwise
  refine (expected_sorted h).imp ?_
  intro a b hlt
  unfold Cell.le; rw [hlt]; rfl

/-- … and with `period_resolution` INFERRED — `int(round(calculate_dev_lag(p₀, p₁)))` of the first two
period starts (fix D19) — when these are `res` months apart -/
theorem fromArrayFrameFull_spec_inferred {cols : List String} {rows : List (Date × List Val)} {field : String}
    {md : Metadata} {res : Int} {evalRes : Option Int} {fe : Bool}
    (h : RegFrame field md res (fe || (effectiveEvalResolution cols res evalRes).isSome)
          (columnLags cols (effectiveEvalResolution cols res evalRes)) rows)
    (hp : ∃ r0 r1 rest, rows = r0 :: r1 :: rest ∧ monthToId r1.1 = monthToId r0.1 + res) :
    fromArrayFrameFull { cols := cols, rows := rows.map fun r => (PeriodEntry.date r.1, r.2) } field none
        evalRes fe md =
      .ok (arrayExpected field md res (fe || (effectiveEvalResolution cols res evalRes).isSome)
            (columnLags cols (effectiveEvalResolution cols res evalRes)) rows) := by
  rw [← fromArrayFrameFull_spec h]
  obtain ⟨r0, r1, rest, hrows, hres⟩ := hp
  unfold fromArrayFrameFull
  have hparse : (rows.map fun r => (PeriodEntry.date r.1, r.2)).mapM
      (fun (r : PeriodEntry × List Val) => r.1.parse) = .ok (rows.map (·.1)) := by
    rw [mapM_ok_of_forall _ (fun r : PeriodEntry × List Val => match r.1 with | .date d => d | .text _ => Date.min)]
    · rw [List.map_map]; rfl
    · intro r hr
      obtain ⟨p, _, rfl⟩ := List.mem_map.mp hr
      rfl
  simp only [hparse, Except.bind]
  have hr : arrayResolution (rows.map (·.1)) none = .ok res := by
    rw [hrows]
    simp only [List.map_cons, arrayResolution]
    have h0 := (h.first r0 (by rw [hrows]; simp)).2.1
    have h1 := (h.first r1 (by rw [hrows]; simp)).2.1
    rw [round_devLag_firsts r0.1 r1.1 h0 h1]
    congr 1; omega
  rw [hr]
  rfl

theorem nonDecreasing_of_sorted {l : List Cell} (hs : l.Pairwise (fun a b => Cell.cmp a b = .lt)) :
    nonDecreasing l = true := by
  unfold nonDecreasing
  rw [List.all_eq_true]
  intro p hp
  obtain ⟨i, hi, rfl⟩ := List.getElem_of_mem hp
  simp only [List.length_zip, List.length_tail] at hi
  rw [List.getElem_zip]
  simp only [List.getElem_tail]
  have := List.pairwise_iff_getElem.mp hs i (i + 1) (by omega) (by omega) (by omega)
  rw [this]
  rfl

/-- the Bool Spec clause the driver evaluates holds on the model's output -/
theorem arrayFullSpec_on_model {field : String} {md : Metadata} {res : Int} {fromEnd : Bool} {lags : List Int}
    {rows : List (Date × List Val)} (h : RegFrame field md res fromEnd lags rows) :
    arrayFullSpec field md res fromEnd lags rows (arrayExpected field md res fromEnd lags rows) = true := by
  unfold arrayFullSpec sameCellSet
  simp only [beq_self_eq_true, nonDecreasing_of_sorted (expected_sorted h), Bool.true_and]
  rw [List.all_eq_true]
  intro x hx
  simpa using hx

/-- the statics Spec clause holds on the model's output -/
theorem staticsSpec_on_model {rows : List (Date × Dict Val)} {res : Int} {ev : Date} {md : Metadata}
    (h : StaticsFrame rows res ev md) :
    staticsSpec rows res ev md (rows.map (staticsExpected md res ev)) = true := by
  unfold staticsSpec
  have hs : (rows.map (staticsExpected md res ev)).Pairwise (fun a b => Cell.cmp a b = .lt) := by
    rw [List.pairwise_map]
    refine h.asc.imp ?_
    intro a b hab
    simp only [Cell.cmp, compareLex, cmpOn, staticsExpected]
    rw [ReflCmp.compare_self (cmp := Metadata.cmp), hab]
    rfl
  simp only [List.length_map, beq_self_eq_true, nonDecreasing_of_sorted hs, Bool.true_and]
  rw [List.all_eq_true]
  intro p hp
  have : staticsExpected md res ev p ∈ rows.map (staticsExpected md res ev) := List.mem_map_of_mem hp
  simpa [staticsExpected] using this

/-! ### `array_triangle_builder` -/

/-- the builder is the left fold of `merge` (full join, right operand's values win) over the triangles of
the single frames -/
theorem arrayTriangleBuilder_two (f1 f2 : ArrayFrame) (n1 n2 : String) (pr er : Option Int) (fe : Bool) (md : Metadata) :
    arrayTriangleBuilder [f1, f2] [n1, n2] pr er fe md =
      (fromArrayFrameFull f1 n1 pr er fe md).bind fun t1 =>
      (fromArrayFrameFull f2 n2 pr er fe md).bind fun t2 => merge (some .full) none t1 t2 := by
  unfold arrayTriangleBuilder
  simp only [List.length_cons, List.length_nil, bne_self_eq_false, Bool.false_eq_true, if_false, List.zip_cons_cons,
    List.zip_nil_right, List.foldlM_cons, List.foldlM_nil]
  cases fromArrayFrameFull f1 n1 pr er fe md with
  | error e => rfl
  | ok t1 =>
    simp only [Except.bind]
    cases fromArrayFrameFull f2 n2 pr er fe md with
    | error e => rfl
    | ok t2 =>
      simp only [bind, Except.bind]
      cases merge (some JoinType.full) none t1 t2 <;> rfl

theorem arrayTriangleBuilder_one (f1 : ArrayFrame) (n1 : String) (pr er : Option Int) (fe : Bool) (md : Metadata) :
    arrayTriangleBuilder [f1] [n1] pr er fe md = fromArrayFrameFull f1 n1 pr er fe md := by
  unfold arrayTriangleBuilder
  simp only [List.length_cons, List.length_nil, bne_self_eq_false, Bool.false_eq_true, if_false, List.zip_cons_cons,
    List.zip_nil_right, List.foldlM_nil]
  cases fromArrayFrameFull f1 n1 pr er fe md <;> rfl

theorem arrayTriangleBuilder_mismatch (fs : List ArrayFrame) (ns : List String) (pr er : Option Int) (fe : Bool)
    (md : Metadata) (h : fs.length ≠ ns.length) : arrayTriangleBuilder fs ns pr er fe md = .error .valueError := by
  unfold arrayTriangleBuilder
  have : (fs.length != ns.length) = true := by simpa using h
  rw [if_pos this]

end Bermuda.Frame
