/-
C14: the wide reader does not depend on the ORDER of `field_cols` (only the order of the values inside each
cell changes, which the property does not constrain), hence the round trip for `field_cols=None`, where the
reader takes the non-core, non-detail columns of the table in whatever order they come.
-/
import Bermuda.Lemmas.FrameInfer
namespace Bermuda.Frame
open Bermuda Bermuda.Spec.C14 Std

theorem mapM_cons_ok' {α β ε : Type} {f : α → Except ε β} {a : α} {l : List α} {vs : List β}
    (h : (a :: l).mapM f = .ok vs) : ∃ v vs', f a = .ok v ∧ l.mapM f = .ok vs' ∧ vs = v :: vs' := by
  rw [List.mapM_cons] at h
  cases hf : f a with
  | error e => rw [hf] at h; cases h
  | ok v =>
    cases hl : l.mapM f with
    | error e => rw [hf, hl] at h; cases h
    | ok vs' =>
      rw [hf, hl] at h
      cases h
      exact ⟨v, vs', rfl, rfl, rfl⟩

theorem mapM_cons_mk {α β ε : Type} {f : α → Except ε β} {a : α} {l : List α} {v : β} {vs : List β}
    (h1 : f a = .ok v) (h2 : l.mapM f = .ok vs) : (a :: l).mapM f = .ok (v :: vs) := by
  rw [List.mapM_cons, h1, h2]; rfl

/-- `mapM` over a permuted list succeeds with the permuted results -/
theorem mapM_perm {α β ε : Type} {f : α → Except ε β} {l₁ l₂ : List α} (hp : l₁.Perm l₂) :
    ∀ vs, l₁.mapM f = .ok vs → ∃ vs', l₂.mapM f = .ok vs' ∧ vs'.Perm vs := by
  induction hp with
  | nil => intro vs h; exact ⟨vs, h, List.Perm.refl _⟩
  | cons x _ ih =>
    intro vs h
    obtain ⟨v, vs0, h1, h2, rfl⟩ := mapM_cons_ok' h
    obtain ⟨vs', h3, h4⟩ := ih vs0 h2
    exact ⟨v :: vs', mapM_cons_mk h1 h3, h4.cons v⟩
  | swap x y l =>
    intro vs h
    obtain ⟨vy, vs0, h1, h2, rfl⟩ := mapM_cons_ok' h
    obtain ⟨vx, vs1, h3, h4, rfl⟩ := mapM_cons_ok' h2
    exact ⟨vx :: vy :: vs1, mapM_cons_mk h3 (mapM_cons_mk h1 h4), List.Perm.swap vy vx vs1⟩
  | trans _ _ ih1 ih2 =>
    intro vs h
    obtain ⟨vs1, h1, p1⟩ := ih1 vs h
    obtain ⟨vs2, h2, p2⟩ := ih2 vs1 h1
    exact ⟨vs2, h2, p2.trans p1⟩

/-- the same cell up to the order of its values -/
def SameUpTo (c c' : Cell) : Prop :=
  c'.kind = c.kind ∧ c'.ps = c.ps ∧ c'.pe = c.pe ∧ c'.ev = c.ev ∧ c'.prev = c.prev ∧ c'.md = c.md ∧
    c'.values.Perm c.values

theorem mapM_pairs {α : Type} {f f' : α → Except Err Cell} :
    ∀ (l : List α) (cs : List Cell), l.mapM f = .ok cs →
      (∀ g ∈ l, ∀ c, f g = .ok c → ∃ c', f' g = .ok c' ∧ SameUpTo c c') →
      ∃ ps : List (Cell × Cell), ps.map Prod.fst = cs ∧ l.mapM f' = .ok (ps.map Prod.snd) ∧
        ∀ p ∈ ps, SameUpTo p.1 p.2
  | [], cs, h, _ => by
    cases h
    exact ⟨[], rfl, rfl, by simp⟩
  | a :: l, cs, h, hf => by
    obtain ⟨c, cs0, h1, h2, rfl⟩ := mapM_cons_ok' h
    obtain ⟨c', h3, h4⟩ := hf a List.mem_cons_self c h1
    obtain ⟨ps, e1, e2, e3⟩ := mapM_pairs l cs0 h2 (fun g hg => hf g (List.mem_cons_of_mem _ hg))
    refine ⟨(c, c') :: ps, by simp [e1], ?_, ?_⟩
    · exact mapM_cons_mk h3 e2
    · intro p hp
      rcases List.mem_cons.mp hp with rfl | hp
      · exact h4
      · exact e3 p hp

theorem cmp_sameUpTo {a a' b b' : Cell} (ha : SameUpTo a a') (hb : SameUpTo b b') :
    Cell.cmp a' b' = Cell.cmp a b := by
  obtain ⟨_, a2, a3, a4, a5, a6, _⟩ := ha
  obtain ⟨_, b2, b3, b4, b5, b6, _⟩ := hb
  simp only [Cell.cmp, compareLex, cmpOn, a2, a3, a4, a5, a6, b2, b3, b4, b5, b6]

/-- sorting both components of a list of such pairs by the same key -/
theorem ofCells_pairs {ps : List (Cell × Cell)} (hR : ∀ p ∈ ps, SameUpTo p.1 p.2) {out : List Cell}
    (h : Triangle.ofCells (ps.map Prod.fst) = .ok out) :
    ∃ qs : List (Cell × Cell), qs.map Prod.fst = out ∧ Triangle.ofCells (ps.map Prod.snd) = .ok (qs.map Prod.snd) ∧
      ∀ p ∈ qs, SameUpTo p.1 p.2 := by
  unfold Triangle.ofCells at h ⊢
  have hk : kindsConsistent (ps.map Prod.snd) = kindsConsistent (ps.map Prod.fst) := by
    unfold kindsConsistent
    simp only [List.all_map]
    have : ∀ k : CellKind, (ps.all ((fun c : Cell => c.kind == k) ∘ Prod.snd)) = (ps.all ((fun c : Cell => c.kind == k) ∘ Prod.fst)) := by
      intro k
      rw [Bool.eq_iff_iff, List.all_eq_true, List.all_eq_true]
      constructor
      · intro H p hp
        have := H p hp
        simpa [Function.comp, (hR p hp).1] using this
      · intro H p hp
        have := H p hp
        simpa [Function.comp, (hR p hp).1] using this
    rw [this, this, this]
  rw [hk]
  split at h
  · rename_i hkc
    cases h
    rw [if_pos hkc]
    refine ⟨ps.mergeSort (fun p q => Cell.le p.1 q.1), ?_, ?_, ?_⟩
    · exact List.map_mergeSort (fun _ _ _ _ => rfl)
    · congr 1
      symm
      apply List.map_mergeSort
      intro a ha b hb
      unfold Cell.le
      rw [cmp_sameUpTo (hR a ha) (hR b hb)]
    · intro p hp
      exact hR p ((List.mergeSort_perm _ _).mem_iff.mp hp)
  · cases h

/-- one group of rows read with permuted field columns -/
theorem wideGroupToCell_perm {cols F F' D L : List String} (hp : F'.Perm F) (g : List MVal × List Row) {c : Cell}
    (h : wideGroupToCell cols F D L g = .ok c) :
    ∃ c', wideGroupToCell cols F' D L g = .ok c' ∧ SameUpTo c c' := by
  unfold wideGroupToCell wideGroupCell at h ⊢
  cases hs : sortGroup cols g.2 with
  | error e => simp [hs, Except.bind] at h
  | ok g' =>
    simp only [hs, Except.bind] at h ⊢
    cases g' with
    | nil => simp at h
    | cons r rest =>
      simp only at h ⊢
      cases hm : F.mapM (groupFieldVal (r :: rest)) with
      | error e => simp [hm] at h
      | ok vals =>
        obtain ⟨vals', hm', hperm⟩ := mapM_perm hp.symm vals hm
        simp only [hm, hm'] at h ⊢
        cases h1 : mvalDate? (Row.col r "period_start") with
        | error e => simp [h1] at h
        | ok ps =>
          cases h2 : mvalDate? (Row.col r "period_end") with
          | error e => simp [h1, h2] at h
          | ok pe =>
            cases h3 : mvalDate? (Row.col r "evaluation_date") with
            | error e => simp [h1, h2, h3] at h
            | ok ev =>
              simp only [h1, h2, h3] at h ⊢
              unfold Cell.mk? at h ⊢
              split at h
              · rename_i hd
                cases h
                have hd' : Cell.datesOk (⟨.cumulative, ps, pe, ev, none, vals'.filterMap id, rowMetadata r D L⟩ : Cell) = true := hd
                rw [if_pos hd']
                exact ⟨_, rfl, rfl, rfl, rfl, rfl, rfl, rfl, hperm.filterMap _⟩
              · cases h

theorem fromWideCum_perm {tb : Table} {F F' D L : List String} (hp : F'.Perm F) {out : List Cell}
    (h : fromWideCum tb F D L = .ok out) :
    ∃ qs : List (Cell × Cell), qs.map Prod.fst = out ∧ fromWideCum tb F' D L = .ok (qs.map Prod.snd) ∧
      ∀ p ∈ qs, SameUpTo p.1 p.2 := by
  unfold fromWideCum at h ⊢
  cases hm : (groupBy (wideKey tb.cols D L) tb.rows).mapM (wideGroupToCell tb.cols F D L) with
  | error e => simp [hm, Except.bind] at h
  | ok cs =>
    simp only [hm, Except.bind] at h
    obtain ⟨ps, e1, e2, e3⟩ := mapM_pairs (f' := wideGroupToCell tb.cols F' D L) _ cs hm
      (fun g _ c hc => wideGroupToCell_perm hp g hc)
    rw [← e1] at h
    obtain ⟨qs, q1, q2, q3⟩ := ofCells_pairs e3 h
    refine ⟨qs, q1, ?_, q3⟩
    rw [e2]
    exact q2

theorem canonCell_sameUpTo {c c' : Cell} (h : SameUpTo c c') (hnd : (c.values.map (·.1)).Nodup) :
    canonCell c' = canonCell c := by
  obtain ⟨h1, h2, h3, h4, h5, h6, h7⟩ := h
  unfold canonCell
  rw [h1, h2, h3, h4, h5, h6]
  congr 1
  have hperm : (c'.values.map fun kv => (kv.1, numV kv.2)).Perm (c.values.map fun kv => (kv.1, numV kv.2)) := h7.map _
  apply mergeSort_perm_invariant (cmp := cmpOn (fun p : String × NumV => p.1) compare) hperm
  intro a b ha hb hab
  have hab' : a.1 = b.1 := by
    simp only [cmpOn] at hab
    exact Std.compare_eq_iff_eq.mp hab
  have hnd' : ((c'.values.map fun kv => (kv.1, numV kv.2)).map (·.1)).Nodup := by
    rw [List.map_map]
    have : (c'.values.map ((fun p : String × NumV => p.1) ∘ fun kv => (kv.1, numV kv.2))) = c'.values.map (·.1) := rfl
    rw [this]
    exact (h7.map _).nodup_iff.mpr hnd
  exact (List.inj_on_of_nodup_map hnd') ha hb hab'

theorem keys_nodup_of_canon {c ct : Cell} (h : canonCell c = canonCell ct) (hnd : (ct.values.map (·.1)).Nodup) :
    (c.values.map (·.1)).Nodup := by
  have hv := congrArg CanonCell.values h
  unfold canonCell at hv
  simp only at hv
  have p1 := List.mergeSort_perm (c.values.map fun kv => (kv.1, numV kv.2)) (fun a b => compare a.1 b.1 != .gt)
  have p2 := List.mergeSort_perm (ct.values.map fun kv => (kv.1, numV kv.2)) (fun a b => compare a.1 b.1 != .gt)
  rw [hv] at p1
  have p3 := (p1.symm.trans p2).map (fun p : String × NumV => p.1)
  rw [List.map_map, List.map_map] at p3
  exact p3.nodup_iff.mpr hnd

/-- **the wide reader does not depend on the order of `field_cols`** -/
theorem fromWide_toWide_fieldsPerm {t : List Cell} {D L F' : List String} (h : WFwide t D L)
    (hp : F'.Perm (allFields t)) :
    okAnd (fun out => wideSpec t out && slicesSpec false t out)
      ((toWideRows t).bind fun tb => fromWideRows tb F' D L) = true := by
  obtain ⟨E, hE, hw, _⟩ := toWideRows_ok h
  have hmain := fromWide_toWide h
  rw [hw] at hmain ⊢
  simp only [Except.bind] at hmain ⊢
  unfold fromWideRows at hmain ⊢
  cases hprev : (mkTable (t.map (wblock t E)).flatten).cols.contains "prev_evaluation_date" with
  | true =>
    exfalso
    obtain ⟨r, hr, hk⟩ := mem_colsOf.mp (List.contains_iff_mem.mp hprev)
    obtain ⟨b, hb, hrb⟩ := List.mem_flatten.mp hr
    obtain ⟨c, hc', rfl⟩ := List.mem_map.mp hb
    obtain ⟨i, _, rfl⟩ := List.mem_map.mp hrb
    have := get?_row_coord h hc' hE i (k := "prev_evaluation_date") (by simp)
    have hnone : Dict.get? (cumBase c) "prev_evaluation_date" = none := by simp [cumBase, Dict.get?]
    rw [hnone] at this
    exact (Dict.get?_eq_none_iff.mp this) hk
  | false =>
    simp only [hprev, Bool.false_eq_true, if_false] at hmain ⊢
    cases hout : fromWideCum (mkTable (t.map (wblock t E)).flatten) (allFields t) D L with
    | error e => simp [hout, okAnd] at hmain
    | ok out =>
      simp only [hout, okAnd, Bool.and_eq_true] at hmain
      obtain ⟨hw1, hs1⟩ := hmain
      obtain ⟨qs, q1, q2, q3⟩ := fromWideCum_perm hp hout
      rw [q2]
      simp only [okAnd, Bool.and_eq_true]
      unfold wideSpec sameNumeric at hw1 ⊢
      rw [beq_iff_eq] at hw1 ⊢
      rw [← q1] at hw1 hs1
      have hcanon : (qs.map Prod.snd).map canonCell = (qs.map Prod.fst).map canonCell := by
        rw [List.map_map, List.map_map]
        apply List.map_congr_left
        intro p hpq
        simp only [Function.comp]
        apply canonCell_sameUpTo (q3 p hpq)
        -- the keys of `p.1` are those of the corresponding cell of `t`
        obtain ⟨i, hi, rfl⟩ := List.getElem_of_mem hpq
        have hlen : (qs.map Prod.fst).length = t.length := by
          have := congrArg List.length hw1
          simpa using this
        have hit : i < t.length := by rw [← hlen]; simpa using hi
        have hci : canonCell qs[i].1 = canonCell t[i] := by
          have := congrArg (fun l => l[i]?) hw1
          simp only [List.getElem?_map] at this
          rw [List.getElem?_eq_getElem (by simpa using hi), List.getElem?_eq_getElem hit] at this
          simpa using this
        exact keys_nodup_of_canon hci (h.cells _ (List.getElem_mem hit)).nodup
      refine ⟨by rw [hcanon]; exact hw1, ?_⟩
      have hmd : (qs.map Prod.snd).map (·.md) = (qs.map Prod.fst).map (·.md) := by
        rw [List.map_map, List.map_map]
        apply List.map_congr_left
        intro p hpq
        exact (q3 p hpq).2.2.2.2.2.1
      unfold slicesSpec at hs1 ⊢
      simp only [Bool.false_eq_true, if_false] at hs1 ⊢
      rw [hmd]
      exact hs1

/-- the field columns the reader infers from the written table (`field_cols=None`): the triangle's fields -/
theorem inferFields_written {t : List Cell} {D L : List String} (h : WFwide t D L) {E : Row → Row} (hE : KeepsOthers E) :
    (inferCols (mkTable (t.map (wblock t E)).flatten).cols D).Perm (allFields t) := by
  have hnd : (inferCols (mkTable (t.map (wblock t E)).flatten).cols D).Nodup := by
    unfold inferCols mkTable
    exact (colsOf_nodup _).sublist List.filter_sublist
  rw [List.perm_ext_iff_of_nodup hnd (allFields_nodup t)]
  intro k
  unfold inferCols mkTable
  simp only [List.mem_filter, Bool.and_eq_true, Bool.not_eq_true', List.contains_eq_mem, decide_eq_false_iff_not]
  rw [mem_colsOf]
  constructor
  · rintro ⟨⟨r, hr, hk⟩, hcore, hD⟩
    obtain ⟨b, hb, hrb⟩ := List.mem_flatten.mp hr
    obtain ⟨c, hc, rfl⟩ := List.mem_map.mp hb
    obtain ⟨i, _, rfl⟩ := List.mem_map.mp hrb
    have hks : k ≠ "scenario" := by intro he; subst he; exact hcore (by decide)
    have hk' : k ∈ Dict.keys (wideRow c (allMetadataNames t) (i, fieldDictPure c (allFields t) i)) := by
      rw [mem_keys_iff_get?] at hk ⊢
      rwa [hE _ k hks] at hk
    apply Classical.byContradiction
    intro hF
    have hN := (mem_keys_wideRow (h.rowCtx hc i) i hcore hF).mp hk'
    rcases (h.rowCtx hc i).nsub k hN with h6 | hd
    · exact hcore (six_sub_coreSet k h6)
    · exact hD hd
  · intro hf
    have hcore : k ∉ coreSet := fun hc => h.names.fcore k hf (coreSet_sub k hc)
    have hD : k ∉ D := fun hd => (h.names.dcore k hd).2 hf
    refine ⟨?_, hcore, hD⟩
    obtain ⟨c, hc, hkc⟩ := mem_allFields.mp hf
    have hpos := (h.cells c hc).pos
    have hr : E (wideRow c (allMetadataNames t) (0, fieldDictPure c (allFields t) 0)) ∈ (t.map (wblock t E)).flatten := by
      refine List.mem_flatten.mpr ⟨_, List.mem_map_of_mem hc, ?_⟩
      unfold wblock
      exact List.mem_map.mpr ⟨0, List.mem_range.mpr (by omega), rfl⟩
    refine ⟨_, hr, ?_⟩
    have hks : k ≠ "scenario" := by intro he; subst he; exact hcore (by decide)
    rw [mem_keys_iff_get?, hE _ k hks, ← mem_keys_iff_get?]
    unfold wideRow
    rw [Dict.mem_keys_union, Dict.mem_keys_union, keys_numMap]
    left; right
    rw [mem_keys_iff_get?, get?_fieldDictPure c (allFields_nodup t) 0 hf]
    obtain ⟨v, hv⟩ : ∃ v, Dict.get? c.values k = some v := by
      cases hg : Dict.get? c.values k with
      | none => exact absurd hkc (Dict.get?_eq_none_iff.mp hg)
      | some v => exact ⟨v, rfl⟩
    obtain ⟨data, hd, hl⟩ := (h.cells c hc).vals (k, v) (get?_mem hv)
    have h0 : 0 < data.length := by omega
    simp [hv, hd, List.getElem?_eq_getElem h0]

/-- **fromWide_toWide, `field_cols=None`** (`detail_cols=D` given): the reader takes the non-core, non-detail
columns of the table as fields, in column order -/
theorem fromWide_toWide_fieldsInferred {t : List Cell} {D L : List String} (h : WFwide t D L) :
    okAnd (fun out => wideSpec t out && slicesSpec false t out)
      ((toWideRows t).bind fun tb => fromWideRowsInfer tb none (some D) L) = true := by
  obtain ⟨E, hE, hw, _⟩ := toWideRows_ok h
  have hmain := fromWide_toWide_fieldsPerm h (inferFields_written h hE)
  rw [hw] at hmain ⊢
  simp only [Except.bind] at hmain ⊢
  unfold fromWideRowsInfer
  simp only
  have hall : (L.all D.contains) = true := by
    rw [List.all_eq_true]
    intro k hk
    simpa using h.names.lsub k hk
  rw [hall]
  exact hmain

end Bermuda.Frame
