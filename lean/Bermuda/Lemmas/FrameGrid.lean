/-
C14: the positional facts about a triangle on the grid of a `MatrixIndex`, stated for `PosGrid` — the
part of `OnGrid` (Lemmas/FrameMatrix.lean) that does not speak about cell classes, previous evaluation
dates, values or the index fields — so that they serve the rich matrix (any values, field subsets,
incremental cells) as well. The proofs are those of Lemmas/FrameMatrix.lean.
-/
import Bermuda.Lemmas.FrameMatrix
namespace Bermuda.Frame
open Bermuda Bermuda.Spec.C14 Std

structure PosCell (c : Cell) (ix : MatrixIndex) : Prop where
  dates : c.datesOk = true
  canon : c.md.Canon
  psv : c.ps.valid = true
  ps1 : c.ps.d = 1
  pev : c.pe.valid = true
  pee : c.pe.isMonthEnd = true
  evv : c.ev.valid = true
  eve : c.ev.isMonthEnd = true
  j : ∃ j : Nat, monthToId c.ps = ix.expOrigin + (j : Int) * ix.expResolution
  pe : monthToId c.pe = monthToId c.ps + ix.expResolution - 1
  k : ∃ k : Nat, lagOf c = ix.devOrigin + (k : Int) * devSpacing ix

/-- a month-aligned triangle whose periods and development lags lie on the grid of `ix`; cells with
the same period and evaluation date have the same previous evaluation date -/
structure PosGrid (t : List Cell) (ix : MatrixIndex) : Prop where
  ne : t ≠ []
  sorted : t.Pairwise (fun a b => Cell.cmp a b = .lt)
  slices : ix.slices = Triangle.metadata t
  e1 : 1 ≤ ix.expResolution
  s1 : 1 ≤ devSpacing ix
  cell : ∀ c ∈ t, PosCell c ix
  prevEq : ∀ a ∈ t, ∀ b ∈ t, a.ps = b.ps → a.pe = b.pe → a.ev = b.ev → a.prev = b.prev

theorem OnGrid.pos {t : List Cell} {ix : MatrixIndex} (h : OnGrid t ix) : PosGrid t ix where
  ne := h.ne
  sorted := h.sorted
  slices := h.slices
  e1 := h.e1
  s1 := h.s1
  cell := fun c hc =>
    let g := h.cell c hc
    { dates := g.dates, canon := g.canon, psv := g.psv, ps1 := g.ps1, pev := g.pev, pee := g.pee,
      evv := g.evv, eve := g.eve, j := g.j, pe := g.pe, k := g.k }
  prevEq := fun a ha b hb _ _ _ => by rw [(h.cell a ha).prev, (h.cell b hb).prev]

section pgrid
variable {t : List Cell} {ix : MatrixIndex} (h : PosGrid t ix)
include h

theorem pos_grid_j {c : Cell} (hc : c ∈ t) : monthToId c.ps = ix.expOrigin + (jOf ix c : Int) * ix.expResolution := by
  obtain ⟨j, hj⟩ := (h.cell c hc).j
  have he : ix.expResolution ≠ 0 := by have := h.e1; omega
  have : (monthToId c.ps - ix.expOrigin) / ix.expResolution = j := by
    rw [hj, show ix.expOrigin + (j : Int) * ix.expResolution - ix.expOrigin = (j : Int) * ix.expResolution by omega,
      Int.mul_ediv_cancel _ he]
  unfold jOf
  rw [this, hj]
  simp

theorem pos_grid_k {c : Cell} (hc : c ∈ t) : lagOf c = ix.devOrigin + (kOf ix c : Int) * devSpacing ix := by
  obtain ⟨k, hk⟩ := (h.cell c hc).k
  have hs : devSpacing ix ≠ 0 := by have := h.s1; omega
  have : (lagOf c - ix.devOrigin) / devSpacing ix = k := by
    rw [hk, show ix.devOrigin + (k : Int) * devSpacing ix - ix.devOrigin = (k : Int) * devSpacing ix by omega,
      Int.mul_ediv_cancel _ hs]
  unfold kOf
  rw [this, hk]
  simp

theorem pos_expNdx_cell {c : Cell} (hc : c ∈ t) : ix.expNdx c.ps = .ok (jOf ix c) := by
  have he : ix.expResolution ≠ 0 := by have := h.e1; omega
  unfold MatrixIndex.expNdx
  have hn : (monthToId c.ps - ix.expOrigin) / ix.expResolution = (jOf ix c : Int) := by
    rw [pos_grid_j h hc, show ix.expOrigin + (jOf ix c : Int) * ix.expResolution - ix.expOrigin =
      (jOf ix c : Int) * ix.expResolution by omega, Int.mul_ediv_cancel _ he]
  simp only [hn]
  have : ¬ ((jOf ix c : Int) < 0) := by omega
  rw [if_neg this]
  simp

theorem pos_devLag_cell {c : Cell} (hc : c ∈ t) : c.devLag .month = ((lagOf c : Int) : Rat) := by
  unfold Cell.devLag calculateDevLag
  simp only
  rw [devLag_monthEnds (h.cell c hc).pee (h.cell c hc).eve]
  rfl

theorem pos_devNdx_lag {c : Cell} (hc : c ∈ t) : ix.devNdx ((lagOf c : Int) : Rat) = .ok (kOf ix c) := by
  have hs : (devSpacing ix : Rat) ≠ 0 := by
    have := h.s1
    have : devSpacing ix ≠ 0 := by omega
    exact_mod_cast this
  unfold MatrixIndex.devNdx
  have hmin : (min ix.devResolution ix.expResolution : Int) = devSpacing ix := by
    unfold devSpacing; exact min_comm _ _
  have hq : (((lagOf c : Int) : Rat) - (ix.devOrigin : Rat)) / ((min ix.devResolution ix.expResolution : Int) : Rat) =
      ((kOf ix c : Int) : Rat) := by
    rw [hmin, pos_grid_k h hc]
    push_cast
    field_simp
    ring
  simp only [hq, truncInt_intCast]
  have : ¬ ((kOf ix c : Int) < 0) := by omega
  rw [if_neg this]
  simp

end pgrid

section pgrid2
variable {t : List Cell} {ix : MatrixIndex} (h : PosGrid t ix)
include h

theorem pos_md_mem_slices {c : Cell} (hc : c ∈ t) : c.md ∈ ix.slices := by
  rw [h.slices]
  unfold Triangle.metadata
  exact (List.mergeSort_perm _ _).mem_iff.mpr (Units.mem_metasOf.mpr ⟨c, hc, rfl⟩)

/-- cells of the triangle at the same (slice, period, development) position coincide -/
theorem pos_position_inj {a b : Cell} (ha : a ∈ t) (hb : b ∈ t) (hs : siOf ix a = siOf ix b)
    (hj : jOf ix a = jOf ix b) (hk : kOf ix a = kOf ix b) : a = b := by
  have ga := h.cell a ha
  have gb := h.cell b hb
  have hmd : a.md = b.md := findIdx_inj (pos_md_mem_slices h ha) (pos_md_mem_slices h hb) hs
  have hpsid : monthToId a.ps = monthToId b.ps := by rw [pos_grid_j h ha, pos_grid_j h hb, hj]
  have firstEq : ∀ d : Date, d.valid = true → d.d = 1 → d = ⟨yearOf (monthToId d), monthOf (monthToId d), 1⟩ := by
    intro d hv hd
    rw [yearOf_monthToId hv, monthOf_monthToId hv, ← hd]
  have hps : a.ps = b.ps := by
    rw [firstEq a.ps ga.psv ga.ps1, firstEq b.ps gb.psv gb.ps1, hpsid]
  have hpeid : monthToId a.pe = monthToId b.pe := by rw [ga.pe, gb.pe, hpsid]
  have hpe : a.pe = b.pe := by
    rw [← monthEndOf_monthToId ga.pev ga.pee, ← monthEndOf_monthToId gb.pev gb.pee, hpeid]
  have hlag : lagOf a = lagOf b := by rw [pos_grid_k h ha, pos_grid_k h hb, hk]
  have hevid : monthToId a.ev = monthToId b.ev := by unfold lagOf at hlag; omega
  have hev : a.ev = b.ev := by
    rw [← monthEndOf_monthToId ga.evv ga.eve, ← monthEndOf_monthToId gb.evv gb.eve, hevid]
  have hcmp : Cell.cmp a b = .eq := by
    rw [Cell.cmp_eq_eq ga.canon gb.canon]
    simp [Cell.coord, hps, hpe, hev, hmd, h.prevEq a ha b hb hps hpe hev]
  apply Classical.byContradiction
  intro hne
  obtain ⟨i, hi, rfl⟩ := List.getElem_of_mem ha
  obtain ⟨j, hj', rfl⟩ := List.getElem_of_mem hb
  have hij : i ≠ j := fun he => hne (by subst he; rfl)
  rcases Nat.lt_or_gt_of_ne hij with hlt | hgt
  · have := List.pairwise_iff_getElem.mp h.sorted i j hi hj' hlt
    rw [hcmp] at this; cases this
  · have := List.pairwise_iff_getElem.mp h.sorted j i hj' hi hgt
    rw [OrientedCmp.eq_swap (cmp := Cell.cmp), hcmp] at this
    cases this

theorem pos_lastPeriod_spec :
    ∃ cl ∈ t, lastPeriodStart t = cl.ps ∧ ∀ c ∈ t, jOf ix c ≤ jOf ix cl := by
  unfold lastPeriodStart
  have hper : periodsOf t ≠ [] := by
    obtain ⟨c, hc⟩ := List.exists_mem_of_ne_nil _ h.ne
    intro he
    have : (c.ps, c.pe) ∈ periodsOf t := by
      unfold periodsOf
      rw [(List.mergeSort_perm _ _).mem_iff, List.mem_eraseDups]
      exact List.mem_map_of_mem hc
    rw [he] at this; cases this
  obtain ⟨pl, hpl⟩ : ∃ pl, (periodsOf t).getLast? = some pl := by
    cases hg : (periodsOf t).getLast? with
    | none => exact absurd (List.getLast?_eq_none_iff.mp hg) hper
    | some pl => exact ⟨pl, rfl⟩
  have hplm : pl ∈ periodsOf t := List.mem_of_getLast? hpl
  have hmem : ∀ p, p ∈ periodsOf t ↔ ∃ c ∈ t, (c.ps, c.pe) = p := by
    intro p
    unfold periodsOf
    rw [(List.mergeSort_perm _ _).mem_iff, List.mem_eraseDups, List.mem_map]
  obtain ⟨cl, hcl, hclp⟩ := (hmem pl).mp hplm
  refine ⟨cl, hcl, by rw [hpl]; simp [← hclp], ?_⟩
  intro c hc
  have hcp : (c.ps, c.pe) ∈ periodsOf t := (hmem _).mpr ⟨c, hc, rfl⟩
  have hsorted : (periodsOf t).Pairwise (fun a b =>
      leOf (compareLex (cmpOn (fun p : Date × Date => p.1) Date.cmp) (cmpOn (fun p : Date × Date => p.2) Date.cmp)) a b = true) := by
    unfold periodsOf
    exact sorted_mergeSort _
  have hle : Date.cmp c.ps cl.ps ≠ .gt := by
    rcases pairwise_last hsorted hpl hcp with he | hR
    · rw [← hclp] at he
      have : c.ps = cl.ps := (Prod.ext_iff.mp he).1
      rw [this, ReflCmp.compare_self (cmp := Date.cmp)]; simp
    · rw [← hclp] at hR
      unfold leOf at hR
      simp only [compareLex, cmpOn] at hR
      intro hgt
      rw [hgt] at hR
      simp at hR
  have hid := monthToId_mono (h.cell c hc).psv (h.cell cl hcl).psv hle
  rw [pos_grid_j h hc, pos_grid_j h hcl] at hid
  have he := h.e1
  have : (jOf ix c : Int) * ix.expResolution ≤ (jOf ix cl : Int) * ix.expResolution := by omega
  have := Int.le_of_mul_le_mul_right this (by omega)
  omega

theorem pos_maxLag_spec :
    ∃ cm ∈ t, maxLagOf t = ((lagOf cm : Int) : Rat) ∧ ∀ c ∈ t, kOf ix c ≤ kOf ix cm := by
  obtain ⟨⟨cm, hcm, hmax⟩, hall⟩ := maxLagOf_spec t h.ne
  refine ⟨cm, hcm, by rw [hmax, pos_devLag_cell h hcm], ?_⟩
  intro c hc
  have := hall c hc
  rw [hmax, pos_devLag_cell h hc, pos_devLag_cell h hcm] at this
  have hl : lagOf c ≤ lagOf cm := by exact_mod_cast this
  rw [pos_grid_k h hc, pos_grid_k h hcm] at hl
  have hs := h.s1
  have : (kOf ix c : Int) * devSpacing ix ≤ (kOf ix cm : Int) * devSpacing ix := by omega
  have := Int.le_of_mul_le_mul_right this (by omega)
  omega

end pgrid2


end Bermuda.Frame
