/-
C14, `wide_data_frame_to_triangle(df, field_cols=…, detail_cols=None)`: the detail columns the reader INFERS
from the written table — `list(set(columns) - CORE_SET - set(field_cols))` — are exactly the detail / loss-
detail names that occur (in any order; the reader sorts the items), so the round trip of `fromWide_toWide`
holds for this call as well (`fromWide_toWide_inferred`).
-/
import Bermuda.Lemmas.FrameLong
import Bermuda.Lemmas.FrameWideIncr
import Bermuda.Model.FrameDF
namespace Bermuda.Frame
open Bermuda Bermuda.Spec.C14 Std

/-- `WFwide` depends on the detail-column list only through membership (and freedom from duplicates) -/
theorem WFwide.congr {t : List Cell} {D D' L : List String} (h : WFwide t D L) (hn : D'.Nodup)
    (hm : ∀ k, k ∈ D' ↔ k ∈ D) : WFwide t D' L where
  ne := h.ne
  sorted := h.sorted
  cum := h.cum
  dates := h.dates
  md := fun c hc =>
    let m := h.md c hc
    { canon := m.canon, rb := m.rb, dvals := m.dvals, lvals := m.lvals,
      dkeys := fun k hk => ⟨(hm k).mpr (m.dkeys k hk).1, (m.dkeys k hk).2⟩, lkeys := m.lkeys }
  names :=
    { dsorted := hn, lsorted := h.names.lsorted, lsub := fun k hk => (hm k).mpr (h.names.lsub k hk),
      dcore := fun k hk => h.names.dcore k ((hm k).mp hk), fcore := h.names.fcore }
  cells := h.cells

theorem mem_keys_iff_get? {α : Type} {d : Dict α} {k : String} : k ∈ Dict.keys d ↔ Dict.get? d k ≠ none := by
  rw [Ne, Dict.get?_eq_none_iff]
  exact not_not.symm

/-- the keys of a written row outside the core columns and the fields: the metadata names -/
theorem mem_keys_wideRow {c : Cell} {N F D L : List String} {fd : Dict Rat} (h : RowCtx c N F D L fd) (i : Nat)
    {k : String} (hcore : k ∉ coreSet) (hF : k ∉ F) :
    k ∈ Dict.keys (wideRow c N (i, fd)) ↔ k ∈ N := by
  unfold wideRow
  rw [Dict.mem_keys_union, Dict.mem_keys_union, keys_numMap, baseDict_cum h.prev]
  have h1 : k ∉ Dict.keys (cumBase c ++ [("scenario", MVal.num ((i : Nat) + 1 : Nat))]) := by
    intro hm
    apply hcore
    simp only [cumBase, Dict.keys, List.cons_append, List.nil_append, List.map_cons, List.map_nil, List.mem_cons,
      List.not_mem_nil, or_false] at hm
    rcases hm with rfl | rfl | rfl | rfl <;> decide
  have h2 : k ∉ Dict.keys fd := fun hm => hF (h.fdsub k hm)
  have h3 : k ∈ Dict.keys (metadataDict c N) ↔ k ∈ N := by
    unfold metadataDict Dict.keys
    rw [List.map_map]
    simp [Function.comp_def]
  constructor
  · rintro ((hm | hm) | hm)
    · exact absurd hm h1
    · exact absurd hm h2
    · exact h3.mp hm
  · intro hn
    exact Or.inr (h3.mpr hn)

/-- **the inferred detail columns** of the table written for `t`: the names of `D` (all of which occur in
some slice), no duplicates -/
theorem inferCols_written {t : List Cell} {D L : List String} (h : WFwide t D L)
    (hocc : ∀ k ∈ D, k ∈ allMetadataNames t) {E : Row → Row} (hE : KeepsOthers E) :
    (inferCols (mkTable (t.map (wblock t E)).flatten).cols (allFields t)).Nodup ∧
    ∀ k, k ∈ inferCols (mkTable (t.map (wblock t E)).flatten).cols (allFields t) ↔ k ∈ D := by
  constructor
  · unfold inferCols mkTable
    exact (colsOf_nodup _).sublist List.filter_sublist
  · intro k
    unfold inferCols mkTable
    simp only [List.mem_filter, Bool.and_eq_true, Bool.not_eq_true', List.contains_eq_mem, decide_eq_false_iff_not]
    rw [mem_colsOf]
    constructor
    · rintro ⟨⟨r, hr, hk⟩, hcore, hF⟩
      obtain ⟨b, hb, hrb⟩ := List.mem_flatten.mp hr
      obtain ⟨c, hc, rfl⟩ := List.mem_map.mp hb
      obtain ⟨i, _, rfl⟩ := List.mem_map.mp hrb
      have hks : k ≠ "scenario" := by intro he; subst he; exact hcore (by decide)
      have hk' : k ∈ Dict.keys (wideRow c (allMetadataNames t) (i, fieldDictPure c (allFields t) i)) := by
        rw [mem_keys_iff_get?] at hk ⊢
        rwa [hE _ k hks] at hk
      have hN := (mem_keys_wideRow (h.rowCtx hc i) i hcore hF).mp hk'
      rcases (h.rowCtx hc i).nsub k hN with h6 | hd
      · exact absurd (six_sub_coreSet k h6) hcore
      · exact hd
    · intro hd
      have hcore : k ∉ coreSet := fun hc => (h.names.dcore k hd).1 (coreSet_sub k hc)
      have hF : k ∉ allFields t := (h.names.dcore k hd).2
      refine ⟨?_, hcore, hF⟩
      obtain ⟨c, hc⟩ := List.exists_mem_of_ne_nil _ h.ne
      obtain ⟨r, hr⟩ := List.exists_mem_of_ne_nil _ (wblock_ne h hc E)
      refine ⟨r, List.mem_flatten.mpr ⟨_, List.mem_map_of_mem hc, hr⟩, ?_⟩
      obtain ⟨i, _, rfl⟩ := List.mem_map.mp hr
      have hks : k ≠ "scenario" := by intro he; subst he; exact hcore (by decide)
      rw [mem_keys_iff_get?, hE _ k hks, ← mem_keys_iff_get?]
      exact (mem_keys_wideRow (h.rowCtx hc i) i hcore hF).mpr (hocc k hd)

/-- **fromWide_toWide, `detail_cols=None`**: `from_wide_…(…, field_cols=fields, loss_detail_cols=L)` — the
detail columns inferred by the reader — gives the triangle back, for a well-formed triangle whose detail
names `D` all occur in some slice. -/
theorem fromWide_toWide_inferred {t : List Cell} {D L : List String} (h : WFwide t D L)
    (hocc : ∀ k ∈ D, k ∈ allMetadataNames t) :
    okAnd (fun out => wideSpec t out && slicesSpec false t out)
      ((toWideRows t).bind fun tb => fromWideRowsInfer tb (some (allFields t)) none L) = true := by
  obtain ⟨E, hE, hw, _⟩ := toWideRows_ok h
  obtain ⟨hnd, hmem⟩ := inferCols_written h hocc hE
  have h' := h.congr hnd hmem
  have hmain := fromWide_toWide h'
  rw [hw] at hmain ⊢
  simp only [Except.bind] at hmain ⊢
  unfold fromWideRowsInfer
  simp only
  have hall : (L.all (inferCols (mkTable (t.map (wblock t E)).flatten).cols (allFields t)).contains) = true := by
    rw [List.all_eq_true]
    intro k hk
    simpa using h'.names.lsub k hk
  rw [hall]
  exact hmain

/-! ### incremental triangles -/

theorem WFwideIncr.congr {t : List Cell} {D D' L : List String} (h : WFwideIncr t D L) (hn : D'.Nodup)
    (hm : ∀ k, k ∈ D' ↔ k ∈ D) : WFwideIncr t D' L where
  ne := h.ne
  sorted := h.sorted
  inc := h.inc
  dates := h.dates
  md := fun c hc =>
    let m := h.md c hc
    { canon := m.canon, rb := m.rb, dvals := m.dvals, lvals := m.lvals,
      dkeys := fun k hk => ⟨(hm k).mpr (m.dkeys k hk).1, (m.dkeys k hk).2⟩, lkeys := m.lkeys }
  names :=
    { dsorted := hn, lsorted := h.names.lsorted, lsub := fun k hk => (hm k).mpr (h.names.lsub k hk),
      dcore := fun k hk => h.names.dcore k ((hm k).mp hk), fcore := h.names.fcore }
  cells := h.cells

theorem mem_keys_wideRow_inc {c : Cell} {p : Date} {N F D L : List String} {fd : Dict Rat}
    (h : IRowCtx c p N F D L fd) (i : Nat) {k : String} (hcore : k ∉ coreSet) (hF : k ∉ F) :
    k ∈ Dict.keys (wideRow c N (i, fd)) ↔ k ∈ N := by
  unfold wideRow
  rw [Dict.mem_keys_union, Dict.mem_keys_union, keys_numMap, baseDict_inc h.kind h.prev]
  have h1 : k ∉ Dict.keys (incBase c p ++ [("scenario", MVal.num ((i : Nat) + 1 : Nat))]) := by
    intro hm
    apply hcore
    simp only [incBase, Dict.keys, List.cons_append, List.nil_append, List.map_cons, List.map_nil, List.mem_cons,
      List.not_mem_nil, or_false] at hm
    rcases hm with rfl | rfl | rfl | rfl | rfl <;> decide
  have h2 : k ∉ Dict.keys fd := fun hm => hF (h.fdsub k hm)
  have h3 : k ∈ Dict.keys (metadataDict c N) ↔ k ∈ N := by
    unfold metadataDict Dict.keys
    rw [List.map_map]
    simp [Function.comp_def]
  constructor
  · rintro ((hm | hm) | hm)
    · exact absurd hm h1
    · exact absurd hm h2
    · exact h3.mp hm
  · intro hn
    exact Or.inr (h3.mpr hn)

theorem inferCols_written_incr {t : List Cell} {D L : List String} (h : WFwideIncr t D L)
    (hocc : ∀ k ∈ D, k ∈ allMetadataNames t) :
    (inferCols (mkTable (t.map (irow t))).cols (allFields t)).Nodup ∧
    ∀ k, k ∈ inferCols (mkTable (t.map (irow t))).cols (allFields t) ↔ k ∈ D := by
  constructor
  · unfold inferCols mkTable
    exact (colsOf_nodup _).sublist List.filter_sublist
  · intro k
    unfold inferCols mkTable
    simp only [List.mem_filter, Bool.and_eq_true, Bool.not_eq_true', List.contains_eq_mem, decide_eq_false_iff_not]
    rw [mem_colsOf]
    constructor
    · rintro ⟨⟨r, hr, hk⟩, hcore, hF⟩
      obtain ⟨c, hc, rfl⟩ := List.mem_map.mp hr
      have hks : k ≠ "scenario" := by intro he; subst he; exact hcore (by decide)
      have hk' : k ∈ Dict.keys (wideRow c (allMetadataNames t) (0, fieldDictPure c (allFields t) 0)) := by
        unfold irow at hk
        rw [mem_keys_iff_get?] at hk ⊢
        rwa [keepsOthers_erase _ k hks] at hk
      have hN := (mem_keys_wideRow_inc (h.rowCtx hc) 0 hcore hF).mp hk'
      rcases (h.rowCtx hc).nsub k hN with h6 | hd
      · exact absurd (six_sub_coreSet k h6) hcore
      · exact hd
    · intro hd
      have hcore : k ∉ coreSet := fun hc => (h.names.dcore k hd).1 (coreSet_sub k hc)
      have hF : k ∉ allFields t := (h.names.dcore k hd).2
      refine ⟨?_, hcore, hF⟩
      obtain ⟨c, hc⟩ := List.exists_mem_of_ne_nil _ h.ne
      refine ⟨irow t c, List.mem_map_of_mem hc, ?_⟩
      have hks : k ≠ "scenario" := by intro he; subst he; exact hcore (by decide)
      unfold irow
      rw [mem_keys_iff_get?, keepsOthers_erase _ k hks, ← mem_keys_iff_get?]
      exact (mem_keys_wideRow_inc (h.rowCtx hc) 0 hcore hF).mpr (hocc k hd)

/-- **fromWide_toWide_incremental, `detail_cols=None`** -/
theorem fromWide_toWide_incremental_inferred {t : List Cell} {D L : List String} (h : WFwideIncr t D L)
    (hocc : ∀ k ∈ D, k ∈ allMetadataNames t) :
    okAnd (fun out => wideSpec t out && slicesSpec false t out)
      ((toWideRows t).bind fun tb => fromWideRowsInfer tb (some (allFields t)) none L) = true := by
  obtain ⟨hnd, hmem⟩ := inferCols_written_incr h hocc
  have h' := h.congr hnd hmem
  have hmain := fromWide_toWide_incremental h'
  rw [toWideRows_incr h] at hmain ⊢
  simp only [Except.bind] at hmain ⊢
  unfold fromWideRowsInfer
  simp only
  have hall : (L.all (inferCols (mkTable (t.map (irow t))).cols (allFields t)).contains) = true := by
    rw [List.all_eq_true]
    intro k hk
    simpa using h'.names.lsub k hk
  rw [hall]
  exact hmain

end Bermuda.Frame
