/-
C14, long table of a cumulative triangle: `fromLongRows (toLongRows t) [] = t` with the loss details
folded into the details (`from_long_csv` passes no `loss_detail_cols`), up to the numeric comparison
of `Spec/C14.lean` (`fromLong_toLong`). The rows of one cell interleave its fields scenario by
scenario, so the groups are obtained from `groupBy = firstKeys × filter` (`JoinL.groupBy_eq_map`):
first-appearance keys of the table (`long_firstKeys`), each group = one field's rows in scenario
order (`long_filter`). The reader's fold then adds field after field to the cell at the same
coordinates (`fold_cell`, `fold_cells`). Detail columns are read in COLUMN order (not sorted), hence
`rowDetails_perm`.
-/
import Bermuda.Lemmas.FrameWide
import Bermuda.Lemmas.JoinRegroup
namespace Bermuda.Frame
open Bermuda Bermuda.Spec.C14 Std Bermuda.JoinL

/-! ### first-appearance keys of structured lists -/

section fk
variable {α κ : Type} [BEq κ] [LawfulBEq κ]

theorem foldl_fstep_known (key : α → κ) : ∀ (l : List α) (acc : List κ),
    (∀ a ∈ l, key a ∈ acc) → l.foldl (fstep key) acc = acc
  | [], _, _ => rfl
  | a :: t, acc, h => by
    rw [List.foldl_cons]
    have : fstep key acc a = acc := by
      unfold fstep
      rw [if_pos (List.contains_iff_mem.mpr (h a List.mem_cons_self))]
    rw [this]
    exact foldl_fstep_known key t acc (fun x hx => h x (List.mem_cons_of_mem _ hx))

theorem foldl_fstep_prefix (key : α → κ) : ∀ (l : List α) (acc acc' : List κ),
    (∀ a ∈ l, key a ∉ acc) → l.foldl (fstep key) (acc ++ acc') = acc ++ l.foldl (fstep key) acc'
  | [], _, _, _ => rfl
  | a :: t, acc, acc', h => by
    rw [List.foldl_cons, List.foldl_cons]
    have hstep : fstep key (acc ++ acc') a = acc ++ fstep key acc' a := by
      unfold fstep
      have hna : key a ∉ acc := h a List.mem_cons_self
      by_cases hc : acc'.contains (key a) = true
      · have : (acc ++ acc').contains (key a) = true :=
          List.contains_iff_mem.mpr (List.mem_append_right _ (List.contains_iff_mem.mp hc))
        rw [if_pos this, if_pos hc]
      · have : ¬ (acc ++ acc').contains (key a) = true := by
          intro hh
          rcases List.mem_append.mp (List.contains_iff_mem.mp hh) with h1 | h1
          · exact hna h1
          · exact hc (List.contains_iff_mem.mpr h1)
        rw [if_neg this, if_neg hc, List.append_assoc]
    rw [hstep]
    exact foldl_fstep_prefix key t acc (fstep key acc' a) (fun x hx => h x (List.mem_cons_of_mem _ hx))

theorem firstKeys_nodup_map (key : α → κ) : ∀ l : List α, (l.map key).Nodup → firstKeys key l = l.map key := by
  intro l
  unfold firstKeys
  suffices ∀ (l : List α) (acc : List κ), ((acc ++ l.map key).Nodup) →
      l.foldl (fstep key) acc = acc ++ l.map key by
    intro h; simpa using this l [] (by simpa using h)
  intro l
  induction l with
  | nil => intro acc _; simp
  | cons a t ih =>
    intro acc h
    rw [List.foldl_cons]
    have hna : ¬ acc.contains (key a) = true := by
      intro hc
      rw [List.map_cons, List.nodup_append] at h
      exact h.2.2 _ (List.contains_iff_mem.mp hc) _ List.mem_cons_self rfl
    have : fstep key acc a = acc ++ [key a] := by unfold fstep; rw [if_neg hna]
    rw [this, ih (acc ++ [key a]) (by simpa [List.append_assoc] using h)]
    simp

theorem firstKeys_append (key : α → κ) (l1 l2 : List α) :
    firstKeys key (l1 ++ l2) = l2.foldl (fstep key) (firstKeys key l1) := by
  unfold firstKeys; rw [List.foldl_append]

/-- blocks whose keys are disjoint from everything before them -/
theorem firstKeys_flatten_disjoint (key : α → κ) : ∀ (blocks : List (List α)),
    blocks.Pairwise (fun b1 b2 => ∀ x ∈ b1, ∀ y ∈ b2, key x ≠ key y) →
    firstKeys key blocks.flatten = (blocks.map (firstKeys key)).flatten
  | [], _ => rfl
  | b :: rest, h => by
    rw [List.flatten_cons, firstKeys_append]
    have hdis : ∀ a ∈ rest.flatten, key a ∉ firstKeys key b := by
      intro a ha hk
      obtain ⟨b2, hb2, hab⟩ := List.mem_flatten.mp ha
      obtain ⟨x, hx, hxk⟩ := (mem_firstKeys key b (key a)).mp hk
      exact (List.pairwise_cons.mp h).1 b2 hb2 x hx a hab hxk
    have := foldl_fstep_prefix key rest.flatten (firstKeys key b) [] hdis
    rw [List.append_nil] at this
    rw [this, List.map_cons, List.flatten_cons]
    congr 1
    exact firstKeys_flatten_disjoint key rest (List.pairwise_cons.mp h).2

/-- a first chunk with distinct keys followed by elements that repeat those keys -/
theorem firstKeys_chunk (key : α → κ) (first rest : List α) (hn : (first.map key).Nodup)
    (hr : ∀ a ∈ rest, key a ∈ first.map key) : firstKeys key (first ++ rest) = first.map key := by
  rw [firstKeys_append, firstKeys_nodup_map key first hn]
  exact foldl_fstep_known key rest _ hr

end fk


/-! ### what the long writer produces for one cell -/

def qAt (v : Val) (i : Nat) : Rat := ((valData v).bind (·[i]?)).getD 0

/-- a cell for the long form: every value numeric with one sample count `n` -/
structure CellOKL (c : Cell) (n : Nat) : Prop where
  pos : 1 ≤ n
  vals : ∀ kv ∈ c.values, ∃ data, valData kv.2 = some data ∧ data.length = n
  nodup : (Dict.keys c.values).Nodup
  ne : 2 ≤ n → c.values ≠ []

theorem CellOKL.toOK {c : Cell} {n : Nat} (h : CellOKL c n) : CellOK c (Dict.keys c.values) n where
  pos := h.pos
  vals := h.vals
  full := fun h2 => by
    have := h.ne h2
    cases hv : c.values with
    | nil => exact absurd hv this
    | cons a t => exact ⟨a.1, by simp [Dict.keys], by simp [Dict.keys]⟩
  nodup := h.nodup

theorem fieldDictPure_self {c : Cell} {n : Nat} (h : CellOKL c n) {i : Nat} (hi : i < n) :
    fieldDictPure c (Dict.keys c.values) i = c.values.map fun kv => (kv.1, qAt kv.2 i) := by
  unfold fieldDictPure Dict.keys
  rw [List.filterMap_map]
  rw [← List.filterMap_eq_map]
  apply filterMap_congr'
  intro kv hkv
  simp only [Function.comp]
  unfold pureEntry
  rw [get?_of_mem_nodup h.nodup hkv]
  obtain ⟨data, hd, hlen⟩ := h.vals kv hkv
  have : i < data.length := by omega
  simp [qAt, hd, List.getElem?_eq_getElem this]

def lblock (t : List Cell) (E : Row → Row) (c : Cell) : List Row :=
  (List.range (sampleCount c)).flatMap fun i =>
    c.values.map fun kv => E (longRow c (allMetadataNames t) i (kv.1, qAt kv.2 i))

theorem cellLongRows_ok {t : List Cell} {c : Cell} (h : CellOKL c (sampleCount c)) :
    cellLongRows c (allMetadataNames t) = .ok (lblock t id c) := by
  unfold cellLongRows
  rw [cleanFieldDicts_ok h.toOK]
  simp only [Except.map]
  rw [zip_range_map]
  unfold lblock
  rw [List.flatMap_map]
  congr 1
  apply List.flatMap_congr
  intro i hi
  simp only [fieldDictPure_self h (List.mem_range.mp hi), List.map_map]
  rfl

/-! ### looking a column up in a written long row -/

structure LongNames (DK LK : List String) : Prop where
  dl : ∀ k ∈ DK, k ∉ LK
  core : ∀ k, k ∈ DK ∨ k ∈ LK → k ∉ coreNames ∧ k ≠ "field" ∧ k ≠ "value"

structure MdOKL (m : Metadata) (DK LK : List String) : Prop where
  canon : m.Canon
  rb : m.riskBasis.isSome = true
  dvals : ∀ p ∈ m.details, p.2 ≠ MVal.none
  lvals : ∀ p ∈ m.lossDetails, p.2 ≠ MVal.none
  dkeys : ∀ k ∈ Dict.keys m.details, k ∈ DK
  lkeys : ∀ k ∈ Dict.keys m.lossDetails, k ∈ LK

structure LRowCtx (c : Cell) (N DK LK : List String) : Prop where
  prev : c.prev = none
  nN : N.Nodup
  nsub : ∀ n ∈ N, n ∈ sixNames ∨ n ∈ DK ∨ n ∈ LK
  nfull : ∀ k, k ∉ N → Row.col (flatDict c.md) k = MVal.none
  names : LongNames DK LK

def lastThree (s : MVal) (f : String) (q : Rat) : Row :=
  [("scenario", s), ("field", MVal.str f), ("value", MVal.num q)]

theorem lastThree_wf (s : MVal) (f : String) (q : Rat) : Dict.WF (lastThree s f q) := by
  unfold Dict.WF Dict.keys lastThree
  simp only [List.map_cons, List.map_nil]
  decide

theorem longRow_eq (c : Cell) (N : List String) (i : Nat) (kv : String × Rat) :
    longRow c N i kv = Dict.union (Dict.union (baseDict c) (metadataDict c N))
      (lastThree (if ((Dict.get? c.values kv.1).map isConstantField).getD false then MVal.none
        else MVal.num ((i : Nat) + 1 : Nat)) kv.1 kv.2) := rfl

theorem get?_longRow_other {c : Cell} {N DK LK : List String} (h : LRowCtx c N DK LK) (i : Nat)
    (kv : String × Rat) {k : String} (hk : k ∉ ["scenario", "field", "value"]) :
    Dict.get? (longRow c N i kv) k =
      (if k ∈ N then some (Row.col (flatDict c.md) k) else none).or (Dict.get? (cumBase c) k) := by
  rw [longRow_eq, Dict.get?_union _ _ (lastThree_wf _ _ _)]
  have : Dict.get? (lastThree (if ((Dict.get? c.values kv.1).map isConstantField).getD false then MVal.none
        else MVal.num ((i : Nat) + 1 : Nat)) kv.1 kv.2) k = none := by
    rw [Dict.get?_eq_none_iff]
    simpa [lastThree, Dict.keys] using hk
  rw [this, Option.none_or, Dict.get?_union _ _ (metadataDict_wf c h.nN), get?_metadataDict,
    baseDict_cum h.prev]

theorem col_longRow_md {c : Cell} {N DK LK : List String} (h : LRowCtx c N DK LK) (i : Nat)
    (kv : String × Rat) {k : String} (hk : k ∈ sixNames ∨ k ∈ DK ∨ k ∈ LK) :
    Row.col (longRow c N i kv) k = Row.col (flatDict c.md) k := by
  have hnot : k ∉ ["scenario", "field", "value"] ∧ Dict.get? (cumBase c) k = none := by
    rcases hk with h6 | hd
    · simp only [sixNames, List.mem_cons, List.not_mem_nil, or_false] at h6
      rcases h6 with rfl | rfl | rfl | rfl | rfl | rfl <;> exact ⟨by decide, by simp [cumBase, Dict.get?]⟩
    · obtain ⟨h1, h2, h3⟩ := h.names.core k hd
      constructor
      · simp only [List.mem_cons, List.not_mem_nil, or_false, not_or]
        exact ⟨fun he => h1 (he ▸ by decide), h2, h3⟩
      · rw [Dict.get?_eq_none_iff]
        intro hm
        apply h1
        simp only [cumBase, Dict.keys, List.map_cons, List.map_nil, List.mem_cons, List.not_mem_nil, or_false] at hm
        rcases hm with rfl | rfl | rfl <;> decide
  unfold Row.col
  rw [get?_longRow_other h i kv hnot.1, hnot.2]
  by_cases hn : k ∈ N
  · simp [hn, Row.col]
  · rw [if_neg hn]
    have := h.nfull k hn
    unfold Row.col at this
    simp [this]


/-! ### reading metadata back when the detail columns come in any order -/

theorem rowDetails_perm {r : Row} {dd : Dict MVal} {S : List String} (hS : S.Nodup)
    (hn : (Dict.keys dd).Nodup) (hv : ∀ p ∈ dd, p.2 ≠ MVal.none) (hk : ∀ k ∈ Dict.keys dd, k ∈ S)
    (hcol : ∀ k ∈ S, Row.col r k = (Dict.get? dd k).getD .none) : rowDetails r S = sortItems dd := by
  unfold rowDetails sortItems
  have hrd : ∀ c ∈ S, ∀ p, rowDetail r c = some p ↔ (p.1 = c ∧ Dict.get? dd c = some p.2) := by
    intro c hc p
    unfold rowDetail
    rw [hcol c hc]
    cases hg : Dict.get? dd c with
    | none => simp
    | some v =>
      have hvn : v ≠ MVal.none := hv (c, v) (get?_mem hg)
      cases v with
      | none => exact absurd rfl hvn
      | num q => simp [Prod.ext_iff, eq_comm]
      | str s => simp [Prod.ext_iff, eq_comm]
      | date d => simp [Prod.ext_iff, eq_comm]
  have hperm : (S.filterMap (rowDetail r)).Perm dd := by
    have hnd1 : (S.filterMap (rowDetail r)).Nodup := by
      apply List.Nodup.of_map (·.1)
      have hsub : ((S.filterMap (rowDetail r)).map (·.1)).Sublist S := by
        clear hk hcol hS
        induction S with
        | nil => simp
        | cons a S ih =>
          rw [List.filterMap_cons]
          cases hr : rowDetail r a with
          | none => exact List.Sublist.cons _ (ih (fun c hc => hrd c (List.mem_cons_of_mem _ hc)))
          | some p =>
            have := ((hrd a List.mem_cons_self p).mp hr).1
            simp only [List.map_cons, this]
            exact List.Sublist.cons_cons _ (ih (fun c hc => hrd c (List.mem_cons_of_mem _ hc)))
      exact List.Nodup.sublist hsub hS
    have hnd2 : dd.Nodup := List.Nodup.of_map (fun p : String × MVal => p.1) hn
    rw [List.perm_ext_iff_of_nodup hnd1 hnd2]
    intro p
    rw [List.mem_filterMap]
    constructor
    · rintro ⟨c, hc, hr⟩
      obtain ⟨h1, h2⟩ := (hrd c hc p).mp hr
      have := get?_mem h2
      rw [← h1] at this
      exact this
    · intro hp
      have hc : p.1 ∈ S := hk p.1 (List.mem_map_of_mem hp)
      exact ⟨p.1, hc, (hrd p.1 hc p).mpr ⟨rfl, get?_of_mem_nodup hn hp⟩⟩
  apply mergeSort_perm_invariant (cmp := itemCmp) hperm
  intro a b _ _ hab
  exact itemCmp_eq_eq.mp hab

theorem get?_append {α : Type} (a b : Dict α) (k : String) :
    Dict.get? (a ++ b) k = (Dict.get? a k).or (Dict.get? b k) := by
  induction a with
  | nil => simp [Dict.get?_nil_j]
  | cons p a ih =>
    rw [List.cons_append, Dict.get?_cons_j, Dict.get?_cons_j, ih]
    cases p.1 == k <;> rfl

theorem rowMetadata_merged {r : Row} {m : Metadata} {S : List String}
    (hsix : ∀ k ∈ sixNames, Row.col r k = Row.col (sixDict m) k) (hrb : m.riskBasis.isSome = true)
    (hdet : rowDetails r S = sortItems (m.details ++ m.lossDetails)) :
    rowMetadata r S [] = mergeLossDetails m := by
  have e1 := hsix "risk_basis" (by decide)
  have e2 := hsix "country" (by decide)
  have e3 := hsix "currency" (by decide)
  have e4 := hsix "reinsurance_basis" (by decide)
  have e5 := hsix "loss_definition" (by decide)
  have e6 := hsix "per_occurrence_limit" (by decide)
  obtain ⟨rb, hrb'⟩ := Option.isSome_iff_exists.mp hrb
  unfold rowMetadata
  have hfil : S.filter (fun x => !([] : List String).contains x) = S := by simp
  rw [hfil, hdet]
  have hnil : rowDetails r [] = [] := by simp [rowDetails, sortItems]
  rw [hnil]
  unfold rowStr mergeLossDetails
  rw [e1, e2, e3, e4, e5, e6]
  cases m with
  | mk rb' co cu re ld lim det ldet =>
    simp only at hrb'
    subst hrb'
    simp only [sixDict, Row.col, Dict.get?, List.find?_cons]
    cases co <;> cases cu <;> cases re <;> cases ld <;> cases lim <;> simp [optStr, optNum, mvalNum?]


/-! ### well-formedness for the long form and what follows for its rows -/

def mergeCell (c : Cell) : Cell := { c with md := mergeLossDetails c.md }

/-- `WFcsv` for the long form, cumulative triangles. `DK` / `LK`: the detail / loss-detail key
universes (disjoint; after `from_long_csv` both come back as details) -/
structure WFlong (t : List Cell) (DK LK : List String) : Prop where
  ne : t ≠ []
  sorted : t.Pairwise (fun a b => Cell.cmp a b = .lt)
  cum : ∀ c ∈ t, c.kind ≠ .incremental ∧ c.prev = none
  dates : ∀ c ∈ t, c.datesOk = true
  md : ∀ c ∈ t, MdOKL c.md DK LK
  names : LongNames DK LK
  cells : ∀ c ∈ t, CellOKL c (sampleCount c) ∧ c.values ≠ []
  inj : (t.map fun c => (mergeCell c).coord).Nodup

theorem coreSet_sub : ∀ x ∈ coreSet, x ∈ coreNames := by decide
theorem six_sub_coreSet : ∀ x ∈ sixNames, x ∈ coreSet := by decide

theorem WFlong.rowCtx {t : List Cell} {DK LK : List String} (h : WFlong t DK LK) {c : Cell} (hc : c ∈ t) :
    LRowCtx c (allMetadataNames t) DK LK where
  prev := (h.cum c hc).2
  nN := allMetadataNames_nodup t
  nsub := by
    intro n hn
    obtain ⟨c', hc', hn'⟩ := mem_allMetadataNames.mp hn
    rcases (keys_flat c'.md n).mp (nonNoneNames_sub hn') with h6 | hd | hl
    · exact Or.inl h6
    · exact Or.inr (Or.inl ((h.md c' hc').dkeys n hd))
    · exact Or.inr (Or.inr ((h.md c' hc').lkeys n hl))
  nfull := by
    intro k hk
    apply Classical.byContradiction
    intro hne
    exact hk (mem_allMetadataNames.mpr ⟨c, hc, mem_nonNoneNames hne⟩)
  names := h.names

section lrows
variable {t : List Cell} {DK LK : List String} (h : WFlong t DK LK) {c : Cell} (hc : c ∈ t)
  {E : Row → Row} (hE : KeepsOthers E) (i : Nat) (kv : String × Rat)
include h hc hE

theorem lcol_md {k : String} (hk : k ∈ sixNames ∨ k ∈ DK ∨ k ∈ LK) :
    Row.col (E (longRow c (allMetadataNames t) i kv)) k = Row.col (flatDict c.md) k := by
  have hne : k ≠ "scenario" := by
    rcases hk with h6 | hd
    · intro he; subst he; revert h6; decide
    · exact not_core_ne_scenario (h.names.core k hd).1
  unfold Row.col
  rw [hE _ _ hne]
  exact col_longRow_md (h.rowCtx hc) i kv hk

theorem lget_coord {k : String} (hk : k ∈ ["period_start", "period_end", "evaluation_date", "prev_evaluation_date"]) :
    Dict.get? (E (longRow c (allMetadataNames t) i kv)) k = Dict.get? (cumBase c) k := by
  have hne : k ≠ "scenario" := by intro he; subst he; revert hk; decide
  have hnot : k ∉ ["scenario", "field", "value"] := by
    simp only [List.mem_cons, List.not_mem_nil, or_false] at hk ⊢
    rcases hk with rfl | rfl | rfl | rfl <;> decide
  rw [hE _ _ hne, get?_longRow_other (h.rowCtx hc) i kv hnot]
  have hn : k ∉ allMetadataNames t := by
    intro hn
    rcases (h.rowCtx hc).nsub k hn with h6 | hd
    · simp only [sixNames, List.mem_cons, List.not_mem_nil, or_false] at h6 hk
      rcases h6 with rfl | rfl | rfl | rfl | rfl | rfl <;> simp at hk
    · apply (h.names.core k hd).1
      simp only [coreNames, List.mem_append, List.mem_cons, List.not_mem_nil, or_false] at hk ⊢
      rcases hk with rfl | rfl | rfl | rfl <;> simp
  rw [if_neg hn]
  rfl

theorem lget_field :
    Dict.get? (E (longRow c (allMetadataNames t) i kv)) "field" = some (MVal.str kv.1) ∧
    Dict.get? (E (longRow c (allMetadataNames t) i kv)) "value" = some (MVal.num kv.2) := by
  constructor
  · rw [hE _ _ (by decide), longRow_eq, Dict.get?_union _ _ (lastThree_wf _ _ _)]
    simp [lastThree, Dict.get?]
  · rw [hE _ _ (by decide), longRow_eq, Dict.get?_union _ _ (lastThree_wf _ _ _)]
    simp [lastThree, Dict.get?]

end lrows

theorem scenario_longRow (c : Cell) (N : List String) (i : Nat) (kv : String × Rat) :
    Row.col (longRow c N i kv) "scenario" =
      (if ((Dict.get? c.values kv.1).map isConstantField).getD false then MVal.none
        else MVal.num ((i : Nat) + 1 : Nat)) := by
  unfold Row.col
  rw [longRow_eq, Dict.get?_union _ _ (lastThree_wf _ _ _)]
  simp [lastThree, Dict.get?]


/-! ### the long table: its rows, columns and detail columns -/

def lrows (t : List Cell) (E : Row → Row) : List Row := (t.map (lblock t E)).flatten

theorem mem_lrows {t : List Cell} {E : Row → Row} {r : Row} :
    r ∈ lrows t E ↔ ∃ c ∈ t, ∃ i, i < sampleCount c ∧ ∃ kv ∈ c.values,
      r = E (longRow c (allMetadataNames t) i (kv.1, qAt kv.2 i)) := by
  unfold lrows lblock
  constructor
  · intro hr
    obtain ⟨b, hb, hrb⟩ := List.mem_flatten.mp hr
    obtain ⟨c, hc, rfl⟩ := List.mem_map.mp hb
    obtain ⟨i, hi, hri⟩ := List.mem_flatMap.mp hrb
    obtain ⟨kv, hkv, rfl⟩ := List.mem_map.mp hri
    exact ⟨c, hc, i, List.mem_range.mp hi, kv, hkv, rfl⟩
  · rintro ⟨c, hc, i, hi, kv, hkv, rfl⟩
    exact List.mem_flatten.mpr ⟨_, List.mem_map_of_mem hc,
      List.mem_flatMap.mpr ⟨i, List.mem_range.mpr hi, List.mem_map.mpr ⟨kv, hkv, rfl⟩⟩⟩

theorem get?_some_of_mem_keys {α : Type} {d : Dict α} {k : String} (h : k ∈ Dict.keys d) :
    ∃ v, Dict.get? d k = some v := by
  cases hg : Dict.get? d k with
  | none => exact absurd h (Dict.get?_eq_none_iff.mp hg)
  | some v => exact ⟨v, rfl⟩

theorem colsOf_nodup (rows : List Row) : (colsOf rows).Nodup :=
  (foldl_addNew_spec (fun r : Row => Dict.keys r) rows []).1 List.nodup_nil

def ldetailCols (t : List Cell) (E : Row → Row) : List String := longDetailCols (colsOf (lrows t E)) []

theorem mem_ldetailCols {t : List Cell} {E : Row → Row} {k : String} :
    k ∈ ldetailCols t E ↔ k ∈ colsOf (lrows t E) ∧ k ∉ coreSet ∧ k ≠ "field" ∧ k ≠ "value" := by
  unfold ldetailCols longDetailCols
  simp [List.mem_filter, and_assoc]

section ltable
variable {t : List Cell} {DK LK : List String} (h : WFlong t DK LK) {E : Row → Row} (hE : KeepsOthers E)
include h hE

theorem ldetailCols_sub {k : String} (hk : k ∈ ldetailCols t E) : k ∈ DK ∨ k ∈ LK := by
  obtain ⟨hcol, hcore, hf, hv⟩ := mem_ldetailCols.mp hk
  obtain ⟨r, hr, hkr⟩ := mem_colsOf.mp hcol
  obtain ⟨c, hc, i, _, kv, _, rfl⟩ := mem_lrows.mp hr
  have hne : k ≠ "scenario" := by intro he; subst he; exact hcore (by decide)
  have hget : Dict.get? (E (longRow c (allMetadataNames t) i (kv.1, qAt kv.2 i))) k ≠ none := by
    intro hn; exact (Dict.get?_eq_none_iff.mp hn) hkr
  rw [hE _ _ hne, get?_longRow_other (h.rowCtx hc) i _ (by
    simp only [List.mem_cons, List.not_mem_nil, or_false, not_or]; exact ⟨hne, hf, hv⟩)] at hget
  by_cases hn : k ∈ allMetadataNames t
  · rcases (h.rowCtx hc).nsub k hn with h6 | hd
    · exact absurd (six_sub_coreSet k h6) hcore
    · exact hd
  · rw [if_neg hn, Option.none_or] at hget
    exfalso
    apply hcore
    have : k ∈ Dict.keys (cumBase c) := by
      apply Classical.byContradiction
      intro hnk; exact hget (Dict.get?_eq_none_iff.mpr hnk)
    simp only [cumBase, Dict.keys, List.map_cons, List.map_nil, List.mem_cons, List.not_mem_nil, or_false] at this
    rcases this with rfl | rfl | rfl <;> decide

theorem ldetailCols_of_nonNone {c : Cell} (hc : c ∈ t) {k : String} (hk : k ∈ DK ∨ k ∈ LK)
    (hv : Row.col (flatDict c.md) k ≠ MVal.none) : k ∈ ldetailCols t E := by
  obtain ⟨h1, h2, h3⟩ := h.names.core k hk
  refine mem_ldetailCols.mpr ⟨?_, fun hcs => h1 (coreSet_sub k hcs), h2, h3⟩
  obtain ⟨hok, hne⟩ := h.cells c hc
  obtain ⟨kv, hkv⟩ := List.exists_mem_of_ne_nil _ hne
  have hr : E (longRow c (allMetadataNames t) 0 (kv.1, qAt kv.2 0)) ∈ lrows t E :=
    mem_lrows.mpr ⟨c, hc, 0, hok.pos, kv, hkv, rfl⟩
  refine mem_colsOf.mpr ⟨_, hr, ?_⟩
  have := lcol_md h hc hE 0 (kv.1, qAt kv.2 0) (Or.inr hk)
  unfold Row.col at this
  cases hg : Dict.get? (E (longRow c (allMetadataNames t) 0 (kv.1, qAt kv.2 0))) k with
  | none =>
    exfalso
    rw [hg] at this
    apply hv
    unfold Row.col
    rw [← this]; rfl
  | some v => exact mem_keys_of_get? hg

/-- a row whose metadata columns carry the flat metadata of a cell of the triangle reads back as
that cell's metadata with the loss details folded into the details -/
theorem rowMetadata_long {c : Cell} (hc : c ∈ t) {r : Row}
    (hcol : ∀ k, k ∈ sixNames ∨ k ∈ ldetailCols t E → Row.col r k = Row.col (flatDict c.md) k) :
    rowMetadata r (ldetailCols t E) [] = mergeLossDetails c.md := by
  have hm := h.md c hc
  have hsixnone : ∀ k ∈ sixNames, Dict.get? c.md.details k = none ∧ Dict.get? c.md.lossDetails k = none := by
    intro k hk
    constructor
    · rw [Dict.get?_eq_none_iff]; intro hkk
      exact (h.names.core k (Or.inl (hm.dkeys k hkk))).1 (six_core hk)
    · rw [Dict.get?_eq_none_iff]; intro hkk
      exact (h.names.core k (Or.inr (hm.lkeys k hkk))).1 (six_core hk)
  apply rowMetadata_merged _ hm.rb
  · -- details
    apply rowDetails_perm
    · exact List.Nodup.sublist List.filter_sublist (colsOf_nodup _)
    · unfold Dict.keys
      rw [List.map_append, List.nodup_append]
      refine ⟨dictCanon_wf hm.canon.1, dictCanon_wf hm.canon.2, ?_⟩
      intro a ha b hb he
      subst he
      exact h.names.dl a (hm.dkeys a ha) (hm.lkeys a hb)
    · intro p hp
      rcases List.mem_append.mp hp with hp | hp
      · exact hm.dvals p hp
      · exact hm.lvals p hp
    · intro k hk
      have hk' : k ∈ Dict.keys c.md.details ∨ k ∈ Dict.keys c.md.lossDetails := by
        simpa [Dict.keys, List.map_append] using hk
      have hDL : k ∈ DK ∨ k ∈ LK := by
        rcases hk' with h1 | h1
        · exact Or.inl (hm.dkeys k h1)
        · exact Or.inr (hm.lkeys k h1)
      apply ldetailCols_of_nonNone h hE hc hDL
      unfold Row.col
      rw [get?_flat c.md hm.canon]
      rcases hk' with h1 | h1
      · obtain ⟨v, hv⟩ := get?_some_of_mem_keys h1
        have hl : Dict.get? c.md.lossDetails k = none := by
          rw [Dict.get?_eq_none_iff]; intro hkl
          exact h.names.dl k (hm.dkeys k h1) (hm.lkeys k hkl)
        rw [hl, hv]
        simpa using hm.dvals (k, v) (get?_mem hv)
      · obtain ⟨v, hv⟩ := get?_some_of_mem_keys h1
        rw [hv]
        simpa using hm.lvals (k, v) (get?_mem hv)
    · intro k hk
      rw [hcol k (Or.inr hk)]
      have hDL := ldetailCols_sub h hE hk
      have h6 : Dict.get? (sixDict c.md) k = none := by
        rw [Dict.get?_eq_none_iff]; intro hkk
        have : k ∈ sixNames := by
          simp only [sixDict, Dict.keys, List.map_cons, List.map_nil, List.mem_cons, List.not_mem_nil,
            or_false] at hkk
          rcases hkk with hh | hh | hh | hh | hh | hh <;> simp [sixNames, hh]
        exact (h.names.core k hDL).1 (six_core this)
      unfold Row.col
      rw [get?_flat c.md hm.canon, h6, get?_append]
      rcases hDL with hd | hl
      · have : Dict.get? c.md.lossDetails k = none := by
          rw [Dict.get?_eq_none_iff]; intro hkl; exact h.names.dl k hd (hm.lkeys k hkl)
        rw [this]
        cases Dict.get? c.md.details k <;> rfl
      · have : Dict.get? c.md.details k = none := by
          rw [Dict.get?_eq_none_iff]; intro hkd; exact h.names.dl k (hm.dkeys k hkd) hl
        rw [this]
        cases Dict.get? c.md.lossDetails k <;> rfl
  · intro k hk
    rw [hcol k (Or.inl hk)]
    unfold Row.col
    rw [get?_flat c.md hm.canon, (hsixnone k hk).1, (hsixnone k hk).2]
    rfl

end ltable


/-! ### the long group key -/

def keyPresent (fn k : String) : Bool :=
  match Generated.FrameKeys.groupByKeys.find? (·.1 == fn) with
  | some (_, ks) => ks.contains k
  | none => false

theorem mem_groupCols_present {fn k : String} (h : keyPresent fn k = true) (D L : List String)
    {x : String} (hx : x ∈ expandKey D L k) : x ∈ groupCols fn D L := by
  unfold keyPresent at h
  unfold groupCols
  split at h
  · rename_i fn' ks heq
    rw [heq]
    exact List.mem_flatMap.mpr ⟨k, List.contains_iff_mem.mp h, hx⟩
  · cases h

theorem long_keys_within : keysWithin "long_data_frame_to_triangle" (requiredKeys ++ ["field"]) = true := by decide
theorem long_keys_cover : keysCover "long_data_frame_to_triangle" = true := by decide
theorem long_has_field : keyPresent "long_data_frame_to_triangle" "field" = true := by decide

theorem mem_longCols {D : List String} {x : String}
    (hx : x ∈ groupCols "long_data_frame_to_triangle" D []) :
    x ∈ ["period_start", "period_end", "evaluation_date"] ∨ x = "field" ∨ x ∈ sixNames ∨ x ∈ D := by
  obtain ⟨k, hk, hxk⟩ := mem_groupCols_within long_keys_within hx
  simp only [requiredKeys, List.mem_append, List.mem_cons, List.not_mem_nil, or_false] at hk
  rcases hk with (rfl | rfl | rfl | rfl | rfl | rfl | rfl | rfl | rfl | rfl | rfl) | rfl <;>
    simp [expandKey] at hxk <;> simp [hxk, sixNames]

theorem mem_longCols_of {D : List String} {k : String}
    (hk : k ∈ ["period_start", "period_end", "evaluation_date"] ∨ k = "field" ∨ k ∈ sixNames ∨ k ∈ D) :
    k ∈ groupCols "long_data_frame_to_triangle" D [] := by
  rcases hk with hco | rfl | h6 | hd
  · refine mem_groupCols long_keys_cover D [] (k := k) ?_ ?_
    · simp only [List.mem_cons, List.not_mem_nil, or_false] at hco
      rcases hco with rfl | rfl | rfl <;> decide
    · simp only [List.mem_cons, List.not_mem_nil, or_false] at hco
      rcases hco with rfl | rfl | rfl <;> simp [expandKey]
  · exact mem_groupCols_present long_has_field D [] (by simp [expandKey])
  · refine mem_groupCols long_keys_cover D [] (k := k) ?_ ?_
    · simp only [sixNames, List.mem_cons, List.not_mem_nil, or_false] at h6
      rcases h6 with rfl | rfl | rfl | rfl | rfl | rfl <;> decide
    · simp only [sixNames, List.mem_cons, List.not_mem_nil, or_false] at h6
      rcases h6 with rfl | rfl | rfl | rfl | rfl | rfl <;> simp [expandKey]
  · exact mem_groupCols long_keys_cover D [] (k := "$detail_cols") (by decide) (by simpa [expandKey] using hd)

def lkeyVal (c : Cell) (f : String) (k : String) : MVal :=
  if k == "field" then MVal.str f else cellKeyVal c k

def lcellKey (c : Cell) (f : String) (D : List String) : List MVal :=
  (groupCols "long_data_frame_to_triangle" D []).map (lkeyVal c f)

theorem sortItems_wf {d : Dict MVal} (h : (Dict.keys d).Nodup) : Dict.WF (sortItems d) := by
  unfold Dict.WF Dict.keys sortItems
  exact ((List.mergeSort_perm d _).map (fun p : String × MVal => p.1)).nodup_iff.mpr h

theorem mem_keys_sortItems {d : Dict MVal} {k : String} : k ∈ Dict.keys (sortItems d) ↔ k ∈ Dict.keys d := by
  unfold Dict.keys sortItems
  exact ((List.mergeSort_perm d _).map (fun p : String × MVal => p.1)).mem_iff

theorem col_flat_merge_six {t : List Cell} {DK LK : List String} (h : WFlong t DK LK) {c : Cell} (hc : c ∈ t)
    {k : String} (hk : k ∈ sixNames) :
    Row.col (flatDict (mergeLossDetails c.md)) k = Row.col (flatDict c.md) k := by
  have hm := h.md c hc
  have hnd : (Dict.keys (c.md.details ++ c.md.lossDetails)).Nodup := by
    unfold Dict.keys
    rw [List.map_append, List.nodup_append]
    refine ⟨dictCanon_wf hm.canon.1, dictCanon_wf hm.canon.2, ?_⟩
    intro a ha b hb he; subst he
    exact h.names.dl a (hm.dkeys a ha) (hm.lkeys a hb)
  have hnot : ∀ k' ∈ Dict.keys (c.md.details ++ c.md.lossDetails), k' ∈ DK ∨ k' ∈ LK := by
    intro k' hk'
    have : k' ∈ Dict.keys c.md.details ∨ k' ∈ Dict.keys c.md.lossDetails := by
      simpa [Dict.keys, List.map_append] using hk'
    rcases this with h1 | h1
    · exact Or.inl (hm.dkeys k' h1)
    · exact Or.inr (hm.lkeys k' h1)
  unfold Row.col
  rw [flatDict_eq]
  have e1 : (mergeLossDetails c.md).lossDetails = [] := rfl
  have e2 : (mergeLossDetails c.md).details = sortItems (c.md.details ++ c.md.lossDetails) := rfl
  have e3 : sixDict (mergeLossDetails c.md) = sixDict c.md := rfl
  rw [e1, e2, e3]
  have hu : ∀ a : Row, Dict.union a [] = a := fun a => rfl
  rw [hu, Dict.get?_union _ _ (sortItems_wf hnd)]
  have hnone : Dict.get? (sortItems (c.md.details ++ c.md.lossDetails)) k = none := by
    rw [Dict.get?_eq_none_iff, mem_keys_sortItems]
    intro hkk
    exact (h.names.core k (hnot k hkk)).1 (six_core hk)
  rw [hnone, Option.none_or, get?_flat c.md hm.canon]
  have h1 : Dict.get? c.md.lossDetails k = none := by
    rw [Dict.get?_eq_none_iff]; intro hkk
    exact (h.names.core k (Or.inr (hm.lkeys k hkk))).1 (six_core hk)
  have h2 : Dict.get? c.md.details k = none := by
    rw [Dict.get?_eq_none_iff]; intro hkk
    exact (h.names.core k (Or.inl (hm.dkeys k hkk))).1 (six_core hk)
  rw [h1, h2]; rfl

theorem cellKeyVal_md_long {t : List Cell} {DK LK : List String} (h : WFlong t DK LK) (c : Cell) {k : String}
    (hk : k ∈ sixNames ∨ k ∈ DK ∨ k ∈ LK) : cellKeyVal c k = Row.col (flatDict c.md) k := by
  unfold cellKeyVal
  have : Dict.get? (cumBase c) k = none := by
    rw [Dict.get?_eq_none_iff]
    intro hm
    simp only [cumBase, Dict.keys, List.map_cons, List.map_nil, List.mem_cons, List.not_mem_nil, or_false] at hm
    rcases hk with h6 | hd
    · simp only [sixNames, List.mem_cons, List.not_mem_nil, or_false] at h6
      rcases h6 with rfl | rfl | rfl | rfl | rfl | rfl <;> simp at hm
    · apply (h.names.core k hd).1
      simp only [coreNames, List.mem_append, List.mem_cons, List.not_mem_nil, or_false]
      rcases hm with rfl | rfl | rfl <;> simp
  rw [this]

section lkey
variable {t : List Cell} {DK LK : List String} (h : WFlong t DK LK) {c : Cell} (hc : c ∈ t)
  {E : Row → Row} (hE : KeepsOthers E) (i : Nat) (kv : String × Rat)
  (hcols : ∀ k ∈ ["period_start", "period_end", "evaluation_date", "field"],
    (colsOf (lrows t E)).contains k = true)
include h hc hE hcols

theorem longKey_row :
    longKey (colsOf (lrows t E)) (ldetailCols t E) [] (E (longRow c (allMetadataNames t) i kv)) =
      lcellKey c kv.1 (ldetailCols t E) := by
  unfold longKey lcellKey
  apply List.map_congr_left
  intro k hk
  unfold keyEntry lkeyVal
  have hmd : rowMetadata (E (longRow c (allMetadataNames t) i kv)) (ldetailCols t E) [] =
      mergeLossDetails c.md := by
    apply rowMetadata_long h hE hc
    intro k' hk'
    apply lcol_md h hc hE i kv
    rcases hk' with h6 | hd
    · exact Or.inl h6
    · exact Or.inr (ldetailCols_sub h hE hd)
  rcases mem_longCols hk with hco | rfl | h6 | hd
  · rw [if_pos (hcols k (by
      simp only [List.mem_cons, List.not_mem_nil, or_false] at hco ⊢
      rcases hco with rfl | rfl | rfl <;> simp))]
    have hne : (k == "field") = false := by
      simp only [List.mem_cons, List.not_mem_nil, or_false] at hco
      rcases hco with rfl | rfl | rfl <;> decide
    rw [hne]
    unfold Row.col cellKeyVal
    rw [lget_coord h hc hE i kv (by
      simp only [List.mem_cons, List.not_mem_nil, or_false] at hco ⊢
      rcases hco with rfl | rfl | rfl <;> simp)]
    simp only [List.mem_cons, List.not_mem_nil, or_false] at hco
    rcases hco with rfl | rfl | rfl <;> simp [cumBase, Dict.get?]
  · rw [if_pos (hcols "field" (by simp))]
    unfold Row.col
    rw [(lget_field h hc hE i kv).1]
    simp
  · have hne : (k == "field") = false := by
      simp only [sixNames, List.mem_cons, List.not_mem_nil, or_false] at h6
      rcases h6 with rfl | rfl | rfl | rfl | rfl | rfl <;> decide
    rw [hne, hmd, col_flat_merge_six h hc h6, lcol_md h hc hE i kv (Or.inl h6),
      cellKeyVal_md_long h c (Or.inl h6)]
    simp
  · have hDL := ldetailCols_sub h hE hd
    have hne : (k == "field") = false := by
      apply beq_false_of_ne; exact (h.names.core k hDL).2.1
    have hin : (colsOf (lrows t E)).contains k = true :=
      List.contains_iff_mem.mpr (mem_ldetailCols.mp hd).1
    rw [hne, if_pos hin, lcol_md h hc hE i kv (Or.inr hDL), cellKeyVal_md_long h c (Or.inr hDL)]
    simp

end lkey


/-! ### the groups of the long table -/

theorem lcellKey_inj {t : List Cell} {DK LK : List String} (h : WFlong t DK LK) {E : Row → Row}
    (hE : KeepsOthers E) {a b : Cell} (ha : a ∈ t) (hb : b ∈ t) {f g : String}
    (hk : lcellKey a f (ldetailCols t E) = lcellKey b g (ldetailCols t E)) : a = b ∧ f = g := by
  unfold lcellKey at hk
  have hall := List.map_inj_left.mp hk
  have hf : f = g := by
    have := hall "field" (mem_longCols_of (Or.inr (Or.inl rfl)))
    simpa [lkeyVal] using this
  have c1 := hall "period_start" (mem_longCols_of (Or.inl (by simp)))
  have c2 := hall "period_end" (mem_longCols_of (Or.inl (by simp)))
  have c3 := hall "evaluation_date" (mem_longCols_of (Or.inl (by simp)))
  have c1' : a.ps = b.ps := by simpa [lkeyVal, cellKeyVal, cumBase, Dict.get?, List.find?_cons] using c1
  have c2' : a.pe = b.pe := by simpa [lkeyVal, cellKeyVal, cumBase, Dict.get?, List.find?_cons] using c2
  have c3' : a.ev = b.ev := by simpa [lkeyVal, cellKeyVal, cumBase, Dict.get?, List.find?_cons] using c3
  have hcols : ∀ k, k ∈ sixNames ∨ k ∈ ldetailCols t E →
      Row.col (flatDict a.md) k = Row.col (flatDict b.md) k := by
    intro k hk'
    have hmem : k ∈ groupCols "long_data_frame_to_triangle" (ldetailCols t E) [] :=
      mem_longCols_of (Or.inr (Or.inr hk'))
    have hDL : k ∈ sixNames ∨ k ∈ DK ∨ k ∈ LK := by
      rcases hk' with h6 | hd
      · exact Or.inl h6
      · exact Or.inr (ldetailCols_sub h hE hd)
    have hne : (k == "field") = false := by
      rcases hDL with h6 | hd
      · simp only [sixNames, List.mem_cons, List.not_mem_nil, or_false] at h6
        rcases h6 with rfl | rfl | rfl | rfl | rfl | rfl <;> decide
      · apply beq_false_of_ne; exact (h.names.core k hd).2.1
    have := hall k hmem
    simp only [lkeyVal, hne, Bool.false_eq_true, if_false] at this
    rw [cellKeyVal_md_long h a hDL, cellKeyVal_md_long h b hDL] at this
    exact this
  have hmd : mergeLossDetails a.md = mergeLossDetails b.md := by
    rw [← rowMetadata_long h hE ha (r := flatDict a.md) (fun _ _ => rfl),
      rowMetadata_long h hE hb (r := flatDict a.md) hcols]
  have hcoord : (mergeCell a).coord = (mergeCell b).coord := by
    simp [mergeCell, Cell.coord, hmd, c1', c2', c3', (h.cum a ha).2, (h.cum b hb).2]
  exact ⟨List.inj_on_of_nodup_map h.inj ha hb hcoord, hf⟩

theorem WFlong.nodup {t : List Cell} {DK LK : List String} (h : WFlong t DK LK) : t.Nodup := by
  refine h.sorted.imp ?_
  intro a b hab he
  subst he
  rw [ReflCmp.compare_self (cmp := Cell.cmp)] at hab
  cases hab

theorem filter_flatten_one {α β : Type} [DecidableEq α] (B : α → List β) (p : β → Bool) :
    ∀ (t : List α) (c : α), t.Nodup → c ∈ t → (∀ c' ∈ t, c' ≠ c → (B c').filter p = []) →
      (t.map B).flatten.filter p = (B c).filter p
  | [], c, _, hc, _ => by cases hc
  | a :: rest, c, hn, hc, hoth => by
    simp only [List.nodup_cons] at hn
    rw [List.map_cons, List.flatten_cons, List.filter_append]
    by_cases hac : a = c
    · subst hac
      have : (rest.map B).flatten.filter p = [] := by
        rw [List.filter_eq_nil_iff]
        intro x hx
        obtain ⟨b, hb, hxb⟩ := List.mem_flatten.mp hx
        obtain ⟨c', hc', rfl⟩ := List.mem_map.mp hb
        have hne : c' ≠ a := fun he => hn.1 (he ▸ hc')
        have := hoth c' (List.mem_cons_of_mem _ hc') hne
        exact (List.filter_eq_nil_iff.mp this) x hxb
      rw [this, List.append_nil]
    · have hc' : c ∈ rest := by
        rcases List.mem_cons.mp hc with he | h'
        · exact absurd he.symm hac
        · exact h'
      rw [hoth a List.mem_cons_self hac, List.nil_append]
      exact filter_flatten_one B p rest c hn.2 hc' (fun c' hc'' hne => hoth c' (List.mem_cons_of_mem _ hc'') hne)

theorem filter_key_single {β : Type} (vals : List (String × β)) (hn : (vals.map (·.1)).Nodup)
    {kv : String × β} (hkv : kv ∈ vals) : vals.filter (fun x => x.1 == kv.1) = [kv] := by
  induction vals with
  | nil => cases hkv
  | cons a rest ih =>
    simp only [List.map_cons, List.nodup_cons] at hn
    rw [List.filter_cons]
    rcases List.mem_cons.mp hkv with rfl | h'
    · simp only [beq_self_eq_true, if_true]
      congr 1
      rw [List.filter_eq_nil_iff]
      intro x hx
      have : x.1 ≠ kv.1 := fun he => hn.1 (he ▸ List.mem_map_of_mem hx)
      simpa using this
    · have : (a.1 == kv.1) = false := by
        apply beq_false_of_ne
        intro he; exact hn.1 (he ▸ List.mem_map_of_mem h')
      rw [this]
      exact ih hn.2 h'

section lgroups
variable {t : List Cell} {DK LK : List String} (h : WFlong t DK LK) {E : Row → Row} (hE : KeepsOthers E)
  (hcols : ∀ k ∈ ["period_start", "period_end", "evaluation_date", "field"],
    (colsOf (lrows t E)).contains k = true)
include h hE hcols

/-- the rows of field `kv` of cell `c`, in scenario order -/
def fieldRows (t : List Cell) (E : Row → Row) (c : Cell) (kv : String × Val) : List Row :=
  (List.range (sampleCount c)).map fun i => E (longRow c (allMetadataNames t) i (kv.1, qAt kv.2 i))

theorem key_lblock {c : Cell} (hc : c ∈ t) {r : Row} (hr : r ∈ lblock t E c) :
    ∃ kv ∈ c.values, longKey (colsOf (lrows t E)) (ldetailCols t E) [] r = lcellKey c kv.1 (ldetailCols t E) := by
  unfold lblock at hr
  obtain ⟨i, _, hri⟩ := List.mem_flatMap.mp hr
  obtain ⟨kv, hkv, rfl⟩ := List.mem_map.mp hri
  exact ⟨kv, hkv, longKey_row h hc hE i _ hcols⟩

theorem long_firstKeys :
    firstKeys (longKey (colsOf (lrows t E)) (ldetailCols t E) []) (lrows t E) =
      (t.map fun c => c.values.map fun kv => lcellKey c kv.1 (ldetailCols t E)).flatten := by
  change firstKeys (longKey (colsOf (lrows t E)) (ldetailCols t E) []) ((t.map (lblock t E)).flatten) = _
  rw [firstKeys_flatten_disjoint]
  · rw [List.map_map]
    congr 1
    apply List.map_congr_left
    intro c hc
    simp only [Function.comp]
    obtain ⟨hok, _⟩ := h.cells c hc
    obtain ⟨m, hm⟩ : ∃ m, sampleCount c = m + 1 := ⟨sampleCount c - 1, by have := hok.pos; omega⟩
    have hsplit : lblock t E c =
        (c.values.map fun kv => E (longRow c (allMetadataNames t) 0 (kv.1, qAt kv.2 0))) ++
        ((List.range m).flatMap fun i =>
          c.values.map fun kv => E (longRow c (allMetadataNames t) (i + 1) (kv.1, qAt kv.2 (i + 1)))) := by
      unfold lblock
      rw [hm, List.range_succ_eq_map, List.flatMap_cons, List.flatMap_map]
    have hkey0 : (c.values.map fun kv => E (longRow c (allMetadataNames t) 0 (kv.1, qAt kv.2 0))).map
        (longKey (colsOf (lrows t E)) (ldetailCols t E) []) =
        c.values.map fun kv => lcellKey c kv.1 (ldetailCols t E) := by
      rw [List.map_map]
      apply List.map_congr_left
      intro kv _
      exact longKey_row h hc hE 0 _ hcols
    rw [hsplit, firstKeys_chunk _ _ _ (by
      rw [hkey0]
      -- distinct fields give distinct keys
      have : (c.values.map fun kv => lcellKey c kv.1 (ldetailCols t E)) =
          (Dict.keys c.values).map fun f => lcellKey c f (ldetailCols t E) := by
        simp [Dict.keys, List.map_map, Function.comp_def]
      rw [this]
      exact List.Nodup.map_on (fun f _ g _ hfg => (lcellKey_inj h hE hc hc hfg).2) hok.nodup)
      (by
        intro r hr
        obtain ⟨i, _, hri⟩ := List.mem_flatMap.mp hr
        obtain ⟨kv, hkv, rfl⟩ := List.mem_map.mp hri
        rw [hkey0, longKey_row h hc hE (i + 1) _ hcols]
        exact List.mem_map.mpr ⟨kv, hkv, rfl⟩), hkey0]
  · -- blocks of different cells have different keys
    rw [List.pairwise_map]
    have hs : t.Pairwise (fun a b => a ∈ t ∧ b ∈ t ∧ a ≠ b) := by
      rw [List.pairwise_iff_getElem]
      intro i j hi hj hij
      exact ⟨List.getElem_mem hi, List.getElem_mem hj,
        List.pairwise_iff_getElem.mp h.nodup i j hi hj hij⟩
    refine hs.imp ?_
    intro a b ⟨ha, hb, hab⟩ x hx y hy hxy
    obtain ⟨kva, _, hka⟩ := key_lblock h hE hcols ha hx
    obtain ⟨kvb, _, hkb⟩ := key_lblock h hE hcols hb hy
    rw [hka, hkb] at hxy
    exact hab (lcellKey_inj h hE ha hb hxy).1

end lgroups


section lgroups2
variable {t : List Cell} {DK LK : List String} (h : WFlong t DK LK) {E : Row → Row} (hE : KeepsOthers E)
  (hcols : ∀ k ∈ ["period_start", "period_end", "evaluation_date", "field"],
    (colsOf (lrows t E)).contains k = true)
include h hE hcols

theorem long_filter {c : Cell} (hc : c ∈ t) {kv : String × Val} (hkv : kv ∈ c.values) :
    (lrows t E).filter (fun r => longKey (colsOf (lrows t E)) (ldetailCols t E) [] r ==
      lcellKey c kv.1 (ldetailCols t E)) = fieldRows t E c kv := by
  change ((t.map (lblock t E)).flatten).filter _ = _
  rw [filter_flatten_one (lblock t E) _ t c h.nodup hc]
  · -- inside the cell's block
    unfold lblock fieldRows
    rw [List.filter_flatMap]
    rw [List.map_eq_flatMap]
    apply List.flatMap_congr
    intro i _
    rw [List.filter_map]
    have : c.values.filter ((fun r => longKey (colsOf (lrows t E)) (ldetailCols t E) [] r ==
        lcellKey c kv.1 (ldetailCols t E)) ∘ fun kv' => E (longRow c (allMetadataNames t) i (kv'.1, qAt kv'.2 i))) =
        c.values.filter (fun x => x.1 == kv.1) := by
      apply List.filter_congr
      intro kv' hkv'
      simp only [Function.comp, longKey_row h hc hE i _ hcols]
      by_cases he : kv'.1 = kv.1
      · simp [he]
      · have : lcellKey c kv'.1 (ldetailCols t E) ≠ lcellKey c kv.1 (ldetailCols t E) :=
          fun hk => he (lcellKey_inj h hE hc hc hk).2
        simp [this, he]
    rw [this, filter_key_single c.values (h.cells c hc).1.nodup hkv]
    rfl
  · -- other cells contribute nothing
    intro c' hc' hne
    rw [List.filter_eq_nil_iff]
    intro r hr
    obtain ⟨kv', _, hk⟩ := key_lblock h hE hcols hc' hr
    rw [hk]
    have : lcellKey c' kv'.1 (ldetailCols t E) ≠ lcellKey c kv.1 (ldetailCols t E) :=
      fun hkk => hne (lcellKey_inj h hE hc' hc hkk).1
    simpa using this

/-- **the groups of the long table**: one per cell and field, in the order of the cells and of
each cell's fields, each holding that field's rows in scenario order -/
theorem long_groups :
    groupBy (longKey (colsOf (lrows t E)) (ldetailCols t E) []) (lrows t E) =
      (t.map fun c => c.values.map fun kv => (lcellKey c kv.1 (ldetailCols t E), fieldRows t E c kv)).flatten := by
  rw [groupBy_eq_map, long_firstKeys h hE hcols, List.map_flatten, List.map_map]
  congr 1
  apply List.map_congr_left
  intro c hc
  simp only [Function.comp, List.map_map]
  apply List.map_congr_left
  intro kv hkv
  simp only [Function.comp]
  rw [long_filter h hE hcols hc hkv]

end lgroups2


/-! ### reading the groups back: one cell at a time, one field at a time -/

def dataOf (v : Val) : List Rat := (valData v).getD []

/-- what the long reader makes of a cell -/
def lrecon (c : Cell) : Cell :=
  { kind := .cumulative, ps := c.ps, pe := c.pe, ev := c.ev, prev := none,
    values := c.values.map fun kv => (kv.1, reconVal (dataOf kv.2)), md := mergeLossDetails c.md }

def lpartial (c : Cell) (vals : Dict Val) : Cell :=
  { kind := .cumulative, ps := c.ps, pe := c.pe, ev := c.ev, prev := none, values := vals,
    md := mergeLossDetails c.md }

theorem lpartial_coord (c : Cell) (vals : Dict Val) (hp : c.prev = none) :
    (lpartial c vals).coord = (mergeCell c).coord := by
  simp [lpartial, mergeCell, Cell.coord, hp]

section lread
variable {t : List Cell} {DK LK : List String} (h : WFlong t DK LK) {E : Row → Row} (hE : KeepsOthers E)
  (hmode : (E = id ∧ (colsOf (lrows t E)).contains "scenario" = true) ∨ ∀ c ∈ t, sampleCount c = 1)
include h hE hmode

theorem fieldRows_sorted {c : Cell} (hc : c ∈ t) {kv : String × Val} (hkv : kv ∈ c.values)
    (h2 : 2 ≤ sampleCount c) :
    E = id ∧ (fieldRows t E c kv).Pairwise (fun a b => scenarioLe a b = true) ∧
      ∀ i, i < sampleCount c → Row.col (longRow c (allMetadataNames t) i (kv.1, qAt kv.2 i)) "scenario" =
        MVal.num ((i + 1 : Nat) : Rat) := by
  have hid : E = id := by
    rcases hmode with ⟨hid, _⟩ | h1
    · exact hid
    · have := h1 c hc; omega
  have hnc : ((Dict.get? c.values kv.1).map isConstantField).getD false = false := by
    rw [get?_of_mem_nodup (h.cells c hc).1.nodup hkv]
    obtain ⟨data, hd, hlen⟩ := (h.cells c hc).1.vals kv hkv
    cases hv : kv.2 with
    | none => rw [hv] at hd; simp [valData] at hd
    | int q => rw [hv] at hd; simp only [valData, Option.some.injEq] at hd; subst hd; simp at hlen; omega
    | flt q => rw [hv] at hd; simp only [valData, Option.some.injEq] at hd; subst hd; simp at hlen; omega
    | arr a b d => simp [isConstantField]
  have hscen : ∀ i, Row.col (longRow c (allMetadataNames t) i (kv.1, qAt kv.2 i)) "scenario" =
      MVal.num ((i + 1 : Nat) : Rat) := by
    intro i
    rw [scenario_longRow]
    simp only [hnc, Bool.false_eq_true, if_false]
  refine ⟨hid, ?_, fun i _ => hscen i⟩
  unfold fieldRows
  rw [List.pairwise_map]
  have : (List.range (sampleCount c)).Pairwise (· < ·) := List.pairwise_lt_range
  refine this.imp ?_
  intro i j hij
  rw [hid]
  simp only [id, scenarioLe, hscen]
  have : ((i + 1 : Nat) : Rat) ≤ ((j + 1 : Nat) : Rat) := by exact_mod_cast (by omega : i + 1 ≤ j + 1)
  simpa using this

theorem longGroupVal_fieldRows {c : Cell} (hc : c ∈ t) {kv : String × Val} (hkv : kv ∈ c.values) :
    longGroupVal (colsOf (lrows t E)) (fieldRows t E c kv) = some (reconVal (dataOf kv.2)) := by
  obtain ⟨hok, _⟩ := h.cells c hc
  obtain ⟨data, hd, hlen⟩ := hok.vals kv hkv
  have hdata : dataOf kv.2 = data := by simp [dataOf, hd]
  have hvs : (fieldRows t E c kv).filterMap (fun row => mvalNum? (Row.col row "value")) = data := by
    unfold fieldRows
    rw [List.filterMap_map]
    have : ∀ i ∈ List.range (sampleCount c),
        ((fun row => mvalNum? (Row.col row "value")) ∘
          fun i => E (longRow c (allMetadataNames t) i (kv.1, qAt kv.2 i))) i = data[i]? := by
      intro i hi
      have hi' : i < data.length := by rw [hlen]; exact List.mem_range.mp hi
      have hq : qAt kv.2 i = data[i] := by simp [qAt, hd, List.getElem?_eq_getElem hi']
      simp only [Function.comp, Row.col]
      rw [(lget_field h hc hE i (kv.1, qAt kv.2 i)).2]
      simp [mvalNum?, hq, List.getElem?_eq_getElem hi']
    rw [filterMap_congr' this, ← hlen]
    have := filterMap_id_getElem data
    rw [List.filterMap_map] at this
    simpa [Function.comp_def] using this
  unfold longGroupVal
  simp only [hvs, hdata]
  have hflen : (fieldRows t E c kv).length = sampleCount c := by simp [fieldRows]
  by_cases h2 : 2 ≤ sampleCount c
  · obtain ⟨hid, _, hscen⟩ := fieldRows_sorted h hE hmode hc hkv h2
    have h1 : ((fieldRows t E c kv).length == 1) = false := by
      rw [hflen]; apply beq_false_of_ne; omega
    have hall : ((fieldRows t E c kv).all fun row => Row.col row "scenario" == MVal.none) = false := by
      rw [List.all_eq_false]
      refine ⟨E (longRow c (allMetadataNames t) 0 (kv.1, qAt kv.2 0)), ?_, ?_⟩
      · exact List.mem_map.mpr ⟨0, List.mem_range.mpr (by omega), rfl⟩
      · rw [hid]; simp only [id, hscen 0 (by omega)]; simp
    rcases data with _ | ⟨a, _ | ⟨b, rest⟩⟩
    · simp at hlen; omega
    · simp at hlen; omega
    · simp [h1, hall, reconVal]
  · have h1 : sampleCount c = 1 := by have := hok.pos; omega
    have hl1 : ((fieldRows t E c kv).length == 1) = true := by rw [hflen, h1]; rfl
    rcases data with _ | ⟨q, _ | ⟨b, rest⟩⟩
    · simp at hlen; omega
    · simp [hl1, reconVal]
    · simp at hlen; omega

end lread


theorem addField_new {acc : List Cell} {c : Cell} {f : String} {v : Val} (hp : c.prev = none)
    (hd : c.datesOk = true)
    (hno : ∀ x ∈ acc, x.coord ≠ (mergeCell c).coord) :
    addField acc (lpartial c []) f v = .ok (acc ++ [lpartial c [(f, v)]]) := by
  unfold addField
  have hany : ¬ (acc.any (·.coord == (lpartial c []).coord) = true) := by
    intro ha
    obtain ⟨x, hx, hxc⟩ := List.any_eq_true.mp ha
    rw [lpartial_coord c [] hp] at hxc
    exact hno x hx (by simpa using hxc)
  rw [if_neg hany]
  have hdo : ({ lpartial c [] with values := [(f, v)] } : Cell).datesOk = true := by
    unfold Cell.datesOk at hd ⊢
    simp only [lpartial]
    rw [hp] at hd
    cases hck : c.kind <;> simp_all
  unfold Cell.mk?
  rw [if_pos hdo]
  rfl

theorem addField_more {pre : List Cell} {c : Cell} {vals : Dict Val} {f : String} {v : Val}
    (hp : c.prev = none) (hno : ∀ x ∈ pre, x.coord ≠ (mergeCell c).coord)
    (hf : f ∉ Dict.keys vals) :
    addField (pre ++ [lpartial c vals]) (lpartial c []) f v =
      .ok (pre ++ [lpartial c (vals ++ [(f, v)])]) := by
  unfold addField
  have hco : (lpartial c []).coord = (mergeCell c).coord := lpartial_coord c [] hp
  have hany : (pre ++ [lpartial c vals]).any (·.coord == (lpartial c []).coord) = true := by
    rw [List.any_append]
    simp [hco, lpartial_coord c vals hp]
  rw [if_pos hany]
  have hpre : pre.mapM (addFieldTo (lpartial c []) f v) = .ok pre := by
    have := mapM_ok_of_forall (addFieldTo (lpartial c []) f v) id pre (by
      intro x hx
      unfold addFieldTo
      have : (x.coord == (lpartial c []).coord) = false := by
        apply beq_false_of_ne; rw [hco]; exact hno x hx
      rw [this]; rfl)
    simpa using this
  rw [List.mapM_append, hpre]
  simp only [bind, Except.bind, List.mapM_cons, List.mapM_nil, pure, Except.pure]
  unfold addFieldTo
  have h1 : ((lpartial c vals).coord == (lpartial c []).coord) = true := by
    simp [hco, lpartial_coord c vals hp]
  have h2 : ((lpartial c vals).values.contains f) = false := by
    have : Dict.contains vals f = false := by
      cases hcn : Dict.contains vals f with
      | false => rfl
      | true => exact absurd ((Dict.contains_eq vals f).symm ▸ hcn |> fun h' => List.contains_iff_mem.mp h') hf
    simpa [lpartial] using this
  rw [h1, h2]
  rfl


section lfold
variable {t : List Cell} {DK LK : List String} (h : WFlong t DK LK) {E : Row → Row} (hE : KeepsOthers E)
  (hmode : (E = id ∧ (colsOf (lrows t E)).contains "scenario" = true) ∨ ∀ c ∈ t, sampleCount c = 1)
  (hcols : ∀ k ∈ ["period_start", "period_end", "evaluation_date", "field"],
    (colsOf (lrows t E)).contains k = true)
include h hE hmode hcols

theorem longStep_field (acc : List Cell) {c : Cell} (hc : c ∈ t) {kv : String × Val} (hkv : kv ∈ c.values) :
    longStep (colsOf (lrows t E)) (ldetailCols t E) [] acc
      (lcellKey c kv.1 (ldetailCols t E), fieldRows t E c kv) =
      addField acc (lpartial c []) kv.1 (reconVal (dataOf kv.2)) := by
  obtain ⟨hok, _⟩ := h.cells c hc
  have hflen : (fieldRows t E c kv).length = sampleCount c := by simp [fieldRows]
  have hsort : sortGroup (colsOf (lrows t E)) (fieldRows t E c kv) = .ok (fieldRows t E c kv) := by
    unfold sortGroup
    by_cases h1 : (fieldRows t E c kv).length > 1
    · rw [if_pos h1]
      obtain ⟨hid, hs, _⟩ := fieldRows_sorted h hE hmode hc hkv (by omega)
      rcases hmode with ⟨_, hsc⟩ | h1'
      · rw [if_pos hsc, List.mergeSort_of_pairwise hs]
      · have := h1' c hc; omega
    · rw [if_neg h1]
  unfold longStep
  rw [hsort]
  simp only [Except.bind]
  obtain ⟨m, hm⟩ : ∃ m, sampleCount c = m + 1 := ⟨sampleCount c - 1, by have := hok.pos; omega⟩
  have hcons : fieldRows t E c kv =
      E (longRow c (allMetadataNames t) 0 (kv.1, qAt kv.2 0)) ::
        ((List.range m).map fun i => E (longRow c (allMetadataNames t) (i + 1) (kv.1, qAt kv.2 (i + 1)))) := by
    unfold fieldRows
    rw [hm, List.range_succ_eq_map, List.map_cons, List.map_map]
    rfl
  have hval := longGroupVal_fieldRows h hE hmode hc hkv
  rw [hcons] at hval ⊢
  simp only
  have d1 : Row.col (E (longRow c (allMetadataNames t) 0 (kv.1, qAt kv.2 0))) "period_start" = .date c.ps := by
    unfold Row.col; rw [lget_coord h hc hE 0 _ (by simp)]; simp [cumBase, Dict.get?]
  have d2 : Row.col (E (longRow c (allMetadataNames t) 0 (kv.1, qAt kv.2 0))) "period_end" = .date c.pe := by
    unfold Row.col; rw [lget_coord h hc hE 0 _ (by simp)]; simp [cumBase, Dict.get?]
  have d3 : Row.col (E (longRow c (allMetadataNames t) 0 (kv.1, qAt kv.2 0))) "evaluation_date" = .date c.ev := by
    unfold Row.col; rw [lget_coord h hc hE 0 _ (by simp)]; simp [cumBase, Dict.get?]
  have d4 : Row.col (E (longRow c (allMetadataNames t) 0 (kv.1, qAt kv.2 0))) "field" = .str kv.1 := by
    unfold Row.col; rw [(lget_field h hc hE 0 (kv.1, qAt kv.2 0)).1]; rfl
  have hmd : rowMetadata (E (longRow c (allMetadataNames t) 0 (kv.1, qAt kv.2 0))) (ldetailCols t E) [] =
      mergeLossDetails c.md := by
    apply rowMetadata_long h hE hc
    intro k' hk'
    apply lcol_md h hc hE 0 _
    rcases hk' with h6 | hd
    · exact Or.inl h6
    · exact Or.inr (ldetailCols_sub h hE hd)
  rw [d1, d2, d3, d4, hmd, hval]
  simp only [mvalDate?, longAdd]
  rfl

theorem fold_cell_fields {c : Cell} (hc : c ∈ t) (pre : List Cell)
    (hno : ∀ x ∈ pre, x.coord ≠ (mergeCell c).coord) :
    ∀ (rest : List (String × Val)) (vals : Dict Val), (∀ kv ∈ rest, kv ∈ c.values) →
      ((Dict.keys vals ++ rest.map (·.1)).Nodup) →
      (rest.map fun kv => (lcellKey c kv.1 (ldetailCols t E), fieldRows t E c kv)).foldlM
        (longStep (colsOf (lrows t E)) (ldetailCols t E) []) (pre ++ [lpartial c vals]) =
        .ok (pre ++ [lpartial c (vals ++ rest.map fun kv => (kv.1, reconVal (dataOf kv.2)))])
  | [], vals, _, _ => by simp [pure, Except.pure]
  | kv :: rest, vals, hmem, hnd => by
    rw [List.map_cons, List.foldlM_cons, longStep_field h hE hmode hcols _ hc (hmem kv List.mem_cons_self)]
    have hf : kv.1 ∉ Dict.keys vals := by
      intro hk
      rw [List.nodup_append] at hnd
      exact hnd.2.2 kv.1 hk kv.1 (by simp) rfl
    rw [addField_more (h.cum c hc).2 hno hf]
    simp only [bind, Except.bind]
    rw [fold_cell_fields hc pre hno rest (vals ++ [(kv.1, reconVal (dataOf kv.2))])
      (fun x hx => hmem x (List.mem_cons_of_mem _ hx)) (by
        simp only [Dict.keys, List.map_append, List.map_cons, List.map_nil, List.append_assoc,
          List.singleton_append] at hnd ⊢
        exact hnd)]
    simp [List.append_assoc]

theorem fold_cell {c : Cell} (hc : c ∈ t) (pre : List Cell)
    (hno : ∀ x ∈ pre, x.coord ≠ (mergeCell c).coord) :
    (c.values.map fun kv => (lcellKey c kv.1 (ldetailCols t E), fieldRows t E c kv)).foldlM
      (longStep (colsOf (lrows t E)) (ldetailCols t E) []) pre = .ok (pre ++ [lrecon c]) := by
  obtain ⟨hok, hne⟩ := h.cells c hc
  cases hv : c.values with
  | nil => exact absurd hv hne
  | cons kv rest =>
    have hkv : kv ∈ c.values := by rw [hv]; exact List.mem_cons_self
    rw [List.map_cons, List.foldlM_cons, longStep_field h hE hmode hcols _ hc hkv,
      addField_new (h.cum c hc).2 (h.dates c hc) hno]
    simp only [bind, Except.bind]
    have hnd := hok.nodup
    rw [hv] at hnd
    rw [fold_cell_fields h hE hmode hcols hc pre hno rest [(kv.1, reconVal (dataOf kv.2))]
      (fun x hx => by rw [hv]; exact List.mem_cons_of_mem _ hx)
      (by simpa [Dict.keys] using hnd)]
    simp [lrecon, lpartial, hv]

theorem fold_cells : ∀ (suffix pre : List Cell), (∀ c ∈ suffix, c ∈ t) →
    ((pre.map fun c => (mergeCell c).coord) ++ (suffix.map fun c => (mergeCell c).coord)).Nodup →
    (∀ c ∈ pre, c.prev = none) →
    ((suffix.map fun c => c.values.map fun kv =>
        (lcellKey c kv.1 (ldetailCols t E), fieldRows t E c kv)).flatten).foldlM
      (longStep (colsOf (lrows t E)) (ldetailCols t E) []) (pre.map lrecon) =
      .ok ((pre ++ suffix).map lrecon)
  | [], pre, _, _, _ => by simp [pure, Except.pure]
  | c :: rest, pre, hmem, hnd, hprev => by
    have hc : c ∈ t := hmem c List.mem_cons_self
    rw [List.map_cons, List.flatten_cons, List.foldlM_append]
    have hno : ∀ x ∈ pre.map lrecon, x.coord ≠ (mergeCell c).coord := by
      intro x hx
      obtain ⟨p, hp, rfl⟩ := List.mem_map.mp hx
      have : (lrecon p).coord = (mergeCell p).coord := by
        simp [lrecon, mergeCell, Cell.coord, hprev p hp]
      rw [this]
      intro he
      rw [List.nodup_append] at hnd
      exact hnd.2.2 _ (List.mem_map_of_mem hp) _ (List.mem_map.mpr ⟨c, List.mem_cons_self, rfl⟩) he
    rw [fold_cell h hE hmode hcols hc (pre.map lrecon) hno]
    simp only [bind, Except.bind]
    have := fold_cells rest (pre ++ [c]) (fun x hx => hmem x (List.mem_cons_of_mem _ hx))
      (by simpa [List.append_assoc] using hnd)
      (by
        intro x hx
        rcases List.mem_append.mp hx with h1 | h1
        · exact hprev x h1
        · simp only [List.mem_singleton] at h1; rw [h1]; exact (h.cum c hc).2)
    simp only [List.map_append, List.map_cons, List.map_nil, List.append_assoc, List.singleton_append] at this ⊢
    exact this

end lfold


/-! ### the whole long table and the round trip -/

theorem lblock_map (t : List Cell) (E : Row → Row) (c : Cell) : (lblock t id c).map E = lblock t E c := by
  simp [lblock, List.map_flatMap, List.map_map, Function.comp_def]

theorem toLongRows_ok {t : List Cell} {DK LK : List String} (h : WFlong t DK LK) :
    ∃ E : Row → Row, KeepsOthers E ∧ toLongRows t = .ok (mkTable (lrows t E)) ∧
      ((E = id ∧ (colsOf (lrows t E)).contains "scenario" = true) ∨ ∀ c ∈ t, sampleCount c = 1) := by
  unfold toLongRows
  have hblocks : t.mapM (fun c => cellLongRows c (allMetadataNames t)) = .ok (t.map (lblock t id)) := by
    apply mapM_ok_of_forall
    intro c hc
    exact cellLongRows_ok (h.cells c hc).1
  rw [hblocks]
  simp only [Except.bind]
  change ∃ E, KeepsOthers E ∧ (dropConstantScenario (lrows t id)).map mkTable = _ ∧ _
  have hex : ∃ r, r ∈ lrows t id := by
    obtain ⟨c, hc⟩ := List.exists_mem_of_ne_nil _ h.ne
    obtain ⟨hok, hne⟩ := h.cells c hc
    obtain ⟨kv, hkv⟩ := List.exists_mem_of_ne_nil _ hne
    exact ⟨_, mem_lrows.mpr ⟨c, hc, 0, hok.pos, kv, hkv, rfl⟩⟩
  unfold dropConstantScenario
  cases hrows : lrows t id with
  | nil => obtain ⟨r, hr⟩ := hex; rw [hrows] at hr; cases hr
  | cons r rest =>
    simp only
    rw [← hrows]
    by_cases hconst : scenarioConstant (lrows t id) r = true
    · rw [if_pos hconst]
      refine ⟨eraseScenario, keepsOthers_erase, ?_, Or.inr ?_⟩
      · simp only [Except.map]
        congr 2
        simp [lrows, List.map_flatten, List.map_map, Function.comp_def, lblock_map]
      · intro c hc
        apply Classical.byContradiction
        intro hne1
        obtain ⟨hok, hvne⟩ := h.cells c hc
        have h2 : 2 ≤ sampleCount c := by have := hok.pos; omega
        obtain ⟨kv, hkv⟩ := List.exists_mem_of_ne_nil _ hvne
        -- scenario values 1 and 2 of this field
        have hnc : ((Dict.get? c.values kv.1).map isConstantField).getD false = false := by
          rw [get?_of_mem_nodup hok.nodup hkv]
          obtain ⟨data, hd, hlen⟩ := hok.vals kv hkv
          cases hv : kv.2 with
          | none => rw [hv] at hd; simp [valData] at hd
          | int q => rw [hv] at hd; simp only [valData, Option.some.injEq] at hd; subst hd; simp at hlen; omega
          | flt q => rw [hv] at hd; simp only [valData, Option.some.injEq] at hd; subst hd; simp at hlen; omega
          | arr a b d => simp [isConstantField]
        have m0 : longRow c (allMetadataNames t) 0 (kv.1, qAt kv.2 0) ∈ lrows t id :=
          mem_lrows.mpr ⟨c, hc, 0, by omega, kv, hkv, rfl⟩
        have m1 : longRow c (allMetadataNames t) 1 (kv.1, qAt kv.2 1) ∈ lrows t id :=
          mem_lrows.mpr ⟨c, hc, 1, by omega, kv, hkv, rfl⟩
        have s0 : Row.col (longRow c (allMetadataNames t) 0 (kv.1, qAt kv.2 0)) "scenario" = MVal.num ((0 + 1 : Nat) : Rat) := by
          rw [scenario_longRow]; simp only [hnc, Bool.false_eq_true, if_false]
        have s1 : Row.col (longRow c (allMetadataNames t) 1 (kv.1, qAt kv.2 1)) "scenario" = MVal.num ((1 + 1 : Nat) : Rat) := by
          rw [scenario_longRow]; simp only [hnc, Bool.false_eq_true, if_false]
        unfold scenarioConstant at hconst
        simp only [Bool.or_eq_true, Bool.and_eq_true, List.all_eq_true, List.mem_map, forall_exists_index,
          and_imp, forall_apply_eq_imp_iff₂, beq_iff_eq] at hconst
        rcases hconst with ⟨_, hall⟩ | hall
        · have e0 := hall _ m0
          have e1 := hall _ m1
          rw [s0] at e0; rw [s1] at e1
          rw [← e1] at e0
          simp at e0
        · have e0 := hall _ m0
          rw [s0] at e0
          cases e0
    · rw [if_neg hconst]
      refine ⟨id, keepsOthers_id, rfl, Or.inl ⟨rfl, ?_⟩⟩
      apply List.contains_iff_mem.mpr
      have hr : r ∈ lrows t id := by rw [hrows]; exact List.mem_cons_self
      obtain ⟨c, hc, i, _, kv, _, rfl⟩ := mem_lrows.mp hr
      refine mem_colsOf.mpr ⟨_, hr, ?_⟩
      simp only [id]
      have : Dict.get? (longRow c (allMetadataNames t) i (kv.1, qAt kv.2 i)) "scenario" ≠ none := by
        rw [longRow_eq, Dict.get?_union _ _ (lastThree_wf _ _ _)]
        simp [lastThree, Dict.get?]
      cases hg : Dict.get? (longRow c (allMetadataNames t) i (kv.1, qAt kv.2 i)) "scenario" with
      | none => exact absurd hg this
      | some v => exact mem_keys_of_get? hg


theorem nodup_eraseDups' {α : Type} [BEq α] [LawfulBEq α] : ∀ l : List α, l.eraseDups.Nodup
  | [] => by simp
  | a :: l => by
    rw [List.eraseDups_cons, List.nodup_cons]
    refine ⟨?_, nodup_eraseDups' _⟩
    intro hm
    have := List.mem_eraseDups.mp hm
    simp at this
termination_by l => l.length
decreasing_by
  simp only [List.length_cons]
  exact Nat.lt_succ_of_le (List.length_filter_le _ _)

theorem canonCell_lrecon {t : List Cell} {DK LK : List String} (h : WFlong t DK LK) {c : Cell} (hc : c ∈ t) :
    canonCell (lrecon c) = canonCell (mergeCell c) := by
  obtain ⟨hk, hp⟩ := h.cum c hc
  have hkind : typedKind CellKind.cumulative = typedKind c.kind := by
    cases hck : c.kind <;> simp_all [typedKind]
  unfold canonCell
  simp only [lrecon, mergeCell, hp, hkind]
  congr 2
  rw [List.map_map]
  apply List.map_congr_left
  intro kv hkv
  obtain ⟨data, hd, hlen⟩ := (h.cells c hc).1.vals kv hkv
  simp only [Function.comp, dataOf, hd, Option.getD_some]
  rw [numV_reconVal hd (by
    intro he; rw [he] at hlen; have := (h.cells c hc).1.pos; simp at hlen; omega)]

/-- **fromLong_toLong** (cumulative triangles). Writing a well-formed triangle to the long table
and reading it back with `from_long_csv`'s arguments (no `loss_detail_cols`) — grouping the rows by
the GENERATED key list — gives the triangle with the loss details folded into the details (and
re-sorted accordingly): same coordinates, field sets, numbers as floats, sample order; every slice
stays separate. -/
theorem fromLong_toLong {t : List Cell} {DK LK : List String} (h : WFlong t DK LK) :
    okAnd (fun out => longSpec t out && slicesSpec true t out)
      ((toLongRows t).bind fun tb => fromLongRows tb []) = true := by
  obtain ⟨E, hE, hw, hmode⟩ := toLongRows_ok h
  rw [hw]
  simp only [Except.bind]
  have hrowex : ∃ c ∈ t, ∃ kv ∈ c.values, E (longRow c (allMetadataNames t) 0 (kv.1, qAt kv.2 0)) ∈ lrows t E := by
    obtain ⟨c, hc⟩ := List.exists_mem_of_ne_nil _ h.ne
    obtain ⟨hok, hne⟩ := h.cells c hc
    obtain ⟨kv, hkv⟩ := List.exists_mem_of_ne_nil _ hne
    exact ⟨c, hc, kv, hkv, mem_lrows.mpr ⟨c, hc, 0, hok.pos, kv, hkv, rfl⟩⟩
  have hnoprev : (mkTable (lrows t E)).cols.contains "prev_evaluation_date" = false := by
    cases hcn : (mkTable (lrows t E)).cols.contains "prev_evaluation_date" with
    | false => rfl
    | true =>
      exfalso
      obtain ⟨r, hr, hk⟩ := mem_colsOf.mp (List.contains_iff_mem.mp hcn)
      obtain ⟨c, hc', i, _, kv, _, rfl⟩ := mem_lrows.mp hr
      have := lget_coord h hc' hE i (kv.1, qAt kv.2 i) (k := "prev_evaluation_date") (by simp)
      have hnone : Dict.get? (cumBase c) "prev_evaluation_date" = none := by simp [cumBase, Dict.get?]
      rw [hnone] at this
      exact (Dict.get?_eq_none_iff.mp this) hk
  have hcols : ∀ k ∈ ["period_start", "period_end", "evaluation_date", "field"],
      (colsOf (lrows t E)).contains k = true := by
    intro k hk
    obtain ⟨c, hc, kv, hkv, hr⟩ := hrowex
    apply List.contains_iff_mem.mpr
    refine mem_colsOf.mpr ⟨_, hr, ?_⟩
    simp only [List.mem_cons, List.not_mem_nil, or_false] at hk
    rcases hk with rfl | rfl | rfl | rfl
    · have := lget_coord h hc hE 0 (kv.1, qAt kv.2 0) (k := "period_start") (by simp)
      have hb : Dict.get? (cumBase c) "period_start" = some (.date c.ps) := by simp [cumBase, Dict.get?]
      rw [hb] at this
      exact mem_keys_of_get? this
    · have := lget_coord h hc hE 0 (kv.1, qAt kv.2 0) (k := "period_end") (by simp)
      have hb : Dict.get? (cumBase c) "period_end" = some (.date c.pe) := by simp [cumBase, Dict.get?]
      rw [hb] at this
      exact mem_keys_of_get? this
    · have := lget_coord h hc hE 0 (kv.1, qAt kv.2 0) (k := "evaluation_date") (by simp)
      have hb : Dict.get? (cumBase c) "evaluation_date" = some (.date c.ev) := by simp [cumBase, Dict.get?]
      rw [hb] at this
      exact mem_keys_of_get? this
    · exact mem_keys_of_get? (lget_field h hc hE 0 (kv.1, qAt kv.2 0)).1
  unfold fromLongRows
  rw [hnoprev]
  simp only [Bool.false_eq_true, if_false]
  unfold fromLongCum
  show okAnd _ (((groupBy (longKey (colsOf (lrows t E)) (ldetailCols t E) []) (lrows t E)).foldlM
    (longStep (colsOf (lrows t E)) (ldetailCols t E) []) []).bind Triangle.ofCells) = true
  rw [long_groups h hE hcols]
  have hfold := fold_cells h hE hmode hcols t [] (fun c hc => hc) (by simpa using h.inj) (by intro c hc; cases hc)
  simp only [List.map_nil, List.nil_append] at hfold
  rw [hfold]
  simp only [Except.bind]
  -- the constructor sorts by the merged metadata
  have hk : kindsConsistent (t.map lrecon) = true := by
    unfold kindsConsistent
    simp [lrecon]
  unfold Triangle.ofCells
  rw [if_pos hk]
  have hr1 : (t.map lrecon).mergeSort Cell.le =
      (t.mergeSort fun a b => Cell.le (mergeCell a) (mergeCell b)).map lrecon := by
    symm
    apply List.map_mergeSort
    intro a ha b hb
    simp only [Cell.le, Cell.cmp, compareLex, cmpOn, lrecon, mergeCell, (h.cum a ha).2, (h.cum b hb).2]
  have hr2 : (t.map fun c => { c with md := mergeLossDetails c.md }).mergeSort Cell.le =
      (t.mergeSort fun a b => Cell.le (mergeCell a) (mergeCell b)).map mergeCell := by
    symm
    apply List.map_mergeSort
    intro a _ b _
    rfl
  have hperm : (t.mergeSort fun a b => Cell.le (mergeCell a) (mergeCell b)).Perm t := List.mergeSort_perm _ _
  have hcanon : ((t.mergeSort fun a b => Cell.le (mergeCell a) (mergeCell b)).map lrecon).map canonCell =
      ((t.mergeSort fun a b => Cell.le (mergeCell a) (mergeCell b)).map mergeCell).map canonCell := by
    rw [List.map_map, List.map_map]
    apply List.map_congr_left
    intro c hc
    exact canonCell_lrecon h (hperm.mem_iff.mp hc)
  simp only [okAnd, longSpec, sameNumeric, hr1, hr2, hcanon, beq_self_eq_true, Bool.true_and]
  -- slices
  unfold slicesSpec
  simp only [if_true]
  have hmds : ((t.mergeSort fun a b => Cell.le (mergeCell a) (mergeCell b)).map lrecon).map (·.md) =
      (t.mergeSort fun a b => Cell.le (mergeCell a) (mergeCell b)).map fun c => mergeLossDetails c.md := by
    rw [List.map_map]; rfl
  rw [hmds]
  have hmem : ∀ m, m ∈ ((t.mergeSort fun a b => Cell.le (mergeCell a) (mergeCell b)).map
      fun c => mergeLossDetails c.md).eraseDups ↔ m ∈ (t.map fun c => mergeLossDetails c.md).eraseDups := by
    intro m
    rw [List.mem_eraseDups, List.mem_eraseDups]
    exact (hperm.map _).mem_iff
  have hlen : ((t.map fun c => mergeLossDetails c.md).eraseDups).length =
      (((t.mergeSort fun a b => Cell.le (mergeCell a) (mergeCell b)).map
        fun c => mergeLossDetails c.md).eraseDups).length := by
    apply List.Perm.length_eq
    rw [List.perm_ext_iff_of_nodup (nodup_eraseDups' _) (nodup_eraseDups' _)]
    intro m; exact (hmem m).symm
  simp only [Bool.and_eq_true, beq_iff_eq, List.all_eq_true, List.contains_iff_mem]
  exact ⟨⟨hlen, fun m hm => (hmem m).mpr hm⟩, fun m hm => (hmem m).mp hm⟩

end Bermuda.Frame
